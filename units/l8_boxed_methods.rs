// L8: BoxedUint algorithms (src/uint/boxed/*.rs) proved over ASSUMED contracts of the boxed primitives -- C20 C07 C02 C15 C10
// (companions: l8_boxed_invmod.rs = inv_mod / inv_mod2k*, l8_boxed_pow.rs = BoxedMontyMultiplier + pow_montgomery_form,
//  l8_boxed_ct.rs = ct_assign + set_zero, l8_boxed_lemmas.rs = shared number-theory lemmas)
//
// Every BoxedUint handled here satisfies `wf()`: 1 <= nlimbs < 2^26 (`bits_precision()` = `len as u32 * 64` overflows above); the
// contracts state value `v()` AND result precision `nl()` (= bits_precision / 64) -- C15 "results have the documented precision".
//
// Layer 1, ASSUMED (`stub`):
//   From<u64 | u128> (go through `impl From<u64 | u128> for Uint<LIMBS>`, whose `debug_assert!(LIMBS >= ..)` needs a `requires`
//   that a trait-impl method cannot carry),
//   safegcd::boxed::gcd (Bernstein-Yang core), Integer::is_odd (provided trait method, hand-declared).
//   Library (assume_specification): `<BoxedUint as Clone>::clone` (derived), `<[T]>::clone_from_slice`, `Box<T>::as_ref / as_mut`, `Vec<T>: From<Box<[T]>>`,
//   `Box<[T]>: From<&[T]>`, `core::cmp::max`, `Option<&T>::copied`, `<slice::Iter as Iterator>::fold`, `<Ordering as PartialEq>::eq`
//   (+ `Vec::into_boxed_slice`, `Box<[T]>: From<Vec<T>>` in l7_boxed_div.rs). Model of subtle: ConditionallySelectable (u64, u32, Ordering),
//   ConstantTimeGreater / ConstantTimeLess (u32), ConstantTimeEq for u32, BitAndAssign for Choice (verified against BitAnd). Model of core:
//   `&T: AsRef<U>` forwards (`obeys_as_ref_spec`).
// Layer 1, PROVED (`body`): fold_limbs, map_limbs (higher-order contracts over `f.requires` / `f.ensures`; `let &a = EXPR;` rewritten to
//   `let a = *EXPR;` by a `//@@ subst`, Verus has no "ref patterns"), div_rem_vartime (Knuth slice routine of l7_boxed_div.rs; LIMITATION 1 lifted by the
//   `//@@ subst` next to it), limbs_for_precision, zero_with_precision, is_zero (fold + closure), From<Vec<Limb>> (l7_boxed_div.rs), From<Box<[Limb]>>,
//   From<&[Limb]>, From<Limb>, adc, sbb (closures over fold_limbs; sbb is total), bitand (map_limbs), adc_assign, sbb_assign (rhs: impl AsRef<[Limb]>,
//   under `asref_ok(&rhs)`), shl1_assign, shr1_assign, shl_vartime_into, shr_vartime_into (dest pre-zeroized = precondition), conditional_set_zero,
//   overflowing_shl_assign, overflowing_shr_assign (constant-time ladder over the two; `ct_assign` and `Zero::set_zero` are the second methods of trait
//   impls already used here, so they are declared and proved in l8_boxed_ct.rs and imported by name: the two modules import each other), wrapping_neg, mul (schoolbook / Karatsuba slices of l7_boxed_slices.rs), shorten, cmp_vartime,
//   ConstantTimeEq::ct_eq, ConstantTimeSelect::ct_select, Ord::cmp, as_limbs, as_limbs_mut, the `i32` arms of `impl_shl! / impl_shr!` for Limb,
//   nlimbs, bits_precision, one_with_precision, is_nonzero, leading_zeros, bits, bits_vartime, trailing_zeros (over the
//   slice functions of l2_shift.rs), overflowing_shl / overflowing_shr / overflowing_shl1 / shr1 (clone + *_assign), wrapping_add / wrapping_sub /
//   wrapping_mul, conditional_adc_assign / conditional_sbb_assign (limb loops), ct_gt, ct_lt (total), PartialEq / PartialOrd, Zero::is_zero, `BitAnd for Limb`,
//   `ConditionallySelectable for Limb`, `AsRef<[Limb]> for BoxedUint`, NonZero::as_ref, div_rem(_limb)(_with_reciprocal), rem_limb*.
// FINDING (contract repaired while proving it): the assumed contract of `sbb_assign` promised a mask-shaped borrow for EVERY input; for a
//   zero-limb `self` (reachable: `BoxedUint::from(&[][..])`) the function returns `borrow` unchanged, e.g. `Limb(1 << 63)`. The proved contract
//   requires `nlimbs >= 1 || borrow is 0 / MAX` (all callers pass `Limb::ZERO`). `adc_assign` / `sbb_assign` now also require `asref_ok(&rhs)`
//   (the result of `rhs.as_ref()` is `rhs.as_ref_spec()`): the assumed contract silently identified the two.
// Layer 2, PROVED (`body`):
//   C20  sqrt (incl. the Hast iteration bound `log2_bits() + 2`), sqrt_vartime, wrapping_sqrt(_vartime), checked_sqrt(_vartime), SquareRoot::sqrt,
//        `BitOps::log2_bits` (default method of the trait, extracted from src/traits.rs) + `BitOps for BoxedUint::bits_precision`
//   C07  add_mod_assign, add_mod, double_mod, sub_mod, sub_assign_mod_with_carry, sub_mod_special, neg_mod, neg_mod_special, mac_by_limb,
//        mul_mod_special, AddMod / SubMod / NegMod impls            (BoxedUint has no add_mod_special / sub_mod_assign)
//   C02/C15  (over `div_rem_unchecked`, the constant-time Knuth D division, PROVED in l8_boxed_divct.rs together with to_limbs / shl / shr)
//        div_rem, rem, wrapping_div, wrapping_div_vartime, checked_div, rem_vartime (PARTIAL, LIMITATION 1), CheckedDiv, DivVartime,
//        the four `/` forms and `&a % &d`
//   C10  `Gcd for BoxedUint::gcd` (power-of-two split around the assumed odd-operand safegcd)
// NOT covered: mul_mod / MulMod (goes through BoxedMontyForm), traits with two methods in one impl
//   (SquareRoot::sqrt_vartime, Gcd::gcd_vartime, ct_swap ...: a region emits one `impl` block per method, so one method per trait impl per unit).
//
// LIMITATION 1 (Verus): `&mut x.limbs[..k]` -- range IndexMut through a `Box<[Limb]>` place -- yields an unconstrained slice (the encoder types
//   the receiver `MUTREF (BOX ..)`, vstd's slice index_mut axiom is guarded by `MUTREF $slice`). The multi-limb arms of div_rem_vartime /
//   rem_vartime (`div_rem_vartime_in_place(&mut quo.limbs, &mut rem.limbs[..yc])`) are therefore unverifiable: div_rem_vartime is a stub with the
//   general contract (sqrt_vartime needs it) [2026-10-04: now a body -- the reborrow `&mut Box<[Limb]> -> &mut [Limb]` is named by a one-statement
//   `//@@ subst` (`{ let rem_limbs__: &mut [Limb] = &mut rem.limbs; div_rem_vartime_in_place(&mut quo.limbs, &mut rem_limbs__[..yc]); }`), which Verus models];
//   rem_vartime is (still) a body under the extra precondition `rhs < 2^64` (divisor VALUE fits one limb: the
//   `1 =>` fast path; the other arms are dead code under it) -- this pins the result precision of the fast path (rhs.bits_precision()).
// Lemmas copied from private lemmas of other units (request: make them `pub` there): the whole Newton / Hast development of l4_sqrt.rs,
//   lemma_cond_sub / lemma_cond_add / lemma_mms_core of l4_modular.rs, lemma_bs_val_split of l7_boxed_slices.rs.
// dev: /verif/tools/vunit.py l8_boxed_methods   (needs gen.py with `trait X` headers and `#![feature(sized_hierarchy)]` in root.rs)
use vstd::prelude::*;
use vstd::arithmetic::power::*;
use vstd::arithmetic::power2::*;
use vstd::arithmetic::div_mod::*;
use vstd::std_specs::bits::*;
use vstd::std_specs::cmp::*;
use vstd::std_specs::iter::IteratorSpec;
use core::cmp::{Ordering, max};
use core::cmp;   // fold_limbs / map_limbs call `cmp::max`
use core::ops::{BitAnd, Div, Rem, Shl, Shr, ShlAssign, ShrAssign};
use crate::speclib::*;
use crate::speclib_bits::*;
use crate::l0_prim::*;
use crate::l0_corespec::*;
use crate::l1_choice::*;
use crate::l1_limb::*;
use crate::l2_core::*;
use crate::l2_shift::*;
use crate::l2_subtle::*;
use crate::l3_divlimb::*;
use crate::l4_int::*;
use crate::l4_sqrt::*;
use crate::l4_modular::*;
use crate::l7_traits::*;
use crate::l7_boxed_div::*;
use crate::l7_boxed_slices::*;
use crate::l4_invmod::gcd as spec_gcd;
use crate::l4_invmod::{lemma_gcd_divides};
use crate::l8_boxed_lemmas::*;
use crate::l8_boxed_safegcd::SG_BOXED_MAX_SAT;   // (closure: `safegcd::boxed::gcd` is proved in l8_boxed_safegcd.rs)
use crate::l8_boxed_divct::*;                                // div_rem_unchecked (constant-time Knuth D) + to_limbs, shl, shr
use crate::l8_boxed_ct::ConstantTimeSelect as CtAssign;   // `ct_assign` (second method of the trait impl: declared and proved in l8_boxed_ct.rs)
use crate::l8_boxed_ct::Zero as ZeroSet;                  // `set_zero` (same situation)
verus! {

// ------------------------------------------------------------------------------------------------
// library assumptions (no vstd specification)
// ------------------------------------------------------------------------------------------------
// `#[derive(Clone)]` of BoxedUint (marked `external_derive` in l7_boxed_div.rs): clones the boxed slice
pub assume_specification [<BoxedUint as Clone>::clone] (x: &BoxedUint) -> (r: BoxedUint)
    ensures r.limbs@ == x.limbs@;
// `<[T]>::clone_from_slice`: panics unless the lengths agree
pub assume_specification<T: Clone> [<[T]>::clone_from_slice] (s: &mut [T], src: &[T])
    requires old(s).len() == src.len()
    ensures final(s)@ == src@;

// `<Box<T> as AsRef<T>>::as_ref` / `<Box<T> as AsMut<T>>::as_mut`: the pointee (`self.limbs.as_ref()`, `self.limbs.as_mut()`)
pub assume_specification<T: core::marker::MetaSized + ?Sized, A: core::alloc::Allocator> [<Box<T, A> as AsRef<T>>::as_ref] (b: &Box<T, A>) -> (r: &T)
    ensures r == &**b;
pub assume_specification<T: core::marker::MetaSized + ?Sized, A: core::alloc::Allocator> [<Box<T, A> as AsMut<T>>::as_mut] (b: &mut Box<T, A>) -> (r: &mut T)
    ensures &*r == &**old(b), &*final(r) == &**final(b);
// `impl<T, A> From<Box<[T], A>> for Vec<T, A>` (= `<[T]>::into_vec`): same elements
pub assume_specification<T, A: core::alloc::Allocator> [<Vec<T, A> as From<Box<[T], A>>>::from] (b: Box<[T], A>) -> (r: Vec<T, A>)
    ensures r@ == b@;
// `core::cmp::max(a, b)`: `b` unless `a > b` (core: `max_by(v1, v2, Ord::cmp)`)
#[verifier::allow(undeclared_external_trait)]
pub assume_specification<T: core::cmp::Ord + core::marker::Destruct> [core::cmp::max] (a: T, b: T) -> (r: T)
    ensures T::obeys_cmp_spec() ==> r == (if a.cmp_spec(&b) == Ordering::Greater { a } else { b });
// `<slice::Iter<T> as Iterator>::fold` (the slice iterator overrides the provided method): the accumulator chain over the remaining items.
// (closures handled by Verus capture no mutable state, so one `f` describes every call)
pub assume_specification<'a, T, B, F: FnMut(B, &'a T) -> B> [<core::slice::Iter<'a, T> as Iterator>::fold] (it: core::slice::Iter<'a, T>, init: B, f: F) -> (r: B)
    requires forall|acc: B, x: &'a T| #[trigger] f.requires((acc, x))
    ensures exists|accs: Seq<B>| #[trigger] accs.len() == IteratorSpec::remaining(&it).len() + 1 && accs[0] == init && accs[accs.len() - 1] == r
        && forall|k: int| 1 <= k < accs.len() ==> f.ensures((accs[k - 1], IteratorSpec::remaining(&it)[k - 1]), #[trigger] accs[k]);
// `#[derive(PartialEq)]` of `core::cmp::Ordering` (`ret == Ordering::Equal` in `Ord::cmp`)
pub assume_specification [<Ordering as PartialEq>::eq] (a: &Ordering, b: &Ordering) -> (r: bool)
    ensures r == (*a == *b);
// `Option::<&T>::copied`
pub assume_specification<'a, T: Copy> [Option::<&'a T>::copied] (o: Option<&'a T>) -> (r: Option<T>)
    ensures r == (match o { Some(x) => Some(*x), None => None });
// `impl<T: Clone> From<&[T]> for Box<[T]>`: element-wise clone (`limbs.into()` in `From<&[Limb]> for BoxedUint`)
pub assume_specification<'a, T: Clone> [<Box<[T]> as From<&'a [T]>>::from] (s: &[T]) -> (r: Box<[T]>)
    ensures r@.len() == s@.len(), forall|k: int| 0 <= k < s@.len() ==> cloned(s@[k], #[trigger] r@[k]);

// ------------------------------------------------------------------------------------------------
// `impl_shl!(i32, u32, usize)` / `impl_shr!(..)` of src/limb/shl.rs, src/limb/shr.rs: the `$shift = i32` arms, written out by hand like the
// u32 arms in l7_boxed_div.rs (the macrofn extractor cannot instantiate `$( .. )+` arms). With both arms present an integer literal shift
// amount (`x << 1`, `x.shl_assign(1)`, `x.shr_assign(1)` in shl1_assign / shr1_assign) resolves to i32 exactly as in /repo. Bodies VERIFIED
// (vstd specifies `u32::try_from(i32)`), against the inherent `Limb::shl` / `Limb::shr` (l1_limb.rs).
// ------------------------------------------------------------------------------------------------
impl vstd::std_specs::ops::ShlSpecImpl<i32> for Limb {
    open spec fn obeys_shl_spec() -> bool { true }
    open spec fn shl_req(self, rhs: i32) -> bool { 0 <= rhs < 64 }
    open spec fn shl_spec(self, rhs: i32) -> Limb { Limb(self.0 << (rhs as u32)) }
}
impl Shl<i32> for Limb {
    type Output = Limb;
    fn shl(self, shift: i32) -> (ret__: Limb)
    {
        proof { if 0 <= shift < 64 { lemma_u64_shl_mod(self.0, shift as u32); } }
        Self::shl(self, u32::try_from(shift).expect("invalid shift"))
    }
}
impl vstd::std_specs::ops::ShrSpecImpl<i32> for Limb {
    open spec fn obeys_shr_spec() -> bool { true }
    open spec fn shr_req(self, rhs: i32) -> bool { 0 <= rhs < 64 }
    open spec fn shr_spec(self, rhs: i32) -> Limb { Limb(self.0 >> (rhs as u32)) }
}
impl Shr<i32> for Limb {
    type Output = Limb;
    fn shr(self, shift: i32) -> (ret__: Limb)
    {
        proof { if 0 <= shift < 64 { lemma_u64_shr_div(self.0, shift as u32); } }
        Self::shr(self, u32::try_from(shift).expect("invalid shift"))
    }
}
impl vstd::std_specs::ops::ShlAssignSpecImpl<i32> for Limb {
    open spec fn obeys_shl_assign_spec() -> bool { true }
    open spec fn shl_assign_req(&self, rhs: i32) -> bool { 0 <= rhs < 64 }
    open spec fn shl_assign_spec(&self, rhs: i32) -> &Limb { &Limb(self.0 << (rhs as u32)) }
}
impl ShlAssign<i32> for Limb {
    fn shl_assign(&mut self, shift: i32)
    { *self = *self << shift; }
}
impl vstd::std_specs::ops::ShrAssignSpecImpl<i32> for Limb {
    open spec fn obeys_shr_assign_spec() -> bool { true }
    open spec fn shr_assign_req(&self, rhs: i32) -> bool { 0 <= rhs < 64 }
    open spec fn shr_assign_spec(&self, rhs: i32) -> &Limb { &Limb(self.0 >> (rhs as u32)) }
}
impl ShrAssign<i32> for Limb {
    fn shr_assign(&mut self, shift: i32)
    { *self = *self >> shift; }
}

// ------------------------------------------------------------------------------------------------
// vocabulary
// ------------------------------------------------------------------------------------------------
impl BoxedUint {
    /// number of limbs (precision / 64)
    pub open spec fn nl(&self) -> nat { self.limbs@.len() }
    /// at least one limb and `bits_precision()` fits u32
    pub open spec fn wf(&self) -> bool { 1 <= self.limbs@.len() < 0x400_0000 }
}
/// limbs allocated by `zero_with_precision(bits)`: ceil(bits / 64), but never 0 (`From<Vec<Limb>>` pushes a limb)
pub open spec fn nlimbs_for(bits: u32) -> nat {
    if bits == 0 { 1 } else { ((bits as int + 63) / 64) as nat }
}
pub open spec fn max_nat(a: nat, b: nat) -> nat { if a >= b { a } else { b } }
/// s zero-extended to n limbs (operands of different precisions are compared / combined as zero-padded values)
pub open spec fn zext(s: Seq<Limb>, n: nat) -> Seq<Limb> { Seq::new(n, |k: int| if k < s.len() { s[k] } else { Limb(0) }) }
pub proof fn lemma_zext(s: Seq<Limb>, n: nat)
    requires s.len() <= n
    ensures val(zext(s, n), n) == val(s, s.len())
{
    lemma_val_ext(zext(s, n), s, s.len());
    lemma_val_hi_zero(zext(s, n), s.len(), n);
}

proof fn lemma_rng(x: &BoxedUint)
    ensures 0 <= x.v() < bp(x.nl()), bp(x.nl()) > 0
{ lemma_val_bound(x.limbs@, x.nl()); }

/// `zero_with_precision(bits_precision())` has the precision of self
proof fn lemma_nlimbs_for(n: nat)
    requires 1 <= n < 0x400_0000
    ensures nlimbs_for((64 * n) as u32) == n
{ }

/// log2_bits(n) (l4_sqrt.rs) = floor(log2(64 n))   (copy of the private l4_sqrt::lemma_log2_bits)
proof fn lemma_log2_bits(limbs: int)
    requires 1 <= limbs < 0x400_0000
    ensures 6 <= log2_bits(limbs) <= 31, pow2(log2_bits(limbs) as nat) <= 64 * limbs < pow2((log2_bits(limbs) + 1) as nat)
{
    lemma_lz32((64 * limbs) as u32);
    let lz = u32_leading_zeros((64 * limbs) as u32);
    lemma2_to64();
    if lz > 25 { lemma_pow2_strictly_increases((32 - lz) as nat, 7); }
}

/// floor(log2(m)) is unique
proof fn lemma_log2_unique(m: int, a: nat, b: nat)
    requires pow2(a) <= m < pow2(a + 1), pow2(b) <= m < pow2(b + 1)
    ensures a == b
{
    if a < b { if a + 1 < b { lemma_pow2_strictly_increases(a + 1, b); } }
    if b < a { if b + 1 < a { lemma_pow2_strictly_increases(b + 1, a); } }
}

// ------------------------------------------------------------------------------------------------
// model of subtle 2.6.1, continued (external crate; ASSUMED -- same status as l2_subtle.rs / l7_traits.rs)
// ------------------------------------------------------------------------------------------------
/// subtle: `trait ConditionallySelectable: Copy { fn conditional_select(a, b, choice) -> Self;
///   fn conditional_assign(&mut self, other, choice) { *self = Self::conditional_select(self, other, choice); } .. }`
pub trait ConditionallySelectable: Copy {
    spec fn sel_ok(a: Self, b: Self, c: Choice, r: Self) -> bool;
    fn conditional_select(a: &Self, b: &Self, choice: Choice) -> (r: Self)
        ensures Self::sel_ok(*a, *b, choice, r);
    fn conditional_assign(&mut self, other: &Self, choice: Choice)
        ensures Self::sel_ok(*old(self), *other, choice, *final(self))
    { *self = Self::conditional_select(self, other, choice); }
}
// subtle: `to_signed_int!`-generated impls: `mask = -(choice.unwrap_u8() as iN) as uN; a ^ (mask & (a ^ b))`
impl ConditionallySelectable for u64 {
    open spec fn sel_ok(a: u64, b: u64, c: Choice, r: u64) -> bool { c.wf() ==> r == (if c.t() { b } else { a }) }
    #[verifier::external_body]
    fn conditional_select(a: &u64, b: &u64, choice: Choice) -> (r: u64)
    { if choice.0 == 1 { *b } else { *a } }
}
impl ConditionallySelectable for u32 {
    open spec fn sel_ok(a: u32, b: u32, c: Choice, r: u32) -> bool { c.wf() ==> r == (if c.t() { b } else { a }) }
    #[verifier::external_body]
    fn conditional_select(a: &u32, b: &u32, choice: Choice) -> (r: u32)
    { if choice.0 == 1 { *b } else { *a } }
}
// subtle: `impl BitAndAssign for Choice { fn bitand_assign(&mut self, rhs: Choice) { *self = *self & rhs; } }` (body verified against `BitAnd for Choice`)
impl vstd::std_specs::ops::BitAndAssignSpecImpl<Choice> for Choice {
    open spec fn obeys_bitand_assign_spec() -> bool { true }
    open spec fn bitand_assign_req(&self, rhs: Choice) -> bool { true }
    open spec fn bitand_assign_spec(&self, rhs: Choice) -> &Choice { &choice_and(*self, rhs) }
}
impl core::ops::BitAndAssign for Choice {
    fn bitand_assign(&mut self, rhs: Choice)
    { *self = *self & rhs; }
}
// subtle: `impl ConditionallySelectable for cmp::Ordering` (select on the `#[repr(i8)]` discriminant, cast back through a raw pointer)
impl ConditionallySelectable for Ordering {
    open spec fn sel_ok(a: Ordering, b: Ordering, c: Choice, r: Ordering) -> bool { c.wf() ==> r == (if c.t() { b } else { a }) }
    #[verifier::external_body]
    fn conditional_select(a: &Ordering, b: &Ordering, choice: Choice) -> (r: Ordering)
    { if choice.0 == 1 { *b } else { *a } }
}
/// subtle: `trait ConstantTimeGreater { fn ct_gt(&self, other: &Self) -> Choice; }` (+ `*_req` / `*_ens`, see l7_traits.rs)
pub trait ConstantTimeGreater {
    spec fn ct_gt_req(&self, other: &Self) -> bool;
    spec fn ct_gt_ens(&self, other: &Self, r: Choice) -> bool;
    fn ct_gt(&self, other: &Self) -> (r: Choice)
        requires self.ct_gt_req(other)
        ensures self.ct_gt_ens(other, r);
}
/// subtle: `trait ConstantTimeLess: ConstantTimeEq + ConstantTimeGreater { fn ct_lt(&self, other: &Self) -> Choice { .. } }`
pub trait ConstantTimeLess {
    spec fn ct_lt_req(&self, other: &Self) -> bool;
    spec fn ct_lt_ens(&self, other: &Self, r: Choice) -> bool;
    fn ct_lt(&self, other: &Self) -> (r: Choice)
        requires self.ct_lt_req(other)
        ensures self.ct_lt_ens(other, r);
}
// subtle: `generate_unsigned_integer_greater!` / default `ct_lt` for u32: 1 iff self > other / self < other
impl ConstantTimeGreater for u32 {
    open spec fn ct_gt_req(&self, other: &u32) -> bool { true }
    open spec fn ct_gt_ens(&self, other: &u32, r: Choice) -> bool { r.wf() && r.t() == (*self > *other) }
    #[verifier::external_body]
    fn ct_gt(&self, other: &u32) -> (r: Choice)
    { Choice((*self > *other) as u8) }
}
impl ConstantTimeLess for u32 {
    open spec fn ct_lt_req(&self, other: &u32) -> bool { true }
    open spec fn ct_lt_ens(&self, other: &u32, r: Choice) -> bool { r.wf() && r.t() == (*self < *other) }
    #[verifier::external_body]
    fn ct_lt(&self, other: &u32) -> (r: Choice)
    { Choice((*self < *other) as u8) }
}
// subtle: `impl ConstantTimeEq for u32`
impl ConstantTimeEq for u32 {
    #[verifier::external_body]
    fn ct_eq(&self, other: &u32) -> (r: Choice)
        ensures r.wf(), r.t() == (*self == *other)
    { Choice((*self == *other) as u8) }
}

// ------------------------------------------------------------------------------------------------
// crate traits (/repo/src/traits.rs), hand-declared (trait declarations are not extracted; `*_req` / `*_ens`: l7_traits.rs)
// ------------------------------------------------------------------------------------------------
/// `ConstantTimeSelect` of /repo/src/traits.rs (`ct_select` only: a region emits one `impl` block per method, so only one
/// method per trait can be brought in; `ct_assign` is declared in l8_boxed_invmod.rs)
pub trait ConstantTimeSelect: Clone {
    spec fn ct_select_req(a: &Self, b: &Self, choice: Choice) -> bool;
    spec fn ct_select_ens(a: &Self, b: &Self, choice: Choice, r: Self) -> bool;
    fn ct_select(a: &Self, b: &Self, choice: Choice) -> (r: Self)
        requires Self::ct_select_req(a, b, choice)
        ensures Self::ct_select_ens(a, b, choice, r);
}
pub trait SquareRoot: Sized {
    spec fn sqrt_req(&self) -> bool;
    spec fn sqrt_ens(&self, r: Self) -> bool;
    fn sqrt(&self) -> (r: Self)
        requires self.sqrt_req()
        ensures self.sqrt_ens(r);
}

// ------------------------------------------------------------------------------------------------
// integer square root: Newton iteration lemmas and the Hast bound (copied verbatim from l4_sqrt.rs, where they are private;
// BITS = 64 * nlimbs). `is_isqrt` is the pub definition of l4_sqrt.rs.
// ------------------------------------------------------------------------------------------------
/// one (zero-masked) Newton step
spec fn nstep(n: int, x: int) -> int { if x == 0 { 0 } else { (x + n / x) / 2 } }

spec fn isqrt(n: int) -> int { choose|s: int| is_isqrt(n, s) }

/// T_i = 2^(2^i)
spec fn tt(i: nat) -> int { p2(pow2(i)) }

/// potential of the constant-time iteration (error e = x_i - isqrt(n) before round i):
/// either the error is already <= 1 (absorbing), or (e - 2)·T_i <= H with the two explicit start-up rounds.
spec fn sqrt_pot(i: nat, e: int, s: int, h: int, lg: nat) -> bool {
    0 <= e && (e <= 1 || (s >= 2 && i <= lg && (i == 0 ==> 2 * e <= h) && (i == 1 ==> 4 * e <= h + 4) && (i >= 2 ==> (e - 2) * tt(i) <= h)))
}

proof fn lemma_isqrt_unique(n: int, s: int, t: int)
    requires is_isqrt(n, s), is_isqrt(n, t)
    ensures s == t
{
    if s < t { assert((s + 1) * (s + 1) <= t * t) by (nonlinear_arith) requires 0 <= s + 1 <= t; }
    if t < s { assert((t + 1) * (t + 1) <= s * s) by (nonlinear_arith) requires 0 <= t + 1 <= s; }
}

proof fn lemma_isqrt_exists(n: int)
    requires n >= 0
    ensures is_isqrt(n, isqrt(n))
    decreases n
{
    if n == 0 { assert(is_isqrt(0, 0)); }
    else {
        lemma_isqrt_exists(n - 1);
        let s = isqrt(n - 1);
        if (s + 1) * (s + 1) <= n {
            assert((s + 1) * (s + 1) < (s + 2) * (s + 2)) by (nonlinear_arith) requires s >= 0;
            assert(is_isqrt(n, s + 1));
        } else {
            assert(is_isqrt(n, s));
        }
    }
}

/// AM-GM: one Newton step from any y >= 1 lands strictly above sqrt(n) - 1
proof fn lemma_newton_above(n: int, y: int)
    requires y >= 1, n >= 0
    ensures ((y + n / y) / 2 + 1) * ((y + n / y) / 2 + 1) > n, n / y >= 0
{
    let q = n / y;
    lemma_fundamental_div_mod(n, y); lemma_mod_bound(n, y);
    assert(y * q == q * y) by (nonlinear_arith);
    assert(n < (q + 1) * y) by (nonlinear_arith) requires n == q * y + n % y, n % y < y;
    let z = (y + q) / 2;
    lemma_fundamental_div_mod(y + q, 2);
    assert(2 * (z + 1) >= y + q + 1);
    assert((y + q + 1) * (y + q + 1) >= 4 * (y * (q + 1))) by (nonlinear_arith);
    assert(q >= 0) by { lemma_div_pos_is_pos(n, y); }
    assert((2 * (z + 1)) * (2 * (z + 1)) >= (y + q + 1) * (y + q + 1)) by (nonlinear_arith) requires 2 * (z + 1) >= y + q + 1, y + q + 1 >= 0;
    assert((2 * (z + 1)) * (2 * (z + 1)) == 4 * ((z + 1) * (z + 1))) by (nonlinear_arith);
    assert((q + 1) * y == y * (q + 1)) by (nonlinear_arith);
    assert((z + 1) * (z + 1) > n);
}

/// Newton step from above stays above: y >= 1  ==>  (y + n/y)/2 >= isqrt(n)
proof fn lemma_newton_ge(n: int, s: int, y: int)
    requires is_isqrt(n, s), y >= 1, n >= 0
    ensures (y + n / y) / 2 >= s
{
    lemma_newton_above(n, y);
    let z = (y + n / y) / 2;
    if z + 1 <= s {
        lemma_div_pos_is_pos(n, y);
        assert((z + 1) * (z + 1) <= s * s) by (nonlinear_arith) requires 0 <= z + 1 <= s;
    }
}

/// fix-point test: y >= 1 and next >= y  ==>  y*y <= n
proof fn lemma_newton_fix(n: int, y: int)
    requires y >= 1, n >= 0, (y + n / y) / 2 >= y
    ensures y * y <= n
{
    let q = n / y;
    lemma_fundamental_div_mod(n, y); lemma_mod_bound(n, y);
    lemma_fundamental_div_mod(y + q, 2);
    assert(q >= y);
    assert(y * q == q * y) by (nonlinear_arith);
    assert(q * y >= y * y) by (nonlinear_arith) requires q >= y, y >= 1;
}

/// combined: y >= s, y >= 1, next >= y  ==>  y == s
proof fn lemma_newton_stop(n: int, s: int, y: int)
    requires is_isqrt(n, s), y >= 1, y >= s, n >= 0, (y + n / y) / 2 >= y
    ensures y == s
{
    lemma_newton_fix(n, y);
    if y > s { assert((s + 1) * (s + 1) <= y * y) by (nonlinear_arith) requires 0 <= s + 1 <= y; }
}

/// strict descent otherwise: y > s  ==>  next < y
proof fn lemma_newton_descends(n: int, s: int, y: int)
    requires is_isqrt(n, s), y > s, n >= 0
    ensures (y + n / y) / 2 < y
{
    if (y + n / y) / 2 >= y { lemma_newton_stop(n, s, y); }
}

/// from s itself the next value is s or s+1 (oscillation)
proof fn lemma_newton_from_s(n: int, s: int)
    requires is_isqrt(n, s), s >= 1
    ensures s <= (s + n / s) / 2 <= s + 1
{
    lemma_newton_ge(n, s, s);
    let q = n / s;
    lemma_fundamental_div_mod(n, s); lemma_mod_bound(n, s);
    assert(s * q == q * s) by (nonlinear_arith);
    assert((s + 1) * (s + 1) == s * s + 2 * s + 1) by (nonlinear_arith);
    assert(q <= s + 2) by (nonlinear_arith) requires q * s <= n, n < s * s + 2 * s + 1, s >= 1;
    lemma_fundamental_div_mod(s + q, 2);
}

/// (*) error recurrence: x = s + e, x' = (x + n/x)/2 = s + e'  ==>  2(s+e)e' <= e^2 + 2s
proof fn lemma_newton_error(n: int, s: int, x: int)
    requires is_isqrt(n, s), x >= 1, x >= s, n >= 0
    ensures 2 * x * ((x + n / x) / 2 - s) <= (x - s) * (x - s) + 2 * s
{
    let q = n / x; let xn = (x + q) / 2;
    lemma_fundamental_div_mod(n, x); lemma_mod_bound(n, x);
    lemma_fundamental_div_mod(x + q, 2);
    assert(x * q == q * x) by (nonlinear_arith);
    assert(q * x <= n);
    assert(2 * xn <= x + q);
    assert(2 * x * xn <= x * x + q * x) by (nonlinear_arith) requires 2 * xn <= x + q, x >= 1;
    assert((s + 1) * (s + 1) == s * s + 2 * s + 1) by (nonlinear_arith);
    assert(2 * x * (xn - s) == 2 * x * xn - 2 * x * s) by (nonlinear_arith);
    assert((x - s) * (x - s) == x * x - 2 * x * s + s * s) by (nonlinear_arith);
}

/// endgame: e <= 3 and s >= 2 ==> e' <= 1
proof fn lemma_newton_endgame(n: int, s: int, x: int)
    requires is_isqrt(n, s), x >= s, s >= 2, n >= 0, x - s <= 3
    ensures 0 <= (x + n / x) / 2 - s <= 1
{
    lemma_newton_error(n, s, x);
    lemma_newton_ge(n, s, x);
    let e = x - s; let ep = (x + n / x) / 2 - s;
    assert(e * e <= 9) by (nonlinear_arith) requires 0 <= e <= 3;
    assert(ep <= 1) by (nonlinear_arith) requires 2 * x * ep <= e * e + 2 * s, e * e <= 9, x == s + e, s >= 2, e >= 0, ep >= 0;
}

/// the pair {s, s+1} is absorbing, and from s+1 the step goes to s  (zero-masked step; covers n == 0)
proof fn lemma_nstep_stay(n: int, s: int, x: int)
    requires is_isqrt(n, s), n >= 0, s <= x <= s + 1
    ensures s <= nstep(n, x) <= s + 1, x == s + 1 ==> nstep(n, x) == s
{
    if s == 0 {
        assert((s + 1) * (s + 1) == 1) by (nonlinear_arith) requires s == 0;
        assert(n == 0);
        if x == 1 { assert(0int / 1 == 0); }
    } else if x == s {
        lemma_newton_from_s(n, s);
    } else {
        lemma_newton_descends(n, s, x);
        lemma_newton_ge(n, s, x);
    }
}

/// quotient bound that keeps `x + n/x` inside the width: (x+1)^2 > n  ==>  n/x <= x + 2
proof fn lemma_q_bound(n: int, x: int)
    requires x >= 1, n >= 0, (x + 1) * (x + 1) > n
    ensures 0 <= n / x <= x + 2
{
    let q = n / x;
    lemma_fundamental_div_mod(n, x); lemma_mod_bound(n, x);
    lemma_div_pos_is_pos(n, x);
    assert(x * q == q * x) by (nonlinear_arith);
    assert((x + 1) * (x + 1) == x * x + 2 * x + 1) by (nonlinear_arith);
    assert(q <= x + 2) by (nonlinear_arith) requires q * x <= n, n < x * x + 2 * x + 1, x >= 1;
}

/// H·(e' - 1) <= e^2 for any H <= 2s   (from (*))
proof fn lemma_err_h(n: int, s: int, h: int, x: int)
    requires is_isqrt(n, s), x >= 1, x >= s, n >= 0, 0 < h <= 2 * s
    ensures ((x + n / x) / 2 - s - 1) * h <= (x - s) * (x - s), (x + n / x) / 2 >= s
{
    lemma_newton_error(n, s, x);
    lemma_newton_ge(n, s, x);
    let e = x - s; let ep = (x + n / x) / 2 - s;
    assert(2 * s * (ep - 1) <= e * e) by (nonlinear_arith) requires 2 * x * ep <= e * e + 2 * s, x == s + e, e >= 0, ep >= 0;
    assert(e * e >= 0) by (nonlinear_arith);
    if ep >= 1 {
        assert((ep - 1) * h <= 2 * s * (ep - 1)) by (nonlinear_arith) requires ep - 1 >= 0, h <= 2 * s;
    } else {
        assert((ep - 1) * h <= 0) by (nonlinear_arith) requires ep - 1 <= 0, h > 0;
    }
}

/// start-up round 0: 2e <= H  ==>  4e' <= H + 4
proof fn lemma_pot0(e: int, ep: int, h: int)
    requires 0 <= e, 2 * e <= h, (ep - 1) * h <= e * e, h > 0
    ensures 4 * ep <= h + 4
{
    assert(4 * (e * e) <= h * h) by (nonlinear_arith) requires 0 <= 2 * e <= h;
    assert((4 * (ep - 1)) * h <= h * h) by (nonlinear_arith) requires (ep - 1) * h <= e * e, 4 * (e * e) <= h * h;
    if 4 * (ep - 1) > h { assert((4 * (ep - 1)) * h > h * h) by (nonlinear_arith) requires 4 * (ep - 1) > h, h > 0; }
}

/// start-up round 1: 4e <= H + 4  ==>  (e' - 2)·16 <= H
proof fn lemma_pot1(e: int, ep: int, h: int)
    requires 0 <= e, 4 * e <= h + 4, (ep - 1) * h <= e * e, h >= 2
    ensures (ep - 2) * 16 <= h
{
    assert(16 * (e * e) <= (h + 4) * (h + 4)) by (nonlinear_arith) requires 0 <= 4 * e <= h + 4;
    assert((h + 4) * (h + 4) == h * h + 8 * h + 16) by (nonlinear_arith);
    assert(16 * ((ep - 1) * h) <= h * h + 8 * h + 16);
    assert(16 * ((ep - 1) * h) == (16 * (ep - 2)) * h + 16 * h) by (nonlinear_arith);
    assert((16 * (ep - 2)) * h <= h * h);
    if 16 * (ep - 2) > h { assert((16 * (ep - 2)) * h > h * h) by (nonlinear_arith) requires 16 * (ep - 2) > h, h > 0; }
}

/// quadratic round: (e - 2)·T <= H  ==>  (e' - 2)·T^2 <= H      (T >= 8, H >= 8: 4/T + 4/H <= 1)
proof fn lemma_pot_sq(e: int, ep: int, h: int, t: int)
    requires 0 <= e, (e - 2) * t <= h, (ep - 1) * h <= e * e, h >= 8, t >= 8
    ensures (ep - 2) * (t * t) <= h
{
    let et = e * t;
    assert((e - 2) * t == et - 2 * t) by (nonlinear_arith) requires et == e * t;
    assert(0 <= et) by (nonlinear_arith) requires et == e * t, e >= 0, t >= 8;
    let m = 2 * t + h;
    assert(et * et <= m * m) by (nonlinear_arith) requires 0 <= et <= m;
    assert(m * m == 4 * (t * t) + 4 * (t * h) + h * h) by (nonlinear_arith) requires m == 2 * t + h;
    let tt_ = t * t;
    assert(tt_ >= 0) by (nonlinear_arith) requires tt_ == t * t;
    assert(et * et == (e * e) * tt_) by (nonlinear_arith) requires et == e * t, tt_ == t * t;
    assert(((ep - 1) * h) * tt_ <= (e * e) * tt_) by (nonlinear_arith) requires (ep - 1) * h <= e * e, tt_ >= 0;
    // 4T^2 + 4TH <= H T^2
    assert(8 * tt_ <= h * tt_) by (nonlinear_arith) requires h >= 8, tt_ >= 0;
    let th = t * h;
    assert(8 * th <= h * tt_) by (nonlinear_arith) requires th == t * h, tt_ == t * t, t >= 8, h >= 8;
    assert(4 * tt_ + 4 * th <= h * tt_);
    let g = (ep - 2) * tt_;
    assert(((ep - 1) * h) * tt_ == g * h + h * tt_) by (nonlinear_arith) requires g == (ep - 2) * tt_;
    assert(g * h <= h * h);
    if g > h { assert(g * h > h * h) by (nonlinear_arith) requires g > h, h > 0; }
}

proof fn lemma_tt(i: nat)
    ensures tt(i + 1) == tt(i) * tt(i), tt(0) == 2, tt(1) == 4, tt(2) == 16, tt(i) >= 2, i >= 2 ==> tt(i) >= 16
    decreases i
{
    lemma2_to64();
    lemma_pow2_unfold(i + 1);
    lemma_pow2_adds(pow2(i), pow2(i));
    assert(pow2(1) == 2 && pow2(2) == 4 && pow2(0) == 1 && pow2(4) == 16);
    if i > 0 {
        lemma_tt((i - 1) as nat);
        assert(tt(i) == tt((i - 1) as nat) * tt((i - 1) as nat));
        let a = tt((i - 1) as nat);
        assert(a * a >= 2) by (nonlinear_arith) requires a >= 2;
        if i >= 3 { assert(a * a >= 16) by (nonlinear_arith) requires a >= 16; }
        if i == 2 { assert(tt(1) == 4); assert(a * a == 16) by (nonlinear_arith) requires a == 4; }
    }
}

/// T_i > 2^k as soon as 2^i > k
proof fn lemma_tt_big(i: nat, lg: nat, k: nat)
    requires i >= lg, k < pow2(lg)
    ensures tt(i) >= 2 * p2(k)
{
    if i > lg { lemma_pow2_strictly_increases(lg, i); }
    assert(pow2(i) >= k + 1);
    if pow2(i) > k + 1 { lemma_pow2_strictly_increases(k + 1, pow2(i)); }
    lemma_pow2_unfold(k + 1);
}

/// the iterates stay in [s, H]
proof fn lemma_nstep_range(n: int, s: int, h: int, x: int)
    requires is_isqrt(n, s), n >= 0, s < h, s <= x <= h
    ensures s <= nstep(n, x) <= h
{
    if x <= s + 1 { lemma_nstep_stay(n, s, x); }
    else { lemma_newton_descends(n, s, x); lemma_newton_ge(n, s, x); }
}

/// one round of the constant-time iteration preserves the potential
proof fn lemma_pot_step(n: int, s: int, h: int, lg: nat, i: nat, x: int)
    requires is_isqrt(n, s), n >= 0, h >= 1, n >= 1 ==> h <= 2 * s, s < h, s <= x <= h, tt(lg) >= 2 * h, lg >= 2,
        sqrt_pot(i, x - s, s, h, lg)
    ensures sqrt_pot(i + 1, nstep(n, x) - s, s, h, lg), s <= nstep(n, x) <= h
{
    let e = x - s; let xn = nstep(n, x); let en = xn - s;
    lemma_nstep_range(n, s, h, x);
    if e <= 1 {
        lemma_nstep_stay(n, s, x);
    } else {
        assert(s >= 2 && x >= 1);
        assert(n >= 1) by { assert(s * s >= 1) by (nonlinear_arith) requires s >= 2; }
        lemma_newton_ge(n, s, x);
        if e <= 3 {
            lemma_newton_endgame(n, s, x);
        } else {
            lemma_err_h(n, s, h, x);
            lemma_tt(i);
            if i == 0 {
                lemma_pot0(e, en, h);
            } else if i == 1 {
                lemma_pot1(e, en, h);
            } else {
                let t = tt(i);
                assert(2 * t <= (e - 2) * t) by (nonlinear_arith) requires e >= 4, t >= 16;
                if i == lg { assert(false); }
                lemma_pot_sq(e, en, h, t);
            }
        }
    }
}

/// initial guess H = 2^ceil(bits/2): fits the width with 3 bits to spare, H^2 > n, (H/2)^2 <= n
proof fn lemma_sqrt_init(n: int, b: nat, k: nat, limbs: nat)
    requires n >= 0, n < p2(b), b > 0 ==> n >= p2((b - 1) as nat), b == 0 ==> n == 0, k == (b + 1) / 2, b <= 64 * limbs, limbs >= 1
    ensures k + 3 <= 64 * limbs, k <= 32 * limbs, 8 * p2(k) <= bp(limbs), p2(k) >= 1, p2(k) * p2(k) > n,
        n >= 1 ==> k >= 1 && p2(k) == 2 * p2((k - 1) as nat) && p2((k - 1) as nat) * p2((k - 1) as nat) <= n
{
    lemma_bp_pow2(limbs);
    lemma_pow2_pos(k);
    lemma2_to64();
    lemma_pow2_adds(k, 3);
    if k + 3 < 64 * limbs { lemma_pow2_strictly_increases(k + 3, 64 * limbs); }
    lemma_pow2_adds(k, k);
    if b < 2 * k { lemma_pow2_strictly_increases(b, 2 * k); }
    if n >= 1 {
        assert(b >= 1);
        let k1 = (k - 1) as nat;
        lemma_pow2_unfold(k);
        lemma_pow2_adds(k1, k1);
        if 2 * k1 < b - 1 { lemma_pow2_strictly_increases(2 * k1, (b - 1) as nat); }
    }
}

/// what the callers need to know about the initial guess x_0 = 1 << ((bits + 1) >> 1)
spec fn sqrt_init_a(n: int, b: nat, limbs: nat) -> bool {
    let k = (b + 1) / 2; let h = p2(k);
    k < 64 * limbs && 8 * h <= bp(limbs) && h >= 1 && (1 * h) % bp(limbs) == h && h * h > n && (h + 1) * (h + 1) > n
        && (n == 0 ==> h == 1)
}
spec fn sqrt_init_b(n: int, b: nat, lg: nat) -> bool {
    let k = (b + 1) / 2; let h = p2(k);
    isqrt(n) < h && (n >= 1 ==> h <= 2 * isqrt(n)) && tt(lg) >= 2 * h
}
spec fn bits_post(n: int, b: nat, limbs: nat) -> bool {
    b <= 64 * limbs && (b == 0) == (n == 0) && n < p2(b) && (b > 0 ==> n >= p2((b - 1) as nat))
}

proof fn lemma_sqrt_init_a(n: int, b: nat, limbs: nat)
    requires n >= 0, limbs >= 1, bits_post(n, b, limbs)
    ensures sqrt_init_a(n, b, limbs)
{
    let k = (b + 1) / 2; let h = p2(k);
    lemma_sqrt_init(n, b, k, limbs);
    assert(1 * h == h);
    lemma_small_mod(h as nat, bp(limbs) as nat);
    assert((h + 1) * (h + 1) > h * h) by (nonlinear_arith) requires h >= 1;
    if n == 0 { assert(k == 0); lemma2_to64(); }
}


proof fn lemma_sqrt_init_b(n: int, b: nat, limbs: nat, lg: nat)
    requires n >= 0, limbs >= 1, bits_post(n, b, limbs), 64 * limbs < pow2(lg + 1)
    ensures sqrt_init_b(n, b, lg)
{
    let k = (b + 1) / 2; let h = p2(k); let s = isqrt(n);
    lemma_sqrt_init(n, b, k, limbs);
    lemma_isqrt_exists(n);
    if s >= h { assert(s * s >= h * h) by (nonlinear_arith) requires s >= h, h >= 1; }
    if n >= 1 {
        let h1 = p2((k - 1) as nat);
        if h1 > s { assert(h1 * h1 >= (s + 1) * (s + 1)) by (nonlinear_arith) requires h1 >= s + 1, s >= 0; }
    }
    lemma_pow2_unfold(lg + 1);
    assert(k < pow2(lg));
    lemma_tt_big(lg, lg, k);
}

/// bridge from the potential at round LOG2_BITS + 1 to the result: min(x_prev, x) is the root
proof fn lemma_sqrt_final(n: int, s: int, h: int, lg: nat, xp: int, x: int)
    requires is_isqrt(n, s), n >= 0, s <= xp, sqrt_pot(lg + 1, xp - s, s, h, lg), x == nstep(n, xp)
    ensures (if xp > x { x } else { xp }) == s
{
    lemma_nstep_stay(n, s, xp);
}


//@@ fn src/uint/boxed.rs | impl BoxedUint | nlimbs | body | props C15 C11
impl BoxedUint {
pub fn nlimbs(&self) -> (ret__: usize)
//@+
    ensures ret__ == self.limbs@.len()
//@-
{
        self.limbs.len()
    }
}
//@@ end
//@@ fn src/uint/boxed/bits.rs | impl BoxedUint | bits_precision | body | props C15 C05 C11
impl BoxedUint {
pub fn bits_precision(&self) -> (ret__: u32)
//@+
    requires self.limbs@.len() < 0x400_0000
    ensures ret__ as int == 64 * self.limbs@.len()
//@-
{
//@+
    proof { assert((self.limbs@.len() as u32) as int == self.limbs@.len()); }
//@-
        self.limbs.len() as u32 * Limb::BITS
    }
}
//@@ end
//@@ fn src/uint/boxed.rs | impl BoxedUint | limbs_for_precision | body | props C15 C11
impl BoxedUint {
pub fn limbs_for_precision(at_least_bits_precision: u32) -> (ret__: usize)
//@+
    ensures ret__ as int == (at_least_bits_precision as int + 63) / 64
//@-
{
        at_least_bits_precision.div_ceil(Limb::BITS) as usize
    }
}
//@@ end
//@@ fn src/uint/boxed.rs | impl BoxedUint | zero_with_precision | body | props C15 C11
impl BoxedUint {
pub fn zero_with_precision(at_least_bits_precision: u32) -> (ret__: Self)
//@+
    ensures ret__.nl() == nlimbs_for(at_least_bits_precision), ret__.v() == 0,
        forall|k: int| 0 <= k < ret__.limbs@.len() ==> ret__.limbs@[k].0 == 0
//@-
{
//@+
    proof {
        assert forall|s: Seq<Limb>| (forall|k: int| 0 <= k < s.len() ==> s[k].0 == 0) implies #[trigger] val(s, s.len()) == 0 by { lemma_val_zero(s, s.len()); }
    }
//@-
        vec![Limb::ZERO; Self::limbs_for_precision(at_least_bits_precision)].into()
    }
}
//@@ end
//@@ fn src/uint/boxed.rs | impl BoxedUint | one_with_precision | body | props C15 C11
impl BoxedUint {
pub fn one_with_precision(at_least_bits_precision: u32) -> (ret__: Self)
//@+
    ensures ret__.nl() == nlimbs_for(at_least_bits_precision), ret__.v() == 1
//@-
{
        let mut ret = Self::zero_with_precision(at_least_bits_precision);
        ret.limbs[0] = Limb::ONE;
//@+
    proof { lemma_val_single(ret.limbs@, ret.limbs@.len()); }
//@-
        ret
    }
}
//@@ end
/// accumulator chain of `is_zero`: acc_k = acc_{k-1} & (limb_{k-1} == 0), acc_0 = 1
spec fn zchain(accs: Seq<Choice>, s: Seq<Limb>) -> bool {
    accs.len() == s.len() + 1 && accs[0] == Choice(1)
        && forall|k: int| 1 <= k < accs.len() ==> (accs[k - 1].wf() ==> (#[trigger] accs[k]).wf() && accs[k].t() == (accs[k - 1].t() && s[k - 1].0 == 0))
}
proof fn lemma_zchain(accs: Seq<Choice>, s: Seq<Limb>, j: nat)
    requires zchain(accs, s), j <= s.len()
    ensures accs[j as int].wf(), accs[j as int].t() == (val(s, j) == 0)
    decreases j
{
    lemma_val_zero_iff(s, j);
    if j > 0 {
        lemma_zchain(accs, s, (j - 1) as nat);
        lemma_val_zero_iff(s, (j - 1) as nat);
        assert(accs[j as int].t() == (accs[j - 1].t() && s[j - 1].0 == 0));
    }
}
//@@ fn src/uint/boxed.rs | impl BoxedUint | is_zero | body | props C06 C11
impl BoxedUint {
pub fn is_zero(&self) -> (ret__: Choice)
//@+
    ensures ret__.wf(), ret__.t() == (self.v() == 0)
//@-
{
//@+
    proof {
        assert forall|accs: Seq<Choice>| zchain(accs, self.limbs@) implies (#[trigger] accs[accs.len() - 1]).wf() && accs[accs.len() - 1].t() == (self.v() == 0) by {
            lemma_zchain(accs, self.limbs@, self.limbs@.len());
        }
    }
//@-
        self.limbs
            .iter()
            .fold(Choice::from(1), |acc, limb|
//@+
    -> (r: Choice) ensures acc.wf() ==> r.wf() && r.t() == (acc.t() && limb.0 == 0)
//@-
{
//@+
    proof { assert forall|z: Choice| acc.wf() && z.wf() implies #[trigger] choice_and(acc, z).wf() && choice_and(acc, z).t() == (acc.t() && z.t()) by { lemma_choice_ops(acc, z); } }
//@-
acc & limb.is_zero()
})
    }
}
//@@ end
//@@ fn src/uint/boxed.rs | impl BoxedUint | is_nonzero | body | props C06 C11
impl BoxedUint {
pub fn is_nonzero(&self) -> (ret__: Choice)
//@+
    ensures ret__.wf(), ret__.t() == (self.v() != 0)
//@-
{
//@+
    proof { let z = Choice(if self.v() == 0 { 1u8 } else { 0u8 }); lemma_choice_ops(z, z); }
//@-
        !self.is_zero()
    }
}
//@@ end
//@@ fn src/uint/boxed/bits.rs | impl BoxedUint | leading_zeros | body | props C05 C11
impl BoxedUint {
pub const fn leading_zeros(&self) -> (ret__: u32)
//@+
    requires self.limbs@.len() < 0x400_0000
    ensures ret__ as int <= 64 * self.nl(), (ret__ as int == 64 * self.nl()) == (self.v() == 0),
        self.v() < p2((64 * self.nl() - ret__) as nat),
        (ret__ as int) < 64 * self.nl() ==> self.v() >= p2((64 * self.nl() - ret__ - 1) as nat)
//@-
{
        leading_zeros(&self.limbs)
    }
}
//@@ end
//@@ fn src/uint/boxed/bits.rs | impl BoxedUint | bits | body | props C05 C11
impl BoxedUint {
pub fn bits(&self) -> (ret__: u32)
//@+
    requires self.limbs@.len() < 0x400_0000
    ensures ret__ as int <= 64 * self.nl(), (ret__ == 0) == (self.v() == 0), self.v() < p2(ret__ as nat),
        ret__ > 0 ==> self.v() >= p2((ret__ - 1) as nat)
//@-
{
        self.bits_precision() - self.leading_zeros()
    }
}
//@@ end
//@@ fn src/uint/boxed/bits.rs | impl BoxedUint | bits_vartime | body | props C05 C11 C15
impl BoxedUint {
pub fn bits_vartime(&self) -> (ret__: u32)
//@+
    requires self.wf()
    ensures ret__ as int <= 64 * self.nl(), (ret__ == 0) == (self.v() == 0), self.v() < p2(ret__ as nat),
        ret__ > 0 ==> self.v() >= p2((ret__ - 1) as nat)
//@-
{
        bits_vartime(&self.limbs)
    }
}
//@@ end
//@@ fn src/uint/boxed.rs | impl BoxedUint | conditional_set_zero | body | props C05 C11
impl BoxedUint {
pub fn conditional_set_zero(&mut self, choice: Choice)
//@+
    requires choice.wf()
    ensures final(self).limbs@.len() == old(self).limbs@.len(),
        choice.t() ==> final(self).v() == 0 && forall|k: int| 0 <= k < final(self).limbs@.len() ==> final(self).limbs@[k].0 == 0,
        !choice.t() ==> final(self).limbs@ == old(self).limbs@
//@-
{
//@+
    let ghost s0 = self.limbs@; let ghost n = self.limbs@.len();
//@-
        let nlimbs = self.nlimbs();
        let limbs = self.limbs.as_mut();
        for i in 0..nlimbs
//@+
    invariant limbs@.len() == n, s0.len() == n, nlimbs == n, choice.wf(), VERUS_ghost_iter.iter.end == n,
        forall|k: int| 0 <= k < VERUS_ghost_iter.index@ ==> limbs@[k] == (if choice.t() { Limb(0) } else { s0[k] }),
        forall|k: int| VERUS_ghost_iter.index@ <= k < n ==> limbs@[k] == s0[k],
//@-
{
            limbs[i] = Limb::conditional_select(&limbs[i], &Limb::ZERO, choice);
        }
//@+
    proof {
        if choice.t() { lemma_val_zero(self.limbs@, n); } else { assert(self.limbs@ =~= s0); }
    }
//@-
    }
}
//@@ end
//@@ fn src/uint/boxed/shl.rs | impl BoxedUint | shl_vartime_into | body | props C05 C11
impl BoxedUint {
pub fn shl_vartime_into(&self, dest: &mut Self, shift: u32) -> (ret__: Option<()>)
//@+
    // WARNING of /repo ("`dest` is assumed to be pre-zeroized") = the third precondition
    requires self.wf(), old(dest).limbs@.len() == self.limbs@.len(), forall|k: int| 0 <= k < old(dest).limbs@.len() ==> old(dest).limbs@[k].0 == 0
    ensures final(dest).limbs@.len() == self.limbs@.len(), (ret__ is None) == (shift as int >= 64 * self.nl()),
        (shift as int) < 64 * self.nl() ==> final(dest).v() == (self.v() * p2(shift as nat)) % bp(self.nl()),
        shift as int >= 64 * self.nl() ==> final(dest).limbs@ == old(dest).limbs@
//@-
{
        if shift >= self.bits_precision() {
            return None;
        }
        let nlimbs = self.nlimbs();
        let shift_num = (shift / Limb::BITS) as usize;
        let rem = shift % Limb::BITS;
//@+
    let ghost n = self.limbs@.len(); let ghost sn = shift_num as nat; let ghost m = (n - sn) as nat;
    proof {
        assert(shift_num as int == shift as int / 64 && rem as int == shift as int % 64);
        lemma_fundamental_div_mod(shift as int, 64);
        assert(sn < n);
    }
//@-
        for i in shift_num..nlimbs
//@+
    invariant dest.limbs@.len() == n, self.limbs@.len() == n, sn == shift_num, sn < n, nlimbs == n, VERUS_ghost_iter.iter.end == n,
        i == VERUS_ghost_iter.index@ + shift_num,
        forall|j: int| 0 <= j < sn ==> dest.limbs@[j].0 == 0,
        forall|j: int| sn <= j < i ==> dest.limbs@[j] == self.limbs@[j - sn],
        forall|j: int| i <= j < n ==> dest.limbs@[j].0 == 0,
//@-
{
            dest.limbs[i] = self.limbs[i - shift_num];
        }
//@+
    let ghost p1 = dest.limbs@;
    proof {
        lemma_shift_up(self.limbs@, p1, sn, m);
        assert((sn + m) as nat == n);
        if rem == 0 {
            assert(shift as nat == 64 * sn);
            lemma_shl_rem0(self.limbs@, p1, n, sn, shift as nat);
        }
    }
//@-
        if rem == 0 {
            return Some(());
        }
        let mut carry = Limb::ZERO;
        for i in shift_num..nlimbs
//@+
    invariant dest.limbs@.len() == n, self.limbs@.len() == n, sn == shift_num, sn < n, nlimbs == n, m == n - sn, 0 < rem < 64, VERUS_ghost_iter.iter.end == n,
        i == VERUS_ghost_iter.index@ + shift_num,
        forall|j: int| 0 <= j < sn ==> dest.limbs@[j].0 == 0,
        forall|j: int| i <= j < n ==> dest.limbs@[j] == self.limbs@[j - sn],
        i > sn ==> dest.limbs@[sn as int].0 == self.limbs@[0].0 << rem,
        forall|j: int| sn < j < i ==> dest.limbs@[j].0 == (self.limbs@[j - sn].0 << rem) | (self.limbs@[j - sn - 1].0 >> ((64 - rem) as u32)),
        carry.0 == (if i == sn { 0u64 } else { self.limbs@[i - sn - 1].0 >> ((64 - rem) as u32) }),
//@-
{
            let shifted = dest.limbs[i].shl(rem);
            let new_carry = dest.limbs[i].shr(Limb::BITS - rem);
            dest.limbs[i] = shifted.bitor(carry);
            carry = new_carry;
//@+
    proof {
        let x = self.limbs@[i - sn].0; let y = x << rem;
        lemma_u64_shl_mod(x, rem); lemma_u64_shr_div(x, (64 - rem) as u32);
        assert(y | 0u64 == y) by (bit_vector);
    }
//@-
        }
//@+
    proof {
        let s = self.limbs@; let d = dest.limbs@;
        let tt = Seq::new(m, |j: int| d[j + sn]);
        lemma_shl_limbs(s, tt, m, rem);
        lemma_shift_up(tt, d, sn, m);
        assert((sn + m) as nat == n);
        lemma_bp_add(m, sn);
        let c = (s[m - 1].0 >> ((64 - rem) as u32)) as int;
        assert(val(d, n) + c * bp(n) == val(s, m) * bp(sn) * p2(rem as nat)) by (nonlinear_arith)
            requires val(tt, m) + c * bp(m) == val(s, m) * p2(rem as nat), val(d, n) == val(tt, m) * bp(sn), bp(n) == bp(m) * bp(sn);
        lemma_val_bound(d, n);
        lemma_shl_finish(s, val(d, n), c, n, sn, rem as nat, shift as nat);
    }
//@-
        Some(())
    }
}
//@@ end
//@@ fn src/uint/boxed/shl.rs | impl BoxedUint | overflowing_shl_assign | body | props C05 C11
impl BoxedUint {
pub fn overflowing_shl_assign(&mut self, shift: u32) -> (ret__: Choice)
//@+
    requires old(self).wf()
    ensures final(self).nl() == old(self).nl(), ret__.wf(), ret__.t() == (shift as int >= 64 * old(self).nl()),
        final(self).v() == (if shift as int >= 64 * old(self).nl() { 0 } else { (old(self).v() * p2(shift as nat)) % bp(old(self).nl()) })
//@-
{
        // `floor(log2(bits_precision - 1))` is the number of bits in the representation of `shift`
        // (which lies in range `0 <= shift < bits_precision`).
//@+
    let ghost n = self.limbs@.len(); let ghost v0 = self.v(); let ghost shift0 = shift;
    proof { lemma_lz32((64 * n - 1) as u32); }
//@-
        let shift_bits = u32::BITS - (self.bits_precision() - 1).leading_zeros();
        let overflow = !shift.ct_lt(&self.bits_precision());
        let shift = shift % self.bits_precision();
        let mut temp = self.clone();
//@+
    proof {
        lemma_pow2_64(); lemma_bp_succ(n); lemma_val_bound(self.limbs@, n);
        assert((shift as int) % 1 == 0);
        lemma_small_mod(v0 as nat, bp(n) as nat); assert(v0 * 1 == v0);
        if (shift0 as int) < 64 * n { lemma_small_mod(shift0 as nat, (64 * n) as nat); }
        lemma_mod_bound(shift0 as int, 64 * (n as int));
        let lt = Choice(if (shift0 as int) < 64 * n { 1u8 } else { 0u8 }); lemma_choice_ops(lt, lt);
    }
//@-
        for i in 0..shift_bits
//@+
    invariant self.limbs@.len() == n, temp.limbs@.len() == n, 1 <= n < 0x400_0000, (shift as int) < 64 * n, 1 <= shift_bits <= 32,
        VERUS_ghost_iter.iter.end == shift_bits, p2((shift_bits - 1) as nat) <= 64 * n - 1, 0 <= v0 < bp(n),
        self.v() == (v0 * p2(((shift as int) % p2(VERUS_ghost_iter.index@ as nat)) as nat)) % bp(n),
//@-
{
//@+
    let ghost lo = (shift as int) % p2(i as nat);
    proof {
        lemma_ladder_step(shift, i);
        if i < shift_bits - 1 { lemma_pow2_strictly_increases(i as nat, (shift_bits - 1) as nat); }
        lemma_pow2_pos(i as nat); lemma_mod_bound(shift as int, p2(i as nat));
        lemma_shl_compose(v0, lo as nat, p2(i as nat) as nat, bp(n));
    }
//@-
            let bit = Choice::from(((shift >> i) & 1) as u8);
//@+
    let ghost sb = self.limbs@;
//@-
            temp.set_zero();
            // Will not overflow by construction
            self.shl_vartime_into(&mut temp, 1 << i)
                .expect("shift within range");
            self.ct_assign(&temp, bit);
//@+
    proof {
        let b = (shift >> i) & 1u32;
        assert(bit.0 == b as u8 && b <= 1);
        assert(bit.wf() && bit.t() == (b == 1));
        assert(((1u32 << i) as nat) == p2(i as nat) as nat);
        if b == 1 {
            assert(self.limbs@ == temp.limbs@);
            lemma_val_bound(sb, n);
            assert(self.v() == (val(sb, n) * p2(p2(i as nat) as nat)) % bp(n));
            assert(b as int * p2(i as nat) == p2(i as nat)) by (nonlinear_arith) requires b == 1;
            assert((shift as int) % p2((i + 1) as nat) == lo + p2(i as nat));
            assert(((lo as nat) + (p2(i as nat) as nat)) as nat == (lo + p2(i as nat)) as nat);
        } else {
            assert(b == 0);
            assert(self.limbs@ == sb);
            assert(b as int * p2(i as nat) == 0) by (nonlinear_arith) requires b == 0;
            assert((shift as int) % p2((i + 1) as nat) == lo);
        }
    }
//@-
        }
        #[cfg(feature = "zeroize")]
        zeroize::Zeroize::zeroize(&mut temp);
//@+
    proof {
        assert((shift as int) < p2(shift_bits as nat));
        lemma_small_mod(shift as nat, p2(shift_bits as nat) as nat);
    }
//@-
        self.conditional_set_zero(overflow);
        overflow
    }
}
//@@ end
//@@ fn src/uint/boxed/shl.rs | impl BoxedUint | overflowing_shl | body | props C05 C11 C15
impl BoxedUint {
pub fn overflowing_shl(&self, shift: u32) -> (ret__: (Self, Choice))
//@+
    requires self.wf()
    ensures ret__.0.nl() == self.nl(), ret__.1.wf(), ret__.1.t() == (shift as int >= 64 * self.nl()),
        ret__.0.v() == (if shift as int >= 64 * self.nl() { 0 } else { (self.v() * p2(shift as nat)) % bp(self.nl()) })
//@-
{
        let mut result = self.clone();
        let overflow = result.overflowing_shl_assign(shift);
        (result, overflow)
    }
}
//@@ end
/// carry chain of `adc` over the zero-extended operands (fold_limbs with `|a, b, c| a.adc(b, c)`)
spec fn adc_chain(ea: Seq<Limb>, eb: Seq<Limb>, r: Seq<Limb>, cs: Seq<Limb>, n: nat) -> bool {
    cs.len() == n + 1 && forall|k: int| 1 <= k <= n ==> (r[k - 1].0 as int + (#[trigger] cs[k]).0 as int * B() == ea[k - 1].0 as int + eb[k - 1].0 as int + cs[k - 1].0 as int
        && (cs[k - 1].0 <= 1 ==> cs[k].0 <= 1))
}
proof fn lemma_adc_chain(ea: Seq<Limb>, eb: Seq<Limb>, r: Seq<Limb>, cs: Seq<Limb>, n: nat, j: nat)
    requires adc_chain(ea, eb, r, cs, n), j <= n
    ensures val(r, j) + cs[j as int].0 as int * bp(j) == val(ea, j) + val(eb, j) + cs[0].0 as int, cs[0].0 <= 1 ==> cs[j as int].0 <= 1
    decreases j
{
    lemma_bp_succ(0);
    if j == 0 {
        assert(cs[0].0 as int * bp(0) == cs[0].0 as int) by (nonlinear_arith) requires bp(0) == 1;
    } else {
        let i = (j - 1) as nat;
        lemma_adc_chain(ea, eb, r, cs, n, i);
        lemma_bp_succ(i);
        let pk = bp(i); let x = r[i as int].0 as int; let c1 = cs[j as int].0 as int; let cb = cs[i as int].0 as int;
        let a = ea[i as int].0 as int; let b = eb[i as int].0 as int;
        assert(x + (cs[j as int]).0 as int * B() == a + b + cb);
        assert(x * pk + c1 * (B() * pk) == a * pk + b * pk + cb * pk) by (nonlinear_arith) requires x + c1 * B() == a + b + cb;
    }
}
/// borrow chain of `sbb` (fold_limbs with `|a, b, c| a.sbb(b, c)`): every produced borrow is a mask, only its top bit is consumed
spec fn sbb_chain(ea: Seq<Limb>, eb: Seq<Limb>, r: Seq<Limb>, cs: Seq<Limb>, n: nat) -> bool {
    cs.len() == n + 1 && forall|k: int| 1 <= k <= n ==> (((#[trigger] cs[k]).0 == 0 || cs[k].0 == u64::MAX)
        && r[k - 1].0 as int - bb(cs[k]) * B() == ea[k - 1].0 as int - eb[k - 1].0 as int - (cs[k - 1].0 >> 63) as int)
}
proof fn lemma_sbb_chain(ea: Seq<Limb>, eb: Seq<Limb>, r: Seq<Limb>, cs: Seq<Limb>, n: nat, j: nat)
    requires sbb_chain(ea, eb, r, cs, n), j <= n
    ensures val(r, j) - (cs[j as int].0 >> 63) as int * bp(j) == val(ea, j) - val(eb, j) - (cs[0].0 >> 63) as int,
        j >= 1 ==> (cs[j as int].0 == 0 || cs[j as int].0 == u64::MAX) && (cs[j as int].0 >> 63) as int == bb(cs[j as int])
    decreases j
{
    lemma_bp_succ(0);
    if j == 0 {
        assert((cs[0].0 >> 63) as int * bp(0) == (cs[0].0 >> 63) as int) by (nonlinear_arith) requires bp(0) == 1;
    } else {
        let i = (j - 1) as nat;
        lemma_sbb_chain(ea, eb, r, cs, n, i);
        lemma_bp_succ(i);
        let pk = bp(i); let x = r[i as int].0 as int; let bin = (cs[i as int].0 >> 63) as int; let bw = cs[j as int].0;
        let a = ea[i as int].0 as int; let b = eb[i as int].0 as int;
        assert(cs[j as int].0 == 0 || cs[j as int].0 == u64::MAX);
        assert(bw >> 63 == (if bw == 0xffff_ffff_ffff_ffffu64 { 1u64 } else { 0u64 })) by (bit_vector) requires bw == 0 || bw == 0xffff_ffff_ffff_ffffu64;
        let bo = bb(cs[j as int]);
        assert(x - bo * B() == a - b - bin);
        assert(x * pk - bo * (B() * pk) == a * pk - b * pk - bin * pk) by (nonlinear_arith) requires x - bo * B() == a - b - bin;
    }
}
// Verus does not support reference patterns in `let` ("ref patterns"): the four statements `let &a = EXPR;` / `let &b = EXPR;` of fold_limbs / map_limbs
// (EXPR: &Limb, Limb is Copy) are rewritten textually into the equivalent `let a = *EXPR;` / `let b = *EXPR;`.  Nothing else changes.
//@@ subst let &(a|b) = (.+);\s*$ => let \1 = *\2;
//@@ fn src/uint/boxed.rs | impl BoxedUint | fold_limbs | body | props C04 C11 C15
impl BoxedUint {
pub fn fold_limbs<F>(lhs: &Self, rhs: &Self, mut carry: Limb, f: F) -> (ret__: (Self, Limb))
where
        F: Fn(Limb, Limb, Limb) -> (Limb, Limb),
//@+
    // Read off the code:
    // n = max(len, len) rounds over the zero-extended operands, round k maps (a_k, b_k, c_k) to (limb_k, c_{k+1}) by `f`, c_0 = carry;
    // the collected limbs go through `From<Vec<Limb>>` (an empty vector becomes the one-limb zero).
    requires forall|a: Limb, b: Limb, c: Limb| #[trigger] f.requires((a, b, c))
    ensures ({
        let n = max_nat(lhs.limbs@.len(), rhs.limbs@.len());
        exists|cs: Seq<Limb>| #[trigger] cs.len() == n + 1 && cs[0] == carry && cs[n as int] == ret__.1
            && ret__.0.limbs@.len() == (if n == 0 { 1nat } else { n }) && (n == 0 ==> ret__.0.limbs@[0] == Limb(0))
            && forall|k: int| 1 <= k <= n ==> f.ensures((zext(lhs.limbs@, n)[k - 1], zext(rhs.limbs@, n)[k - 1], cs[k - 1]), (ret__.0.limbs@[k - 1], #[trigger] cs[k]))
    })
//@-
{
//@+
    let ghost n = max_nat(lhs.limbs@.len(), rhs.limbs@.len());
    let ghost ea = zext(lhs.limbs@, n); let ghost eb = zext(rhs.limbs@, n);
    let ghost carry0 = carry;
    let ghost mut cs: Seq<Limb> = seq![carry];
//@-
        let nlimbs = cmp::max(lhs.nlimbs(), rhs.nlimbs());
        let mut limbs = Vec::with_capacity(nlimbs);
        for i in 0..nlimbs
//@+
    invariant nlimbs == n, VERUS_ghost_iter.iter.end == n, limbs@.len() == VERUS_ghost_iter.index@,
        n == max_nat(lhs.limbs@.len(), rhs.limbs@.len()), ea == zext(lhs.limbs@, n), eb == zext(rhs.limbs@, n),
        cs.len() == limbs@.len() + 1, cs[0] == carry0, cs[limbs@.len() as int] == carry,
        forall|a: Limb, b: Limb, c: Limb| #[trigger] f.requires((a, b, c)),
        forall|k: int| 1 <= k <= limbs@.len() ==> f.ensures((ea[k - 1], eb[k - 1], cs[k - 1]), (limbs@[k - 1], #[trigger] cs[k])),
//@-
{
//@+
    let ghost l0 = limbs@; let ghost cs0 = cs;
//@-
            let a = *lhs.limbs.get(i).unwrap_or(&Limb::ZERO);
            let b = *rhs.limbs.get(i).unwrap_or(&Limb::ZERO);
//@+
    proof { assert(a == ea[i as int]); assert(b == eb[i as int]); }
//@-
            let (limb, c) = f(a, b, carry);
            limbs.push(limb);
            carry = c;
//@+
    proof {
        cs = cs0.push(c);
        assert forall|k: int| 1 <= k <= limbs@.len() implies f.ensures((ea[k - 1], eb[k - 1], cs[k - 1]), (limbs@[k - 1], #[trigger] cs[k])) by {
            if k <= l0.len() { assert(cs[k] == cs0[k] && cs[k - 1] == cs0[k - 1] && limbs@[k - 1] == l0[k - 1]); }
        }
    }
//@-
        }
//@+
    proof { assert(limbs@.len() == n); assert(cs.len() == n + 1); }
//@-
        (limbs.into(), carry)
    }
}
//@@ end
//@@ fn src/uint/boxed.rs | impl BoxedUint | map_limbs | body | props C05 C11 C15
impl BoxedUint {
pub fn map_limbs<F>(lhs: &Self, rhs: &Self, f: F) -> (ret__: Self)
where
        F: Fn(Limb, Limb) -> Limb,
//@+
    // limb k of the result is f(a_k, b_k) over the zero-extended operands
    requires forall|a: Limb, b: Limb| #[trigger] f.requires((a, b))
    ensures ({
        let n = max_nat(lhs.limbs@.len(), rhs.limbs@.len());
        ret__.limbs@.len() == (if n == 0 { 1nat } else { n }) && (n == 0 ==> ret__.limbs@[0] == Limb(0))
            && forall|k: int| 0 <= k < n ==> f.ensures((zext(lhs.limbs@, n)[k], zext(rhs.limbs@, n)[k]), #[trigger] ret__.limbs@[k])
    })
//@-
{
//@+
    let ghost n = max_nat(lhs.limbs@.len(), rhs.limbs@.len());
    let ghost ea = zext(lhs.limbs@, n); let ghost eb = zext(rhs.limbs@, n);
//@-
        let nlimbs = cmp::max(lhs.nlimbs(), rhs.nlimbs());
        let mut limbs = Vec::with_capacity(nlimbs);
        for i in 0..nlimbs
//@+
    invariant nlimbs == n, VERUS_ghost_iter.iter.end == n, limbs@.len() == VERUS_ghost_iter.index@,
        n == max_nat(lhs.limbs@.len(), rhs.limbs@.len()), ea == zext(lhs.limbs@, n), eb == zext(rhs.limbs@, n),
        forall|a: Limb, b: Limb| #[trigger] f.requires((a, b)),
        forall|k: int| 0 <= k < limbs@.len() ==> f.ensures((ea[k], eb[k]), #[trigger] limbs@[k]),
//@-
{
//@+
    let ghost l0 = limbs@;
//@-
            let a = *lhs.limbs.get(i).unwrap_or(&Limb::ZERO);
            let b = *rhs.limbs.get(i).unwrap_or(&Limb::ZERO);
//@+
    proof { assert(a == ea[i as int]); assert(b == eb[i as int]); }
//@-
            limbs.push(f(a, b));
//@+
    proof {
        assert forall|k: int| 0 <= k < limbs@.len() implies f.ensures((ea[k], eb[k]), #[trigger] limbs@[k]) by {
            if k < l0.len() { assert(limbs@[k] == l0[k]); }
        }
    }
//@-
        }
//@+
    proof { assert(limbs@.len() == n); }
//@-
        limbs.into()
    }
}
//@@ end
//@@ subst-clear
//@@ fn src/uint/boxed/add.rs | impl BoxedUint | adc | body | props C04 C11 C15
impl BoxedUint {
pub fn adc(&self, rhs: &Self, carry: Limb) -> (ret__: (Self, Limb))
//@+
    requires self.nl() >= 1 || rhs.nl() >= 1
    ensures ret__.0.nl() == max_nat(self.nl(), rhs.nl()),
        ret__.0.v() + ret__.1.0 as int * bp(ret__.0.nl()) == self.v() + rhs.v() + carry.0 as int,
        ret__.0.v() == (self.v() + rhs.v() + carry.0 as int) % bp(ret__.0.nl()),
        carry.0 <= 1 ==> ret__.1.0 <= 1
//@-
{
//@+
    let ghost n = max_nat(self.limbs@.len(), rhs.limbs@.len()); let ghost ea = zext(self.limbs@, n); let ghost eb = zext(rhs.limbs@, n);
    proof {
        lemma_zext(self.limbs@, n); lemma_zext(rhs.limbs@, n);
        assert forall|r: BoxedUint, cs: Seq<Limb>| #![trigger r.limbs@.len(), cs.len()] r.limbs@.len() == n && adc_chain(ea, eb, r.limbs@, cs, n) && cs[0] == carry implies
            r.v() + cs[n as int].0 as int * bp(n) == self.v() + rhs.v() + carry.0 as int
            && r.v() == (self.v() + rhs.v() + carry.0 as int) % bp(n) && (carry.0 <= 1 ==> cs[n as int].0 <= 1) by {
            lemma_adc_chain(ea, eb, r.limbs@, cs, n, n);
            lemma_val_bound(r.limbs@, n);
            lemma_fundamental_div_mod_converse(self.v() + rhs.v() + carry.0 as int, bp(n), cs[n as int].0 as int, r.v());
        }
    }
//@-
        Self::fold_limbs(self, rhs, carry, |a, b, c|
//@+
    -> (r: (Limb, Limb)) ensures r.0.0 as int + r.1.0 as int * B() == a.0 as int + b.0 as int + c.0 as int, c.0 <= 1 ==> r.1.0 <= 1
//@-
{
a.adc(b, c)
})
    }
}
//@@ end
//@@ fn src/uint/boxed/add.rs | impl BoxedUint | wrapping_add | body | props C04 C11 C15
impl BoxedUint {
pub fn wrapping_add(&self, rhs: &Self) -> (ret__: Self)
//@+
    requires self.nl() >= 1 || rhs.nl() >= 1
    ensures ret__.nl() == max_nat(self.nl(), rhs.nl()), ret__.v() == (self.v() + rhs.v()) % bp(ret__.nl())
//@-
{
//@+
    proof { lemma_rng(self); lemma_rng(rhs); }
//@-
        self.adc(rhs, Limb::ZERO).0
    }
}
//@@ end
//@@ fn src/uint/boxed/neg.rs | impl BoxedUint | wrapping_neg | body | props C04 C11 C15
impl BoxedUint {
pub fn wrapping_neg(&self) -> (ret__: Self)
//@+
    requires self.nl() >= 1
    ensures ret__.nl() == self.nl(), ret__.v() == (bp(self.nl()) - self.v()) % bp(self.nl()),
        ret__.v() == (if self.v() == 0 { 0 } else { bp(self.nl()) - self.v() })
//@-
{
//@+
    let ghost n = self.limbs@.len();
//@-
        let mut ret = vec![Limb::ZERO; self.nlimbs()];
        let mut carry = 1;
//@+
    proof { lemma_bp_succ(0); assert(carry as int * bp(0) == 1) by (nonlinear_arith) requires carry == 1, bp(0) == 1; }
//@-
        for i in 0..self.nlimbs()
//@+
    invariant ret@.len() == n, self.limbs@.len() == n, carry <= 1, VERUS_ghost_iter.iter.end == n,
        val(ret@, VERUS_ghost_iter.index@ as nat) + carry as int * bp(VERUS_ghost_iter.index@ as nat) == bp(VERUS_ghost_iter.index@ as nat) - val(self.limbs@, VERUS_ghost_iter.index@ as nat),
//@-
{
//@+
    let ghost rb = ret@; let ghost cb = carry;
//@-
            let r = (!self.limbs[i].0 as WideWord) + carry;
            ret[i] = Limb(r as Word);
            carry = r >> Limb::BITS;
//@+
    proof {
        let x = self.limbs@[i as int].0; let w = ret@[i as int].0; let c1 = carry;
        assert((!x) as int == 0xffff_ffff_ffff_ffff - x as int) by (bit_vector);
        assert((r as u64) as int + (r >> 64u32) as int * 0x1_0000_0000_0000_0000 == r as int) by (bit_vector) requires r <= 0x1_0000_0000_0000_0000;
        assert(r >> 64u32 <= 1) by (bit_vector) requires r <= 0x1_0000_0000_0000_0000;
        lemma_val_ext(rb, ret@, i as nat);
        lemma_bp_succ(i as nat);
        let pk = bp(i as nat);
        assert(w as int * pk + c1 as int * (B() * pk) == (B() - 1 - x as int) * pk + cb as int * pk) by (nonlinear_arith)
            requires w as int + c1 as int * B() == B() - 1 - x as int + cb as int;
        assert((B() - 1 - x as int) * pk == B() * pk - pk - x as int * pk) by (nonlinear_arith);
    }
//@-
        }
//@+
    proof {
        lemma_val_bound(ret@, n); lemma_val_bound(self.limbs@, n);
        lemma_fundamental_div_mod_converse(bp(n) - self.v(), bp(n), carry as int, val(ret@, n));
        if self.v() == 0 { assert(carry == 1) by (nonlinear_arith) requires val(ret@, n) + carry as int * bp(n) == bp(n), 0 <= val(ret@, n) < bp(n), carry <= 1; }
        else { assert(carry == 0) by (nonlinear_arith) requires val(ret@, n) + carry as int * bp(n) < bp(n), 0 <= val(ret@, n), carry <= 1, bp(n) > 0; }
    }
//@-
        ret.into()
    }
}
//@@ end
impl vstd::std_specs::ops::BitAndSpecImpl<Limb> for Limb {
    open spec fn obeys_bitand_spec() -> bool { true }
    open spec fn bitand_req(self, rhs: Limb) -> bool { true }
    open spec fn bitand_spec(self, rhs: Limb) -> Limb { Limb(self.0 & rhs.0) }
}
//@@ fn src/limb/bit_and.rs | impl BitAnd for Limb | bitand | body | props C05 C11
impl BitAnd for Limb {
//@+
    type Output = Limb;
//@-
fn bitand(self, rhs: Self) -> (ret__: Self::Output)
//@+
    ensures ret__.0 == self.0 & rhs.0
//@-
{
        self.bitand(rhs)
    }
}
//@@ end
//@@ fn src/uint/boxed/add.rs | impl BoxedUint | conditional_adc_assign | body | props C04 C11
impl BoxedUint {
pub fn conditional_adc_assign(&mut self, rhs: &Self, choice: Choice) -> (ret__: Choice)
//@+
    requires old(self).limbs@.len() <= rhs.limbs@.len() < 0x400_0000, choice.wf()
    ensures final(self).nl() == old(self).nl(), ret__.wf(),
        final(self).v() + (if ret__.t() { bp(old(self).nl()) } else { 0 })
            == old(self).v() + (if choice.t() { val(rhs.limbs@, old(self).nl()) } else { 0 })
//@-
{
//@+
    let ghost s0 = self.limbs@; let ghost n = self.limbs@.len(); let ghost m: int = if choice.t() { 1 } else { 0 };
//@-
        debug_assert!(self.bits_precision() <= rhs.bits_precision());
        let mask = Limb::conditional_select(&Limb::ZERO, &Limb::MAX, choice);
        let mut carry = Limb::ZERO;
//@+
    proof {
        lemma_bp_succ(0);
        assert(m * val(rhs.limbs@, 0) == 0) by (nonlinear_arith) requires val(rhs.limbs@, 0) == 0;
        assert(carry.0 as int * bp(0) == 0) by (nonlinear_arith) requires carry.0 == 0;
    }
//@-
        for i in 0..self.nlimbs()
//@+
    invariant self.limbs@.len() == n, s0.len() == n, n <= rhs.limbs@.len(), VERUS_ghost_iter.iter.end == n, choice.wf(),
        m == (if choice.t() { 1int } else { 0int }), mask.0 == (if choice.t() { u64::MAX } else { 0u64 }), carry.0 <= 1,
        forall|k: int| VERUS_ghost_iter.index@ <= k < n ==> self.limbs@[k] == s0[k],
        val(self.limbs@, VERUS_ghost_iter.index@ as nat) + carry.0 as int * bp(VERUS_ghost_iter.index@ as nat)
            == val(s0, VERUS_ghost_iter.index@ as nat) + m * val(rhs.limbs@, VERUS_ghost_iter.index@ as nat),
//@-
{
//@+
    let ghost sb = self.limbs@; let ghost cb = carry.0 as int; let ghost ri = rhs.limbs@[i as int].0;
    proof {
        assert(ri & 0xffff_ffff_ffff_ffffu64 == ri) by (bit_vector);
        assert(ri & 0u64 == 0u64) by (bit_vector);
    }
//@-
            let masked_rhs = *rhs.limbs.get(i).unwrap_or(&Limb::ZERO) & mask;
            let (limb, c) = self.limbs[i].adc(masked_rhs, carry);
            self.limbs[i] = limb;
            carry = c;
//@+
    proof {
        lemma_val_ext(sb, self.limbs@, i as nat);
        lemma_bp_succ(i as nat);
        let pk = bp(i as nat); let x = limb.0 as int; let c1 = carry.0 as int;
        let si = s0[i as int].0 as int; let mr = masked_rhs.0 as int; let rv = ri as int;
        assert(mr == m * rv) by (nonlinear_arith) requires (m == 1 && mr == rv) || (m == 0 && mr == 0);
        assert(x + c1 * B() == si + mr + cb);
        assert(c1 <= 1) by (nonlinear_arith) requires x + c1 * B() == si + mr + cb, x >= 0, si < B(), mr < B(), cb <= 1, B() > 0;
        assert(x * pk + c1 * (B() * pk) == si * pk + (m * rv) * pk + cb * pk) by (nonlinear_arith) requires x + c1 * B() == si + m * rv + cb;
        assert(m * (val(rhs.limbs@, i as nat) + rv * pk) == m * val(rhs.limbs@, i as nat) + (m * rv) * pk) by (nonlinear_arith);
    }
//@-
        }
//@+
    proof {
        let cw = carry.0;
        assert((cw & 1) == cw) by (bit_vector) requires cw <= 1;
        assert(carry.0 as int * bp(n) == (if carry.0 == 1 { bp(n) } else { 0 })) by (nonlinear_arith) requires carry.0 <= 1;
        assert(m * val(rhs.limbs@, n) == (if choice.t() { val(rhs.limbs@, n) } else { 0 })) by (nonlinear_arith) requires m == (if choice.t() { 1int } else { 0int });
    }
//@-
        Choice::from((carry.0 & 1) as u8)
    }
}
//@@ end
//@@ fn src/uint/boxed/sub.rs | impl BoxedUint | sbb | body | props C04 C11 C15
impl BoxedUint {
pub fn sbb(&self, rhs: &Self, borrow: Limb) -> (ret__: (Self, Limb))
//@+
    // total: two EMPTY operands give the one-limb zero (`From<Vec<Limb>>`) and hand `borrow` back unchanged
    ensures ret__.0.nl() == max_nat(max_nat(self.nl(), rhs.nl()), 1),
        (self.nl() >= 1 || rhs.nl() >= 1) ==> (ret__.1.0 == 0 || ret__.1.0 == u64::MAX)
            && ret__.0.v() - bb(ret__.1) * bp(ret__.0.nl()) == self.v() - rhs.v() - (borrow.0 >> 63) as int
            && ret__.0.v() == (self.v() - rhs.v() - (borrow.0 >> 63) as int) % bp(ret__.0.nl()),
        (self.nl() == 0 && rhs.nl() == 0) ==> ret__.0.v() == 0 && ret__.1 == borrow
//@-
{
//@+
    let ghost n = max_nat(self.limbs@.len(), rhs.limbs@.len()); let ghost ea = zext(self.limbs@, n); let ghost eb = zext(rhs.limbs@, n);
    proof {
        lemma_zext(self.limbs@, n); lemma_zext(rhs.limbs@, n);
        assert forall|s: Seq<Limb>| s.len() == 1 && s[0].0 == 0 implies #[trigger] val(s, s.len()) == 0 by { lemma_val_single(s, 1); }
        assert forall|r: BoxedUint, cs: Seq<Limb>| #![trigger r.limbs@.len(), cs.len()] n >= 1 && r.limbs@.len() == n && sbb_chain(ea, eb, r.limbs@, cs, n) && cs[0] == borrow implies
            (cs[n as int].0 == 0 || cs[n as int].0 == u64::MAX)
            && r.v() - bb(cs[n as int]) * bp(n) == self.v() - rhs.v() - (borrow.0 >> 63) as int
            && r.v() == (self.v() - rhs.v() - (borrow.0 >> 63) as int) % bp(n) by {
            lemma_sbb_chain(ea, eb, r.limbs@, cs, n, n);
            lemma_val_bound(r.limbs@, n);
            let bo = bb(cs[n as int]);
            assert((-bo) * bp(n) == -(bo * bp(n))) by (nonlinear_arith);
            lemma_fundamental_div_mod_converse(self.v() - rhs.v() - (borrow.0 >> 63) as int, bp(n), -bo, r.v());
        }
    }
//@-
        Self::fold_limbs(self, rhs, borrow, |a, b, c|
//@+
    -> (r: (Limb, Limb)) ensures r.1.0 == 0 || r.1.0 == u64::MAX, r.0.0 as int - bb(r.1) * B() == a.0 as int - b.0 as int - (c.0 >> 63) as int
//@-
{
a.sbb(b, c)
})
    }
}
//@@ end
/// one round of `shr1_assign`: limb i-1 receives the low bit of limb i (as bit 63), limb i is halved
proof fn lemma_shr1_step(sb: Seq<Limb>, sa: Seq<Limb>, s0: Seq<Limb>, i: nat)
    requires i >= 1, forall|k: int| 0 <= k < i - 1 ==> sa[k] == sb[k],
        sa[i - 1].0 as int == sb[i - 1].0 as int + (s0[i as int].0 & 1) as int * 0x8000_0000_0000_0000,
        2 * (sa[i as int].0 as int) + (s0[i as int].0 & 1) as int == s0[i as int].0 as int,
        2 * val(sb, i) + (s0[0].0 & 1) as int == val(s0, i),
    ensures 2 * val(sa, i + 1) + (s0[0].0 & 1) as int == val(s0, i + 1)
{
    let j = (i - 1) as nat;
    lemma_val_ext(sb, sa, j);
    lemma_bp_succ(j);
    let pj = bp(j); let lo = (s0[i as int].0 & 1) as int; let h = sa[i as int].0 as int; let y = s0[i as int].0 as int;
    assert(val(sa, i) == val(sa, j) + sa[j as int].0 as int * pj);
    assert(val(sb, i) == val(sb, j) + sb[j as int].0 as int * pj);
    assert(val(sa, i + 1) == val(sa, i) + h * bp(i));
    assert(val(s0, i + 1) == val(s0, i) + y * bp(i));
    assert(bp(i) == B() * pj);
    assert((sb[j as int].0 as int + lo * 0x8000_0000_0000_0000) * pj == sb[j as int].0 as int * pj + lo * 0x8000_0000_0000_0000 * pj) by (nonlinear_arith);
    assert(2 * (lo * 0x8000_0000_0000_0000 * pj) + 2 * (h * (B() * pj)) == y * (B() * pj)) by (nonlinear_arith) requires 2 * h + lo == y, B() == 0x1_0000_0000_0000_0000;
}

//@@ fn src/uint/boxed/shr.rs | impl BoxedUint | shr1_assign | body | props C05 C11
impl BoxedUint {
pub fn shr1_assign(&mut self)
//@+
    requires old(self).nl() >= 1
    ensures final(self).nl() == old(self).nl(), final(self).v() == old(self).v() / 2
//@-
{
//@+
    let ghost s0 = self.limbs@; let ghost n = self.limbs@.len();
//@-
        self.limbs[0].shr_assign(1);
//@+
    proof {
        let x = s0[0].0;
        assert(2 * (x >> 1u32) + (x & 1) == x) by (bit_vector);
        lemma_bp1();
        assert(val(self.limbs@, 1) == val(self.limbs@, 0) + self.limbs@[0].0 as int * bp(0));
        assert(val(s0, 1) == val(s0, 0) + s0[0].0 as int * bp(0));
        assert(self.limbs@[0].0 as int * bp(0) == self.limbs@[0].0 as int) by (nonlinear_arith) requires bp(0) == 1;
        assert(s0[0].0 as int * bp(0) == s0[0].0 as int) by (nonlinear_arith) requires bp(0) == 1;
    }
//@-
        for i in 1..self.limbs.len()
//@+
    invariant self.limbs@.len() == n, s0.len() == n, n >= 1, VERUS_ghost_iter.iter.end == n, i == VERUS_ghost_iter.index@ + 1,
        forall|k: int| i <= k < n ==> self.limbs@[k] == s0[k],
        self.limbs@[i - 1].0 == s0[i - 1].0 >> 1u32,
        2 * val(self.limbs@, i as nat) + (s0[0].0 & 1) as int == val(s0, i as nat),
//@-
{
            // set carry bit
//@+
    let ghost sb = self.limbs@;
//@-
            self.limbs[i - 1].0 |= (self.limbs[i].0 & 1) << Limb::HI_BIT;
            self.limbs[i].shr_assign(1);
//@+
    proof {
        let y = s0[i as int].0; let a = sb[i - 1].0; let b = self.limbs@[i - 1].0; let px = s0[i - 1].0;
        assert(b == a | ((y & 1) << 63u32));
        assert((a | ((y & 1) << 63u32)) as int == a as int + (y & 1) as int * 0x8000_0000_0000_0000) by (bit_vector) requires a == px >> 1u32;
        assert(2 * (y >> 1u32) + (y & 1) == y) by (bit_vector);
        lemma_shr1_step(sb, self.limbs@, s0, i as nat);
    }
//@-
        }
//@+
    proof { let x = s0[0].0; assert(x & 1 <= 1) by (bit_vector); }
//@-
    }
}
//@@ end
//@@ fn src/uint/boxed/shr.rs | impl BoxedUint | shr1 | body | props C05 C11 C15
impl BoxedUint {
pub fn shr1(&self) -> (ret__: Self)
//@+
    requires self.nl() >= 1
    ensures ret__.nl() == self.nl(), ret__.v() == self.v() / 2
//@-
{
        let mut ret = self.clone();
        ret.shr1_assign();
        ret
    }
}
//@@ end
//@@ fn src/uint/boxed/cmp.rs | impl BoxedUint | cmp_vartime | body | props C06 C11
impl BoxedUint {
pub fn cmp_vartime(&self, rhs: &Self) -> (ret__: Ordering)
//@+
    requires self.nl() >= 1 || rhs.nl() >= 1
    ensures ret__ == (if self.v() < rhs.v() { Ordering::Less } else if self.v() == rhs.v() { Ordering::Equal } else { Ordering::Greater })
//@-
{
        // operands of different precisions are compared as zero-padded values, like `ct_eq` / `ct_lt`
//@+
    let ghost nn = max_nat(self.limbs@.len(), rhs.limbs@.len()); let ghost ea = zext(self.limbs@, nn); let ghost eb = zext(rhs.limbs@, nn);
    proof {
        lemma_zext(self.limbs@, nn); lemma_zext(rhs.limbs@, nn);
        assert(0u64 >> 63 == 0u64) by (bit_vector);
    }
//@-
        let mut i = max(self.limbs.len(), rhs.limbs.len()) - 1;
        loop
//@+
    invariant i < nn, nn == max_nat(self.limbs@.len(), rhs.limbs@.len()), ea == zext(self.limbs@, nn), eb == zext(rhs.limbs@, nn),
        crate::speclib::val(ea, nn) == self.v(), crate::speclib::val(eb, nn) == rhs.v(), 0u64 >> 63 == 0u64,
        forall|k: int| i < k < nn ==> ea[k].0 == eb[k].0,
    decreases i,
//@-
{
            // TODO: investigate if directly comparing limbs is faster than performing a
            // subtraction between limbs
            let lhs_limb = self.limbs.get(i).copied().unwrap_or(Limb::ZERO);
            let rhs_limb = rhs.limbs.get(i).copied().unwrap_or(Limb::ZERO);
            let (val, borrow) = lhs_limb.sbb(rhs_limb, Limb::ZERO);
//@+
    proof {
        assert(lhs_limb == ea[i as int] && rhs_limb == eb[i as int]);
        if val.0 != 0 {
            if borrow.0 != 0 { lemma_val_cmp_top(ea, eb, i as nat, nn); }
            else {
                assert forall|k: int| i < k < nn implies eb[k].0 == ea[k].0 by { }
                lemma_val_cmp_top(eb, ea, i as nat, nn);
            }
        } else if i == 0 {
            assert forall|k: int| 0 <= k < nn implies ea[k] == eb[k] by { }
            lemma_val_ext(ea, eb, nn);
        }
    }
//@-
            if val.0 != 0 {
                return if borrow.0 != 0 {
                    Ordering::Less
                } else {
                    Ordering::Greater
                };
            }
            if i == 0 {
                return Ordering::Equal;
            }
            i -= 1;
        }
    }
}
//@@ end
//@@ fn src/uint/boxed/cmp.rs | impl ConstantTimeEq for BoxedUint | ct_eq | body | props C06 C11
impl ConstantTimeEq for BoxedUint {
fn ct_eq(&self, other: &Self) -> (ret__: Choice)
//@+
    ensures ret__.wf(), ret__.t() == (self.v() == other.v())
//@-
{
//@+
    let ghost nn = max_nat(self.limbs@.len(), other.limbs@.len()); let ghost ea = zext(self.limbs@, nn); let ghost eb = zext(other.limbs@, nn);
    proof { lemma_zext(self.limbs@, nn); lemma_zext(other.limbs@, nn); }
//@-
        let limbs = max(self.nlimbs(), other.nlimbs());
        let mut ret = Choice::from(1u8);
        for i in 0..limbs
//@+
    invariant limbs == nn, nn == max_nat(self.limbs@.len(), other.limbs@.len()), ea == zext(self.limbs@, nn), eb == zext(other.limbs@, nn),
        VERUS_ghost_iter.iter.end == nn, ret.wf(),
        ret.t() == (val(ea, VERUS_ghost_iter.index@ as nat) == val(eb, VERUS_ghost_iter.index@ as nat)),
//@-
{
            let a = self.limbs.get(i).unwrap_or(&Limb::ZERO);
            let b = other.limbs.get(i).unwrap_or(&Limb::ZERO);
//@+
    let ghost r0 = ret;
//@-
            ret &= a.ct_eq(b);
//@+
    proof {
        let e = Choice(if a.0 == b.0 { 1u8 } else { 0u8 });
        lemma_choice_ops(r0, e);
        assert(*a == ea[i as int] && *b == eb[i as int]);
        lemma_val_eq_iff(ea, eb, i as nat); lemma_val_eq_iff(ea, eb, (i + 1) as nat);
    }
//@-
        }
        ret
    }
}
//@@ end
//@@ fn src/uint/boxed/cmp.rs | impl ConstantTimeGreater for BoxedUint | ct_gt | body | props C06 C11
impl ConstantTimeGreater for BoxedUint {
//@+
    open spec fn ct_gt_req(&self, other: &Self) -> bool { true }
    open spec fn ct_gt_ens(&self, other: &Self, r: Choice) -> bool { r.wf() && r.t() == (self.v() > other.v()) }
//@-
fn ct_gt(&self, other: &Self) -> (ret__: Choice)
{
//@+
    let ghost ww = bp(max_nat(other.nl(), self.nl()));
    assert(0u64 >> 63 == 0) by (bit_vector);
    assert forall|u: BoxedUint| 0 <= #[trigger] u.v() < bp(u.nl()) by { lemma_rng(&u); }
//@-
        let (_, borrow) = other.sbb(self, Limb::ZERO);
//@+
    assert(bb(borrow) * ww == (if bb(borrow) == 1 { ww } else { 0 })) by (nonlinear_arith) requires bb(borrow) == 0 || bb(borrow) == 1;
//@-
        ConstChoice::from_word_mask(borrow.0).into()
    }
}
//@@ end
//@@ fn src/uint/boxed/ct.rs | impl ConstantTimeSelect for BoxedUint | ct_select | body | props C06 C11 C15
impl ConstantTimeSelect for BoxedUint {
//@+
    open spec fn ct_select_req(a: &Self, b: &Self, choice: Choice) -> bool { a.limbs@.len() == b.limbs@.len() && a.limbs@.len() < 0x400_0000 && choice.wf() }
    open spec fn ct_select_ens(a: &Self, b: &Self, choice: Choice, r: Self) -> bool { r.limbs@ == (if choice.t() { b.limbs@ } else { a.limbs@ }) }
//@-
fn ct_select(a: &Self, b: &Self, choice: Choice) -> (ret__: Self)
{
//@+
    let ghost n = a.limbs@.len();
//@-
        assert_eq!(a.bits_precision(), b.bits_precision());
        let mut limbs = vec![Limb::ZERO; a.nlimbs()].into_boxed_slice();
        for i in 0..a.nlimbs()
//@+
    invariant limbs@.len() == n, a.limbs@.len() == n, b.limbs@.len() == n, choice.wf(), VERUS_ghost_iter.iter.end == n,
        forall|k: int| 0 <= k < VERUS_ghost_iter.index@ ==> limbs@[k] == (if choice.t() { b.limbs@[k] } else { a.limbs@[k] }),
//@-
{
            limbs[i] = Limb::conditional_select(&a.limbs[i], &b.limbs[i], choice);
        }
//@+
    proof {
        if choice.t() { assert(limbs@ =~= b.limbs@); } else { assert(limbs@ =~= a.limbs@); }
    }
//@-
        Self { limbs }
    }
}
//@@ end
//@@ fn src/uint/boxed.rs | impl Zero for BoxedUint | is_zero | body | props C06 C11
impl Zero for BoxedUint {
//@+
    open spec fn is_zero_req(&self) -> bool { true }
    open spec fn is_zero_spec(&self) -> bool { self.v() == 0 }
//@-
fn is_zero(&self) -> (ret__: Choice)
{
        self.is_zero()
    }
}
//@@ end
//@@ fn src/limb.rs | impl ConditionallySelectable for Limb | conditional_select | body | props C06 C11
impl ConditionallySelectable for Limb {
//@+
    open spec fn sel_ok(a: Limb, b: Limb, c: Choice, r: Limb) -> bool { c.wf() ==> r == (if c.t() { b } else { a }) }
//@-
fn conditional_select(a: &Self, b: &Self, choice: Choice) -> (ret__: Self)
{
        Self(Word::conditional_select(&a.0, &b.0, choice))
    }
}
//@@ end
//@@ rawconst src/uint/mul/karatsuba.rs | - | KARATSUBA_MIN_STARTING_LIMBS
pub const KARATSUBA_MIN_STARTING_LIMBS: usize = 32;
//@@ end
//@@ fn src/uint/boxed/mul.rs | impl BoxedUint | mul | body | props C03 C11 C15
impl BoxedUint {
pub fn mul(&self, rhs: &Self) -> (ret__: Self)
//@+
    requires self.nl() + rhs.nl() >= 1, self.nl() < 0x400_0000, rhs.nl() < 0x400_0000
    ensures ret__.nl() == self.nl() + rhs.nl(), ret__.v() == self.v() * rhs.v()
//@-
{
//@+
    let ghost n = self.limbs@.len(); let ghost m = rhs.limbs@.len();
//@-
        let size = self.nlimbs() + rhs.nlimbs();
        let overlap = self.nlimbs().min(rhs.nlimbs());
        if self.nlimbs().min(rhs.nlimbs()) >= KARATSUBA_MIN_STARTING_LIMBS {
            let mut limbs = vec![Limb::ZERO; size + overlap * 2];
            let (out, scratch) = limbs.as_mut_slice().split_at_mut(size);
//@+
    proof { assert(ks_size(n, m) <= overlap); }
//@-
            karatsuba_mul_limbs(&self.limbs, &rhs.limbs, out, scratch);
//@+
    let ghost ov = out@;
//@-
            limbs.truncate(size);
//@+
    proof { assert(limbs@ =~= ov); }
//@-
            return limbs.into();
        }
        let mut limbs = vec![Limb::ZERO; size];
        mul_limbs(&self.limbs, &rhs.limbs, &mut limbs);
        limbs.into()
    }
}
//@@ end
//@@ fn src/uint/boxed.rs | impl BoxedUint | shorten | body | props C15 C11
impl BoxedUint {
pub fn shorten(&self, at_least_bits_precision: u32) -> (ret__: BoxedUint)
//@+
    requires self.wf(), at_least_bits_precision as int <= 64 * self.nl()
    ensures ret__.nl() == nlimbs_for(at_least_bits_precision), ret__.v() == self.v() % bp(ret__.nl()),
        forall|k: int| 0 <= k < ret__.limbs@.len() ==> ret__.limbs@[k] == self.limbs@[k]
//@-
{
        assert!(at_least_bits_precision <= self.bits_precision());
        let mut ret = BoxedUint::zero_with_precision(at_least_bits_precision);
        let nlimbs = ret.nlimbs();
//@+
    let ghost m = ret.limbs@.len();
//@-
        ret.limbs.copy_from_slice(&self.limbs[..nlimbs]);
//@+
    proof {
        assert(ret.limbs@ =~= self.limbs@.subrange(0, m as int));
        lemma_val_ext(ret.limbs@, self.limbs@, m);
        lemma_val_mod(self.limbs@, m, self.limbs@.len());
    }
//@-
        ret
    }
}
//@@ end
//@@ fn src/uint/boxed/mul.rs | impl BoxedUint | wrapping_mul | body | props C03 C11 C15
impl BoxedUint {
pub fn wrapping_mul(&self, rhs: &Self) -> (ret__: Self)
//@+
    requires self.wf(), self.nl() + rhs.nl() < 0x400_0000   // `shorten` takes bits_precision() of the (n + m)-limb product
    ensures ret__.nl() == self.nl(), ret__.v() == (self.v() * rhs.v()) % bp(self.nl())
//@-
{
//@+
    proof { lemma_nlimbs_for(self.nl()); }
//@-
        self.mul(rhs).shorten(self.bits_precision())
    }
}
//@@ end
//@@ fn src/non_zero.rs | impl<T> NonZero<T> | as_ref | body | props C12 C11
impl<T> NonZero<T> {
pub const fn as_ref(&self) -> (ret__: &T)
//@+
    ensures *ret__ == self.0
//@-
{
        &self.0
    }
}
//@@ end
//@@ fn src/uint/boxed/div.rs | impl BoxedUint | div_rem | body | props C02 C11 C15
impl BoxedUint {
pub fn div_rem(&self, rhs: &NonZero<Self>) -> (ret__: (Self, Self))
//@+
    requires self.wf(), self.nl() == rhs.0.nl(), rhs.0.v() != 0
    ensures ret__.0.nl() == self.nl(), ret__.1.nl() == self.nl(),
        ret__.0.v() * rhs.0.v() + ret__.1.v() == self.v(), 0 <= ret__.1.v() < rhs.0.v(),
        ret__.0.v() == self.v() / rhs.0.v(), ret__.1.v() == self.v() % rhs.0.v()
//@-
{
        // Since `rhs` is nonzero, this should always hold.
        self.div_rem_unchecked(rhs.as_ref())
    }
}
//@@ end
/// a divisor of `bits` significant bits occupies yc = ceil(bits / 64) limbs: its value is that of the low yc limbs, limb yc-1 is non-zero
/// (what `div_rem_vartime_in_place` requires of `&mut rem.limbs[..yc]`), the limbs above contribute nothing
proof fn lemma_div_vt_yc(s: Seq<Limb>, n: nat, bits: nat, yc: nat)
    requires n >= 1, 1 <= bits <= 64 * n, 64 * (yc - 1) < bits <= 64 * yc, val(s, n) < p2(bits), val(s, n) >= p2((bits - 1) as nat)
    ensures 1 <= yc <= n, val(s, yc) == val(s, n), s[yc - 1].0 != 0, tv(s, yc, n) == 0, val(s, n) < bp(yc)
{
    lemma_bp_pow2(yc); lemma_bp_pow2((yc - 1) as nat);
    if bits < 64 * yc { lemma_pow2_strictly_increases(bits, 64 * yc); }
    if 64 * (yc - 1) < bits - 1 { lemma_pow2_strictly_increases((64 * (yc - 1)) as nat, (bits - 1) as nat); }
    assert(bp((yc - 1) as nat) <= val(s, n) < bp(yc));
    lemma_val_mod(s, yc, n);
    lemma_val_bound(s, n);
    lemma_small_mod(val(s, n) as nat, bp(yc) as nat);
    lemma_val_step(s, (yc - 1) as nat);
    lemma_val_bound(s, (yc - 1) as nat);
    let top = s[yc - 1].0 as int; let pw = bp((yc - 1) as nat);
    assert(val(s, yc) == val(s, (yc - 1) as nat) + top * pw);
    if top == 0 { assert(top * pw == 0) by (nonlinear_arith) requires top == 0; }
}
// Verus leaves a range `IndexMut` taken directly on a `Box<[Limb]>` place unconstrained (`&mut rem.limbs[..yc]`: even the length of the slice is unknown,
// and `rem.limbs` is havocked afterwards); the same expression on a `&mut [Limb]` is modelled.  The auto-deref `&mut Box<[Limb]> -> &mut [Limb]` that the
// compiler inserts is therefore made explicit by naming the reborrowed slice (one statement of div_rem_vartime; same calls, same arguments, same order of
// the two index/borrow operations that can panic -- there is only one, `[..yc]`):
//@@ subst ^(\s*)div_rem_vartime_in_place\(&mut quo\.limbs, &mut rem\.limbs\[\.\.yc\]\);\s*$ => \1{ let rem_limbs__: &mut [Limb] = &mut rem.limbs; div_rem_vartime_in_place(&mut quo.limbs, &mut rem_limbs__[..yc]); }
//@@ fn src/uint/boxed/div.rs | impl BoxedUint | div_rem_vartime | body | props C02 C11 C15
impl BoxedUint {
pub fn div_rem_vartime(&self, rhs: &NonZero<Self>) -> (ret__: (Self, Self))
//@+
    requires self.wf(), rhs.0.wf(), rhs.0.v() != 0
    ensures ret__.0.nl() == self.nl(), ret__.1.nl() == rhs.0.nl(),
        ret__.0.v() * rhs.0.v() + ret__.1.v() == self.v(), 0 <= ret__.1.v() < rhs.0.v(),
        ret__.0.v() == self.v() / rhs.0.v(), ret__.1.v() == self.v() % rhs.0.v()
//@-
{
//@+
    let ghost d = rhs.0; let ghost n = rhs.0.nl(); let ghost dv = rhs.0.v(); let ghost sv = self.v(); let ghost ds = rhs.0.limbs@;
    proof {
        lemma_rng(&d); lemma_rng(self); lemma_bp1(); lemma_pow2_64(); lemma_nlimbs_for(n);
        // yc = ceil(bits / 64) for the bit length reported by bits_vartime()
        assert forall|b: u32| b != 0 && b as int <= 64 * n && dv < p2(b as nat) && dv >= #[trigger] p2((b - 1) as nat) implies ({
            let y = ((b as int + 63) / 64) as nat;
            1 <= y <= n && val(ds, y) == dv && ds[y - 1].0 != 0 && tv(ds, y, n) == 0 && dv < bp(y) }) by {
            lemma_div_vt_yc(ds, n, b as nat, ((b as int + 63) / 64) as nat);
        }
    }
//@-
        let yc = rhs.0.bits_vartime().div_ceil(Limb::BITS) as usize;
//@+
    proof {
        assert(1 <= yc <= n && val(ds, yc as nat) == dv && ds[yc - 1].0 != 0 && tv(ds, yc as nat, n) == 0 && dv < bp(yc as nat));
    }
//@-
        match yc {
            0 => panic!("zero divisor"),
            1 => {
//@+
    proof { lemma_val_single(ds, 1); }
//@-
                // Perform limb division
                let (quo, rem_limb) =
                    self.div_rem_limb(rhs.0.limbs[0].to_nz().expect("zero divisor"));
                let mut rem = Self::zero_with_precision(rhs.bits_precision());
                rem.limbs[0] = rem_limb;
//@+
    proof { lemma_val_single(rem.limbs@, rem.limbs@.len()); }
//@-
                (quo, rem)
            }
            _ => {
                let mut quo = self.clone();
                let mut rem = rhs.0.clone();
//@+
    proof {
        assert forall|t: Seq<Limb>| t =~= ds.subrange(0, yc as int) implies #[trigger] val(t, yc as nat) == dv by { lemma_val_ext(t, ds, yc as nat); }
    }
//@-
                { let rem_limbs__: &mut [Limb] = &mut rem.limbs; div_rem_vartime_in_place(&mut quo.limbs, &mut rem_limbs__[..yc]); }
//@+
    proof {
        let r1 = rem.limbs@;
        assert(r1.len() == n);
        assert(forall|k: int| yc <= k < n ==> r1[k] == ds[k]);
        lemma_tv_ext(r1, ds, yc as nat, n);
        lemma_val_ext(r1.subrange(0, yc as int), r1, yc as nat);
        assert(val(r1, n) == val(r1, yc as nat) + tv(r1, yc as nat, n));
        assert(quo.limbs@.len() == self.nl());
    }
//@-
                (quo, rem)
            }
        }
    }
}
//@@ end
//@@ subst-clear
//@@ fn src/uint/boxed/div.rs | impl BoxedUint | wrapping_div_vartime | body | props C02 C11 C15
impl BoxedUint {
pub fn wrapping_div_vartime(&self, rhs: &NonZero<Self>) -> (ret__: Self)
//@+
    requires self.wf(), rhs.0.wf(), rhs.0.v() != 0
    ensures ret__.nl() == self.nl(), ret__.v() == self.v() / rhs.0.v()
//@-
{
        self.div_rem_vartime(rhs).0
    }
}
//@@ end
//@@ fn src/traits.rs | trait BitOps | log2_bits | body | props C20 C05 C11
trait BitOps {
//@+
    spec fn bits_precision_req(&self) -> bool;
    spec fn bits_precision_spec(&self) -> u32;
    fn bits_precision(&self) -> (r: u32)
        requires self.bits_precision_req()
        ensures r == self.bits_precision_spec();
//@-
fn log2_bits(&self) -> (ret__: u32)
//@+
    requires self.bits_precision_req(), self.bits_precision_spec() >= 1
    ensures ret__ <= 31, pow2(ret__ as nat) <= self.bits_precision_spec() < pow2((ret__ + 1) as nat)
//@-
{
//@+
    proof { lemma_lz32(self.bits_precision_spec()); }
//@-
        u32::BITS - self.bits_precision().leading_zeros() - 1
    }
}
//@@ end
//@@ fn src/uint/boxed/bits.rs | impl BitOps for BoxedUint | bits_precision | body | props C20 C05 C11
impl BitOps for BoxedUint {
//@+
    spec fn bits_precision_req(&self) -> bool { self.limbs@.len() < 0x400_0000 }
    spec fn bits_precision_spec(&self) -> u32 { (64 * self.limbs@.len()) as u32 }
//@-
fn bits_precision(&self) -> (ret__: u32)
{
        self.bits_precision()
    }
}
//@@ end
//@@ fn src/uint/boxed/sqrt.rs | impl BoxedUint | sqrt | body | props C20 C11 C15
impl BoxedUint {
pub fn sqrt(&self) -> (ret__: Self)
//@+
    requires self.wf()
    ensures ret__.nl() == self.nl(), is_isqrt(self.v(), ret__.v())
//@-
{
//@+
    let ghost n = self.v();
    let ghost nl = self.nl();
    let ghost s = isqrt(n);
    let ghost lg = log2_bits(nl as int) as nat;
    proof { lemma_rng(self); lemma_isqrt_exists(n); lemma_log2_bits(nl as int); lemma_nlimbs_for(nl); }
    assert forall|y: u32| #[trigger] (y >> 1) == y / 2 by { assert(y >> 1 == y / 2) by (bit_vector); }
    assert forall|b: u32| #![trigger p2(b as nat)] bits_post(n, b as nat, nl) implies sqrt_init_a(n, b as nat, nl) && sqrt_init_b(n, b as nat, lg) by {
        lemma_sqrt_init_a(n, b as nat, nl); lemma_sqrt_init_b(n, b as nat, nl, lg);
    }
    assert forall|r: nat| #![trigger pow2(r)] pow2(r) <= 64 * nl < pow2(r + 1) implies r == lg by { lemma_log2_unique(64 * nl as int, r, lg); }
//@-
        // Uses Brent & Zimmermann, Modern Computer Arithmetic, v0.5.9, Algorithm 1.13.
        //
        // See Hast, "Note on computation of integer square roots"
        // for the proof of the sufficiency of the bound on iterations.
        // https://github.com/RustCrypto/crypto-bigint/files/12600669/ct_sqrt.pdf
        // The initial guess: `x_0 = 2^ceil(b/2)`, where `2^(b-1) <= self < b`.
        // Will not overflow since `b <= BITS`.
        let (mut x, _overflow) =
            Self::one_with_precision(self.bits_precision()).overflowing_shl((self.bits() + 1) >> 1); // ≥ √(`self`)
//@+
    let ghost h = x.v();
    assert(x.nl() == nl);
    assert(h >= 1 && 8 * h <= bp(nl) && s < h && (n >= 1 ==> h <= 2 * s) && tt(lg) >= 2 * h && (n == 0 ==> h == 1));
    assert(sqrt_pot(0, h - s, s, h, lg));
//@-
        // Repeat enough times to guarantee result has stabilized.
        let mut i = 0;
        let mut x_prev = x.clone(); // keep the previous iteration in case we need to roll back.
        let mut nz_x = NonZero(x.clone());
        // TODO (#378): the tests indicate that just `Self::LOG2_BITS` may be enough.
        while i < self.log2_bits() + 2
//@+
    invariant self.wf(), nl == self.nl(), n == self.v(), n >= 0, is_isqrt(n, s), 6 <= lg <= 31,
        forall|r: nat| #![trigger pow2(r)] pow2(r) <= 64 * nl < pow2(r + 1) ==> r == lg,
        h >= 1, 8 * h <= bp(nl), s < h, n >= 1 ==> h <= 2 * s, tt(lg) >= 2 * h,
        i <= lg + 2, x.nl() == nl, x_prev.nl() == nl, nz_x.0.nl() == nl, nz_x.0.v() != 0,
        s <= x.v() <= h, sqrt_pot(i as nat, x.v() - s, s, h, lg),
        i >= 1 ==> s <= x_prev.v() <= h && sqrt_pot((i - 1) as nat, x_prev.v() - s, s, h, lg) && x.v() == nstep(n, x_prev.v()),
    decreases lg + 2 - i,
//@-
{
//@+
    let ghost xv = x.v();
    let ghost nz0 = nz_x.0.limbs@;
//@-
            x_prev.limbs.clone_from_slice(&x.limbs);
            // Calculate `x_{i+1} = floor((x_i + self / x_i) / 2)`
            let x_nonzero = x.is_nonzero();
            let mut j = 0;
            while j < nz_x.0.limbs.len()
//@+
    invariant j <= nl, nz_x.0.limbs@.len() == nl, x.limbs@.len() == nl, nz0.len() == nl, x_nonzero.wf(),
        forall|k: int| 0 <= k < j ==> nz_x.0.limbs@[k] == (if x_nonzero.t() { x.limbs@[k] } else { nz0[k] }),
        forall|k: int| j <= k < nl ==> nz_x.0.limbs@[k] == nz0[k],
    decreases nl - j,
//@-
{
                nz_x.0.limbs[j].conditional_assign(&x.limbs[j], x_nonzero);
                j += 1;
            }
//@+
    proof {
        if x_nonzero.t() { lemma_val_ext(nz_x.0.limbs@, x.limbs@, nl); } else { lemma_val_ext(nz_x.0.limbs@, nz0, nl); }
        assert(nz_x.0.v() != 0);
    }
//@-
            let (q, _) = self.div_rem(&nz_x);
            x.conditional_adc_assign(&q, x_nonzero);
            x.shr1_assign();
//@+
    proof {
        lemma_rng(&x); lemma_rng(&q);
        if xv != 0 {
            assert((xv + 1) * (xv + 1) > n) by (nonlinear_arith) requires xv >= s, s >= 0, (s + 1) * (s + 1) > n;
            lemma_q_bound(n, xv);
        }
        assert(x.v() == nstep(n, xv));
        lemma_pot_step(n, s, h, lg, i as nat, xv);
    }
//@-
            i += 1;
        }
        // At this point `x_prev == x_{n}` and `x == x_{n+1}`
        // where `n == i - 1 == LOG2_BITS + 1 == floor(log2(BITS)) + 1`.
        // Thus, according to Hast, `sqrt(self) = min(x_n, x_{n+1})`.
//@+
    proof { lemma_sqrt_final(n, s, h, lg, x_prev.v(), x.v()); }
//@-
        Self::ct_select(&x_prev, &x, Self::ct_gt(&x_prev, &x))
    }
}
//@@ end
//@@ fn src/uint/boxed/sqrt.rs | impl BoxedUint | sqrt_vartime | body | props C20 C11 C15
impl BoxedUint {
pub fn sqrt_vartime(&self) -> (ret__: Self)
//@+
    requires self.wf()
    ensures ret__.nl() == self.nl(), is_isqrt(self.v(), ret__.v())
//@-
{
//@+
    let ghost n = self.v();
    let ghost nl = self.nl();
    proof { lemma_rng(self); lemma_nlimbs_for(nl); }
    assert forall|y: u32| #[trigger] (y >> 1) == y / 2 by { assert(y >> 1 == y / 2) by (bit_vector); }
    assert forall|b: u32| #![trigger p2(b as nat)] bits_post(n, b as nat, nl) implies sqrt_init_a(n, b as nat, nl) by { lemma_sqrt_init_a(n, b as nat, nl); }
//@-
        // Uses Brent & Zimmermann, Modern Computer Arithmetic, v0.5.9, Algorithm 1.13
        // The initial guess: `x_0 = 2^ceil(b/2)`, where `2^(b-1) <= self < b`.
        // Will not overflow since `b <= BITS`.
        let (mut x, _overflow) =
            Self::one_with_precision(self.bits_precision()).overflowing_shl((self.bits() + 1) >> 1); // ≥ √(`self`)
//@+
    assert(x.nl() == nl && x.v() >= 1 && (x.v() + 1) * (x.v() + 1) > n && 2 * x.v() + 2 < bp(nl));
//@-
        // Stop right away if `x` is zero to avoid divizion by zero.
        while !x
            .cmp_vartime(&Self::zero_with_precision(self.bits_precision()))
            .is_eq()
//@+
    invariant self.wf(), nl == self.nl(), n == self.v(), n >= 0, x.nl() == nl, (x.v() + 1) * (x.v() + 1) > n, 2 * x.v() + 2 < bp(nl),
    ensures x.nl() == nl, n >= 1 ==> is_isqrt(n, x.v()),
    decreases x.v(),
//@-
{
            // Calculate `x_{i+1} = floor((x_i + self / x_i) / 2)`
            let q =
                self.wrapping_div_vartime(&NonZero::<Self>::new(x.clone()).expect("Division by 0"));
            let t = x.wrapping_add(&q);
            let next_x = t.shr1();
//@+
    proof {
        let xv = x.v();
        lemma_rng(&x); lemma_rng(&q);
        lemma_q_bound(n, xv);
        lemma_small_mod((xv + n / xv) as nat, bp(nl) as nat);
        assert(next_x.v() == (xv + n / xv) / 2);
        if next_x.v() >= xv { lemma_newton_fix(n, xv); } else { lemma_newton_above(n, xv); }
    }
//@-
            // If `next_x` is the same as `x` or greater, we reached convergence
            // (`x` is guaranteed to either go down or oscillate between
            // `sqrt(self)` and `sqrt(self) + 1`)
            if !x.cmp_vartime(&next_x).is_gt() {
                break;
            }
            x = next_x;
        }
        if self.is_nonzero().into() {
            x
        } else {
            Self::zero_with_precision(self.bits_precision())
        }
    }
}
//@@ end
//@@ fn src/uint/boxed/sqrt.rs | impl BoxedUint | wrapping_sqrt | body | props C20 C11 C15
impl BoxedUint {
pub fn wrapping_sqrt(&self) -> (ret__: Self)
//@+
    requires self.wf()
    ensures ret__.nl() == self.nl(), is_isqrt(self.v(), ret__.v())
//@-
{
        self.sqrt()
    }
}
//@@ end
//@@ fn src/uint/boxed/sqrt.rs | impl BoxedUint | wrapping_sqrt_vartime | body | props C20 C11 C15
impl BoxedUint {
pub fn wrapping_sqrt_vartime(&self) -> (ret__: Self)
//@+
    requires self.wf()
    ensures ret__.nl() == self.nl(), is_isqrt(self.v(), ret__.v())
//@-
{
        self.sqrt_vartime()
    }
}
//@@ end
//@@ fn src/uint/boxed/sqrt.rs | impl BoxedUint | checked_sqrt | body | props C20 C11 C15
impl BoxedUint {
pub fn checked_sqrt(&self) -> (ret__: CtOption<Self>)
//@+
    requires self.wf(), 2 * self.nl() < 0x400_0000   // `r.wrapping_mul(&r)` builds the 2n-limb product and takes its bits_precision()
    ensures ret__.value.nl() == self.nl(), is_isqrt(self.v(), ret__.value.v()), ret__.is_some.wf(),
        ret__.is_some.t() == (ret__.value.v() * ret__.value.v() == self.v())
//@-
{
        let r = self.sqrt();
        let s = r.wrapping_mul(&r);
//@+
    proof {
        lemma_rng(self);
        lemma_small_mod((r.v() * r.v()) as nat, bp(self.nl()) as nat);
    }
//@-
        CtOption::new(r, ConstantTimeEq::ct_eq(self, &s))
    }
}
//@@ end
//@@ fn src/uint/boxed/sqrt.rs | impl BoxedUint | checked_sqrt_vartime | body | props C20 C11 C15
impl BoxedUint {
pub fn checked_sqrt_vartime(&self) -> (ret__: CtOption<Self>)
//@+
    requires self.wf(), 2 * self.nl() < 0x400_0000   // `r.wrapping_mul(&r)` builds the 2n-limb product and takes its bits_precision()
    ensures ret__.value.nl() == self.nl(), is_isqrt(self.v(), ret__.value.v()), ret__.is_some.wf(),
        ret__.is_some.t() == (ret__.value.v() * ret__.value.v() == self.v())
//@-
{
        let r = self.sqrt_vartime();
        let s = r.wrapping_mul(&r);
//@+
    proof {
        lemma_rng(self);
        lemma_small_mod((r.v() * r.v()) as nat, bp(self.nl()) as nat);
    }
//@-
        CtOption::new(r, ConstantTimeEq::ct_eq(self, &s))
    }
}
//@@ end
//@@ fn src/uint/boxed/sqrt.rs | impl SquareRoot for BoxedUint | sqrt | body | props C20 C11 C15
impl SquareRoot for BoxedUint {
//@+
    open spec fn sqrt_req(&self) -> bool { self.wf() }
    open spec fn sqrt_ens(&self, r: Self) -> bool { r.nl() == self.nl() && is_isqrt(self.v(), r.v()) }
//@-
fn sqrt(&self) -> (ret__: Self)
{
        self.sqrt()
    }
}
//@@ end


// ------------------------------------------------------------------------------------------------
// `core::convert::AsRef` made known to Verus (declaration of an external trait + ghost extension `as_ref_spec`, the pattern
// of vstd's `PartialEqSpec`); `adc_assign` / `sbb_assign` take `rhs: impl AsRef<[Limb]>`. No assumption: `obeys_as_ref_spec()`
// is only claimed by impls whose `as_ref` is verified in this crate (BoxedUint below, `&T` by forwarding).
// The bounds must repeat those of core (`AsRef<T: PointeeSized>: PointeeSized`): needs `#![feature(sized_hierarchy)]`.
// ------------------------------------------------------------------------------------------------
#[verifier::external_trait_specification]
#[verifier::external_trait_extension(AsRefSpec via AsRefSpecImpl)]
pub trait ExAsRef<T: core::marker::PointeeSized>: core::marker::PointeeSized {
    type ExternalTraitSpecificationFor: core::convert::AsRef<T>;
    spec fn obeys_as_ref_spec() -> bool;
    spec fn as_ref_spec(&self) -> &T;
    fn as_ref(&self) -> (r: &T)
        ensures Self::obeys_as_ref_spec() ==> r == self.as_ref_spec();
}
impl AsRefSpecImpl<[Limb]> for BoxedUint {
    // claimed AND checked: the region `impl AsRef<[Limb]> for BoxedUint | as_ref` below is verified against the trait-level `ensures`
    open spec fn obeys_as_ref_spec() -> bool { true }
    open spec fn as_ref_spec(&self) -> &[Limb] { &*self.limbs }
}
// core: `impl<T: ?Sized + AsRef<U>, U: ?Sized> AsRef<U> for &T { fn as_ref(&self) -> &U { <T as AsRef<U>>::as_ref(*self) } }`
// (ASSUMED model of the forwarding impl of core: `&T` obeys whenever `T` does)
impl<'a, T: AsRef<U> + ?Sized, U: ?Sized> AsRefSpecImpl<U> for &'a T {
    open spec fn obeys_as_ref_spec() -> bool { T::obeys_as_ref_spec() }
    open spec fn as_ref_spec(&self) -> &U { (**self).as_ref_spec() }
}
/// `rhs.as_ref()` returns `rhs.as_ref_spec()` (precondition of the functions taking `rhs: impl AsRef<[Limb]>`: the type is anonymous there)
pub open spec fn asref_ok<R: AsRef<[Limb]>>(r: &R) -> bool { R::obeys_as_ref_spec() }

// ---- comparison operators of BoxedUint: vstd-level specifications (`a < b` on references is resolved through these)
pub open spec fn bord_of(a: int, b: int) -> Ordering {
    if a < b { Ordering::Less } else if a == b { Ordering::Equal } else { Ordering::Greater }
}
impl vstd::std_specs::cmp::PartialEqSpecImpl for BoxedUint {
    open spec fn obeys_eq_spec() -> bool { true }
    open spec fn eq_spec(&self, other: &BoxedUint) -> bool { self.v() == other.v() }
}
impl vstd::std_specs::cmp::PartialOrdSpecImpl for BoxedUint {
    open spec fn obeys_partial_cmp_spec() -> bool { true }
    open spec fn partial_cmp_spec(&self, other: &BoxedUint) -> Option<Ordering> { Some(bord_of(self.v(), other.v())) }
}
impl vstd::std_specs::cmp::OrdSpecImpl for BoxedUint {
    open spec fn obeys_cmp_spec() -> bool { true }
    open spec fn cmp_spec(&self, other: &BoxedUint) -> Ordering { bord_of(self.v(), other.v()) }
}
// /repo: `impl Eq for BoxedUint {}` (marker, no method)
impl Eq for BoxedUint {}
// `Debug for BoxedUint` (/repo: `write!(f, "BoxedUint(0x{self:X})")`, formatting machinery, not extracted): only needed to TYPE the
// `debug_assert_eq!(self, other)` of `Ord::cmp`; never executed on the verified paths (reaching the panic is a proof obligation)
impl core::fmt::Debug for BoxedUint {
    #[verifier::external_body]
    fn fmt(&self, f: &mut core::fmt::Formatter<'_>) -> core::fmt::Result { Ok(()) }
}
// `From` impls of src/uint/boxed/from.rs: no vstd-level from_spec is claimed; behaviour = `ensures` of the regions
impl vstd::std_specs::convert::FromSpecImpl<u64> for BoxedUint {
    open spec fn obeys_from_spec() -> bool { false }
    open spec fn from_spec(n: u64) -> BoxedUint { arbitrary() }
}
impl vstd::std_specs::convert::FromSpecImpl<u128> for BoxedUint {
    open spec fn obeys_from_spec() -> bool { false }
    open spec fn from_spec(n: u128) -> BoxedUint { arbitrary() }
}
impl vstd::std_specs::convert::FromSpecImpl<Limb> for BoxedUint {
    open spec fn obeys_from_spec() -> bool { false }
    open spec fn from_spec(n: Limb) -> BoxedUint { arbitrary() }
}
impl vstd::std_specs::convert::FromSpecImpl<Box<[Limb]>> for BoxedUint {
    open spec fn obeys_from_spec() -> bool { false }
    open spec fn from_spec(n: Box<[Limb]>) -> BoxedUint { arbitrary() }
}
impl<'a> vstd::std_specs::convert::FromSpecImpl<&'a [Limb]> for BoxedUint {
    open spec fn obeys_from_spec() -> bool { false }
    open spec fn from_spec(n: &'a [Limb]) -> BoxedUint { arbitrary() }
}


// ---- lemmas of the modular family (lemma_cond_sub / lemma_cond_add / lemma_mms_core: copies of the private lemmas of l4_modular.rs,
// the last one with the const generic LIMBS replaced by a ghost n)
/// conditional subtraction of the modulus after an addition: s in [0, 2p), out = s mod p
proof fn lemma_cond_sub(s: int, p: int, ww: int, w: int, lt: bool)
    requires 0 <= s < 2 * p, p < ww, 0 <= w < ww, lt == (s < p),
        w == (if lt { s - p + ww } else { s - p })
    ensures (w + (if lt { p } else { 0 })) % ww == s % p, s % p < p
{
    if lt {
        lemma_small_mod(s as nat, p as nat);
        lemma_mod_add_multiples_vanish(s, ww);
        lemma_small_mod(s as nat, ww as nat);
        assert(w + p == ww + s);
    } else {
        lemma_fundamental_div_mod_converse(s, p, 1, s - p);
        lemma_small_mod(w as nat, ww as nat);
    }
}

/// conditional addition of the modulus after a subtraction: d in [-p, p), out = d mod p
proof fn lemma_cond_add(d: int, p: int, ww: int, out: int, neg: bool)
    requires -p <= d < p, 0 < p < ww, 0 <= out < ww, neg == (d < 0),
        out == (if neg { d + ww } else { d })
    ensures (out + (if neg { p } else { 0 })) % ww == d % p, 0 <= d % p < p
{
    if neg {
        lemma_mod_add_multiples_vanish(d + p, ww); lemma_small_mod((d + p) as nat, ww as nat);
        lemma_mod_add_multiples_vanish(d, p); lemma_small_mod((d + p) as nat, p as nat);
        assert(out + p == ww + (d + p));
    } else {
        lemma_small_mod(d as nat, ww as nat); lemma_small_mod(d as nat, p as nat);
    }
}

/// r in [0, W) differs from t by 0 or W  ==>  r == t mod W
proof fn lemma_wrap(r: int, t: int, ww: int)
    requires 0 <= r < ww, r == t || r + ww == t
    ensures r == t % ww
{
    if r == t { lemma_small_mod(r as nat, ww as nat); } else { lemma_fundamental_div_mod_converse(t, ww, 1, r); }
}

/// arithmetic core of Algorithm 14.47 (HAC) as used by mul_mod_special, W = B^n, p = W - c
proof fn lemma_mms_core(n: nat, a: int, b: int, lo0: int, hv: int, lo1: int, c1: int, lo2: int, c2: int, cv: int)
    requires n >= 2, a >= 0, b >= 0,
        0 <= lo0 < bp(n), 0 <= hv < bp(n), 0 <= lo1 < bp(n), 0 <= lo2 < bp(n),
        1 <= cv < B(), 0 <= c1 < B(), 0 <= c2,
        lo0 + hv * bp(n) == a * b,
        lo1 + c1 * bp(n) == lo0 + hv * cv,
        lo2 + c2 * bp(n) == lo1 + (c1 + 1) * cv,
    ensures c2 == 0 || c2 == 1,
        lo2 - (if c2 == 1 { 0 } else { cv }) == (a * b) % (bp(n) - cv),
        0 <= (a * b) % (bp(n) - cv) < bp(n) - cv
{
    let ww = bp(n); let p = ww - cv; let nn = a * b;
    lemma_bp_succ((n - 1) as nat); lemma_bp_succ((n - 2) as nat);
    assert(ww >= B() * B()) by (nonlinear_arith) requires ww == B() * bp((n - 1) as nat), bp((n - 1) as nat) == B() * bp((n - 2) as nat), bp((n - 2) as nat) >= 1, B() > 0;
    let t = lo1 + c1 * cv;
    assert(nn - t == (hv + c1) * p) by (nonlinear_arith)
        requires nn == lo0 + hv * ww, lo1 + c1 * ww == lo0 + hv * cv, t == lo1 + c1 * cv, p == ww - cv;
    assert(nn >= 0) by (nonlinear_arith) requires nn == a * b, a >= 0, b >= 0;
    let s2 = lo1 + (c1 + 1) * cv;
    assert((c1 + 1) * cv == c1 * cv + cv) by (nonlinear_arith);
    assert(c1 * cv <= (B() - 1) * (B() - 1)) by (nonlinear_arith) requires 0 <= c1 <= B() - 1, 0 <= cv <= B() - 1;
    assert((B() - 1) * (B() - 1) == B() * B() - 2 * B() + 1) by (nonlinear_arith);
    assert(c2 == 0 || c2 == 1) by (nonlinear_arith) requires lo2 + c2 * ww == s2, s2 < 2 * ww, lo2 >= 0, c2 >= 0, ww > 0;
    assert(c2 * ww == (if c2 == 1 { ww } else { 0 })) by (nonlinear_arith) requires c2 == 0 || c2 == 1;
    assert(t >= 0) by (nonlinear_arith) requires t == lo1 + c1 * cv, lo1 >= 0, c1 >= 0, cv >= 0;
    let res = if c2 == 1 { t - p } else { t };
    assert(0 <= res < p);
    let qq = if c2 == 1 { hv + c1 + 1 } else { hv + c1 };
    if c2 == 1 {
        assert(nn == p * qq + res) by (nonlinear_arith) requires nn - t == (hv + c1) * p, res == t - p, qq == hv + c1 + 1;
    } else {
        assert(nn == p * qq + res) by (nonlinear_arith) requires nn - t == (hv + c1) * p, res == t, qq == hv + c1;
    }
    assert(p > 0);
    lemma_fundamental_div_mod_converse(nn, p, qq, res);
}

/// val(s, h + m) == val(s[0..h], h) + val(s[h..h+m], m) * B^h   (copy of the private l7_boxed_slices::lemma_bs_val_split, window form)
proof fn lemma_val_split(s: Seq<Limb>, h: nat, m: nat)
    requires h + m <= s.len()
    ensures val(s, h + m) == val(s.subrange(0, h as int), h) + val(s.subrange(h as int, (h + m) as int), m) * bp(h)
    decreases m
{
    let t = s.subrange(h as int, (h + m) as int);
    if m > 0 {
        let m1 = (m - 1) as nat;
        lemma_val_split(s, h, m1);
        lemma_bp_add(h, m1);
        let t1 = s.subrange(h as int, (h + m1) as int);
        assert forall|k: int| 0 <= k < m1 implies t1[k] == t[k] by { }
        lemma_val_ext(t1, t, m1);
        assert(t[m - 1] == s[h + m - 1]);
        let a = t[m - 1].0 as int;
        assert((val(t, m1) + a * bp(m1)) * bp(h) == val(t, m1) * bp(h) + a * (bp(h) * bp(m1))) by (nonlinear_arith);
        assert((h + m - 1) as nat == (h + m1) as nat);
    } else {
        lemma_val_ext(s, s.subrange(0, h as int), h);
        assert(val(t, 0) * bp(h) == 0) by (nonlinear_arith) requires val(t, 0) == 0;
    }
}

/// facts about `!c` for whatever Choice comes back from `is_zero()`
pub proof fn lemma_not_all()
    ensures forall|c: Choice| c.wf() ==> (#[trigger] choice_not(c)).wf() && choice_not(c).t() == !c.t()
{
    assert forall|c: Choice| c.wf() implies (#[trigger] choice_not(c)).wf() && choice_not(c).t() == !c.t() by { lemma_choice_ops(c, c); }
}

// ------------------------------------------------------------------------------------------------
// C07: modular arithmetic (src/uint/boxed/add_mod.rs, sub_mod.rs, neg_mod.rs, mul_mod.rs)
// ------------------------------------------------------------------------------------------------
//@@ fn src/uint/boxed.rs | impl BoxedUint | as_limbs | body | props C16 C11
impl BoxedUint {
pub fn as_limbs(&self) -> (ret__: &[Limb])
//@+
    ensures ret__@ == self.limbs@
//@-
{
        self.limbs.as_ref()
    }
}
//@@ end
//@@ fn src/uint/boxed.rs | impl AsRef<[Limb]> for BoxedUint | as_ref | body | props C16 C11
impl AsRef<[Limb]> for BoxedUint {
fn as_ref(&self) -> (ret__: &[Limb])
//@+
    ensures ret__@ == self.limbs@
//@-
{
        self.as_limbs()
    }
}
//@@ end
//@@ fn src/uint/boxed/add.rs | impl BoxedUint | adc_assign | body | props C04 C11 C15
impl BoxedUint {
pub fn adc_assign(&mut self, rhs: impl AsRef<[Limb]>, mut carry: Limb) -> (ret__: Limb)
//@+
    requires old(self).limbs@.len() < 0x400_0000, rhs.as_ref_spec()@.len() <= old(self).limbs@.len(), asref_ok(&rhs)
    ensures final(self).nl() == old(self).nl(),
        final(self).v() + ret__.0 as int * bp(old(self).nl()) == old(self).v() + val(rhs.as_ref_spec()@, rhs.as_ref_spec()@.len()) + carry.0 as int,
        final(self).v() == (old(self).v() + val(rhs.as_ref_spec()@, rhs.as_ref_spec()@.len()) + carry.0 as int) % bp(old(self).nl()),
        carry.0 <= 1 ==> ret__.0 <= 1
//@-
{
//@+
    let ghost s0 = self.limbs@; let ghost n = self.limbs@.len(); let ghost rs = rhs.as_ref_spec()@; let ghost m = rs.len(); let ghost c0 = carry.0 as int;
    proof {
        lemma_bp_succ(0);
        assert(carry.0 as int * bp(0) == c0) by (nonlinear_arith) requires bp(0) == 1, c0 == carry.0 as int;
        assert((m as u32) as int == m);
    }
//@-
        assert!(self.bits_precision() >= (rhs.as_ref().len() as u32 * Limb::BITS));
        for i in 0..self.nlimbs()
//@+
    invariant self.limbs@.len() == n, s0.len() == n, m <= n, rs == rhs.as_ref_spec()@, rs.len() == m, asref_ok(&rhs), VERUS_ghost_iter.iter.end == n,
        forall|k: int| VERUS_ghost_iter.index@ <= k < n ==> self.limbs@[k] == s0[k],
        c0 <= 1 ==> carry.0 <= 1,
        val(self.limbs@, VERUS_ghost_iter.index@ as nat) + carry.0 as int * bp(VERUS_ghost_iter.index@ as nat)
            == val(s0, VERUS_ghost_iter.index@ as nat) + val(rs, min_int(VERUS_ghost_iter.index@, m as int) as nat) + c0,
//@-
{
//@+
    let ghost sb = self.limbs@; let ghost cb = carry.0 as int;
//@-
            let (limb, b) = self.limbs[i].adc(*rhs.as_ref().get(i).unwrap_or(&Limb::ZERO), carry);
            self.limbs[i] = limb;
            carry = b;
//@+
    proof {
        lemma_val_ext(sb, self.limbs@, i as nat);
        lemma_bp_succ(i as nat);
        let pk = bp(i as nat); let x = limb.0 as int; let c1 = carry.0 as int; let si = s0[i as int].0 as int;
        let rv: int = if i < m { rs[i as int].0 as int } else { 0 };
        assert(x + c1 * B() == si + rv + cb);
        if c0 <= 1 { assert(c1 <= 1) by (nonlinear_arith) requires x + c1 * B() == si + rv + cb, x >= 0, si < B(), rv < B(), cb <= 1, B() > 0; }
        assert(x * pk + c1 * (B() * pk) == si * pk + rv * pk + cb * pk) by (nonlinear_arith) requires x + c1 * B() == si + rv + cb;
        if i < m { assert(val(rs, (i + 1) as nat) == val(rs, i as nat) + rv * pk); } else { assert(rv * pk == 0) by (nonlinear_arith) requires rv == 0; }
    }
//@-
        }
//@+
    proof {
        lemma_val_bound(self.limbs@, n); lemma_val_bound(s0, n); lemma_val_bound(rs, m);
        lemma_fundamental_div_mod_converse(val(s0, n) + val(rs, m) + c0, bp(n), carry.0 as int, val(self.limbs@, n));
    }
//@-
        carry
    }
}
//@@ end
//@@ fn src/uint/boxed/sub.rs | impl BoxedUint | sbb_assign | body | props C04 C11 C15
impl BoxedUint {
pub fn sbb_assign(&mut self, rhs: impl AsRef<[Limb]>, mut borrow: Limb) -> (ret__: Limb)
//@+
    // (an empty `self` returns `borrow` unchanged: the mask shape of the result then needs a mask on input)
    requires old(self).limbs@.len() < 0x400_0000, rhs.as_ref_spec()@.len() <= old(self).limbs@.len(), asref_ok(&rhs),
        old(self).limbs@.len() >= 1 || borrow.0 == 0 || borrow.0 == u64::MAX
    ensures final(self).nl() == old(self).nl(), ret__.0 == 0 || ret__.0 == u64::MAX,
        final(self).v() - bb(ret__) * bp(old(self).nl()) == old(self).v() - val(rhs.as_ref_spec()@, rhs.as_ref_spec()@.len()) - (borrow.0 >> 63) as int,
        final(self).v() == (old(self).v() - val(rhs.as_ref_spec()@, rhs.as_ref_spec()@.len()) - (borrow.0 >> 63) as int) % bp(old(self).nl())
//@-
{
//@+
    let ghost s0 = self.limbs@; let ghost n = self.limbs@.len(); let ghost rs = rhs.as_ref_spec()@; let ghost m = rs.len(); let ghost borrow0 = borrow;
    let ghost b0i = (borrow.0 >> 63) as int;
    proof {
        lemma_bp_succ(0);
        assert((m as u32) as int == m);
        let bw = borrow.0;
        assert((bw == 0 || bw == 0xffff_ffff_ffff_ffffu64) ==> bw >> 63 == (if bw == 0xffff_ffff_ffff_ffffu64 { 1u64 } else { 0u64 })) by (bit_vector);
        assert(b0i * bp(0) == b0i) by (nonlinear_arith) requires bp(0) == 1;
    }
//@-
        assert!(self.bits_precision() >= (rhs.as_ref().len() as u32 * Limb::BITS));
        for i in 0..self.nlimbs()
//@+
    invariant self.limbs@.len() == n, s0.len() == n, m <= n, rs == rhs.as_ref_spec()@, rs.len() == m, asref_ok(&rhs), VERUS_ghost_iter.iter.end == n,
        forall|k: int| VERUS_ghost_iter.index@ <= k < n ==> self.limbs@[k] == s0[k],
        VERUS_ghost_iter.index@ > 0 ==> (borrow.0 == 0 || borrow.0 == u64::MAX), VERUS_ghost_iter.index@ == 0 ==> borrow == borrow0,
        b0i == (borrow0.0 >> 63) as int,
        val(self.limbs@, VERUS_ghost_iter.index@ as nat) - (if VERUS_ghost_iter.index@ == 0 { b0i } else { bb(borrow) }) * bp(VERUS_ghost_iter.index@ as nat)
            == val(s0, VERUS_ghost_iter.index@ as nat) - val(rs, min_int(VERUS_ghost_iter.index@, m as int) as nat) - b0i,
//@-
{
//@+
    let ghost sb = self.limbs@; let ghost bprev = borrow;
//@-
            let (limb, b) = self.limbs[i].sbb(*rhs.as_ref().get(i).unwrap_or(&Limb::ZERO), borrow);
            self.limbs[i] = limb;
            borrow = b;
//@+
    proof {
        lemma_val_ext(sb, self.limbs@, i as nat);
        lemma_bp_succ(i as nat);
        let pk = bp(i as nat); let x = limb.0 as int; let si = s0[i as int].0 as int;
        let rv: int = if i < m { rs[i as int].0 as int } else { 0 };
        let bin = (bprev.0 >> 63) as int; let bw = bprev.0;
        if i > 0 { assert(bw >> 63 == (if bw == 0xffff_ffff_ffff_ffffu64 { 1u64 } else { 0u64 })) by (bit_vector) requires bw == 0 || bw == 0xffff_ffff_ffff_ffffu64; }
        assert(x - bb(borrow) * B() == si - rv - bin);
        assert(x * pk - bb(borrow) * (B() * pk) == si * pk - rv * pk - bin * pk) by (nonlinear_arith) requires x - bb(borrow) * B() == si - rv - bin;
        if i < m { assert(val(rs, (i + 1) as nat) == val(rs, i as nat) + rv * pk); } else { assert(rv * pk == 0) by (nonlinear_arith) requires rv == 0; }
    }
//@-
        }
//@+
    proof {
        lemma_val_bound(self.limbs@, n); lemma_val_bound(s0, n); lemma_val_bound(rs, m);
        if n == 0 { assert(bb(borrow) == b0i); assert(bb(borrow) * bp(0) == bb(borrow)) by (nonlinear_arith) requires bp(0) == 1; }
        assert((-bb(borrow)) * bp(n) == -(bb(borrow) * bp(n))) by (nonlinear_arith);
        lemma_fundamental_div_mod_converse(val(s0, n) - val(rs, m) - b0i, bp(n), -bb(borrow), val(self.limbs@, n));
    }
//@-
        borrow
    }
}
//@@ end
//@@ fn src/uint/boxed/sub.rs | impl BoxedUint | wrapping_sub | body | props C04 C11 C15
impl BoxedUint {
pub fn wrapping_sub(&self, rhs: &Self) -> (ret__: Self)
//@+
    requires self.nl() >= 1 || rhs.nl() >= 1
    ensures ret__.nl() == max_nat(self.nl(), rhs.nl()), ret__.v() == (self.v() - rhs.v()) % bp(ret__.nl())
//@-
{
//@+
    assert(0u64 >> 63 == 0) by (bit_vector);
//@-
        self.sbb(rhs, Limb::ZERO).0
    }
}
//@@ end
//@@ fn src/uint/boxed/shl.rs | impl BoxedUint | shl1_assign | body | props C05 C11
impl BoxedUint {
pub fn shl1_assign(&mut self) -> (ret__: Limb)
//@+
    requires old(self).nl() >= 1
    ensures final(self).nl() == old(self).nl(), ret__.0 <= 1, final(self).v() + ret__.0 as int * bp(old(self).nl()) == 2 * old(self).v()
//@-
{
//@+
    let ghost s0 = self.limbs@; let ghost n = self.limbs@.len();
//@-
        let mut carry = self.limbs[0] >> Limb::HI_BIT;
        self.limbs[0].shl_assign(1);
//@+
    proof {
        let x = s0[0].0;
        assert((x << 1u32) as int + (x >> 63u32) as int * 0x1_0000_0000_0000_0000 == 2 * x) by (bit_vector);
        assert(x >> 63u32 <= 1) by (bit_vector);
        lemma_bp1();
        assert(val(self.limbs@, 1) == val(self.limbs@, 0) + self.limbs@[0].0 as int * bp(0));
        assert(val(s0, 1) == val(s0, 0) + s0[0].0 as int * bp(0));
        assert(self.limbs@[0].0 as int * bp(0) == self.limbs@[0].0 as int) by (nonlinear_arith) requires bp(0) == 1;
        assert(s0[0].0 as int * bp(0) == s0[0].0 as int) by (nonlinear_arith) requires bp(0) == 1;
    }
//@-
        for i in 1..self.limbs.len()
//@+
    invariant self.limbs@.len() == n, s0.len() == n, n >= 1, VERUS_ghost_iter.iter.end == n, i == VERUS_ghost_iter.index@ + 1,
        forall|k: int| i <= k < n ==> self.limbs@[k] == s0[k], carry.0 <= 1,
        val(self.limbs@, i as nat) + carry.0 as int * bp(i as nat) == 2 * val(s0, i as nat),
//@-
{
//@+
    let ghost sb = self.limbs@; let ghost cb = carry.0;
//@-
            let (__t0, __t1) = ((self.limbs[i] << 1) | carry, self.limbs[i] >> Limb::HI_BIT); self.limbs[i] = __t0; carry = __t1;
//@+
    proof {
        let y = s0[i as int].0; let w = self.limbs@[i as int].0; let c1 = carry.0;
        assert(((y << 1u32) | cb) as int + (y >> 63u32) as int * 0x1_0000_0000_0000_0000 == 2 * y + cb) by (bit_vector) requires cb <= 1;
        assert(y >> 63u32 <= 1) by (bit_vector);
        lemma_val_ext(sb, self.limbs@, i as nat);
        lemma_bp_succ(i as nat);
        let pk = bp(i as nat);
        assert(w as int * pk + c1 as int * (B() * pk) == (2 * y as int) * pk + cb as int * pk) by (nonlinear_arith) requires w as int + c1 as int * B() == 2 * y as int + cb as int;
        assert(2 * (val(s0, i as nat) + y as int * pk) == 2 * val(s0, i as nat) + (2 * y as int) * pk) by (nonlinear_arith);
    }
//@-
        }
        carry
    }
}
//@@ end
//@@ fn src/uint/boxed/shl.rs | impl BoxedUint | overflowing_shl1 | body | props C05 C11 C15
impl BoxedUint {
pub fn overflowing_shl1(&self) -> (ret__: (Self, Limb))
//@+
    requires self.nl() >= 1
    ensures ret__.0.nl() == self.nl(), ret__.1.0 <= 1, ret__.0.v() + ret__.1.0 as int * bp(self.nl()) == 2 * self.v()
//@-
{
        let mut ret = self.clone();
        let carry = ret.shl1_assign();
        (ret, carry)
    }
}
//@@ end
//@@ fn src/uint/boxed/from.rs | impl From<u64> for BoxedUint | from | stub | props C16 C11
impl From<u64> for BoxedUint {
#[verifier::external_body]
fn from(n: u64) -> (ret__: Self)
//@+
    // ASSUMED: `U64::from(n).into()` goes through `impl<const LIMBS: usize> From<u64> for Uint<LIMBS>`, whose `debug_assert!(LIMBS >= 8 / Limb::BYTES)`
    // (checked by Verus) needs `requires LIMBS >= 1`; a method of a trait impl cannot carry `requires` and vstd's `FromSpecImpl` has no `from_req`.
    // (`from_u64` and `From<Uint<LIMBS>> for BoxedUint` are proved.)
    ensures ret__.nl() == 1, ret__.v() == n
//@-
{
    unimplemented!()
}
}
//@@ end
//@@ fn src/uint/boxed/from.rs | impl From<u128> for BoxedUint | from | stub | props C16 C11
impl From<u128> for BoxedUint {
#[verifier::external_body]
fn from(n: u128) -> (ret__: Self)
//@+
    // ASSUMED: as From<u64> (`debug_assert!(LIMBS >= 16 / Limb::BYTES)` in `impl From<u128> for Uint<LIMBS>`)
    ensures ret__.nl() == 2, ret__.v() == n
//@-
{
    unimplemented!()
}
}
//@@ end
//@@ fn src/uint/boxed/from.rs | impl From<Limb> for BoxedUint | from | body | props C16 C11
impl From<Limb> for BoxedUint {
fn from(limb: Limb) -> (ret__: Self)
//@+
    ensures ret__.nl() == 1, ret__.v() == limb.0
//@-
{
//@+
    proof {
        assert forall|s: Seq<Limb>| s.len() == 1 implies #[trigger] val(s, s.len()) == s[0].0 as int by { lemma_val_single(s, 1); }
    }
//@-
        vec![limb; 1].into()
    }
}
//@@ end
//@@ fn src/uint/boxed/from.rs | impl From<Box<[Limb]>> for BoxedUint | from | body | props C16 C15 C11
impl From<Box<[Limb]>> for BoxedUint {
fn from(limbs: Box<[Limb]>) -> (ret__: BoxedUint)
//@+
    ensures ret__.limbs@ == (if limbs@.len() == 0 { seq![Limb(0)] } else { limbs@ }),
        ret__.limbs@.len() >= 1, ret__.v() == val(limbs@, limbs@.len())
//@-
{
        Vec::from(limbs).into()
    }
}
//@@ end
//@@ fn src/uint/boxed/from.rs | impl From<&[Limb]> for BoxedUint | from | body | props C16 C11
impl From<&[Limb]> for BoxedUint {
fn from(limbs: &[Limb]) -> (ret__: BoxedUint)
//@+
    ensures ret__.limbs@ == limbs@
//@-
{
        Self {
            limbs: limbs.into(),
        }
    }
}
//@@ end
//@@ fn src/uint/boxed/cmp.rs | impl PartialEq for BoxedUint | eq | body | props C06 C11 C15
impl PartialEq for BoxedUint {
fn eq(&self, other: &Self) -> (ret__: bool)
//@+
    ensures ret__ == (self.v() == other.v())
//@-
{
        self.ct_eq(other).into()
    }
}
//@@ end
//@@ fn src/uint/boxed/cmp.rs | impl Ord for BoxedUint | cmp | body | props C06 C11 C15
impl Ord for BoxedUint {
fn cmp(&self, other: &Self) -> (ret__: Ordering)
//@+
    ensures ret__ == bord_of(self.v(), other.v())
//@-
{
//@+
    proof { lemma_choice_ops(Choice(0), Choice(0)); }
//@-
        let mut ret = Ordering::Equal;
        ret.conditional_assign(&Ordering::Greater, self.ct_gt(other));
        ret.conditional_assign(&Ordering::Less, self.ct_lt(other));
        #[cfg(debug_assertions)]
        if ret == Ordering::Equal {
            debug_assert_eq!(self, other);
        }
        ret
    }
}
//@@ end
//@@ fn src/uint/boxed/cmp.rs | impl PartialOrd for BoxedUint | partial_cmp | body | props C06 C11 C15
impl PartialOrd for BoxedUint {
fn partial_cmp(&self, other: &Self) -> (ret__: Option<Ordering>)
//@+
    ensures ret__ == Some(bord_of(self.v(), other.v()))
//@-
{
        Some(self.cmp(other))
    }
}
//@@ end
//@@ fn src/uint/boxed/add_mod.rs | impl BoxedUint | add_mod_assign | body | props C07 C11 C15
impl BoxedUint {
pub fn add_mod_assign(&mut self, rhs: &Self, p: &Self)
//@+
    requires old(self).wf(), rhs.nl() == old(self).nl(), p.nl() == old(self).nl(), old(self).v() < p.v(), rhs.v() < p.v()
    ensures final(self).nl() == old(self).nl(), final(self).v() == (old(self).v() + rhs.v()) % p.v(), final(self).v() < p.v()
//@-
{
//@+
    let ghost a = self.v(); let ghost nl = self.nl(); let ghost ww = bp(nl); let ghost s = a + rhs.v();
    proof { lemma_rng(self); lemma_rng(rhs); lemma_rng(p); lemma_not_all(); }
    assert(0u64 >> 63 == 0) by (bit_vector);
//@-
        debug_assert_eq!(self.bits_precision(), p.bits_precision());
        debug_assert_eq!(rhs.bits_precision(), p.bits_precision());
        debug_assert!(&*self < p);
        debug_assert!(rhs < p);
        let carry = self.adc_assign(rhs, Limb::ZERO);
        // Attempt to subtract the modulus, to ensure the result is in the field.
        let borrow = self.sbb_assign(p, Limb::ZERO);
//@+
    let ghost w2 = self.v(); let ghost borrow1 = borrow;
    proof { lemma_rng(self); }
//@-
        let (_, borrow) = carry.sbb(Limb::ZERO, borrow);
//@+
    proof {
        let c = carry.0 as int;
        assert(c * ww == (if c == 1 { ww } else { 0 })) by (nonlinear_arith) requires c == 0 || c == 1;
        assert(bb(borrow1) * ww == (if bb(borrow1) == 1 { ww } else { 0 })) by (nonlinear_arith) requires bb(borrow1) == 0 || bb(borrow1) == 1;
        assert((borrow.0 == u64::MAX) == (s < p.v()));
        assert(borrow.0 == 0 || borrow.0 == u64::MAX);
        lemma_cond_sub(s, p.v(), ww, w2, s < p.v());
    }
//@-
        // If underflow occurred on the final limb, borrow = 0xfff...fff, otherwise
        // borrow = 0x000...000. Thus, we use it as a mask to conditionally add the
        // modulus.
        self.conditional_adc_assign(p, !borrow.is_zero());
//@+
    proof { lemma_rng(self); lemma_wrap(self.v(), w2 + (if s < p.v() { p.v() } else { 0 }), ww); }
//@-
    }
}
//@@ end
//@@ fn src/uint/boxed/add_mod.rs | impl BoxedUint | add_mod | body | props C07 C11 C15
impl BoxedUint {
pub fn add_mod(&self, rhs: &Self, p: &Self) -> (ret__: Self)
//@+
    requires self.wf(), rhs.nl() == self.nl(), p.nl() == self.nl(), self.v() < p.v(), rhs.v() < p.v()
    ensures ret__.nl() == self.nl(), ret__.v() == (self.v() + rhs.v()) % p.v(), ret__.v() < p.v()
//@-
{
        let mut result = self.clone();
        result.add_mod_assign(rhs, p);
        result
    }
}
//@@ end
//@@ fn src/uint/boxed/add_mod.rs | impl BoxedUint | double_mod | body | props C07 C11 C15
impl BoxedUint {
pub fn double_mod(&self, p: &Self) -> (ret__: Self)
//@+
    requires self.wf(), p.nl() == self.nl(), self.v() < p.v()
    ensures ret__.nl() == self.nl(), ret__.v() == (2 * self.v()) % p.v(), ret__.v() < p.v()
//@-
{
//@+
    let ghost nl = self.nl(); let ghost ww = bp(nl); let ghost s = 2 * self.v();
    proof { lemma_rng(self); lemma_rng(p); lemma_not_all(); }
    assert(0u64 >> 63 == 0) by (bit_vector);
//@-
        let (mut w, carry) = self.overflowing_shl1();
        // Attempt to subtract the modulus, to ensure the result is in the field.
        let borrow = w.sbb_assign(p, Limb::ZERO);
//@+
    let ghost w2 = w.v(); let ghost borrow1 = borrow;
    proof { lemma_rng(&w); }
//@-
        let (_, borrow) = carry.sbb(Limb::ZERO, borrow);
//@+
    proof {
        let c = carry.0 as int;
        assert(c * ww == (if c == 1 { ww } else { 0 })) by (nonlinear_arith) requires c == 0 || c == 1;
        assert(bb(borrow1) * ww == (if bb(borrow1) == 1 { ww } else { 0 })) by (nonlinear_arith) requires bb(borrow1) == 0 || bb(borrow1) == 1;
        assert((borrow.0 == u64::MAX) == (s < p.v()));
        assert(borrow.0 == 0 || borrow.0 == u64::MAX);
        lemma_cond_sub(s, p.v(), ww, w2, s < p.v());
    }
//@-
        // If underflow occurred on the final limb, borrow = 0xfff...fff, otherwise
        // borrow = 0x000...000. Thus, we use it as a mask to conditionally add the
        // modulus.
        w.conditional_adc_assign(p, !borrow.is_zero());
//@+
    proof { lemma_rng(&w); lemma_wrap(w.v(), w2 + (if s < p.v() { p.v() } else { 0 }), ww); }
//@-
        w
    }
}
//@@ end
//@@ fn src/uint/boxed/sub_mod.rs | impl BoxedUint | sub_mod | body | props C07 C11 C15
impl BoxedUint {
pub fn sub_mod(&self, rhs: &Self, p: &Self) -> (ret__: Self)
//@+
    requires self.wf(), rhs.nl() == self.nl(), p.nl() == self.nl(), self.v() < p.v(), rhs.v() < p.v()
    ensures ret__.nl() == self.nl(), ret__.v() == (self.v() - rhs.v()) % p.v(), ret__.v() < p.v()
//@-
{
//@+
    let ghost nl = self.nl(); let ghost ww = bp(nl); let ghost d = self.v() - rhs.v();
    proof { lemma_rng(self); lemma_rng(rhs); lemma_rng(p); lemma_not_all(); }
    assert(0u64 >> 63 == 0) by (bit_vector);
//@-
        debug_assert_eq!(self.bits_precision(), p.bits_precision());
        debug_assert_eq!(rhs.bits_precision(), p.bits_precision());
        debug_assert!(self < p);
        debug_assert!(rhs < p);
        let (mut out, borrow) = self.sbb(rhs, Limb::ZERO);
//@+
    let ghost o1 = out.v();
    proof {
        lemma_rng(&out);
        assert(bb(borrow) * ww == (if bb(borrow) == 1 { ww } else { 0 })) by (nonlinear_arith) requires bb(borrow) == 0 || bb(borrow) == 1;
        lemma_cond_add(d, p.v(), ww, o1, d < 0);
    }
//@-
        // If underflow occurred on the final limb, borrow = 0xfff...fff, otherwise
        // borrow = 0x000...000. Thus, we use it as a mask to conditionally add the modulus.
        out.conditional_adc_assign(p, !borrow.is_zero());
//@+
    proof { lemma_rng(&out); lemma_wrap(out.v(), o1 + (if d < 0 { p.v() } else { 0 }), ww); }
//@-
        out
    }
}
//@@ end
//@@ fn src/uint/boxed/sub_mod.rs | impl BoxedUint | sub_assign_mod_with_carry | body | props C07 C08 C11
impl BoxedUint {
pub fn sub_assign_mod_with_carry(&mut self, carry: Limb, rhs: &Self, p: &Self)
//@+
    requires old(self).wf(), rhs.nl() == old(self).nl(), p.nl() == old(self).nl(), carry.0 <= 1, p.v() > 0,
        -p.v() <= old(self).v() + carry.0 as int * bp(old(self).nl()) - rhs.v() < p.v()
    ensures final(self).nl() == old(self).nl(), final(self).v() < p.v(),
        final(self).v() == (old(self).v() + carry.0 as int * bp(old(self).nl()) - rhs.v()) % p.v()
//@-
{
//@+
    let ghost nl = self.nl(); let ghost ww = bp(nl); let ghost c = carry.0 as int; let ghost d = self.v() + c * ww - rhs.v();
    proof { lemma_rng(self); lemma_rng(rhs); lemma_rng(p); lemma_not_all(); }
    assert(0u64 >> 63 == 0) by (bit_vector);
//@-
        debug_assert!(carry.0 <= 1);
        let borrow = self.sbb_assign(rhs, Limb::ZERO);
//@+
    let ghost o1 = self.v(); let ghost cw = carry.0; let ghost bw = borrow.0;
    proof {
        lemma_rng(self);
        assert(0 < B()); lemma_mod_self_0(B()); lemma_small_mod((B() - 1) as nat, B() as nat);
        assert(!0u64 == 0xffff_ffff_ffff_ffffu64) by (bit_vector);
        assert(!0xffff_ffff_ffff_ffffu64 == 0u64) by (bit_vector);
        assert(0xffff_ffff_ffff_ffffu64 & bw == bw) by (bit_vector);
        assert(0u64 & bw == 0u64) by (bit_vector);
    }
//@-
        // The new `borrow = Word::MAX` iff `carry == 0` and `borrow == Word::MAX`.
        let mask = carry.wrapping_neg().not().bitand(borrow);
//@+
    proof {
        assert(c * ww == (if c == 1 { ww } else { 0 })) by (nonlinear_arith) requires c == 0 || c == 1;
        assert(bb(borrow) * ww == (if bb(borrow) == 1 { ww } else { 0 })) by (nonlinear_arith) requires bb(borrow) == 0 || bb(borrow) == 1;
        assert((mask.0 == u64::MAX) == (c == 0 && borrow.0 == u64::MAX));
        assert(mask.0 == 0 || mask.0 == u64::MAX);
        assert((mask.0 == u64::MAX) == (d < 0));
        lemma_cond_add(d, p.v(), ww, o1, d < 0);
    }
//@-
        // If underflow occurred on the final limb, borrow = 0xfff...fff, otherwise
        // borrow = 0x000...000. Thus, we use it as a mask to conditionally add the modulus.
        self.conditional_adc_assign(p, !mask.is_zero());
//@+
    proof { lemma_rng(self); lemma_wrap(self.v(), o1 + (if d < 0 { p.v() } else { 0 }), ww); }
//@-
    }
}
//@@ end
//@@ fn src/uint/boxed/sub_mod.rs | impl BoxedUint | sub_mod_special | body | props C07 C11 C15
impl BoxedUint {
pub fn sub_mod_special(&self, rhs: &Self, c: Limb) -> (ret__: Self)
//@+
    requires self.wf(), rhs.nl() == self.nl(), c.0 >= 1,
        -(bp(self.nl()) - c.0 as int) <= self.v() - rhs.v() < bp(self.nl()) - c.0 as int
    ensures ret__.nl() == self.nl(), ret__.v() == (self.v() - rhs.v()) % (bp(self.nl()) - c.0 as int), ret__.v() < bp(self.nl()) - c.0 as int
//@-
{
//@+
    assert(0u64 >> 63 == 0) by (bit_vector);
//@-
        let (out, borrow) = self.sbb(rhs, Limb::ZERO);
        // If underflow occurred, then we need to subtract `c` to account for
        // the underflow. This cannot underflow due to the assumption
        // `self - rhs >= -p`.
        let l = borrow.0 & c.0;
//@+
    proof {
        lemma_rng(self); lemma_rng(rhs); lemma_rng(&out);
        let nl = self.nl(); let ww = bp(nl); let cv = c.0 as int; let p = ww - cv; let d = self.v() - rhs.v();
        lemma_bp_succ((nl - 1) as nat);
        assert(ww >= B()) by (nonlinear_arith) requires ww == B() * bp((nl - 1) as nat), bp((nl - 1) as nat) >= 1;
        assert(bb(borrow) * ww == (if bb(borrow) == 1 { ww } else { 0 })) by (nonlinear_arith) requires bb(borrow) == 0 || bb(borrow) == 1;
        let bw = borrow.0; let c0 = c.0;
        assert(l == (if bw == 0xffff_ffff_ffff_ffffu64 { c0 } else { 0 })) by (bit_vector) requires l == (bw & c0), bw == 0 || bw == 0xffff_ffff_ffff_ffffu64;
        if d < 0 {
            lemma_small_mod((d + p) as nat, ww as nat);
            lemma_mod_add_multiples_vanish(d, p); lemma_small_mod((d + p) as nat, p as nat);
        } else {
            lemma_small_mod(d as nat, ww as nat); lemma_small_mod(d as nat, p as nat);
        }
    }
//@-
        out.wrapping_sub(&Self::from(l))
    }
}
//@@ end
//@@ fn src/uint/boxed/neg_mod.rs | impl BoxedUint | neg_mod | body | props C07 C11 C15
impl BoxedUint {
pub fn neg_mod(&self, p: &Self) -> (ret__: Self)
//@+
    requires self.wf(), p.nl() == self.nl(), self.v() < p.v()
    ensures ret__.nl() == self.nl(), ret__.v() == (p.v() - self.v()) % p.v(), ret__.v() < p.v()
//@-
{
//@+
    let ghost nl = self.nl();
    assert(0u64 >> 63 == 0) by (bit_vector);
//@-
        debug_assert_eq!(self.bits_precision(), p.bits_precision());
        let is_zero = self.is_zero();
        let mut ret = p.sbb(self, Limb::ZERO).0;
//@+
    let ghost r0 = ret.limbs@;
    proof { lemma_rng(self); lemma_rng(p); lemma_rng(&ret); }
//@-
        for i in 0..self.nlimbs()
//@+
    invariant ret.limbs@.len() == nl, r0.len() == nl, self.limbs@.len() == nl, is_zero.wf(),
        forall|k: int| 0 <= k < VERUS_ghost_iter.index@ ==> ret.limbs@[k].0 == (if is_zero.t() { 0 } else { r0[k].0 }),
        forall|k: int| VERUS_ghost_iter.index@ <= k < nl ==> ret.limbs@[k] == r0[k],
//@-
{
            // Set ret to 0 if the original value was 0, in which
            // case ret would be p.
            ret.limbs[i].conditional_assign(&Limb::ZERO, is_zero);
        }
//@+
    proof {
        let ww = bp(nl); let d = p.v() - self.v();
        lemma_small_mod(d as nat, ww as nat);
        if is_zero.t() {
            lemma_val_zero(ret.limbs@, nl);
            lemma_mod_self_0(p.v());
        } else {
            lemma_val_ext(ret.limbs@, r0, nl);
            lemma_small_mod(d as nat, p.v() as nat);
        }
    }
//@-
        ret
    }
}
//@@ end
//@@ fn src/uint/boxed/neg_mod.rs | impl BoxedUint | neg_mod_special | body | props C07 C11 C15
impl BoxedUint {
pub fn neg_mod_special(&self, c: Limb) -> (ret__: Self)
//@+
    requires self.wf(), c.0 >= 1, self.v() <= bp(self.nl()) - c.0 as int
    ensures ret__.nl() == self.nl(), ret__.v() == (-self.v()) % (bp(self.nl()) - c.0 as int), ret__.v() < bp(self.nl()) - c.0 as int
//@-
{
//@+
    proof {
        lemma_rng(self); lemma_nlimbs_for(self.nl());
        lemma_bp_succ((self.nl() - 1) as nat);
        assert(bp(self.nl()) >= B()) by (nonlinear_arith) requires bp(self.nl()) == B() * bp((self.nl() - 1) as nat), bp((self.nl() - 1) as nat) >= 1;
    }
//@-
        Self::zero_with_precision(self.bits_precision()).sub_mod_special(self, c)
    }
}
//@@ end
//@@ fn src/uint/boxed/mul_mod.rs | - | mac_by_limb | body | props C07 C11
pub fn mac_by_limb(a: &BoxedUint, b: &BoxedUint, c: Limb, carry: Limb) -> (ret__: (BoxedUint, Limb))
//@+
    requires a.nl() <= b.nl()
    ensures ret__.0.nl() == a.nl(), ret__.0.v() + ret__.1.0 as int * bp(a.nl()) == a.v() + val(b.limbs@, a.nl()) * c.0 as int + carry.0 as int
//@-
{
//@+
    let ghost a0 = a.limbs@; let ghost carry0 = carry; let ghost n = a.nl();
//@-
    let mut a = a.clone();
    let mut carry = carry;
//@+
    proof {
        lemma_bp_succ(0);
        assert(val(b.limbs@, 0) * c.0 as int == 0) by (nonlinear_arith) requires val(b.limbs@, 0) == 0;
        assert(carry.0 as int * bp(0) == carry.0 as int) by (nonlinear_arith) requires bp(0) == 1;
    }
//@-
    for i in 0..a.nlimbs()
//@+
    invariant a.limbs@.len() == n, a0.len() == n, n <= b.limbs@.len(), VERUS_ghost_iter.iter.end == n,
        forall|k: int| VERUS_ghost_iter.index@ <= k < n ==> a.limbs@[k] == a0[k],
        val(a.limbs@, VERUS_ghost_iter.index@ as nat) + carry.0 as int * bp(VERUS_ghost_iter.index@ as nat)
            == val(a0, VERUS_ghost_iter.index@ as nat) + val(b.limbs@, VERUS_ghost_iter.index@ as nat) * c.0 as int + carry0.0 as int,
//@-
{
//@+
    let ghost ab = a.limbs@; let ghost cb = carry; let ghost cc = c;
//@-
        let (n, c) = a.limbs[i].mac(b.limbs[i], c, carry);
        a.limbs[i] = n;
        carry = c;
//@+
    proof {
        lemma_val_ext(ab, a.limbs@, i as nat);
        lemma_bp_succ(i as nat);
        let pk = bp(i as nat); let x = n.0 as int; let c1 = carry.0 as int; let c0 = cb.0 as int;
        let ai = a0[i as int].0 as int; let bi = b.limbs@[i as int].0 as int; let cv = cc.0 as int;
        assert(x + c1 * B() == ai + bi * cv + c0);
        assert(x * pk + c1 * (B() * pk) == ai * pk + (bi * pk) * cv + c0 * pk) by (nonlinear_arith) requires x + c1 * B() == ai + bi * cv + c0;
        assert((val(b.limbs@, i as nat) + bi * pk) * cv == val(b.limbs@, i as nat) * cv + (bi * pk) * cv) by (nonlinear_arith);
    }
//@-
    }
    (a, carry)
}
//@@ end
//@@ fn src/uint/boxed/mul_mod.rs | impl BoxedUint | mul_mod_special | body | props C07 C11 C15
impl BoxedUint {
pub fn mul_mod_special(&self, rhs: &Self, c: Limb) -> (ret__: Self)
//@+
    requires self.wf(), rhs.nl() == self.nl(), c.0 >= 1
    ensures ret__.nl() == self.nl(), ret__.v() == (self.v() * rhs.v()) % (bp(self.nl()) - c.0 as int), ret__.v() < bp(self.nl()) - c.0 as int
//@-
{
//@+
    let ghost nl = self.nl(); let ghost a = self.v(); let ghost b = rhs.v(); let ghost ww = bp(nl);
    proof { lemma_rng(self); lemma_rng(rhs); }
    assert(0u64 >> 63 == 0) by (bit_vector);
//@-
        debug_assert_eq!(self.bits_precision(), rhs.bits_precision());
        // We implicitly assume `LIMBS > 0`, because `Uint<0>` doesn't compile.
        // Still the case `LIMBS == 1` needs special handling.
        if self.nlimbs() == 1 {
//@+
    proof {
        lemma_bp1();
        lemma_val_single(self.limbs@, 1); lemma_val_single(rhs.limbs@, 1);
        let c0 = c.0; let m = 0u64.wrapping_sub(c0);
        assert(m as int == B() - c0 as int);
    }
//@-
            let reduced = mul_rem(
                self.limbs[0],
                rhs.limbs[0],
                NonZero::<Limb>::new_unwrap(Limb(Word::MIN.wrapping_sub(c.0))),
            );
//@+
    proof {
        let n = a * b; let p = B() - c.0 as int;
        assert(n >= 0) by (nonlinear_arith) requires n == a * b, a >= 0, b >= 0;
        lemma_mod_pos_bound(n, p);
    }
//@-
            return Self::from(reduced);
        }
        let product = self.mul(rhs);
        let (lo_words, hi_words) = product.limbs.split_at(self.nlimbs());
        let lo = BoxedUint::from(lo_words);
        let hi = BoxedUint::from(hi_words);
//@+
    let ghost lo0 = lo.v(); let ghost hv = hi.v();
    proof {
        lemma_val_split(product.limbs@, nl, nl);
        assert(lo.limbs@ == product.limbs@.subrange(0, nl as int));
        assert(hi.limbs@ == product.limbs@.subrange(nl as int, (nl + nl) as int));
        assert(lo0 + hv * ww == a * b);
        lemma_rng(&lo); lemma_rng(&hi);
    }
//@-
        // Now use Algorithm 14.47 for the reduction
        let (lo, carry) = mac_by_limb(&lo, &hi, c, Limb::ZERO);
//@+
    let ghost lo1 = lo.v(); let ghost c1 = carry.0 as int;
    proof {
        lemma_rng(&lo);
        let cv = c.0 as int;
        assert((c1 + 1) * cv <= 0xffff_ffff_ffff_ffff * 0x1_0000_0000_0000_0000) by (nonlinear_arith) requires 0 <= c1 <= 0xffff_ffff_ffff_ffff, 0 <= cv <= 0xffff_ffff_ffff_ffff;
    }
//@-
        let (lo, carry) = {
            let rhs = (carry.0 as WideWord + 1) * c.0 as WideWord;
            lo.adc(&Self::from(rhs), Limb::ZERO)
        };
//@+
    let ghost lo2 = lo.v(); let ghost c2 = carry.0 as int;
//@-
        let (lo, _) = {
            let rhs = carry.0.wrapping_sub(1) & c.0;
//@+
    proof {
        lemma_rng(&lo);
        lemma_mms_core(nl, a, b, lo0, hv, lo1, c1, lo2, c2, c.0 as int);
        let cw = carry.0; let c0 = c.0; let ws = cw.wrapping_sub(1);
        lemma_wsub_u64(cw, 1, ws);
        assert(rhs == (if cw == 1 { 0 } else { c0 })) by (bit_vector) requires rhs == (sub(cw, 1) & c0), cw == 0 || cw == 1;
        let n = a * b; let p = ww - c.0 as int;
        assert(lo2 - rhs as int == n % p);
        lemma_small_mod((n % p) as nat, ww as nat);
    }
//@-
            lo.sbb(&Self::from(rhs), Limb::ZERO)
        };
        lo
    }
}
//@@ end
//@@ fn src/uint/boxed/add_mod.rs | impl AddMod for BoxedUint | add_mod | body | props C07 C11 C15
impl AddMod for BoxedUint {
//@+
    type Output = Self;
    open spec fn add_mod_req(&self, rhs: &Self, p: &Self) -> bool { self.wf() && rhs.nl() == self.nl() && p.nl() == self.nl() && self.v() < p.v() && rhs.v() < p.v() }
    open spec fn add_mod_ens(&self, rhs: &Self, p: &Self, r: Self) -> bool { r.nl() == self.nl() && r.v() == (self.v() + rhs.v()) % p.v() && r.v() < p.v() }
//@-
fn add_mod(&self, rhs: &Self, p: &Self) -> (ret__: Self)
{
        self.add_mod(rhs, p)
    }
}
//@@ end
//@@ fn src/uint/boxed/sub_mod.rs | impl SubMod for BoxedUint | sub_mod | body | props C07 C11 C15
impl SubMod for BoxedUint {
//@+
    type Output = Self;
    open spec fn sub_mod_req(&self, rhs: &Self, p: &Self) -> bool { self.wf() && rhs.nl() == self.nl() && p.nl() == self.nl() && self.v() < p.v() && rhs.v() < p.v() }
    open spec fn sub_mod_ens(&self, rhs: &Self, p: &Self, r: Self) -> bool { r.nl() == self.nl() && r.v() == (self.v() - rhs.v()) % p.v() && r.v() < p.v() }
//@-
fn sub_mod(&self, rhs: &Self, p: &Self) -> (ret__: Self)
{
        self.sub_mod(rhs, p)
    }
}
//@@ end
//@@ fn src/uint/boxed/neg_mod.rs | impl NegMod for BoxedUint | neg_mod | body | props C07 C11 C15
impl NegMod for BoxedUint {
//@+
    type Output = Self;
    open spec fn neg_mod_req(&self, p: &Self) -> bool { self.wf() && p.nl() == self.nl() && self.v() < p.v() }
    open spec fn neg_mod_ens(&self, p: &Self, r: Self) -> bool { r.nl() == self.nl() && r.v() == (p.v() - self.v()) % p.v() && r.v() < p.v() }
//@-
fn neg_mod(&self, p: &Self) -> (ret__: Self)
{
        debug_assert!(self < p);
        self.neg_mod(p)
    }
}
//@@ end

// ------------------------------------------------------------------------------------------------
// C02 / C15: the wrappers of src/uint/boxed/div.rs (result precisions: quotient = precision of self, remainder = precision of rhs)
// ------------------------------------------------------------------------------------------------
// /repo calls the free functions of src/uint/boxed/div_limb.rs through the path `boxed::div_limb::..`
mod boxed { pub mod div_limb { pub use crate::l7_boxed_div::{div_rem_limb_with_reciprocal, rem_limb_with_reciprocal}; } }
//@@ fn src/uint/boxed/div.rs | impl BoxedUint | div_rem_limb_with_reciprocal | body | props C02 C11 C15
impl BoxedUint {
pub fn div_rem_limb_with_reciprocal(&self, reciprocal: &Reciprocal) -> (ret__: (Self, Limb))
//@+
    requires self.nl() >= 1, reciprocal.wf(), reciprocal.dv() > 0, reciprocal.divisor_normalized as int == reciprocal.dv() * p2(reciprocal.shift as nat)
    ensures ret__.0.nl() == self.nl(), ret__.0.v() * reciprocal.dv() + ret__.1.0 as int == self.v(), (ret__.1.0 as int) < reciprocal.dv(),
        ret__.0.v() == self.v() / reciprocal.dv(), ret__.1.0 as int == self.v() % reciprocal.dv()
//@-
{
        boxed::div_limb::div_rem_limb_with_reciprocal(self, reciprocal)
    }
}
//@@ end
//@@ fn src/uint/boxed/div.rs | impl BoxedUint | div_rem_limb | body | props C02 C11 C15
impl BoxedUint {
pub fn div_rem_limb(&self, rhs: NonZero<Limb>) -> (ret__: (Self, Limb))
//@+
    requires self.nl() >= 1, rhs.0.0 != 0
    ensures ret__.0.nl() == self.nl(), ret__.0.v() * rhs.0.0 as int + ret__.1.0 as int == self.v(), ret__.1.0 < rhs.0.0,
        ret__.0.v() == self.v() / (rhs.0.0 as int), ret__.1.0 as int == self.v() % (rhs.0.0 as int)
//@-
{
        boxed::div_limb::div_rem_limb_with_reciprocal(self, &Reciprocal::new(rhs))
    }
}
//@@ end
//@@ fn src/uint/boxed/div.rs | impl BoxedUint | rem_limb_with_reciprocal | body | props C02 C11 C15
impl BoxedUint {
pub fn rem_limb_with_reciprocal(&self, reciprocal: &Reciprocal) -> (ret__: Limb)
//@+
    requires self.nl() >= 1, reciprocal.wf(), reciprocal.dv() > 0, reciprocal.divisor_normalized as int == reciprocal.dv() * p2(reciprocal.shift as nat)
    ensures ret__.0 as int == self.v() % reciprocal.dv()
//@-
{
        boxed::div_limb::rem_limb_with_reciprocal(self, reciprocal)
    }
}
//@@ end
//@@ fn src/uint/boxed/div.rs | impl BoxedUint | rem_limb | body | props C02 C11 C15
impl BoxedUint {
pub fn rem_limb(&self, rhs: NonZero<Limb>) -> (ret__: Limb)
//@+
    requires self.nl() >= 1, rhs.0.0 != 0
    ensures ret__.0 as int == self.v() % (rhs.0.0 as int)
//@-
{
        boxed::div_limb::rem_limb_with_reciprocal(self, &Reciprocal::new(rhs))
    }
}
//@@ end
//@@ fn src/uint/boxed/div.rs | impl BoxedUint | rem | body | props C02 C11 C15
impl BoxedUint {
pub fn rem(&self, rhs: &NonZero<Self>) -> (ret__: Self)
//@+
    requires self.wf(), self.nl() == rhs.0.nl(), rhs.0.v() != 0
    ensures ret__.nl() == rhs.0.nl(), ret__.v() == self.v() % rhs.0.v(), ret__.v() < rhs.0.v()
//@-
{
        self.div_rem(rhs).1
    }
}
//@@ end
//@@ fn src/uint/boxed/div.rs | impl BoxedUint | rem_vartime | body | props C02 C11 C15
impl BoxedUint {
pub fn rem_vartime(&self, rhs: &NonZero<Self>) -> (ret__: Self)
//@+
    requires self.wf(), rhs.0.wf(), rhs.0.v() != 0, rhs.0.v() < B()
    ensures ret__.nl() == rhs.0.nl(), ret__.v() == self.v() % rhs.0.v(), ret__.v() < rhs.0.v()
//@-
{
//@+
    proof {
        // the divisor fits one limb: its value is limbs[0] (non-zero) and bits_vartime() <= 64
        let d = rhs.0; let n = d.nl();
        lemma_rng(&d); lemma_bp1(); lemma_pow2_64(); lemma_nlimbs_for(n);
        lemma_val_mod(d.limbs@, 1, n);
        lemma_small_mod(d.v() as nat, B() as nat);
        assert(val(d.limbs@, 1) == d.limbs@[0].0 as int) by { lemma_val_single(d.limbs@, 1); }
        assert forall|b: u32| b > 64 && d.v() >= #[trigger] p2((b - 1) as nat) implies false by {
            if b > 65 { lemma_pow2_strictly_increases(64, (b - 1) as nat); }
        }
    }
//@-
        let yc = rhs.0.bits_vartime().div_ceil(Limb::BITS) as usize;
        match yc {
            0 => panic!("zero divisor"),
            1 => {
                // Perform limb division
                let rem_limb = self.rem_limb(rhs.0.limbs[0].to_nz().expect("zero divisor"));
                let mut rem = Self::zero_with_precision(rhs.bits_precision());
                rem.limbs[0] = rem_limb;
//@+
    proof { lemma_val_single(rem.limbs@, rem.limbs@.len()); }
//@-
                rem
            }
            _ if yc > self.limbs.len() => {
                let mut rem = Self::zero_with_precision(rhs.bits_precision());
                rem.limbs[..self.limbs.len()].copy_from_slice(&self.limbs);
                rem
            }
            _ => {
                let mut quo = self.clone();
                let mut rem = rhs.0.clone();
                div_rem_vartime_in_place(&mut quo.limbs, &mut rem.limbs[..yc]);
                rem
            }
        }
    }
}
//@@ end
//@@ fn src/uint/boxed/div.rs | impl BoxedUint | wrapping_div | body | props C02 C11 C15
impl BoxedUint {
pub fn wrapping_div(&self, rhs: &NonZero<Self>) -> (ret__: Self)
//@+
    requires self.wf(), self.nl() == rhs.0.nl(), rhs.0.v() != 0
    ensures ret__.nl() == self.nl(), ret__.v() == self.v() / rhs.0.v()
//@-
{
        self.div_rem(rhs).0
    }
}
//@@ end
//@@ fn src/uint/boxed/div.rs | impl BoxedUint | checked_div | body | props C02 C11 C15
impl BoxedUint {
pub fn checked_div(&self, rhs: &Self) -> (ret__: CtOption<Self>)
//@+
    requires self.wf(), rhs.nl() == self.nl()
    ensures ret__.is_some.wf(), ret__.is_some.t() == (rhs.v() != 0), ret__.value.nl() == self.nl(),
        rhs.v() != 0 ==> ret__.value.v() == self.v() / rhs.v()
//@-
{
        let is_nz = rhs.is_nonzero();
        let nz = NonZero(Self::ct_select(
            &Self::one_with_precision(self.bits_precision()),
            rhs,
            is_nz,
        ));
        let q = self.div_rem_unchecked(&nz).0;
        CtOption::new(q, is_nz)
    }
}
//@@ end

// ---- trait forms of the division wrappers (operator preconditions: vstd `DivSpecImpl::div_req` / `RemSpecImpl::rem_req`; no vstd-level
// result value is claimed, the behaviour is the `ensures` of the regions)
pub open spec fn bdiv_req(a: &BoxedUint, d: &NonZero<BoxedUint>) -> bool { a.wf() && a.nl() == d.0.nl() && d.0.v() != 0 }
impl<'a, 'b> vstd::std_specs::ops::DivSpecImpl<&'a NonZero<BoxedUint>> for &'b BoxedUint {
    open spec fn obeys_div_spec() -> bool { false }
    open spec fn div_req(self, rhs: &'a NonZero<BoxedUint>) -> bool { bdiv_req(self, rhs) }
    open spec fn div_spec(self, rhs: &'a NonZero<BoxedUint>) -> BoxedUint { arbitrary() }
}
impl<'a> vstd::std_specs::ops::DivSpecImpl<&'a NonZero<BoxedUint>> for BoxedUint {
    open spec fn obeys_div_spec() -> bool { false }
    open spec fn div_req(self, rhs: &'a NonZero<BoxedUint>) -> bool { bdiv_req(&self, rhs) }
    open spec fn div_spec(self, rhs: &'a NonZero<BoxedUint>) -> BoxedUint { arbitrary() }
}
impl<'b> vstd::std_specs::ops::DivSpecImpl<NonZero<BoxedUint>> for &'b BoxedUint {
    open spec fn obeys_div_spec() -> bool { false }
    open spec fn div_req(self, rhs: NonZero<BoxedUint>) -> bool { bdiv_req(self, &rhs) }
    open spec fn div_spec(self, rhs: NonZero<BoxedUint>) -> BoxedUint { arbitrary() }
}
impl vstd::std_specs::ops::DivSpecImpl<NonZero<BoxedUint>> for BoxedUint {
    open spec fn obeys_div_spec() -> bool { false }
    open spec fn div_req(self, rhs: NonZero<BoxedUint>) -> bool { bdiv_req(&self, &rhs) }
    open spec fn div_spec(self, rhs: NonZero<BoxedUint>) -> BoxedUint { arbitrary() }
}
impl<'a, 'b> vstd::std_specs::ops::RemSpecImpl<&'a NonZero<BoxedUint>> for &'b BoxedUint {
    open spec fn obeys_rem_spec() -> bool { false }
    open spec fn rem_req(self, rhs: &'a NonZero<BoxedUint>) -> bool { bdiv_req(self, rhs) }
    open spec fn rem_spec(self, rhs: &'a NonZero<BoxedUint>) -> BoxedUint { arbitrary() }
}
//@@ fn src/uint/boxed/div.rs | impl CheckedDiv for BoxedUint | checked_div | body | props C02 C11 C15
impl CheckedDiv for BoxedUint {
//@+
    open spec fn checked_div_req(&self, rhs: &BoxedUint) -> bool { self.wf() && rhs.nl() == self.nl() }
    open spec fn checked_div_ens(&self, rhs: &BoxedUint, r: CtOption<Self>) -> bool {
        r.is_some.wf() && r.is_some.t() == (rhs.v() != 0) && r.value.nl() == self.nl() && (rhs.v() != 0 ==> r.value.v() == self.v() / rhs.v())
    }
//@-
fn checked_div(&self, rhs: &BoxedUint) -> (ret__: CtOption<Self>)
{
        self.checked_div(rhs)
    }
}
//@@ end
//@@ fn src/uint/boxed/div.rs | impl DivVartime for BoxedUint | div_vartime | body | props C02 C11 C15
impl DivVartime for BoxedUint {
//@+
    open spec fn div_vartime_req(&self, rhs: &NonZero<BoxedUint>) -> bool { self.wf() && rhs.0.wf() && rhs.0.v() != 0 }
    open spec fn div_vartime_ens(&self, rhs: &NonZero<BoxedUint>, r: Self) -> bool { r.nl() == self.nl() && r.v() == self.v() / rhs.0.v() }
//@-
fn div_vartime(&self, rhs: &NonZero<BoxedUint>) -> (ret__: Self)
{
        self.div_rem_vartime(rhs).0
    }
}
//@@ end
//@@ fn src/uint/boxed/div.rs | impl Div<&NonZero<BoxedUint>> for &BoxedUint | div | body | props C02 C11 C15
impl Div<&NonZero<BoxedUint>> for &BoxedUint {
//@+
    type Output = BoxedUint;
//@-
fn div(self, rhs: &NonZero<BoxedUint>) -> (ret__: Self::Output)
//@+
    ensures ret__.nl() == self.nl(), ret__.v() == self.v() / rhs.0.v()
//@-
{
        self.wrapping_div(rhs)
    }
}
//@@ end
//@@ fn src/uint/boxed/div.rs | impl Div<&NonZero<BoxedUint>> for BoxedUint | div | body | props C02 C11 C15
impl Div<&NonZero<BoxedUint>> for BoxedUint {
//@+
    type Output = BoxedUint;
//@-
fn div(self, rhs: &NonZero<BoxedUint>) -> (ret__: Self::Output)
//@+
    ensures ret__.nl() == self.nl(), ret__.v() == self.v() / rhs.0.v()
//@-
{
        self.wrapping_div(rhs)
    }
}
//@@ end
//@@ fn src/uint/boxed/div.rs | impl Div<NonZero<BoxedUint>> for &BoxedUint | div | body | props C02 C11 C15
impl Div<NonZero<BoxedUint>> for &BoxedUint {
//@+
    type Output = BoxedUint;
//@-
fn div(self, rhs: NonZero<BoxedUint>) -> (ret__: Self::Output)
//@+
    ensures ret__.nl() == self.nl(), ret__.v() == self.v() / rhs.0.v()
//@-
{
        self.wrapping_div(&rhs)
    }
}
//@@ end
//@@ fn src/uint/boxed/div.rs | impl Div<NonZero<BoxedUint>> for BoxedUint | div | body | props C02 C11 C15
impl Div<NonZero<BoxedUint>> for BoxedUint {
//@+
    type Output = BoxedUint;
//@-
fn div(self, rhs: NonZero<BoxedUint>) -> (ret__: Self::Output)
//@+
    ensures ret__.nl() == self.nl(), ret__.v() == self.v() / rhs.0.v()
//@-
{
        self.div_rem(&rhs).0
    }
}
//@@ end
//@@ fn src/uint/boxed/div.rs | impl Rem<&NonZero<BoxedUint>> for &BoxedUint | rem | body | props C02 C11 C15
impl Rem<&NonZero<BoxedUint>> for &BoxedUint {
//@+
    type Output = BoxedUint;
//@-
fn rem(self, rhs: &NonZero<BoxedUint>) -> (ret__: Self::Output)
//@+
    ensures ret__.nl() == rhs.0.nl(), ret__.v() == self.v() % rhs.0.v(), ret__.v() < rhs.0.v()
//@-
{
        self.rem(rhs)
    }
}
//@@ end

// ------------------------------------------------------------------------------------------------
// C10: gcd wrapper (src/uint/boxed/gcd.rs) over the ASSUMED odd-operand safegcd (src/modular/safegcd/boxed.rs)
// ------------------------------------------------------------------------------------------------
/// `Integer::is_odd` of /repo/src/traits.rs is a provided method (`self.as_ref().first().map(|limb| limb.is_odd()).unwrap_or_else(..)`:
/// iterator adaptors + closures, and the trait header lists ~90 supertraits), BoxedUint does not override it.
/// Hand-declared with its contract; the BoxedUint instance is ASSUMED (external_body): parity of the value, 0 limbs -> even.
pub trait Integer {
    spec fn is_odd_spec(&self) -> bool;
    fn is_odd(&self) -> (r: Choice)
        ensures r.wf(), r.t() == self.is_odd_spec();
}
impl Integer for BoxedUint {
    open spec fn is_odd_spec(&self) -> bool { self.v() % 2 == 1 }
    #[verifier::external_body]
    fn is_odd(&self) -> (r: Choice)
    { unimplemented!() }
}
/// `Gcd` of /repo/src/traits.rs (`gcd` only, see ConstantTimeSelect above)
pub trait Gcd<Rhs = Self>: Sized {
    type Output;
    spec fn gcd_req(&self, rhs: &Rhs) -> bool;
    spec fn gcd_ens(&self, rhs: &Rhs, r: Self::Output) -> bool;
    fn gcd(&self, rhs: &Rhs) -> (r: Self::Output)
        requires self.gcd_req(rhs)
        ensures self.gcd_ens(rhs, r);
}
// /repo calls the free function of src/modular/safegcd/boxed.rs through the path `safegcd::boxed::gcd`
mod safegcd { pub mod boxed { pub use crate::l8_boxed_safegcd::gcd; } }   // proved in l8_boxed_safegcd.rs
//@@ fn src/uint/boxed/bits.rs | impl BoxedUint | trailing_zeros | body | props C05 C11
impl BoxedUint {
pub fn trailing_zeros(&self) -> (ret__: u32)
//@+
    requires self.limbs@.len() < 0x400_0000
    ensures ret__ as int <= 64 * self.nl(), (ret__ as int == 64 * self.nl()) == (self.v() == 0),
        self.v() % p2(ret__ as nat) == 0, (ret__ as int) < 64 * self.nl() ==> (self.v() / p2(ret__ as nat)) % 2 == 1
//@-
{
        trailing_zeros(&self.limbs)
    }
}
//@@ end
//@@ fn src/uint/boxed/shr.rs | impl BoxedUint | shr_vartime_into | body | props C05 C11
impl BoxedUint {
pub fn shr_vartime_into(&self, dest: &mut Self, shift: u32) -> (ret__: Option<()>)
//@+
    // WARNING of /repo ("`dest` is assumed to be pre-zeroized") = the third precondition
    requires self.wf(), old(dest).limbs@.len() == self.limbs@.len(), forall|k: int| 0 <= k < old(dest).limbs@.len() ==> old(dest).limbs@[k].0 == 0
    ensures final(dest).limbs@.len() == self.limbs@.len(), (ret__ is None) == (shift as int >= 64 * self.nl()),
        (shift as int) < 64 * self.nl() ==> final(dest).v() == self.v() / p2(shift as nat),
        shift as int >= 64 * self.nl() ==> final(dest).limbs@ == old(dest).limbs@
//@-
{
        if shift >= self.bits_precision() {
            return None;
        }
        let nlimbs = self.nlimbs();
        let shift_num = (shift / Limb::BITS) as usize;
        let rem = shift % Limb::BITS;
//@+
    let ghost n = self.limbs@.len(); let ghost sn = shift_num as nat; let ghost m = (n - sn) as nat;
    proof {
        assert(shift_num as int == shift as int / 64 && rem as int == shift as int % 64);
        lemma_fundamental_div_mod(shift as int, 64);
        assert(sn < n);
    }
//@-
        for i in 0..nlimbs - shift_num
//@+
    invariant dest.limbs@.len() == n, self.limbs@.len() == n, sn == shift_num, sn < n, nlimbs == n, m == n - sn, VERUS_ghost_iter.iter.end == m,
        forall|j: int| 0 <= j < VERUS_ghost_iter.index@ ==> dest.limbs@[j] == self.limbs@[j + sn],
        forall|j: int| VERUS_ghost_iter.index@ <= j < n ==> dest.limbs@[j].0 == 0,
//@-
{
            dest.limbs[i] = self.limbs[i + shift_num];
        }
//@+
    let ghost p1 = dest.limbs@; let ghost hiv = val(p1, m);
    proof {
        lemma_shift_down(self.limbs@, p1, sn, m);
        assert((sn + m) as nat == n);
        lemma_val_hi_zero(p1, m, n);
        lemma_val_bound(self.limbs@, sn); lemma_val_bound(p1, m);
        lemma_shr_limbs_div(self.v(), val(self.limbs@, sn), hiv, sn, rem as nat, shift as nat);
    }
//@-
        if rem == 0 {
            return Some(());
        }
        for i in 0..nlimbs - shift_num - 1
//@+
    invariant dest.limbs@.len() == n, p1.len() == n, sn == shift_num, sn < n, nlimbs == n, m == n - sn, 0 < rem < 64, VERUS_ghost_iter.iter.end == m - 1,
        forall|j: int| 0 <= j < VERUS_ghost_iter.index@ ==> dest.limbs@[j].0 == (p1[j].0 >> rem) | (p1[j + 1].0 << ((64 - rem) as u32)),
        forall|j: int| VERUS_ghost_iter.index@ <= j < n ==> dest.limbs@[j] == p1[j],
        forall|j: int| m <= j < n ==> p1[j].0 == 0,
//@-
{
            let shifted = dest.limbs[i].shr(rem);
            let carry = dest.limbs[i + 1].shl(Limb::BITS - rem);
            dest.limbs[i] = shifted.bitor(carry);
//@+
    proof { lemma_u64_shr_div(p1[i as int].0, rem); lemma_u64_shl_mod(p1[i + 1].0, (64 - rem) as u32); }
//@-
        }
        dest.limbs[nlimbs - shift_num - 1] = dest.limbs[nlimbs - shift_num - 1].shr(rem);
//@+
    proof {
        let s = p1; let d = dest.limbs@; let mm = (m - 1) as nat; let pr = p2(rem as nat);
        lemma_u64_shr_div(s[mm as int].0, rem);
        lemma_shr_limbs(s, d, mm, rem);
        let s0 = s[0].0 as int; let h0 = (s[0].0 >> rem) as int; let lo = s0 - pr * h0; let top = (s[mm as int].0 >> rem) as int;
        lemma_u64_shr_div(s[0].0, rem); lemma_pow2_pos(rem as nat);
        lemma_fundamental_div_mod(s0, pr); lemma_mod_bound(s0, pr);
        assert(val(d, m) == val(d, mm) + top * bp(mm));
        assert((mm + 1) as nat == m);
        assert(val(s, m) == pr * val(d, m) + lo) by (nonlinear_arith)
            requires pr * val(d, mm) + pr * top * bp(mm) + lo == val(s, m), val(d, m) == val(d, mm) + top * bp(mm);
        lemma_fundamental_div_mod_converse(val(s, m), pr, val(d, m), lo);
        assert forall|k: int| m <= k < n implies d[k].0 == 0 by { assert(d[k] == p1[k]); }
        lemma_val_hi_zero(d, m, n);
    }
//@-
        Some(())
    }
}
//@@ end
//@@ fn src/uint/boxed/shr.rs | impl BoxedUint | overflowing_shr_assign | body | props C05 C11
impl BoxedUint {
pub fn overflowing_shr_assign(&mut self, shift: u32) -> (ret__: Choice)
//@+
    requires old(self).wf()
    ensures final(self).nl() == old(self).nl(), ret__.wf(), ret__.t() == (shift as int >= 64 * old(self).nl()),
        final(self).v() == (if shift as int >= 64 * old(self).nl() { 0 } else { old(self).v() / p2(shift as nat) })
//@-
{
        // `floor(log2(bits_precision - 1))` is the number of bits in the representation of `shift`
        // (which lies in range `0 <= shift < bits_precision`).
//@+
    let ghost n = self.limbs@.len(); let ghost v0 = self.v(); let ghost shift0 = shift;
    proof { lemma_lz32((64 * n - 1) as u32); }
//@-
        let shift_bits = u32::BITS - (self.bits_precision() - 1).leading_zeros();
        let overflow = !shift.ct_lt(&self.bits_precision());
        let shift = shift % self.bits_precision();
        let mut temp = self.clone();
//@+
    proof {
        lemma_pow2_64(); lemma_bp_succ(n); lemma_val_bound(self.limbs@, n);
        assert((shift as int) % 1 == 0);
        assert(v0 / 1 == v0);
        if (shift0 as int) < 64 * n { lemma_small_mod(shift0 as nat, (64 * n) as nat); }
        lemma_mod_bound(shift0 as int, 64 * (n as int));
        let lt = Choice(if (shift0 as int) < 64 * n { 1u8 } else { 0u8 }); lemma_choice_ops(lt, lt);
    }
//@-
        for i in 0..shift_bits
//@+
    invariant self.limbs@.len() == n, temp.limbs@.len() == n, 1 <= n < 0x400_0000, (shift as int) < 64 * n, 1 <= shift_bits <= 32,
        VERUS_ghost_iter.iter.end == shift_bits, p2((shift_bits - 1) as nat) <= 64 * n - 1, 0 <= v0 < bp(n),
        self.v() == v0 / p2(((shift as int) % p2(VERUS_ghost_iter.index@ as nat)) as nat),
//@-
{
//@+
    let ghost lo = (shift as int) % p2(i as nat);
    proof {
        lemma_ladder_step(shift, i);
        if i < shift_bits - 1 { lemma_pow2_strictly_increases(i as nat, (shift_bits - 1) as nat); }
        lemma_pow2_pos(i as nat); lemma_mod_bound(shift as int, p2(i as nat));
        lemma_shr_compose(v0, lo as nat, p2(i as nat) as nat);
    }
//@-
            let bit = Choice::from(((shift >> i) & 1) as u8);
//@+
    let ghost sb = self.limbs@;
//@-
            temp.set_zero();
            // Will not overflow by construction
            self.shr_vartime_into(&mut temp, 1 << i)
                .expect("shift within range");
            self.ct_assign(&temp, bit);
//@+
    proof {
        let b = (shift >> i) & 1u32;
        assert(bit.0 == b as u8 && b <= 1);
        assert(bit.wf() && bit.t() == (b == 1));
        assert(((1u32 << i) as nat) == p2(i as nat) as nat);
        if b == 1 {
            assert(self.limbs@ == temp.limbs@);
            assert(self.v() == val(sb, n) / p2(p2(i as nat) as nat));
            assert(b as int * p2(i as nat) == p2(i as nat)) by (nonlinear_arith) requires b == 1;
            assert((shift as int) % p2((i + 1) as nat) == lo + p2(i as nat));
            assert(((lo as nat) + (p2(i as nat) as nat)) as nat == (lo + p2(i as nat)) as nat);
        } else {
            assert(b == 0);
            assert(self.limbs@ == sb);
            assert(b as int * p2(i as nat) == 0) by (nonlinear_arith) requires b == 0;
            assert((shift as int) % p2((i + 1) as nat) == lo);
        }
    }
//@-
        }
        #[cfg(feature = "zeroize")]
        zeroize::Zeroize::zeroize(&mut temp);
//@+
    proof {
        assert((shift as int) < p2(shift_bits as nat));
        lemma_small_mod(shift as nat, p2(shift_bits as nat) as nat);
    }
//@-
        self.conditional_set_zero(overflow);
        overflow
    }
}
//@@ end
//@@ fn src/uint/boxed/shr.rs | impl BoxedUint | overflowing_shr | body | props C05 C11 C15
impl BoxedUint {
pub fn overflowing_shr(&self, shift: u32) -> (ret__: (Self, Choice))
//@+
    requires self.wf()
    ensures ret__.0.nl() == self.nl(), ret__.1.wf(), ret__.1.t() == (shift as int >= 64 * self.nl()),
        ret__.0.v() == (if shift as int >= 64 * self.nl() { 0 } else { self.v() / p2(shift as nat) })
//@-
{
        let mut result = self.clone();
        let overflow = result.overflowing_shr_assign(shift);
        (result, overflow)
    }
}
//@@ end
//@@ fn src/uint/boxed/bit_and.rs | impl BoxedUint | bitand | body | props C05 C11 C15
impl BoxedUint {
pub fn bitand(&self, rhs: &Self) -> (ret__: Self)
//@+
    requires self.nl() >= 1 || rhs.nl() >= 1
    ensures ret__.nl() == max_nat(self.nl(), rhs.nl()),
        forall|j: int| 0 <= j < ret__.limbs@.len() ==> ret__.limbs@[j].0
            == (if j < self.limbs@.len() { self.limbs@[j].0 } else { 0u64 }) & (if j < rhs.limbs@.len() { rhs.limbs@[j].0 } else { 0u64 })
//@-
{
        Self::map_limbs(self, rhs, |a, b|
//@+
    -> (r: Limb) ensures r.0 == a.0 & b.0
//@-
{
a.bitand(b)
})
    }
}
//@@ end
//@@ fn src/uint/boxed/gcd.rs | impl Gcd for BoxedUint | gcd | body | props C10 C11 C15
impl Gcd for BoxedUint {
//@+
    type Output = Self;
    // SG_BOXED_MAX_SAT (1_369_567 limbs): beyond it `iterations` of the Bernstein-Yang core overflows u32 (l8_boxed_safegcd.rs)
    open spec fn gcd_req(&self, rhs: &Self) -> bool { self.wf() && rhs.nl() == self.nl() && self.nl() <= SG_BOXED_MAX_SAT() }
    open spec fn gcd_ens(&self, rhs: &Self, r: Self) -> bool { r.nl() == self.nl() && r.v() == spec_gcd(self.v() as nat, rhs.v() as nat) }
//@-
fn gcd(&self, rhs: &Self) -> (ret__: Self)
{
//@+
    let ghost av = self.v(); let ghost bv = rhs.v(); let ghost nl = self.nl(); let ghost w = bp(nl);
    proof { lemma_rng(self); lemma_rng(rhs); lemma_not_all(); lemma_bp_pow2(nl); }
//@-
        let k1 = self.trailing_zeros();
        let k2 = rhs.trailing_zeros();
        // Select the smaller of the two `k` values, making 2^k the common even divisor
        let k = u32::conditional_select(&k1, &k2, u32::ct_lt(&k2, &k1));
        // Decompose `self` and `rhs` into `s{1, 2} * 2^k` where either `s1` or `s2` is odd
        let s1 = self.overflowing_shr(k).0;
        let s2 = rhs.overflowing_shr(k).0;
        let f = Self::ct_select(&s1, &s2, !s2.is_odd());
        let g = Self::ct_select(&s1, &s2, s2.is_odd());
//@+
    proof {
        if av == 0 && bv == 0 {
            lemma_gcd_divides(0, 0);
            assert(0int / p2(k as nat) == 0) by { lemma_p2_pos(k as nat); lemma_basic_div(0, p2(k as nat)); }
        } else {
            lemma_p2_divides_mono(av, k as nat, k1 as nat); lemma_p2_divides_mono(bv, k as nat, k2 as nat);
            lemma_gcd_pow2_split(av, bv, k as nat, s1.v(), s2.v(), w);
            assert(g.v() % 2 == 1);
        }
    }
//@-
        safegcd::boxed::gcd(&f, &g).overflowing_shl(k).0
    }
}
//@@ end

// ------------------------------------------------------------------------------------------------
// primitives used by l8_boxed_pow.rs (BoxedMontyMultiplier / pow_montgomery_form)
// ------------------------------------------------------------------------------------------------
/// shifts by constants inside local `const` items / range bounds of pow_montgomery_form (`1 << WINDOW`, WINDOW = 4): a `const` initialiser
/// has no place for a proof hint, l8_boxed_pow.rs brings these in with a module-level `broadcast use`
pub broadcast proof fn lemma_shl4_u64(x: u64)
    ensures x == 1 ==> #[trigger] (x << 4u32) == 16u64
{ assert(x == 1 ==> x << 4u32 == 16u64) by (bit_vector); }
pub broadcast proof fn lemma_shl4_usize(x: usize)
    ensures x == 1 ==> #[trigger] (x << 4u32) == 16usize
{ assert(x == 1 ==> x << 4u32 == 16usize) by (bit_vector); }
pub broadcast proof fn lemma_shl_small_u64(x: u64, s: u32)
    ensures (x == 1 && 1 <= s <= 4) ==> 2 <= #[trigger] (x << s) <= 16
{ assert((x == 1 && 1 <= s <= 4) ==> 2 <= (x << s) <= 16) by (bit_vector); }

//@@ fn src/uint/boxed.rs | impl BoxedUint | as_limbs_mut | body | props C16 C11
impl BoxedUint {
pub fn as_limbs_mut(&mut self) -> (ret__: &mut [Limb])
//@+
    ensures ret__@ == old(self).limbs@, final(self).limbs@ == final(ret__)@
//@-
{
        self.limbs.as_mut()
    }
}
//@@ end
//@@ fn src/uint/boxed/sub.rs | impl BoxedUint | conditional_sbb_assign | body | props C04 C11
impl BoxedUint {
pub fn conditional_sbb_assign(&mut self, rhs: &Self, choice: Choice) -> (ret__: Choice)
//@+
    requires old(self).limbs@.len() <= rhs.limbs@.len() < 0x400_0000, choice.wf()
    ensures final(self).nl() == old(self).nl(), ret__.wf(),
        final(self).v() - (if ret__.t() { bp(old(self).nl()) } else { 0 })
            == old(self).v() - (if choice.t() { val(rhs.limbs@, old(self).nl()) } else { 0 })
//@-
{
//@+
    let ghost s0 = self.limbs@; let ghost n = self.limbs@.len(); let ghost m: int = if choice.t() { 1 } else { 0 };
//@-
        debug_assert!(self.bits_precision() <= rhs.bits_precision());
        let mask = Limb::conditional_select(&Limb::ZERO, &Limb::MAX, choice);
        let mut borrow = Limb::ZERO;
//@+
    proof {
        lemma_bp_succ(0);
        assert(m * val(rhs.limbs@, 0) == 0) by (nonlinear_arith) requires val(rhs.limbs@, 0) == 0;
        assert(bb(borrow) * bp(0) == 0) by (nonlinear_arith) requires bb(borrow) == 0;
    }
//@-
        for i in 0..self.nlimbs()
//@+
    invariant self.limbs@.len() == n, s0.len() == n, n <= rhs.limbs@.len(), VERUS_ghost_iter.iter.end == n, choice.wf(),
        m == (if choice.t() { 1int } else { 0int }), mask.0 == (if choice.t() { u64::MAX } else { 0u64 }), borrow.0 == 0 || borrow.0 == u64::MAX,
        forall|k: int| VERUS_ghost_iter.index@ <= k < n ==> self.limbs@[k] == s0[k],
        val(self.limbs@, VERUS_ghost_iter.index@ as nat) - bb(borrow) * bp(VERUS_ghost_iter.index@ as nat)
            == val(s0, VERUS_ghost_iter.index@ as nat) - m * val(rhs.limbs@, VERUS_ghost_iter.index@ as nat),
//@-
{
//@+
    let ghost sb = self.limbs@; let ghost bw0 = bb(borrow); let ghost ri = rhs.limbs@[i as int].0;
    proof {
        assert(ri & 0xffff_ffff_ffff_ffffu64 == ri) by (bit_vector);
        assert(ri & 0u64 == 0u64) by (bit_vector);
    }
//@-
            let masked_rhs = *rhs.limbs.get(i).unwrap_or(&Limb::ZERO) & mask;
            let (limb, b) = self.limbs[i].sbb(masked_rhs, borrow);
            self.limbs[i] = limb;
            borrow = b;
//@+
    proof {
        lemma_val_ext(sb, self.limbs@, i as nat);
        lemma_bp_succ(i as nat);
        let pk = bp(i as nat); let x = limb.0 as int; let b1 = bb(borrow);
        let si = s0[i as int].0 as int; let mr = masked_rhs.0 as int; let rv = ri as int;
        assert(mr == m * rv) by (nonlinear_arith) requires (m == 1 && mr == rv) || (m == 0 && mr == 0);
        assert(x - b1 * B() == si - mr - bw0);
        assert(x * pk - b1 * (B() * pk) == si * pk - (m * rv) * pk - bw0 * pk) by (nonlinear_arith) requires x - b1 * B() == si - m * rv - bw0;
        assert(m * (val(rhs.limbs@, i as nat) + rv * pk) == m * val(rhs.limbs@, i as nat) + (m * rv) * pk) by (nonlinear_arith);
    }
//@-
        }
//@+
    proof {
        let bw = borrow.0;
        assert((bw & 1) == (if bw == 0xffff_ffff_ffff_ffffu64 { 1u64 } else { 0u64 })) by (bit_vector) requires bw == 0 || bw == 0xffff_ffff_ffff_ffffu64;
        assert(bb(borrow) * bp(n) == (if bb(borrow) == 1 { bp(n) } else { 0 })) by (nonlinear_arith) requires bb(borrow) == 0 || bb(borrow) == 1;
        assert(m * val(rhs.limbs@, n) == (if choice.t() { val(rhs.limbs@, n) } else { 0 })) by (nonlinear_arith) requires m == (if choice.t() { 1int } else { 0int });
    }
//@-
        Choice::from((borrow.0 & 1) as u8)
    }
}
//@@ end
//@@ fn src/uint/boxed/cmp.rs | impl ConstantTimeLess for BoxedUint | ct_lt | body | props C06 C11
impl ConstantTimeLess for BoxedUint {
//@+
    open spec fn ct_lt_req(&self, other: &Self) -> bool { true }
    open spec fn ct_lt_ens(&self, other: &Self, r: Choice) -> bool { r.wf() && r.t() == (self.v() < other.v()) }
//@-
fn ct_lt(&self, other: &Self) -> (ret__: Choice)
{
//@+
    let ghost ww = bp(max_nat(other.nl(), self.nl()));
    assert(0u64 >> 63 == 0) by (bit_vector);
    assert forall|u: BoxedUint| 0 <= #[trigger] u.v() < bp(u.nl()) by { lemma_rng(&u); }
//@-
        let (_, borrow) = self.sbb(other, Limb::ZERO);
//@+
    assert(bb(borrow) * ww == (if bb(borrow) == 1 { ww } else { 0 })) by (nonlinear_arith) requires bb(borrow) == 0 || bb(borrow) == 1;
//@-
        ConstChoice::from_word_mask(borrow.0).into()
    }
}
//@@ end

} // verus!
