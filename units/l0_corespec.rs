// L0: assumed specifications of core integer methods that neither vstd nor speclib.rs specify
// (same status as the assume_specification items in speclib.rs; shared by l3_div_ct and l3_div_vt,
// a crate may contain only one specification per function)
use vstd::prelude::*;
verus! {

pub assume_specification [u32::div_ceil] (a: u32, b: u32) -> (r: u32)
    requires b != 0
    ensures r as int == (a as int + b as int - 1) / (b as int);

// debug_assert_eq!(a, b) / assert_eq!(a, b) expand to a call of this diverging function on inequality: reaching it is a
// proof obligation (requires false). Shared by l7_boxed_slices and l7_traits_monty.
#[verifier::external_type_specification]
pub struct ExAssertKind(core::panicking::AssertKind);
pub assume_specification<T: ?Sized + core::fmt::Debug, U: ?Sized + core::fmt::Debug> [core::panicking::assert_failed::<T, U>] (kind: core::panicking::AssertKind, left: &T, right: &U, args: Option<core::fmt::Arguments<'_>>) -> !
    requires false;

} // verus!
