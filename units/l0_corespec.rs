// L0: assumed specifications of core integer methods that neither vstd nor speclib.rs specify
// (same status as the assume_specification items in speclib.rs; shared by l3_div_ct and l3_div_vt,
// a crate may contain only one specification per function)
use vstd::prelude::*;
verus! {

pub assume_specification [u32::div_ceil] (a: u32, b: u32) -> (r: u32)
    requires b != 0
    ensures r as int == (a as int + b as int - 1) / (b as int);

} // verus!
