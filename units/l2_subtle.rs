// L2: the few items of the external crate `subtle` (2.6) that the non-const API of the crate returns
// (`Choice`, `CtOption`, `ConstantTimeEq`), plus the two glue impls of /repo that produce them.
//
// `subtle` is not part of the generated Verus crate (it is a dependency, not /repo source), so its three
// items are MODELLED here with the field layout and the constructor bodies of subtle 2.6.1 (src/lib.rs:
// `Choice(u8)`, `From<u8> for Choice`, `CtOption { value, is_some }`, `CtOption::new`). Trust status: the
// same as an `assume_specification` of an external function -- reported under assumed / trusted base.
// The /repo functions below (`From<ConstChoice> for Choice`, `ConstantTimeEq for Uint`) are extracted and
// verified against that model as usual. The model functions are marked `external_body` so that the trusted-base
// scan lists them (their contracts are assumptions about `subtle`, not proved facts).
use vstd::prelude::*;
use crate::speclib::*;
use crate::l1_choice::*;
use crate::l2_core::*;
verus! {

// ---- model of subtle 2.6.1 (external crate; assumed)
#[derive(Copy, Clone)]
pub struct Choice(pub u8);

impl Choice {
    pub open spec fn wf(&self) -> bool { self.0 == 0 || self.0 == 1 }
    pub open spec fn t(&self) -> bool { self.0 == 1 }
    #[verifier::external_body]
    pub fn unwrap_u8(&self) -> (r: u8)
        ensures r == self.0
    { self.0 }
}

impl From<u8> for Choice {
    // subtle: `debug_assert!((input == 0u8) | (input == 1u8)); Choice(black_box(input))`
    // (a trait method cannot carry a `requires`, so the debug assertion is not an obligation here)
    #[verifier::external_body]
    fn from(input: u8) -> (r: Choice)
        ensures r.0 == input
    { Choice(input) }
}

impl vstd::std_specs::convert::FromSpecImpl<u8> for Choice {
    open spec fn obeys_from_spec() -> bool { true }
    open spec fn from_spec(input: u8) -> Choice { Choice(input) }
}

// `From<ConstChoice> for Choice` (a /repo impl, extracted below): no vstd-level from_spec is claimed for it; its
// behaviour is stated by the `ensures` of the extracted function
impl vstd::std_specs::convert::FromSpecImpl<ConstChoice> for Choice {
    open spec fn obeys_from_spec() -> bool { false }
    open spec fn from_spec(c: ConstChoice) -> Choice { Choice(0) }
}

pub struct CtOption<T> {
    pub value: T,
    pub is_some: Choice,
}

impl<T> CtOption<T> {
    #[verifier::external_body]
    pub fn new(value: T, is_some: Choice) -> (r: CtOption<T>)
        ensures r.value == value, r.is_some == is_some
    { CtOption { value: value, is_some: is_some } }

    #[verifier::external_body]
    pub fn is_some(&self) -> (r: Choice)
        ensures r == self.is_some
    { self.is_some }
}

pub trait ConstantTimeEq {
    fn ct_eq(&self, other: &Self) -> Choice;
}

// ---- /repo glue
// stub: the body is `Choice::from(choice.to_u8())`; `ConstChoice::to_u8` (l1_choice) carries `requires self.wf()`
// and a trait method (`From::from`) cannot state a precondition, so the body cannot be checked against it.
//@@ fn src/const_choice.rs | impl From<ConstChoice> for Choice | from | body | props C06 C11
impl From<ConstChoice> for Choice {
fn from(choice: ConstChoice) -> (ret__: Self)
//@+
    ensures choice.wf() ==> ret__.wf() && ret__.t() == choice.t()
//@-
{
        Choice::from(choice.to_u8())
    }
}
//@@ end
//@@ fn src/uint/cmp.rs | impl<const LIMBS: usize> ConstantTimeEq for Uint<LIMBS> | ct_eq | body | props C06 C11
impl<const LIMBS: usize> ConstantTimeEq for Uint<LIMBS> {
fn ct_eq(&self, other: &Self) -> (ret__: Choice)
//@+
    ensures ret__.wf(), ret__.t() == (self.v() == other.v())
//@-
{
        Uint::eq(self, other).into()
    }
}
//@@ end

} // verus!
