// L7: the `Mul` operator impls of `MontyForm` (src/modular/monty_form/mul.rs) and `Uint::mul_mod`
// (src/uint/mul_mod.rs), which multiplies two `MontyForm`s with `*` -- C07 C08 C11 C15
// Vocabulary (model of `subtle`, hand-declared traits): see l7_traits.rs.
//
// Operator contracts.  Two of the four `Mul` impls (`MontyForm * MontyForm`, `&MontyForm * MontyForm`) cannot carry an
// `ensures`: Verus types the result binder of an `ensures` on a trait-impl method with `self.mul(rhs)`, which resolves
// to the inherent `MontyForm::mul(&self, &Self)` and does not type-check for a by-value `rhs`. Their behaviour is
// therefore stated through vstd's operator specification (`MulSpecImpl::{mul_req, mul_spec}`, `obeys_mul_spec() == true`):
// `mul_spec` is the spec-level value `monty_mul_spec(a, b)` -- parameters of `a`, representative
// ((a.view() * b.view()) mod m) * R mod m -- built constructively (`uint_of`), and `lemma_monty_mul_spec` gives its
// properties (canonical, view == product of the views mod m). All four impls are verified to return exactly that value.
//
// HAND-WRITTEN / ASSUMED: `PartialEq for MontyParams` (a `#[derive(PartialEq)]` in /repo: field-wise equality; the derive
// is not extracted) as `*self == *other`; `Debug for MontyParams` (only needed to type `debug_assert_eq!`).
// `debug_assert_eq!` reaches `core::panicking::assert_failed`, whose `requires false` is assumed in l0_corespec.rs.
use vstd::prelude::*;
use vstd::arithmetic::power::*;
use vstd::arithmetic::div_mod::*;
use vstd::arithmetic::mul::*;
use core::ops::{Mul, MulAssign};
use crate::speclib::*;
use crate::l0_corespec::*;
use crate::l0_prim::*;
use crate::l1_choice::*;
use crate::l1_limb::*;
use crate::l2_core::*;
use crate::l2_concat::*;
use crate::l2_subtle::*;
use crate::l4_int::*;
use crate::l5_monty::*;
use crate::l6_montyform::*;
use crate::l6_montyform_ct::*;
use crate::l7_traits::*;

// `#[derive(Debug)]` of /repo (not extracted); external to the verifier, needed only for the type of `debug_assert_eq!`
impl<const LIMBS: usize> core::fmt::Debug for MontyParams<LIMBS> {
    fn fmt(&self, _f: &mut core::fmt::Formatter<'_>) -> core::fmt::Result { Ok(()) }
}

verus! {

// ---- `#[derive(PartialEq, Eq)] struct MontyParams` (hand-written, ASSUMED): field-wise `==`, i.e. equality of all limbs
impl<const LIMBS: usize> PartialEq for MontyParams<LIMBS> {
    #[verifier::external_body]
    fn eq(&self, other: &Self) -> (r: bool)
        ensures r == (*self == *other)
    { unimplemented!() }
}
impl<const LIMBS: usize> vstd::std_specs::cmp::PartialEqSpecImpl for MontyParams<LIMBS> {
    open spec fn obeys_eq_spec() -> bool { true }
    open spec fn eq_spec(&self, other: &MontyParams<LIMBS>) -> bool { *self == *other }
}

// ---- the operator specification

/// representative of the product: ((a.view() * b.view()) mod m) * R mod m
pub open spec fn monty_mul_repr<const LIMBS: usize>(a: MontyForm<LIMBS>, b: MontyForm<LIMBS>) -> int {
    (((a.view() * b.view()) % a.params.modulus.0.v()) * bp(LIMBS as nat)) % a.params.modulus.0.v()
}
/// the value of `a * b`
pub open spec fn monty_mul_spec<const LIMBS: usize>(a: MontyForm<LIMBS>, b: MontyForm<LIMBS>) -> MontyForm<LIMBS> {
    MontyForm { montgomery_form: uint_of::<LIMBS>(monty_mul_repr(a, b)), params: a.params }
}
/// precondition of `a * b`: both well formed, same parameters (`debug_assert_eq!(self.params, rhs.params)`)
pub open spec fn monty_mul_req<const LIMBS: usize>(a: MontyForm<LIMBS>, b: MontyForm<LIMBS>) -> bool {
    a.wf() && b.wf() && a.params == b.params
}

/// what `a * b` is: well formed, same parameters, and it represents the product of the represented residues
pub proof fn lemma_monty_mul_spec<const LIMBS: usize>(a: MontyForm<LIMBS>, b: MontyForm<LIMBS>)
    requires a.wf()
    ensures monty_mul_spec(a, b).wf(), monty_mul_spec(a, b).params == a.params,
        monty_mul_spec(a, b).view() == (a.view() * b.view()) % a.params.modulus.0.v(),
        monty_mul_spec(a, b).montgomery_form.v() == monty_mul_repr(a, b), a.params.modulus.0.v() > 0
{
    let m = a.params.modulus.0.v(); let n = LIMBS as nat;
    let v = (a.view() * b.view()) % m;
    lemma_val_bound(a.params.modulus.0.limbs@, n);
    lemma_mod_bound(a.view() * b.view(), m);
    lemma_mod_bound(v * bp(n), m);
    lemma_uint_of::<LIMBS>(monty_mul_repr(a, b));
    lemma_mont_repr_of(v, m, n);
    lemma_small_mod(v as nat, m as nat);
}

/// a well-formed value r with the parameters of a and view == product of views IS monty_mul_spec(a, b)
proof fn lemma_monty_mul_is_spec<const LIMBS: usize>(a: MontyForm<LIMBS>, b: MontyForm<LIMBS>, r: MontyForm<LIMBS>)
    requires a.wf(), r.wf(), r.params == a.params, r.view() == (a.view() * b.view()) % a.params.modulus.0.v()
    ensures r == monty_mul_spec(a, b)
{
    let m = a.params.modulus.0.v(); let n = LIMBS as nat;
    lemma_monty_mul_spec(a, b);
    let x = r.montgomery_form.v();
    lemma_val_bound(r.montgomery_form.limbs@, n);
    // x < m and mont_repr(x) == v  ==>  x == (v * R) % m
    lemma_mont_repr(x, m, n);
    lemma_small_mod(x as nat, m as nat);
    lemma_uint_eq(r.montgomery_form, uint_of::<LIMBS>(monty_mul_repr(a, b)));
}

impl<'a, 'b, const LIMBS: usize> vstd::std_specs::ops::MulSpecImpl<&'a MontyForm<LIMBS>> for &'b MontyForm<LIMBS> {
    open spec fn obeys_mul_spec() -> bool { true }
    open spec fn mul_req(self, rhs: &'a MontyForm<LIMBS>) -> bool { monty_mul_req(*self, *rhs) }
    open spec fn mul_spec(self, rhs: &'a MontyForm<LIMBS>) -> MontyForm<LIMBS> { monty_mul_spec(*self, *rhs) }
}
impl<'b, const LIMBS: usize> vstd::std_specs::ops::MulSpecImpl<MontyForm<LIMBS>> for &'b MontyForm<LIMBS> {
    open spec fn obeys_mul_spec() -> bool { true }
    open spec fn mul_req(self, rhs: MontyForm<LIMBS>) -> bool { monty_mul_req(*self, rhs) }
    open spec fn mul_spec(self, rhs: MontyForm<LIMBS>) -> MontyForm<LIMBS> { monty_mul_spec(*self, rhs) }
}
impl<'a, const LIMBS: usize> vstd::std_specs::ops::MulSpecImpl<&'a MontyForm<LIMBS>> for MontyForm<LIMBS> {
    open spec fn obeys_mul_spec() -> bool { true }
    open spec fn mul_req(self, rhs: &'a MontyForm<LIMBS>) -> bool { monty_mul_req(self, *rhs) }
    open spec fn mul_spec(self, rhs: &'a MontyForm<LIMBS>) -> MontyForm<LIMBS> { monty_mul_spec(self, *rhs) }
}
impl<const LIMBS: usize> vstd::std_specs::ops::MulSpecImpl<MontyForm<LIMBS>> for MontyForm<LIMBS> {
    open spec fn obeys_mul_spec() -> bool { true }
    open spec fn mul_req(self, rhs: MontyForm<LIMBS>) -> bool { monty_mul_req(self, rhs) }
    open spec fn mul_spec(self, rhs: MontyForm<LIMBS>) -> MontyForm<LIMBS> { monty_mul_spec(self, rhs) }
}

//@@ fn src/modular/monty_form/mul.rs | impl<const LIMBS: usize> Mul<&MontyForm<LIMBS>> for &MontyForm<LIMBS> | mul | body | props C08 C11 C15
impl<const LIMBS: usize> Mul<&MontyForm<LIMBS>> for &MontyForm<LIMBS> {
//@+
    type Output = MontyForm<LIMBS>;
    // contract (vstd `MulSpecImpl`, see above): requires monty_mul_req(*self, *rhs); ensures ret__ == monty_mul_spec(*self, *rhs)
//@-
fn mul(self, rhs: &MontyForm<LIMBS>) -> (ret__: MontyForm<LIMBS>)
//@+
    ensures ret__ == monty_mul_spec(*self, *rhs)
//@-
{
//@+
    assert forall|r: MontyForm<LIMBS>| #[trigger] r.wf() && r.params == self.params && r.view() == (self.view() * rhs.view()) % self.params.modulus.0.v()
        implies r == monty_mul_spec(*self, *rhs) by { lemma_monty_mul_is_spec(*self, *rhs, r); }
//@-
        debug_assert_eq!(self.params, rhs.params);
        self.mul(rhs)
    }
}
//@@ end
//@@ fn src/modular/monty_form/mul.rs | impl<const LIMBS: usize> Mul<MontyForm<LIMBS>> for &MontyForm<LIMBS> | mul | body | props C08 C11 C15
impl<const LIMBS: usize> Mul<MontyForm<LIMBS>> for &MontyForm<LIMBS> {
//@+
    type Output = MontyForm<LIMBS>;
    // contract (vstd `MulSpecImpl`, see above): requires monty_mul_req(*self, rhs); ensures ret__ == monty_mul_spec(*self, rhs)
//@-
fn mul(self, rhs: MontyForm<LIMBS>) -> (ret__: MontyForm<LIMBS>)
{
        self * &rhs
    }
}
//@@ end
//@@ fn src/modular/monty_form/mul.rs | impl<const LIMBS: usize> Mul<&MontyForm<LIMBS>> for MontyForm<LIMBS> | mul | body | props C08 C11 C15
impl<const LIMBS: usize> Mul<&MontyForm<LIMBS>> for MontyForm<LIMBS> {
//@+
    type Output = MontyForm<LIMBS>;
    // contract (vstd `MulSpecImpl`, see above): requires monty_mul_req(self, *rhs); ensures ret__ == monty_mul_spec(self, *rhs)
//@-
fn mul(self, rhs: &MontyForm<LIMBS>) -> (ret__: MontyForm<LIMBS>)
//@+
    ensures ret__ == monty_mul_spec(self, *rhs)
//@-
{
        &self * rhs
    }
}
//@@ end
//@@ fn src/modular/monty_form/mul.rs | impl<const LIMBS: usize> Mul<MontyForm<LIMBS>> for MontyForm<LIMBS> | mul | body | props C08 C11 C15
impl<const LIMBS: usize> Mul<MontyForm<LIMBS>> for MontyForm<LIMBS> {
//@+
    type Output = MontyForm<LIMBS>;
    // contract (vstd `MulSpecImpl`, see above): requires monty_mul_req(self, rhs); ensures ret__ == monty_mul_spec(self, rhs)
    // Verus erases `&`: at VIR level this impl and `impl Mul<&MontyForm> for &MontyForm` (which the body calls) have the same
    // (trait, type) key, so the call is reported as recursion; the /repo code is not recursive (it ends in the inherent `mul`)
    #[verifier::exec_allows_no_decreases_clause]
//@-
fn mul(self, rhs: MontyForm<LIMBS>) -> (ret__: MontyForm<LIMBS>)
{
        &self * &rhs
    }
}
//@@ end
//@@ fn src/uint/mul_mod.rs | impl<const LIMBS: usize> Uint<LIMBS> | mul_mod | body | props C07 C08 C11 C15
impl<const LIMBS: usize> Uint<LIMBS> {
pub fn mul_mod<const WIDE_LIMBS: usize>(
        &self,
        rhs: &Uint<LIMBS>,
        p: &NonZero<Uint<LIMBS>>,
    ) -> (ret__: Uint<LIMBS>)
where
        Uint<LIMBS>: Concat<Output = Uint<WIDE_LIMBS>>,
        Uint<WIDE_LIMBS>: Split<Output = Uint<LIMBS>>,
//@+
    // p == 1 is excluded because `MontyForm::new` (l6_montyform) requires `params.wf()`, which `MontyParams::new(Odd(1))` does not
    // establish (its `one` is 1 instead of R mod 1 == 0: known finding F13); for every other odd p the result is exact
    requires 1 <= LIMBS < 0x200_0000, WIDE_LIMBS == 2 * LIMBS, p.0.v() % 2 == 1, p.0.v() != 1
    ensures ret__.v() == (self.v() * rhs.v()) % p.0.v(), ret__.v() < p.0.v()
//@-
{
        // NOTE: the overhead of converting to Montgomery form to perform this operation and then
        // immediately converting out of Montgomery form after just a single operation is likely to
        // be higher than other possible implementations of this function, such as using a
        // Barrett reduction instead.
        //
        // It's worth potentially exploring other approaches to improve efficiency.
        let params = MontyParams::new(p.to_odd().expect("p should be odd"));
//@+
    proof {
        let a = MontyForm::<LIMBS> { montgomery_form: uint_of::<LIMBS>(0), params: params };
        assert forall|a: MontyForm<LIMBS>, b: MontyForm<LIMBS>| a.wf() implies (#[trigger] monty_mul_spec(a, b)).wf() && monty_mul_spec(a, b).params == a.params
            && monty_mul_spec(a, b).view() == (a.view() * b.view()) % a.params.modulus.0.v() by { lemma_monty_mul_spec(a, b); }
        lemma_val_bound(p.0.limbs@, LIMBS as nat);
        lemma_mul_mod_noop_general(self.v(), rhs.v(), p.0.v());
    }
//@-
        (MontyForm::new(self, params) * MontyForm::new(rhs, params)).retrieve()
    }
}
//@@ end

} // verus!
