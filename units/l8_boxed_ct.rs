// L8: `ConstantTimeSelect::ct_assign` for BoxedUint (src/uint/boxed/ct.rs) -- C06
// The trait of /repo/src/traits.rs has three methods implemented in ONE impl block; a region emits one `impl` block per method, so
// each method needs its own hand-declared trait in its own module: `ct_select` lives in l8_boxed_methods.rs, `ct_assign` here
// (users import `crate::l8_boxed_ct::ConstantTimeSelect` by name), `ct_swap` is not covered.
// Same situation for `Zero::set_zero` (src/uint/boxed.rs; `Zero::is_zero` lives in l8_boxed_methods.rs): declared and proved here.
use vstd::prelude::*;
use crate::speclib::*;
use crate::l0_corespec::*;
use crate::l1_limb::*;
use crate::l2_subtle::*;
use crate::l7_boxed_div::*;
use crate::l8_boxed_methods::{ConditionallySelectable};
verus! {

/// `ConstantTimeSelect` of /repo/src/traits.rs, `ct_assign` part (the `ct_select` part is declared in l8_boxed_methods.rs; this
/// local declaration shadows it in this module)
pub trait ConstantTimeSelect: Clone {
    spec fn ct_assign_req(&self, other: &Self, choice: Choice) -> bool;
    spec fn ct_assign_ens(&self, other: &Self, choice: Choice, r: Self) -> bool;
    fn ct_assign(&mut self, other: &Self, choice: Choice)
        requires old(self).ct_assign_req(other, choice)
        ensures old(self).ct_assign_ens(other, choice, *final(self));
}

/// `Zero` of /repo/src/traits.rs, `set_zero` part (the `is_zero` part is declared in l7_traits.rs and implemented for BoxedUint in
/// l8_boxed_methods.rs: one region = one impl block = one method). `BoxedUint` overrides the provided method with an in-place fill.
pub trait Zero: Sized {
    spec fn set_zero_ens(&self, r: Self) -> bool;
    fn set_zero(&mut self)
        ensures old(self).set_zero_ens(*final(self));
}

//@@ fn src/uint/boxed/ct.rs | impl ConstantTimeSelect for BoxedUint | ct_assign | body | props C06 C11
impl ConstantTimeSelect for BoxedUint {
//@+
    open spec fn ct_assign_req(&self, other: &Self, choice: Choice) -> bool { self.limbs@.len() == other.limbs@.len() && self.limbs@.len() < 0x400_0000 && choice.wf() }
    open spec fn ct_assign_ens(&self, other: &Self, choice: Choice, r: Self) -> bool { r.limbs@ == (if choice.t() { other.limbs@ } else { self.limbs@ }) }
//@-
fn ct_assign(&mut self, other: &Self, choice: Choice)
{
//@+
    let ghost s0 = self.limbs@; let ghost n = self.limbs@.len();
//@-
        assert_eq!(self.bits_precision(), other.bits_precision());
        for i in 0..self.nlimbs()
//@+
    invariant self.limbs@.len() == n, other.limbs@.len() == n, s0.len() == n, choice.wf(), VERUS_ghost_iter.iter.end == n,
        forall|k: int| 0 <= k < VERUS_ghost_iter.index@ ==> self.limbs@[k] == (if choice.t() { other.limbs@[k] } else { s0[k] }),
        forall|k: int| VERUS_ghost_iter.index@ <= k < n ==> self.limbs@[k] == s0[k],
//@-
{
            self.limbs[i].conditional_assign(&other.limbs[i], choice);
        }
//@+
    proof {
        if choice.t() { assert(self.limbs@ =~= other.limbs@); } else { assert(self.limbs@ =~= s0); }
    }
//@-
    }
}
//@@ end

//@@ fn src/uint/boxed.rs | impl Zero for BoxedUint | set_zero | body | props C05 C11
impl Zero for BoxedUint {
//@+
    open spec fn set_zero_ens(&self, r: Self) -> bool { r.limbs@.len() == self.limbs@.len() && forall|k: int| 0 <= k < r.limbs@.len() ==> r.limbs@[k].0 == 0 }
//@-
fn set_zero(&mut self)
{
        self.limbs.as_mut().fill(Limb::ZERO)
    }
}
//@@ end

} // verus!
