// L2: Uint shifts and bit queries (src/uint/shl.rs, shr.rs, bits.rs) -- C05
use vstd::prelude::*;
use vstd::arithmetic::power::*;
use vstd::arithmetic::power2::*;
use vstd::arithmetic::div_mod::*;
use crate::speclib::*;
use crate::speclib_bits::*;
use crate::l0_prim::*;
use crate::l1_choice::*;
use crate::l1_limb::*;
use crate::l2_core::*;
verus! {

//@@ subst \b(Self|Uint)::(ZERO|ONE|MAX|BITS|LOG2_BITS)\b(?!\() => \1::\2()
//@@ subst \bUint::<(\w+)>::(ZERO|ONE|MAX|BITS)\b(?!\() => Uint::<\1>::\2()
//@@ fn src/uint/bits.rs | impl<const LIMBS: usize> Uint<LIMBS> | bits | stub | props C05 C11
impl<const LIMBS: usize> Uint<LIMBS> {
#[verifier::external_body]
pub const fn bits(&self) -> (ret__: u32)
//@+
    requires 1 <= LIMBS < 0x400_0000
    ensures ret__ as int <= 64 * LIMBS, (ret__ == 0) == (self.v() == 0), self.v() < p2(ret__ as nat), ret__ > 0 ==> self.v() >= p2((ret__ - 1) as nat)
//@-
{
    unimplemented!()
}
}
//@@ end
//@@ fn src/uint/bits.rs | impl<const LIMBS: usize> Uint<LIMBS> | bits_vartime | stub | props C05 C11 C15
impl<const LIMBS: usize> Uint<LIMBS> {
#[verifier::external_body]
pub const fn bits_vartime(&self) -> (ret__: u32)
//@+
    requires 1 <= LIMBS < 0x400_0000
    ensures ret__ as int <= 64 * LIMBS, (ret__ == 0) == (self.v() == 0), self.v() < p2(ret__ as nat), ret__ > 0 ==> self.v() >= p2((ret__ - 1) as nat)
//@-
{
    unimplemented!()
}
}
//@@ end
//@@ fn src/uint/bits.rs | impl<const LIMBS: usize> Uint<LIMBS> | leading_zeros | stub | props C05 C11
impl<const LIMBS: usize> Uint<LIMBS> {
#[verifier::external_body]
pub const fn leading_zeros(&self) -> (ret__: u32)
//@+
    requires 1 <= LIMBS < 0x400_0000
    ensures ret__ as int <= 64 * LIMBS, (ret__ as int == 64 * LIMBS) == (self.v() == 0), self.v() < p2((64 * LIMBS - ret__) as nat), (ret__ as int) < 64 * LIMBS ==> self.v() >= p2((64 * LIMBS - ret__ - 1) as nat)
//@-
{
    unimplemented!()
}
}
//@@ end
//@@ fn src/uint/bits.rs | impl<const LIMBS: usize> Uint<LIMBS> | trailing_zeros | stub | props C05 C11
impl<const LIMBS: usize> Uint<LIMBS> {
#[verifier::external_body]
pub const fn trailing_zeros(&self) -> (ret__: u32)
//@+
    requires 1 <= LIMBS < 0x400_0000
    ensures ret__ as int <= 64 * LIMBS, (ret__ as int == 64 * LIMBS) == (self.v() == 0), self.v() % p2(ret__ as nat) == 0, (ret__ as int) < 64 * LIMBS ==> (self.v() / p2(ret__ as nat)) % 2 == 1
//@-
{
    unimplemented!()
}
}
//@@ end
//@@ fn src/uint/bits.rs | impl<const LIMBS: usize> Uint<LIMBS> | trailing_zeros_vartime | stub | props C05 C11 C15
impl<const LIMBS: usize> Uint<LIMBS> {
#[verifier::external_body]
pub const fn trailing_zeros_vartime(&self) -> (ret__: u32)
//@+
    requires 1 <= LIMBS < 0x400_0000
    ensures ret__ as int <= 64 * LIMBS, (ret__ as int == 64 * LIMBS) == (self.v() == 0), self.v() % p2(ret__ as nat) == 0, (ret__ as int) < 64 * LIMBS ==> (self.v() / p2(ret__ as nat)) % 2 == 1
//@-
{
    unimplemented!()
}
}
//@@ end
//@@ fn src/uint/bits.rs | impl<const LIMBS: usize> Uint<LIMBS> | bit | stub | props C05 C11
impl<const LIMBS: usize> Uint<LIMBS> {
#[verifier::external_body]
pub const fn bit(&self, index: u32) -> (ret__: ConstChoice)
//@+
    requires 1 <= LIMBS < 0x400_0000
    ensures ret__.wf(), ret__.t() == ((index as int) < 64 * LIMBS && (self.v() / p2(index as nat)) % 2 == 1)
//@-
{
    unimplemented!()
}
}
//@@ end
//@@ fn src/uint/bits.rs | impl<const LIMBS: usize> Uint<LIMBS> | bit_vartime | stub | props C05 C11 C15
impl<const LIMBS: usize> Uint<LIMBS> {
#[verifier::external_body]
pub const fn bit_vartime(&self, index: u32) -> (ret__: bool)
//@+
    requires 1 <= LIMBS < 0x400_0000
    ensures ret__ == ((index as int) < 64 * LIMBS && (self.v() / p2(index as nat)) % 2 == 1)
//@-
{
    unimplemented!()
}
}
//@@ end
//@@ fn src/uint/shl.rs | impl<const LIMBS: usize> Uint<LIMBS> | shl | stub | props C05 C11
impl<const LIMBS: usize> Uint<LIMBS> {
#[verifier::external_body]
pub const fn shl(&self, shift: u32) -> (ret__: Self)
//@+
    requires 1 <= LIMBS < 0x400_0000, (shift as int) < 64 * LIMBS
    ensures ret__.v() == (self.v() * p2(shift as nat)) % bp(LIMBS as nat)
//@-
{
    unimplemented!()
}
}
//@@ end
//@@ fn src/uint/shl.rs | impl<const LIMBS: usize> Uint<LIMBS> | shl_vartime | stub | props C05 C11 C15
impl<const LIMBS: usize> Uint<LIMBS> {
#[verifier::external_body]
pub const fn shl_vartime(&self, shift: u32) -> (ret__: Self)
//@+
    requires 1 <= LIMBS < 0x400_0000, (shift as int) < 64 * LIMBS
    ensures ret__.v() == (self.v() * p2(shift as nat)) % bp(LIMBS as nat)
//@-
{
    unimplemented!()
}
}
//@@ end
//@@ fn src/uint/shl.rs | impl<const LIMBS: usize> Uint<LIMBS> | overflowing_shl | stub | props C05 C11
impl<const LIMBS: usize> Uint<LIMBS> {
#[verifier::external_body]
pub const fn overflowing_shl(&self, shift: u32) -> (ret__: ConstCtOption<Self>)
//@+
    requires 1 <= LIMBS < 0x400_0000
    ensures ret__.is_some.wf(), ret__.is_some.t() == ((shift as int) < 64 * LIMBS), ret__.is_some.t() ==> ret__.value.v() == (self.v() * p2(shift as nat)) % bp(LIMBS as nat), !ret__.is_some.t() ==> ret__.value.v() == 0
//@-
{
    unimplemented!()
}
}
//@@ end
//@@ fn src/uint/shl.rs | impl<const LIMBS: usize> Uint<LIMBS> | overflowing_shl_vartime | stub | props C05 C11 C15
impl<const LIMBS: usize> Uint<LIMBS> {
#[verifier::external_body]
pub const fn overflowing_shl_vartime(&self, shift: u32) -> (ret__: ConstCtOption<Self>)
//@+
    requires 1 <= LIMBS < 0x400_0000
    ensures ret__.is_some.wf(), ret__.is_some.t() == ((shift as int) < 64 * LIMBS), ret__.is_some.t() ==> ret__.value.v() == (self.v() * p2(shift as nat)) % bp(LIMBS as nat), !ret__.is_some.t() ==> ret__.value.v() == 0
//@-
{
    unimplemented!()
}
}
//@@ end
//@@ fn src/uint/shl.rs | impl<const LIMBS: usize> Uint<LIMBS> | wrapping_shl | stub | props C05 C11
impl<const LIMBS: usize> Uint<LIMBS> {
#[verifier::external_body]
pub const fn wrapping_shl(&self, shift: u32) -> (ret__: Self)
//@+
    requires 1 <= LIMBS < 0x400_0000
    ensures ret__.v() == (if (shift as int) < 64 * LIMBS { (self.v() * p2(shift as nat)) % bp(LIMBS as nat) } else { 0 })
//@-
{
    unimplemented!()
}
}
//@@ end
//@@ fn src/uint/shl.rs | impl<const LIMBS: usize> Uint<LIMBS> | wrapping_shl_vartime | stub | props C05 C11 C15
impl<const LIMBS: usize> Uint<LIMBS> {
#[verifier::external_body]
pub const fn wrapping_shl_vartime(&self, shift: u32) -> (ret__: Self)
//@+
    requires 1 <= LIMBS < 0x400_0000
    ensures ret__.v() == (if (shift as int) < 64 * LIMBS { (self.v() * p2(shift as nat)) % bp(LIMBS as nat) } else { 0 })
//@-
{
    unimplemented!()
}
}
//@@ end
//@@ fn src/uint/shl.rs | impl<const LIMBS: usize> Uint<LIMBS> | shl_limb | stub | props C05 C02 C11
impl<const LIMBS: usize> Uint<LIMBS> {
#[verifier::external_body]
pub const fn shl_limb(&self, shift: u32) -> (ret__: (Self, Limb))
//@+
    requires LIMBS >= 1, shift < 64
    ensures ret__.0.v() + ret__.1.0 as int * bp(LIMBS as nat) == self.v() * p2(shift as nat)
//@-
{
    unimplemented!()
}
}
//@@ end
//@@ fn src/uint/shl.rs | impl<const LIMBS: usize> Uint<LIMBS> | overflowing_shl1 | stub | props C05 C11
impl<const LIMBS: usize> Uint<LIMBS> {
#[verifier::external_body]
pub const fn overflowing_shl1(&self) -> (ret__: (Self, Limb))
//@+
    requires LIMBS >= 1
    ensures ret__.0.v() + ret__.1.0 as int * bp(LIMBS as nat) == 2 * self.v(), ret__.1.0 <= 1
//@-
{
    unimplemented!()
}
}
//@@ end
//@@ fn src/uint/shr.rs | impl<const LIMBS: usize> Uint<LIMBS> | shr | stub | props C05 C11
impl<const LIMBS: usize> Uint<LIMBS> {
#[verifier::external_body]
pub const fn shr(&self, shift: u32) -> (ret__: Self)
//@+
    requires 1 <= LIMBS < 0x400_0000, (shift as int) < 64 * LIMBS
    ensures ret__.v() == self.v() / p2(shift as nat)
//@-
{
    unimplemented!()
}
}
//@@ end
//@@ fn src/uint/shr.rs | impl<const LIMBS: usize> Uint<LIMBS> | shr_vartime | stub | props C05 C11 C15
impl<const LIMBS: usize> Uint<LIMBS> {
#[verifier::external_body]
pub const fn shr_vartime(&self, shift: u32) -> (ret__: Self)
//@+
    requires 1 <= LIMBS < 0x400_0000, (shift as int) < 64 * LIMBS
    ensures ret__.v() == self.v() / p2(shift as nat)
//@-
{
    unimplemented!()
}
}
//@@ end
//@@ fn src/uint/shr.rs | impl<const LIMBS: usize> Uint<LIMBS> | overflowing_shr | stub | props C05 C11
impl<const LIMBS: usize> Uint<LIMBS> {
#[verifier::external_body]
pub const fn overflowing_shr(&self, shift: u32) -> (ret__: ConstCtOption<Self>)
//@+
    requires 1 <= LIMBS < 0x400_0000
    ensures ret__.is_some.wf(), ret__.is_some.t() == ((shift as int) < 64 * LIMBS), ret__.is_some.t() ==> ret__.value.v() == self.v() / p2(shift as nat), !ret__.is_some.t() ==> ret__.value.v() == 0
//@-
{
    unimplemented!()
}
}
//@@ end
//@@ fn src/uint/shr.rs | impl<const LIMBS: usize> Uint<LIMBS> | overflowing_shr_vartime | stub | props C05 C11 C15
impl<const LIMBS: usize> Uint<LIMBS> {
#[verifier::external_body]
pub const fn overflowing_shr_vartime(&self, shift: u32) -> (ret__: ConstCtOption<Self>)
//@+
    requires 1 <= LIMBS < 0x400_0000
    ensures ret__.is_some.wf(), ret__.is_some.t() == ((shift as int) < 64 * LIMBS), ret__.is_some.t() ==> ret__.value.v() == self.v() / p2(shift as nat), !ret__.is_some.t() ==> ret__.value.v() == 0
//@-
{
    unimplemented!()
}
}
//@@ end
//@@ fn src/uint/shr.rs | impl<const LIMBS: usize> Uint<LIMBS> | wrapping_shr | stub | props C05 C11
impl<const LIMBS: usize> Uint<LIMBS> {
#[verifier::external_body]
pub const fn wrapping_shr(&self, shift: u32) -> (ret__: Self)
//@+
    requires 1 <= LIMBS < 0x400_0000
    ensures ret__.v() == (if (shift as int) < 64 * LIMBS { self.v() / p2(shift as nat) } else { 0 })
//@-
{
    unimplemented!()
}
}
//@@ end
//@@ fn src/uint/shr.rs | impl<const LIMBS: usize> Uint<LIMBS> | wrapping_shr_vartime | stub | props C05 C11 C15
impl<const LIMBS: usize> Uint<LIMBS> {
#[verifier::external_body]
pub const fn wrapping_shr_vartime(&self, shift: u32) -> (ret__: Self)
//@+
    requires 1 <= LIMBS < 0x400_0000
    ensures ret__.v() == (if (shift as int) < 64 * LIMBS { self.v() / p2(shift as nat) } else { 0 })
//@-
{
    unimplemented!()
}
}
//@@ end
//@@ fn src/uint/shr.rs | impl<const LIMBS: usize> Uint<LIMBS> | shr1 | stub | props C05 C11
impl<const LIMBS: usize> Uint<LIMBS> {
#[verifier::external_body]
pub const fn shr1(&self) -> (ret__: Self)
//@+
    requires LIMBS >= 1
    ensures ret__.v() == self.v() / 2
//@-
{
    unimplemented!()
}
}
//@@ end
//@@ fn src/uint/shr.rs | impl<const LIMBS: usize> Uint<LIMBS> | shr1_with_carry | stub | props C05 C11
impl<const LIMBS: usize> Uint<LIMBS> {
#[verifier::external_body]
pub const fn shr1_with_carry(&self) -> (ret__: (Self, ConstChoice))
//@+
    requires LIMBS >= 1
    ensures ret__.0.v() == self.v() / 2, ret__.1.wf(), ret__.1.t() == (self.v() % 2 == 1)
//@-
{
    unimplemented!()
}
}
//@@ end

} // verus!
