// L2: Uint shifts and bit queries (src/uint/shl.rs, shr.rs, bits.rs) -- C05
use vstd::prelude::*;
use vstd::arithmetic::power::*;
use vstd::arithmetic::power2::*;
use vstd::arithmetic::div_mod::*;
use crate::speclib::*;
use crate::speclib_bits::*;
use crate::l0_prim::*;
use crate::l1_choice::*;
use crate::l1_limb::*;
use crate::l2_core::*;
use vstd::std_specs::bits::*;
use vstd::bits::*;
use vstd::arithmetic::mul::*;
verus! {


// ---------------------------------------------------------------- lemmas: limb moves and bit shifts
/// t = s moved up by d limbs (low d limbs zero): val(t, d + m) == val(s, m) * B^d
proof fn lemma_shift_up(s: Seq<Limb>, t: Seq<Limb>, d: nat, m: nat)
    requires forall|j: int| 0 <= j < d ==> t[j].0 == 0, forall|j: int| 0 <= j < m ==> t[j + d] == s[j],
    ensures val(t, d + m) == val(s, m) * bp(d),
    decreases m
{
    if m > 0 {
        lemma_shift_up(s, t, d, (m - 1) as nat);
        lemma_bp_add((m - 1) as nat, d);
        assert(t[m - 1 + d] == s[m - 1]);
        let a = s[m - 1].0 as int;
        assert((val(s, (m - 1) as nat) + a * bp((m - 1) as nat)) * bp(d) == val(s, (m - 1) as nat) * bp(d) + a * (bp((m - 1) as nat) * bp(d))) by (nonlinear_arith);
        assert((d + m - 1) as nat == ((m - 1) + d) as nat);
    } else { lemma_val_zero(t, d); assert(0 * bp(d) == 0); }
}

/// t = s moved down by d limbs: val(s, d + m) == val(s, d) + val(t, m) * B^d
proof fn lemma_shift_down(s: Seq<Limb>, t: Seq<Limb>, d: nat, m: nat)
    requires forall|j: int| 0 <= j < m ==> t[j] == s[j + d],
    ensures val(s, d + m) == val(s, d) + val(t, m) * bp(d),
    decreases m
{
    if m > 0 {
        lemma_shift_down(s, t, d, (m - 1) as nat);
        lemma_bp_add((m - 1) as nat, d);
        assert(t[m - 1] == s[m - 1 + d]);
        let a = t[m - 1].0 as int;
        assert((val(t, (m - 1) as nat) + a * bp((m - 1) as nat)) * bp(d) == val(t, (m - 1) as nat) * bp(d) + a * (bp((m - 1) as nat) * bp(d))) by (nonlinear_arith);
        assert((d + m - 1) as nat == ((m - 1) + d) as nat);
    } else { assert(0 * bp(d) == 0); }
}

/// value-level split of a limb shifted left by 0 < s < 64 (low word / spilled high bits)
proof fn lemma_limb_split(l: u64, s: u32)
    requires 0 < s < 64
    ensures
        (l << s) as int == (l as int * p2(s as nat)) % B(),
        (l >> ((64 - s) as u32)) as int == l as int / p2((64 - s) as nat),
        (l as int * p2(s as nat)) % B() + (l as int / p2((64 - s) as nat)) * B() == l as int * p2(s as nat),
        0 <= l as int / p2((64 - s) as nat) < p2(s as nat),
        ((l as int * p2(s as nat)) % B()) % p2(s as nat) == 0,
        p2(s as nat) * p2((64 - s) as nat) == B(), p2(s as nat) > 0, p2((64 - s) as nat) > 0,
{
    let r = (64 - s) as u32;
    lemma_limb_shl_split(l, s);
    lemma_u64_shl_mod(l, s);
    lemma_u64_shr_div(l, r);
    lemma_pow2_64();
    lemma_pow2_pos(s as nat); lemma_pow2_pos(r as nat);
    lemma_pow2_adds(s as nat, r as nat);
    let ps = p2(s as nat); let pr = p2(r as nat);
    let hi = l as int / pr; let lo = (l as int * ps) % B();
    assert(ps * pr == B());
    lemma_fundamental_div_mod(l as int, pr);
    lemma_mod_bound(l as int, pr);
    assert(hi < ps) by (nonlinear_arith) requires l as int == pr * hi + (l as int % pr), 0 <= l as int % pr, (l as int) < ps * pr, pr > 0;
    assert(hi >= 0) by (nonlinear_arith) requires l as int == pr * hi + (l as int % pr), (l as int % pr) < pr, l as int >= 0, pr > 0;
    assert(lo == (l as int - hi * pr) * ps) by (nonlinear_arith) requires lo + hi * B() == l as int * ps, ps * pr == B();
    lemma_mod_multiples_basic(l as int - hi * pr, ps);
}

proof fn lemma_val_one(s: Seq<Limb>)
    ensures val(s, 1) == s[0].0 as int
{
    lemma_bp1();
    assert(val(s, 1) == val(s, 0) + s[0].0 as int * bp(0));
    assert(s[0].0 as int * bp(0) == s[0].0 as int) by (nonlinear_arith) requires bp(0) == 1;
}

/// a | b == a + b when a is a multiple of 2^r and b < 2^r
proof fn lemma_or_add(a: u64, b: u64, r: u32)
    requires r < 64, (b as int) < p2(r as nat), (a as int) % p2(r as nat) == 0
    ensures (a | b) as int == a as int + b as int, (b | a) as int == a as int + b as int
{
    lemma_one_shl(r as u64);
    let pr = 1u64 << (r as u64);
    assert(pr as int == p2(r as nat));
    assert(a % pr == 0);
    assert((a | b) == a + b && (b | a) == a + b) by (bit_vector) requires r < 64, pr == 1u64 << (r as u64), b < pr, a % pr == 0;
}

/// shifting left by 64*sn + rem modulo B^n only depends on the low n - sn limbs
proof fn lemma_shl_limbs_mod(s: Seq<Limb>, n: nat, sn: nat, rem: nat, shift: nat)
    requires sn < n, rem < 64, shift == 64 * sn + rem
    ensures (val(s, n) * p2(shift)) % bp(n) == (val(s, (n - sn) as nat) * bp(sn) * p2(rem)) % bp(n)
{
    let m = (n - sn) as nat;
    lemma_val_mod(s, m, n);
    lemma_bp_succ(m);
    lemma_fundamental_div_mod(val(s, n), bp(m));
    let low = val(s, m); let hq = val(s, n) / bp(m);
    lemma_bp_pow2(sn); lemma_pow2_adds(64 * sn, rem); lemma_pow2_pos(rem);
    lemma_bp_add(m, sn); lemma_bp_succ(n);
    let k = p2(rem);
    assert((m + sn) as nat == n);
    assert(val(s, n) * p2(shift) == low * bp(sn) * k + bp(n) * (hq * k)) by (nonlinear_arith)
        requires val(s, n) == bp(m) * hq + low, p2(shift) == bp(sn) * k, bp(n) == bp(m) * bp(sn);
    lemma_mod_multiples_vanish(hq * k, low * bp(sn) * k, bp(n));
}


/// the final step of a left shift: result limbs + spilled carry == surviving limbs shifted
proof fn lemma_shl_finish(s: Seq<Limb>, res: int, c: int, n: nat, sn: nat, rem: nat, shift: nat)
    requires sn < n, rem < 64, shift == 64 * sn + rem, 0 <= res < bp(n),
        res + c * bp(n) == val(s, (n - sn) as nat) * bp(sn) * p2(rem)
    ensures res == (val(s, n) * p2(shift)) % bp(n)
{
    let ww = bp(n);
    assert(ww * c == c * ww) by (nonlinear_arith);
    lemma_fundamental_div_mod_converse(val(s, (n - sn) as nat) * bp(sn) * p2(rem), ww, c, res);
    lemma_shl_limbs_mod(s, n, sn, rem, shift);
}

/// limb-aligned left shift (rem == 0): kept out of the big function context, where the same three steps were flaky
proof fn lemma_shl_rem0(s: Seq<Limb>, p1: Seq<Limb>, n: nat, sn: nat, shift: nat)
    requires sn < n, shift == 64 * sn, val(p1, n) == val(s, (n - sn) as nat) * bp(sn)
    ensures val(p1, n) == (val(s, n) * p2(shift)) % bp(n)
{
    let x = val(p1, n);
    lemma_pow2_64(); lemma_val_bound(p1, n);
    assert(p2(0) == 1) by { lemma2_to64(); }
    assert(x + 0 * bp(n) == val(s, (n - sn) as nat) * bp(sn) * p2(0)) by (nonlinear_arith)
        requires x == val(s, (n - sn) as nat) * bp(sn), p2(0) == 1;
    lemma_shl_finish(s, x, 0, n, sn, 0, shift);
}

/// dividing by 2^(64*sn + rem) drops the low sn limbs, then divides by 2^rem
proof fn lemma_shr_limbs_div(v: int, lo: int, hi: int, sn: nat, rem: nat, shift: nat)
    requires v == lo + hi * bp(sn), 0 <= lo < bp(sn), hi >= 0, shift == 64 * sn + rem
    ensures v / p2(shift) == hi / p2(rem), rem == 0 ==> v / p2(shift) == hi
{
    lemma_bp_pow2(sn); lemma_pow2_adds(64 * sn, rem); lemma_pow2_pos(rem); lemma_bp_succ(sn);
    assert(bp(sn) * hi == hi * bp(sn)) by (nonlinear_arith);
    lemma_fundamental_div_mod_converse(v, bp(sn), hi, lo);
    assert(v >= 0) by (nonlinear_arith) requires v == lo + hi * bp(sn), lo >= 0, hi >= 0, bp(sn) > 0;
    lemma_div_denominator(v, bp(sn), p2(rem));
    lemma_pow2_64();
    if rem == 0 { assert(hi / 1 == hi); }
}

/// spilled high bits of a limb shifted left by `s` (0 for s == 0)
pub open spec fn spill(l: u64, s: u32) -> int { if s == 0 { 0 } else { l as int / p2((64 - s) as nat) } }

proof fn lemma_shl_word(x: u64, s: u32)
    requires s < 64
    ensures (x << s) as int + spill(x, s) * B() == x as int * p2(s as nat), 0 <= spill(x, s) < p2(s as nat),
        ((x << s) as int) % p2(s as nat) == 0,
        s != 0 ==> (x >> ((64 - s) as u32)) as int == spill(x, s),
{
    lemma_pow2_64();
    if s == 0 {
        assert(x << 0u32 == x) by (bit_vector);
        assert(x as int * 1 == x as int);
        assert((x as int) % 1 == 0);
    } else {
        lemma_limb_split(x, s);
    }
}

/// ((x * 2^a) mod w) * 2^b mod w == x * 2^(a+b) mod w
proof fn lemma_shl_compose(x: int, a: nat, b: nat, w: int)
    requires w > 0
    ensures (((x * p2(a)) % w) * p2(b)) % w == (x * p2(a + b)) % w
{
    lemma_pow2_adds(a, b);
    lemma_mul_mod_noop_left(x * p2(a), p2(b), w);
    assert((x * p2(a)) * p2(b) == x * (p2(a) * p2(b))) by (nonlinear_arith);
}

/// (x / 2^a) / 2^b == x / 2^(a+b)
proof fn lemma_shr_compose(x: int, a: nat, b: nat)
    requires x >= 0
    ensures (x / p2(a)) / p2(b) == x / p2(a + b)
{
    lemma_pow2_adds(a, b); lemma_pow2_pos(a); lemma_pow2_pos(b);
    lemma_div_denominator(x, p2(a), p2(b));
}

proof fn lemma_one_shl32(n: u32)
    requires n < 32
    ensures (1u32 << n) as int == p2(n as nat), p2(n as nat) <= 0x8000_0000
{
    lemma_u32_pow2_no_overflow(n as nat);
    lemma_u32_shl_is_mul(1, n);
    lemma2_to64();
    if n < 31 { lemma_pow2_strictly_increases(n as nat, 31); }
}

proof fn lemma_high_zero32(x: u32, n: nat)
    requires n <= 32, forall|j: u32| n <= j < 32 ==> #[trigger] (x >> j) & 1u32 == 0u32
    ensures (x as int) < p2(n)
    decreases 32 - n
{
    lemma2_to64();
    if n < 32 {
        lemma_high_zero32(x, n + 1);
        let s = n as u32;
        assert((x >> s) & 1u32 == 0u32);
        lemma_one_shl32(s);
        if n < 31 {
            lemma_one_shl32((s + 1) as u32);
            assert(x < (1u32 << ((s + 1) as u32)) && (x >> s) & 1u32 == 0u32 ==> x < (1u32 << s)) by (bit_vector) requires s < 31;
        } else {
            assert((x >> 31) & 1u32 == 0u32 ==> x < (1u32 << 31)) by (bit_vector);
        }
    }
}

/// u32 analogue of speclib_bits::lemma_lz64
pub proof fn lemma_lz32(x: u32)
    ensures 0 <= u32_leading_zeros(x) <= 32, (u32_leading_zeros(x) == 32) == (x == 0),
        (x as int) < p2((32 - u32_leading_zeros(x)) as nat),
        u32_leading_zeros(x) < 32 ==> x as int >= p2((31 - u32_leading_zeros(x)) as nat)
{
    axiom_u32_leading_zeros(x);
    let lz = u32_leading_zeros(x);
    lemma_high_zero32(x, (32 - lz) as nat);
    if lz < 32 {
        let s = (31 - lz) as u32;
        lemma_one_shl32(s);
        assert((x >> s) & 1u32 != 0u32 ==> x >= (1u32 << s)) by (bit_vector) requires s < 32;
    }
}

/// one rung of the constant-time shift ladder: bit i of s extends s mod 2^i to s mod 2^(i+1)
proof fn lemma_ladder_step(s: u32, i: u32)
    requires i < 32
    ensures ((s >> i) & 1u32) <= 1, (1u32 << i) as int == p2(i as nat),
        (s as int) % p2((i + 1) as nat) == (s as int) % p2(i as nat) + ((s >> i) & 1u32) as int * p2(i as nat),
{
    lemma_one_shl32(i);
    lemma_u32_shr_is_div(s, i);
    let q = s >> i; let b = q & 1u32;
    assert(b <= 1 && b == q % 2) by (bit_vector) requires b == q & 1u32;
    let pi = p2(i as nat);
    lemma_pow2_pos(i as nat);
    lemma_pow2_adds(i as nat, 1); lemma2_to64();
    lemma_fundamental_div_mod(s as int, pi); lemma_mod_bound(s as int, pi);
    let r = s as int % pi; let q2 = q as int / 2;
    assert(s as int == (2 * pi) * q2 + (b as int * pi + r)) by (nonlinear_arith) requires s as int == pi * (q as int) + r, q as int == 2 * q2 + b as int;
    assert(b as int * pi + r < 2 * pi) by (nonlinear_arith) requires b <= 1, 0 <= r < pi;
    assert(b as int * pi >= 0) by (nonlinear_arith) requires b >= 0, pi > 0;
    lemma_fundamental_div_mod_converse(s as int, 2 * pi, q2, b as int * pi + r);
}


// ---------------------------------------------------------------- lemmas: double-width shifts
proof fn lemma_tv_zero(s: Seq<Limb>, a: nat, b: nat)
    requires a <= b, tv(s, a, b) == 0
    ensures forall|k: int| a <= k < b ==> s[k].0 == 0
    decreases b - a
{
    if b > a {
        let m = (b - 1) as nat;
        lemma_tv_bound(s, a, m);
        lemma_bp_succ(m);
        let x = s[m as int].0 as int; let p = bp(m);
        assert(x * p >= 0) by (nonlinear_arith) requires x >= 0, p > 0;
        assert(x > 0 ==> x * p > 0) by (nonlinear_arith) requires p > 0;
        lemma_tv_zero(s, a, m);
    }
}

/// limb-wise OR of a value below 2^s and a multiple of 2^s is their sum
proof fn lemma_uint_or_disjoint(a: Seq<Limb>, b: Seq<Limb>, o: Seq<Limb>, n: nat, s: nat)
    requires s <= 64 * n, val(a, n) < p2(s), val(b, n) % p2(s) == 0,
        forall|k: int| 0 <= k < n ==> o[k].0 == a[k].0 | b[k].0
    ensures val(o, n) == val(a, n) + val(b, n)
{
    if s == 64 * n {
        // b == 0
        lemma_bp_pow2(n); lemma_val_bound(b, n);
        lemma_small_mod(val(b, n) as nat, p2(s) as nat);
        lemma_val_zero_iff(b, n);
        assert forall|k: int| 0 <= k < n implies o[k] == a[k] by { let x = a[k].0; assert(x | 0 == x) by (bit_vector); }
        lemma_val_ext(o, a, n);
        return;
    }
    let sn = s / 64; let rem = s % 64;
    lemma_bp_pow2(sn); lemma_pow2_adds(64 * sn, rem); lemma_pow2_pos(rem); lemma_bp_succ(sn); lemma_pow2_64();
    let pr = p2(rem); let ps = bp(sn); let ps1 = bp(sn + 1);
    assert(p2(s) == ps * pr);
    lemma_pow2_strictly_increases(rem, 64);
    lemma_bp_succ(sn + 1);
    assert(ps * pr < ps1 && pr * ps == ps * pr) by (nonlinear_arith) requires pr < B(), ps > 0, ps1 == B() * ps;
    // a: nothing above limb sn, a[sn] < 2^rem
    lemma_val_bound(a, n); lemma_val_bound(a, sn);
    lemma_val_mod(a, sn + 1, n);
    lemma_small_mod(val(a, n) as nat, ps1 as nat);
    assert(tv(a, sn + 1, n) == 0);
    lemma_tv_zero(a, sn + 1, n);
    lemma_val_step(a, sn);
    let asn = a[sn as int].0 as int;
    assert(asn < pr) by (nonlinear_arith) requires val(a, sn) + asn * ps < pr * ps, val(a, sn) >= 0, ps > 0;
    // b: nothing below limb sn, b[sn] multiple of 2^rem
    let vb = val(b, n);
    lemma_val_bound(b, n);
    lemma_pow2_pos(s);
    lemma_fundamental_div_mod(vb, p2(s));
    let q = vb / p2(s);
    assert(vb == (pr * q) * ps) by (nonlinear_arith) requires vb == (ps * pr) * q;
    lemma_mod_multiples_basic(pr * q, ps);
    lemma_val_mod(b, sn, n);
    assert(val(b, sn) == 0);
    lemma_val_zero_iff(b, sn);
    lemma_val_mod(b, sn + 1, n);
    lemma_val_step(b, sn);
    lemma_fundamental_div_mod(vb, ps1);
    let t = vb / ps1; let bsn = b[sn as int].0 as int;
    assert(pr * q == B() * t + bsn) by (nonlinear_arith) requires (pr * q) * ps == (B() * ps) * t + bsn * ps, ps > 0;
    let pc = p2((64 - rem) as nat);
    lemma_pow2_adds(rem, (64 - rem) as nat);
    assert(bsn == (q - pc * t) * pr) by (nonlinear_arith) requires pr * q == B() * t + bsn, pr * pc == B();
    lemma_mod_multiples_basic(q - pc * t, pr);
    // the OR, limb by limb
    lemma_or_add(b[sn as int].0, a[sn as int].0, rem as u32);
    assert forall|k: int| 0 <= k < sn implies o[k] == a[k] by { let x = a[k].0; assert(x | 0 == x) by (bit_vector); }
    assert forall|k: int| sn + 1 <= k < n implies o[k] == b[k] by { let x = b[k].0; assert(0 | x == x) by (bit_vector); }
    lemma_val_ext(o, a, sn);
    lemma_tv_ext(o, b, sn + 1, n);
    lemma_val_step(o, sn);
    let osn = o[sn as int].0 as int;
    assert(osn * ps == asn * ps + bsn * ps) by (nonlinear_arith) requires osn == asn + bsn;
}

/// (x * w) mod w^2 == (x mod w) * w
proof fn lemma_mod_shift_w(x: int, w: int)
    requires w > 0, x >= 0
    ensures (x * w) % (w * w) == (x % w) * w
{
    lemma_truncate_middle(x, w, w);
    assert(w * x == x * w) by (nonlinear_arith);
    assert(w * (x % w) == (x % w) * w) by (nonlinear_arith);
}

/// double-width left shift by 0 < s < bits (w = 2^bits)
proof fn lemma_wide_shl_small(l: int, u: int, w: int, s: nat, bits: nat)
    requires w == p2(bits), s < bits, 0 <= l < w, 0 <= u < w
    ensures l / p2((bits - s) as nat) < p2(s), 0 <= l / p2((bits - s) as nat), ((u * p2(s)) % w) % p2(s) == 0,
        l / p2((bits - s) as nat) + (u * p2(s)) % w < w,
        (l * p2(s)) % w + (l / p2((bits - s) as nat) + (u * p2(s)) % w) * w == ((l + u * w) * p2(s)) % (w * w),
{
    let ps = p2(s); let pr = p2((bits - s) as nat);
    lemma_pow2_pos(s); lemma_pow2_pos((bits - s) as nat); lemma_pow2_adds(s, (bits - s) as nat);
    assert(ps * pr == w);
    let nl = (l * ps) % w; let ul = l / pr; let uh = (u * ps) % w;
    // l * ps / w == l / pr
    lemma_div_multiples_vanish_quotient(ps, l, pr);
    assert(ps * l == l * ps) by (nonlinear_arith);
    lemma_fundamental_div_mod(l * ps, w);
    assert(l * ps == w * ul + nl);
    lemma_fundamental_div_mod(l, pr); lemma_mod_bound(l, pr);
    assert(ul < ps) by (nonlinear_arith) requires l == pr * ul + l % pr, l % pr >= 0, l < ps * pr, pr > 0;
    assert(ul >= 0) by (nonlinear_arith) requires l == pr * ul + l % pr, l % pr < pr, l >= 0, pr > 0;
    lemma_fundamental_div_mod(u * ps, w); lemma_mod_bound(u * ps, w);
    let q = (u * ps) / w;
    let k = u - pr * q;
    assert(uh == k * ps) by (nonlinear_arith) requires u * ps == (ps * pr) * q + uh, k == u - pr * q;
    lemma_mod_multiples_basic(k, ps);
    assert(k < pr) by (nonlinear_arith) requires k * ps < ps * pr, ps > 0;
    assert(uh <= w - ps) by (nonlinear_arith) requires uh == k * ps, k <= pr - 1, ps * pr == w, ps > 0;
    lemma_mod_bound(l * ps, w);
    let r = nl + (ul + uh) * w;
    assert((l + u * w) * ps == (w * w) * q + r) by (nonlinear_arith) requires l * ps == w * ul + nl, u * ps == w * q + uh, r == nl + (ul + uh) * w;
    assert(0 <= r < w * w) by (nonlinear_arith) requires r == nl + (ul + uh) * w, 0 <= nl < w, 0 <= ul + uh <= w - 1;
    lemma_fundamental_div_mod_converse((l + u * w) * ps, w * w, q, r);
}

/// double-width right shift by 0 < s < bits (w = 2^bits)
proof fn lemma_wide_shr_small(l: int, u: int, w: int, s: nat, bits: nat)
    requires w == p2(bits), s < bits, 0 <= l < w, 0 <= u < w
    ensures 0 <= l / p2(s) < p2((bits - s) as nat), ((u * p2((bits - s) as nat)) % w) % p2((bits - s) as nat) == 0,
        l / p2(s) + (u * p2((bits - s) as nat)) % w + (u / p2(s)) * w == (l + u * w) / p2(s),
{
    let ps = p2(s); let pr = p2((bits - s) as nat);
    lemma_pow2_pos(s); lemma_pow2_pos((bits - s) as nat); lemma_pow2_adds(s, (bits - s) as nat);
    assert(ps * pr == w);
    let ll = l / ps; let lh = (u * pr) % w; let nu = u / ps; let r = u % ps;
    lemma_fundamental_div_mod(l, ps); lemma_mod_bound(l, ps);
    assert(ll < pr) by (nonlinear_arith) requires l == ps * ll + l % ps, l % ps >= 0, l < ps * pr, ps > 0;
    assert(ll >= 0) by (nonlinear_arith) requires l == ps * ll + l % ps, l % ps < ps, l >= 0, ps > 0;
    lemma_fundamental_div_mod(u, ps); lemma_mod_bound(u, ps);
    assert(u * pr == w * nu + r * pr) by (nonlinear_arith) requires u == ps * nu + r, ps * pr == w;
    assert(0 <= r * pr < w) by (nonlinear_arith) requires 0 <= r <= ps - 1, ps * pr == w, pr > 0;
    lemma_fundamental_div_mod_converse(u * pr, w, nu, r * pr);
    assert(lh == r * pr);
    lemma_mod_multiples_basic(r, pr);
    assert(l + u * w == l + (nu * w + r * pr) * ps) by (nonlinear_arith) requires u == ps * nu + r, ps * pr == w;
    lemma_hoist_over_denominator(l, nu * w + r * pr, ps as nat);
}

//@@ subst \b(Self|Uint)::(ZERO|ONE|MAX|BITS|LOG2_BITS)\b(?!\() => \1::\2()
//@@ subst \bUint::<(\w+)>::(ZERO|ONE|MAX|BITS)\b(?!\() => Uint::<\1>::\2()

// ---------------------------------------------------------------- bit queries (src/uint/bits.rs)

// ---- private lemmas for the bit queries -------------------------------------------------------
/// value of the limbs m..n, divided by B^m
spec fn vhi(s: Seq<Limb>, m: nat, n: nat) -> int
    decreases n
{ if n <= m { 0 } else { vhi(s, m, (n - 1) as nat) + s[n - 1].0 as int * bp((n - 1 - m) as nat) } }

proof fn lemma_val_split_hi(s: Seq<Limb>, m: nat, n: nat)
    requires m <= n
    ensures val(s, n) == val(s, m) + vhi(s, m, n) * bp(m), vhi(s, m, n) >= 0
    decreases n
{
    if n > m {
        let n1 = (n - 1) as nat;
        lemma_val_split_hi(s, m, n1);
        lemma_bp_add(m, (n1 - m) as nat);
        lemma_bp_succ((n1 - m) as nat);
        let a = s[n1 as int].0 as int; let q = bp((n1 - m) as nat); let h = vhi(s, m, n1); let pm = bp(m);
        assert((m + (n1 - m)) as nat == n1);
        assert((h + a * q) * pm == h * pm + a * (pm * q)) by (nonlinear_arith);
        assert(a * q >= 0) by (nonlinear_arith) requires a >= 0, q > 0;
    } else {
        assert(vhi(s, m, n) * bp(m) == 0) by (nonlinear_arith) requires vhi(s, m, n) == 0;
    }
}

/// val(s, n) = val(s, j) + (s[j] + h*B) * B^j  with h >= 0
proof fn lemma_val_at(s: Seq<Limb>, j: nat, n: nat) -> (h: int)
    requires j < n
    ensures h >= 0, val(s, n) == val(s, j) + (s[j as int].0 as int + h * B()) * bp(j)
{
    let h = vhi(s, j + 1, n);
    lemma_val_split_hi(s, j + 1, n);
    lemma_bp_succ(j);
    let a = s[j as int].0 as int; let p = bp(j);
    assert(val(s, j + 1) == val(s, j) + a * p);
    assert((a + h * B()) * p == a * p + h * (B() * p)) by (nonlinear_arith);
    h
}

/// bit e+r of  l + (a + h*2^64) * 2^e  is bit r of a   (0 <= l < 2^e, r < 64)
proof fn lemma_bit_of_sum(l: int, a: int, h: int, e: nat, r: nat)
    requires 0 <= l < p2(e), a >= 0, h >= 0, r < 64
    ensures ((l + (a + h * B()) * p2(e)) / p2(e + r)) % 2 == (a / p2(r)) % 2
{
    let pe = p2(e); let pr = p2(r);
    let w = a + h * B();
    let v = l + w * pe;
    lemma_pow2_pos(e); lemma_pow2_pos(r); lemma_pow2_adds(e, r);
    assert(w >= 0) by (nonlinear_arith) requires a >= 0, h >= 0, w == a + h * B(), B() > 0;
    assert(w * pe >= 0) by (nonlinear_arith) requires w >= 0, pe > 0;
    lemma_div_denominator(v, pe, pr);
    lemma_fundamental_div_mod_converse(v, pe, w, l);
    assert(v / pe == w);
    // w / 2^r == a / 2^r + h * 2^(64-r)
    let k = p2((64 - r) as nat);
    lemma_pow2_adds(r, (64 - r) as nat); lemma_pow2_64();
    assert(pr * k == B());
    let q = a / pr; let m = a % pr;
    lemma_fundamental_div_mod(a, pr); lemma_mod_bound(a, pr);
    assert(w == (q + h * k) * pr + m) by (nonlinear_arith) requires w == a + h * B(), a == pr * q + m, pr * k == B();
    lemma_fundamental_div_mod_converse(w, pr, q + h * k, m);
    assert(w / pr == q + h * k);
    // 2^(64-r) is even
    let k2 = p2((63 - r) as nat);
    lemma_pow2_adds(1, (63 - r) as nat);
    assert(k == 2 * k2);
    assert(q + h * k == 2 * (h * k2) + q) by (nonlinear_arith) requires k == 2 * k2;
    lemma_mod_multiples_vanish(h * k2, q, 2);
    assert(v / p2(e + r) == (v / pe) / pr);
}

/// bit 64j+r of val(s, n) is bit r of limb j
proof fn lemma_val_bit(s: Seq<Limb>, n: nat, j: nat, r: nat)
    requires j < n, r < 64
    ensures (val(s, n) / p2(64 * j + r)) % 2 == (s[j as int].0 as int / p2(r)) % 2
{
    let h = lemma_val_at(s, j, n);
    lemma_val_bound(s, j); lemma_bp_pow2(j);
    lemma_bit_of_sum(val(s, j), s[j as int].0 as int, h, 64 * j, r);
}

/// (a + h*2^64) * 2^e is a multiple of 2^(e+z) when 2^z | a  (z <= 64)
proof fn lemma_mult_of_sum(a: int, h: int, e: nat, z: nat)
    requires z <= 64, a % p2(z) == 0
    ensures ((a + h * B()) * p2(e)) % p2(e + z) == 0
{
    let pz = p2(z); let pe = p2(e); let k = p2((64 - z) as nat); let pez = p2(e + z);
    lemma_pow2_pos(z); lemma_pow2_pos(e); lemma_pow2_pos(e + z);
    lemma_pow2_adds(e, z); lemma_pow2_adds(z, (64 - z) as nat); lemma_pow2_64();
    lemma_fundamental_div_mod(a, pz);
    let q = a / pz;
    assert((a + h * B()) * pe == (q + h * k) * pez) by (nonlinear_arith) requires a == pz * q, pz * k == B(), pez == pe * pz;
    lemma_mod_multiples_basic(q + h * k, pez);
}

/// 2^(b-1) <= a < 2^b, 0 <= l < 2^e  ==>  2^(e+b-1) <= l + a*2^e < 2^(e+b)
proof fn lemma_top_bounds(l: int, a: int, e: nat, b: nat)
    requires 0 <= l < p2(e), b >= 1, p2((b - 1) as nat) <= a < p2(b)
    ensures p2((e + b - 1) as nat) <= l + a * p2(e) < p2(e + b)
{
    let pe = p2(e); let lo = p2((b - 1) as nat); let hi = p2(b);
    lemma_pow2_adds(e, b); lemma_pow2_adds(e, (b - 1) as nat); lemma_pow2_pos(e);
    assert(e + (b - 1) as nat == (e + b - 1) as nat);
    assert(pe * lo == p2((e + b - 1) as nat));
    assert(pe * hi == p2(e + b));
    assert(a * pe >= pe * lo) by (nonlinear_arith) requires a >= lo, pe > 0;
    assert((a + 1) * pe <= pe * hi) by (nonlinear_arith) requires a + 1 <= hi, pe > 0;
    assert((a + 1) * pe == a * pe + pe) by (nonlinear_arith);
}

/// the limbs above j are zero and limb j has exactly b >= 1 significant bits: the value has 64j+b bits
proof fn lemma_val_top(s: Seq<Limb>, n: nat, j: nat, b: nat)
    requires j < n, forall|k: int| j < k < n ==> s[k].0 == 0, 1 <= b <= 64,
        p2((b - 1) as nat) <= s[j as int].0 as int, (s[j as int].0 as int) < p2(b)
    ensures p2((64 * j + b - 1) as nat) <= val(s, n) < p2(64 * j + b)
{
    lemma_val_hi_zero(s, j + 1, n);
    lemma_val_bound(s, j); lemma_bp_pow2(j);
    assert(val(s, j + 1) == val(s, j) + s[j as int].0 as int * bp(j));
    lemma_top_bounds(val(s, j), s[j as int].0 as int, 64 * j, b);
}

/// the limbs below j are zero and limb j has z < 64 trailing zeros: the value has 64j+z trailing zeros
proof fn lemma_val_tz(s: Seq<Limb>, n: nat, j: nat, z: nat)
    requires j < n, forall|k: int| 0 <= k < j ==> s[k].0 == 0, z < 64,
        (s[j as int].0 as int) % p2(z) == 0, (s[j as int].0 as int / p2(z)) % 2 == 1
    ensures val(s, n) % p2(64 * j + z) == 0, (val(s, n) / p2(64 * j + z)) % 2 == 1, val(s, n) != 0
{
    lemma_val_zero(s, j);
    let h = lemma_val_at(s, j, n);
    lemma_bp_pow2(j);
    lemma_mult_of_sum(s[j as int].0 as int, h, 64 * j, z);
    lemma_val_bit(s, n, j, z);
    lemma_pow2_pos(64 * j + z);
    if val(s, n) == 0 { lemma_basic_div(0, p2(64 * j + z)); }
}

/// the limbs below j are MAX and limb j has z < 64 trailing ones: the value has 64j+z trailing ones
proof fn lemma_val_to(s: Seq<Limb>, n: nat, j: nat, z: nat)
    requires j < n, forall|k: int| 0 <= k < j ==> s[k].0 == u64::MAX, z < 64,
        (s[j as int].0 as int + 1) % p2(z) == 0, (s[j as int].0 as int / p2(z)) % 2 == 0
    ensures (val(s, n) + 1) % p2(64 * j + z) == 0, (val(s, n) / p2(64 * j + z)) % 2 == 0, val(s, n) != bp(n) - 1
{
    lemma_val_all_max(s, j);
    let h = lemma_val_at(s, j, n);
    lemma_bp_pow2(j);
    let a = s[j as int].0 as int; let p = bp(j);
    assert(val(s, n) + 1 == ((a + 1) + h * B()) * p) by (nonlinear_arith)
        requires val(s, n) == (p - 1) + (a + h * B()) * p;
    lemma_mult_of_sum(a + 1, h, 64 * j, z);
    lemma_val_bit(s, n, j, z);
    // not all ones: limb j is not MAX (its bit z is clear)
    if val(s, n) == bp(n) - 1 {
        let t = Seq::new(n, |k: int| Limb(u64::MAX));
        lemma_val_all_max(t, n);
        lemma_val_inj(s, t, n);
        assert(s[j as int].0 == t[j as int].0);
        let zz = z as u32;
        lemma_u64_shr_div(u64::MAX, zz);
        assert((0xffff_ffff_ffff_ffffu64 >> zz) % 2 == 1) by (bit_vector) requires zz < 64;
        assert(false);
    }
}

/// t differs from s only at limb j
proof fn lemma_val_update(s: Seq<Limb>, t: Seq<Limb>, j: nat, n: nat)
    requires j < n, forall|k: int| 0 <= k < n && k != j ==> s[k] == t[k]
    ensures val(t, n) - val(s, n) == (t[j as int].0 as int - s[j as int].0 as int) * bp(j)
    decreases n
{
    if n == j + 1 {
        lemma_val_ext(s, t, j);
        let a = s[j as int].0 as int; let b = t[j as int].0 as int; let p = bp(j);
        assert((b - a) * p == b * p - a * p) by (nonlinear_arith);
    } else {
        lemma_val_update(s, t, j, (n - 1) as nat);
        assert(s[n - 1] == t[n - 1]);
    }
}

/// clearing / setting bit r of a word, at the integer level
proof fn lemma_word_set_bit(x: u64, r: u32)
    requires r < 64
    ensures (1u64 << r) as int == p2(r as nat),
        (x & !(1u64 << r)) as int == x as int - (if (x as int / p2(r as nat)) % 2 == 1 { p2(r as nat) } else { 0 }),
        (x | (1u64 << r)) as int == x as int + (if (x as int / p2(r as nat)) % 2 == 1 { 0 } else { p2(r as nat) }),
        (x & (1u64 << r)) >> r == (if (x as int / p2(r as nat)) % 2 == 1 { 1u64 } else { 0u64 }),
{
    let m = 1u64 << r; let y = x >> r;
    lemma_one_shl(r as u64);
    assert(1u64 << r == 1u64 << (r as u64)) by (bit_vector) requires r < 64;
    lemma_u64_shr_div(x, r);
    assert(y % 2 == 1 ==> (x & !m) == x - m && (x | m) == x && (x & m) >> r == 1) by (bit_vector) requires y == x >> r, m == 1u64 << r, r < 64;
    assert(y % 2 != 1 ==> (x & !m) == x && (x | m) == x + m && (x & m) >> r == 0) by (bit_vector) requires y == x >> r, m == 1u64 << r, r < 64;
}

/// value-level effect of replacing limb j (bit r cleared, then set to c)
proof fn lemma_set_bit_value(s: Seq<Limb>, t: Seq<Limb>, n: nat, j: nat, r: nat, c: int)
    requires j < n, r < 64, c == 0 || c == 1, forall|k: int| 0 <= k < n && k != j ==> s[k] == t[k],
        t[j as int].0 as int == s[j as int].0 as int
            - (if (s[j as int].0 as int / p2(r)) % 2 == 1 { p2(r) } else { 0 }) + (if c == 1 { p2(r) } else { 0 })
    ensures val(t, n) == val(s, n) - ((val(s, n) / p2(64 * j + r)) % 2) * p2(64 * j + r) + c * p2(64 * j + r)
{
    let a = s[j as int].0 as int; let b = t[j as int].0 as int; let pr = p2(r); let p = bp(j); let pi = p2(64 * j + r);
    let bit = (a / pr) % 2;
    lemma_val_update(s, t, j, n);
    lemma_val_bit(s, n, j, r);
    lemma_bp_pow2(j); lemma_pow2_adds(64 * j, r);
    assert(pi == p * pr);
    assert(bit == 0 || bit == 1);
    assert(b - a == (c - bit) * pr) by (nonlinear_arith)
        requires bit == 0 || bit == 1, c == 0 || c == 1, b - a == (if c == 1 { pr } else { 0 }) - (if bit == 1 { pr } else { 0 });
    assert((b - a) * p == c * pi - bit * pi) by (nonlinear_arith) requires b - a == (c - bit) * pr, pi == p * pr;
}

//@@ fn src/uint/bits.rs | - | bit | body | props C05 C11
pub const fn bit(limbs: &[Limb], index: u32) -> (ret__: ConstChoice)
//@+
    requires limbs@.len() < 0x400_0000
    ensures ret__.wf(), ret__.t() == ((index as int) < 64 * limbs@.len() && (val(limbs@, limbs@.len()) / p2(index as nat)) % 2 == 1)
//@-
{
    let limb_num = index / Limb::BITS;
    let index_in_limb = index % Limb::BITS;
    let index_mask = 1 << index_in_limb;
    let mut result = 0;
    let mut i = 0;
    while i < limbs.len()
//@+
    invariant i <= limbs@.len(), limbs@.len() < 0x400_0000,
        result == (if (limb_num as int) < i { limbs@[limb_num as int].0 & index_mask } else { 0u64 }),
    decreases limbs@.len() - i,
//@-
{
//@+
    let ghost r0 = result; let ghost y = limbs@[i as int].0 & index_mask;
    assert((r0 | 0u64) == r0 && (0u64 | y) == y) by (bit_vector);
//@-
        let bit = limbs[i].0 & index_mask;
        let is_right_limb = ConstChoice::from_u32_eq(i as u32, limb_num);
        result |= is_right_limb.if_true_word(bit);
        i += 1;
    }
//@+
    proof {
        if (limb_num as int) < limbs@.len() {
            lemma_word_set_bit(limbs@[limb_num as int].0, index_in_limb);
            lemma_val_bit(limbs@, limbs@.len(), limb_num as nat, index_in_limb as nat);
            assert(index as nat == 64 * (limb_num as nat) + index_in_limb as nat);
        } else {
            assert(0u64 >> index_in_limb == 0u64) by (bit_vector);
        }
    }
//@-
    ConstChoice::from_word_lsb(result >> index_in_limb)
}
//@@ end
//@@ fn src/uint/bits.rs | - | bit_vartime | body | props C05 C11 C15
pub const fn bit_vartime(limbs: &[Limb], index: u32) -> (ret__: bool)
//@+
    ensures ret__ == ((index as int) < 64 * limbs@.len() && (val(limbs@, limbs@.len()) / p2(index as nat)) % 2 == 1)
//@-
{
    let limb_num = (index / Limb::BITS) as usize;
    let index_in_limb = (index % Limb::BITS) as usize;
//@+
    proof {
        if limb_num < limbs@.len() {
            let x = limbs@[limb_num as int].0; let r = (index % 64) as u32;
            lemma_u64_shr_div(x, r);
            assert(x >> index_in_limb == x >> r) by (bit_vector) requires index_in_limb == r, r < 64;
            let y = x >> r;
            assert((y & 1 == 1) == (y % 2 == 1)) by (bit_vector);
            lemma_val_bit(limbs@, limbs@.len(), limb_num as nat, r as nat);
            assert(index as nat == 64 * (limb_num as nat) + r as nat);
        }
    }
//@-
    if limb_num >= limbs.len() {
        false
    } else {
        (limbs[limb_num].0 >> index_in_limb) & 1 == 1
    }
}
//@@ end
//@@ fn src/uint/bits.rs | - | leading_zeros | body | props C05 C11
pub const fn leading_zeros(limbs: &[Limb]) -> (ret__: u32)
//@+
    requires limbs@.len() < 0x400_0000
    ensures ret__ as int <= 64 * limbs@.len(), (ret__ as int == 64 * limbs@.len()) == (val(limbs@, limbs@.len()) == 0),
        val(limbs@, limbs@.len()) < p2((64 * limbs@.len() - ret__) as nat),
        (ret__ as int) < 64 * limbs@.len() ==> val(limbs@, limbs@.len()) >= p2((64 * limbs@.len() - ret__ - 1) as nat)
//@-
{
//@+
    let ghost n = limbs@.len(); let ghost v = val(limbs@, limbs@.len());
//@-
    let mut count = 0;
    let mut i = limbs.len();
    let mut nonzero_limb_not_encountered = ConstChoice::TRUE;
    while i > 0
//@+
    invariant i <= n, n == limbs@.len(), n < 0x400_0000, v == val(limbs@, n), nonzero_limb_not_encountered.wf(),
        nonzero_limb_not_encountered.t() == (forall|k: int| i <= k < n ==> limbs@[k].0 == 0),
        nonzero_limb_not_encountered.t() ==> count as int == 64 * (n - i),
        !nonzero_limb_not_encountered.t() ==> (count as int) < 64 * (n - i) && v < p2((64 * n - count) as nat) && v >= p2((64 * n - count - 1) as nat),
    decreases i,
//@-
{
        i -= 1;
        let l = limbs[i];
        let z = l.leading_zeros();
//@+
    proof {
        if nonzero_limb_not_encountered.t() && l.0 != 0 {
            lemma_val_top(limbs@, n, i as nat, (64 - z) as nat);
            assert((64 * n - (count + z)) as nat == 64 * (i as nat) + (64 - z) as nat);
            assert((64 * n - (count + z) - 1) as nat == (64 * (i as nat) + (64 - z) as nat - 1) as nat);
        }
    }
//@-
        count += nonzero_limb_not_encountered.if_true_u32(z);
        nonzero_limb_not_encountered =
            nonzero_limb_not_encountered.and(ConstChoice::from_word_nonzero(l.0).not());
    }
//@+
    proof {
        if nonzero_limb_not_encountered.t() { lemma_val_zero(limbs@, n); lemma2_to64(); }
        else { lemma_pow2_pos((64 * n - count - 1) as nat); }
    }
//@-
    count
}
//@@ end
//@@ fn src/uint/bits.rs | - | bits_vartime | body | props C05 C11 C15
pub const fn bits_vartime(limbs: &[Limb]) -> (ret__: u32)
//@+
    requires 1 <= limbs@.len() < 0x400_0000
    ensures ret__ as int <= 64 * limbs@.len(), (ret__ == 0) == (val(limbs@, limbs@.len()) == 0),
        val(limbs@, limbs@.len()) < p2(ret__ as nat), ret__ > 0 ==> val(limbs@, limbs@.len()) >= p2((ret__ - 1) as nat)
//@-
{
    let mut i = limbs.len() - 1;
    while i > 0 && limbs[i].0 == 0
//@+
    invariant i < limbs@.len(), forall|k: int| i < k < limbs@.len() ==> limbs@[k].0 == 0,
    decreases i,
//@-
{
        i -= 1;
    }
    let limb = limbs[i];
//@+
    let ghost n = limbs@.len(); let ghost v = val(limbs@, limbs@.len()); let ghost x = limb.0 as int;
    assert forall|z: u32| z <= 64 && ((z == 64) == (x == 0)) && x < #[trigger] p2((64 - z) as nat) && (z < 64 ==> x >= p2((63 - z) as nat))
        implies ({ let r = 64 * (i + 1) - z; 0 <= r <= 64 * n && (r == 0) == (v == 0) && v < p2(r as nat) && (r > 0 ==> v >= p2((r - 1) as nat)) })
    by {
        if x == 0 { lemma_val_zero(limbs@, n); lemma2_to64(); }
        else {
            let b = (64 - z) as nat;
            lemma_val_top(limbs@, n, i as nat, b);
            lemma_pow2_pos((64 * i + b - 1) as nat);
            assert((64 * (i + 1) - z) as nat == 64 * (i as nat) + b);
        }
    }
//@-
    Limb::BITS * (i as u32 + 1) - limb.leading_zeros()
}
//@@ end
//@@ fn src/uint/bits.rs | - | trailing_zeros | body | props C05 C11
pub const fn trailing_zeros(limbs: &[Limb]) -> (ret__: u32)
//@+
    requires limbs@.len() < 0x400_0000
    ensures ret__ as int <= 64 * limbs@.len(), (ret__ as int == 64 * limbs@.len()) == (val(limbs@, limbs@.len()) == 0),
        val(limbs@, limbs@.len()) % p2(ret__ as nat) == 0, (ret__ as int) < 64 * limbs@.len() ==> (val(limbs@, limbs@.len()) / p2(ret__ as nat)) % 2 == 1
//@-
{
//@+
    let ghost n = limbs@.len(); let ghost v = val(limbs@, limbs@.len());
//@-
    let mut count = 0;
    let mut i = 0;
    let mut nonzero_limb_not_encountered = ConstChoice::TRUE;
    while i < limbs.len()
//@+
    invariant i <= n, n == limbs@.len(), n < 0x400_0000, v == val(limbs@, n), nonzero_limb_not_encountered.wf(),
        nonzero_limb_not_encountered.t() == (forall|k: int| 0 <= k < i ==> limbs@[k].0 == 0),
        nonzero_limb_not_encountered.t() ==> count as int == 64 * i,
        !nonzero_limb_not_encountered.t() ==> (count as int) < 64 * i && v != 0 && v % p2(count as nat) == 0 && (v / p2(count as nat)) % 2 == 1,
    decreases n - i,
//@-
{
        let l = limbs[i];
        let z = l.trailing_zeros();
//@+
    proof {
        if nonzero_limb_not_encountered.t() && l.0 != 0 {
            lemma_val_tz(limbs@, n, i as nat, z as nat);
            assert((count + z) as nat == 64 * (i as nat) + z as nat);
        }
    }
//@-
        count += nonzero_limb_not_encountered.if_true_u32(z);
        nonzero_limb_not_encountered =
            nonzero_limb_not_encountered.and(ConstChoice::from_word_nonzero(l.0).not());
        i += 1;
    }
//@+
    proof {
        if nonzero_limb_not_encountered.t() { lemma_val_zero(limbs@, n); lemma_pow2_pos(64 * n); lemma_small_mod(0, pow2(64 * n)); }
    }
//@-
    count
}
//@@ end
//@@ fn src/uint/bits.rs | - | trailing_zeros_vartime | body | props C05 C11 C15
pub const fn trailing_zeros_vartime(limbs: &[Limb]) -> (ret__: u32)
//@+
    requires limbs@.len() < 0x400_0000
    ensures ret__ as int <= 64 * limbs@.len(), (ret__ as int == 64 * limbs@.len()) == (val(limbs@, limbs@.len()) == 0),
        val(limbs@, limbs@.len()) % p2(ret__ as nat) == 0, (ret__ as int) < 64 * limbs@.len() ==> (val(limbs@, limbs@.len()) / p2(ret__ as nat)) % 2 == 1
//@-
{
//@+
    let ghost n = limbs@.len(); let ghost v = val(limbs@, limbs@.len());
    proof { if n == 0 { lemma_val_zero(limbs@, n); lemma_pow2_pos(64 * n); lemma_small_mod(0, pow2(64 * n)); } }
//@-
    let mut count = 0;
    let mut i = 0;
    while i < limbs.len()
//@+
    invariant_except_break i <= n, count as int == 64 * i, forall|k: int| 0 <= k < i ==> limbs@[k].0 == 0,
        i == n ==> v == 0 && v % p2(64 * n) == 0,
    invariant n == limbs@.len(), n < 0x400_0000, v == val(limbs@, n),
    ensures count as int <= 64 * n, (count as int == 64 * n) == (v == 0), v % p2(count as nat) == 0,
        (count as int) < 64 * n ==> (v / p2(count as nat)) % 2 == 1,
    decreases n - i,
//@-
{
        let l = limbs[i];
        let z = l.trailing_zeros();
        count += z;
//@+
    proof {
        if z != 64 {
            lemma_val_tz(limbs@, n, i as nat, z as nat);
            assert(count as nat == 64 * (i as nat) + z as nat);
        } else if i + 1 == n { lemma_val_zero(limbs@, n); lemma_pow2_pos(64 * n); lemma_small_mod(0, pow2(64 * n)); }
    }
//@-
        if z != Limb::BITS {
            break;
        }
        i += 1;
    }
    count
}
//@@ end
//@@ fn src/uint/bits.rs | - | trailing_ones | body | props C05 C11
pub const fn trailing_ones(limbs: &[Limb]) -> (ret__: u32)
//@+
    requires limbs@.len() < 0x400_0000
    ensures ret__ as int <= 64 * limbs@.len(), (ret__ as int == 64 * limbs@.len()) == (val(limbs@, limbs@.len()) == bp(limbs@.len()) - 1),
        (val(limbs@, limbs@.len()) + 1) % p2(ret__ as nat) == 0, (ret__ as int) < 64 * limbs@.len() ==> (val(limbs@, limbs@.len()) / p2(ret__ as nat)) % 2 == 0
//@-
{
//@+
    let ghost n = limbs@.len(); let ghost v = val(limbs@, limbs@.len());
//@-
    let mut count = 0;
    let mut i = 0;
    let mut nonmax_limb_not_encountered = ConstChoice::TRUE;
    while i < limbs.len()
//@+
    invariant i <= n, n == limbs@.len(), n < 0x400_0000, v == val(limbs@, n), nonmax_limb_not_encountered.wf(),
        nonmax_limb_not_encountered.t() == (forall|k: int| 0 <= k < i ==> limbs@[k].0 == u64::MAX),
        nonmax_limb_not_encountered.t() ==> count as int == 64 * i,
        !nonmax_limb_not_encountered.t() ==> (count as int) < 64 * i && v != bp(n) - 1 && (v + 1) % p2(count as nat) == 0 && (v / p2(count as nat)) % 2 == 0,
    decreases n - i,
//@-
{
        let l = limbs[i];
        let z = l.trailing_ones();
//@+
    proof {
        if nonmax_limb_not_encountered.t() && l.0 != u64::MAX {
            lemma_val_to(limbs@, n, i as nat, z as nat);
            assert((count + z) as nat == 64 * (i as nat) + z as nat);
        }
    }
//@-
        count += nonmax_limb_not_encountered.if_true_u32(z);
        nonmax_limb_not_encountered =
            nonmax_limb_not_encountered.and(ConstChoice::from_word_eq(l.0, Limb::MAX.0));
        i += 1;
    }
//@+
    proof {
        if nonmax_limb_not_encountered.t() { lemma_val_all_max(limbs@, n); lemma_bp_pow2(n); lemma_pow2_pos(64 * n); lemma_mod_self_0(p2(64 * n)); }
    }
//@-
    count
}
//@@ end
//@@ fn src/uint/bits.rs | - | trailing_ones_vartime | body | props C05 C11 C15
pub const fn trailing_ones_vartime(limbs: &[Limb]) -> (ret__: u32)
//@+
    requires limbs@.len() < 0x400_0000
    ensures ret__ as int <= 64 * limbs@.len(), (ret__ as int == 64 * limbs@.len()) == (val(limbs@, limbs@.len()) == bp(limbs@.len()) - 1),
        (val(limbs@, limbs@.len()) + 1) % p2(ret__ as nat) == 0, (ret__ as int) < 64 * limbs@.len() ==> (val(limbs@, limbs@.len()) / p2(ret__ as nat)) % 2 == 0
//@-
{
//@+
    let ghost n = limbs@.len(); let ghost v = val(limbs@, limbs@.len());
    proof { if n == 0 { lemma_val_all_max(limbs@, n); lemma_bp_pow2(n); lemma_pow2_pos(64 * n); lemma_mod_self_0(p2(64 * n)); } }
//@-
    let mut count = 0;
    let mut i = 0;
    while i < limbs.len()
//@+
    invariant_except_break i <= n, count as int == 64 * i, forall|k: int| 0 <= k < i ==> limbs@[k].0 == u64::MAX,
        i == n ==> v == bp(n) - 1 && (v + 1) % p2(64 * n) == 0,
    invariant n == limbs@.len(), n < 0x400_0000, v == val(limbs@, n),
    ensures count as int <= 64 * n, (count as int == 64 * n) == (v == bp(n) - 1), (v + 1) % p2(count as nat) == 0,
        (count as int) < 64 * n ==> (v / p2(count as nat)) % 2 == 0,
    decreases n - i,
//@-
{
        let l = limbs[i];
        let z = l.trailing_ones();
        count += z;
//@+
    proof {
        if z != 64 {
            lemma_val_to(limbs@, n, i as nat, z as nat);
            assert(count as nat == 64 * (i as nat) + z as nat);
        } else if i + 1 == n { lemma_val_all_max(limbs@, n); lemma_bp_pow2(n); lemma_pow2_pos(64 * n); lemma_mod_self_0(p2(64 * n)); }
    }
//@-
        if z != Limb::BITS {
            break;
        }
        i += 1;
    }
    count
}
//@@ end
//@@ fn src/uint/bits.rs | impl<const LIMBS: usize> Uint<LIMBS> | bit | body | props C05 C11
impl<const LIMBS: usize> Uint<LIMBS> {
pub const fn bit(&self, index: u32) -> (ret__: ConstChoice)
//@+
    requires 1 <= LIMBS < 0x400_0000
    ensures ret__.wf(), ret__.t() == ((index as int) < 64 * LIMBS && (self.v() / p2(index as nat)) % 2 == 1)
//@-
{
        bit(&self.limbs, index)
    }
}
//@@ end
//@@ fn src/uint/bits.rs | impl<const LIMBS: usize> Uint<LIMBS> | bit_vartime | body | props C05 C11 C15
impl<const LIMBS: usize> Uint<LIMBS> {
pub const fn bit_vartime(&self, index: u32) -> (ret__: bool)
//@+
    requires 1 <= LIMBS < 0x400_0000
    ensures ret__ == ((index as int) < 64 * LIMBS && (self.v() / p2(index as nat)) % 2 == 1)
//@-
{
        bit_vartime(&self.limbs, index)
    }
}
//@@ end
//@@ fn src/uint/bits.rs | impl<const LIMBS: usize> Uint<LIMBS> | leading_zeros | body | props C05 C11
impl<const LIMBS: usize> Uint<LIMBS> {
pub const fn leading_zeros(&self) -> (ret__: u32)
//@+
    requires 1 <= LIMBS < 0x400_0000
    ensures ret__ as int <= 64 * LIMBS, (ret__ as int == 64 * LIMBS) == (self.v() == 0), self.v() < p2((64 * LIMBS - ret__) as nat), (ret__ as int) < 64 * LIMBS ==> self.v() >= p2((64 * LIMBS - ret__ - 1) as nat)
//@-
{
        leading_zeros(&self.limbs)
    }
}
//@@ end
//@@ fn src/uint/bits.rs | impl<const LIMBS: usize> Uint<LIMBS> | bits_vartime | body | props C05 C11 C15
impl<const LIMBS: usize> Uint<LIMBS> {
pub const fn bits_vartime(&self) -> (ret__: u32)
//@+
    requires 1 <= LIMBS < 0x400_0000
    ensures ret__ as int <= 64 * LIMBS, (ret__ == 0) == (self.v() == 0), self.v() < p2(ret__ as nat), ret__ > 0 ==> self.v() >= p2((ret__ - 1) as nat)
//@-
{
        bits_vartime(&self.limbs)
    }
}
//@@ end
//@@ fn src/uint/bits.rs | impl<const LIMBS: usize> Uint<LIMBS> | bits | body | props C05 C11
impl<const LIMBS: usize> Uint<LIMBS> {
pub const fn bits(&self) -> (ret__: u32)
//@+
    requires 1 <= LIMBS < 0x400_0000
    ensures ret__ as int <= 64 * LIMBS, (ret__ == 0) == (self.v() == 0), self.v() < p2(ret__ as nat), ret__ > 0 ==> self.v() >= p2((ret__ - 1) as nat)
//@-
{
        Self::BITS() - self.leading_zeros()
    }
}
//@@ end
//@@ fn src/uint/bits.rs | impl<const LIMBS: usize> Uint<LIMBS> | leading_zeros_vartime | body | props C05 C11 C15
impl<const LIMBS: usize> Uint<LIMBS> {
pub const fn leading_zeros_vartime(&self) -> (ret__: u32)
//@+
    requires 1 <= LIMBS < 0x400_0000
    ensures ret__ as int <= 64 * LIMBS, (ret__ as int == 64 * LIMBS) == (self.v() == 0), self.v() < p2((64 * LIMBS - ret__) as nat), (ret__ as int) < 64 * LIMBS ==> self.v() >= p2((64 * LIMBS - ret__ - 1) as nat)
//@-
{
        Self::BITS() - self.bits_vartime()
    }
}
//@@ end
//@@ fn src/uint/bits.rs | impl<const LIMBS: usize> Uint<LIMBS> | trailing_zeros | body | props C05 C11
impl<const LIMBS: usize> Uint<LIMBS> {
pub const fn trailing_zeros(&self) -> (ret__: u32)
//@+
    requires 1 <= LIMBS < 0x400_0000
    ensures ret__ as int <= 64 * LIMBS, (ret__ as int == 64 * LIMBS) == (self.v() == 0), self.v() % p2(ret__ as nat) == 0, (ret__ as int) < 64 * LIMBS ==> (self.v() / p2(ret__ as nat)) % 2 == 1
//@-
{
        trailing_zeros(&self.limbs)
    }
}
//@@ end
//@@ fn src/uint/bits.rs | impl<const LIMBS: usize> Uint<LIMBS> | trailing_zeros_vartime | body | props C05 C11 C15
impl<const LIMBS: usize> Uint<LIMBS> {
pub const fn trailing_zeros_vartime(&self) -> (ret__: u32)
//@+
    requires 1 <= LIMBS < 0x400_0000
    ensures ret__ as int <= 64 * LIMBS, (ret__ as int == 64 * LIMBS) == (self.v() == 0), self.v() % p2(ret__ as nat) == 0, (ret__ as int) < 64 * LIMBS ==> (self.v() / p2(ret__ as nat)) % 2 == 1
//@-
{
        trailing_zeros_vartime(&self.limbs)
    }
}
//@@ end
//@@ fn src/uint/bits.rs | impl<const LIMBS: usize> Uint<LIMBS> | trailing_ones | body | props C05 C11
impl<const LIMBS: usize> Uint<LIMBS> {
pub const fn trailing_ones(&self) -> (ret__: u32)
//@+
    requires 1 <= LIMBS < 0x400_0000
    ensures ret__ as int <= 64 * LIMBS, (ret__ as int == 64 * LIMBS) == (self.v() == bp(LIMBS as nat) - 1), (self.v() + 1) % p2(ret__ as nat) == 0, (ret__ as int) < 64 * LIMBS ==> (self.v() / p2(ret__ as nat)) % 2 == 0
//@-
{
        trailing_ones(&self.limbs)
    }
}
//@@ end
//@@ fn src/uint/bits.rs | impl<const LIMBS: usize> Uint<LIMBS> | trailing_ones_vartime | body | props C05 C11 C15
impl<const LIMBS: usize> Uint<LIMBS> {
pub const fn trailing_ones_vartime(&self) -> (ret__: u32)
//@+
    requires 1 <= LIMBS < 0x400_0000
    ensures ret__ as int <= 64 * LIMBS, (ret__ as int == 64 * LIMBS) == (self.v() == bp(LIMBS as nat) - 1), (self.v() + 1) % p2(ret__ as nat) == 0, (ret__ as int) < 64 * LIMBS ==> (self.v() / p2(ret__ as nat)) % 2 == 0
//@-
{
        trailing_ones_vartime(&self.limbs)
    }
}
//@@ end
//@@ fn src/uint/bits.rs | impl<const LIMBS: usize> Uint<LIMBS> | set_bit | body | props C05 C11
impl<const LIMBS: usize> Uint<LIMBS> {
pub const fn set_bit(self, index: u32, bit_value: ConstChoice) -> (ret__: Self)
//@+
    requires 1 <= LIMBS < 0x400_0000, bit_value.wf()
    ensures (index as int) < 64 * LIMBS ==> ret__.v() == self.v() - ((self.v() / p2(index as nat)) % 2) * p2(index as nat) + (if bit_value.t() { 1int } else { 0int }) * p2(index as nat),
        (index as int) >= 64 * LIMBS ==> ret__.v() == self.v()
//@-
{
        let mut result = self;
        let limb_num = index / Limb::BITS;
        let index_in_limb = index % Limb::BITS;
        let index_mask = 1 << index_in_limb;
//@+
    let ghost c: int = if bit_value.t() { 1 } else { 0 };
    let ghost pr = p2(index_in_limb as nat);
//@-
        let mut i = 0;
        while i < LIMBS
//@+
    invariant i <= LIMBS, LIMBS < 0x400_0000, bit_value.wf(), index_in_limb < 64, index_mask == 1u64 << index_in_limb,
        c == (if bit_value.t() { 1int } else { 0int }), pr == p2(index_in_limb as nat),
        forall|k: int| 0 <= k < LIMBS && (k != limb_num || k >= i) ==> result.limbs@[k] == self.limbs@[k],
        (limb_num as int) < i ==> result.limbs@[limb_num as int].0 as int == self.limbs@[limb_num as int].0 as int
            - (if (self.limbs@[limb_num as int].0 as int / pr) % 2 == 1 { pr } else { 0 }) + (if c == 1 { pr } else { 0 }),
    decreases LIMBS - i,
//@-
{
//@+
    proof { lemma_word_set_bit(result.limbs@[i as int].0, index_in_limb); }
//@-
            let is_right_limb = ConstChoice::from_u32_eq(i as u32, limb_num);
            let old_limb = result.limbs[i].0;
            let new_limb = bit_value.select_word(old_limb & !index_mask, old_limb | index_mask);
            result.limbs[i] = Limb(is_right_limb.select_word(old_limb, new_limb));
            i += 1;
        }
//@+
    proof {
        if (index as int) < 64 * LIMBS {
            lemma_set_bit_value(self.limbs@, result.limbs@, LIMBS as nat, limb_num as nat, index_in_limb as nat, c);
            assert(index as nat == 64 * (limb_num as nat) + index_in_limb as nat);
        } else {
            lemma_val_ext(self.limbs@, result.limbs@, LIMBS as nat);
        }
    }
//@-
        result
    }
}
//@@ end
//@@ fn src/uint/bits.rs | impl<const LIMBS: usize> Uint<LIMBS> | set_bit_vartime | body | props C05 C11 C15
impl<const LIMBS: usize> Uint<LIMBS> {
pub const fn set_bit_vartime(self, index: u32, bit_value: bool) -> (ret__: Self)
//@+
    requires 1 <= LIMBS < 0x400_0000, (index as int) < 64 * LIMBS
    ensures ret__.v() == self.v() - ((self.v() / p2(index as nat)) % 2) * p2(index as nat) + (if bit_value { 1int } else { 0int }) * p2(index as nat)
//@-
{
        let mut result = self;
        let limb_num = (index / Limb::BITS) as usize;
        let index_in_limb = index % Limb::BITS;
//@+
    proof { lemma_word_set_bit(self.limbs@[limb_num as int].0, index_in_limb); }
//@-
        if bit_value {
            result.limbs[limb_num].0 |= 1 << index_in_limb;
        } else {
            {
                result.limbs[limb_num].0 &= !((1 as Word) << index_in_limb);
            }
        }
//@+
    proof {
        lemma_set_bit_value(self.limbs@, result.limbs@, LIMBS as nat, limb_num as nat, index_in_limb as nat, if bit_value { 1 } else { 0 });
        assert(index as nat == 64 * (limb_num as nat) + index_in_limb as nat);
    }
//@-
        result
    }
}
//@@ end

// ---------------------------------------------------------------- shifts (src/uint/shl.rs, shr.rs)
//@@ fn src/uint/shl.rs | impl<const LIMBS: usize> Uint<LIMBS> | shl | body | props C05 C11
impl<const LIMBS: usize> Uint<LIMBS> {
pub const fn shl(&self, shift: u32) -> (ret__: Self)
//@+
    requires 1 <= LIMBS < 0x400_0000, (shift as int) < 64 * LIMBS
    ensures ret__.v() == (self.v() * p2(shift as nat)) % bp(LIMBS as nat)
//@-
{
        self.overflowing_shl(shift)
            .expect("`shift` within the bit size of the integer")
    }
}
//@@ end
//@@ fn src/uint/shl.rs | impl<const LIMBS: usize> Uint<LIMBS> | shl_vartime | body | props C05 C11 C15
impl<const LIMBS: usize> Uint<LIMBS> {
pub const fn shl_vartime(&self, shift: u32) -> (ret__: Self)
//@+
    requires 1 <= LIMBS < 0x400_0000, (shift as int) < 64 * LIMBS
    ensures ret__.v() == (self.v() * p2(shift as nat)) % bp(LIMBS as nat)
//@-
{
        self.overflowing_shl_vartime(shift)
            .expect("`shift` within the bit size of the integer")
    }
}
//@@ end
//@@ fn src/uint/shl.rs | impl<const LIMBS: usize> Uint<LIMBS> | overflowing_shl | body | props C05 C11
impl<const LIMBS: usize> Uint<LIMBS> {
pub const fn overflowing_shl(&self, shift: u32) -> (ret__: ConstCtOption<Self>)
//@+
    requires 1 <= LIMBS < 0x400_0000
    ensures ret__.is_some.wf(), ret__.is_some.t() == ((shift as int) < 64 * LIMBS), ret__.is_some.t() ==> ret__.value.v() == (self.v() * p2(shift as nat)) % bp(LIMBS as nat), !ret__.is_some.t() ==> ret__.value.v() == 0
//@-
{
//@+
    proof { lemma_lz32((64 * LIMBS - 1) as u32); }
//@-
        // `floor(log2(BITS - 1))` is the number of bits in the representation of `shift`
        // (which lies in range `0 <= shift < BITS`).
        let shift_bits = u32::BITS - (Self::BITS() - 1).leading_zeros();
        let overflow = ConstChoice::from_u32_lt(shift, Self::BITS()).not();
//@+
    let ghost shift0 = shift;
//@-
        let shift = shift % Self::BITS();
        let mut result = *self;
        let mut i = 0;
//@+
    proof {
        lemma_pow2_64(); lemma_bp_succ(LIMBS as nat); lemma_val_bound(self.limbs@, LIMBS as nat);
        assert((shift as int) % 1 == 0);
        lemma_small_mod(self.v() as nat, bp(LIMBS as nat) as nat); assert(self.v() * 1 == self.v());
        if (shift0 as int) < 64 * LIMBS { lemma_small_mod(shift0 as nat, (64 * LIMBS) as nat); }
        lemma_mod_bound(shift0 as int, 64 * LIMBS);
    }
//@-
        while i < shift_bits
//@+
    invariant i <= shift_bits, 1 <= shift_bits <= 32, 1 <= LIMBS < 0x400_0000, (shift as int) < 64 * LIMBS,
        p2((shift_bits - 1) as nat) <= 64 * LIMBS - 1,
        result.v() == (self.v() * p2(((shift as int) % p2(i as nat)) as nat)) % bp(LIMBS as nat),
    decreases shift_bits - i,
//@-
{
//@+
    let ghost r0 = result;
    let ghost lo = (shift as int) % p2(i as nat);
    proof {
        lemma_ladder_step(shift, i);
        if i < shift_bits - 1 { lemma_pow2_strictly_increases(i as nat, (shift_bits - 1) as nat); }
        lemma_pow2_pos(i as nat); lemma_mod_bound(shift as int, p2(i as nat));
        lemma_bp_succ(LIMBS as nat); lemma_val_bound(self.limbs@, LIMBS as nat);
        lemma_shl_compose(self.v(), lo as nat, p2(i as nat) as nat, bp(LIMBS as nat));
    }
//@-
            let bit = ConstChoice::from_u32_lsb((shift >> i) & 1);
            result = Uint::select(
                &result,
                &result
                    .overflowing_shl_vartime(1 << i)
                    .expect("shift within range"),
                bit,
            );
            i += 1;
        }
//@+
    proof {
        assert((shift as int) < p2(shift_bits as nat));
        lemma_small_mod(shift as nat, p2(shift_bits as nat) as nat);
    }
//@-
        ConstCtOption::new(Uint::select(&result, &Self::ZERO(), overflow), overflow.not())
    }
}
//@@ end
//@@ fn src/uint/shl.rs | impl<const LIMBS: usize> Uint<LIMBS> | overflowing_shl_vartime | body | props C05 C11 C15
impl<const LIMBS: usize> Uint<LIMBS> {
pub const fn overflowing_shl_vartime(&self, shift: u32) -> (ret__: ConstCtOption<Self>)
//@+
    requires 1 <= LIMBS < 0x400_0000
    ensures ret__.is_some.wf(), ret__.is_some.t() == ((shift as int) < 64 * LIMBS), ret__.is_some.t() ==> ret__.value.v() == (self.v() * p2(shift as nat)) % bp(LIMBS as nat), !ret__.is_some.t() ==> ret__.value.v() == 0
//@-
{
        let mut limbs = [Limb::ZERO; LIMBS];
        if shift >= Self::BITS() {
            return ConstCtOption::none(Self::ZERO());
        }
        let shift_num = (shift / Limb::BITS) as usize;
        let rem = shift % Limb::BITS;
        let mut i = shift_num;
        while i < LIMBS
//@+
    invariant shift_num <= i <= LIMBS, shift_num < LIMBS,
        forall|j: int| 0 <= j < shift_num ==> limbs@[j].0 == 0,
        forall|j: int| shift_num <= j < i ==> limbs@[j] == self.limbs@[j - shift_num],
        forall|j: int| i <= j < LIMBS ==> limbs@[j].0 == 0,
    decreases LIMBS - i,
//@-
{
            limbs[i] = self.limbs[i - shift_num];
            i += 1;
        }
//@+
    let ghost p1 = limbs@;
    let ghost sn = shift_num as nat; let ghost m = (LIMBS - shift_num) as nat;
    let ghost lowv = val(self.limbs@, m);       // the part of self that survives
    proof {
        lemma_shift_up(self.limbs@, p1, sn, m);
        assert((sn + m) as nat == LIMBS as nat);
        assert(val(p1, LIMBS as nat) == lowv * bp(sn));
        if rem == 0 {
            assert(shift as nat == 64 * sn) by {
                assert(shift_num as int == shift as int / 64 && rem as int == shift as int % 64);
                lemma_fundamental_div_mod(shift as int, 64);
            }
            lemma_shl_rem0(self.limbs@, p1, LIMBS as nat, sn, shift as nat);
        }
    }
//@-
        if rem == 0 {
            return ConstCtOption::some(Self { limbs });
        }
        let mut carry = Limb::ZERO;
        let mut i = shift_num;
//@+
    proof { lemma_bp_succ(sn); lemma_pow2_pos(rem as nat); assert(0 * p2(rem as nat) == 0); assert(0 * bp(sn) == 0); lemma_val_zero(p1, sn); }
//@-
        while i < LIMBS
//@+
    invariant shift_num <= i <= LIMBS, shift_num < LIMBS, 0 < rem < 64, sn == shift_num, p1.len() == LIMBS,
        forall|j: int| i <= j < LIMBS ==> limbs@[j] == p1[j],
        (carry.0 as int) < p2(rem as nat),
        val(limbs@, i as nat) + carry.0 as int * bp(i as nat) == val(p1, i as nat) * p2(rem as nat),
    decreases LIMBS - i,
//@-
{
//@+
    let ghost lb = limbs@; let ghost cb = carry;
//@-
            let shifted = limbs[i].shl(rem);
            let new_carry = limbs[i].shr(Limb::BITS - rem);
            limbs[i] = shifted.bitor(carry);
            carry = new_carry;
//@+
    proof {
        let l = p1[i as int].0; let ps = p2(rem as nat);
        lemma_limb_split(l, rem);
        lemma_val_ext(lb, limbs@, i as nat);
        lemma_bp_succ(i as nat);
        let sh = shifted.0; let c = cb.0;
        lemma_or_add(sh, c, rem);
        let pk = bp(i as nat); let nw = limbs@[i as int].0 as int; let nc = carry.0 as int;
        assert(nw == sh as int + c as int);
        assert(sh as int + nc * B() == l as int * ps);
        assert(nw * pk + nc * (B() * pk) == (l as int * ps) * pk + c as int * pk) by (nonlinear_arith) requires nw == sh as int + c as int, sh as int + nc * B() == l as int * ps;
        assert((val(p1, i as nat) + l as int * pk) * ps == val(p1, i as nat) * ps + (l as int * ps) * pk) by (nonlinear_arith);
    }
//@-
            i += 1;
        }
//@+
    proof {
        lemma_val_bound(limbs@, LIMBS as nat);
        assert(val(p1, LIMBS as nat) * p2(rem as nat) == lowv * bp(sn) * p2(rem as nat));
        lemma_shl_finish(self.limbs@, val(limbs@, LIMBS as nat), carry.0 as int, LIMBS as nat, sn, rem as nat, shift as nat);
    }
//@-
        ConstCtOption::some(Self { limbs })
    }
}
//@@ end
//@@ fn src/uint/shl.rs | impl<const LIMBS: usize> Uint<LIMBS> | wrapping_shl | body | props C05 C11
impl<const LIMBS: usize> Uint<LIMBS> {
pub const fn wrapping_shl(&self, shift: u32) -> (ret__: Self)
//@+
    requires 1 <= LIMBS < 0x400_0000
    ensures ret__.v() == (if (shift as int) < 64 * LIMBS { (self.v() * p2(shift as nat)) % bp(LIMBS as nat) } else { 0 })
//@-
{
        self.overflowing_shl(shift).unwrap_or(Self::ZERO())
    }
}
//@@ end
//@@ fn src/uint/shl.rs | impl<const LIMBS: usize> Uint<LIMBS> | wrapping_shl_vartime | body | props C05 C11 C15
impl<const LIMBS: usize> Uint<LIMBS> {
pub const fn wrapping_shl_vartime(&self, shift: u32) -> (ret__: Self)
//@+
    requires 1 <= LIMBS < 0x400_0000
    ensures ret__.v() == (if (shift as int) < 64 * LIMBS { (self.v() * p2(shift as nat)) % bp(LIMBS as nat) } else { 0 })
//@-
{
        self.overflowing_shl_vartime(shift).unwrap_or(Self::ZERO())
    }
}
//@@ end
//@@ fn src/uint/shl.rs | impl<const LIMBS: usize> Uint<LIMBS> | shl_limb | body | props C05 C02 C11
impl<const LIMBS: usize> Uint<LIMBS> {
pub const fn shl_limb(&self, shift: u32) -> (ret__: (Self, Limb))
//@+
    requires LIMBS >= 1, shift < 64
    ensures ret__.0.v() + ret__.1.0 as int * bp(LIMBS as nat) == self.v() * p2(shift as nat), (ret__.1.0 as int) < p2(shift as nat)
//@-
{
        let mut limbs = [Limb::ZERO; LIMBS];
        let nz = ConstChoice::from_u32_nonzero(shift);
        let lshift = shift;
        let rshift = nz.if_true_u32(Limb::BITS - shift);
        let carry = nz.if_true_word(self.limbs[LIMBS - 1].0.wrapping_shr(Word::BITS - shift));
        limbs[0] = Limb(self.limbs[0].0 << lshift);
//@+
    proof {
        let x0 = self.limbs@[0].0;
        lemma_shl_word(x0, shift); lemma_bp1();
        lemma_val_one(limbs@); lemma_val_one(self.limbs@);
        assert(limbs@[0].0 == x0 << shift);
    }
//@-
        let mut i = 1;
        while i < LIMBS
//@+
    invariant 1 <= i <= LIMBS, shift < 64, lshift == shift, nz.wf(), nz.t() == (shift != 0), rshift == (if shift != 0 { (64 - shift) as u32 } else { 0u32 }),
        val(limbs@, i as nat) + spill(self.limbs@[i - 1].0, shift) * bp(i as nat) == val(self.limbs@, i as nat) * p2(shift as nat),
    decreases LIMBS - i,
//@-
{
//@+
    let ghost lb = limbs@;
//@-
            let mut limb = self.limbs[i].0 << lshift;
            let hi = self.limbs[i - 1].0 >> rshift;
//@+
    let ghost limb0 = limb;
//@-
            limb |= nz.if_true_word(hi);
            limbs[i] = Limb(limb);
//@+
    proof {
        let x = self.limbs@[i as int].0; let y = self.limbs@[i - 1].0; let ps = p2(shift as nat);
        lemma_shl_word(x, shift); lemma_shl_word(y, shift);
        let msk: u64 = if shift != 0 { hi } else { 0 };
        assert(msk as int == spill(y, shift));
        lemma_or_add(limb0, msk, shift);
        lemma_val_ext(lb, limbs@, i as nat);
        lemma_bp_succ(i as nat);
        let pk = bp(i as nat); let nw = limb as int; let lo = limb0 as int; let sy = spill(y, shift); let sx = spill(x, shift);
        assert(nw == lo + sy);
        assert(nw * pk + sx * (B() * pk) == (x as int * ps) * pk + sy * pk) by (nonlinear_arith) requires nw == lo + sy, lo + sx * B() == x as int * ps;
        assert((val(self.limbs@, i as nat) + x as int * pk) * ps == val(self.limbs@, i as nat) * ps + (x as int * ps) * pk) by (nonlinear_arith);
    }
//@-
            i += 1
        }
//@+
    proof { lemma_shl_word(self.limbs@[LIMBS - 1].0, shift); }
//@-
        (Uint::<LIMBS>::new(limbs), Limb(carry))
    }
}
//@@ end
//@@ fn src/uint/shl.rs | impl<const LIMBS: usize> Uint<LIMBS> | overflowing_shl1 | body | props C05 C11
impl<const LIMBS: usize> Uint<LIMBS> {
pub const fn overflowing_shl1(&self) -> (ret__: (Self, Limb))
//@+
    requires LIMBS >= 1
    ensures ret__.0.v() + ret__.1.0 as int * bp(LIMBS as nat) == 2 * self.v(), ret__.1.0 <= 1
//@-
{
        let mut ret = Self::ZERO();
        let mut i = 0;
        let mut carry = Limb::ZERO;
//@+
    proof { lemma_bp1(); }
//@-
        while i < LIMBS
//@+
    invariant i <= LIMBS, carry.0 <= 1,
        val(ret.limbs@, i as nat) + carry.0 as int * bp(i as nat) == 2 * val(self.limbs@, i as nat),
    decreases LIMBS - i,
//@-
{
//@+
    let ghost rb = ret.limbs@; let ghost cb = carry;
//@-
            let (shifted, new_carry) = self.limbs[i].shl1();
            ret.limbs[i] = shifted.bitor(carry);
            carry = new_carry;
//@+
    proof {
        let sh = shifted.0; let c = cb.0; let l = self.limbs@[i as int].0 as int; let nc = carry.0 as int;
        assert(sh as int == 2 * l - nc * 0x1_0000_0000_0000_0000);
        assert(sh % 2 == 0);
        assert((sh | c) == sh + c) by (bit_vector) requires sh % 2 == 0, c <= 1;
        lemma_val_ext(rb, ret.limbs@, i as nat);
        lemma_bp_succ(i as nat);
        let pk = bp(i as nat); let nw = ret.limbs@[i as int].0 as int;
        assert(nw * pk + nc * (B() * pk) == 2 * (l * pk) + c as int * pk) by (nonlinear_arith) requires nw == sh as int + c as int, sh as int + nc * B() == 2 * l;
    }
//@-
            i += 1;
        }
        (ret, carry)
    }
}
//@@ end
//@@ fn src/uint/shr.rs | impl<const LIMBS: usize> Uint<LIMBS> | shr | body | props C05 C11
impl<const LIMBS: usize> Uint<LIMBS> {
pub const fn shr(&self, shift: u32) -> (ret__: Self)
//@+
    requires 1 <= LIMBS < 0x400_0000, (shift as int) < 64 * LIMBS
    ensures ret__.v() == self.v() / p2(shift as nat)
//@-
{
        self.overflowing_shr(shift)
            .expect("`shift` within the bit size of the integer")
    }
}
//@@ end
//@@ fn src/uint/shr.rs | impl<const LIMBS: usize> Uint<LIMBS> | shr_vartime | body | props C05 C11 C15
impl<const LIMBS: usize> Uint<LIMBS> {
pub const fn shr_vartime(&self, shift: u32) -> (ret__: Self)
//@+
    requires 1 <= LIMBS < 0x400_0000, (shift as int) < 64 * LIMBS
    ensures ret__.v() == self.v() / p2(shift as nat)
//@-
{
        self.overflowing_shr_vartime(shift)
            .expect("`shift` within the bit size of the integer")
    }
}
//@@ end
//@@ fn src/uint/shr.rs | impl<const LIMBS: usize> Uint<LIMBS> | overflowing_shr | body | props C05 C11
impl<const LIMBS: usize> Uint<LIMBS> {
pub const fn overflowing_shr(&self, shift: u32) -> (ret__: ConstCtOption<Self>)
//@+
    requires 1 <= LIMBS < 0x400_0000
    ensures ret__.is_some.wf(), ret__.is_some.t() == ((shift as int) < 64 * LIMBS), ret__.is_some.t() ==> ret__.value.v() == self.v() / p2(shift as nat), !ret__.is_some.t() ==> ret__.value.v() == 0
//@-
{
//@+
    proof { lemma_lz32((64 * LIMBS - 1) as u32); }
//@-
        // `floor(log2(BITS - 1))` is the number of bits in the representation of `shift`
        // (which lies in range `0 <= shift < BITS`).
        let shift_bits = u32::BITS - (Self::BITS() - 1).leading_zeros();
        let overflow = ConstChoice::from_u32_lt(shift, Self::BITS()).not();
//@+
    let ghost shift0 = shift;
//@-
        let shift = shift % Self::BITS();
        let mut result = *self;
        let mut i = 0;
//@+
    proof {
        lemma_pow2_64(); lemma_bp_succ(LIMBS as nat); lemma_val_bound(self.limbs@, LIMBS as nat);
        assert((shift as int) % 1 == 0);
        assert(self.v() / 1 == self.v());
        if (shift0 as int) < 64 * LIMBS { lemma_small_mod(shift0 as nat, (64 * LIMBS) as nat); }
        lemma_mod_bound(shift0 as int, 64 * LIMBS);
    }
//@-
        while i < shift_bits
//@+
    invariant i <= shift_bits, 1 <= shift_bits <= 32, 1 <= LIMBS < 0x400_0000, (shift as int) < 64 * LIMBS,
        p2((shift_bits - 1) as nat) <= 64 * LIMBS - 1,
        result.v() == self.v() / p2(((shift as int) % p2(i as nat)) as nat),
    decreases shift_bits - i,
//@-
{
//@+
    let ghost r0 = result;
    let ghost lo = (shift as int) % p2(i as nat);
    proof {
        lemma_ladder_step(shift, i);
        if i < shift_bits - 1 { lemma_pow2_strictly_increases(i as nat, (shift_bits - 1) as nat); }
        lemma_pow2_pos(i as nat); lemma_mod_bound(shift as int, p2(i as nat));
        lemma_bp_succ(LIMBS as nat); lemma_val_bound(self.limbs@, LIMBS as nat);
        lemma_shr_compose(self.v(), lo as nat, p2(i as nat) as nat);
    }
//@-
            let bit = ConstChoice::from_u32_lsb((shift >> i) & 1);
            result = Uint::select(
                &result,
                &result
                    .overflowing_shr_vartime(1 << i)
                    .expect("shift within range"),
                bit,
            );
            i += 1;
        }
//@+
    proof {
        assert((shift as int) < p2(shift_bits as nat));
        lemma_small_mod(shift as nat, p2(shift_bits as nat) as nat);
    }
//@-
        ConstCtOption::new(Uint::select(&result, &Self::ZERO(), overflow), overflow.not())
    }
}
//@@ end
//@@ fn src/uint/shr.rs | impl<const LIMBS: usize> Uint<LIMBS> | overflowing_shr_vartime | body | props C05 C11 C15
impl<const LIMBS: usize> Uint<LIMBS> {
pub const fn overflowing_shr_vartime(&self, shift: u32) -> (ret__: ConstCtOption<Self>)
//@+
    requires 1 <= LIMBS < 0x400_0000
    ensures ret__.is_some.wf(), ret__.is_some.t() == ((shift as int) < 64 * LIMBS), ret__.is_some.t() ==> ret__.value.v() == self.v() / p2(shift as nat), !ret__.is_some.t() ==> ret__.value.v() == 0
//@-
{
        let mut limbs = [Limb::ZERO; LIMBS];
        if shift >= Self::BITS() {
            return ConstCtOption::none(Self::ZERO());
        }
        let shift_num = (shift / Limb::BITS) as usize;
        let rem = shift % Limb::BITS;
        let mut i = 0;
        while i < LIMBS - shift_num
//@+
    invariant shift_num < LIMBS, i <= LIMBS - shift_num,
        forall|j: int| 0 <= j < i ==> limbs@[j] == self.limbs@[j + shift_num],
        forall|j: int| i <= j < LIMBS ==> limbs@[j].0 == 0,
    decreases LIMBS - shift_num - i,
//@-
{
            limbs[i] = self.limbs[i + shift_num];
            i += 1;
        }
//@+
    let ghost p1 = limbs@;
    let ghost sn = shift_num as nat; let ghost m = (LIMBS - shift_num) as nat;
    let ghost hiv = val(p1, m);       // the part of self that survives
    let ghost mut clo: int = 0;
    proof {
        lemma_shift_down(self.limbs@, p1, sn, m);
        assert((sn + m) as nat == LIMBS as nat);
        lemma_val_hi_zero(p1, m, LIMBS as nat);
        lemma_val_bound(self.limbs@, sn); lemma_val_bound(p1, m);
        lemma_shr_limbs_div(self.v(), val(self.limbs@, sn), hiv, sn, rem as nat, shift as nat);
        lemma_pow2_64();
        lemma_bp_succ(m);
        assert(0 * p2(rem as nat) == 0); assert(0 * bp(m) == 0); assert(0 * p2((64 - rem) as nat) == 0);
        lemma_pow2_pos(rem as nat);
    }
//@-
        if rem == 0 {
            return ConstCtOption::some(Self { limbs });
        }
        let mut carry = Limb::ZERO;
        while i > 0
//@+
    invariant i <= m, m == LIMBS - shift_num, shift_num < LIMBS, 0 < rem < 64, p1.len() == LIMBS,
        forall|j: int| 0 <= j < i ==> limbs@[j] == p1[j],
        forall|j: int| m <= j < LIMBS ==> limbs@[j].0 == 0,
        carry.0 as int == clo * p2((64 - rem) as nat), 0 <= clo < p2(rem as nat),
        tv(limbs@, i as nat, m) * p2(rem as nat) + clo * bp(i as nat) == tv(p1, i as nat, m),
    decreases i,
//@-
{
            i -= 1;
//@+
    let ghost lb = limbs@; let ghost cb = carry; let ghost clo0 = clo;
//@-
            let shifted = limbs[i].shr(rem);
            let new_carry = limbs[i].shl(Limb::BITS - rem);
            limbs[i] = shifted.bitor(carry);
            carry = new_carry;
//@+
    proof {
        let l = p1[i as int].0; let pr = p2(rem as nat); let s2 = (64 - rem) as u32; let ps = p2(s2 as nat);
        lemma_limb_split(l, s2);
        assert((64 - s2) as nat == rem as nat);
        let sh = shifted.0 as int; let nc = carry.0 as int; let c = cb.0 as int;
        clo = l as int % pr;
        lemma_fundamental_div_mod(l as int, pr); lemma_mod_bound(l as int, pr);
        assert(nc == clo * ps) by (nonlinear_arith) requires nc + sh * B() == l as int * ps, l as int == pr * sh + clo, ps * pr == B();
        lemma_mod_multiples_basic(clo0, ps);
        lemma_or_add(cb.0, shifted.0, s2);
        let nw = limbs@[i as int].0 as int; let pk = bp(i as nat);
        assert(nw == sh + c);
        lemma_bp_succ(i as nat);
        lemma_tv_ext(lb, limbs@, (i + 1) as nat, m);
        lemma_val_step(limbs@, i as nat); lemma_val_step(p1, i as nat);
        assert((tv(lb, (i + 1) as nat, m) + nw * pk) * pr + clo * pk == tv(p1, (i + 1) as nat, m) + l as int * pk) by (nonlinear_arith)
            requires tv(lb, (i + 1) as nat, m) * pr + clo0 * (B() * pk) == tv(p1, (i + 1) as nat, m), nw == sh + c, c == clo0 * ps, ps * pr == B(), l as int == pr * sh + clo;
    }
//@-
        }
//@+
    proof {
        lemma_val_hi_zero(limbs@, m, LIMBS as nat);
        lemma_fundamental_div_mod_converse(hiv, p2(rem as nat), val(limbs@, m), clo);
    }
//@-
        ConstCtOption::some(Self { limbs })
    }
}
//@@ end
//@@ fn src/uint/shr.rs | impl<const LIMBS: usize> Uint<LIMBS> | wrapping_shr | body | props C05 C11
impl<const LIMBS: usize> Uint<LIMBS> {
pub const fn wrapping_shr(&self, shift: u32) -> (ret__: Self)
//@+
    requires 1 <= LIMBS < 0x400_0000
    ensures ret__.v() == (if (shift as int) < 64 * LIMBS { self.v() / p2(shift as nat) } else { 0 })
//@-
{
        self.overflowing_shr(shift).unwrap_or(Self::ZERO())
    }
}
//@@ end
//@@ fn src/uint/shr.rs | impl<const LIMBS: usize> Uint<LIMBS> | wrapping_shr_vartime | body | props C05 C11 C15
impl<const LIMBS: usize> Uint<LIMBS> {
pub const fn wrapping_shr_vartime(&self, shift: u32) -> (ret__: Self)
//@+
    requires 1 <= LIMBS < 0x400_0000
    ensures ret__.v() == (if (shift as int) < 64 * LIMBS { self.v() / p2(shift as nat) } else { 0 })
//@-
{
        self.overflowing_shr_vartime(shift).unwrap_or(Self::ZERO())
    }
}
//@@ end
//@@ fn src/uint/shr.rs | impl<const LIMBS: usize> Uint<LIMBS> | shr1 | body | props C05 C11
impl<const LIMBS: usize> Uint<LIMBS> {
pub const fn shr1(&self) -> (ret__: Self)
//@+
    requires LIMBS >= 1
    ensures ret__.v() == self.v() / 2
//@-
{
        self.shr1_with_carry().0
    }
}
//@@ end
//@@ fn src/uint/shr.rs | impl<const LIMBS: usize> Uint<LIMBS> | shr1_with_carry | body | props C05 C11
impl<const LIMBS: usize> Uint<LIMBS> {
pub const fn shr1_with_carry(&self) -> (ret__: (Self, ConstChoice))
//@+
    requires LIMBS >= 1
    ensures ret__.0.v() == self.v() / 2, ret__.1.wf(), ret__.1.t() == (self.v() % 2 == 1)
//@-
{
        let mut ret = Self::ZERO();
        let mut i = LIMBS;
        let mut carry = Limb::ZERO;
//@+
    proof { assert(0u64 >> 63 == 0) by (bit_vector); assert(0 * bp(LIMBS as nat) == 0); }
//@-
        while i > 0
//@+
    invariant i <= LIMBS, carry.0 == 0 || carry.0 == 0x8000_0000_0000_0000u64,
        2 * tv(ret.limbs@, i as nat, LIMBS as nat) + (carry.0 >> 63) as int * bp(i as nat) == tv(self.limbs@, i as nat, LIMBS as nat),
    decreases i,
//@-
{
            i -= 1;
//@+
    let ghost rb = ret.limbs@; let ghost cb = carry;
//@-
            let (shifted, new_carry) = self.limbs[i].shr1();
            ret.limbs[i] = shifted.bitor(carry);
            carry = new_carry;
//@+
    proof {
        let sh = shifted.0; let c = cb.0; let l = self.limbs@[i as int].0 as int; let ncw = carry.0;
        assert(ncw >> 63 <= 1) by (bit_vector);
        assert(sh < 0x8000_0000_0000_0000u64);
        assert((sh | c) == sh + c && 2 * (c as int) == ((c >> 63) as int) * 0x1_0000_0000_0000_0000) by (bit_vector) requires sh < 0x8000_0000_0000_0000u64, c == 0 || c == 0x8000_0000_0000_0000u64;
        lemma_tv_ext(rb, ret.limbs@, (i + 1) as nat, LIMBS as nat);
        lemma_val_step(ret.limbs@, i as nat); lemma_val_step(self.limbs@, i as nat);
        lemma_bp_succ(i as nat);
        let pk = bp(i as nat); let nw = ret.limbs@[i as int].0 as int; let cbit = (c >> 63) as int; let nbit = (ncw >> 63) as int;
        assert(2 * (nw * pk) + nbit * pk == cbit * (B() * pk) + l * pk) by (nonlinear_arith) requires nw == sh as int + c as int, 2 * (c as int) == cbit * B(), 2 * (sh as int) + nbit == l;
    }
//@-
        }
//@+
    proof {
        let cw = carry.0;
        assert(cw >> 63 <= 1) by (bit_vector);
        lemma_bp1();
    }
//@-
        (ret, ConstChoice::from_word_lsb(carry.0 >> Limb::HI_BIT))
    }
}
//@@ end

//@@ fn src/uint/bit_or.rs | impl<const LIMBS: usize> Uint<LIMBS> | bitor | body | props C05 C11
impl<const LIMBS: usize> Uint<LIMBS> {
pub const fn bitor(&self, rhs: &Self) -> (ret__: Self)
//@+
    ensures forall|k: int| 0 <= k < LIMBS ==> ret__.limbs@[k].0 == self.limbs@[k].0 | rhs.limbs@[k].0
//@-
{
        let mut limbs = [Limb::ZERO; LIMBS];
        let mut i = 0;
        while i < LIMBS
//@+
    invariant i <= LIMBS, forall|k: int| 0 <= k < i ==> limbs@[k].0 == self.limbs@[k].0 | rhs.limbs@[k].0,
    decreases LIMBS - i,
//@-
{
            limbs[i] = self.limbs[i].bitor(rhs.limbs[i]);
            i += 1;
        }
        Self { limbs }
    }
}
//@@ end
//@@ fn src/uint/shl.rs | impl<const LIMBS: usize> Uint<LIMBS> | overflowing_shl_vartime_wide | body | props C05 C11 C15
impl<const LIMBS: usize> Uint<LIMBS> {
pub const fn overflowing_shl_vartime_wide(
        lower_upper: (Self, Self),
        shift: u32,
    ) -> (ret__: ConstCtOption<(Self, Self)>)
//@+
    requires 1 <= LIMBS < 0x200_0000
    ensures ret__.is_some.wf(), ret__.is_some.t() == ((shift as int) < 128 * LIMBS),
        ret__.is_some.t() ==> ret__.value.0.v() + ret__.value.1.v() * bp(LIMBS as nat) == ((lower_upper.0.v() + lower_upper.1.v() * bp(LIMBS as nat)) * p2(shift as nat)) % (bp(LIMBS as nat) * bp(LIMBS as nat)),
        !ret__.is_some.t() ==> ret__.value.0.v() == 0 && ret__.value.1.v() == 0
//@-
{
        let (lower, upper) = lower_upper;
//@+
    let ghost w = bp(LIMBS as nat); let ghost bits = (64 * LIMBS) as nat;
    proof { lemma_bp_pow2(LIMBS as nat); lemma_bp_succ(LIMBS as nat); lemma_val_bound(lower.limbs@, LIMBS as nat); lemma_val_bound(upper.limbs@, LIMBS as nat); }
//@-
        if shift >= 2 * Self::BITS() {
            ConstCtOption::none((Self::ZERO(), Self::ZERO()))
        } else if shift >= Self::BITS() {
            let upper = lower
                .overflowing_shl_vartime(shift - Self::BITS())
                .expect("shift within range");
//@+
    proof {
        let s2 = (shift - 64 * LIMBS) as nat; let l = lower.v(); let u = lower_upper.1.v();
        lemma_pow2_adds(bits, s2); lemma_pow2_pos(s2);
        assert((l + u * w) * p2(shift as nat) == (l * p2(s2)) * w + (w * w) * (u * p2(s2))) by (nonlinear_arith) requires p2(shift as nat) == w * p2(s2);
        assert(w * w > 0) by (nonlinear_arith) requires w > 0;
        assert(l * p2(s2) >= 0) by (nonlinear_arith) requires l >= 0, p2(s2) > 0;
        lemma_mod_multiples_vanish(u * p2(s2), (l * p2(s2)) * w, w * w);
        lemma_mod_shift_w(l * p2(s2), w);
    }
//@-
            ConstCtOption::some((Self::ZERO(), upper))
        } else {
            let new_lower = lower
                .overflowing_shl_vartime(shift)
                .expect("shift within range");
            // `shift == 0` shifts out every bit of `lower`: `wrapping_shr_vartime` returns zero then
            let upper_lo = lower.wrapping_shr_vartime(Self::BITS() - shift);
            let upper_hi = upper
                .overflowing_shl_vartime(shift)
                .expect("shift within range");
//@+
    proof {
        lemma_wide_shl_small(lower.v(), upper.v(), w, shift as nat, bits);
        if shift == 0 { lemma_basic_div(lower.v(), w); }
        assert forall|o: Seq<Limb>| (forall|k: int| 0 <= k < LIMBS ==> o[k].0 == upper_lo.limbs@[k].0 | upper_hi.limbs@[k].0) implies #[trigger] val(o, LIMBS as nat) == upper_lo.v() + upper_hi.v() by {
            lemma_uint_or_disjoint(upper_lo.limbs@, upper_hi.limbs@, o, LIMBS as nat, shift as nat);
        }
    }
//@-
            ConstCtOption::some((new_lower, upper_lo.bitor(&upper_hi)))
        }
    }
}
//@@ end
//@@ fn src/uint/shr.rs | impl<const LIMBS: usize> Uint<LIMBS> | overflowing_shr_vartime_wide | body | props C05 C11 C15
impl<const LIMBS: usize> Uint<LIMBS> {
pub const fn overflowing_shr_vartime_wide(
        lower_upper: (Self, Self),
        shift: u32,
    ) -> (ret__: ConstCtOption<(Self, Self)>)
//@+
    requires 1 <= LIMBS < 0x200_0000
    ensures ret__.is_some.wf(), ret__.is_some.t() == ((shift as int) < 128 * LIMBS),
        ret__.is_some.t() ==> ret__.value.0.v() + ret__.value.1.v() * bp(LIMBS as nat) == (lower_upper.0.v() + lower_upper.1.v() * bp(LIMBS as nat)) / p2(shift as nat),
        !ret__.is_some.t() ==> ret__.value.0.v() == 0 && ret__.value.1.v() == 0
//@-
{
        let (lower, upper) = lower_upper;
//@+
    let ghost w = bp(LIMBS as nat); let ghost bits = (64 * LIMBS) as nat;
    proof { lemma_bp_pow2(LIMBS as nat); lemma_bp_succ(LIMBS as nat); lemma_val_bound(lower.limbs@, LIMBS as nat); lemma_val_bound(upper.limbs@, LIMBS as nat); }
//@-
        if shift >= 2 * Self::BITS() {
            ConstCtOption::none((Self::ZERO(), Self::ZERO()))
        } else if shift >= Self::BITS() {
            let lower = upper
                .overflowing_shr_vartime(shift - Self::BITS())
                .expect("shift within range");
//@+
    proof {
        let s2 = (shift - 64 * LIMBS) as nat; let l = lower_upper.0.v(); let u = upper.v();
        lemma_pow2_adds(bits, s2); lemma_pow2_pos(s2);
        assert(l + u * w >= 0) by (nonlinear_arith) requires l >= 0, u >= 0, w > 0;
        assert(w * u == u * w) by (nonlinear_arith);
        lemma_fundamental_div_mod_converse(l + u * w, w, u, l);
        lemma_div_denominator(l + u * w, w, p2(s2));
        assert(0 * w == 0);
    }
//@-
            ConstCtOption::some((lower, Self::ZERO()))
        } else {
            let new_upper = upper
                .overflowing_shr_vartime(shift)
                .expect("shift within range");
            // `shift == 0` shifts out every bit of `upper`: `wrapping_shl_vartime` returns zero then
            let lower_hi = upper.wrapping_shl_vartime(Self::BITS() - shift);
            let lower_lo = lower
                .overflowing_shr_vartime(shift)
                .expect("shift within range");
//@+
    proof {
        lemma_wide_shr_small(lower.v(), upper.v(), w, shift as nat, bits);
        if shift == 0 { lemma_mod_multiples_basic(upper.v(), w); }
        assert forall|o: Seq<Limb>| (forall|k: int| 0 <= k < LIMBS ==> o[k].0 == lower_lo.limbs@[k].0 | lower_hi.limbs@[k].0) implies #[trigger] val(o, LIMBS as nat) == lower_lo.v() + lower_hi.v() by {
            lemma_uint_or_disjoint(lower_lo.limbs@, lower_hi.limbs@, o, LIMBS as nat, (64 * LIMBS - shift) as nat);
        }
    }
//@-
            ConstCtOption::some((lower_lo.bitor(&lower_hi), new_upper))
        }
    }
}
//@@ end

} // verus!
