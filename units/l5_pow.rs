// L5: fixed-window exponentiation / multi-exponentiation of Montgomery-form values (src/modular/pow.rs) -- C09
use vstd::prelude::*;
use vstd::arithmetic::power::*;
use vstd::arithmetic::power2::*;
use vstd::arithmetic::div_mod::*;
use vstd::arithmetic::mul::*;
use vstd::bits::*;
use crate::speclib::*;
use crate::speclib_bits::*;
use crate::l0_prim::*;
use crate::l1_choice::*;
use crate::l1_limb::*;
use crate::l2_core::*;
use crate::l3_mul::*;
use crate::l4_modular::*;
use crate::l5_monty::*;
verus! {

// ---- specification vocabulary

/// the residue (in [0, m)) represented by the Montgomery-form value x, R = B^LIMBS  (see l5_monty::mont_repr)
pub open spec fn mr<const LIMBS: usize>(x: Uint<LIMBS>, m: int) -> int { mont_repr(x.v(), m, LIMBS as nat) }

/// Π_{i<cnt} bs[i] ^ (es[i] mod 2^k)   -- the (unreduced) multi-exponentiation result
pub open spec fn mexp(bs: Seq<int>, es: Seq<int>, cnt: nat, k: nat) -> int
    decreases cnt
{ if cnt == 0 { 1 } else { mexp(bs, es, (cnt - 1) as nat, k) * pow(bs[cnt - 1], (es[cnt - 1] % p2(k)) as nat) } }

/// exponent e truncated to k bits, shifted down by pos bits
pub open spec fn ep(e: int, k: nat, pos: nat) -> nat { ((e % p2(k)) / p2(pos)) as nat }
/// Π_{i<cnt} bs[i] ^ ep(es[i], k, pos)
pub open spec fn ip(bs: Seq<int>, es: Seq<int>, cnt: nat, k: nat, pos: nat) -> int
    decreases cnt
{ if cnt == 0 { 1 } else { ip(bs, es, (cnt - 1) as nat, k, pos) * pow(bs[cnt - 1], ep(es[cnt - 1], k, pos)) } }
/// product of the 4-bit digit terms Π_{i<cnt} bs[i] ^ (ep(es[i], k, pos) mod 16)
pub open spec fn idg(bs: Seq<int>, es: Seq<int>, cnt: nat, k: nat, pos: nat) -> int
    decreases cnt
{ if cnt == 0 { 1 } else { idg(bs, es, (cnt - 1) as nat, k, pos) * pow(bs[cnt - 1], ep(es[cnt - 1], k, pos) % 16) } }

/// one row of the table used by the ladder: (x^0 .. x^15 in Montgomery form, exponent)
pub type PowRow<const LIMBS: usize, const RHS_LIMBS: usize> = ([Uint<LIMBS>; 16], Uint<RHS_LIMBS>);

pub open spec fn tab_bases<const L: usize, const R: usize>(pe: Seq<PowRow<L, R>>, m: int) -> Seq<int> {
    Seq::new(pe.len(), |i: int| mr(pe[i].0@[1], m))
}
pub open spec fn tab_exps<const L: usize, const R: usize>(pe: Seq<PowRow<L, R>>) -> Seq<int> {
    Seq::new(pe.len(), |i: int| pe[i].1.v())
}
/// row i holds the canonical Montgomery forms of b_i^0 .. b_i^15
pub open spec fn row_ok<const L: usize>(row: Seq<Uint<L>>, m: int) -> bool {
    forall|j: int| 0 <= j < 16 ==> (#[trigger] row[j]).v() < m && mr(row[j], m) == pow(mr(row[1], m), j as nat) % m
}
pub open spec fn tab_ok<const L: usize, const R: usize>(pe: Seq<PowRow<L, R>>, m: int) -> bool {
    forall|i: int| 0 <= i < pe.len() ==> row_ok((#[trigger] pe[i]).0@, m)
}
pub open spec fn arr_bases<const L: usize, const R: usize>(ba: Seq<(Uint<L>, Uint<R>)>, m: int) -> Seq<int> {
    Seq::new(ba.len(), |i: int| mr(ba[i].0, m))
}
pub open spec fn arr_exps<const L: usize, const R: usize>(ba: Seq<(Uint<L>, Uint<R>)>) -> Seq<int> {
    Seq::new(ba.len(), |i: int| ba[i].1.v())
}

// ---- arithmetic lemmas

/// ((y % (b*c*t)) / b) % c == (y / b) % c       (all positive, y >= 0)
proof fn lemma_pw_mod_div_mod(y: int, b: int, c: int, t: int)
    requires y >= 0, b > 0, c > 0, t > 0
    ensures ((y % (b * c * t)) / b) % c == (y / b) % c
{
    let mm = b * c * t;
    assert(mm > 0) by (nonlinear_arith) requires b > 0, c > 0, t > 0, mm == b * c * t;
    let q = y / mm; let r = y % mm;
    lemma_fundamental_div_mod(y, mm); lemma_mod_bound(y, mm);
    assert(mm * q == b * (c * t * q)) by (nonlinear_arith) requires mm == b * c * t;
    lemma_div_pos_is_pos(y, mm);
    assert(c * t * q >= 0) by (nonlinear_arith) requires c > 0, t > 0, q >= 0;
    lemma_fundamental_div_mod(r, b); lemma_mod_bound(r, b);
    let rq = r / b; let rr = r % b;
    assert(y == b * (c * t * q + rq) + rr) by (nonlinear_arith) requires y == b * (c * t * q) + r, r == b * rq + rr;
    lemma_fundamental_div_mod_converse(y, b, c * t * q + rq, rr);
    assert(y / b == c * t * q + rq);
    assert(c * t * q == c * (t * q)) by (nonlinear_arith);
    lemma_mod_multiples_vanish(t * q, rq, c);
    assert((c * (t * q) + rq) % c == rq % c);
}

/// (y % (b*c)) / b == (y / b) % c
proof fn lemma_pw_mod_div(y: int, b: int, c: int)
    requires y >= 0, b > 0, c > 0
    ensures (y % (b * c)) / b == (y / b) % c
{
    let mm = b * c;
    assert(mm > 0) by (nonlinear_arith) requires b > 0, c > 0, mm == b * c;
    let q = y / mm; let r = y % mm;
    lemma_fundamental_div_mod(y, mm); lemma_mod_bound(y, mm);
    lemma_fundamental_div_mod(r, b); lemma_mod_bound(r, b);
    let rq = r / b; let rr = r % b;
    lemma_div_pos_is_pos(y, mm); lemma_div_pos_is_pos(r, b);
    assert(rq < c) by (nonlinear_arith) requires r == b * rq + rr, r < b * c, rr >= 0, b > 0;
    assert(y == b * (c * q + rq) + rr) by (nonlinear_arith) requires y == (b * c) * q + r, r == b * rq + rr;
    lemma_fundamental_div_mod_converse(y, b, c * q + rq, rr);
    lemma_mod_multiples_vanish(q, rq, c);
    lemma_small_mod(rq as nat, c as nat);
}

/// nibble of a word: ((w >> 4j) & 15) == (w / 2^(4j)) % 16
proof fn lemma_pw_nibble(w: u64, j: u32)
    requires j < 16
    ensures ((w >> (j * 4)) & 15) as int == (w as int / p2((4 * j) as nat)) % 16
{
    let s = (j * 4) as u64;
    lemma_u64_shr_is_div(w, s);
    let x = w >> s;
    assert(x & 15 == x % 16) by (bit_vector);
    assert((j * 4) as nat == (4 * j) as nat);
}

/// limb extraction: (val(s, n) / B^l) % B == s[l]
proof fn lemma_pw_limb_extract(s: Seq<Limb>, n: nat, l: nat)
    requires l < n
    ensures (val(s, n) / bp(l)) % B() == s[l as int].0 as int
    decreases n
{
    reveal(pow);
    lemma_pow_positive(B(), l);
    lemma_val_bound(s, l);
    if n == l + 1 {
        let a = s[l as int].0 as int;
        assert(val(s, n) == bp(l) * a + val(s, l)) by (nonlinear_arith) requires val(s, n) == val(s, l) + a * bp(l);
        lemma_fundamental_div_mod_converse(val(s, n), bp(l), a, val(s, l));
        lemma_small_mod(a as nat, B() as nat);
    } else {
        lemma_pw_limb_extract(s, (n - 1) as nat, l);
        let top = s[n - 1].0 as int;
        lemma_pow_adds(B(), l, (n - 1 - l) as nat);
        assert((l + (n - 1 - l)) as nat == (n - 1) as nat);
        lemma_pow_adds(B(), 1, (n - 2 - l) as nat);
        assert((1 + (n - 2 - l)) as nat == (n - 1 - l) as nat);
        lemma_pow1(B());
        let e = bp((n - 2 - l) as nat);
        lemma_pow_positive(B(), (n - 2 - l) as nat);
        assert(top * bp((n - 1) as nat) == bp(l) * (B() * (e * top))) by (nonlinear_arith)
            requires bp((n - 1) as nat) == bp(l) * bp((n - 1 - l) as nat), bp((n - 1 - l) as nat) == B() * e;
        let y = val(s, (n - 1) as nat);
        lemma_val_bound(s, (n - 1) as nat);
        assert(e * top >= 0) by (nonlinear_arith) requires e > 0, top >= 0;
        let kk = B() * (e * top);
        lemma_fundamental_div_mod(y, bp(l)); lemma_mod_bound(y, bp(l));
        assert(y + bp(l) * kk == bp(l) * (y / bp(l) + kk) + y % bp(l)) by (nonlinear_arith) requires y == bp(l) * (y / bp(l)) + y % bp(l);
        lemma_fundamental_div_mod_converse(y + bp(l) * kk, bp(l), y / bp(l) + kk, y % bp(l));
        lemma_mod_multiples_vanish(e * top, y / bp(l), B());
        assert(B() * (e * top) + y / bp(l) == y / bp(l) + kk);
    }
}

proof fn lemma_pw_ep_step(e0: int, k: nat, pos: nat)
    requires e0 >= 0
    ensures ep(e0, k, pos) == 16 * ep(e0, k, pos + 4) + ep(e0, k, pos) % 16
{
    let e = e0 % p2(k);
    lemma_pow2_pos(k); lemma_pow2_pos(pos); lemma_pow2_pos(pos + 4);
    lemma_mod_bound(e0, p2(k));
    lemma_pow2_adds(pos, 4); lemma2_to64();
    let a = p2(pos);
    lemma_div_denominator(e, a, 16);
    lemma_fundamental_div_mod(e / a, 16);
    lemma_div_pos_is_pos(e, a);
    lemma_div_pos_is_pos(e, a * 16);
}

/// window step, integer form
proof fn lemma_pw_window(bs: Seq<int>, es: Seq<int>, cnt: nat, k: nat, pos: nat)
    requires forall|i: int| 0 <= i < cnt ==> es[i] >= 0
    ensures ip(bs, es, cnt, k, pos) == pow(ip(bs, es, cnt, k, pos + 4), 16) * idg(bs, es, cnt, k, pos)
    decreases cnt
{
    if cnt == 0 {
        lemma_pow1(1); lemma1_pow(16);
    } else {
        let c1 = (cnt - 1) as nat;
        lemma_pw_window(bs, es, c1, k, pos);
        lemma_pw_ep_step(es[cnt - 1], k, pos);
        let b = bs[cnt - 1];
        let q = ep(es[cnt - 1], k, pos + 4); let d = ep(es[cnt - 1], k, pos) % 16;
        let ip1 = ip(bs, es, c1, k, pos + 4); let id1 = idg(bs, es, c1, k, pos);
        lemma_pow_adds(b, 16 * q, d);
        lemma_pow_multiplies(b, q, 16);
        assert(q * 16 == 16 * q);
        lemma_pow_distributes(ip1, pow(b, q), 16);
        let x1 = pow(ip1, 16); let x2 = pow(pow(b, q), 16); let x3 = pow(b, d);
        assert((x1 * id1) * (x2 * x3) == (x1 * x2) * (id1 * x3)) by (nonlinear_arith);
    }
}

/// when k <= pos every truncated exponent shifted by pos is zero, so the product is 1
proof fn lemma_pw_ip_top(bs: Seq<int>, es: Seq<int>, cnt: nat, k: nat, pos: nat)
    requires k <= pos, forall|i: int| 0 <= i < cnt ==> es[i] >= 0
    ensures ip(bs, es, cnt, k, pos) == 1
    decreases cnt
{
    if cnt > 0 {
        lemma_pw_ip_top(bs, es, (cnt - 1) as nat, k, pos);
        let e = es[cnt - 1] % p2(k);
        lemma_pow2_pos(k); lemma_pow2_pos(pos);
        lemma_mod_bound(es[cnt - 1], p2(k));
        if k < pos { lemma_pow2_strictly_increases(k, pos); }
        lemma_basic_div(e, p2(pos));
        lemma_pow0(bs[cnt - 1]);
    }
}

/// shifting by 0 bits: the ladder invariant at pos = 0 is the multi-exponentiation product
proof fn lemma_pw_ip_zero(bs: Seq<int>, es: Seq<int>, cnt: nat, k: nat)
    ensures ip(bs, es, cnt, k, 0) == mexp(bs, es, cnt, k)
    decreases cnt
{
    if cnt > 0 {
        lemma_pw_ip_zero(bs, es, (cnt - 1) as nat, k);
        lemma2_to64();
        assert(p2(0) == 1);
        lemma_div_basics(es[cnt - 1] % p2(k));
        assert(ep(es[cnt - 1], k, 0) == (es[cnt - 1] % p2(k)) as nat);
    }
}

/// k = 0: every exponent is truncated to 0
proof fn lemma_pw_mexp_k0(bs: Seq<int>, es: Seq<int>, cnt: nat)
    ensures mexp(bs, es, cnt, 0) == 1
    decreases cnt
{
    if cnt > 0 {
        lemma_pw_mexp_k0(bs, es, (cnt - 1) as nat);
        lemma2_to64();
        assert(es[cnt - 1] % p2(0) == 0);
        lemma_pow0(bs[cnt - 1]);
    }
}

/// mexp depends only on the first cnt entries
proof fn lemma_pw_mexp_ext(bs: Seq<int>, es: Seq<int>, bs2: Seq<int>, es2: Seq<int>, cnt: nat, k: nat)
    requires forall|i: int| 0 <= i < cnt ==> bs[i] == bs2[i] && es[i] == es2[i]
    ensures mexp(bs, es, cnt, k) == mexp(bs2, es2, cnt, k)
    decreases cnt
{
    if cnt > 0 { lemma_pw_mexp_ext(bs, es, bs2, es2, (cnt - 1) as nat, k); }
}

proof fn lemma_pw_pow16(x: int)
    ensures ((x * x) * (x * x)) * ((x * x) * (x * x)) * (((x * x) * (x * x)) * ((x * x) * (x * x))) == pow(x, 16)
{
    lemma_pow_adds(x, 1, 1); lemma_pow1(x);
    lemma_pow_adds(x, 2, 2); lemma_pow_adds(x, 4, 4); lemma_pow_adds(x, 8, 8);
}

/// the 4-bit digit read from limb `ln`, window `wn` equals digit `pos/4` of the truncated exponent
proof fn lemma_pw_digit(s: Seq<Limb>, rn: nat, k: nat, ln: nat, wn: nat)
    requires ln < rn, wn < 16, 64 * ln + 4 * wn + 4 <= k
    ensures ((s[ln as int].0 >> ((wn * 4) as u32)) & 15) as int == (ep(val(s, rn), k, 64 * ln + 4 * wn) % 16) as int
{
    let e = val(s, rn); let w = s[ln as int].0;
    let pos = 64 * ln + 4 * wn;
    lemma_val_bound(s, rn);
    lemma_pw_limb_extract(s, rn, ln);
    lemma_bp_pow2(ln); lemma_pow2_pos(64 * ln); lemma_pow2_pos(4 * wn); lemma_pow2_pos(pos); lemma_pow2_pos(k);
    lemma_pw_nibble(w, wn as u32);
    assert(((wn as u32) * 4) as u32 == (wn * 4) as u32);
    let y = e / bp(ln);
    lemma_div_pos_is_pos(e, bp(ln));
    let b = p2(4 * wn); let t = p2((60 - 4 * wn) as nat);
    lemma_pow2_pos((60 - 4 * wn) as nat);
    lemma_pow2_adds(4 * wn, 4); lemma_pow2_adds(4 * wn + 4, (60 - 4 * wn) as nat); lemma2_to64(); lemma_pow2_64();
    assert((4 * wn + 4 + (60 - 4 * wn)) as nat == 64);
    assert(b * 16 * t == B()) by (nonlinear_arith) requires p2(4 * wn + 4) == b * 16, p2(64) == p2(4 * wn + 4) * t, p2(64) == B();
    lemma_pw_mod_div_mod(y, b, 16, t);
    lemma_div_denominator(e, bp(ln), b);
    lemma_pow2_adds(64 * ln, 4 * wn);
    assert(bp(ln) * b == p2(pos));
    let t2 = p2((k - pos - 4) as nat);
    lemma_pow2_pos((k - pos - 4) as nat);
    lemma_pow2_adds(pos, 4); lemma_pow2_adds(pos + 4, (k - pos - 4) as nat);
    assert((pos + 4 + (k - pos - 4)) as nat == k);
    let a = p2(pos);
    assert(a * 16 * t2 == p2(k)) by (nonlinear_arith) requires p2(pos + 4) == a * 16, p2(k) == p2(pos + 4) * t2;
    lemma_pw_mod_div_mod(e, a, 16, t2);
    lemma_mod_bound(e, p2(k));
    lemma_div_pos_is_pos(e % p2(k), a);
}

/// the top (partial) window: masked digit equals the whole remaining prefix
proof fn lemma_pw_digit_first(s: Seq<Limb>, rn: nat, k: nat, ln: nat, wn: nat, t: nat, idx: u64)
    requires ln < rn, wn < 16, 1 <= t <= 4, k == 64 * ln + 4 * wn + t,
        idx == ((s[ln as int].0 >> ((wn * 4) as u32)) & 15) & ((1u64 << (t as u32)) - 1) as u64,
    ensures idx as int == ep(val(s, rn), k, 64 * ln + 4 * wn) as int, idx < 16
{
    let e = val(s, rn); let w = s[ln as int].0;
    let pos = 64 * ln + 4 * wn;
    lemma_val_bound(s, rn);
    lemma_pw_limb_extract(s, rn, ln);
    lemma_bp_pow2(ln); lemma_pow2_pos(64 * ln); lemma_pow2_pos(4 * wn); lemma_pow2_pos(pos); lemma_pow2_pos(k); lemma_pow2_pos(t);
    lemma_pw_nibble(w, wn as u32);
    assert(((wn as u32) * 4) as u32 == (wn * 4) as u32);
    let nib = (w >> ((wn * 4) as u32)) & 15;
    let tt = t as u32;
    assert(idx == nib % (1u64 << tt) && idx < 16) by (bit_vector) requires idx == nib & (((1u64 << tt) - 1) as u64), 1 <= tt <= 4, nib < 16;
    lemma_pow2_strictly_increases(t, 64); lemma2_to64(); lemma_pow2_64();
    lemma_u64_shl_is_mul(1, t as u64);
    let pt = p2(t);
    assert((1u64 << tt) as int == pt);
    let y = e / bp(ln);
    lemma_div_pos_is_pos(e, bp(ln));
    let b = p2(4 * wn); let t3 = p2((60 - 4 * wn) as nat);
    lemma_pow2_pos((60 - 4 * wn) as nat);
    lemma_pow2_adds(4 * wn, 4); lemma_pow2_adds(4 * wn + 4, (60 - 4 * wn) as nat);
    assert((4 * wn + 4 + (60 - 4 * wn)) as nat == 64);
    assert(b * 16 * t3 == B()) by (nonlinear_arith) requires p2(4 * wn + 4) == b * 16, p2(64) == p2(4 * wn + 4) * t3, p2(64) == B();
    lemma_pw_mod_div_mod(y, b, 16, t3);
    lemma_div_denominator(e, bp(ln), b);
    lemma_pow2_adds(64 * ln, 4 * wn);
    let a = p2(pos);
    assert(bp(ln) * b == a);
    let z = e / a;
    lemma_div_pos_is_pos(e, a);
    assert(nib as int == z % 16);
    let c2 = p2((4 - t) as nat); lemma_pow2_pos((4 - t) as nat);
    lemma_pow2_adds(t, (4 - t) as nat); assert((t + (4 - t)) as nat == 4);
    assert(pt * c2 == 16);
    lemma_mod_mod(z, pt, c2);
    assert(idx as int == z % pt);
    lemma_pow2_adds(pos, t);
    lemma_pw_mod_div(e, a, pt);
    lemma_mod_bound(z, pt);
}

/// R mod m is the Montgomery form of 1
proof fn lemma_pw_one<const LIMBS: usize>(one: Uint<LIMBS>, m: int)
    requires m > 0, m % 2 == 1, one.v() == bp(LIMBS as nat) % m
    ensures one.v() < m, mr(one, m) == 1int % m
{
    lemma_mod_bound(bp(LIMBS as nat), m);
    lemma_mont_repr_of(1, m, LIMBS as nat);
    assert(1 * bp(LIMBS as nat) == bp(LIMBS as nat));
}

/// (b^j mod m) * b == b^(j+1) (mod m)
proof fn lemma_pw_pow_step(b: int, j: nat, m: int)
    requires m > 0
    ensures ((pow(b, j) % m) * b) % m == pow(b, j + 1) % m
{
    lemma_mul_mod_noop_left(pow(b, j), b, m);
    assert(pow(b, j + 1) == b * pow(b, j)) by { reveal(pow); }
    assert(pow(b, j) * b == b * pow(b, j)) by (nonlinear_arith);
}

//@@ subst \b(Self|Uint)::(ZERO|ONE|MAX|BITS|LOG2_BITS)\b(?!\() => \1::\2()
//@@ subst \bUint::<(\w+)>::(ZERO|ONE|MAX|BITS)\b(?!\() => Uint::<\1>::\2()
//@@ subst \bWINDOW_MASK\b(?!\() => WINDOW_MASK()
//@@ rawconst src/modular/pow.rs | - | WINDOW
pub const WINDOW: u32 = 4;
//@@ end
//@@ const src/modular/pow.rs | - | WINDOW_MASK
pub const fn WINDOW_MASK() -> (ret__: Word)
//@+
    ensures ret__ == 15
//@-
{
//@+
    assert((1u64 << 4u32) == 16u64) by (bit_vector);
//@-
    (1 << WINDOW) - 1
}
//@@ end
//@@ fn src/modular/pow.rs | - | pow_montgomery_form | body | props C09 C11
pub const fn pow_montgomery_form<const LIMBS: usize, const RHS_LIMBS: usize>(
    x: &Uint<LIMBS>,
    exponent: &Uint<RHS_LIMBS>,
    exponent_bits: u32,
    modulus: &Odd<Uint<LIMBS>>,
    one: &Uint<LIMBS>,
    mod_neg_inv: Limb,
) -> (ret__: Uint<LIMBS>)
//@+
    requires
        1 <= LIMBS < 0x1000_0000, 1 <= RHS_LIMBS, (exponent_bits as int) <= 64 * RHS_LIMBS,
        modulus.0.v() % 2 == 1, neg_inv_ok(mod_neg_inv, modulus.0.limbs@[0]),
        one.v() == bp(LIMBS as nat) % modulus.0.v(),
        x.v() < modulus.0.v(),
    ensures
        ret__.v() < modulus.0.v(),
        mr(ret__, modulus.0.v()) == pow(mr(*x, modulus.0.v()), (exponent.v() % p2(exponent_bits as nat)) as nat) % modulus.0.v(),
        exponent_bits == 0 ==> ret__ == *one,
//@-
{
//@+
    proof {
        let m = modulus.0.v();
        let k = exponent_bits as nat;
        assert forall|s: Seq<(Uint<LIMBS>, Uint<RHS_LIMBS>)>| s.len() == 1 && s[0] == (*x, *exponent) implies
            #[trigger] mexp(arr_bases(s, m), arr_exps(s), 1, k) == pow(mr(*x, m), (exponent.v() % p2(k)) as nat) by {
            let bs = arr_bases(s, m); let es = arr_exps(s);
            assert(mexp(bs, es, 1, k) == mexp(bs, es, 0, k) * pow(bs[0], (es[0] % p2(k)) as nat));
            assert(mexp(bs, es, 0, k) == 1);
            assert(1 * pow(bs[0], (es[0] % p2(k)) as nat) == pow(bs[0], (es[0] % p2(k)) as nat));
        }
    }
//@-
    multi_exponentiate_montgomery_form_array(
        &[(*x, *exponent)],
        exponent_bits,
        modulus,
        one,
        mod_neg_inv,
    )
}
//@@ end
//@@ fn src/modular/pow.rs | - | multi_exponentiate_montgomery_form_array | body | props C09 C11
pub const fn multi_exponentiate_montgomery_form_array<
    const LIMBS: usize,
    const RHS_LIMBS: usize,
    const N: usize,
>(
    bases_and_exponents: &[(Uint<LIMBS>, Uint<RHS_LIMBS>); N],
    exponent_bits: u32,
    modulus: &Odd<Uint<LIMBS>>,
    one: &Uint<LIMBS>,
    mod_neg_inv: Limb,
) -> (ret__: Uint<LIMBS>)
//@+
    requires
        1 <= LIMBS < 0x1000_0000, 1 <= RHS_LIMBS, (exponent_bits as int) <= 64 * RHS_LIMBS,
        modulus.0.v() % 2 == 1, neg_inv_ok(mod_neg_inv, modulus.0.limbs@[0]),
        one.v() == bp(LIMBS as nat) % modulus.0.v(),
        forall|i: int| 0 <= i < N ==> (#[trigger] bases_and_exponents@[i]).0.v() < modulus.0.v(),
    ensures
        ret__.v() < modulus.0.v(),
        mr(ret__, modulus.0.v()) == mexp(arr_bases(bases_and_exponents@, modulus.0.v()), arr_exps(bases_and_exponents@), N as nat, exponent_bits as nat) % modulus.0.v(),
        exponent_bits == 0 ==> ret__ == *one,
//@-
{
//@+
    let ghost m = modulus.0.v();
    let ghost ba = bases_and_exponents@;
    proof {
        lemma_val_bound(one.limbs@, LIMBS as nat); lemma_val_bound(modulus.0.limbs@, LIMBS as nat);
        lemma_pw_one(*one, m);
    }
//@-
    if exponent_bits == 0 {
//@+
        proof { lemma_pw_mexp_k0(arr_bases(ba, m), arr_exps(ba), N as nat); }
//@-
        return *one; // 1 in Montgomery form
    }
    let mut powers_and_exponents =
        [([Uint::<LIMBS>::ZERO(); 1 << WINDOW], Uint::<RHS_LIMBS>::ZERO()); N];
    let mut i = 0;
    while i < N
//@+
        invariant
            i <= N, ba == bases_and_exponents@, m == modulus.0.v(), m > 0,
            1 <= LIMBS < 0x1000_0000, m % 2 == 1, neg_inv_ok(mod_neg_inv, modulus.0.limbs@[0]),
            one.v() == bp(LIMBS as nat) % m,
            forall|t: int| 0 <= t < N ==> (#[trigger] ba[t]).0.v() < m,
            forall|t: int| 0 <= t < i ==> row_ok((#[trigger] powers_and_exponents@[t]).0@, m)
                && powers_and_exponents@[t].0@[1] == ba[t].0 && powers_and_exponents@[t].1 == ba[t].1,
        decreases N - i
//@-
{
        let (base, exponent) = bases_and_exponents[i];
//@+
        assert(base == ba[i as int].0 && exponent == ba[i as int].1);
//@-
        powers_and_exponents[i] = (compute_powers(&base, modulus, one, mod_neg_inv), exponent);
        i += 1;
    }
//@+
    proof {
        let pe = powers_and_exponents@;
        assert(tab_ok(pe, m));
        let bs = arr_bases(ba, m); let es = arr_exps(ba);
        assert(tab_bases(pe, m) =~= bs);
        assert(tab_exps(pe) =~= es);
    }
//@-
    multi_exponentiate_montgomery_form_internal(
        &powers_and_exponents,
        exponent_bits,
        modulus,
        one,
        mod_neg_inv,
    )
}
//@@ end
//@@ fn src/modular/pow.rs | - | compute_powers | body | props C09 C11
pub const fn compute_powers<const LIMBS: usize>(
    x: &Uint<LIMBS>,
    modulus: &Odd<Uint<LIMBS>>,
    one: &Uint<LIMBS>,
    mod_neg_inv: Limb,
) -> (ret__: [Uint<LIMBS>; 1 << WINDOW])
//@+
    requires
        1 <= LIMBS < 0x1000_0000,
        modulus.0.v() % 2 == 1, neg_inv_ok(mod_neg_inv, modulus.0.limbs@[0]),
        one.v() == bp(LIMBS as nat) % modulus.0.v(),
        x.v() < modulus.0.v(),
    ensures
        row_ok(ret__@, modulus.0.v()), ret__@[1] == *x, ret__@[0] == *one,
//@-
{
    // powers[i] contains x^i
    let mut powers = [*one; 1 << WINDOW];
    powers[1] = *x;
    let mut i = 2;
//@+
    let ghost m = modulus.0.v();
    let ghost b = mr(*x, m);
    proof {
        lemma_val_bound(x.limbs@, LIMBS as nat);
        lemma_pw_one(*one, m);
        lemma_mont_repr(x.v(), m, LIMBS as nat);
        lemma_pow0(b); lemma_pow1(b);
        lemma_small_mod(b as nat, m as nat);
    }
//@-
    while i < powers.len()
//@+
        invariant
            2 <= i <= 16, m == modulus.0.v(), m > 0, b == mr(*x, m),
            1 <= LIMBS < 0x1000_0000, m % 2 == 1, neg_inv_ok(mod_neg_inv, modulus.0.limbs@[0]),
            x.v() < m, powers@[1] == *x, powers@[0] == *one,
            forall|j: int| 0 <= j < i ==> (#[trigger] powers@[j]).v() < m && mr(powers@[j], m) == pow(b, j as nat) % m,
        decreases 16 - i
//@-
{
//@+
        proof { lemma_pw_pow_step(b, (i - 1) as nat, m); }
//@-
        powers[i] = mul_montgomery_form(&powers[i - 1], x, modulus, mod_neg_inv);
        i += 1;
    }
    powers
}
//@@ end
//@@ fn src/modular/pow.rs | - | multi_exponentiate_montgomery_form_internal | body | props C09 C11
pub const fn multi_exponentiate_montgomery_form_internal<const LIMBS: usize, const RHS_LIMBS: usize>(
    powers_and_exponents: &[([Uint<LIMBS>; 1 << WINDOW], Uint<RHS_LIMBS>)],
    exponent_bits: u32,
    modulus: &Odd<Uint<LIMBS>>,
    one: &Uint<LIMBS>,
    mod_neg_inv: Limb,
) -> (ret__: Uint<LIMBS>)
//@+
    requires
        1 <= LIMBS < 0x1000_0000,
        1 <= exponent_bits, (exponent_bits as int) <= 64 * RHS_LIMBS,
        modulus.0.v() % 2 == 1, neg_inv_ok(mod_neg_inv, modulus.0.limbs@[0]),
        one.v() == bp(LIMBS as nat) % modulus.0.v(),
        tab_ok(powers_and_exponents@, modulus.0.v()),
    ensures
        ret__.v() < modulus.0.v(),
        mr(ret__, modulus.0.v()) == mexp(tab_bases(powers_and_exponents@, modulus.0.v()), tab_exps(powers_and_exponents@),
            powers_and_exponents.len() as nat, exponent_bits as nat) % modulus.0.v(),
//@-
{
    let starting_limb = ((exponent_bits - 1) / Limb::BITS) as usize;
    let starting_bit_in_limb = (exponent_bits - 1) % Limb::BITS;
    let starting_window = starting_bit_in_limb / WINDOW;
//@+
    proof { assert(forall|t: u32| 1 <= t <= 4 ==> (1u64 << t) >= 2 && (1u64 << t) <= 16) by (bit_vector); }
//@-
    let starting_window_mask = (1 << (starting_bit_in_limb % WINDOW + 1)) - 1;
//@+
    let ghost pe = powers_and_exponents@;
    let ghost len = pe.len() as nat;
    let ghost k = exponent_bits as nat;
    let ghost m = modulus.0.v();
    let ghost bs = tab_bases(pe, m);
    let ghost es = tab_exps(pe);
    let ghost tfirst = (starting_bit_in_limb % 4 + 1) as nat;
//@-
    let mut z = *one; // 1 in Montgomery form
//@+
    let ghost mut xx: int = 1;       // mr(z) == xx % m
    proof {
        lemma_val_bound(one.limbs@, LIMBS as nat); lemma_val_bound(modulus.0.limbs@, LIMBS as nat);
        lemma_pw_one(*one, m);
        assert forall|i: int| 0 <= i < len implies es[i] >= 0 by { lemma_val_bound(pe[i].1.limbs@, RHS_LIMBS as nat); }
        lemma_pw_ip_top(bs, es, len, k, (64 * starting_limb + 4 * (starting_window + 1)) as nat);
    }
//@-
    let mut limb_num = starting_limb + 1;
    while limb_num > 0
//@+
        invariant
            pe == powers_and_exponents@, len == pe.len(), k == exponent_bits, m == modulus.0.v(), m > 0, 1 <= k <= 64 * RHS_LIMBS,
            bs == tab_bases(pe, m), es == tab_exps(pe),
            1 <= LIMBS < 0x1000_0000, m % 2 == 1, neg_inv_ok(mod_neg_inv, modulus.0.limbs@[0]),
            starting_limb == (k - 1) / 64, starting_bit_in_limb == (k - 1) % 64, starting_window == starting_bit_in_limb / 4,
            tfirst == starting_bit_in_limb % 4 + 1, starting_window_mask == (1u64 << (tfirst as u32)) - 1,
            limb_num <= starting_limb + 1,
            forall|i: int| 0 <= i < len ==> es[i] >= 0,
            tab_ok(pe, m),
            z.v() < m, mr(z, m) == xx % m,
            xx == ip(bs, es, len, k, if limb_num == starting_limb + 1 { (64 * starting_limb + 4 * (starting_window + 1)) as nat } else { (64 * limb_num) as nat }),
        decreases limb_num
//@-
{
        limb_num -= 1;
        let mut window_num = if limb_num == starting_limb {
            starting_window + 1
        } else {
            Limb::BITS / WINDOW
        };
        while window_num > 0
//@+
            invariant
                pe == powers_and_exponents@, len == pe.len(), k == exponent_bits, m == modulus.0.v(), m > 0, 1 <= k <= 64 * RHS_LIMBS,
                bs == tab_bases(pe, m), es == tab_exps(pe),
                1 <= LIMBS < 0x1000_0000, m % 2 == 1, neg_inv_ok(mod_neg_inv, modulus.0.limbs@[0]),
                starting_limb == (k - 1) / 64, starting_bit_in_limb == (k - 1) % 64, starting_window == starting_bit_in_limb / 4,
                tfirst == starting_bit_in_limb % 4 + 1, starting_window_mask == (1u64 << (tfirst as u32)) - 1,
                limb_num <= starting_limb, window_num <= 16, limb_num == starting_limb ==> window_num <= starting_window + 1,
                forall|i: int| 0 <= i < len ==> es[i] >= 0,
                tab_ok(pe, m),
                z.v() < m, mr(z, m) == xx % m,
                xx == ip(bs, es, len, k, (64 * limb_num + 4 * window_num) as nat),
            decreases window_num
//@-
{
            window_num -= 1;
//@+
            let ghost pos = (64 * limb_num + 4 * window_num) as nat;
            let ghost first = limb_num == starting_limb && window_num == starting_window;
            let ghost x0 = xx;
            let ghost mut acc: int = xx;
//@-
            if limb_num != starting_limb || window_num != starting_window {
                let mut i = 0;
                while i < WINDOW
//@+
                    invariant 0 <= i <= 4, m == modulus.0.v(), m > 0, z.v() < m, mr(z, m) == acc % m,
                        1 <= LIMBS < 0x1000_0000, m % 2 == 1, neg_inv_ok(mod_neg_inv, modulus.0.limbs@[0]),
                        acc == (if i == 0 { x0 } else if i == 1 { x0 * x0 } else if i == 2 { (x0 * x0) * (x0 * x0) } else if i == 3 { ((x0 * x0) * (x0 * x0)) * ((x0 * x0) * (x0 * x0)) } else { ((x0 * x0) * (x0 * x0)) * ((x0 * x0) * (x0 * x0)) * (((x0 * x0) * (x0 * x0)) * ((x0 * x0) * (x0 * x0))) }),
                    decreases 4 - i
//@-
{
                    i += 1;
                    z = square_montgomery_form(&z, modulus, mod_neg_inv);
//@+
                    proof {
                        lemma_mul_mod_noop_general(acc, acc, m);
                        acc = acc * acc;
                    }
//@-
                }
//@+
                proof { lemma_pw_pow16(x0); xx = pow(x0, 16); }
//@-
            }
//@+
            proof {
                if first {
                    // first window: x0 == ip(.., pos+4) == 1
                    lemma_pw_ip_top(bs, es, len, k, pos + 4);
                    lemma1_pow(16);
                    xx = pow(x0, 16);
                }
            }
            let ghost x16 = xx;
//@-
            let mut i = 0;
            while i < powers_and_exponents.len()
//@+
                invariant
                    pe == powers_and_exponents@, len == pe.len(), k == exponent_bits, m == modulus.0.v(), m > 0, 1 <= k <= 64 * RHS_LIMBS,
                    bs == tab_bases(pe, m), es == tab_exps(pe),
                    1 <= LIMBS < 0x1000_0000, m % 2 == 1, neg_inv_ok(mod_neg_inv, modulus.0.limbs@[0]),
                    starting_limb == (k - 1) / 64, starting_bit_in_limb == (k - 1) % 64, starting_window == starting_bit_in_limb / 4,
                    tfirst == starting_bit_in_limb % 4 + 1, starting_window_mask == (1u64 << (tfirst as u32)) - 1,
                    limb_num <= starting_limb, window_num < 16, limb_num == starting_limb ==> window_num <= starting_window,
                    pos == 64 * limb_num + 4 * window_num, first == (limb_num == starting_limb && window_num == starting_window),
                    0 <= i <= len,
                    forall|i: int| 0 <= i < len ==> es[i] >= 0,
                    tab_ok(pe, m),
                    z.v() < m, mr(z, m) == xx % m,
                    xx == x16 * idg(bs, es, i as nat, k, pos),
                decreases len - i
//@-
{
                let (powers, exponent) = powers_and_exponents[i];
                let w = exponent.as_limbs()[limb_num].0;
                let mut idx = (w >> (window_num * WINDOW)) & WINDOW_MASK();
                if limb_num == starting_limb && window_num == starting_window {
                    idx &= starting_window_mask;
                }
//@+
                proof {
                    assert(idx < 16) by (bit_vector) requires idx == ((w >> (window_num * 4u32)) & 15) || idx == (((w >> (window_num * 4u32)) & 15) & starting_window_mask);
                    assert(es[i as int] == val(exponent.limbs@, RHS_LIMBS as nat));
                    if first {
                        assert(k == 64 * limb_num + 4 * window_num + tfirst);
                        lemma_pw_digit_first(exponent.limbs@, RHS_LIMBS as nat, k, limb_num as nat, window_num as nat, tfirst, idx);
                        lemma_small_mod(idx as nat, 16);
                    } else {
                        assert(pos + 4 <= k);
                        lemma_pw_digit(exponent.limbs@, RHS_LIMBS as nat, k, limb_num as nat, window_num as nat);
                    }
                    assert(idx as nat == ep(es[i as int], k, pos) % 16);
                    assert(row_ok(pe[i as int].0@, m));
                }
//@-
                // Constant-time lookup in the array of powers
                let mut power = powers[0];
                let mut j = 1;
                while j < 1 << WINDOW
//@+
                    invariant 1 <= j <= 16, idx < 16, power == (if 1 <= idx < j { powers@[idx as int] } else { powers@[0] }),
                    decreases 16 - j
//@-
{
//@+
                    proof { assert((1u64 << 4u32) == 16u64) by (bit_vector); }
//@-
                    let choice = ConstChoice::from_word_eq(j, idx);
                    power = Uint::<LIMBS>::select(&power, &powers[j as usize], choice);
                    j += 1;
                }
//@+
                proof {
                    assert((1u64 << 4u32) == 16u64) by (bit_vector);
                    assert(power == pe[i as int].0@[idx as int]);
                }
//@-
                z = mul_montgomery_form(&z, &power, modulus, mod_neg_inv);
//@+
                proof {
                    let d = ep(es[i as int], k, pos) % 16;
                    let pw = pow(bs[i as int], d);
                    assert(mr(power, m) == pw % m);
                    lemma_mul_mod_noop_general(xx, pw, m);
                    assert(x16 * idg(bs, es, (i + 1) as nat, k, pos) == (x16 * idg(bs, es, i as nat, k, pos)) * pw) by (nonlinear_arith)
                        requires idg(bs, es, (i + 1) as nat, k, pos) == idg(bs, es, i as nat, k, pos) * pw;
                    xx = xx * pw;
                }
//@-
                i += 1;
            }
//@+
            proof {
                lemma_pw_window(bs, es, len, k, pos);
                assert(xx == ip(bs, es, len, k, pos));
            }
//@-
        }
    }
//@+
    proof { lemma_pw_ip_zero(bs, es, len, k); }
//@-
    z
}
//@@ end

} // verus!
