// L8: BoxedMontyMultiplier (src/modular/boxed_monty_form/mul.rs) and the boxed fixed-window exponentiation ladder
// `pow_montgomery_form` (src/modular/boxed_monty_form/pow.rs) -- C09 C08
//
// Proved for pow_montgomery_form: totality (every index, shift and precondition of the ladder, incl. the final
// `debug_assert!(&z < modulus)`), result precision, and the CANONICAL RANGE of the result: result < modulus. The argument is the one of
// the comment in /repo made rigorous with the slice-level postcondition of `almost_montgomery_mul` proved in l7_boxed_slices.rs
// (AMM(x, y) * R < x * y + m * R): powers[i] = AMM(powers[i-1] < R, x < m) < 2m, the accumulator after `mul_amm_assign(z < R, power < 2m)` is
// < 3m, so the two conditional subtractions of m end in [0, m). The functional value (x^e in Montgomery form) is NOT stated here.
// body: BoxedMontyMultiplier::new / mul_amm_assign / square_amm_assign / mul_amm (over the proved slice function), pow_montgomery_form.
// BoxedMontyMultiplier::clear_product is a body (rewrite S3: `iter_mut().for_each(|l| *l = E)` -> `for l in ..iter_mut() { *l = E; }`); no stub left in this unit.
// gen.py rewrite R12 turns the two `RangeInclusive` loops into `while more__k` loops (see units/README.md).
use vstd::prelude::*;
use vstd::arithmetic::power::*;
use vstd::arithmetic::power2::*;
use vstd::arithmetic::div_mod::*;
use crate::speclib::*;
use crate::speclib_bits::*;
use crate::l0_prim::*;
use crate::l0_corespec::*;
use crate::l1_choice::*;
use crate::l1_limb::*;
use crate::l2_core::*;
use crate::l2_subtle::*;
use crate::l5_monty::neg_inv_ok;
use crate::l7_traits::*;
use crate::l7_boxed_slices::almost_montgomery_mul;
use crate::l7_boxed_div::*;
use crate::l8_boxed_methods::*;
use crate::l8_boxed_ct::ConstantTimeSelect;   // the `ct_assign` declaration
verus! {

broadcast use {crate::l8_boxed_methods::lemma_shl4_u64, crate::l8_boxed_methods::lemma_shl4_usize, crate::l8_boxed_methods::lemma_shl_small_u64};

proof fn lemma_rng(x: &BoxedUint)
    ensures 0 <= x.v() < bp(x.nl()), bp(x.nl()) > 0
{ lemma_val_bound(x.limbs@, x.nl()); }

proof fn lemma_nlimbs_for(n: nat)
    requires 1 <= n < 0x400_0000
    ensures nlimbs_for((64 * n) as u32) == n
{ }

/// AMM bound: r*R < a*b + m*R with a < R and b < c*m  ==>  r < (c+1)*m
proof fn lemma_amm_bound(rv: int, a: int, b: int, m: int, r: int, c: int)
    requires rv * r < a * b + m * r, 0 <= a < r, 0 <= b < c * m, m > 0, r > 0, c >= 1
    ensures rv < (c + 1) * m
{
    assert(a * b <= r * (c * m)) by (nonlinear_arith) requires 0 <= a < r, 0 <= b < c * m;
    assert(r * (c * m) + m * r == ((c + 1) * m) * r) by (nonlinear_arith);
    assert(rv < (c + 1) * m) by (nonlinear_arith) requires rv * r < ((c + 1) * m) * r, r > 0;
}

//@@ item src/modular/boxed_monty_form/mul.rs | struct BoxedMontyMultiplier
#[derive(Clone)]
pub struct BoxedMontyMultiplier<'a> {
    pub product: BoxedUint,
    pub modulus: &'a BoxedUint,
    pub mod_neg_inv: Limb,
}
//@@ end

impl<'a> BoxedMontyMultiplier<'a> {
    /// invariant of the multiplier: product buffer of the modulus' precision, `mod_neg_inv` = -1/m mod 2^64 (hence m odd, m > 0)
    pub open spec fn wf(&self) -> bool {
        self.modulus.wf() && self.product.nl() == self.modulus.nl() && neg_inv_ok(self.mod_neg_inv, self.modulus.limbs@[0])
    }
    /// same modulus / constant as before (the methods only use the product buffer as scratch space)
    pub open spec fn same(&self, o: &Self) -> bool { self.modulus == o.modulus && self.mod_neg_inv == o.mod_neg_inv }
}

/// r = AMM(a, b): r < R, r*R == a*b mod m, r*R < a*b + m*R   (R = B^n)
pub open spec fn amm_post(r: int, a: int, b: int, m: int, n: nat) -> bool {
    0 <= r < bp(n) && m > 0 && (r * bp(n)) % m == (a * b) % m && r * bp(n) < a * b + m * bp(n)
}

//@@ fn src/modular/boxed_monty_form/mul.rs | impl<'a> BoxedMontyMultiplier<'a> | new | body | props C08 C11
impl<'a> BoxedMontyMultiplier<'a> {
pub fn new(modulus: &'a BoxedUint, mod_neg_inv: Limb) -> (ret__: Self)
//@+
    requires modulus.wf(), neg_inv_ok(mod_neg_inv, modulus.limbs@[0])
    ensures ret__.wf(), ret__.modulus == modulus, ret__.mod_neg_inv == mod_neg_inv
//@-
{
//@+
    proof { lemma_nlimbs_for(modulus.nl()); }
//@-
        Self {
            product: BoxedUint::zero_with_precision(modulus.bits_precision()),
            modulus,
            mod_neg_inv,
        }
    }
}
//@@ end
// S3 (`iter_mut().for_each(|x| *x = E)` -> the equivalent `for x in ..iter_mut() { *x = E; }`: closures that assign through a `&mut` argument cannot be specified)
//@@ subst ^(\s*)self\.product\s*$ => \1for limb in self.product
//@@ subst ^(\s*)\.for_each\(\|limb\|\s*$ => \1
//@@ subst ^\}\);\s*$ => ;}
//@@ fn src/modular/boxed_monty_form/mul.rs | impl<'a> BoxedMontyMultiplier<'a> | clear_product | body | props C08 C11
impl<'a> BoxedMontyMultiplier<'a> {
pub fn clear_product(&mut self)
//@+
    ensures final(self).same(old(self)), final(self).product.nl() == old(self).product.nl(),
        forall|j: int| 0 <= j < final(self).product.limbs@.len() ==> final(self).product.limbs@[j].0 == 0
//@-
{
        for limb in self.product
            .limbs
            .iter_mut()
            
//@+
    invariant
        forall|k: int| 0 <= k < VERUS_ghost_iter.index() ==> (*final(#[trigger] VERUS_ghost_iter.seq()[k])).0 == 0,
//@-
{
*limb = Limb::ZERO
;}
    }
}
//@@ end
//@@ subst-clear
//@@ fn src/modular/boxed_monty_form/mul.rs | impl<'a> BoxedMontyMultiplier<'a> | mul_amm_assign | body | props C08 C11
impl<'a> BoxedMontyMultiplier<'a> {
pub fn mul_amm_assign(&mut self, a: &mut BoxedUint, b: &BoxedUint)
//@+
    requires old(self).wf(), old(a).nl() == old(self).modulus.nl(), b.nl() == old(self).modulus.nl()
    ensures final(self).wf(), final(self).same(old(self)), final(a).nl() == old(a).nl(),
        amm_post(final(a).v(), old(a).v(), b.v(), old(self).modulus.v(), old(a).nl())
//@-
{
        debug_assert_eq!(a.bits_precision(), self.modulus.bits_precision());
        debug_assert_eq!(b.bits_precision(), self.modulus.bits_precision());
        self.clear_product();
        almost_montgomery_mul(
            self.product.as_limbs_mut(),
            a.as_limbs(),
            b.as_limbs(),
            self.modulus.as_limbs(),
            self.mod_neg_inv,
        );
        a.limbs.copy_from_slice(&self.product.limbs);
    }
}
//@@ end
//@@ fn src/modular/boxed_monty_form/mul.rs | impl<'a> BoxedMontyMultiplier<'a> | square_amm_assign | body | props C08 C11
impl<'a> BoxedMontyMultiplier<'a> {
pub fn square_amm_assign(&mut self, a: &mut BoxedUint)
//@+
    requires old(self).wf(), old(a).nl() == old(self).modulus.nl()
    ensures final(self).wf(), final(self).same(old(self)), final(a).nl() == old(a).nl(),
        amm_post(final(a).v(), old(a).v(), old(a).v(), old(self).modulus.v(), old(a).nl())
//@-
{
        debug_assert_eq!(a.bits_precision(), self.modulus.bits_precision());
        // TODO(tarcieri): optimized implementation
        self.clear_product();
        almost_montgomery_mul(
            self.product.as_limbs_mut(),
            a.as_limbs(),
            a.as_limbs(),
            self.modulus.as_limbs(),
            self.mod_neg_inv,
        );
        a.limbs.copy_from_slice(&self.product.limbs);
    }
}
//@@ end
//@@ fn src/modular/boxed_monty_form/mul.rs | impl<'a> BoxedMontyMultiplier<'a> | mul_amm | body | props C08 C11
impl<'a> BoxedMontyMultiplier<'a> {
pub fn mul_amm(&mut self, a: &BoxedUint, b: &BoxedUint) -> (ret__: BoxedUint)
//@+
    requires old(self).wf(), a.nl() == old(self).modulus.nl(), b.nl() == old(self).modulus.nl()
    ensures final(self).wf(), final(self).same(old(self)), ret__.nl() == a.nl(),
        amm_post(ret__.v(), a.v(), b.v(), old(self).modulus.v(), a.nl())
//@-
{
        let mut ret = a.clone();
        self.mul_amm_assign(&mut ret, b);
        ret
    }
}
//@@ end
//@@ fn src/modular/boxed_monty_form/pow.rs | - | pow_montgomery_form | body | props C09 C08 C11
pub fn pow_montgomery_form(
    x: &BoxedUint,
    exponent: &BoxedUint,
    exponent_bits: u32,
    modulus: &BoxedUint,
    one: &BoxedUint,
    mod_neg_inv: Limb,
) -> (ret__: BoxedUint)
//@+
    requires modulus.wf(), x.nl() == modulus.nl(), one.nl() == modulus.nl(), neg_inv_ok(mod_neg_inv, modulus.limbs@[0]),
        x.v() < modulus.v(), one.v() < modulus.v(),
        exponent.nl() < 0x400_0000, exponent_bits as int <= 64 * exponent.nl()
    ensures ret__.nl() == modulus.nl(), ret__.v() < modulus.v()
//@-
{
//@+
    let ghost n = modulus.nl(); let ghost m = modulus.v(); let ghost r = bp(n);
    proof { lemma_rng(modulus); lemma_rng(x); lemma_rng(one); lemma_not_all(); }
//@-
    if exponent_bits == 0 {
        return one.clone(); // 1 in Montgomery form
    }
    const WINDOW: u32 = 4;
    const WINDOW_MASK: Word = (1 << WINDOW) - 1;
    let mut multiplier = BoxedMontyMultiplier::new(modulus, mod_neg_inv);
    // powers[i] contains x^i
    let mut powers = Vec::with_capacity(1 << WINDOW);
    powers.push(one.clone()); // 1 in Montgomery form
    powers.push(x.clone());
    for i in 2..(1 << WINDOW)
//@+
    invariant powers.len() == i, multiplier.wf(), multiplier.modulus == modulus, multiplier.mod_neg_inv == mod_neg_inv,
        n == modulus.nl(), m == modulus.v(), r == bp(n), m > 0, x.nl() == n, x.v() < m,
        forall|k: int| 0 <= k < powers.len() ==> (#[trigger] powers[k]).nl() == n && powers[k].v() < 2 * m,
//@-
{
//@+
    let ghost pprev = powers[i - 1]; let ghost old_powers = powers@;
    proof { lemma_rng(&pprev); lemma_rng(x); }
//@-
        powers.push(multiplier.mul_amm(&powers[i - 1], x));
//@+
    proof {
        let nw = powers[i as int];
        lemma_amm_bound(nw.v(), pprev.v(), x.v(), m, r, 1);
        assert forall|k: int| 0 <= k < powers.len() implies (#[trigger] powers[k]).nl() == n && powers[k].v() < 2 * m by {
            if k < i { assert(powers[k] == old_powers[k]); }
        }
    }
//@-
    }
    let starting_limb = ((exponent_bits - 1) / Limb::BITS) as usize;
    let starting_bit_in_limb = (exponent_bits - 1) % Limb::BITS;
    let starting_window = starting_bit_in_limb / WINDOW;
    let starting_window_mask = (1 << (starting_bit_in_limb % WINDOW + 1)) - 1;
    let mut z = one.clone(); // 1 in Montgomery form
    let mut power = powers[0].clone();
    { let lo__0 = 0; let mut it__0 = starting_limb; let mut more__0 = lo__0 <= it__0;
while more__0
//@+
    invariant modulus.wf(), n == modulus.nl(), m == modulus.v(), r == bp(n), m > 0,
        multiplier.wf(), multiplier.modulus == modulus, multiplier.mod_neg_inv == mod_neg_inv,
        powers.len() == 16, forall|k: int| 0 <= k < 16 ==> (#[trigger] powers[k]).nl() == n && powers[k].v() < 2 * m,
        z.nl() == n, z.v() < 3 * m, power.nl() == n,
        lo__0 == 0, it__0 <= starting_limb, starting_limb < exponent.nl(), starting_window <= 15, starting_bit_in_limb < 64,
        starting_window == starting_bit_in_limb / 4,
        forall|c: Choice| c.wf() ==> (#[trigger] choice_not(c)).wf() && choice_not(c).t() == !c.t(),
    decreases (if more__0 { it__0 as int + 1 } else { 0 }),
//@-
{
let limb_num = it__0;
        let w = exponent.as_limbs()[limb_num].0;
        let mut window_num = if limb_num == starting_limb {
            starting_window + 1
        } else {
            Limb::BITS / WINDOW
        };
        while window_num > 0
//@+
    invariant modulus.wf(), n == modulus.nl(), m == modulus.v(), r == bp(n), m > 0,
        multiplier.wf(), multiplier.modulus == modulus, multiplier.mod_neg_inv == mod_neg_inv,
        powers.len() == 16, forall|k: int| 0 <= k < 16 ==> (#[trigger] powers[k]).nl() == n && powers[k].v() < 2 * m,
        z.nl() == n, z.v() < 3 * m, power.nl() == n, window_num <= 16,
    decreases window_num,
//@-
{
            window_num -= 1;
            let mut idx = (w >> (window_num * WINDOW)) & WINDOW_MASK;
            if limb_num == starting_limb && window_num == starting_window {
                idx &= starting_window_mask;
            } else {
                { let hi__1 = WINDOW; let mut it__1 = 1; let mut more__1 = it__1 <= hi__1;
while more__1
//@+
    invariant n == modulus.nl(), multiplier.wf(), multiplier.modulus == modulus, multiplier.mod_neg_inv == mod_neg_inv,
        z.nl() == n, hi__1 == 4, 1 <= it__1 <= hi__1,
    decreases (if more__1 { hi__1 - it__1 + 1 } else { 0 }),
//@-
{
let _ = it__1;
                    multiplier.square_amm_assign(&mut z);
if it__1 == hi__1 { more__1 = false; } else { it__1 += 1; }
} }
            }
            // Constant-time lookup in the array of powers
            power.limbs.copy_from_slice(&powers[0].limbs);
            for i in 1..(1 << WINDOW)
//@+
    invariant powers.len() == 16, forall|k: int| 0 <= k < 16 ==> (#[trigger] powers[k]).nl() == n && powers[k].v() < 2 * m,
        n == modulus.nl(), n < 0x400_0000, power.nl() == n, power.v() < 2 * m,
//@-
{
                power.ct_assign(&powers[i as usize], i.ct_eq(&idx));
            }
//@+
    let ghost z0 = z.v();
    proof { lemma_rng(&z); lemma_rng(&power); }
//@-
            multiplier.mul_amm_assign(&mut z, &power);
//@+
    proof { lemma_amm_bound(z.v(), z0, power.v(), m, r, 2); }
//@-
        }
if it__0 == lo__0 { more__0 = false; } else { it__0 -= 1; }
} }
    // Ensure the output is properly reduced.
    //
    // Using the properties of `almost_mongtomery_mul()` (see its documentation):
    // - We have an incoming `x` which is fully reduced (`floor(x / modulus) = 0`).
    // - We build an array of `powers` which are produced by multiplying the previous power by `x`,
    //   so for each power `floor(power / modulus) <= 1`.
    // - Then we take turns squaring the accumulator `z` (bringing `floor(z / modulus)` to 1
    //   regardless of the previous reduction level) and multiplying by a power of `x`
    //   (bringing `floor(z / modulus)` to at most 2).
    // - Then we either exit the loop, or square again, which brings `floor(z / modulus)` back to 1.
    //
    // Now that we exited the loop, we need to reduce `z` at most twice
    // to bring it within `[0, modulus)`.
//@+
    let ghost z1 = z.v();
    proof { lemma_rng(&z); assert(z1 < 3 * m && z.nl() == n); }
//@-
    z.conditional_sbb_assign(modulus, !z.ct_lt(modulus));
//@+
    let ghost z2 = z.v();
    proof { lemma_rng(&z); assert(z2 == (if z1 >= m { z1 - m } else { z1 })); }
//@-
    z.conditional_sbb_assign(modulus, !z.ct_lt(modulus));
//@+
    proof { lemma_rng(&z); assert(z.v() == (if z2 >= m { z2 - m } else { z2 })); }
//@-
    debug_assert!(&z < modulus);
    z
}
//@@ end

} // verus!
