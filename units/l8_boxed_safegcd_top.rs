// L8: `Inverter::invert` of src/modular/safegcd/boxed.rs (entry point of the boxed Bernstein-Yang inverter), PROVED against the concrete
// inverter model of l8_boxed_safegcd.rs (`swf` / `sm` / `sadj`, contract `sg_invert_post` == the one of the fixed-width `SafeGcdInverter::inv`).
// The crate trait `Inverter` is hand-declared here (one method per unit) and re-exported by l8_boxed_monty.rs, whose inverter model
// (`m()` / `adj()` / `nl()`, `sgi_invert_post`) is defined over this concrete one. -- C10
use vstd::prelude::*;
use vstd::arithmetic::power::*;
use vstd::arithmetic::power2::*;
use vstd::arithmetic::div_mod::*;
use crate::speclib::*;
use crate::speclib_bits::*;
use crate::l0_prim::*;
use crate::l1_choice::*;
use crate::l1_limb::*;
use crate::l2_core::*;
use crate::l2_subtle::*;
use crate::l4_safegcd::*;
use crate::l7_traits::*;
use crate::l7_boxed_div::*;
use crate::l8_boxed_methods::*;
use crate::l8_boxed_safegcd::*;
use crate::l8_boxed_safegcd::{divsteps, divsteps_vartime};

verus! {

// hand-declared crate trait (src/traits.rs), one method per unit
pub trait Inverter {
    type Output;
    spec fn invert_req(&self, value: &Self::Output) -> bool;
    spec fn invert_ens(&self, value: &Self::Output, r: CtOption<Self::Output>) -> bool;
    fn invert(&self, value: &Self::Output) -> (r: CtOption<Self::Output>)
        requires self.invert_req(value)
        ensures self.invert_ens(value, r);
}

//@@ fn src/modular/safegcd/boxed.rs | impl Inverter for BoxedSafeGcdInverter | invert | body | props C10
impl Inverter for BoxedSafeGcdInverter {
//@+
    type Output = BoxedUint;
    // `to_uint(value.bits_precision())` asserts that value has the precision the inverter was built for
    open spec fn invert_req(&self, value: &BoxedUint) -> bool { self.swf(value.nl()) }
    open spec fn invert_ens(&self, value: &BoxedUint, r: CtOption<BoxedUint>) -> bool { sg_invert_post(self, value, r) }
//@-
fn invert(&self, value: &BoxedUint) -> (ret__: CtOption<Self::Output>)
{
//@+
    let ghost mm = self.sm(); let ghost x = value.v(); let ghost aa = self.sadj(); let ghost sn = value.nl(); let ghost un = self.modulus.n();
    proof {
        lemma_val_bound(value.limbs@, sn);
        lemma_nlimbs_room(sn, un);
        self.modulus.lemma_range(); lemma_q62_ge(un);
        assert(mm * B() <= q62(un) && x * B() <= q62(un)) by (nonlinear_arith) requires 0 <= mm < bp(sn), 0 <= x < bp(sn), bp(sn) * B() <= q62(un);
    }
//@-
        let mut d = BoxedUnsatInt::zero(self.modulus.nlimbs());
        let mut g = BoxedUnsatInt::from(value).widen(d.nlimbs());
        let f = divsteps(&mut d, &self.adjuster, &self.modulus, &mut g, self.inverse);
        // At this point the absolute value of "f" equals the greatest common divisor of the
        // integer to be inverted and the modulus the inverter was created for.
        // Thus, if "f" is neither 1 nor -1, then the sought inverse does not exist.
        let antiunit = f.is_minus_one();
//@+
    let ghost dv = d.sv(); let ghost fv = f.sv();
    proof { assert(8 * mm <= q62(un)); }
//@-
        let ret = self.norm(d, antiunit);
        let is_some = f.is_one() | antiunit;
//@+
        proof {
            let r = ret.sv();
            ret.lemma_range();
            lemma_choice_ops(Choice(if fv == 1 { 1u8 } else { 0u8 }), antiunit);
            lemma_bp_succ((sn - 1) as nat);
            assert(bp(sn) >= 2) by (nonlinear_arith) requires bp(sn) == B() * bp((sn - 1) as nat), bp((sn - 1) as nat) >= 1;
            if mm % 2 == 1 {
                lemma_invert_final(mm, x, aa, dv, fv, r, fv == 1, antiunit.t());
            }
            lemma_small_mod(r as nat, bp(sn) as nat);
        }
//@-
        CtOption::new(ret.to_uint(value.bits_precision()), is_some)
    }
}
//@@ end

} // verus!
