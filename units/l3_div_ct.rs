// L3: constant-time full division (src/uint/div.rs: div_rem, rem, wrapping_div, checked_div, checked_rem) -- C02
use vstd::prelude::*;
use vstd::arithmetic::power::*;
use vstd::arithmetic::power2::*;
use vstd::arithmetic::div_mod::*;
use crate::speclib::*;
use crate::speclib_bits::*;
use crate::l0_prim::*;
use crate::l1_choice::*;
use crate::l1_limb::*;
use crate::l2_core::*;
use crate::l2_shift::*;
use crate::l3_divlimb::*;
verus! {

//@@ subst \b(Self|Uint)::(ZERO|ONE|MAX|BITS|LOG2_BITS)\b(?!\() => \1::\2()
//@@ subst \bUint::<(\w+)>::(ZERO|ONE|MAX|BITS)\b(?!\() => Uint::<\1>::\2()
//@@ fn src/uint/div.rs | impl<const LIMBS: usize> Uint<LIMBS> | div_rem | body | props C02 C11 C15
impl<const LIMBS: usize> Uint<LIMBS> {
pub const fn div_rem(&self, rhs: &NonZero<Self>) -> (ret__: (Self, Self))
//@+
    requires 1 <= LIMBS < 0x400_0000, rhs.0.v() != 0
    ensures ret__.0.v() * rhs.0.v() + ret__.1.v() == self.v(), 0 <= ret__.1.v() < rhs.0.v()
//@-
{
        // Based on Section 4.3.1, of The Art of Computer Programming, Volume 2, by Donald E. Knuth.
        // Further explanation at https://janmr.com/blog/2014/04/basic-multiple-precision-long-division/
        // Statically determined short circuit for Uint<1>
        if LIMBS == 1 {
            let (quo, rem_limb) = self.div_rem_limb(rhs.0.limbs[0].to_nz().expect("zero divisor"));
            let mut rem = Self::ZERO();
            rem.limbs[0] = rem_limb;
            return (quo, rem);
        }
        let dbits = rhs.0.bits();
        assert!(dbits > 0, "zero divisor");
        let dwords = dbits.div_ceil(Limb::BITS);
        let lshift = (Limb::BITS - (dbits % Limb::BITS)) % Limb::BITS;
        // Shift entire divisor such that the high bit is set
        let mut y = rhs.0.shl(Self::BITS() - dbits).to_limbs();
        // Shift the dividend to align the words
        let (x, mut x_hi) = self.shl_limb(lshift);
        let mut x = x.to_limbs();
        let mut xi = LIMBS - 1;
        let mut x_lo = x[LIMBS - 1];
        let mut i;
        let mut carry;
        let reciprocal = Reciprocal::new(y[LIMBS - 1].to_nz().expect("zero divisor"));
        while xi > 0
{
            // Divide high dividend words by the high divisor word to estimate the quotient word
            let mut quo = div3by2(x_hi.0, x_lo.0, x[xi - 1].0, &reciprocal, y[LIMBS - 2].0);
            // This loop is a no-op once xi is smaller than the number of words in the divisor
            let done = ConstChoice::from_u32_lt(xi as u32, dwords - 1);
            quo = done.select_word(quo, 0);
            // Subtract q*divisor from the dividend
            carry = Limb::ZERO;
            let mut borrow = Limb::ZERO;
            let mut tmp;
            i = 0;
            while i <= xi
{
                let (__t0, __t1) = Limb::ZERO.mac(y[LIMBS - xi + i - 1], Limb(quo), carry); tmp = __t0; carry = __t1;
                let (__t2, __t3) = x[i].sbb(tmp, borrow); x[i] = __t2; borrow = __t3;
                i += 1;
            }
            let (_, __t4) = x_hi.sbb(carry, borrow); borrow = __t4;
            // If the subtraction borrowed, then decrement q and add back the divisor
            // The probability of this being needed is very low, about 2/(Limb::MAX+1)
            let ct_borrow = ConstChoice::from_word_mask(borrow.0);
            carry = Limb::ZERO;
            i = 0;
            while i <= xi
{
                let (__t5, __t6) = x[i].adc( Limb::select(Limb::ZERO, y[LIMBS - xi + i - 1], ct_borrow), carry, ); x[i] = __t5; carry = __t6;
                i += 1;
            }
            quo = ct_borrow.select_word(quo, quo.saturating_sub(1));
            // Store the quotient within dividend and set x_hi to the current highest word
            x_hi = Limb::select(x[xi], x_hi, done);
            x[xi] = Limb::select(Limb(quo), x[xi], done);
            x_lo = Limb::select(x[xi - 1], x_lo, done);
            xi -= 1;
        }
        let limb_div = ConstChoice::from_u32_eq(1, dwords);
        // Calculate quotient and remainder for the case where the divisor is a single word
        // Note that `div2by1()` will panic if `x_hi >= reciprocal.divisor_normalized`,
        // but this can only be the case if `limb_div` is falsy,
        // in which case we discard the result anyway,
        // so we conditionally set `x_hi` to zero for this branch.
        let x_hi_adjusted = Limb::select(Limb::ZERO, x_hi, limb_div);
        let (quo2, rem2) = div2by1(x_hi_adjusted.0, x_lo.0, &reciprocal);
        // Adjust the quotient for single limb division
        x[0] = Limb::select(x[0], Limb(quo2), limb_div);
        // Copy out the remainder
        y[0] = Limb::select(x[0], Limb(rem2), limb_div);
        i = 1;
        while i < LIMBS
{
            y[i] = Limb::select(Limb::ZERO, x[i], ConstChoice::from_u32_lt(i as u32, dwords));
            y[i] = Limb::select(y[i], x_hi, ConstChoice::from_u32_eq(i as u32, dwords - 1));
            i += 1;
        }
        (
            Uint::new(x).shr((dwords - 1) * Limb::BITS),
            Uint::new(y).shr(lshift),
        )
    }
}
//@@ end
//@@ fn src/uint/div.rs | impl<const LIMBS: usize> Uint<LIMBS> | rem | body | props C02 C11 C15
impl<const LIMBS: usize> Uint<LIMBS> {
pub const fn rem(&self, rhs: &NonZero<Self>) -> (ret__: Self)
//@+
    requires 1 <= LIMBS < 0x400_0000, rhs.0.v() != 0
    ensures ret__.v() == self.v() % rhs.0.v()
//@-
{
        self.div_rem(rhs).1
    }
}
//@@ end
//@@ fn src/uint/div.rs | impl<const LIMBS: usize> Uint<LIMBS> | wrapping_div | body | props C02 C11
impl<const LIMBS: usize> Uint<LIMBS> {
pub const fn wrapping_div(&self, rhs: &NonZero<Self>) -> (ret__: Self)
{
        self.div_rem(rhs).0
    }
}
//@@ end
//@@ fn src/uint/div.rs | impl<const LIMBS: usize> Uint<LIMBS> | checked_div | body | props C02 C11
impl<const LIMBS: usize> Uint<LIMBS> {
pub fn checked_div(&self, rhs: &Self) -> (ret__: CtOption<Self>)
{
        NonZero::new(*rhs).map(|rhs| {
            let (q, _r) = self.div_rem(&rhs);
            q
        })
    }
}
//@@ end
//@@ fn src/uint/div.rs | impl<const LIMBS: usize> Uint<LIMBS> | checked_rem | body | props C02 C11
impl<const LIMBS: usize> Uint<LIMBS> {
pub fn checked_rem(&self, rhs: &Self) -> (ret__: CtOption<Self>)
{
        NonZero::new(*rhs).map(|rhs| self.rem(&rhs))
    }
}
//@@ end

} // verus!
