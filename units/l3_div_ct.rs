// L3: constant-time full division (src/uint/div.rs: div_rem, rem, wrapping_div) -- C02
// not covered: checked_div / checked_rem (return subtle::CtOption, a type that is not part of the Verus crate)
use vstd::prelude::*;
use vstd::arithmetic::power::*;
use vstd::arithmetic::power2::*;
use vstd::arithmetic::div_mod::*;
use crate::speclib::*;
use crate::speclib_bits::*;
use crate::l0_corespec::*;
use crate::l0_prim::*;
use crate::l1_choice::*;
use crate::l1_limb::*;
use crate::l2_core::*;
use crate::l2_shift::*;
use crate::l3_divlimb::*;
verus! {

// u32::div_ceil (used by div_rem) is specified in l0_corespec.rs (assumed core spec, one per crate)

// ---------------------------------------------------------------------------------------------
// Private vocabulary and lemmas of the constant-time Knuth division proof (all names ct_*).
// ---------------------------------------------------------------------------------------------

spec fn ct_maxn(a: nat, b: nat) -> nat { if a >= b { a } else { b } }

/// value of the limbs p..n of s, scaled down by B^p
spec fn ct_tvq(s: Seq<Limb>, p: nat, n: nat) -> int
    decreases n
{ if n <= p { 0 } else { ct_tvq(s, p, (n - 1) as nat) + s[n - 1].0 as int * bp((n - 1 - p) as nat) } }

/// Knuth 4.3.1 Theorem B in the form needed here: the quotient of the top three by the top two limbs
/// (saturated to B-1) over-estimates the true quotient digit by at most one.
proof fn ct_lemma_knuth_digit(wv: int, y: int, u3: int, v2: int, wl: int, yl: int, e: int, q: int)
    requires
        e >= 1, wv == u3 * e + wl, 0 <= wl < e, y == v2 * e + yl, 0 <= yl < e,
        0 <= wv < y * B(), 2 * y >= B() * B() * e, u3 >= 0, v2 > 0,
        q == min_int(B() - 1, u3 / v2),
    ensures
        wv / y <= q <= wv / y + 1, 0 <= wv / y <= B() - 1,
{
    let b = B();
    let qt = wv / y;
    assert(y > 0) by (nonlinear_arith) requires 2 * y >= b * b * e, e >= 1, b == B();
    lemma_fundamental_div_mod(wv, y);
    lemma_mod_bound(wv, y);
    lemma_div_pos_is_pos(wv, y);
    assert(y * qt == qt * y) by (nonlinear_arith);
    assert(qt * y <= wv < (qt + 1) * y) by (nonlinear_arith) requires wv == y * qt + wv % y, 0 <= wv % y < y;
    assert(qt < b) by (nonlinear_arith) requires qt * y <= wv, wv < y * b, y > 0;
    let q3 = u3 / v2;
    lemma_fundamental_div_mod(u3, v2);
    lemma_mod_bound(u3, v2);
    lemma_div_pos_is_pos(u3, v2);
    assert(v2 * q3 == q3 * v2) by (nonlinear_arith);
    assert(q3 * v2 <= u3 < (q3 + 1) * v2) by (nonlinear_arith) requires u3 == v2 * q3 + u3 % v2, 0 <= u3 % v2 < v2;
    // qt <= q3
    assert(qt * (v2 * e) <= qt * y) by (nonlinear_arith) requires qt >= 0, y == v2 * e + yl, yl >= 0;
    assert(qt * (v2 * e) == qt * v2 * e) by (nonlinear_arith);
    assert(qt * v2 < u3 + 1) by (nonlinear_arith) requires qt * v2 * e <= wv, wv == u3 * e + wl, wl < e, e >= 1;
    assert(qt < q3 + 1) by (nonlinear_arith) requires qt * v2 <= u3, u3 < (q3 + 1) * v2, v2 > 0;
    assert(qt <= q);
    // q <= qt + 1
    if q >= qt + 2 {
        assert(q <= q3);
        assert(q * v2 <= u3) by (nonlinear_arith) requires q <= q3, q3 * v2 <= u3, v2 > 0;
        assert((qt + 2) * v2 <= q * v2) by (nonlinear_arith) requires qt + 2 <= q, v2 > 0;
        assert((qt + 2) * v2 * e <= u3 * e) by (nonlinear_arith) requires (qt + 2) * v2 <= u3, e >= 1;
        assert((qt + 2) * v2 * e == (qt + 2) * y - (qt + 2) * yl) by (nonlinear_arith) requires y == v2 * e + yl;
        assert((qt + 2) * yl <= (qt + 2) * e) by (nonlinear_arith) requires qt + 2 >= 0, yl <= e;
        assert((qt + 2) * y == (qt + 1) * y + y) by (nonlinear_arith);
        assert(y < (qt + 2) * e);
        assert((qt + 2) * e <= (b + 1) * e) by (nonlinear_arith) requires qt + 2 <= b + 1, e >= 1;
        assert(b * b * e > 2 * ((b + 1) * e)) by (nonlinear_arith) requires e >= 1, b == 0x1_0000_0000_0000_0000;
        assert(false);
    }
}

proof fn ct_lemma_tv_factor(s: Seq<Limb>, p: nat, n: nat)
    requires p <= n
    ensures tv(s, p, n) == bp(p) * ct_tvq(s, p, n), ct_tvq(s, p, n) >= 0
    decreases n - p
{
    if n > p {
        ct_lemma_tv_factor(s, p, (n - 1) as nat);
        lemma_bp_add(p, (n - 1 - p) as nat);
        lemma_bp_succ((n - 1 - p) as nat);
        let a = s[n - 1].0 as int; let e = bp((n - 1 - p) as nat);
        assert((p + (n - 1 - p)) as nat == (n - 1) as nat);
        assert(bp(p) * (ct_tvq(s, p, (n - 1) as nat) + a * e) == bp(p) * ct_tvq(s, p, (n - 1) as nat) + a * (bp(p) * e)) by (nonlinear_arith);
        assert(a * e >= 0) by (nonlinear_arith) requires a >= 0, e > 0;
    } else {
        assert(bp(p) * 0 == 0);
    }
}

/// value of the top m limbs of y (length n), unscaled
proof fn ct_lemma_top_limbs(y: Seq<Limb>, n: nat, yc: nat, m: nat, yv: int)
    requires 1 <= yc <= m <= n, val(y, n) == yv * bp((n - yc) as nat), forall|j: int| 0 <= j < n - yc ==> y[j].0 == 0,
    ensures ct_tvq(y, (n - m) as nat, n) == yv * bp((m - yc) as nat)
{
    let lo = (n - m) as nat;
    ct_lemma_tv_factor(y, lo, n);
    lemma_val_hi_zero(y, 0, lo);
    assert(val(y, 0) == 0);
    lemma_bp_add(lo, (m - yc) as nat);
    assert((lo + (m - yc)) as nat == (n - yc) as nat);
    lemma_bp_succ(lo);
    let t = ct_tvq(y, lo, n); let e = bp((m - yc) as nat); let pl = bp(lo);
    assert(pl * t == yv * (pl * e));
    assert(yv * (pl * e) == pl * (yv * e)) by (nonlinear_arith);
    assert(t == yv * e) by (nonlinear_arith) requires pl * t == pl * (yv * e), pl > 0;
}

/// ct_tvq over a window equals val of the corresponding subrange
proof fn ct_lemma_tvq_sub(s: Seq<Limb>, p: nat, n: nat)
    requires p <= n <= s.len()
    ensures ct_tvq(s, p, n) == val(s.subrange(p as int, s.len() as int), (n - p) as nat)
    decreases n - p
{
    if n > p {
        ct_lemma_tvq_sub(s, p, (n - 1) as nat);
        let t = s.subrange(p as int, s.len() as int);
        assert(t[n - 1 - p] == s[n - 1]);
        assert((n - p - 1) as nat == (n - 1 - p) as nat);
    }
}

/// if val(s, n) is a multiple of B^lo then the low lo limbs are zero
proof fn ct_lemma_val_small_low(s: Seq<Limb>, lo: nat, n: nat, yv: int)
    requires lo <= n, val(s, n) == yv * bp(lo),
    ensures forall|j: int| 0 <= j < lo ==> s[j].0 == 0,
{
    ct_lemma_tv_factor(s, lo, n);
    lemma_val_bound(s, lo);
    lemma_bp_succ(lo);
    let a = val(s, lo); let t = ct_tvq(s, lo, n); let pl = bp(lo);
    assert(a == pl * (yv - t)) by (nonlinear_arith) requires a + pl * t == yv * pl;
    assert(yv - t == 0) by (nonlinear_arith) requires a == pl * (yv - t), 0 <= a < pl, pl > 0;
    assert(a == 0) by (nonlinear_arith) requires a == pl * (yv - t), yv - t == 0;
    lemma_val_zero_iff(s, lo);
}

/// Normalisation: facts about the shifted divisor y = rhs << (BITS - dbits) and the shifted dividend.
pub proof fn ct_lemma_setup(y: Seq<Limb>, n: nat, dbits: nat, lshift: nat, yc: nat, rv: int, sv: int)
    requires
        n >= 1, 0 < dbits <= 64 * n,
        yc as int == (dbits + 63) / 64, lshift as int == (64 - dbits % 64) % 64,
        p2((dbits - 1) as nat) <= rv < p2(dbits), 0 <= sv < bp(n),
        val(y, n) == (rv * p2((64 * n - dbits) as nat)) % bp(n),
    ensures
        1 <= yc <= n, dbits + lshift == 64 * yc, lshift < 64, p2(lshift) > 0,
        2 * (rv * p2(lshift)) >= bp(yc), rv * p2(lshift) < bp(yc), rv * p2(lshift) > 0,
        val(y, n) == (rv * p2(lshift)) * bp((n - yc) as nat),
        forall|j: int| 0 <= j < n - yc ==> y[j].0 == 0,
        y[n - 1].0 as int >= B() / 2,
        0 <= sv * p2(lshift) < (rv * p2(lshift)) * bp((n + 1 - yc) as nat),
{
    let s2 = p2(lshift); let yv = rv * s2; let xv = sv * s2;
    let d = (n - yc) as nat;
    lemma_bp_succ(0); lemma_pow2_pos(lshift); lemma_pow2_pos((dbits - 1) as nat);
    assert(dbits + lshift == 64 * yc);
    assert(1 <= yc <= n);
    lemma_bp_pow2(yc); lemma_bp_pow2(n); lemma_bp_pow2(d);
    lemma_pow2_adds((dbits - 1) as nat, lshift);
    lemma_pow2_adds(dbits, lshift);
    lemma_pow2_unfold((64 * yc) as nat);
    assert((dbits - 1 + lshift) as nat == (64 * yc - 1) as nat);
    assert(rv * s2 >= p2((dbits - 1) as nat) * s2) by (nonlinear_arith) requires rv >= p2((dbits - 1) as nat), s2 > 0;
    assert(rv * s2 < p2(dbits) * s2) by (nonlinear_arith) requires rv < p2(dbits), s2 > 0;
    assert(2 * yv >= bp(yc) && yv < bp(yc));
    // y = rv * 2^(64n - dbits) = yv * B^(n - yc), no wrap
    let sh = (64 * n - dbits) as nat;
    assert(sh == lshift + 64 * d);
    lemma_pow2_adds(lshift, 64 * d);
    assert(p2(sh) == s2 * bp(d));
    assert(rv * (s2 * bp(d)) == yv * bp(d)) by (nonlinear_arith) requires yv == rv * s2;
    lemma_bp_add(yc, d); lemma_bp_succ(d);
    assert((yc + d) as nat == n);
    assert(yv * bp(d) < bp(yc) * bp(d)) by (nonlinear_arith) requires yv < bp(yc), bp(d) > 0;
    assert(yv * bp(d) >= 0) by (nonlinear_arith) requires yv >= 0, bp(d) > 0;
    lemma_small_mod((yv * bp(d)) as nat, bp(n) as nat);
    assert(val(y, n) == yv * bp(d));
    // top limb of y normalised
    lemma_val_bound(y, (n - 1) as nat);
    lemma_bp_succ((n - 1) as nat);
    let top = y[n - 1].0 as int; let pt = bp((n - 1) as nat);
    assert(2 * (yv * bp(d)) >= bp(yc) * bp(d)) by (nonlinear_arith) requires 2 * yv >= bp(yc), bp(d) > 0;
    assert(2 * top >= B() - 1) by (nonlinear_arith)
        requires 2 * (val(y, (n - 1) as nat) + top * pt) >= B() * pt, val(y, (n - 1) as nat) <= pt - 1, pt > 0;
    assert(top >= B() / 2);
    ct_lemma_val_small_low(y, d, n, yv);
    // initial remainder bound
    lemma2_to64(); lemma2_to64_rest();
    if lshift < 63 { lemma_pow2_strictly_increases(lshift, 63); }
    assert(s2 <= 0x8000_0000_0000_0000);
    let d1 = (n + 1 - yc) as nat;
    lemma_bp_add(yc, d1);
    assert((yc + d1) as nat == (n + 1) as nat);
    lemma_bp_succ(n); lemma_bp_succ(d1);
    assert(xv < s2 * bp(n)) by (nonlinear_arith) requires xv == sv * s2, sv < bp(n), s2 > 0;
    assert(xv >= 0) by (nonlinear_arith) requires xv == sv * s2, sv >= 0, s2 > 0;
    assert(s2 * bp(n) <= 0x8000_0000_0000_0000 * bp(n)) by (nonlinear_arith) requires s2 <= 0x8000_0000_0000_0000, bp(n) > 0;
    assert(2 * (yv * bp(d1)) >= bp(yc) * bp(d1)) by (nonlinear_arith) requires 2 * yv >= bp(yc), bp(d1) > 0;
}

/// The running high limb never exceeds the top divisor limb (precondition of div3by2).
pub proof fn ct_lemma_hi_le_top(xb: Seq<Limb>, y: Seq<Limb>, h: int, n: nat, yc: nat, k: nat, yv: int)
    requires
        1 <= yc <= n, 1 <= k <= n, k + 1 >= yc, h >= 0,
        val(y, n) == yv * bp((n - yc) as nat),
        h * bp(k) + val(xb, k) < yv * bp((k + 1 - yc) as nat),
    ensures
        h <= y[n - 1].0 as int,
{
    let top = y[n - 1].0 as int;
    let e = bp((yc - 1) as nat); let f = bp((n - yc) as nat); let g = bp((k + 1 - yc) as nat);
    lemma_bp_succ(k); lemma_bp_succ((yc - 1) as nat); lemma_bp_succ((n - yc) as nat); lemma_bp_succ((k + 1 - yc) as nat);
    lemma_val_bound(xb, k);
    lemma_val_bound(y, (n - 1) as nat);
    lemma_bp_add((yc - 1) as nat, (n - yc) as nat);
    assert(((yc - 1) + (n - yc)) as nat == (n - 1) as nat);
    assert(yv < (top + 1) * e) by (nonlinear_arith)
        requires yv * f == val(y, (n - 1) as nat) + top * bp((n - 1) as nat),
            val(y, (n - 1) as nat) <= bp((n - 1) as nat) - 1,
            bp((n - 1) as nat) == e * f, f > 0;
    lemma_bp_add((yc - 1) as nat, (k + 1 - yc) as nat);
    assert(((yc - 1) + (k + 1 - yc)) as nat == k);
    assert(yv * g < (top + 1) * bp(k)) by (nonlinear_arith)
        requires yv < (top + 1) * e, bp(k) == e * g, g > 0;
    assert(h < top + 1) by (nonlinear_arith) requires h * bp(k) < (top + 1) * bp(k), bp(k) > 0;
}

/// Quotient digit estimate for an active step (xi + 1 >= yc): q in {qt, qt + 1} where qt is the true digit.
pub proof fn ct_lemma_digit(xb: Seq<Limb>, y: Seq<Limb>, h: int, n: nat, yc: nat, xi: nat, yv: int, q: int)
    requires
        2 <= n, 1 <= yc <= n, 1 <= xi < n, xi + 1 >= yc, xb.len() == n, y.len() == n, 0 <= h,
        val(y, n) == yv * bp((n - yc) as nat), forall|j: int| 0 <= j < n - yc ==> y[j].0 == 0,
        yv > 0, y[n - 1].0 as int >= B() / 2,
        h * bp(xi + 1) + val(xb, xi + 1) < yv * bp((xi + 2 - yc) as nat),
        q == min_int(B() - 1, ((h * B() + xb[xi as int].0 as int) * B() + xb[xi - 1].0 as int) / (y[n - 1].0 as int * B() + y[n - 2].0 as int)),
    ensures ({
        let m = xi + 1;
        let dd = val(y.subrange(n - m, n as int), m);
        let remv = h * bp(m) + val(xb, m);
        let qt = remv / dd;
        &&& dd == yv * bp((m - yc) as nat) &&& 0 < dd <= bp(m) &&& remv >= 0
        &&& qt <= q <= qt + 1 &&& 0 <= qt <= B() - 1 &&& qt * dd <= remv < (qt + 1) * dd &&& 0 <= remv - qt * dd < dd
    })
{
    let m = xi + 1;
    let ys = y.subrange(n - m, n as int);
    let dd = val(ys, m);
    let remv = h * bp(m) + val(xb, m);
    let qt = remv / dd;
    lemma_bp_succ(0);
    ct_lemma_tvq_sub(y, (n - m) as nat, n);
    ct_lemma_top_limbs(y, n, yc, m, yv);
    assert(dd == yv * bp((m - yc) as nat));
    let top = y[n - 1].0 as int; let y2 = y[n - 2].0 as int;
    let x1 = xb[xi as int].0 as int; let x0 = xb[xi - 1].0 as int;
    let u3 = (h * B() + x1) * B() + x0;
    let v2 = top * B() + y2;
    let e = bp((xi - 1) as nat);
    let wl = val(xb, (xi - 1) as nat);
    let yl = val(ys, (xi - 1) as nat);
    lemma_val_bound(xb, (xi - 1) as nat); lemma_val_bound(ys, (xi - 1) as nat);
    lemma_bp_succ((xi - 1) as nat); lemma_bp_succ(xi);
    assert(ys[xi as int] == y[n - 1]); assert(ys[xi - 1] == y[n - 2]);
    assert(val(xb, m) == val(xb, xi) + x1 * bp(xi));
    assert(val(xb, xi) == wl + x0 * e);
    assert(val(ys, m) == val(ys, xi) + top * bp(xi));
    assert(val(ys, xi) == yl + y2 * e);
    assert(remv == u3 * e + wl) by (nonlinear_arith)
        requires remv == h * bp(m) + wl + x0 * e + x1 * bp(xi), bp(m) == B() * bp(xi), bp(xi) == B() * e,
            u3 == (h * B() + x1) * B() + x0;
    assert(dd == v2 * e + yl) by (nonlinear_arith)
        requires dd == yl + y2 * e + top * bp(xi), bp(xi) == B() * e, v2 == top * B() + y2;
    assert(u3 >= 0) by (nonlinear_arith) requires u3 == (h * B() + x1) * B() + x0, h >= 0, x1 >= 0, x0 >= 0;
    assert(v2 > 0) by (nonlinear_arith) requires v2 == top * B() + y2, top >= B() / 2, y2 >= 0;
    // remv < dd * B
    lemma_bp_succ((m - yc) as nat);
    assert((xi + 2 - yc) as nat == ((m - yc) + 1) as nat);
    assert(yv * bp((xi + 2 - yc) as nat) == dd * B()) by (nonlinear_arith)
        requires dd == yv * bp((m - yc) as nat), bp((xi + 2 - yc) as nat) == B() * bp((m - yc) as nat);
    // 2*dd >= B*B*e  (= B^(xi+1))
    assert(2 * dd >= B() * B() * e) by (nonlinear_arith)
        requires dd == yl + y2 * e + top * (B() * e), top >= B() / 2, yl >= 0, y2 >= 0, e >= 1, B() == 0x1_0000_0000_0000_0000;
    assert(remv >= 0) by (nonlinear_arith) requires remv == u3 * e + wl, u3 >= 0, e >= 1, wl >= 0;
    ct_lemma_knuth_digit(remv, dd, u3, v2, wl, yl, e, q);
    assert(dd > 0) by (nonlinear_arith) requires 2 * dd >= B() * B() * e, e >= 1;
    lemma_val_bound(ys, m);
    lemma_fundamental_div_mod(remv, dd);
    lemma_mod_bound(remv, dd);
    assert(qt * dd <= remv < (qt + 1) * dd) by (nonlinear_arith)
        requires remv == dd * qt + remv % dd, 0 <= remv % dd < dd;
    assert((qt + 1) * dd == qt * dd + dd) by (nonlinear_arith);
}

/// one step of the multiply-and-subtract loop (integer level)
pub proof fn ct_lemma_mulsub_step(vx: int, vxb: int, vys: int, q: int, pk: int, xo: int, xn: int, tm: int, yi: int, c0: int, c1: int, b0: int, b1: int)
    requires
        vx == vxb - q * vys + c0 * pk + b0 * pk,
        tm + c1 * B() == yi * q + c0,
        xn - b1 * B() == xo - tm - b0,
        0 <= xn < B(), 0 <= xo < B(), 0 <= tm, 0 <= c1, b1 == 0 || b1 == 1,
    ensures
        vx + xn * pk == (vxb + xo * pk) - q * (vys + yi * pk) + c1 * (B() * pk) + b1 * (B() * pk),
        (q == 0 && c0 == 0 && b0 == 0) ==> (c1 == 0 && b1 == 0 && xn == xo),
{
    assert(xn * pk == xo * pk - (yi * q) * pk + c1 * (B() * pk) - c0 * pk + b1 * (B() * pk) - b0 * pk) by (nonlinear_arith)
        requires tm + c1 * B() == yi * q + c0, xn - b1 * B() == xo - tm - b0;
    assert((yi * q) * pk == q * (yi * pk)) by (nonlinear_arith);
    assert(q * (vys + yi * pk) == q * vys + q * (yi * pk)) by (nonlinear_arith);
    if q == 0 && c0 == 0 && b0 == 0 {
        assert(yi * 0 == 0);
        assert(c1 == 0 && tm == 0) by (nonlinear_arith) requires tm + c1 * B() == 0, tm >= 0, c1 >= 0;
        assert(b1 == 0 && xn == xo) by (nonlinear_arith) requires xn - b1 * B() == xo, 0 <= xn < B(), 0 <= xo < B(), b1 == 0 || b1 == 1;
    }
}

/// one step of the conditional add-back loop (integer level)
pub proof fn ct_lemma_addback_step(vx: int, vxs: int, vys: int, mm: int, pk: int, xo: int, xn: int, yi: int, sel: int, c0: int, c1: int)
    requires
        vx + c0 * pk == vxs + mm * vys,
        xn + c1 * B() == xo + sel + c0,
        (mm == 1 && sel == yi) || (mm == 0 && sel == 0),
        0 <= xn < B(), 0 <= xo < B(), 0 <= c1,
    ensures
        vx + xn * pk + c1 * (B() * pk) == (vxs + xo * pk) + mm * (vys + yi * pk),
        (mm == 0 && c0 == 0) ==> (c1 == 0 && xn == xo),
{
    assert(mm * yi == sel) by (nonlinear_arith) requires (mm == 1 && sel == yi) || (mm == 0 && sel == 0);
    assert(xn * pk + c1 * (B() * pk) == xo * pk + mm * yi * pk + c0 * pk) by (nonlinear_arith)
        requires xn + c1 * B() == xo + mm * yi + c0;
    assert(mm * yi * pk == mm * (yi * pk)) by (nonlinear_arith);
    assert(mm * (vys + yi * pk) == mm * vys + mm * (yi * pk)) by (nonlinear_arith);
    if mm == 0 && c0 == 0 {
        assert(c1 == 0 && xn == xo) by (nonlinear_arith) requires xn + c1 * B() == xo, 0 <= xn < B(), 0 <= xo < B(), c1 >= 0;
    }
}

/// after x -= q*dd: the final borrow tells whether q over-estimated, and the low m limbs hold the remainder (mod B^m)
pub proof fn ct_lemma_after_sub(remv: int, dd: int, q: int, qt: int, l: int, tt: int, pt: int, bbv: int, c: int, b0: int, h: int, vxbm: int)
    requires
        l == vxbm - q * dd + c * pt + b0 * pt,
        tt - bbv * B() == h - c - b0,
        remv == h * pt + vxbm,
        0 <= l < pt, 0 <= tt < B(), bbv == 0 || bbv == 1, 0 < dd <= pt,
        qt * dd <= remv < (qt + 1) * dd, qt <= q <= qt + 1,
    ensures
        (bbv == 1) == (q == qt + 1),
        l == (if bbv == 1 { pt + (remv - qt * dd) - dd } else { remv - qt * dd }),
{
    assert(tt * pt - bbv * (B() * pt) == h * pt - c * pt - b0 * pt) by (nonlinear_arith)
        requires tt - bbv * B() == h - c - b0;
    assert(l + tt * pt == remv - q * dd + bbv * (B() * pt));
    assert(q * dd == qt * dd + (q - qt) * dd) by (nonlinear_arith);
    assert((qt + 1) * dd == qt * dd + dd) by (nonlinear_arith);
    let tpt = tt * pt; let bpt = B() * pt;
    let rprime = remv - qt * dd;
    assert(0 <= rprime < dd);
    assert(tt >= 1 ==> tpt >= pt) by (nonlinear_arith) requires tpt == tt * pt, pt > 0;
    assert(tt <= B() - 2 ==> tpt <= bpt - 2 * pt) by (nonlinear_arith) requires tpt == tt * pt, bpt == B() * pt, pt > 0;
    assert(tpt >= 0) by (nonlinear_arith) requires tpt == tt * pt, tt >= 0, pt > 0;
    assert(tpt <= bpt - pt) by (nonlinear_arith) requires tpt == tt * pt, bpt == B() * pt, tt <= B() - 1, pt > 0;
    assert(bbv == 0 ==> bbv * bpt == 0) by (nonlinear_arith);
    assert(bbv == 1 ==> bbv * bpt == bpt) by (nonlinear_arith);
    if q == qt {
        assert((q - qt) * dd == 0) by (nonlinear_arith) requires q - qt == 0;
        assert(l + tpt == rprime + bbv * bpt);
        assert(bbv == 0);
        assert(tt == 0);
        assert(l == rprime);
    } else {
        assert(q == qt + 1);
        assert((q - qt) * dd == dd) by (nonlinear_arith) requires q - qt == 1;
        assert(l + tpt == rprime - dd + bbv * bpt);
        assert(bbv == 1);
        assert(tt == B() - 1);
        assert(tpt == bpt - pt) by (nonlinear_arith) requires tpt == tt * pt, bpt == B() * pt, tt == B() - 1;
        assert(l == pt + rprime - dd);
    }
}

/// after the conditional add-back the low m limbs hold the true partial remainder
pub proof fn ct_lemma_after_add(l2: int, c: int, pt: int, lsub: int, dd: int, mm: int, rprime: int)
    requires
        l2 + c * pt == lsub + mm * dd, mm == 0 || mm == 1,
        lsub == (if mm == 1 { pt + rprime - dd } else { rprime }),
        0 <= rprime < dd, dd <= pt, 0 <= l2 < pt, c >= 0,
    ensures
        l2 == rprime,
{
    let cpt = c * pt;
    assert(c == 0 ==> cpt == 0) by (nonlinear_arith) requires cpt == c * pt;
    assert(c == 1 ==> cpt == pt) by (nonlinear_arith) requires cpt == c * pt;
    assert(c >= 2 ==> cpt >= 2 * pt) by (nonlinear_arith) requires cpt == c * pt, pt > 0;
    if mm == 1 {
        assert(mm * dd == dd) by (nonlinear_arith) requires mm == 1;
        assert(l2 + cpt == pt + rprime);
        assert(c == 1);
    } else {
        assert(mm * dd == 0) by (nonlinear_arith) requires mm == 0;
        assert(l2 + cpt == rprime);
        assert(c == 0);
    }
}

/// storing the digit qt at position xi re-establishes the outer invariant for k = xi
pub proof fn ct_lemma_store(xa: Seq<Limb>, xn: Seq<Limb>, n: nat, xi: nat, yc: nat, qacc: int, qt: int, yv: int, xv: int, remv: int, dd: int)
    requires
        1 <= xi < n, 1 <= yc <= xi + 1,
        forall|j: int| 0 <= j < n && j != xi ==> xn[j] == xa[j], xn[xi as int].0 as int == qt,
        val(xa, xi + 1) == remv - qt * dd, 0 <= remv - qt * dd < dd,
        dd == yv * bp((xi + 1 - yc) as nat),
        xv == qacc * yv + remv,
        tv(xa, xi + 1, n) == qacc * bp((yc - 1) as nat),
    ensures ({
        let pa = bp((xi + 1 - yc) as nat);
        let hn = xa[xi as int].0 as int;
        &&& xv == (qacc + qt * pa) * yv + hn * bp(xi) + val(xn, xi)
        &&& hn * bp(xi) + val(xn, xi) < yv * pa
        &&& tv(xn, xi, n) == (qacc + qt * pa) * bp((yc - 1) as nat)
    })
{
    let m = xi + 1;
    let pa = bp((m - yc) as nat);
    lemma_val_ext(xa, xn, xi);
    lemma_tv_ext(xn, xa, m, n);
    lemma_bp_succ(xi);
    let rp = remv - qt * dd;
    assert(val(xa, m) == val(xa, xi) + xa[xi as int].0 as int * bp(xi));
    assert(xa[xi as int].0 as int * bp(xi) + val(xn, xi) == rp);
    assert(val(xn, m) == val(xn, xi) + qt * bp(xi));
    assert(tv(xn, xi, n) == tv(xn, m, n) + qt * bp(xi));
    lemma_bp_add((m - yc) as nat, (yc - 1) as nat);
    assert(((m - yc) + (yc - 1)) as nat == xi);
    assert(qt * bp(xi) == (qt * pa) * bp((yc - 1) as nat)) by (nonlinear_arith) requires bp(xi) == pa * bp((yc - 1) as nat);
    assert((qacc + qt * pa) * bp((yc - 1) as nat) == qacc * bp((yc - 1) as nat) + (qt * pa) * bp((yc - 1) as nat)) by (nonlinear_arith);
    assert((qacc + qt * pa) * yv == qacc * yv + qt * (yv * pa)) by (nonlinear_arith);
}

/// yc == 1: the top limb of the normalised divisor is the whole divisor
pub proof fn ct_lemma_single_top(y: Seq<Limb>, n: nat, yv: int)
    requires n >= 1, val(y, n) == yv * bp((n - 1) as nat),
    ensures y[n - 1].0 as int == yv,
{
    let d = (n - 1) as nat;
    ct_lemma_val_small_low(y, d, n, yv);
    lemma_val_hi_zero(y, 0, d);
    assert(val(y, 0) == 0);
    assert(val(y, n) == val(y, d) + y[n - 1].0 as int * bp(d));
    lemma_bp_succ(d);
    assert(y[n - 1].0 as int == yv) by (nonlinear_arith)
        requires y[n - 1].0 as int * bp(d) == yv * bp(d), bp(d) > 0;
}

/// final assembly, single-limb divisor (yc == 1)
pub proof fn ct_lemma_final_single(xq: Seq<Limb>, xf: Seq<Limb>, yf: Seq<Limb>, n: nat, qacc: int, q2: int, r2: int, hq: int, yv: int, xv: int)
    requires
        n >= 2,
        forall|j: int| 1 <= j < n ==> xf[j] == xq[j], xf[0].0 as int == q2,
        yf[0].0 as int == r2, forall|j: int| 1 <= j < n ==> yf[j].0 == 0,
        xv == qacc * yv + hq * bp(1) + val(xq, 1),
        tv(xq, 1, n) == qacc * bp(0),
        q2 * yv + r2 == hq * B() + xq[0].0 as int,
    ensures
        val(xf, n) / p2(0) == qacc + q2, val(yf, n) == r2, xv == (qacc + q2) * yv + r2,
{
    lemma_bp1(); lemma2_to64();
    lemma_tv_ext(xf, xq, 1, n);
    assert(val(xf, 1) == q2) by { assert(val(xf, 0) == 0); assert(q2 * 1 == q2) by (nonlinear_arith); }
    assert(val(xq, 1) == xq[0].0 as int) by { assert(val(xq, 0) == 0); let a = xq[0].0 as int; assert(a * 1 == a) by (nonlinear_arith); }
    assert(qacc * bp(0) == qacc) by (nonlinear_arith) requires bp(0) == 1;
    assert(val(xf, n) == q2 + qacc);
    lemma_val_single(yf, n);
    assert(xv == (qacc + q2) * yv + r2) by (nonlinear_arith)
        requires xv == qacc * yv + hq * B() + xq[0].0 as int, q2 * yv + r2 == hq * B() + xq[0].0 as int;
    lemma_div_basics(val(xf, n));
}

/// final assembly, multi-limb divisor (yc >= 2): remainder limbs x[0..yc-1) ++ [x_hi], quotient limbs x[yc-1..n)
pub proof fn ct_lemma_final_multi(xq: Seq<Limb>, yf: Seq<Limb>, n: nat, yc: nat, qacc: int, hq: Limb)
    requires
        2 <= yc <= n,
        yf[0] == xq[0],
        forall|j: int| 1 <= j < n ==> yf[j] == (if j == yc - 1 { hq } else if j < yc { xq[j] } else { Limb(0) }),
        tv(xq, (yc - 1) as nat, n) == qacc * bp((yc - 1) as nat),
    ensures
        val(yf, n) == hq.0 as int * bp((yc - 1) as nat) + val(xq, (yc - 1) as nat),
        val(xq, n) / p2((64 * (yc - 1)) as nat) == qacc,
{
    let k = (yc - 1) as nat;
    lemma_bp_pow2(k);
    lemma_bp_succ(k);
    lemma_val_hi_zero(yf, yc, n);
    lemma_val_ext(yf, xq, k);
    assert(val(yf, yc) == val(yf, k) + yf[yc - 1].0 as int * bp(k));
    let low = val(xq, k);
    let pb = bp(k);
    assert(val(xq, n) == low + qacc * pb);
    lemma_val_bound(xq, k);
    assert(qacc * pb == pb * qacc) by (nonlinear_arith);
    lemma_fundamental_div_mod_converse(val(xq, n), pb, qacc, low);
}

/// undo the normalisation shift
pub proof fn ct_lemma_unscale(sv: int, rv: int, s2: int, qfin: int, rfin: int)
    requires sv * s2 == qfin * (rv * s2) + rfin, 0 <= rfin < rv * s2, s2 > 0,
    ensures rfin / s2 == sv - qfin * rv, qfin * rv + (sv - qfin * rv) == sv, 0 <= sv - qfin * rv < rv,
{
    let rr = sv - qfin * rv;
    assert(rfin == rr * s2) by (nonlinear_arith) requires sv * s2 == qfin * (rv * s2) + rfin, rr == sv - qfin * rv;
    assert(0 <= rr < rv) by (nonlinear_arith) requires rfin == rr * s2, 0 <= rfin, rfin < rv * s2, s2 > 0;
    assert(rr * s2 == s2 * rr) by (nonlinear_arith);
    lemma_div_by_multiple(rr, s2);
}

/// quotient / remainder are determined by the division identity
pub proof fn ct_lemma_divrem_unique(a: int, d: int, q: int, r: int)
    requires q * d + r == a, 0 <= r < d,
    ensures q == a / d, r == a % d,
{
    assert(q * d == d * q) by (nonlinear_arith);
    lemma_fundamental_div_mod_converse(a, d, q, r);
}

//@@ subst \b(Self|Uint)::(ZERO|ONE|MAX|BITS|LOG2_BITS)\b(?!\() => \1::\2()
//@@ subst \bUint::<(\w+)>::(ZERO|ONE|MAX|BITS)\b(?!\() => Uint::<\1>::\2()
//@@ fn src/uint/div.rs | impl<const LIMBS: usize> Uint<LIMBS> | div_rem | body | props C02 C11 C15
impl<const LIMBS: usize> Uint<LIMBS> {
pub const fn div_rem(&self, rhs: &NonZero<Self>) -> (ret__: (Self, Self))
//@+
    requires 1 <= LIMBS < 0x400_0000, rhs.0.v() != 0
    ensures ret__.0.v() * rhs.0.v() + ret__.1.v() == self.v(), 0 <= ret__.1.v() < rhs.0.v(),
        ret__.0.v() == self.v() / rhs.0.v(), ret__.1.v() == self.v() % rhs.0.v()
//@-
{
        // Based on Section 4.3.1, of The Art of Computer Programming, Volume 2, by Donald E. Knuth.
        // Further explanation at https://janmr.com/blog/2014/04/basic-multiple-precision-long-division/
        // Statically determined short circuit for Uint<1>
        if LIMBS == 1 {
//@+
    proof { lemma_val_single(rhs.0.limbs@, 1); }
//@-
            let (quo, rem_limb) = self.div_rem_limb(rhs.0.limbs[0].to_nz().expect("zero divisor"));
            let mut rem = Self::ZERO();
            rem.limbs[0] = rem_limb;
//@+
    proof { lemma_val_single(rem.limbs@, 1); ct_lemma_divrem_unique(self.v(), rhs.0.v(), quo.v(), rem.v()); }
//@-
            return (quo, rem);
        }
        let dbits = rhs.0.bits();
        assert!(dbits > 0, "zero divisor");
        let dwords = dbits.div_ceil(Limb::BITS);
        let lshift = (Limb::BITS - (dbits % Limb::BITS)) % Limb::BITS;
//@+
    let ghost n = LIMBS as nat;
    let ghost yc = dwords as nat;
    let ghost rv = rhs.0.v();
    let ghost sv = self.v();
    let ghost s2 = p2(lshift as nat);
    let ghost yv = rv * s2;
    let ghost xv = sv * s2;
//@-
        // Shift entire divisor such that the high bit is set
        let mut y = rhs.0.shl(Self::BITS() - dbits).to_limbs();
        // Shift the dividend to align the words
        let (x, mut x_hi) = self.shl_limb(lshift);
        let mut x = x.to_limbs();
        let mut xi = LIMBS - 1;
        let mut x_lo = x[LIMBS - 1];
        let mut i;
        let mut carry;
//@+
    let ghost mut k: nat = n;
    let ghost mut qacc: int = 0;
    proof {
        lemma_val_bound(rhs.0.limbs@, n); lemma_val_bound(self.limbs@, n);
        ct_lemma_setup(y@, n, dbits as nat, lshift as nat, yc, rv, sv);
        assert(0 * yv == 0);
        assert(ct_maxn(n, (yc - 1) as nat) == n);
        lemma_bp_succ(0);
    }
//@-
        let reciprocal = Reciprocal::new(y[LIMBS - 1].to_nz().expect("zero divisor"));
        while xi > 0
//@+
    invariant
        2 <= LIMBS < 0x400_0000, n == LIMBS, 1 <= yc <= n, yc == dwords, xi < LIMBS,
        k == ct_maxn((xi + 1) as nat, (yc - 1) as nat), 1 <= k <= n,
        val(y@, n) == yv * bp((n - yc) as nat), forall|j: int| 0 <= j < n - yc ==> y@[j].0 == 0,
        yv > 0,
        reciprocal.wf(), reciprocal.shift == 0, reciprocal.divisor_normalized == y@[n - 1].0,
        xv == qacc * yv + x_hi.0 as int * bp(k) + val(x@, k),
        x_hi.0 as int * bp(k) + val(x@, k) < yv * bp((k + 1 - yc) as nat),
        tv(x@, k, n) == qacc * bp((yc - 1) as nat),
        x_lo == x@[k - 1],
    decreases xi
//@-
{
//@+
    let ghost xb = x@;
    let ghost hb = x_hi;
    let ghost active = xi + 1 >= yc;
    let ghost m = (xi + 1) as nat;
    let ghost ys = y@.subrange(n - m, n as int);
    let ghost dd = val(ys, m);
    let ghost remv = hb.0 as int * bp(m) + val(xb, m);
    proof { ct_lemma_hi_le_top(xb, y@, hb.0 as int, n, yc, k, yv); }
//@-
            // Divide high dividend words by the high divisor word to estimate the quotient word
            let mut quo = div3by2(x_hi.0, x_lo.0, x[xi - 1].0, &reciprocal, y[LIMBS - 2].0);
            // This loop is a no-op once xi is smaller than the number of words in the divisor
            let done = ConstChoice::from_u32_lt(xi as u32, dwords - 1);
            quo = done.select_word(quo, 0);
//@+
    let ghost q = quo as int;
    let ghost qt: int = if active { remv / dd } else { 0 };
    proof {
        assert(done.t() == !active);
        if active {
            assert(k == m);
            assert(x_lo == xb[xi as int]);
            ct_lemma_digit(xb, y@, hb.0 as int, n, yc, xi as nat, yv, q);
        }
    }
//@-
            // Subtract q*divisor from the dividend
            carry = Limb::ZERO;
            let mut borrow = Limb::ZERO;
            let mut tmp;
            i = 0;
            while i <= xi
//@+
    invariant
        2 <= LIMBS < 0x400_0000, n == LIMBS, 0 < xi < LIMBS, m == xi + 1, 0 <= i <= xi + 1, q == quo as int,
        xb.len() == LIMBS, ys.len() == m, forall|j: int| 0 <= j < m ==> ys[j] == y@[n - m + j],
        borrow.0 == 0 || borrow.0 == u64::MAX,
        forall|kq: int| 0 <= kq < LIMBS && !(kq < i) ==> x@[kq] == xb[kq],
        val(x@, i as nat) == val(xb, i as nat) - q * val(ys, i as nat) + carry.0 as int * bp(i as nat) + bb(borrow) * bp(i as nat),
        q == 0 ==> (carry.0 == 0 && borrow.0 == 0 && x@ == xb),
    decreases xi + 1 - i
//@-
{
//@+
    let ghost x_before = x@; let ghost carry_b = carry; let ghost borrow_b = borrow;
//@-
                let (__t0, __t1) = Limb::ZERO.mac(y[LIMBS - xi + i - 1], Limb(quo), carry); tmp = __t0; carry = __t1;
                let (__t2, __t3) = x[i].sbb(tmp, borrow); x[i] = __t2; borrow = __t3;
//@+
    proof {
        let kk = i as nat;
        assert(x@ =~= x_before.update(kk as int, __t2));
        lemma_val_ext(x_before, x@, kk);
        lemma_bp_succ(kk);
        assert(x_before[kk as int] == xb[kk as int]);
        assert(y@[LIMBS - xi + i - 1] == ys[i as int]);
        ct_lemma_mulsub_step(val(x_before, kk), val(xb, kk), val(ys, kk), q, bp(kk), xb[kk as int].0 as int, __t2.0 as int, tmp.0 as int,
            ys[i as int].0 as int, carry_b.0 as int, carry.0 as int, bb(borrow_b), bb(borrow));
        if q == 0 {
            assert(__t2 == x_before[kk as int]);
            assert(x@ =~= xb);
        }
    }
//@-
                i += 1;
            }
//@+
    let ghost bprev = borrow; let ghost cfin = carry;
//@-
            let (_, __t4) = x_hi.sbb(carry, borrow); borrow = __t4;
//@+
    proof {
        if active {
            let tt = x_hi.0 as int - cfin.0 as int - bb(bprev) + bb(borrow) * B();
            assert(0 <= tt < B());
            lemma_val_bound(x@, m);
            ct_lemma_after_sub(remv, dd, q, qt, val(x@, m), tt, bp(m), bb(borrow), cfin.0 as int, bb(bprev), hb.0 as int, val(xb, m));
        } else {
            assert(q == 0);
            assert(borrow.0 == 0);
        }
    }
    let ghost xs = x@;
    let ghost lsub = val(xs, m);
//@-
            // If the subtraction borrowed, then decrement q and add back the divisor
            // The probability of this being needed is very low, about 2/(Limb::MAX+1)
            let ct_borrow = ConstChoice::from_word_mask(borrow.0);
//@+
    let ghost mm: int = if ct_borrow.t() { 1 } else { 0 };
//@-
            carry = Limb::ZERO;
            i = 0;
            while i <= xi
//@+
    invariant
        2 <= LIMBS < 0x400_0000, n == LIMBS, 0 < xi < LIMBS, m == xi + 1, 0 <= i <= xi + 1, ct_borrow.wf(),
        mm == (if ct_borrow.t() { 1int } else { 0int }),
        xs.len() == LIMBS, ys.len() == m, forall|j: int| 0 <= j < m ==> ys[j] == y@[n - m + j],
        forall|kq: int| 0 <= kq < LIMBS && !(kq < i) ==> x@[kq] == xs[kq],
        val(x@, i as nat) + carry.0 as int * bp(i as nat) == val(xs, i as nat) + mm * val(ys, i as nat),
        !ct_borrow.t() ==> (carry.0 == 0 && x@ == xs),
    decreases xi + 1 - i
//@-
{
//@+
    let ghost x_before = x@; let ghost carry_b = carry;
//@-
                let (__t5, __t6) = x[i].adc( Limb::select(Limb::ZERO, y[LIMBS - xi + i - 1], ct_borrow), carry, ); x[i] = __t5; carry = __t6;
//@+
    proof {
        let kk = i as nat;
        assert(x@ =~= x_before.update(kk as int, __t5));
        lemma_val_ext(x_before, x@, kk);
        lemma_bp_succ(kk);
        assert(x_before[kk as int] == xs[kk as int]);
        assert(y@[LIMBS - xi + i - 1] == ys[i as int]);
        let yi = ys[i as int].0 as int;
        let sel = if ct_borrow.t() { yi } else { 0int };
        ct_lemma_addback_step(val(x_before, kk), val(xs, kk), val(ys, kk), mm, bp(kk), xs[kk as int].0 as int, __t5.0 as int, yi, sel,
            carry_b.0 as int, carry.0 as int);
        if !ct_borrow.t() {
            assert(__t5 == x_before[kk as int]);
            assert(x@ =~= xs);
        }
    }
//@-
                i += 1;
            }
            quo = ct_borrow.select_word(quo, quo.saturating_sub(1));
//@+
    proof {
        if active {
            lemma_val_bound(x@, m);
            ct_lemma_after_add(val(x@, m), carry.0 as int, bp(m), lsub, dd, mm, remv - qt * dd);
            assert(quo as int == qt);
        } else {
            assert(x@ == xb);
            assert(quo == 0);
        }
    }
    let ghost xa = x@;
//@-
            // Store the quotient within dividend and set x_hi to the current highest word
            x_hi = Limb::select(x[xi], x_hi, done);
            x[xi] = Limb::select(Limb(quo), x[xi], done);
            x_lo = Limb::select(x[xi - 1], x_lo, done);
//@+
    proof {
        let xn = x@;
        if active {
            assert(xn =~= xa.update(xi as int, Limb(quo)));
            lemma_tv_ext(xa, xb, m, n);
            ct_lemma_store(xa, xn, n, xi as nat, yc, qacc, qt, yv, xv, remv, dd);
            qacc = qacc + qt * bp((m - yc) as nat);
            k = xi as nat;
            assert((k + 1 - yc) as nat == (m - yc) as nat);
            assert(ct_maxn(xi as nat, (yc - 1) as nat) == k);
        } else {
            assert(xn =~= xb);
            assert(ct_maxn(xi as nat, (yc - 1) as nat) == k);
        }
    }
//@-
            xi -= 1;
        }
//@+
    // after the loop: xi == 0, k == max(1, yc-1)
    let ghost xq = x@;
    let ghost hq = x_hi;
    let ghost remq = hq.0 as int * bp(k) + val(xq, k);
//@-
        let limb_div = ConstChoice::from_u32_eq(1, dwords);
        // Calculate quotient and remainder for the case where the divisor is a single word
        // Note that `div2by1()` will panic if `x_hi >= reciprocal.divisor_normalized`,
        // but this can only be the case if `limb_div` is falsy,
        // in which case we discard the result anyway,
        // so we conditionally set `x_hi` to zero for this branch.
        let x_hi_adjusted = Limb::select(Limb::ZERO, x_hi, limb_div);
//@+
    proof {
        lemma_bp1();
        lemma_val_bound(xq, k);
        if yc == 1 {
            ct_lemma_single_top(y@, n, yv);
            assert(k == 1);
            assert((k + 1 - yc) as nat == 1);
            assert(hq.0 as int * B() < yv * B());
            assert((hq.0 as int) < yv) by (nonlinear_arith) requires hq.0 as int * B() < yv * B();
        }
    }
//@-
        let (quo2, rem2) = div2by1(x_hi_adjusted.0, x_lo.0, &reciprocal);
        // Adjust the quotient for single limb division
        x[0] = Limb::select(x[0], Limb(quo2), limb_div);
        // Copy out the remainder
        y[0] = Limb::select(x[0], Limb(rem2), limb_div);
        i = 1;
        while i < LIMBS
//@+
    invariant 2 <= LIMBS < 0x400_0000, n == LIMBS, 1 <= yc <= n, yc == dwords, 1 <= i <= LIMBS,
        forall|j: int| 1 <= j < i ==> y@[j] == (if j == yc - 1 { x_hi } else if j < yc { x@[j] } else { Limb(0) }),
        y@[0] == (if yc == 1 { Limb(rem2) } else { x@[0] }),
    decreases LIMBS - i
//@-
{
            y[i] = Limb::select(Limb::ZERO, x[i], ConstChoice::from_u32_lt(i as u32, dwords));
            y[i] = Limb::select(y[i], x_hi, ConstChoice::from_u32_eq(i as u32, dwords - 1));
            i += 1;
        }
//@+
    let ghost xf = x@;
    let ghost yf = y@;
    let ghost qfin: int = if yc == 1 { qacc + quo2 as int } else { qacc };
    let ghost rfin: int = if yc == 1 { rem2 as int } else { remq };
    proof {
        if yc == 1 {
            assert(xf =~= xq.update(0, Limb(quo2)));
            ct_lemma_final_single(xq, xf, yf, n, qacc, quo2 as int, rem2 as int, hq.0 as int, yv, xv);
        } else {
            assert(k == yc - 1);
            assert(xf =~= xq);
            assert(yv * bp(0) == yv) by (nonlinear_arith) requires bp(0) == 1;
            assert((k + 1 - yc) as nat == 0);
            ct_lemma_final_multi(xq, yf, n, yc, qacc, hq);
            lemma_bp_succ(k);
            assert(remq >= 0) by (nonlinear_arith) requires remq == hq.0 as int * bp(k) + val(xq, k), val(xq, k) >= 0, bp(k) > 0, hq.0 as int >= 0;
        }
        assert(val(xf, n) / p2((64 * (yc - 1)) as nat) == qfin);
        assert(val(yf, n) == rfin);
        assert(xv == qfin * yv + rfin);
        assert(0 <= rfin < yv);
        ct_lemma_unscale(sv, rv, s2, qfin, rfin);
        assert(((dwords - 1) * 64) as nat == (64 * (yc - 1)) as nat);
        ct_lemma_divrem_unique(sv, rv, qfin, sv - qfin * rv);
    }
//@-
        (
            Uint::new(x).shr((dwords - 1) * Limb::BITS),
            Uint::new(y).shr(lshift),
        )
    }
}
//@@ end
//@@ fn src/uint/div.rs | impl<const LIMBS: usize> Uint<LIMBS> | rem | body | props C02 C11 C15
impl<const LIMBS: usize> Uint<LIMBS> {
pub const fn rem(&self, rhs: &NonZero<Self>) -> (ret__: Self)
//@+
    requires 1 <= LIMBS < 0x400_0000, rhs.0.v() != 0
    ensures ret__.v() == self.v() % rhs.0.v(), 0 <= ret__.v() < rhs.0.v()
//@-
{
        self.div_rem(rhs).1
    }
}
//@@ end
//@@ fn src/uint/div.rs | impl<const LIMBS: usize> Uint<LIMBS> | wrapping_div | body | props C02 C11
impl<const LIMBS: usize> Uint<LIMBS> {
pub const fn wrapping_div(&self, rhs: &NonZero<Self>) -> (ret__: Self)
//@+
    requires 1 <= LIMBS < 0x400_0000, rhs.0.v() != 0
    ensures ret__.v() == self.v() / rhs.0.v()
//@-
{
        self.div_rem(rhs).0
    }
}
//@@ end

} // verus!
