// L3: constant-time full division (src/uint/div.rs: div_rem, rem, wrapping_div, checked_div, checked_rem) -- C02
use vstd::prelude::*;
use vstd::arithmetic::power::*;
use vstd::arithmetic::power2::*;
use vstd::arithmetic::div_mod::*;
use crate::speclib::*;
use crate::speclib_bits::*;
use crate::l0_prim::*;
use crate::l1_choice::*;
use crate::l1_limb::*;
use crate::l2_core::*;
use crate::l2_shift::*;
use crate::l3_divlimb::*;
verus! {

//@@ subst \b(Self|Uint)::(ZERO|ONE|MAX|BITS|LOG2_BITS)\b(?!\() => \1::\2()
//@@ subst \bUint::<(\w+)>::(ZERO|ONE|MAX|BITS)\b(?!\() => Uint::<\1>::\2()
//@@ fn src/uint/div.rs | impl<const LIMBS: usize> Uint<LIMBS> | div_rem | stub | props C02 C11 C15
impl<const LIMBS: usize> Uint<LIMBS> {
#[verifier::external_body]
pub const fn div_rem(&self, rhs: &NonZero<Self>) -> (ret__: (Self, Self))
//@+
    requires 1 <= LIMBS < 0x400_0000, rhs.0.v() != 0
    ensures ret__.0.v() * rhs.0.v() + ret__.1.v() == self.v(), 0 <= ret__.1.v() < rhs.0.v()
//@-
{
    unimplemented!()
}
}
//@@ end
//@@ fn src/uint/div.rs | impl<const LIMBS: usize> Uint<LIMBS> | rem | stub | props C02 C11 C15
impl<const LIMBS: usize> Uint<LIMBS> {
#[verifier::external_body]
pub const fn rem(&self, rhs: &NonZero<Self>) -> (ret__: Self)
//@+
    requires 1 <= LIMBS < 0x400_0000, rhs.0.v() != 0
    ensures ret__.v() == self.v() % rhs.0.v()
//@-
{
    unimplemented!()
}
}
//@@ end

} // verus!
