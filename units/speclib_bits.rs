// speclib_bits: value-level characterisations of the core bit-count / shift intrinsics (proof code only)
use vstd::prelude::*;
use vstd::std_specs::bits::*;
use vstd::bits::*;
use vstd::arithmetic::power2::*;
use vstd::arithmetic::div_mod::*;
use crate::speclib::*;
verus! {

pub proof fn lemma_one_shl(n: u64)
    requires n < 64
    ensures (1u64 << n) as int == p2(n as nat), p2(n as nat) <= 0x8000_0000_0000_0000
{
    lemma_u64_pow2_no_overflow(n as nat);
    lemma_u64_shl_is_mul(1, n);
    lemma2_to64_rest();
    if n < 63 { lemma_pow2_strictly_increases(n as nat, 63); }
}

pub proof fn lemma_high_zero(x: u64, n: nat)
    requires n <= 64, forall|j: u64| n <= j < 64 ==> #[trigger] (x >> j) & 1u64 == 0u64
    ensures (x as int) < p2(n)
    decreases 64 - n
{
    lemma2_to64_rest();
    if n < 64 {
        lemma_high_zero(x, n + 1);
        let s = n as u64;
        assert((x >> s) & 1u64 == 0u64);
        lemma_one_shl(s);
        if n < 63 {
            lemma_one_shl((s + 1) as u64);
            assert(x < (1u64 << ((s + 1) as u64)) && (x >> s) & 1u64 == 0u64 ==> x < (1u64 << s)) by (bit_vector) requires s < 63;
        } else {
            assert((x >> 63) & 1u64 == 0u64 ==> x < (1u64 << 63)) by (bit_vector);
        }
    }
}

pub proof fn lemma_lz64(x: u64)
    ensures 0 <= u64_leading_zeros(x) <= 64, (u64_leading_zeros(x) == 64) == (x == 0),
        (x as int) < p2((64 - u64_leading_zeros(x)) as nat),
        u64_leading_zeros(x) < 64 ==> x as int >= p2((63 - u64_leading_zeros(x)) as nat)
{
    axiom_u64_leading_zeros(x);
    let lz = u64_leading_zeros(x);
    lemma_high_zero(x, (64 - lz) as nat);
    if lz < 64 {
        let s = (63 - lz) as u64;
        lemma_one_shl(s);
        assert((x >> s) & 1u64 != 0u64 ==> x >= (1u64 << s)) by (bit_vector) requires s < 64;
    }
}

pub proof fn lemma_tz64(x: u64)
    ensures 0 <= u64_trailing_zeros(x) <= 64, (u64_trailing_zeros(x) == 64) == (x == 0),
        (x as int) % p2(u64_trailing_zeros(x) as nat) == 0,
        u64_trailing_zeros(x) < 64 ==> (x as int / p2(u64_trailing_zeros(x) as nat)) % 2 == 1
{
    axiom_u64_trailing_zeros(x);
    let tz = u64_trailing_zeros(x);
    lemma2_to64();
    if tz == 64 { lemma_pow2_pos(64); assert(x == 0); assert(0int % p2(64) == 0); }
    else if tz == 0 {
        assert((x >> 0u64) & 1u64 == 1u64 ==> x % 2 == 1) by (bit_vector);
        assert(p2(0) == 1);
        assert((x as int / 1) % 2 == 1);
    } else {
        let s = tz as u64;
        lemma_one_shl(s);
        let m = ((1u64 << s) - 1) as u64;
        assert(x << ((64 - s) as u64) == 0 ==> x & m == 0) by (bit_vector) requires 0 < s < 64, m == ((1u64 << s) - 1) as u64;
        let d = 1u64 << s;
        assert(x & m == 0 ==> x % d == 0) by (bit_vector) requires 0 < s < 64, m == ((1u64 << s) - 1) as u64, d == 1u64 << s;
        assert(x as int % p2(tz as nat) == 0);
        lemma_u64_shr_is_div(x, s);
        let y = x >> s;
        assert(y & 1u64 == 1u64 ==> y % 2 == 1) by (bit_vector);
        assert(y as int == x as int / p2(tz as nat));
    }
}

pub proof fn lemma_to64(x: u64)
    ensures 0 <= u64_trailing_ones(x) <= 64, (u64_trailing_ones(x) == 64) == (x == u64::MAX),
        (x as int + 1) % p2(u64_trailing_ones(x) as nat) == 0,
        u64_trailing_ones(x) < 64 ==> (x as int / p2(u64_trailing_ones(x) as nat)) % 2 == 0
{
    axiom_u64_trailing_ones(x);
    let t = u64_trailing_ones(x);
    let nx = !x;
    assert(t == u64_trailing_zeros(nx));
    lemma_tz64(nx);
    lemma2_to64(); lemma2_to64_rest();
    if t == 64 {
        assert(x == u64::MAX);
        assert(0x1_0000_0000_0000_0000int % 0x1_0000_0000_0000_0000int == 0);
    } else {
        let s = t as u64;
        lemma_one_shl(s);
        let d = 1u64 << s;
        if s > 0 {
            axiom_u64_trailing_zeros(nx);
            let m = ((1u64 << s) - 1) as u64;
            let x1 = (x + 1) as u64;
            assert(nx << ((64 - s) as u64) == 0 && x < 0xffff_ffff_ffff_ffffu64 ==> (add(x, 1) & m) == 0) by (bit_vector)
                requires 0 < s < 64, m == ((1u64 << s) - 1) as u64, nx == !x;
            assert(x1 == add(x, 1)) by (bit_vector) requires x < 0xffff_ffff_ffff_ffffu64, x1 == (x + 1) as u64;
            assert(x1 & m == 0 ==> x1 % d == 0) by (bit_vector) requires 0 < s < 64, m == ((1u64 << s) - 1) as u64, d == 1u64 << s;
        }
        lemma_u64_shr_is_div(x, s);
        let y = x >> s;
        assert(y & 1u64 == 0u64 ==> y % 2 == 0) by (bit_vector);
    }
}

pub proof fn lemma_limb_shl_split(l: u64, s: u32)
    requires 0 < s < 64
    ensures ((l << s) as int) + ((l >> ((64 - s) as u32)) as int) * B() == l as int * pow2(s as nat) as int
{
    let r = (64 - s) as u32;
    let hi = l >> r;
    let mask = (u64::MAX >> s);           // 2^(64-s) - 1
    let lo = l & mask;
    lemma2_to64();
    // hi = l / 2^r
    lemma_u64_shr_is_div(l, r as u64);
    // l << s == lo << s, and l == hi * 2^r + lo  (bit level)
    assert(l << s == lo << s) by (bit_vector) requires 0 < s < 64, lo == l & (0xffff_ffff_ffff_ffffu64 >> s);
    assert(lo == l % (1u64 << r)) by (bit_vector) requires 0 < s < 64, r == (64 - s) as u32, lo == l & (0xffff_ffff_ffff_ffffu64 >> s);
    lemma_pow2_strictly_increases(r as nat, 64);
    lemma_pow2_strictly_increases(s as nat, 64);
    assert(1 * pow2(r as nat) <= u64::MAX);
    lemma_u64_shl_is_mul(1, r as u64);
    let pr = pow2(r as nat) as int;
    let ps = pow2(s as nat) as int;
    assert((1u64 << r) as int == pr);
    lemma_pow2_pos(r as nat); lemma_pow2_pos(s as nat);
    lemma_pow2_adds(r as nat, s as nat);
    assert(pr * ps == B());
    // lo < 2^r so lo * 2^s < 2^64
    lemma_mod_bound(l as int, pr);
    assert(lo as int * ps < B()) by (nonlinear_arith) requires 0 <= lo as int, (lo as int) < pr, pr * ps == B(), ps > 0;
    lemma_u64_shl_is_mul(lo, s as u64);
    assert((lo << s) as int == lo as int * ps);
    lemma_fundamental_div_mod(l as int, pr);
    assert(l as int == pr * (hi as int) + lo as int);
    assert(l as int * ps == (hi as int) * (pr * ps) + lo as int * ps) by (nonlinear_arith) requires l as int == pr * (hi as int) + lo as int;
}


/// (x << s) == (x * 2^s) mod 2^64 for every s < 64
pub proof fn lemma_u64_shl_mod(x: u64, s: u32)
    requires s < 64
    ensures (x << s) as int == (x as int * p2(s as nat)) % B()
{
    lemma2_to64();
    if s == 0 {
        assert(x << 0u32 == x) by (bit_vector);
        lemma_small_mod(x as nat, B() as nat);
    } else {
        lemma_limb_shl_split(x, s);
        let hi = (x >> ((64 - s) as u32)) as int;
        let lo = (x << s) as int;
        lemma_fundamental_div_mod_converse(x as int * p2(s as nat), B(), hi, lo);
    }
}

pub proof fn lemma_u64_shr_div(x: u64, s: u32)
    requires s < 64
    ensures (x >> s) as int == x as int / p2(s as nat)
{
    lemma_u64_shr_is_div(x, s as u64);
    assert(x >> s == x >> (s as u64)) by (bit_vector) requires s < 64;
}

} // verus!
