// L8: BoxedUint::div_rem_unchecked -- the constant-time Knuth D division of src/uint/boxed/div.rs, PROVED (`body`) -- C02 C15
// The boxed function is a line-by-line port of `Uint::div_rem` (src/uint/div.rs) to `Box<[Limb]>` storage; the proof is the proof of
// l3_div_ct.rs with `LIMBS` replaced by `size = self.limbs.len()`: same ghost state (qacc, k, the normalised divisor value yv), same loop
// invariants, and the integer-level lemmas `ct_lemma_*` of l3_div_ct.rs (made `pub` there). Contract = the contract the wrappers in
// l8_boxed_methods.rs (div_rem, rem, wrapping_div, checked_div, operators) relied on when this function was a stub: equal limb counts,
// n = q*d + r, r < d, q = n / d, r = n % d, both results have the precision of self.
// Helpers brought under contract here (all `body`): to_limbs (`self.limbs.clone()`), shl, shr (overflowing_* + the documented panic
// `shift >= bits_precision` as precondition).
// Library (assume_specification): `<Box<[T], A> as Clone>::clone` (element-wise clone).
// dev: /verif/tools/vunit.py l8_boxed_divct --rlimit 60
use vstd::prelude::*;
use vstd::arithmetic::power::*;
use vstd::arithmetic::power2::*;
use vstd::arithmetic::div_mod::*;
use crate::speclib::*;
use crate::speclib_bits::*;
use crate::l0_prim::*;
use crate::l0_corespec::*;
use crate::l1_choice::*;
use crate::l1_limb::*;
use crate::l2_core::*;
use crate::l2_subtle::*;
use crate::l3_divlimb::*;
use crate::l3_div_ct::*;
use crate::l7_traits::*;
use crate::l7_boxed_div::*;
use crate::l8_boxed_methods::*;
verus! {

// `impl<T: Clone, A: Allocator + Clone> Clone for Box<[T], A>`: element-wise clone (`self.limbs.clone()` in `BoxedUint::to_limbs`)
pub assume_specification<T: Clone, A: core::alloc::Allocator + Clone> [<Box<[T], A> as Clone>::clone] (b: &Box<[T], A>) -> (r: Box<[T], A>)
    ensures r@.len() == b@.len(), forall|k: int| 0 <= k < b@.len() ==> cloned(b@[k], #[trigger] r@[k]);

//@@ fn src/uint/boxed.rs | impl BoxedUint | to_limbs | body | props C02 C11 C15
impl BoxedUint {
pub fn to_limbs(&self) -> (ret__: Box<[Limb]>)
//@+
    ensures ret__@ == self.limbs@
//@-
{
        self.limbs.clone()
    }
}
//@@ end
//@@ fn src/uint/boxed/shl.rs | impl BoxedUint | shl | body | props C05 C02 C11 C15
impl BoxedUint {
pub fn shl(&self, shift: u32) -> (ret__: BoxedUint)
//@+
    requires self.wf(), (shift as int) < 64 * self.nl()
    ensures ret__.nl() == self.nl(), ret__.v() == (self.v() * p2(shift as nat)) % bp(self.nl())
//@-
{
        let (result, overflow) = self.overflowing_shl(shift);
        assert!(!bool::from(overflow), "attempt to shift left with overflow");
        result
    }
}
//@@ end
//@@ fn src/uint/boxed/shr.rs | impl BoxedUint | shr | body | props C05 C02 C11 C15
impl BoxedUint {
pub fn shr(&self, shift: u32) -> (ret__: BoxedUint)
//@+
    requires self.wf(), (shift as int) < 64 * self.nl()
    ensures ret__.nl() == self.nl(), ret__.v() == self.v() / p2(shift as nat)
//@-
{
        let (result, overflow) = self.overflowing_shr(shift);
        assert!(
            !bool::from(overflow),
            "attempt to shift right with overflow"
        );
        result
    }
}
//@@ end
/// max of two naturals (index bookkeeping of the Knuth loop in `div_rem_unchecked`, as `ct_maxn` in l3_div_ct.rs)
spec fn bx_maxn(a: nat, b: nat) -> nat { if a >= b { a } else { b } }
//@@ fn src/uint/boxed/div.rs | impl BoxedUint | div_rem_unchecked | body | props C02 C11 C15
impl BoxedUint {
pub fn div_rem_unchecked(&self, rhs: &Self) -> (ret__: (Self, Self))
//@+
    requires self.wf(), self.nl() == rhs.nl(), rhs.v() != 0
    ensures ret__.0.nl() == self.nl(), ret__.1.nl() == self.nl(),
        ret__.0.v() * rhs.v() + ret__.1.v() == self.v(), 0 <= ret__.1.v() < rhs.v(),
        ret__.0.v() == self.v() / rhs.v(), ret__.1.v() == self.v() % rhs.v()
//@-
{
        // Based on Section 4.3.1, of The Art of Computer Programming, Volume 2, by Donald E. Knuth.
        // Further explanation at https://janmr.com/blog/2014/04/basic-multiple-precision-long-division/
        let size = self.limbs.len();
        assert_eq!(
            size,
            rhs.limbs.len(),
            "the precision of the divisor must match the dividend"
        );
        // Short circuit for single-word precision
        if size == 1 {
//@+
    proof { lemma_val_single(rhs.limbs@, 1); assert(nlimbs_for(64u32) == 1); }
//@-
            let (quo, rem_limb) = self.div_rem_limb(rhs.limbs[0].to_nz().expect("zero divisor"));
            let mut rem = Self::zero_with_precision(self.bits_precision());
            rem.limbs[0] = rem_limb;
//@+
    proof { lemma_val_single(rem.limbs@, 1); ct_lemma_divrem_unique(self.v(), rhs.v(), quo.v(), rem.v()); }
//@-
            return (quo, rem);
        }
        let dbits = rhs.bits();
        assert!(dbits > 0, "zero divisor");
        let dwords = dbits.div_ceil(Limb::BITS);
        let lshift = (Limb::BITS - (dbits % Limb::BITS)) % Limb::BITS;
//@+
    let ghost n = size as nat;
    let ghost yc = dwords as nat;
    let ghost rv = rhs.v();
    let ghost sv = self.v();
    let ghost s2 = p2(lshift as nat);
    let ghost yv = rv * s2;
    let ghost xv = sv * s2;
    proof { assert((size as u32) as int == size); }
//@-
        // Shift entire divisor such that the high bit is set
        let mut y = rhs.shl((size as u32) * Limb::BITS - dbits).to_limbs();
        // Shift the dividend to align the words
        let (x, mut x_hi) = self.shl_limb(lshift);
        let mut x = x.to_limbs();
        let mut xi = size - 1;
        let mut x_lo = x[size - 1];
        let mut i;
        let mut carry;
//@+
    let ghost mut k: nat = n;
    let ghost mut qacc: int = 0;
    proof {
        lemma_val_bound(rhs.limbs@, n); lemma_val_bound(self.limbs@, n);
        ct_lemma_setup(y@, n, dbits as nat, lshift as nat, yc, rv, sv);
        assert(0 * yv == 0);
        assert(bx_maxn(n, (yc - 1) as nat) == n);
        lemma_bp_succ(0);
    }
//@-
        let reciprocal = Reciprocal::new(y[size - 1].to_nz().expect("zero divisor"));
        while xi > 0
//@+
    invariant
        2 <= size < 0x400_0000, n == size, x@.len() == n, y@.len() == n, 1 <= yc <= n, yc == dwords, xi < size,
        k == bx_maxn((xi + 1) as nat, (yc - 1) as nat), 1 <= k <= n,
        val(y@, n) == yv * bp((n - yc) as nat), forall|j: int| 0 <= j < n - yc ==> y@[j].0 == 0,
        yv > 0,
        reciprocal.wf(), reciprocal.shift == 0, reciprocal.divisor_normalized == y@[n - 1].0,
        xv == qacc * yv + x_hi.0 as int * bp(k) + val(x@, k),
        x_hi.0 as int * bp(k) + val(x@, k) < yv * bp((k + 1 - yc) as nat),
        tv(x@, k, n) == qacc * bp((yc - 1) as nat),
        x_lo == x@[k - 1],
    decreases xi
//@-
{
//@+
    let ghost xb = x@;
    let ghost hb = x_hi;
    let ghost active = xi + 1 >= yc;
    let ghost m = (xi + 1) as nat;
    let ghost ys = y@.subrange(n - m, n as int);
    let ghost dd = val(ys, m);
    let ghost remv = hb.0 as int * bp(m) + val(xb, m);
    proof { ct_lemma_hi_le_top(xb, y@, hb.0 as int, n, yc, k, yv); }
//@-
            // Divide high dividend words by the high divisor word to estimate the quotient word
            let mut quo = div3by2(x_hi.0, x_lo.0, x[xi - 1].0, &reciprocal, y[size - 2].0);
            // This loop is a no-op once xi is smaller than the number of words in the divisor
            let done = ConstChoice::from_u32_lt(xi as u32, dwords - 1);
            quo = done.select_word(quo, 0);
//@+
    let ghost q = quo as int;
    let ghost qt: int = if active { remv / dd } else { 0 };
    proof {
        assert(done.t() == !active);
        if active {
            assert(k == m);
            assert(x_lo == xb[xi as int]);
            ct_lemma_digit(xb, y@, hb.0 as int, n, yc, xi as nat, yv, q);
        }
    }
//@-
            // Subtract q*divisor from the dividend
            carry = Limb::ZERO;
            let mut borrow = Limb::ZERO;
            let mut tmp;
            i = 0;
            while i <= xi
//@+
    invariant
        2 <= size < 0x400_0000, n == size, 0 < xi < size, m == xi + 1, 0 <= i <= xi + 1, q == quo as int,
        x@.len() == n, y@.len() == n,
        xb.len() == size, ys.len() == m, forall|j: int| 0 <= j < m ==> ys[j] == y@[n - m + j],
        borrow.0 == 0 || borrow.0 == u64::MAX,
        forall|kq: int| 0 <= kq < size && !(kq < i) ==> x@[kq] == xb[kq],
        val(x@, i as nat) == val(xb, i as nat) - q * val(ys, i as nat) + carry.0 as int * bp(i as nat) + bb(borrow) * bp(i as nat),
        q == 0 ==> (carry.0 == 0 && borrow.0 == 0 && x@ == xb),
    decreases xi + 1 - i
//@-
{
//@+
    let ghost x_before = x@; let ghost carry_b = carry; let ghost borrow_b = borrow;
//@-
                let (__t0, __t1) = Limb::ZERO.mac(y[size - xi + i - 1], Limb(quo), carry); tmp = __t0; carry = __t1;
                let (__t2, __t3) = x[i].sbb(tmp, borrow); x[i] = __t2; borrow = __t3;
//@+
    proof {
        let kk = i as nat;
        assert(x@ =~= x_before.update(kk as int, __t2));
        lemma_val_ext(x_before, x@, kk);
        lemma_bp_succ(kk);
        assert(x_before[kk as int] == xb[kk as int]);
        assert(y@[size - xi + i - 1] == ys[i as int]);
        ct_lemma_mulsub_step(val(x_before, kk), val(xb, kk), val(ys, kk), q, bp(kk), xb[kk as int].0 as int, __t2.0 as int, tmp.0 as int,
            ys[i as int].0 as int, carry_b.0 as int, carry.0 as int, bb(borrow_b), bb(borrow));
        if q == 0 {
            assert(__t2 == x_before[kk as int]);
            assert(x@ =~= xb);
        }
    }
//@-
                i += 1;
            }
//@+
    let ghost bprev = borrow; let ghost cfin = carry;
//@-
            let (_, __t4) = x_hi.sbb(carry, borrow); borrow = __t4;
//@+
    proof {
        if active {
            let tt = x_hi.0 as int - cfin.0 as int - bb(bprev) + bb(borrow) * B();
            assert(0 <= tt < B());
            lemma_val_bound(x@, m);
            ct_lemma_after_sub(remv, dd, q, qt, val(x@, m), tt, bp(m), bb(borrow), cfin.0 as int, bb(bprev), hb.0 as int, val(xb, m));
        } else {
            assert(q == 0);
            assert(borrow.0 == 0);
        }
    }
    let ghost xs = x@;
    let ghost lsub = val(xs, m);
//@-
            // If the subtraction borrowed, then decrement q and add back the divisor
            // The probability of this being needed is very low, about 2/(Limb::MAX+1)
            let ct_borrow = ConstChoice::from_word_mask(borrow.0);
//@+
    let ghost mm: int = if ct_borrow.t() { 1 } else { 0 };
//@-
            carry = Limb::ZERO;
            i = 0;
            while i <= xi
//@+
    invariant
        2 <= size < 0x400_0000, n == size, 0 < xi < size, m == xi + 1, 0 <= i <= xi + 1, ct_borrow.wf(),
        x@.len() == n, y@.len() == n,
        mm == (if ct_borrow.t() { 1int } else { 0int }),
        xs.len() == size, ys.len() == m, forall|j: int| 0 <= j < m ==> ys[j] == y@[n - m + j],
        forall|kq: int| 0 <= kq < size && !(kq < i) ==> x@[kq] == xs[kq],
        val(x@, i as nat) + carry.0 as int * bp(i as nat) == val(xs, i as nat) + mm * val(ys, i as nat),
        !ct_borrow.t() ==> (carry.0 == 0 && x@ == xs),
    decreases xi + 1 - i
//@-
{
//@+
    let ghost x_before = x@; let ghost carry_b = carry;
//@-
                let (__t5, __t6) = x[i].adc( Limb::select(Limb::ZERO, y[size - xi + i - 1], ct_borrow), carry, ); x[i] = __t5; carry = __t6;
//@+
    proof {
        let kk = i as nat;
        assert(x@ =~= x_before.update(kk as int, __t5));
        lemma_val_ext(x_before, x@, kk);
        lemma_bp_succ(kk);
        assert(x_before[kk as int] == xs[kk as int]);
        assert(y@[size - xi + i - 1] == ys[i as int]);
        let yi = ys[i as int].0 as int;
        let sel = if ct_borrow.t() { yi } else { 0int };
        ct_lemma_addback_step(val(x_before, kk), val(xs, kk), val(ys, kk), mm, bp(kk), xs[kk as int].0 as int, __t5.0 as int, yi, sel,
            carry_b.0 as int, carry.0 as int);
        if !ct_borrow.t() {
            assert(__t5 == x_before[kk as int]);
            assert(x@ =~= xs);
        }
    }
//@-
                i += 1;
            }
            quo = ct_borrow.select_word(quo, quo.saturating_sub(1));
//@+
    proof {
        if active {
            lemma_val_bound(x@, m);
            ct_lemma_after_add(val(x@, m), carry.0 as int, bp(m), lsub, dd, mm, remv - qt * dd);
            assert(quo as int == qt);
        } else {
            assert(x@ == xb);
            assert(quo == 0);
        }
    }
    let ghost xa = x@;
//@-
            // Store the quotient within dividend and set x_hi to the current highest word
            x_hi = Limb::select(x[xi], x_hi, done);
            x[xi] = Limb::select(Limb(quo), x[xi], done);
            x_lo = Limb::select(x[xi - 1], x_lo, done);
//@+
    proof {
        let xn = x@;
        if active {
            assert(xn =~= xa.update(xi as int, Limb(quo)));
            lemma_tv_ext(xa, xb, m, n);
            ct_lemma_store(xa, xn, n, xi as nat, yc, qacc, qt, yv, xv, remv, dd);
            qacc = qacc + qt * bp((m - yc) as nat);
            k = xi as nat;
            assert((k + 1 - yc) as nat == (m - yc) as nat);
            assert(bx_maxn(xi as nat, (yc - 1) as nat) == k);
        } else {
            assert(xn =~= xb);
            assert(bx_maxn(xi as nat, (yc - 1) as nat) == k);
        }
    }
//@-
            xi -= 1;
        }
//@+
    // after the loop: xi == 0, k == max(1, yc-1)
    let ghost xq = x@;
    let ghost hq = x_hi;
    let ghost remq = hq.0 as int * bp(k) + val(xq, k);
//@-
        let limb_div = ConstChoice::from_u32_eq(1, dwords);
        // Calculate quotient and remainder for the case where the divisor is a single word
        // Note that `div2by1()` will panic if `x_hi >= reciprocal.divisor_normalized`,
        // but this can only be the case if `limb_div` is falsy,
        // in which case we discard the result anyway,
        // so we conditionally set `x_hi` to zero for this branch.
        let x_hi_adjusted = Limb::select(Limb::ZERO, x_hi, limb_div);
//@+
    proof {
        lemma_bp1();
        lemma_val_bound(xq, k);
        if yc == 1 {
            ct_lemma_single_top(y@, n, yv);
            assert(k == 1);
            assert((k + 1 - yc) as nat == 1);
            assert(hq.0 as int * B() < yv * B());
            assert((hq.0 as int) < yv) by (nonlinear_arith) requires hq.0 as int * B() < yv * B();
        }
    }
//@-
        let (quo2, rem2) = div2by1(x_hi_adjusted.0, x_lo.0, &reciprocal);
        // Adjust the quotient for single limb division
        x[0] = Limb::select(x[0], Limb(quo2), limb_div);
        // Copy out the remainder
        y[0] = Limb::select(x[0], Limb(rem2), limb_div);
        i = 1;
        while i < size
//@+
    invariant 2 <= size < 0x400_0000, n == size, x@.len() == n, y@.len() == n, 1 <= yc <= n, yc == dwords, 1 <= i <= size,
        forall|j: int| 1 <= j < i ==> y@[j] == (if j == yc - 1 { x_hi } else if j < yc { x@[j] } else { Limb(0) }),
        y@[0] == (if yc == 1 { Limb(rem2) } else { x@[0] }),
    decreases size - i
//@-
{
            y[i] = Limb::select(Limb::ZERO, x[i], ConstChoice::from_u32_lt(i as u32, dwords));
            y[i] = Limb::select(y[i], x_hi, ConstChoice::from_u32_eq(i as u32, dwords - 1));
            i += 1;
        }
//@+
    let ghost xf = x@;
    let ghost yf = y@;
    let ghost qfin: int = if yc == 1 { qacc + quo2 as int } else { qacc };
    let ghost rfin: int = if yc == 1 { rem2 as int } else { remq };
    proof {
        if yc == 1 {
            assert(xf =~= xq.update(0, Limb(quo2)));
            ct_lemma_final_single(xq, xf, yf, n, qacc, quo2 as int, rem2 as int, hq.0 as int, yv, xv);
        } else {
            assert(k == yc - 1);
            assert(xf =~= xq);
            assert(yv * bp(0) == yv) by (nonlinear_arith) requires bp(0) == 1;
            assert((k + 1 - yc) as nat == 0);
            ct_lemma_final_multi(xq, yf, n, yc, qacc, hq);
            lemma_bp_succ(k);
            assert(remq >= 0) by (nonlinear_arith) requires remq == hq.0 as int * bp(k) + val(xq, k), val(xq, k) >= 0, bp(k) > 0, hq.0 as int >= 0;
        }
        assert(val(xf, n) / p2((64 * (yc - 1)) as nat) == qfin);
        assert(val(yf, n) == rfin);
        assert(xv == qfin * yv + rfin);
        assert(0 <= rfin < yv);
        ct_lemma_unscale(sv, rv, s2, qfin, rfin);
        assert(((dwords - 1) * 64) as nat == (64 * (yc - 1)) as nat);
        ct_lemma_divrem_unique(sv, rv, qfin, sv - qfin * rv);
    }
//@-
        (
            Self { limbs: x }.shr((dwords - 1) * Limb::BITS),
            Self { limbs: y }.shr(lshift),
        )
    }
}
//@@ end

} // verus!
