// L7: `/` and `%` operator impls of `Uint` and `Int` in their by-value / by-reference forms
// (src/uint/div.rs, src/int/div.rs, src/int/div_uint.rs) over the proved division functions -- C02 C14 C11 C15
// Vocabulary: see l7_traits.rs.
//
// `/` forms carry an ordinary `ensures` (operator precondition = vstd `DivSpecImpl::div_req`).
// `%` forms cannot: `Uint` and `Int` have an inherent `rem(&self, &NonZero<Self>)`, and Verus types the result binder of an
// `ensures` on a trait-impl method with `self.rem(rhs)`, which resolves to that inherent method and does not type-check for
// the operator's argument types. Their result is therefore given as vstd-level operator specification
// (`RemSpecImpl::rem_spec`, `obeys_rem_spec() == true`): the spec-level value `uint_of(n % d)` / `Limb(n % d)` /
// `int_of(n - trunc_q(n, d) * d)` (l7_traits.rs: `lemma_uint_of`, `lemma_int_of` give `.v()` / `.iv()` of these), and
// every form is verified to return exactly that value.
// Divisor != 0 is part of the operator precondition (`NonZero` is a plain wrapper in the verified crate, its invariant is
// stated where it is used); the forms taking a bare `Uint` divisor panic exactly for 0 (C11).
// Not covered: `%=` by `NonZero<Limb>` (goes through `From<Limb> for Uint`), the `Wrapping<..>` forms.
use vstd::prelude::*;
use vstd::arithmetic::div_mod::*;
use core::ops::{Div, DivAssign, Rem, RemAssign};
use crate::speclib::*;
use crate::l0_prim::*;
use crate::l1_choice::*;
use crate::l1_limb::*;
use crate::l2_core::*;
use crate::l2_subtle::*;
use crate::l3_divlimb::*;
use crate::l3_div_vt::*;
use crate::l3_div_ct::*;
use crate::l4_int::*;
use crate::l4_int_div::*;
use crate::l7_traits::*;
use crate::l7_traits_uint::*;
use crate::l7_traits_int::*;
verus! {

/// the truncating remainder n - trunc_q(n, d) * d is in [MIN, MAX] whenever n is
proof fn lemma_rem_in_range(n: int, d: int, k: nat)
    requires k >= 1, d != 0, in_range(n, k)
    ensures in_range(n - trunc_q(n, d) * d, k)
{
    let na = abs_i(n); let da = abs_i(d);
    lemma_fundamental_div_mod(na, da);
    lemma_mod_bound(na, da);
    let q = na / da; let r = na % da;
    assert(q * da + r == na) by (nonlinear_arith) requires na == da * q + r;
    assert(q >= 0) by (nonlinear_arith) requires q * da + r == na, 0 <= r < da, na >= 0, da > 0;
    lemma_trunc(n, d, q, r);
    assert(r <= na) by (nonlinear_arith) requires q * da + r == na, q >= 0, da > 0;
    lemma_half(k);
}

// ---- Uint / NonZero<Limb>, Uint % NonZero<Limb>

impl<'a, 'b, const LIMBS: usize> vstd::std_specs::ops::DivSpecImpl<&'a NonZero<Limb>> for &'b Uint<LIMBS> {
    open spec fn obeys_div_spec() -> bool { false }
    open spec fn div_req(self, rhs: &'a NonZero<Limb>) -> bool { LIMBS >= 1 && (*rhs).0.0 != 0 }
    open spec fn div_spec(self, rhs: &'a NonZero<Limb>) -> Uint<LIMBS> { arbitrary() }
}

impl<'a, const LIMBS: usize> vstd::std_specs::ops::DivSpecImpl<&'a NonZero<Limb>> for Uint<LIMBS> {
    open spec fn obeys_div_spec() -> bool { false }
    open spec fn div_req(self, rhs: &'a NonZero<Limb>) -> bool { LIMBS >= 1 && (*rhs).0.0 != 0 }
    open spec fn div_spec(self, rhs: &'a NonZero<Limb>) -> Uint<LIMBS> { arbitrary() }
}

impl<'b, const LIMBS: usize> vstd::std_specs::ops::DivSpecImpl<NonZero<Limb>> for &'b Uint<LIMBS> {
    open spec fn obeys_div_spec() -> bool { false }
    open spec fn div_req(self, rhs: NonZero<Limb>) -> bool { LIMBS >= 1 && rhs.0.0 != 0 }
    open spec fn div_spec(self, rhs: NonZero<Limb>) -> Uint<LIMBS> { arbitrary() }
}

impl<const LIMBS: usize> vstd::std_specs::ops::DivSpecImpl<NonZero<Limb>> for Uint<LIMBS> {
    open spec fn obeys_div_spec() -> bool { false }
    open spec fn div_req(self, rhs: NonZero<Limb>) -> bool { LIMBS >= 1 && rhs.0.0 != 0 }
    open spec fn div_spec(self, rhs: NonZero<Limb>) -> Uint<LIMBS> { arbitrary() }
}

impl<'a, 'b, const LIMBS: usize> vstd::std_specs::ops::RemSpecImpl<&'a NonZero<Limb>> for &'b Uint<LIMBS> {
    open spec fn obeys_rem_spec() -> bool { true }
    open spec fn rem_req(self, rhs: &'a NonZero<Limb>) -> bool { LIMBS >= 1 && (*rhs).0.0 != 0 }
    open spec fn rem_spec(self, rhs: &'a NonZero<Limb>) -> Limb { Limb(((*self).v() % ((*rhs).0.0 as int)) as u64) }
}

impl<'a, const LIMBS: usize> vstd::std_specs::ops::RemSpecImpl<&'a NonZero<Limb>> for Uint<LIMBS> {
    open spec fn obeys_rem_spec() -> bool { true }
    open spec fn rem_req(self, rhs: &'a NonZero<Limb>) -> bool { LIMBS >= 1 && (*rhs).0.0 != 0 }
    open spec fn rem_spec(self, rhs: &'a NonZero<Limb>) -> Limb { Limb((self.v() % ((*rhs).0.0 as int)) as u64) }
}

impl<'b, const LIMBS: usize> vstd::std_specs::ops::RemSpecImpl<NonZero<Limb>> for &'b Uint<LIMBS> {
    open spec fn obeys_rem_spec() -> bool { true }
    open spec fn rem_req(self, rhs: NonZero<Limb>) -> bool { LIMBS >= 1 && rhs.0.0 != 0 }
    open spec fn rem_spec(self, rhs: NonZero<Limb>) -> Limb { Limb(((*self).v() % (rhs.0.0 as int)) as u64) }
}

impl<const LIMBS: usize> vstd::std_specs::ops::RemSpecImpl<NonZero<Limb>> for Uint<LIMBS> {
    open spec fn obeys_rem_spec() -> bool { true }
    open spec fn rem_req(self, rhs: NonZero<Limb>) -> bool { LIMBS >= 1 && rhs.0.0 != 0 }
    open spec fn rem_spec(self, rhs: NonZero<Limb>) -> Limb { Limb((self.v() % (rhs.0.0 as int)) as u64) }
}

// ---- Uint / NonZero<Uint>, Uint % NonZero<Uint>

impl<'a, 'b, const LIMBS: usize> vstd::std_specs::ops::DivSpecImpl<&'a NonZero<Uint<LIMBS>>> for &'b Uint<LIMBS> {
    open spec fn obeys_div_spec() -> bool { false }
    open spec fn div_req(self, rhs: &'a NonZero<Uint<LIMBS>>) -> bool { 1 <= LIMBS < 0x400_0000 && (*rhs).0.v() != 0 }
    open spec fn div_spec(self, rhs: &'a NonZero<Uint<LIMBS>>) -> Uint<LIMBS> { arbitrary() }
}

impl<'a, const LIMBS: usize> vstd::std_specs::ops::DivSpecImpl<&'a NonZero<Uint<LIMBS>>> for Uint<LIMBS> {
    open spec fn obeys_div_spec() -> bool { false }
    open spec fn div_req(self, rhs: &'a NonZero<Uint<LIMBS>>) -> bool { 1 <= LIMBS < 0x400_0000 && (*rhs).0.v() != 0 }
    open spec fn div_spec(self, rhs: &'a NonZero<Uint<LIMBS>>) -> Uint<LIMBS> { arbitrary() }
}

impl<'b, const LIMBS: usize> vstd::std_specs::ops::DivSpecImpl<NonZero<Uint<LIMBS>>> for &'b Uint<LIMBS> {
    open spec fn obeys_div_spec() -> bool { false }
    open spec fn div_req(self, rhs: NonZero<Uint<LIMBS>>) -> bool { 1 <= LIMBS < 0x400_0000 && rhs.0.v() != 0 }
    open spec fn div_spec(self, rhs: NonZero<Uint<LIMBS>>) -> Uint<LIMBS> { arbitrary() }
}

impl<const LIMBS: usize> vstd::std_specs::ops::DivSpecImpl<NonZero<Uint<LIMBS>>> for Uint<LIMBS> {
    open spec fn obeys_div_spec() -> bool { false }
    open spec fn div_req(self, rhs: NonZero<Uint<LIMBS>>) -> bool { 1 <= LIMBS < 0x400_0000 && rhs.0.v() != 0 }
    open spec fn div_spec(self, rhs: NonZero<Uint<LIMBS>>) -> Uint<LIMBS> { arbitrary() }
}

impl<'a, 'b, const LIMBS: usize> vstd::std_specs::ops::RemSpecImpl<&'a NonZero<Uint<LIMBS>>> for &'b Uint<LIMBS> {
    open spec fn obeys_rem_spec() -> bool { true }
    open spec fn rem_req(self, rhs: &'a NonZero<Uint<LIMBS>>) -> bool { 1 <= LIMBS < 0x400_0000 && (*rhs).0.v() != 0 }
    open spec fn rem_spec(self, rhs: &'a NonZero<Uint<LIMBS>>) -> Uint<LIMBS> { uint_of::<LIMBS>((*self).v() % (*rhs).0.v()) }
}

impl<'a, const LIMBS: usize> vstd::std_specs::ops::RemSpecImpl<&'a NonZero<Uint<LIMBS>>> for Uint<LIMBS> {
    open spec fn obeys_rem_spec() -> bool { true }
    open spec fn rem_req(self, rhs: &'a NonZero<Uint<LIMBS>>) -> bool { 1 <= LIMBS < 0x400_0000 && (*rhs).0.v() != 0 }
    open spec fn rem_spec(self, rhs: &'a NonZero<Uint<LIMBS>>) -> Uint<LIMBS> { uint_of::<LIMBS>(self.v() % (*rhs).0.v()) }
}

impl<'b, const LIMBS: usize> vstd::std_specs::ops::RemSpecImpl<NonZero<Uint<LIMBS>>> for &'b Uint<LIMBS> {
    open spec fn obeys_rem_spec() -> bool { true }
    open spec fn rem_req(self, rhs: NonZero<Uint<LIMBS>>) -> bool { 1 <= LIMBS < 0x400_0000 && rhs.0.v() != 0 }
    open spec fn rem_spec(self, rhs: NonZero<Uint<LIMBS>>) -> Uint<LIMBS> { uint_of::<LIMBS>((*self).v() % rhs.0.v()) }
}

impl<const LIMBS: usize> vstd::std_specs::ops::RemSpecImpl<NonZero<Uint<LIMBS>>> for Uint<LIMBS> {
    open spec fn obeys_rem_spec() -> bool { true }
    open spec fn rem_req(self, rhs: NonZero<Uint<LIMBS>>) -> bool { 1 <= LIMBS < 0x400_0000 && rhs.0.v() != 0 }
    open spec fn rem_spec(self, rhs: NonZero<Uint<LIMBS>>) -> Uint<LIMBS> { uint_of::<LIMBS>(self.v() % rhs.0.v()) }
}

// ---- Uint / Uint, Uint % Uint (panic exactly for a zero divisor)

impl<'b, const LIMBS: usize> vstd::std_specs::ops::DivSpecImpl<Uint<LIMBS>> for &'b Uint<LIMBS> {
    open spec fn obeys_div_spec() -> bool { false }
    open spec fn div_req(self, rhs: Uint<LIMBS>) -> bool { 1 <= LIMBS < 0x400_0000 && rhs.v() != 0 }
    open spec fn div_spec(self, rhs: Uint<LIMBS>) -> Uint<LIMBS> { arbitrary() }
}

impl<const LIMBS: usize> vstd::std_specs::ops::DivSpecImpl<Uint<LIMBS>> for Uint<LIMBS> {
    open spec fn obeys_div_spec() -> bool { false }
    open spec fn div_req(self, rhs: Uint<LIMBS>) -> bool { 1 <= LIMBS < 0x400_0000 && rhs.v() != 0 }
    open spec fn div_spec(self, rhs: Uint<LIMBS>) -> Uint<LIMBS> { arbitrary() }
}

impl<'b, const LIMBS: usize> vstd::std_specs::ops::RemSpecImpl<Uint<LIMBS>> for &'b Uint<LIMBS> {
    open spec fn obeys_rem_spec() -> bool { true }
    open spec fn rem_req(self, rhs: Uint<LIMBS>) -> bool { 1 <= LIMBS < 0x400_0000 && rhs.v() != 0 }
    open spec fn rem_spec(self, rhs: Uint<LIMBS>) -> Uint<LIMBS> { uint_of::<LIMBS>((*self).v() % rhs.v()) }
}

impl<const LIMBS: usize> vstd::std_specs::ops::RemSpecImpl<Uint<LIMBS>> for Uint<LIMBS> {
    open spec fn obeys_rem_spec() -> bool { true }
    open spec fn rem_req(self, rhs: Uint<LIMBS>) -> bool { 1 <= LIMBS < 0x400_0000 && rhs.v() != 0 }
    open spec fn rem_spec(self, rhs: Uint<LIMBS>) -> Uint<LIMBS> { uint_of::<LIMBS>(self.v() % rhs.v()) }
}

// ---- Int / NonZero<Int> (CtOption: none exactly for MIN / -1), Int % NonZero<Int>

impl<'a, 'b, const LIMBS: usize> vstd::std_specs::ops::DivSpecImpl<&'a NonZero<Int<LIMBS>>> for &'b Int<LIMBS> {
    open spec fn obeys_div_spec() -> bool { false }
    open spec fn div_req(self, rhs: &'a NonZero<Int<LIMBS>>) -> bool { 1 <= LIMBS < 0x400_0000 && (*rhs).0.iv() != 0 }
    open spec fn div_spec(self, rhs: &'a NonZero<Int<LIMBS>>) -> CtOption<Int<LIMBS>> { arbitrary() }
}

impl<'a, const LIMBS: usize> vstd::std_specs::ops::DivSpecImpl<&'a NonZero<Int<LIMBS>>> for Int<LIMBS> {
    open spec fn obeys_div_spec() -> bool { false }
    open spec fn div_req(self, rhs: &'a NonZero<Int<LIMBS>>) -> bool { 1 <= LIMBS < 0x400_0000 && (*rhs).0.iv() != 0 }
    open spec fn div_spec(self, rhs: &'a NonZero<Int<LIMBS>>) -> CtOption<Int<LIMBS>> { arbitrary() }
}

impl<'b, const LIMBS: usize> vstd::std_specs::ops::DivSpecImpl<NonZero<Int<LIMBS>>> for &'b Int<LIMBS> {
    open spec fn obeys_div_spec() -> bool { false }
    open spec fn div_req(self, rhs: NonZero<Int<LIMBS>>) -> bool { 1 <= LIMBS < 0x400_0000 && rhs.0.iv() != 0 }
    open spec fn div_spec(self, rhs: NonZero<Int<LIMBS>>) -> CtOption<Int<LIMBS>> { arbitrary() }
}

impl<const LIMBS: usize> vstd::std_specs::ops::DivSpecImpl<NonZero<Int<LIMBS>>> for Int<LIMBS> {
    open spec fn obeys_div_spec() -> bool { false }
    open spec fn div_req(self, rhs: NonZero<Int<LIMBS>>) -> bool { 1 <= LIMBS < 0x400_0000 && rhs.0.iv() != 0 }
    open spec fn div_spec(self, rhs: NonZero<Int<LIMBS>>) -> CtOption<Int<LIMBS>> { arbitrary() }
}

impl<'a, 'b, const LIMBS: usize> vstd::std_specs::ops::RemSpecImpl<&'a NonZero<Int<LIMBS>>> for &'b Int<LIMBS> {
    open spec fn obeys_rem_spec() -> bool { true }
    open spec fn rem_req(self, rhs: &'a NonZero<Int<LIMBS>>) -> bool { 1 <= LIMBS < 0x400_0000 && (*rhs).0.iv() != 0 }
    open spec fn rem_spec(self, rhs: &'a NonZero<Int<LIMBS>>) -> Int<LIMBS> { int_of::<LIMBS>((*self).iv() - trunc_q((*self).iv(), (*rhs).0.iv()) * (*rhs).0.iv()) }
}

impl<'a, const LIMBS: usize> vstd::std_specs::ops::RemSpecImpl<&'a NonZero<Int<LIMBS>>> for Int<LIMBS> {
    open spec fn obeys_rem_spec() -> bool { true }
    open spec fn rem_req(self, rhs: &'a NonZero<Int<LIMBS>>) -> bool { 1 <= LIMBS < 0x400_0000 && (*rhs).0.iv() != 0 }
    open spec fn rem_spec(self, rhs: &'a NonZero<Int<LIMBS>>) -> Int<LIMBS> { int_of::<LIMBS>(self.iv() - trunc_q(self.iv(), (*rhs).0.iv()) * (*rhs).0.iv()) }
}

impl<'b, const LIMBS: usize> vstd::std_specs::ops::RemSpecImpl<NonZero<Int<LIMBS>>> for &'b Int<LIMBS> {
    open spec fn obeys_rem_spec() -> bool { true }
    open spec fn rem_req(self, rhs: NonZero<Int<LIMBS>>) -> bool { 1 <= LIMBS < 0x400_0000 && rhs.0.iv() != 0 }
    open spec fn rem_spec(self, rhs: NonZero<Int<LIMBS>>) -> Int<LIMBS> { int_of::<LIMBS>((*self).iv() - trunc_q((*self).iv(), rhs.0.iv()) * rhs.0.iv()) }
}

impl<const LIMBS: usize> vstd::std_specs::ops::RemSpecImpl<NonZero<Int<LIMBS>>> for Int<LIMBS> {
    open spec fn obeys_rem_spec() -> bool { true }
    open spec fn rem_req(self, rhs: NonZero<Int<LIMBS>>) -> bool { 1 <= LIMBS < 0x400_0000 && rhs.0.iv() != 0 }
    open spec fn rem_spec(self, rhs: NonZero<Int<LIMBS>>) -> Int<LIMBS> { int_of::<LIMBS>(self.iv() - trunc_q(self.iv(), rhs.0.iv()) * rhs.0.iv()) }
}

// ---- Int / NonZero<Uint>, Int % NonZero<Uint>

impl<'a, 'b, const LIMBS: usize> vstd::std_specs::ops::DivSpecImpl<&'a NonZero<Uint<LIMBS>>> for &'b Int<LIMBS> {
    open spec fn obeys_div_spec() -> bool { false }
    open spec fn div_req(self, rhs: &'a NonZero<Uint<LIMBS>>) -> bool { 1 <= LIMBS < 0x400_0000 && (*rhs).0.v() != 0 }
    open spec fn div_spec(self, rhs: &'a NonZero<Uint<LIMBS>>) -> Int<LIMBS> { arbitrary() }
}

impl<'a, const LIMBS: usize> vstd::std_specs::ops::DivSpecImpl<&'a NonZero<Uint<LIMBS>>> for Int<LIMBS> {
    open spec fn obeys_div_spec() -> bool { false }
    open spec fn div_req(self, rhs: &'a NonZero<Uint<LIMBS>>) -> bool { 1 <= LIMBS < 0x400_0000 && (*rhs).0.v() != 0 }
    open spec fn div_spec(self, rhs: &'a NonZero<Uint<LIMBS>>) -> Int<LIMBS> { arbitrary() }
}

impl<'b, const LIMBS: usize> vstd::std_specs::ops::DivSpecImpl<NonZero<Uint<LIMBS>>> for &'b Int<LIMBS> {
    open spec fn obeys_div_spec() -> bool { false }
    open spec fn div_req(self, rhs: NonZero<Uint<LIMBS>>) -> bool { 1 <= LIMBS < 0x400_0000 && rhs.0.v() != 0 }
    open spec fn div_spec(self, rhs: NonZero<Uint<LIMBS>>) -> Int<LIMBS> { arbitrary() }
}

impl<const LIMBS: usize> vstd::std_specs::ops::DivSpecImpl<NonZero<Uint<LIMBS>>> for Int<LIMBS> {
    open spec fn obeys_div_spec() -> bool { false }
    open spec fn div_req(self, rhs: NonZero<Uint<LIMBS>>) -> bool { 1 <= LIMBS < 0x400_0000 && rhs.0.v() != 0 }
    open spec fn div_spec(self, rhs: NonZero<Uint<LIMBS>>) -> Int<LIMBS> { arbitrary() }
}

impl<'a, 'b, const LIMBS: usize> vstd::std_specs::ops::RemSpecImpl<&'a NonZero<Uint<LIMBS>>> for &'b Int<LIMBS> {
    open spec fn obeys_rem_spec() -> bool { true }
    open spec fn rem_req(self, rhs: &'a NonZero<Uint<LIMBS>>) -> bool { 1 <= LIMBS < 0x400_0000 && (*rhs).0.v() != 0 }
    open spec fn rem_spec(self, rhs: &'a NonZero<Uint<LIMBS>>) -> Int<LIMBS> { int_of::<LIMBS>((*self).iv() - trunc_q((*self).iv(), (*rhs).0.v()) * (*rhs).0.v()) }
}

impl<'a, const LIMBS: usize> vstd::std_specs::ops::RemSpecImpl<&'a NonZero<Uint<LIMBS>>> for Int<LIMBS> {
    open spec fn obeys_rem_spec() -> bool { true }
    open spec fn rem_req(self, rhs: &'a NonZero<Uint<LIMBS>>) -> bool { 1 <= LIMBS < 0x400_0000 && (*rhs).0.v() != 0 }
    open spec fn rem_spec(self, rhs: &'a NonZero<Uint<LIMBS>>) -> Int<LIMBS> { int_of::<LIMBS>(self.iv() - trunc_q(self.iv(), (*rhs).0.v()) * (*rhs).0.v()) }
}

impl<'b, const LIMBS: usize> vstd::std_specs::ops::RemSpecImpl<NonZero<Uint<LIMBS>>> for &'b Int<LIMBS> {
    open spec fn obeys_rem_spec() -> bool { true }
    open spec fn rem_req(self, rhs: NonZero<Uint<LIMBS>>) -> bool { 1 <= LIMBS < 0x400_0000 && rhs.0.v() != 0 }
    open spec fn rem_spec(self, rhs: NonZero<Uint<LIMBS>>) -> Int<LIMBS> { int_of::<LIMBS>((*self).iv() - trunc_q((*self).iv(), rhs.0.v()) * rhs.0.v()) }
}

impl<const LIMBS: usize> vstd::std_specs::ops::RemSpecImpl<NonZero<Uint<LIMBS>>> for Int<LIMBS> {
    open spec fn obeys_rem_spec() -> bool { true }
    open spec fn rem_req(self, rhs: NonZero<Uint<LIMBS>>) -> bool { 1 <= LIMBS < 0x400_0000 && rhs.0.v() != 0 }
    open spec fn rem_spec(self, rhs: NonZero<Uint<LIMBS>>) -> Int<LIMBS> { int_of::<LIMBS>(self.iv() - trunc_q(self.iv(), rhs.0.v()) * rhs.0.v()) }
}

// ---- assigning forms

impl<'a, const LIMBS: usize> vstd::std_specs::ops::DivAssignSpecImpl<&'a NonZero<Limb>> for Uint<LIMBS> {
    open spec fn obeys_div_assign_spec() -> bool { false }
    open spec fn div_assign_req(&self, rhs: &'a NonZero<Limb>) -> bool { LIMBS >= 1 && (*rhs).0.0 != 0 }
    open spec fn div_assign_spec(&self, rhs: &'a NonZero<Limb>) -> &Self { self }
}

impl<const LIMBS: usize> vstd::std_specs::ops::DivAssignSpecImpl<NonZero<Limb>> for Uint<LIMBS> {
    open spec fn obeys_div_assign_spec() -> bool { false }
    open spec fn div_assign_req(&self, rhs: NonZero<Limb>) -> bool { LIMBS >= 1 && rhs.0.0 != 0 }
    open spec fn div_assign_spec(&self, rhs: NonZero<Limb>) -> &Self { self }
}

impl<'a, const LIMBS: usize> vstd::std_specs::ops::DivAssignSpecImpl<&'a NonZero<Uint<LIMBS>>> for Uint<LIMBS> {
    open spec fn obeys_div_assign_spec() -> bool { false }
    open spec fn div_assign_req(&self, rhs: &'a NonZero<Uint<LIMBS>>) -> bool { 1 <= LIMBS < 0x400_0000 && (*rhs).0.v() != 0 }
    open spec fn div_assign_spec(&self, rhs: &'a NonZero<Uint<LIMBS>>) -> &Self { self }
}

impl<const LIMBS: usize> vstd::std_specs::ops::DivAssignSpecImpl<NonZero<Uint<LIMBS>>> for Uint<LIMBS> {
    open spec fn obeys_div_assign_spec() -> bool { false }
    open spec fn div_assign_req(&self, rhs: NonZero<Uint<LIMBS>>) -> bool { 1 <= LIMBS < 0x400_0000 && rhs.0.v() != 0 }
    open spec fn div_assign_spec(&self, rhs: NonZero<Uint<LIMBS>>) -> &Self { self }
}

impl<'a, const LIMBS: usize> vstd::std_specs::ops::RemAssignSpecImpl<&'a NonZero<Uint<LIMBS>>> for Uint<LIMBS> {
    open spec fn obeys_rem_assign_spec() -> bool { false }
    open spec fn rem_assign_req(&self, rhs: &'a NonZero<Uint<LIMBS>>) -> bool { 1 <= LIMBS < 0x400_0000 && (*rhs).0.v() != 0 }
    open spec fn rem_assign_spec(&self, rhs: &'a NonZero<Uint<LIMBS>>) -> &Self { self }
}

impl<const LIMBS: usize> vstd::std_specs::ops::RemAssignSpecImpl<NonZero<Uint<LIMBS>>> for Uint<LIMBS> {
    open spec fn obeys_rem_assign_spec() -> bool { false }
    open spec fn rem_assign_req(&self, rhs: NonZero<Uint<LIMBS>>) -> bool { 1 <= LIMBS < 0x400_0000 && rhs.0.v() != 0 }
    open spec fn rem_assign_spec(&self, rhs: NonZero<Uint<LIMBS>>) -> &Self { self }
}

impl<'a, const LIMBS: usize> vstd::std_specs::ops::DivAssignSpecImpl<&'a NonZero<Int<LIMBS>>> for Int<LIMBS> {
    open spec fn obeys_div_assign_spec() -> bool { false }
    open spec fn div_assign_req(&self, rhs: &'a NonZero<Int<LIMBS>>) -> bool { 1 <= LIMBS < 0x400_0000 && (*rhs).0.iv() != 0 && !(self.iv() == -ih(LIMBS as nat) && (*rhs).0.iv() == -1) }
    open spec fn div_assign_spec(&self, rhs: &'a NonZero<Int<LIMBS>>) -> &Self { self }
}

impl<const LIMBS: usize> vstd::std_specs::ops::DivAssignSpecImpl<NonZero<Int<LIMBS>>> for Int<LIMBS> {
    open spec fn obeys_div_assign_spec() -> bool { false }
    open spec fn div_assign_req(&self, rhs: NonZero<Int<LIMBS>>) -> bool { 1 <= LIMBS < 0x400_0000 && rhs.0.iv() != 0 && !(self.iv() == -ih(LIMBS as nat) && rhs.0.iv() == -1) }
    open spec fn div_assign_spec(&self, rhs: NonZero<Int<LIMBS>>) -> &Self { self }
}

impl<'a, const LIMBS: usize> vstd::std_specs::ops::RemAssignSpecImpl<&'a NonZero<Int<LIMBS>>> for Int<LIMBS> {
    open spec fn obeys_rem_assign_spec() -> bool { false }
    open spec fn rem_assign_req(&self, rhs: &'a NonZero<Int<LIMBS>>) -> bool { 1 <= LIMBS < 0x400_0000 && (*rhs).0.iv() != 0 }
    open spec fn rem_assign_spec(&self, rhs: &'a NonZero<Int<LIMBS>>) -> &Self { self }
}

impl<const LIMBS: usize> vstd::std_specs::ops::RemAssignSpecImpl<NonZero<Int<LIMBS>>> for Int<LIMBS> {
    open spec fn obeys_rem_assign_spec() -> bool { false }
    open spec fn rem_assign_req(&self, rhs: NonZero<Int<LIMBS>>) -> bool { 1 <= LIMBS < 0x400_0000 && rhs.0.iv() != 0 }
    open spec fn rem_assign_spec(&self, rhs: NonZero<Int<LIMBS>>) -> &Self { self }
}

impl<'a, const LIMBS: usize> vstd::std_specs::ops::DivAssignSpecImpl<&'a NonZero<Uint<LIMBS>>> for Int<LIMBS> {
    open spec fn obeys_div_assign_spec() -> bool { false }
    open spec fn div_assign_req(&self, rhs: &'a NonZero<Uint<LIMBS>>) -> bool { 1 <= LIMBS < 0x400_0000 && (*rhs).0.v() != 0 }
    open spec fn div_assign_spec(&self, rhs: &'a NonZero<Uint<LIMBS>>) -> &Self { self }
}

impl<const LIMBS: usize> vstd::std_specs::ops::DivAssignSpecImpl<NonZero<Uint<LIMBS>>> for Int<LIMBS> {
    open spec fn obeys_div_assign_spec() -> bool { false }
    open spec fn div_assign_req(&self, rhs: NonZero<Uint<LIMBS>>) -> bool { 1 <= LIMBS < 0x400_0000 && rhs.0.v() != 0 }
    open spec fn div_assign_spec(&self, rhs: NonZero<Uint<LIMBS>>) -> &Self { self }
}

impl<'a, const LIMBS: usize> vstd::std_specs::ops::RemAssignSpecImpl<&'a NonZero<Uint<LIMBS>>> for Int<LIMBS> {
    open spec fn obeys_rem_assign_spec() -> bool { false }
    open spec fn rem_assign_req(&self, rhs: &'a NonZero<Uint<LIMBS>>) -> bool { 1 <= LIMBS < 0x400_0000 && (*rhs).0.v() != 0 }
    open spec fn rem_assign_spec(&self, rhs: &'a NonZero<Uint<LIMBS>>) -> &Self { self }
}

impl<const LIMBS: usize> vstd::std_specs::ops::RemAssignSpecImpl<NonZero<Uint<LIMBS>>> for Int<LIMBS> {
    open spec fn obeys_rem_assign_spec() -> bool { false }
    open spec fn rem_assign_req(&self, rhs: NonZero<Uint<LIMBS>>) -> bool { 1 <= LIMBS < 0x400_0000 && rhs.0.v() != 0 }
    open spec fn rem_assign_spec(&self, rhs: NonZero<Uint<LIMBS>>) -> &Self { self }
}

//@@ fn src/uint/div.rs | impl<const LIMBS: usize> Div<&NonZero<Limb>> for &Uint<LIMBS> | div | body | props C02 C11 C15
impl<const LIMBS: usize> Div<&NonZero<Limb>> for &Uint<LIMBS> {
//@+
    type Output = Uint<LIMBS>;
//@-
fn div(self, rhs: &NonZero<Limb>) -> (ret__: Self::Output)
//@+
    ensures ret__.v() == (*self).v() / ((*rhs).0.0 as int)
//@-
{
        *self / *rhs
    }
}
//@@ end
//@@ fn src/uint/div.rs | impl<const LIMBS: usize> Div<&NonZero<Limb>> for Uint<LIMBS> | div | body | props C02 C11 C15
impl<const LIMBS: usize> Div<&NonZero<Limb>> for Uint<LIMBS> {
//@+
    type Output = Uint<LIMBS>;
//@-
fn div(self, rhs: &NonZero<Limb>) -> (ret__: Self::Output)
//@+
    ensures ret__.v() == self.v() / ((*rhs).0.0 as int)
//@-
{
        self / *rhs
    }
}
//@@ end
//@@ fn src/uint/div.rs | impl<const LIMBS: usize> Div<NonZero<Limb>> for &Uint<LIMBS> | div | body | props C02 C11 C15
impl<const LIMBS: usize> Div<NonZero<Limb>> for &Uint<LIMBS> {
//@+
    type Output = Uint<LIMBS>;
//@-
fn div(self, rhs: NonZero<Limb>) -> (ret__: Self::Output)
//@+
    ensures ret__.v() == (*self).v() / (rhs.0.0 as int)
//@-
{
        *self / rhs
    }
}
//@@ end
//@@ fn src/uint/div.rs | impl<const LIMBS: usize> Div<NonZero<Limb>> for Uint<LIMBS> | div | body | props C02 C11 C15
impl<const LIMBS: usize> Div<NonZero<Limb>> for Uint<LIMBS> {
//@+
    type Output = Uint<LIMBS>;
//@-
fn div(self, rhs: NonZero<Limb>) -> (ret__: Self::Output)
//@+
    ensures ret__.v() == self.v() / (rhs.0.0 as int)
//@-
{
        let (q, _) = self.div_rem_limb(rhs);
//@+
    proof { let d = rhs.0.0 as int; let rr = self.v() - q.v() * d; assert(self.v() == d * q.v() + rr) by (nonlinear_arith) requires rr == self.v() - q.v() * d;
        lemma_fundamental_div_mod_converse(self.v(), d, q.v(), rr); }
//@-
        q
    }
}
//@@ end
//@@ fn src/uint/div.rs | impl<const LIMBS: usize> Rem<&NonZero<Limb>> for &Uint<LIMBS> | rem | body | props C02 C11 C15
impl<const LIMBS: usize> Rem<&NonZero<Limb>> for &Uint<LIMBS> {
//@+
    type Output = Limb;
    // contract (vstd `RemSpecImpl` above): requires LIMBS >= 1 && (*rhs).0.0 != 0; ensures ret__ == Limb(((*self).v() % ((*rhs).0.0 as int)) as u64)
//@-
fn rem(self, rhs: &NonZero<Limb>) -> (ret__: Self::Output)
{
        *self % *rhs
    }
}
//@@ end
//@@ fn src/uint/div.rs | impl<const LIMBS: usize> Rem<&NonZero<Limb>> for Uint<LIMBS> | rem | body | props C02 C11 C15
impl<const LIMBS: usize> Rem<&NonZero<Limb>> for Uint<LIMBS> {
//@+
    type Output = Limb;
    // contract (vstd `RemSpecImpl` above): requires LIMBS >= 1 && (*rhs).0.0 != 0; ensures ret__ == Limb((self.v() % ((*rhs).0.0 as int)) as u64)
//@-
fn rem(self, rhs: &NonZero<Limb>) -> (ret__: Self::Output)
{
        self % *rhs
    }
}
//@@ end
//@@ fn src/uint/div.rs | impl<const LIMBS: usize> Rem<NonZero<Limb>> for &Uint<LIMBS> | rem | body | props C02 C11 C15
impl<const LIMBS: usize> Rem<NonZero<Limb>> for &Uint<LIMBS> {
//@+
    type Output = Limb;
    // contract (vstd `RemSpecImpl` above): requires LIMBS >= 1 && rhs.0.0 != 0; ensures ret__ == Limb(((*self).v() % (rhs.0.0 as int)) as u64)
//@-
fn rem(self, rhs: NonZero<Limb>) -> (ret__: Self::Output)
{
        *self % rhs
    }
}
//@@ end
//@@ fn src/uint/div.rs | impl<const LIMBS: usize> Rem<NonZero<Limb>> for Uint<LIMBS> | rem | body | props C02 C11 C15
impl<const LIMBS: usize> Rem<NonZero<Limb>> for Uint<LIMBS> {
//@+
    type Output = Limb;
    // contract (vstd `RemSpecImpl` above): requires LIMBS >= 1 && rhs.0.0 != 0; ensures ret__ == Limb((self.v() % (rhs.0.0 as int)) as u64)
//@-
fn rem(self, rhs: NonZero<Limb>) -> (ret__: Self::Output)
{
        let (_, r) = self.div_rem_limb(rhs);
//@+
    assert forall|u: Uint<LIMBS>| (#[trigger] u.v()) * (rhs.0.0 as int) + r.0 as int == self.v() implies r.0 as int == self.v() % (rhs.0.0 as int) by {
        let d = rhs.0.0 as int; assert(self.v() == d * u.v() + r.0 as int) by (nonlinear_arith) requires u.v() * d + r.0 as int == self.v();
        lemma_fundamental_div_mod_converse(self.v(), d, u.v(), r.0 as int); }
//@-
        r
    }
}
//@@ end
//@@ fn src/uint/div.rs | impl<const LIMBS: usize> Div<&NonZero<Uint<LIMBS>>> for &Uint<LIMBS> | div | body | props C02 C11 C15
impl<const LIMBS: usize> Div<&NonZero<Uint<LIMBS>>> for &Uint<LIMBS> {
//@+
    type Output = Uint<LIMBS>;
//@-
fn div(self, rhs: &NonZero<Uint<LIMBS>>) -> (ret__: Self::Output)
//@+
    ensures ret__.v() == (*self).v() / (*rhs).0.v()
//@-
{
        *self / *rhs
    }
}
//@@ end
//@@ fn src/uint/div.rs | impl<const LIMBS: usize> Div<&NonZero<Uint<LIMBS>>> for Uint<LIMBS> | div | body | props C02 C11 C15
impl<const LIMBS: usize> Div<&NonZero<Uint<LIMBS>>> for Uint<LIMBS> {
//@+
    type Output = Uint<LIMBS>;
//@-
fn div(self, rhs: &NonZero<Uint<LIMBS>>) -> (ret__: Self::Output)
//@+
    ensures ret__.v() == self.v() / (*rhs).0.v()
//@-
{
        self / *rhs
    }
}
//@@ end
//@@ fn src/uint/div.rs | impl<const LIMBS: usize> Div<NonZero<Uint<LIMBS>>> for &Uint<LIMBS> | div | body | props C02 C11 C15
impl<const LIMBS: usize> Div<NonZero<Uint<LIMBS>>> for &Uint<LIMBS> {
//@+
    type Output = Uint<LIMBS>;
//@-
fn div(self, rhs: NonZero<Uint<LIMBS>>) -> (ret__: Self::Output)
//@+
    ensures ret__.v() == (*self).v() / rhs.0.v()
//@-
{
        *self / rhs
    }
}
//@@ end
//@@ fn src/uint/div.rs | impl<const LIMBS: usize> Div<NonZero<Uint<LIMBS>>> for Uint<LIMBS> | div | body | props C02 C11 C15
impl<const LIMBS: usize> Div<NonZero<Uint<LIMBS>>> for Uint<LIMBS> {
//@+
    type Output = Uint<LIMBS>;
//@-
fn div(self, rhs: NonZero<Uint<LIMBS>>) -> (ret__: Self::Output)
//@+
    ensures ret__.v() == self.v() / rhs.0.v()
//@-
{
        let (q, _) = self.div_rem(&rhs);
        q
    }
}
//@@ end
//@@ fn src/uint/div.rs | impl<const LIMBS: usize> Rem<&NonZero<Uint<LIMBS>>> for &Uint<LIMBS> | rem | body | props C02 C11 C15
impl<const LIMBS: usize> Rem<&NonZero<Uint<LIMBS>>> for &Uint<LIMBS> {
//@+
    type Output = Uint<LIMBS>;
    // contract (vstd `RemSpecImpl` above): requires 1 <= LIMBS < 0x400_0000 && (*rhs).0.v() != 0; ensures ret__ == uint_of::<LIMBS>((*self).v() % (*rhs).0.v())
//@-
fn rem(self, rhs: &NonZero<Uint<LIMBS>>) -> (ret__: Self::Output)
{
        *self % *rhs
    }
}
//@@ end
//@@ fn src/uint/div.rs | impl<const LIMBS: usize> Rem<&NonZero<Uint<LIMBS>>> for Uint<LIMBS> | rem | body | props C02 C11 C15
impl<const LIMBS: usize> Rem<&NonZero<Uint<LIMBS>>> for Uint<LIMBS> {
//@+
    type Output = Uint<LIMBS>;
    // contract (vstd `RemSpecImpl` above): requires 1 <= LIMBS < 0x400_0000 && (*rhs).0.v() != 0; ensures ret__ == uint_of::<LIMBS>(self.v() % (*rhs).0.v())
//@-
fn rem(self, rhs: &NonZero<Uint<LIMBS>>) -> (ret__: Self::Output)
{
        self % *rhs
    }
}
//@@ end
//@@ fn src/uint/div.rs | impl<const LIMBS: usize> Rem<NonZero<Uint<LIMBS>>> for &Uint<LIMBS> | rem | body | props C02 C11 C15
impl<const LIMBS: usize> Rem<NonZero<Uint<LIMBS>>> for &Uint<LIMBS> {
//@+
    type Output = Uint<LIMBS>;
    // contract (vstd `RemSpecImpl` above): requires 1 <= LIMBS < 0x400_0000 && rhs.0.v() != 0; ensures ret__ == uint_of::<LIMBS>((*self).v() % rhs.0.v())
//@-
fn rem(self, rhs: NonZero<Uint<LIMBS>>) -> (ret__: Self::Output)
{
        *self % rhs
    }
}
//@@ end
//@@ fn src/uint/div.rs | impl<const LIMBS: usize> Rem<NonZero<Uint<LIMBS>>> for Uint<LIMBS> | rem | body | props C02 C11 C15
impl<const LIMBS: usize> Rem<NonZero<Uint<LIMBS>>> for Uint<LIMBS> {
//@+
    type Output = Uint<LIMBS>;
    // contract (vstd `RemSpecImpl` above): requires 1 <= LIMBS < 0x400_0000 && rhs.0.v() != 0; ensures ret__ == uint_of::<LIMBS>(self.v() % rhs.0.v())
//@-
fn rem(self, rhs: NonZero<Uint<LIMBS>>) -> (ret__: Self::Output)
{
//@+
    proof { lemma_val_bound(rhs.0.limbs@, LIMBS as nat); lemma_mod_bound(self.v(), rhs.0.v()); lemma_uint_of::<LIMBS>(self.v() % rhs.0.v()); }
    assert forall|u: Uint<LIMBS>| #[trigger] u.v() == self.v() % rhs.0.v() implies u == uint_of::<LIMBS>(self.v() % rhs.0.v()) by { lemma_uint_eq(u, uint_of::<LIMBS>(self.v() % rhs.0.v())); }
//@-
        Self::rem(&self, &rhs)
    }
}
//@@ end
//@@ fn src/uint/div.rs | impl<const LIMBS: usize> Div<Uint<LIMBS>> for &Uint<LIMBS> | div | body | props C02 C11 C15
impl<const LIMBS: usize> Div<Uint<LIMBS>> for &Uint<LIMBS> {
//@+
    type Output = Uint<LIMBS>;
//@-
fn div(self, rhs: Uint<LIMBS>) -> (ret__: Self::Output)
//@+
    ensures ret__.v() == (*self).v() / rhs.v()
//@-
{
        self / NonZero::new(rhs).expect("attempt to divide with a divisor of zero")
    }
}
//@@ end
//@@ fn src/uint/div.rs | impl<const LIMBS: usize> Div<Uint<LIMBS>> for Uint<LIMBS> | div | body | props C02 C11 C15
impl<const LIMBS: usize> Div<Uint<LIMBS>> for Uint<LIMBS> {
//@+
    type Output = Uint<LIMBS>;
    // Verus erases `&`: `&self / rhs` is resolved at VIR level to this very impl and reported as recursion; the /repo code is
    // not recursive (it calls the `&Uint` form)
    #[verifier::exec_allows_no_decreases_clause]
//@-
fn div(self, rhs: Uint<LIMBS>) -> (ret__: Self::Output)
//@+
    ensures ret__.v() == self.v() / rhs.v()
//@-
{
        &self / rhs
    }
}
//@@ end
//@@ fn src/uint/div.rs | impl<const LIMBS: usize> Rem<Uint<LIMBS>> for &Uint<LIMBS> | rem | body | props C02 C11 C15
impl<const LIMBS: usize> Rem<Uint<LIMBS>> for &Uint<LIMBS> {
//@+
    type Output = Uint<LIMBS>;
    // contract (vstd `RemSpecImpl` above): requires 1 <= LIMBS < 0x400_0000 && rhs.v() != 0; ensures ret__ == uint_of::<LIMBS>((*self).v() % rhs.v())
//@-
fn rem(self, rhs: Uint<LIMBS>) -> (ret__: Self::Output)
{
        self % NonZero::new(rhs).expect("attempt to calculate the remainder with a divisor of zero")
    }
}
//@@ end
//@@ fn src/uint/div.rs | impl<const LIMBS: usize> Rem<Uint<LIMBS>> for Uint<LIMBS> | rem | body | props C02 C11 C15
impl<const LIMBS: usize> Rem<Uint<LIMBS>> for Uint<LIMBS> {
//@+
    type Output = Uint<LIMBS>;
    // contract (vstd `RemSpecImpl` above): requires 1 <= LIMBS < 0x400_0000 && rhs.v() != 0; ensures ret__ == uint_of::<LIMBS>(self.v() % rhs.v())
    // Verus erases `&`: `&self / rhs` is resolved at VIR level to this very impl and reported as recursion; the /repo code is
    // not recursive (it calls the `&Uint` form)
    #[verifier::exec_allows_no_decreases_clause]
//@-
fn rem(self, rhs: Uint<LIMBS>) -> (ret__: Self::Output)
{
        &self % rhs
    }
}
//@@ end
//@@ fn src/int/div.rs | impl<const LIMBS: usize> Div<&NonZero<Int<LIMBS>>> for &Int<LIMBS> | div | body | props C14 C11 C15
impl<const LIMBS: usize> Div<&NonZero<Int<LIMBS>>> for &Int<LIMBS> {
//@+
    type Output = CtOption<Int<LIMBS>>;
//@-
fn div(self, rhs: &NonZero<Int<LIMBS>>) -> (ret__: Self::Output)
//@+
    ensures ret__.is_some.wf(), ret__.is_some.t() == !((*self).iv() == -ih(LIMBS as nat) && (*rhs).0.iv() == -1), ret__.is_some.t() ==> ret__.value.iv() == trunc_q((*self).iv(), (*rhs).0.iv())
//@-
{
        *self / *rhs
    }
}
//@@ end
//@@ fn src/int/div.rs | impl<const LIMBS: usize> Div<&NonZero<Int<LIMBS>>> for Int<LIMBS> | div | body | props C14 C11 C15
impl<const LIMBS: usize> Div<&NonZero<Int<LIMBS>>> for Int<LIMBS> {
//@+
    type Output = CtOption<Int<LIMBS>>;
//@-
fn div(self, rhs: &NonZero<Int<LIMBS>>) -> (ret__: Self::Output)
//@+
    ensures ret__.is_some.wf(), ret__.is_some.t() == !(self.iv() == -ih(LIMBS as nat) && (*rhs).0.iv() == -1), ret__.is_some.t() ==> ret__.value.iv() == trunc_q(self.iv(), (*rhs).0.iv())
//@-
{
        self / *rhs
    }
}
//@@ end
//@@ fn src/int/div.rs | impl<const LIMBS: usize> Div<NonZero<Int<LIMBS>>> for &Int<LIMBS> | div | body | props C14 C11 C15
impl<const LIMBS: usize> Div<NonZero<Int<LIMBS>>> for &Int<LIMBS> {
//@+
    type Output = CtOption<Int<LIMBS>>;
//@-
fn div(self, rhs: NonZero<Int<LIMBS>>) -> (ret__: Self::Output)
//@+
    ensures ret__.is_some.wf(), ret__.is_some.t() == !((*self).iv() == -ih(LIMBS as nat) && rhs.0.iv() == -1), ret__.is_some.t() ==> ret__.value.iv() == trunc_q((*self).iv(), rhs.0.iv())
//@-
{
        *self / rhs
    }
}
//@@ end
//@@ fn src/int/div.rs | impl<const LIMBS: usize> Div<NonZero<Int<LIMBS>>> for Int<LIMBS> | div | body | props C14 C11 C15
impl<const LIMBS: usize> Div<NonZero<Int<LIMBS>>> for Int<LIMBS> {
//@+
    type Output = CtOption<Int<LIMBS>>;
//@-
fn div(self, rhs: NonZero<Int<LIMBS>>) -> (ret__: Self::Output)
//@+
    ensures ret__.is_some.wf(), ret__.is_some.t() == !(self.iv() == -ih(LIMBS as nat) && rhs.0.iv() == -1), ret__.is_some.t() ==> ret__.value.iv() == trunc_q(self.iv(), rhs.0.iv())
//@-
{
        self.checked_div(&rhs)
    }
}
//@@ end
//@@ fn src/int/div.rs | impl<const LIMBS: usize> Rem<&NonZero<Int<LIMBS>>> for &Int<LIMBS> | rem | body | props C14 C11 C15
impl<const LIMBS: usize> Rem<&NonZero<Int<LIMBS>>> for &Int<LIMBS> {
//@+
    type Output = Int<LIMBS>;
    // contract (vstd `RemSpecImpl` above): requires 1 <= LIMBS < 0x400_0000 && (*rhs).0.iv() != 0; ensures ret__ == int_of::<LIMBS>((*self).iv() - trunc_q((*self).iv(), (*rhs).0.iv()) * (*rhs).0.iv())
//@-
fn rem(self, rhs: &NonZero<Int<LIMBS>>) -> (ret__: Self::Output)
{
        *self % *rhs
    }
}
//@@ end
//@@ fn src/int/div.rs | impl<const LIMBS: usize> Rem<&NonZero<Int<LIMBS>>> for Int<LIMBS> | rem | body | props C14 C11 C15
impl<const LIMBS: usize> Rem<&NonZero<Int<LIMBS>>> for Int<LIMBS> {
//@+
    type Output = Int<LIMBS>;
    // contract (vstd `RemSpecImpl` above): requires 1 <= LIMBS < 0x400_0000 && (*rhs).0.iv() != 0; ensures ret__ == int_of::<LIMBS>(self.iv() - trunc_q(self.iv(), (*rhs).0.iv()) * (*rhs).0.iv())
//@-
fn rem(self, rhs: &NonZero<Int<LIMBS>>) -> (ret__: Self::Output)
{
        self % *rhs
    }
}
//@@ end
//@@ fn src/int/div.rs | impl<const LIMBS: usize> Rem<NonZero<Int<LIMBS>>> for &Int<LIMBS> | rem | body | props C14 C11 C15
impl<const LIMBS: usize> Rem<NonZero<Int<LIMBS>>> for &Int<LIMBS> {
//@+
    type Output = Int<LIMBS>;
    // contract (vstd `RemSpecImpl` above): requires 1 <= LIMBS < 0x400_0000 && rhs.0.iv() != 0; ensures ret__ == int_of::<LIMBS>((*self).iv() - trunc_q((*self).iv(), rhs.0.iv()) * rhs.0.iv())
//@-
fn rem(self, rhs: NonZero<Int<LIMBS>>) -> (ret__: Self::Output)
{
        *self % rhs
    }
}
//@@ end
//@@ fn src/int/div.rs | impl<const LIMBS: usize> Rem<NonZero<Int<LIMBS>>> for Int<LIMBS> | rem | body | props C14 C11 C15
impl<const LIMBS: usize> Rem<NonZero<Int<LIMBS>>> for Int<LIMBS> {
//@+
    type Output = Int<LIMBS>;
    // contract (vstd `RemSpecImpl` above): requires 1 <= LIMBS < 0x400_0000 && rhs.0.iv() != 0; ensures ret__ == int_of::<LIMBS>(self.iv() - trunc_q(self.iv(), rhs.0.iv()) * rhs.0.iv())
//@-
fn rem(self, rhs: NonZero<Int<LIMBS>>) -> (ret__: Self::Output)
{
//@+
    assert forall|u: Int<LIMBS>| #[trigger] u.iv() == self.iv() - trunc_q(self.iv(), rhs.0.iv()) * rhs.0.iv() implies u == int_of::<LIMBS>(self.iv() - trunc_q(self.iv(), rhs.0.iv()) * rhs.0.iv()) by {
        lemma_val_bound(u.0.limbs@, LIMBS as nat); lemma_iv_bounds(u.0.v(), LIMBS as nat); lemma_int_of::<LIMBS>(u.iv()); lemma_int_eq(u, int_of::<LIMBS>(u.iv())); }
//@-
        Self::rem(&self, &rhs)
    }
}
//@@ end
//@@ fn src/int/div_uint.rs | impl<const LIMBS: usize> Div<&NonZero<Uint<LIMBS>>> for &Int<LIMBS> | div | body | props C14 C11 C15
impl<const LIMBS: usize> Div<&NonZero<Uint<LIMBS>>> for &Int<LIMBS> {
//@+
    type Output = Int<LIMBS>;
//@-
fn div(self, rhs: &NonZero<Uint<LIMBS>>) -> (ret__: Self::Output)
//@+
    ensures ret__.iv() == trunc_q((*self).iv(), (*rhs).0.v())
//@-
{
        *self / *rhs
    }
}
//@@ end
//@@ fn src/int/div_uint.rs | impl<const LIMBS: usize> Div<&NonZero<Uint<LIMBS>>> for Int<LIMBS> | div | body | props C14 C11 C15
impl<const LIMBS: usize> Div<&NonZero<Uint<LIMBS>>> for Int<LIMBS> {
//@+
    type Output = Int<LIMBS>;
//@-
fn div(self, rhs: &NonZero<Uint<LIMBS>>) -> (ret__: Self::Output)
//@+
    ensures ret__.iv() == trunc_q(self.iv(), (*rhs).0.v())
//@-
{
        self / *rhs
    }
}
//@@ end
//@@ fn src/int/div_uint.rs | impl<const LIMBS: usize> Div<NonZero<Uint<LIMBS>>> for &Int<LIMBS> | div | body | props C14 C11 C15
impl<const LIMBS: usize> Div<NonZero<Uint<LIMBS>>> for &Int<LIMBS> {
//@+
    type Output = Int<LIMBS>;
//@-
fn div(self, rhs: NonZero<Uint<LIMBS>>) -> (ret__: Self::Output)
//@+
    ensures ret__.iv() == trunc_q((*self).iv(), rhs.0.v())
//@-
{
        *self / rhs
    }
}
//@@ end
//@@ fn src/int/div_uint.rs | impl<const LIMBS: usize> Div<NonZero<Uint<LIMBS>>> for Int<LIMBS> | div | body | props C14 C11 C15
impl<const LIMBS: usize> Div<NonZero<Uint<LIMBS>>> for Int<LIMBS> {
//@+
    type Output = Int<LIMBS>;
//@-
fn div(self, rhs: NonZero<Uint<LIMBS>>) -> (ret__: Self::Output)
//@+
    ensures ret__.iv() == trunc_q(self.iv(), rhs.0.v())
//@-
{
        self.div_uint(&rhs)
    }
}
//@@ end
//@@ fn src/int/div_uint.rs | impl<const LIMBS: usize> Rem<&NonZero<Uint<LIMBS>>> for &Int<LIMBS> | rem | body | props C14 C11 C15
impl<const LIMBS: usize> Rem<&NonZero<Uint<LIMBS>>> for &Int<LIMBS> {
//@+
    type Output = Int<LIMBS>;
    // contract (vstd `RemSpecImpl` above): requires 1 <= LIMBS < 0x400_0000 && (*rhs).0.v() != 0; ensures ret__ == int_of::<LIMBS>((*self).iv() - trunc_q((*self).iv(), (*rhs).0.v()) * (*rhs).0.v())
//@-
fn rem(self, rhs: &NonZero<Uint<LIMBS>>) -> (ret__: Self::Output)
{
        *self % *rhs
    }
}
//@@ end
//@@ fn src/int/div_uint.rs | impl<const LIMBS: usize> Rem<&NonZero<Uint<LIMBS>>> for Int<LIMBS> | rem | body | props C14 C11 C15
impl<const LIMBS: usize> Rem<&NonZero<Uint<LIMBS>>> for Int<LIMBS> {
//@+
    type Output = Int<LIMBS>;
    // contract (vstd `RemSpecImpl` above): requires 1 <= LIMBS < 0x400_0000 && (*rhs).0.v() != 0; ensures ret__ == int_of::<LIMBS>(self.iv() - trunc_q(self.iv(), (*rhs).0.v()) * (*rhs).0.v())
//@-
fn rem(self, rhs: &NonZero<Uint<LIMBS>>) -> (ret__: Self::Output)
{
        self % *rhs
    }
}
//@@ end
//@@ fn src/int/div_uint.rs | impl<const LIMBS: usize> Rem<NonZero<Uint<LIMBS>>> for &Int<LIMBS> | rem | body | props C14 C11 C15
impl<const LIMBS: usize> Rem<NonZero<Uint<LIMBS>>> for &Int<LIMBS> {
//@+
    type Output = Int<LIMBS>;
    // contract (vstd `RemSpecImpl` above): requires 1 <= LIMBS < 0x400_0000 && rhs.0.v() != 0; ensures ret__ == int_of::<LIMBS>((*self).iv() - trunc_q((*self).iv(), rhs.0.v()) * rhs.0.v())
//@-
fn rem(self, rhs: NonZero<Uint<LIMBS>>) -> (ret__: Self::Output)
{
        *self % rhs
    }
}
//@@ end
//@@ fn src/int/div_uint.rs | impl<const LIMBS: usize> Rem<NonZero<Uint<LIMBS>>> for Int<LIMBS> | rem | body | props C14 C11 C15
impl<const LIMBS: usize> Rem<NonZero<Uint<LIMBS>>> for Int<LIMBS> {
//@+
    type Output = Int<LIMBS>;
    // contract (vstd `RemSpecImpl` above): requires 1 <= LIMBS < 0x400_0000 && rhs.0.v() != 0; ensures ret__ == int_of::<LIMBS>(self.iv() - trunc_q(self.iv(), rhs.0.v()) * rhs.0.v())
//@-
fn rem(self, rhs: NonZero<Uint<LIMBS>>) -> (ret__: Self::Output)
{
//@+
    assert forall|u: Int<LIMBS>| #[trigger] u.iv() == self.iv() - trunc_q(self.iv(), rhs.0.v()) * rhs.0.v() implies u == int_of::<LIMBS>(self.iv() - trunc_q(self.iv(), rhs.0.v()) * rhs.0.v()) by {
        lemma_val_bound(u.0.limbs@, LIMBS as nat); lemma_iv_bounds(u.0.v(), LIMBS as nat); lemma_int_of::<LIMBS>(u.iv()); lemma_int_eq(u, int_of::<LIMBS>(u.iv())); }
//@-
        Self::rem_uint(&self, &rhs)
    }
}
//@@ end
//@@ fn src/uint/div.rs | impl<const LIMBS: usize> DivAssign<&NonZero<Limb>> for Uint<LIMBS> | div_assign | body | props C02 C11 C15
impl<const LIMBS: usize> DivAssign<&NonZero<Limb>> for Uint<LIMBS> {
fn div_assign(&mut self, rhs: &NonZero<Limb>)
//@+
    ensures final(self).v() == old(self).v() / ((*rhs).0.0 as int)
//@-
{
        *self /= *rhs;
    }
}
//@@ end
//@@ fn src/uint/div.rs | impl<const LIMBS: usize> DivAssign<NonZero<Limb>> for Uint<LIMBS> | div_assign | body | props C02 C11 C15
impl<const LIMBS: usize> DivAssign<NonZero<Limb>> for Uint<LIMBS> {
fn div_assign(&mut self, rhs: NonZero<Limb>)
//@+
    ensures final(self).v() == old(self).v() / (rhs.0.0 as int)
//@-
{
        *self = *self / rhs;
    }
}
//@@ end
//@@ fn src/uint/div.rs | impl<const LIMBS: usize> DivAssign<&NonZero<Uint<LIMBS>>> for Uint<LIMBS> | div_assign | body | props C02 C11 C15
impl<const LIMBS: usize> DivAssign<&NonZero<Uint<LIMBS>>> for Uint<LIMBS> {
fn div_assign(&mut self, rhs: &NonZero<Uint<LIMBS>>)
//@+
    ensures final(self).v() == old(self).v() / (*rhs).0.v()
//@-
{
        *self /= *rhs
    }
}
//@@ end
//@@ fn src/uint/div.rs | impl<const LIMBS: usize> DivAssign<NonZero<Uint<LIMBS>>> for Uint<LIMBS> | div_assign | body | props C02 C11 C15
impl<const LIMBS: usize> DivAssign<NonZero<Uint<LIMBS>>> for Uint<LIMBS> {
fn div_assign(&mut self, rhs: NonZero<Uint<LIMBS>>)
//@+
    ensures final(self).v() == old(self).v() / rhs.0.v()
//@-
{
        *self = *self / rhs;
    }
}
//@@ end
//@@ fn src/uint/div.rs | impl<const LIMBS: usize> RemAssign<&NonZero<Uint<LIMBS>>> for Uint<LIMBS> | rem_assign | body | props C02 C11 C15
impl<const LIMBS: usize> RemAssign<&NonZero<Uint<LIMBS>>> for Uint<LIMBS> {
fn rem_assign(&mut self, rhs: &NonZero<Uint<LIMBS>>)
//@+
    ensures final(self).v() == old(self).v() % (*rhs).0.v()
//@-
{
        *self %= *rhs
    }
}
//@@ end
//@@ fn src/uint/div.rs | impl<const LIMBS: usize> RemAssign<NonZero<Uint<LIMBS>>> for Uint<LIMBS> | rem_assign | body | props C02 C11 C15
impl<const LIMBS: usize> RemAssign<NonZero<Uint<LIMBS>>> for Uint<LIMBS> {
fn rem_assign(&mut self, rhs: NonZero<Uint<LIMBS>>)
//@+
    ensures final(self).v() == old(self).v() % rhs.0.v()
//@-
{
//@+
    proof { lemma_val_bound(rhs.0.limbs@, LIMBS as nat); lemma_mod_bound(old(self).v(), rhs.0.v()); lemma_uint_of::<LIMBS>(old(self).v() % rhs.0.v()); }
//@-
        *self = *self % rhs;
    }
}
//@@ end
//@@ fn src/int/div.rs | impl<const LIMBS: usize> DivAssign<&NonZero<Int<LIMBS>>> for Int<LIMBS> | div_assign | body | props C14 C11 C15
impl<const LIMBS: usize> DivAssign<&NonZero<Int<LIMBS>>> for Int<LIMBS> {
fn div_assign(&mut self, rhs: &NonZero<Int<LIMBS>>)
//@+
    ensures final(self).iv() == trunc_q(old(self).iv(), (*rhs).0.iv())
//@-
{
        *self /= *rhs
    }
}
//@@ end
//@@ fn src/int/div.rs | impl<const LIMBS: usize> DivAssign<NonZero<Int<LIMBS>>> for Int<LIMBS> | div_assign | body | props C14 C11 C15
impl<const LIMBS: usize> DivAssign<NonZero<Int<LIMBS>>> for Int<LIMBS> {
fn div_assign(&mut self, rhs: NonZero<Int<LIMBS>>)
//@+
    ensures final(self).iv() == trunc_q(old(self).iv(), rhs.0.iv())
//@-
{
        *self = (*self / rhs).expect("cannot represent positive equivalent of Int::MIN as int");
    }
}
//@@ end
//@@ fn src/int/div.rs | impl<const LIMBS: usize> RemAssign<&NonZero<Int<LIMBS>>> for Int<LIMBS> | rem_assign | body | props C14 C11 C15
impl<const LIMBS: usize> RemAssign<&NonZero<Int<LIMBS>>> for Int<LIMBS> {
fn rem_assign(&mut self, rhs: &NonZero<Int<LIMBS>>)
//@+
    ensures final(self).iv() == old(self).iv() - trunc_q(old(self).iv(), (*rhs).0.iv()) * (*rhs).0.iv()
//@-
{
        *self %= *rhs
    }
}
//@@ end
//@@ fn src/int/div.rs | impl<const LIMBS: usize> RemAssign<NonZero<Int<LIMBS>>> for Int<LIMBS> | rem_assign | body | props C14 C11 C15
impl<const LIMBS: usize> RemAssign<NonZero<Int<LIMBS>>> for Int<LIMBS> {
fn rem_assign(&mut self, rhs: NonZero<Int<LIMBS>>)
//@+
    ensures final(self).iv() == old(self).iv() - trunc_q(old(self).iv(), rhs.0.iv()) * rhs.0.iv()
//@-
{
//@+
    proof { let n = old(self).iv(); let d = rhs.0.iv(); lemma_val_bound(old(self).0.limbs@, LIMBS as nat); lemma_val_bound(rhs.0.0.limbs@, LIMBS as nat);
        lemma_iv_bounds(old(self).0.v(), LIMBS as nat); lemma_iv_bounds(rhs.0.0.v(), LIMBS as nat); lemma_rem_in_range(n, d, LIMBS as nat); lemma_int_of::<LIMBS>(n - trunc_q(n, d) * d); }
//@-
        *self = *self % rhs;
    }
}
//@@ end
//@@ fn src/int/div_uint.rs | impl<const LIMBS: usize> DivAssign<&NonZero<Uint<LIMBS>>> for Int<LIMBS> | div_assign | body | props C14 C11 C15
impl<const LIMBS: usize> DivAssign<&NonZero<Uint<LIMBS>>> for Int<LIMBS> {
fn div_assign(&mut self, rhs: &NonZero<Uint<LIMBS>>)
//@+
    ensures final(self).iv() == trunc_q(old(self).iv(), (*rhs).0.v())
//@-
{
        *self /= *rhs
    }
}
//@@ end
//@@ fn src/int/div_uint.rs | impl<const LIMBS: usize> DivAssign<NonZero<Uint<LIMBS>>> for Int<LIMBS> | div_assign | body | props C14 C11 C15
impl<const LIMBS: usize> DivAssign<NonZero<Uint<LIMBS>>> for Int<LIMBS> {
fn div_assign(&mut self, rhs: NonZero<Uint<LIMBS>>)
//@+
    ensures final(self).iv() == trunc_q(old(self).iv(), rhs.0.v())
//@-
{
        *self = *self / rhs;
    }
}
//@@ end
//@@ fn src/int/div_uint.rs | impl<const LIMBS: usize> RemAssign<&NonZero<Uint<LIMBS>>> for Int<LIMBS> | rem_assign | body | props C14 C11 C15
impl<const LIMBS: usize> RemAssign<&NonZero<Uint<LIMBS>>> for Int<LIMBS> {
fn rem_assign(&mut self, rhs: &NonZero<Uint<LIMBS>>)
//@+
    ensures final(self).iv() == old(self).iv() - trunc_q(old(self).iv(), (*rhs).0.v()) * (*rhs).0.v()
//@-
{
        *self %= *rhs
    }
}
//@@ end
//@@ fn src/int/div_uint.rs | impl<const LIMBS: usize> RemAssign<NonZero<Uint<LIMBS>>> for Int<LIMBS> | rem_assign | body | props C14 C11 C15
impl<const LIMBS: usize> RemAssign<NonZero<Uint<LIMBS>>> for Int<LIMBS> {
fn rem_assign(&mut self, rhs: NonZero<Uint<LIMBS>>)
//@+
    ensures final(self).iv() == old(self).iv() - trunc_q(old(self).iv(), rhs.0.v()) * rhs.0.v()
//@-
{
//@+
    proof { let n = old(self).iv(); let d = rhs.0.v(); lemma_val_bound(old(self).0.limbs@, LIMBS as nat); lemma_val_bound(rhs.0.limbs@, LIMBS as nat);
        lemma_iv_bounds(old(self).0.v(), LIMBS as nat); lemma_rem_in_range(n, d, LIMBS as nat); lemma_int_of::<LIMBS>(n - trunc_q(n, d) * d); }
//@-
        *self = *self % rhs;
    }
}
//@@ end

} // verus!
