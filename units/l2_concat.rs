// L2: Uint::concat / concat_mixed / split / split_mixed (src/uint/concat.rs, src/uint/split.rs) -- C16 (resize/concat/split), used by C08
//
// HAND-WRITTEN (not extracted; tools/gen.py has no `trait` item kind): the declarations of the four traits
// `ConcatMixed`, `Concat`, `SplitMixed`, `Split` (src/traits.rs:533-570) **reduced to their associated types**:
// the trait methods (`concat_mixed`, `split_mixed`, and the provided `concat`, `split`) and the `Integer` bound on the
// output types are left out. Reason (DESIGN.md R9): the macro-generated impls
// (`impl_uint_concat_split_even!`, `impl_uint_concat_split_mixed!`, src/uint/macros.rs) implement the method by
// calling the inherent `Uint::concat_mixed`, whose `where` clause names the trait being implemented; Verus rejects
// that as a trait-impl cycle. Without the methods there is no cycle, every generic `where Self: Concat<Output = ..>`
// bound of the repo is kept verbatim, and the inherent generic functions below are extracted and *proved*.
// The blanket `impl<T> Concat for T where T: ConcatMixed<T>` (src/uint/concat.rs:38) is type-level only and copied.
// The trait bound carries no arithmetic information (`O == L + H` is a property of the generated impls, checked by
// Engine B at every instantiated size), so the contracts are stated under the explicit hypothesis `O == L + H`.
use vstd::prelude::*;
use vstd::arithmetic::power::*;
use vstd::arithmetic::div_mod::*;
use crate::speclib::*;
use crate::l0_prim::*;
use crate::l1_choice::*;
use crate::l1_limb::*;
use crate::l2_core::*;
verus! {

pub trait ConcatMixed<Hi: ?Sized = Self> {
    /// Concatenated output: combination of `Self` and `Hi`.
    type MixedOutput;
}
pub trait Concat: ConcatMixed<Self, MixedOutput = Self::Output> {
    /// Concatenated output: twice the width of `Self`.
    type Output;
}
pub trait SplitMixed<Lo, Hi> {
}
pub trait Split: SplitMixed<Self::Output, Self::Output> {
    /// Split output: low/high components of the value.
    type Output;
}
impl<T> Concat for T
where
    T: ConcatMixed<T>,
{
    type Output = Self::MixedOutput;
}

// Type-only counterparts of `impl_uint_concat_split_even! { U1024, U2048, U4096, U8192 }` (src/uint.rs:429-450,
// 64-bit limbs: 16, 32, 64, 128 limbs), the instances used by the Karatsuba arms (l3_karatsuba).
impl ConcatMixed<Uint<8>> for Uint<8> { type MixedOutput = Uint<16>; }
impl ConcatMixed<Uint<16>> for Uint<16> { type MixedOutput = Uint<32>; }
impl ConcatMixed<Uint<32>> for Uint<32> { type MixedOutput = Uint<64>; }
impl ConcatMixed<Uint<64>> for Uint<64> { type MixedOutput = Uint<128>; }

/// s is lo (l limbs) followed by hi (h limbs): val(s, l + h) == val(lo, l) + val(hi, h) * B^l
pub proof fn lemma_val_concat(s: Seq<Limb>, lo: Seq<Limb>, hi: Seq<Limb>, l: nat, h: nat)
    requires
        forall|k: int| 0 <= k < l ==> s[k] == lo[k],
        forall|k: int| 0 <= k < h ==> s[l + k] == hi[k],
    ensures val(s, l + h) == val(lo, l) + val(hi, h) * bp(l)
    decreases h
{
    if h == 0 {
        lemma_val_ext(s, lo, l);
        assert(0 * bp(l) == 0);
    } else {
        let h1 = (h - 1) as nat;
        lemma_val_concat(s, lo, hi, l, h1);
        lemma_bp_add(l, h1);
        assert(s[(l + h1) as int] == hi[h1 as int]);
        let a = hi[h1 as int].0 as int;
        assert((l + h - 1) as nat == l + h1);
        assert(a * bp(l + h1) == a * bp(h1) * bp(l)) by (nonlinear_arith)
            requires bp(l + h1) == bp(l) * bp(h1);
        assert((val(hi, h1) + a * bp(h1)) * bp(l) == val(hi, h1) * bp(l) + a * bp(h1) * bp(l)) by (nonlinear_arith);
    }
}

/// x == lo + hi * r with 0 <= lo < r: lo and hi are remainder and quotient
pub proof fn lemma_split_divmod(x: int, lo: int, hi: int, r: int)
    requires r > 0, 0 <= lo < r, x == lo + hi * r
    ensures lo == x % r, hi == x / r
{
    lemma_fundamental_div_mod_converse(x, r, hi, lo);
}

//@@ subst \b(Self|Uint)::(ZERO|ONE|MAX|BITS|LOG2_BITS)\b(?!\() => \1::\2()
//@@ subst \bUint::<(\w+)>::(ZERO|ONE|MAX|BITS)\b(?!\() => Uint::<\1>::\2()
//@@ fn src/uint/concat.rs | impl<const L: usize> Uint<L> | concat_mixed | body | props C16 C08 C11
impl<const L: usize> Uint<L> {
pub const fn concat_mixed<const H: usize, const O: usize>(lo: &Uint<L>, hi: &Uint<H>) -> (ret__: Uint<O>)
where
        Self: ConcatMixed<Uint<H>, MixedOutput = Uint<O>>,
//@+
    requires L + H <= usize::MAX
    ensures
        forall|k: int| 0 <= k < O ==> ret__.limbs@[k] == (if k < L { lo.limbs@[k] } else if k < L + H { hi.limbs@[k - L] } else { Limb(0) }),
        O == L + H ==> ret__.v() == lo.v() + hi.v() * bp(L as nat),
//@-
{
        let top = L + H;
        let top = if top < O { top } else { O };
        let mut limbs = [Limb::ZERO; O];
        let mut i = 0;
        while i < top
//@+
    invariant i <= top, top <= O, top <= L + H, L + H <= usize::MAX,
        forall|k: int| 0 <= k < i ==> limbs@[k] == (if k < L { lo.limbs@[k] } else { hi.limbs@[k - L] }),
        forall|k: int| i <= k < O ==> limbs@[k] == Limb(0),
    decreases top - i,
//@-
{
            if i < L {
                limbs[i] = lo.limbs[i];
            } else {
                limbs[i] = hi.limbs[i - L];
            }
            i += 1;
        }
//@+
    proof {
        if O == L + H { lemma_val_concat(limbs@, lo.limbs@, hi.limbs@, L as nat, H as nat); }
    }
//@-
        Uint { limbs }
    }
}
//@@ end
//@@ fn src/uint/concat.rs | impl<const L: usize> Uint<L> | concat | body | props C16 C08 C11
impl<const L: usize> Uint<L> {
pub const fn concat<const O: usize>(&self, hi: &Self) -> (ret__: Uint<O>)
where
        Self: Concat<Output = Uint<O>>,
//@+
    requires 2 * L <= usize::MAX
    ensures
        forall|k: int| 0 <= k < O ==> ret__.limbs@[k] == (if k < L { self.limbs@[k] } else if k < 2 * L { hi.limbs@[k - L] } else { Limb(0) }),
        O == 2 * L ==> ret__.v() == self.v() + hi.v() * bp(L as nat),
//@-
{
        Uint::concat_mixed(self, hi)
    }
}
//@@ end
//@@ fn src/uint/split.rs | impl<const I: usize> Uint<I> | split_mixed | body | props C16 C08 C11
impl<const I: usize> Uint<I> {
pub const fn split_mixed<const L: usize, const H: usize>(&self) -> (ret__: (Uint<L>, Uint<H>))
where
        Self: SplitMixed<Uint<L>, Uint<H>>,
//@+
    requires L + H <= usize::MAX
    ensures
        forall|k: int| 0 <= k < L ==> ret__.0.limbs@[k] == (if k < I { self.limbs@[k] } else { Limb(0) }),
        forall|k: int| 0 <= k < H ==> ret__.1.limbs@[k] == (if L + k < I { self.limbs@[L + k] } else { Limb(0) }),
        I == L + H ==> self.v() == ret__.0.v() + ret__.1.v() * bp(L as nat)
            && ret__.0.v() == self.v() % bp(L as nat) && ret__.1.v() == self.v() / bp(L as nat),
//@-
{
        let top = L + H;
        let top = if top < I { top } else { I };
        let mut lo = [Limb::ZERO; L];
        let mut hi = [Limb::ZERO; H];
        let mut i = 0;
        while i < top
//@+
    invariant i <= top, top <= I, top <= L + H, L + H <= usize::MAX,
        forall|k: int| 0 <= k < L ==> lo@[k] == (if k < i { self.limbs@[k] } else { Limb(0) }),
        forall|k: int| 0 <= k < H ==> hi@[k] == (if L + k < i { self.limbs@[L + k] } else { Limb(0) }),
    decreases top - i,
//@-
{
            if i < L {
                lo[i] = self.limbs[i];
            } else {
                hi[i - L] = self.limbs[i];
            }
            i += 1;
        }
//@+
    proof {
        if I == L + H {
            lemma_val_concat(self.limbs@, lo@, hi@, L as nat, H as nat);
            lemma_val_bound(lo@, L as nat);
            lemma_split_divmod(val(self.limbs@, I as nat), val(lo@, L as nat), val(hi@, H as nat), bp(L as nat));
        }
    }
//@-
        (Uint { limbs: lo }, Uint { limbs: hi })
    }
}
//@@ end
//@@ fn src/uint/split.rs | impl<const I: usize> Uint<I> | split | body | props C16 C08 C11
impl<const I: usize> Uint<I> {
pub const fn split<const O: usize>(&self) -> (ret__: (Uint<O>, Uint<O>))
where
        Self: Split<Output = Uint<O>>,
//@+
    requires 2 * O <= usize::MAX
    ensures
        I == 2 * O ==> self.v() == ret__.0.v() + ret__.1.v() * bp(O as nat)
            && ret__.0.v() == self.v() % bp(O as nat) && ret__.1.v() == self.v() / bp(O as nat),
//@-
{
        self.split_mixed()
    }
}
//@@ end

} // verus!
