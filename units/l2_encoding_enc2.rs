// L2: comparison / bit-or trait impls of `Limb` (src/limb/cmp.rs, src/limb/bit_or.rs) that the radix encoder of l2_encoding_enc.rs uses -- C06 C05 (C17)
// body (proved): ConstantTimeGreater::ct_gt, ConstantTimeLess::ct_lt (over ConstChoice::from_word_gt / from_word_lt), Ord::cmp (conditional_assign over the
//   subtle model of l8_boxed_methods.rs, incl. its debug_assert_eq!), PartialOrd::partial_cmp, PartialEq::eq, BitOrAssign::bitor_assign.
// spec side: vstd `PartialEqSpecImpl` / `PartialOrdSpecImpl` / `OrdSpecImpl` / `BitOrAssignSpecImpl for Limb` (so `a == b`, `a < b`, `a |= b` on limbs are resolved
//   by vstd through the verified impls); `impl Eq for Limb {}` (marker).
use vstd::prelude::*;
use core::cmp::Ordering;
use core::ops::BitOrAssign;
use crate::speclib::*;
use crate::l1_choice::*;
use crate::l1_limb::*;
use crate::l2_subtle::*;
use crate::l7_traits::*;
use crate::l7_boxed_div::*;
use crate::l8_boxed_methods::*;
verus! {


impl vstd::std_specs::cmp::PartialEqSpecImpl for Limb {
    open spec fn obeys_eq_spec() -> bool { true }
    open spec fn eq_spec(&self, other: &Limb) -> bool { self.0 == other.0 }
}
impl vstd::std_specs::cmp::PartialOrdSpecImpl for Limb {
    open spec fn obeys_partial_cmp_spec() -> bool { true }
    open spec fn partial_cmp_spec(&self, other: &Limb) -> Option<Ordering> { Some(bord_of(self.0 as int, other.0 as int)) }
}
impl vstd::std_specs::cmp::OrdSpecImpl for Limb {
    open spec fn obeys_cmp_spec() -> bool { true }
    open spec fn cmp_spec(&self, other: &Limb) -> Ordering { bord_of(self.0 as int, other.0 as int) }
}
// /repo: `impl Eq for Limb {}` (marker, no method)
impl Eq for Limb {}
impl vstd::std_specs::ops::BitOrAssignSpecImpl<Limb> for Limb {
    open spec fn obeys_bitor_assign_spec() -> bool { true }
    open spec fn bitor_assign_req(&self, rhs: Limb) -> bool { true }
    open spec fn bitor_assign_spec(&self, rhs: Limb) -> &Limb { &Limb(self.0 | rhs.0) }
}

//@@ fn src/limb/cmp.rs | impl ConstantTimeGreater for Limb | ct_gt | body | props C06 C11 C17
impl ConstantTimeGreater for Limb {
//@+
    open spec fn ct_gt_req(&self, other: &Self) -> bool { true }
    open spec fn ct_gt_ens(&self, other: &Self, r: Choice) -> bool { r.wf() && r.t() == (self.0 > other.0) }
//@-
fn ct_gt(&self, other: &Self) -> (ret__: Choice)
{
        ConstChoice::from_word_gt(self.0, other.0).into()
    }
}
//@@ end
//@@ fn src/limb/cmp.rs | impl ConstantTimeLess for Limb | ct_lt | body | props C06 C11 C17
impl ConstantTimeLess for Limb {
//@+
    open spec fn ct_lt_req(&self, other: &Self) -> bool { true }
    open spec fn ct_lt_ens(&self, other: &Self, r: Choice) -> bool { r.wf() && r.t() == (self.0 < other.0) }
//@-
fn ct_lt(&self, other: &Self) -> (ret__: Choice)
{
        ConstChoice::from_word_lt(self.0, other.0).into()
    }
}
//@@ end
//@@ fn src/limb/cmp.rs | impl Ord for Limb | cmp | body | props C06 C11 C17
impl Ord for Limb {
fn cmp(&self, other: &Self) -> (ret__: Ordering)
//@+
    ensures ret__ == bord_of(self.0 as int, other.0 as int)
//@-
{
        let mut ret = Ordering::Less;
        ret.conditional_assign(&Ordering::Equal, self.ct_eq(other));
        ret.conditional_assign(&Ordering::Greater, self.ct_gt(other));
        debug_assert_eq!(ret == Ordering::Less, bool::from(self.ct_lt(other)));
        ret
    }
}
//@@ end
//@@ fn src/limb/cmp.rs | impl PartialOrd for Limb | partial_cmp | body | props C06 C11 C17
impl PartialOrd for Limb {
fn partial_cmp(&self, other: &Self) -> (ret__: Option<Ordering>)
//@+
    ensures ret__ == Some(bord_of(self.0 as int, other.0 as int))
//@-
{
        Some(self.cmp(other))
    }
}
//@@ end
//@@ fn src/limb/cmp.rs | impl PartialEq for Limb | eq | body | props C06 C11 C17
impl PartialEq for Limb {
fn eq(&self, other: &Self) -> (ret__: bool)
//@+
    ensures ret__ == (self.0 == other.0)
//@-
{
        self.ct_eq(other).into()
    }
}
//@@ end
//@@ fn src/limb/bit_or.rs | impl BitOrAssign for Limb | bitor_assign | body | props C05 C11 C17
impl BitOrAssign for Limb {
fn bitor_assign(&mut self, other: Self)
//@+
    ensures final(self).0 == old(self).0 | other.0
//@-
{
        *self = self.bitor(other);
    }
}
//@@ end

} // verus!
