// L2/L8: BoxedUint radix strings (src/uint/boxed/encoding.rs) -- C17 / C16
// body (proved): BoxedUint::from_str_radix_with_precision_vartime, exact outcome: Ok <=> numeral with value < 2^bits_precision (result has
//   nlimbs_for(bits_precision) limbs and that value); Err(Precision) <=> numeral with 2^bits_precision <= value < B^nlimbs;
//   Err(InputSize) <=> numeral with value >= B^nlimbs (>= 2^bits_precision); Err(Empty) <=> empty body; Err(InvalidDigit) <=> other non-numeral,
//   BoxedUint::to_string_radix_vartime. Over the contracts of l8_boxed_methods (zero_with_precision: stub, bits: body).
// not mirrored: from_be_slice / from_le_slice (rchunks / zip), to_be_bytes / to_le_bytes (chunks_exact_mut / zip), from_be_hex (vec!, CtOption),
//   from_str_radix_vartime + VecDecodeByLimb (Vec::push, `Vec -> Box<[Limb]>` into()).
use vstd::prelude::*;
use vstd::arithmetic::power::*;
use vstd::arithmetic::power2::*;
use vstd::arithmetic::div_mod::*;
use vstd::string::*;
use crate::speclib::*;
use crate::l0_prim::*;
use crate::l1_choice::*;
use crate::l1_limb::*;
use crate::l2_core::*;
use crate::l7_boxed_div::*;
use crate::l8_boxed_methods::*;
use crate::l2_encoding_radix::*;
use crate::l2_encoding_enc::*;
// the code refers to the functions of src/uint/encoding.rs as `encoding::f`
pub mod encoding { pub use crate::l2_encoding_radix::*; pub use crate::l2_encoding_enc::*; }
verus! {

//@@ fn src/uint/boxed/encoding.rs | impl BoxedUint | from_str_radix_with_precision_vartime | body | props C17 C16 C11
impl BoxedUint {
pub fn from_str_radix_with_precision_vartime(
        src: &str,
        radix: u32,
        bits_precision: u32,
    ) -> (ret__: Result<Self, DecodeError>)
//@+
    requires 2 <= radix <= 36, bits_precision <= 0xFFFF_FFC0   // larger: `bits_precision()` of the 2^26-limb value overflows u32
    ensures match ret__ {
            Ok(u) => numeral_val(src.spec_bytes(), radix as int) == Some(u.v() as nat) && u.v() < p2(bits_precision as nat) && u.nl() == nlimbs_for(bits_precision),
            Err(e) => true,
        },
        // exact outcome: the value limit is 2^bits_precision; a numeral at or above it is reported as Precision when it still fits the
        // nlimbs_for(bits_precision) allocated limbs and as InputSize when it does not
        ({ let s = src.spec_bytes(); let r = radix as int; let b = numeral_body(s); let v = seg_val(b, 0, b.len() as int, r);
           let nl = nlimbs_for(bits_precision);
           &&& (ret__ is Ok) == (is_numeral(s, r) && v < p2(bits_precision as nat))
           &&& (ret__ matches Err(DecodeError::Empty)) == (b.len() == 0)
           &&& (ret__ matches Err(DecodeError::InvalidDigit)) == (b.len() > 0 && !is_numeral(s, r))
           &&& (ret__ matches Err(DecodeError::Precision)) == (is_numeral(s, r) && p2(bits_precision as nat) <= v < bp(nl))
           &&& (ret__ matches Err(DecodeError::InputSize)) == (is_numeral(s, r) && v >= bp(nl))
           &&& p2(bits_precision as nat) <= bp(nl) })
//@-
{
        let mut ret = Self::zero_with_precision(bits_precision);
//@+
        proof {
            let nl = nlimbs_for(bits_precision);
            lemma_bp_pow2(nl);
            if (bits_precision as nat) < 64 * nl { lemma_pow2_strictly_increases(bits_precision as nat, 64 * nl); }
            assert forall|d0: SliceDecodeByLimb, d: SliceDecodeByLimb| #[trigger] dec_frame(d0, d) && d0.len == 0 && (forall|k: int| 0 <= k < d0.limbs@.len() ==> d0.limbs@[k].0 == 0)
                implies val(d.limbs@, d.limbs@.len()) == val(d.lv(), d.lv().len()) && d.limbs@.len() == d0.limbs@.len() by {
                    assert(d0.spare() =~= d0.limbs@);
                    lemma_slice_dec_val(d0.limbs@, d.limbs@, d.lv().len());
                }
        }
//@-
        encoding::radix_decode_str(
            src,
            radix,
            &mut encoding::SliceDecodeByLimb::new(&mut ret.limbs),
        )?;
//@+
        assert(ret.limbs@.len() == nlimbs_for(bits_precision));
        let ghost v = ret.v();
        proof {
            // monotonicity of 2^k, stated for the unnamed result of `ret.bits()`
            assert forall|c: nat| bits_precision <= c && v >= #[trigger] p2(c) implies v >= p2(bits_precision as nat) by {
                if bits_precision < c { lemma_pow2_strictly_increases(bits_precision as nat, c); }
            }
            assert forall|c: nat| c <= bits_precision && v < #[trigger] p2(c) implies v < p2(bits_precision as nat) by {
                if c < bits_precision { lemma_pow2_strictly_increases(c, bits_precision as nat); }
            }
        }
        assert(is_numeral(src.spec_bytes(), radix as int));
        assert(v == seg_val(numeral_body(src.spec_bytes()), 0, numeral_body(src.spec_bytes()).len() as int, radix as int));
//@-
        if bits_precision < ret.bits() {
            return Err(DecodeError::Precision);
        }
        Ok(ret)
    }
}
//@@ end
//@@ fn src/uint/boxed/encoding.rs | impl BoxedUint | to_string_radix_vartime | body | props C17 C11
impl BoxedUint {
pub fn to_string_radix_vartime(&self, radix: u32) -> (ret__: String)
//@+
    requires 2 <= radix <= 36, 1 <= self.limbs@.len() <= usize::MAX / 64
    ensures ret__@ == ascii_chars(canon_numeral(self.v() as nat, radix as int))
//@-
{
        encoding::radix_encode_limbs_to_string(radix, &self.limbs)
    }
}
//@@ end

} // verus!
