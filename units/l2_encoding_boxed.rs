// L2/L8: BoxedUint radix decoding with a precision (src/uint/boxed/encoding.rs, C17 / C16)
use vstd::prelude::*;
use vstd::arithmetic::power::*;
use vstd::arithmetic::power2::*;
use vstd::arithmetic::div_mod::*;
use vstd::string::*;
use crate::speclib::*;
use crate::l0_prim::*;
use crate::l1_choice::*;
use crate::l1_limb::*;
use crate::l2_core::*;
use crate::l7_boxed_div::*;
use crate::l8_boxed_methods::*;
use crate::l2_encoding_radix::*;
use crate::l2_encoding_radix as encoding;
verus! {

//@@ fn src/uint/boxed/encoding.rs | impl BoxedUint | from_str_radix_with_precision_vartime | body | props C17 C16 C11
impl BoxedUint {
pub fn from_str_radix_with_precision_vartime(
        src: &str,
        radix: u32,
        bits_precision: u32,
    ) -> (ret__: Result<Self, DecodeError>)
//@+
    requires 2 <= radix <= 36
    ensures match ret__ {
        Ok(u) => numeral_val(src.spec_bytes(), radix as int) == Some(u.v() as nat) && u.v() < p2(bits_precision as nat) && u.nl() == nlimbs_for(bits_precision),
        Err(DecodeError::Precision) => is_numeral(src.spec_bytes(), radix as int)
            && seg_val(numeral_body(src.spec_bytes()), 0, numeral_body(src.spec_bytes()).len() as int, radix as int) >= p2(bits_precision as nat),
        Err(e) => decode_result(src.spec_bytes(), radix as int, Seq::empty(), nlimbs_for(bits_precision), Err(e)),
    }
//@-
{
        let mut ret = Self::zero_with_precision(bits_precision);
//@+
        proof {
            assert forall|d0: SliceDecodeByLimb, d: SliceDecodeByLimb| #[trigger] dec_frame(d0, d) && d0.len == 0 && (forall|k: int| 0 <= k < d0.limbs@.len() ==> d0.limbs@[k].0 == 0)
                implies val(d.limbs@, d.limbs@.len()) == val(d.lv(), d.lv().len()) && d.limbs@.len() == d0.limbs@.len() by {
                    assert(d0.spare() =~= d0.limbs@);
                    lemma_slice_dec_val(d0.limbs@, d.limbs@, d.lv().len());
                }
        }
//@-
        encoding::radix_decode_str(
            src,
            radix,
            &mut encoding::SliceDecodeByLimb::new(&mut ret.limbs),
        )?;
        if bits_precision < ret.bits() {
            return Err(DecodeError::Precision);
        }
        Ok(ret)
    }
}
//@@ end

} // verus!
