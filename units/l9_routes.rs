// L9: route pairs (C15, mechanism 1): two functions under contract whose postconditions determine the result
// return bit-identical values. Each lemma takes the two results as given by the functions' own `ensures`
// (call_ensures) and concludes equality by injectivity of the limb-sequence value (lemma_val_inj).
use vstd::prelude::*;
use crate::speclib::*;
use crate::l0_prim::*;
use crate::l1_choice::*;
use crate::l1_limb::*;
use crate::l2_core::*;
use crate::l2_shift::*;
verus! {

pub proof fn lemma_uint_eq_of_v<const L: usize>(a: Uint<L>, b: Uint<L>)
    requires a.v() == b.v()
    ensures a == b
{
    lemma_val_inj(a.limbs@, b.limbs@, L as nat);
    assert(forall|k: int| 0 <= k < L ==> a.limbs@[k] == b.limbs@[k]);
    assert(a.limbs =~= b.limbs);
}

pub proof fn route_shl_ct_vs_vartime<const L: usize>(x: Uint<L>, s: u32, r1: Uint<L>, r2: Uint<L>)
    requires 1 <= L < 0x400_0000, (s as int) < 64 * L,
        call_ensures(Uint::<L>::shl, (&x, s), r1),
        call_ensures(Uint::<L>::shl_vartime, (&x, s), r2),
    ensures r1 == r2
{
    lemma_uint_eq_of_v(r1, r2);
}

} // verus!
