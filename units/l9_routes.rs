// L9: route pairs (C15, mechanism 1): two functions under contract whose postconditions determine the result
// return bit-identical values. Each lemma receives the two results exactly as the functions' own `ensures`
// describe them (`call_ensures(f, args, r)`), so it is re-proved from the *current* contracts on every run:
// if a change weakens or breaks either function's contract, the pair lemma (or the function) fails.
// Equality of values gives equality of all limbs by injectivity of the limb-sequence value (lemma_val_inj).
use vstd::prelude::*;
use crate::speclib::*;
use crate::l0_prim::*;
use crate::l1_choice::*;
use crate::l1_limb::*;
use crate::l2_core::*;
use crate::l2_shift::*;
use crate::l3_divlimb::*;
use crate::l3_div_ct::*;
use crate::l3_div_vt::*;
use crate::l3_mul::*;
use crate::l4_sqrt::*;
verus! {

pub proof fn lemma_uint_eq_of_v<const L: usize>(a: Uint<L>, b: Uint<L>)
    requires a.v() == b.v()
    ensures a == b
{
    lemma_val_inj(a.limbs@, b.limbs@, L as nat);
    assert(forall|k: int| 0 <= k < L ==> a.limbs@[k] == b.limbs@[k]);
    assert(a.limbs =~= b.limbs);
}

pub open spec fn wfl(n: usize) -> bool { 1 <= n < 0x400_0000 }

// ---------------------------------------------------------------- shifts: constant-time vs vartime
pub proof fn route_shl<const L: usize>(x: Uint<L>, s: u32, r1: Uint<L>, r2: Uint<L>)
    requires wfl(L), (s as int) < 64 * L,
        call_ensures(Uint::<L>::shl, (&x, s), r1), call_ensures(Uint::<L>::shl_vartime, (&x, s), r2),
    ensures r1 == r2
{ lemma_uint_eq_of_v(r1, r2); }

pub proof fn route_shr<const L: usize>(x: Uint<L>, s: u32, r1: Uint<L>, r2: Uint<L>)
    requires wfl(L), (s as int) < 64 * L,
        call_ensures(Uint::<L>::shr, (&x, s), r1), call_ensures(Uint::<L>::shr_vartime, (&x, s), r2),
    ensures r1 == r2
{ lemma_uint_eq_of_v(r1, r2); }

pub proof fn route_overflowing_shl<const L: usize>(x: Uint<L>, s: u32, r1: ConstCtOption<Uint<L>>, r2: ConstCtOption<Uint<L>>)
    requires wfl(L),
        call_ensures(Uint::<L>::overflowing_shl, (&x, s), r1), call_ensures(Uint::<L>::overflowing_shl_vartime, (&x, s), r2),
    ensures r1.is_some == r2.is_some, r1.value == r2.value
{ lemma_uint_eq_of_v(r1.value, r2.value); }

pub proof fn route_overflowing_shr<const L: usize>(x: Uint<L>, s: u32, r1: ConstCtOption<Uint<L>>, r2: ConstCtOption<Uint<L>>)
    requires wfl(L),
        call_ensures(Uint::<L>::overflowing_shr, (&x, s), r1), call_ensures(Uint::<L>::overflowing_shr_vartime, (&x, s), r2),
    ensures r1.is_some == r2.is_some, r1.value == r2.value
{ lemma_uint_eq_of_v(r1.value, r2.value); }

pub proof fn route_wrapping_shl<const L: usize>(x: Uint<L>, s: u32, r1: Uint<L>, r2: Uint<L>)
    requires wfl(L),
        call_ensures(Uint::<L>::wrapping_shl, (&x, s), r1), call_ensures(Uint::<L>::wrapping_shl_vartime, (&x, s), r2),
    ensures r1 == r2
{ lemma_uint_eq_of_v(r1, r2); }

pub proof fn route_wrapping_shr<const L: usize>(x: Uint<L>, s: u32, r1: Uint<L>, r2: Uint<L>)
    requires wfl(L),
        call_ensures(Uint::<L>::wrapping_shr, (&x, s), r1), call_ensures(Uint::<L>::wrapping_shr_vartime, (&x, s), r2),
    ensures r1 == r2
{ lemma_uint_eq_of_v(r1, r2); }

// ---------------------------------------------------------------- bit queries: constant-time vs vartime
pub proof fn route_bits<const L: usize>(x: Uint<L>, r1: u32, r2: u32)
    requires wfl(L), call_ensures(Uint::<L>::bits, (&x,), r1), call_ensures(Uint::<L>::bits_vartime, (&x,), r2),
    ensures r1 == r2
{
    // both satisfy: v < 2^r and (r > 0 ==> v >= 2^(r-1)); the bit length is unique
    if r1 < r2 { vstd::arithmetic::power2::lemma_pow2_strictly_increases(r1 as nat, r2 as nat);
                 if r1 as nat <= (r2 - 1) as nat && (r1 as nat) < (r2 - 1) as nat { vstd::arithmetic::power2::lemma_pow2_strictly_increases(r1 as nat, (r2 - 1) as nat); } }
    if r2 < r1 { vstd::arithmetic::power2::lemma_pow2_strictly_increases(r2 as nat, r1 as nat);
                 if (r2 as nat) < (r1 - 1) as nat { vstd::arithmetic::power2::lemma_pow2_strictly_increases(r2 as nat, (r1 - 1) as nat); } }
}

pub proof fn route_leading_zeros<const L: usize>(x: Uint<L>, r1: u32, r2: u32)
    requires wfl(L), call_ensures(Uint::<L>::leading_zeros, (&x,), r1), call_ensures(Uint::<L>::leading_zeros_vartime, (&x,), r2),
    ensures r1 == r2
{
    let b1 = (64 * L - r1) as nat; let b2 = (64 * L - r2) as nat;
    if b1 < b2 { vstd::arithmetic::power2::lemma_pow2_strictly_increases(b1, b2);
                 if b1 < (b2 - 1) as nat { vstd::arithmetic::power2::lemma_pow2_strictly_increases(b1, (b2 - 1) as nat); } }
    if b2 < b1 { vstd::arithmetic::power2::lemma_pow2_strictly_increases(b2, b1);
                 if b2 < (b1 - 1) as nat { vstd::arithmetic::power2::lemma_pow2_strictly_increases(b2, (b1 - 1) as nat); } }
}

pub proof fn route_bit<const L: usize>(x: Uint<L>, i: u32, r1: ConstChoice, r2: bool)
    requires wfl(L), call_ensures(Uint::<L>::bit, (&x, i), r1), call_ensures(Uint::<L>::bit_vartime, (&x, i), r2),
    ensures r1.wf(), r1.t() == r2
{ }

pub proof fn route_cmp<const L: usize>(a: Uint<L>, b: Uint<L>, r1: i8, r2: core::cmp::Ordering)
    requires L >= 1, call_ensures(Uint::<L>::cmp, (&a, &b), r1), call_ensures(Uint::<L>::cmp_vartime, (&a, &b), r2),
    ensures (r1 == -1) == (r2 == core::cmp::Ordering::Less), (r1 == 0) == (r2 == core::cmp::Ordering::Equal), (r1 == 1) == (r2 == core::cmp::Ordering::Greater)
{ }

// ---------------------------------------------------------------- division: constant-time vs vartime, precomputed vs one-shot reciprocal
pub proof fn route_div_rem<const L: usize>(n: Uint<L>, d: NonZero<Uint<L>>, r1: (Uint<L>, Uint<L>), r2: (Uint<L>, Uint<L>))
    requires wfl(L), d.0.v() != 0,
        call_ensures(Uint::<L>::div_rem, (&n, &d), r1), call_ensures(Uint::<L>::div_rem_vartime::<L>, (&n, &d), r2),
    ensures r1 == r2
{ lemma_uint_eq_of_v(r1.0, r2.0); lemma_uint_eq_of_v(r1.1, r2.1); }

pub proof fn route_rem<const L: usize>(n: Uint<L>, d: NonZero<Uint<L>>, r1: Uint<L>, r2: Uint<L>)
    requires wfl(L), d.0.v() != 0,
        call_ensures(Uint::<L>::rem, (&n, &d), r1), call_ensures(Uint::<L>::rem_vartime, (&n, &d), r2),
    ensures r1 == r2
{ lemma_uint_eq_of_v(r1, r2); }

pub proof fn route_wrapping_div<const L: usize>(n: Uint<L>, d: NonZero<Uint<L>>, r1: Uint<L>, r2: Uint<L>)
    requires wfl(L), d.0.v() != 0,
        call_ensures(Uint::<L>::wrapping_div, (&n, &d), r1), call_ensures(Uint::<L>::wrapping_div_vartime::<L>, (&n, &d), r2),
    ensures r1 == r2
{ lemma_uint_eq_of_v(r1, r2); }

pub proof fn route_div_rem_limb_reciprocal<const L: usize>(n: Uint<L>, d: NonZero<Limb>, rec: Reciprocal, r1: (Uint<L>, Limb), r2: (Uint<L>, Limb))
    requires L >= 1, d.0.0 != 0, call_ensures(Reciprocal::new, (d,), rec),
        call_ensures(Uint::<L>::div_rem_limb, (&n, d), r1), call_ensures(Uint::<L>::div_rem_limb_with_reciprocal, (&n, &rec), r2),
    ensures r1 == r2
{
    let dv = d.0.0 as int;
    vstd::arithmetic::div_mod::lemma_fundamental_div_mod_converse(n.v(), dv, r1.0.v(), r1.1.0 as int);
    vstd::arithmetic::div_mod::lemma_fundamental_div_mod_converse(n.v(), dv, r2.0.v(), r2.1.0 as int);
    lemma_uint_eq_of_v(r1.0, r2.0);
}

pub proof fn route_rem_limb_reciprocal<const L: usize>(n: Uint<L>, d: NonZero<Limb>, rec: Reciprocal, r1: Limb, r2: Limb)
    requires L >= 1, d.0.0 != 0, call_ensures(Reciprocal::new, (d,), rec),
        call_ensures(Uint::<L>::rem_limb, (&n, d), r1), call_ensures(Uint::<L>::rem_limb_with_reciprocal, (&n, &rec), r2),
    ensures r1 == r2
{ }

// ---------------------------------------------------------------- squaring equals self-multiplication
pub proof fn route_square_vs_mul<const L: usize>(x: Uint<L>, r1: (Uint<L>, Uint<L>), r2: (Uint<L>, Uint<L>))
    requires L >= 1, 2 * L <= usize::MAX,
        call_ensures(Uint::<L>::square_wide, (&x,), r1), call_ensures(Uint::<L>::split_mul::<L>, (&x, &x), r2),
    ensures r1 == r2
{ lemma_uint_eq_of_v(r1.0, r2.0); lemma_uint_eq_of_v(r1.1, r2.1); }

// ---------------------------------------------------------------- square root: constant-time vs vartime
pub proof fn route_sqrt<const L: usize>(x: Uint<L>, r1: Uint<L>, r2: Uint<L>)
    requires wfl(L), call_ensures(Uint::<L>::sqrt, (&x,), r1), call_ensures(Uint::<L>::sqrt_vartime, (&x,), r2),
    ensures r1 == r2
{
    let (a, b, n) = (r1.v(), r2.v(), x.v());
    lemma_val_bound(r1.limbs@, L as nat); lemma_val_bound(r2.limbs@, L as nat);
    assert(a == b) by (nonlinear_arith)
        requires 0 <= a, 0 <= b, a * a <= n, n < (a + 1) * (a + 1), b * b <= n, n < (b + 1) * (b + 1);
    lemma_uint_eq_of_v(r1, r2);
}

} // verus!
