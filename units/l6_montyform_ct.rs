// L6: the constant-time constructor MontyParams::new (src/modular/monty_form.rs) and Uint::square (src/uint/mul.rs) -- C08
//
// Both are generic over the `Concat` / `Split` traits (hand-declared, type-level only, in l2_concat; DESIGN.md R9).
// The trait bound carries no arithmetic information, so `WIDE_LIMBS == 2 * LIMBS` is an explicit `requires`
// (a compile-time fact of the macro-generated impls, checked by Engine B at every instantiated size).
// `new` ensures the same `params_for(ret, modulus)` as `new_vartime` (l6_montyform), hence by
// `lemma_constructors_agree` the two constructors return identical parameter sets for every odd modulus.
use vstd::prelude::*;
use vstd::arithmetic::power::*;
use vstd::arithmetic::power2::*;
use vstd::arithmetic::div_mod::*;
use crate::speclib::*;
use crate::speclib_bits::*;
use crate::l0_prim::*;
use crate::l1_choice::*;
use crate::l1_limb::*;
use crate::l2_core::*;
use crate::l2_concat::*;
use crate::l2_shift::*;
use crate::l3_mul::*;
use crate::l3_div_ct::*;
use crate::l4_modular::*;
use crate::l5_monty::*;
use crate::l6_montyform::*;
verus! {

//@@ subst \b(Self|Uint)::(ZERO|ONE|MAX|BITS|LOG2_BITS)\b(?!\() => \1::\2()
//@@ subst \bUint::<(\w+)>::(ZERO|ONE|MAX|BITS)\b(?!\() => Uint::<\1>::\2()
//@@ fn src/uint/mul.rs | impl<const LIMBS: usize, const WIDE_LIMBS: usize> Uint<LIMBS> where Self: Concat<Output = Uint<WIDE_LIMBS>>, | square | body | props C03 C08 C11
//@@ end
//@@ fn src/modular/monty_form.rs | impl<const LIMBS: usize, const WIDE_LIMBS: usize> MontyParams<LIMBS> where Uint<LIMBS>: Concat<Output = Uint<WIDE_LIMBS>>, Uint<WIDE_LIMBS>: Split<Output = Uint<LIMBS>>, | new | body | props C08 C11
//@@ end

} // verus!
