// L6: the constant-time constructor MontyParams::new (src/modular/monty_form.rs) and Uint::square (src/uint/mul.rs) -- C08
//
// Both are generic over the `Concat` / `Split` traits (hand-declared, type-level only, in l2_concat; DESIGN.md R9).
// The trait bound carries no arithmetic information, so `WIDE_LIMBS == 2 * LIMBS` is an explicit `requires`
// (a compile-time fact of the macro-generated impls, checked by Engine B at every instantiated size).
// `new` ensures the same `params_for(ret, modulus)` as `new_vartime` (l6_montyform), hence by
// `lemma_constructors_agree` the two constructors return identical parameter sets for every odd modulus.
use vstd::prelude::*;
use vstd::arithmetic::power::*;
use vstd::arithmetic::power2::*;
use vstd::arithmetic::div_mod::*;
use crate::speclib::*;
use crate::speclib_bits::*;
use crate::l0_prim::*;
use crate::l1_choice::*;
use crate::l1_limb::*;
use crate::l2_core::*;
use crate::l2_concat::*;
use crate::l2_shift::*;
use crate::l3_mul::*;
use crate::l3_div_ct::*;
use crate::l4_modular::*;
use crate::l4_invmod::*;
use crate::l5_monty::*;
use crate::l6_montyform::*;
verus! {

//@@ subst \b(Self|Uint)::(ZERO|ONE|MAX|BITS|LOG2_BITS)\b(?!\() => \1::\2()
//@@ subst \bUint::<(\w+)>::(ZERO|ONE|MAX|BITS)\b(?!\() => Uint::<\1>::\2()
//@@ fn src/uint/mul.rs | impl<const LIMBS: usize, const WIDE_LIMBS: usize> Uint<LIMBS> where Self: Concat<Output = Uint<WIDE_LIMBS>>, | square | body | props C03 C08 C11
impl<const LIMBS: usize, const WIDE_LIMBS: usize> Uint<LIMBS> where Self: Concat<Output = Uint<WIDE_LIMBS>>, {
pub const fn square(&self) -> (ret__: Uint<WIDE_LIMBS>)
//@+
    requires LIMBS >= 1, 2 * LIMBS <= usize::MAX
    ensures WIDE_LIMBS == 2 * LIMBS ==> ret__.v() == self.v() * self.v()
//@-
{
        let (lo, hi) = self.square_wide();
        lo.concat(&hi)
    }
}
//@@ end
//@@ fn src/modular/monty_form.rs | impl<const LIMBS: usize, const WIDE_LIMBS: usize> MontyParams<LIMBS> where Uint<LIMBS>: Concat<Output = Uint<WIDE_LIMBS>>, Uint<WIDE_LIMBS>: Split<Output = Uint<LIMBS>>, | new | body | props C08 C11
impl<const LIMBS: usize, const WIDE_LIMBS: usize> MontyParams<LIMBS> where Uint<LIMBS>: Concat<Output = Uint<WIDE_LIMBS>>, Uint<WIDE_LIMBS>: Split<Output = Uint<LIMBS>>, {
pub const fn new(modulus: Odd<Uint<LIMBS>>) -> (ret__: Self)
//@+
    requires LIMBS < 0x200_0000, WIDE_LIMBS == 2 * LIMBS, modulus.0.v() % 2 == 1
    ensures params_for(ret__, modulus), ret__.modulus == modulus, ret__.wf_rest(),
        modulus.0.v() != 1 ==> ret__.wf(),
        // the code yields one == 1 (not R mod m == 0) for the modulus 1: see FINDING in the header of l6_montyform
        modulus.0.v() == 1 ==> ret__.one.v() == 1
//@-
{
//@+
    let ghost n = LIMBS as nat;
    let ghost m = modulus.0.v();
    let ghost r = bp(LIMBS as nat);
    proof {
        if LIMBS == 0 { assert(val(modulus.0.limbs@, 0) == 0); }
        lemma_val_bound(modulus.0.limbs@, n);
    }
//@-
        // `R mod modulus` where `R = 2^BITS`.
        // Represents 1 in Montgomery form.
        let one = Uint::MAX().rem(modulus.as_nz_ref()).wrapping_add(&Uint::ONE());
//@+
    proof {
        lemma_mod_bound(r - 1, m);
        lemma_small_mod(((r - 1) % m + 1) as nat, r as nat);
        lemma_one_cong(one.v(), m, n);
        // r2: the wide modulus is m, the wide remainder is < m < R, so its low half is the remainder itself
        assert(0 * r == 0);
        lemma_mod_bound(one.v() * one.v(), m);
        lemma_small_mod(((one.v() * one.v()) % m) as nat, r as nat);
        lemma_r2_def(one.v(), m, r);
    }
//@-
        // `R^2 mod modulus`, used to convert integers to Montgomery form.
        let r2 = one
            .square()
            .rem(&NonZero(modulus.0.concat(&Uint::ZERO())))
            .split()
            .0;
//@+
    proof {
        assert(r2.v() == (r * r) % m);
        lemma_mod_bound(r * r, m);
    }
//@-
        // The modular inverse should always exist, because it was ensured odd above, which also ensures it's non-zero
        let inv_mod = modulus
            .as_ref()
            .inv_mod2k_vartime(Word::BITS)
            .expect("modular inverse should exist");
//@+
    proof {
        lemma_pow2_64();
        lemma_small_mod(1, B() as nat);
    }
//@-
        let mod_neg_inv = Limb(Word::MIN.wrapping_sub(inv_mod.limbs[0].0));
//@+
    proof {
        lemma_val_low(modulus.0.limbs@, n); lemma_val_low(inv_mod.limbs@, n);
        lemma_neg_inv_def(mod_neg_inv.0 as int, inv_mod.limbs@[0].0 as int, inv_mod.v(), modulus.0.limbs@[0].0 as int, m);
    }
//@-
        let mod_leading_zeros = modulus.as_ref().leading_zeros();
//@+
    let ghost z = mod_leading_zeros as int;
//@-
        let mod_leading_zeros = ConstChoice::from_u32_lt(mod_leading_zeros, Word::BITS - 1)
            .select_u32(Word::BITS - 1, mod_leading_zeros);
//@+
    proof {
        if z >= 63 { lemma_p2_mono((64 * LIMBS - z) as nat, (64 * LIMBS - 63) as nat); }
        assert(r2.v() * r2.v() < m * r) by (nonlinear_arith) requires 0 <= r2.v() < m, m < r;
    }
//@-
        // `R^3 mod modulus`, used for inversion in Montgomery form.
        let r3 = montgomery_reduction(&r2.square_wide(), &modulus, mod_neg_inv);
//@+
    proof { lemma_r3_def(r3.v(), r2.v(), m, n); }
//@-
        Self {
            modulus,
            one,
            r2,
            r3,
            mod_neg_inv,
            mod_leading_zeros,
        }
    }
}
//@@ end

} // verus!
