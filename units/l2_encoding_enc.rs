// L2: radix string encoding (src/uint/encoding.rs) -- C17, encode side
// body (proved): radix_encode_limbs_mut_to_string (buffer size is sufficient for every value -- pow2 radix: ceil(64 len / bits) digits, other
//   radix: len (digits_limb + 1) digits --, leading zeros stripped, "0" for zero: result == canonical numeral of the value),
//   radix_encode_limbs_to_string (stack / heap buffer selection), Uint::to_string_radix_vartime, Uint::as_limbs_mut,
//   RadixDivisionParams::encoded_size, RadixDivisionParams::for_radix (table lookup `radix + leading_zeros - 33`, over the ASSUMED table ALL()),
//   radix_large_divisor (result == radix^digits, largest such power that fits 32 limbs, top limb non-zero);
//   lemma_radix_roundtrip: numeral_val(canon_numeral(v, r), r) == Some(v) (parse . format == id at the level of the two contracts),
//   lemma_canon_digits (no leading zero, no separators), lemma_strip_zeros, lemma_size_pow2 / lemma_size_div.
// stub (ASSUMED, exact contracts): RadixDivisionParams::encode_limbs and radix_encode_limbs_by_shifting (out == the out.len() low-order digits of
//   the value, zero padded). by_shifting iterates `limbs.iter().chain([&Limb::ZERO])` (core::iter::Chain: no vstd spec, `chain` is a provided
//   trait method and cannot be given one); encode_limbs needs `PartialEq` / `PartialOrd` / `BitOrAssign for Limb` (in no unit yet).
// assumed library specs: u32::is_power_of_two, String::from_utf8 (+ FromUtf8Error), usize::div_ceil (l4_safegcd); shims vec_prefix_mut
//   (= `&mut vec[..n]`), vec_all_mut (= `&mut vec[..]`); hand-declared table `RadixDivisionParams::ALL()` (stands for `const ALL`, not mirrored).
use vstd::prelude::*;
use vstd::arithmetic::power::*;
use vstd::arithmetic::power2::*;
use vstd::arithmetic::div_mod::*;
use vstd::arithmetic::mul::*;
use vstd::string::*;
use vstd::std_specs::slice::*;
use vstd::std_specs::bits::*;
use crate::speclib::*;
use crate::l0_prim::*;
use crate::l1_choice::*;
use crate::l1_limb::*;
use crate::l2_core::*;
use crate::l2_encoding_radix::*;
use crate::l3_divlimb::*;
use crate::l7_boxed_div::*;
#[allow(unused_imports)]
use crate::l4_safegcd::*;   // holds the assumed specification of `usize::div_ceil` (one per crate)
verus! {

// ---------------------------------------------------------------- spec vocabulary: canonical numerals
/// the ASCII character of the digit d (0..=35), lower case
pub open spec fn digit_char(d: int) -> u8 { if d < 10 { (0x30 + d) as u8 } else { (0x61 + d - 10) as u8 } }
/// digits of v > 0 in the radix, most significant first, no leading zero (empty for v == 0)
pub open spec fn canon_digits(v: nat, radix: int) -> Seq<u8>
    decreases v
    via canon_digits_dec
{ if v == 0 || radix < 2 { Seq::empty() } else { canon_digits((v / radix as nat) as nat, radix).push(digit_char((v % radix as nat) as int)) } }
#[via_fn]
proof fn canon_digits_dec(v: nat, radix: int)
{ if v != 0 && radix >= 2 { let r = radix as nat; assert(v / r < v) by (nonlinear_arith) requires v > 0, r >= 2; } }
/// the canonical lower-case numeral of v: no leading zeros, "0" for zero
pub open spec fn canon_numeral(v: nat, radix: int) -> Seq<u8> { if v == 0 { seq![0x30u8] } else { canon_digits(v, radix) } }
/// the n low-order digits of v in the radix, most significant first, zero padded: the numeral of v mod radix^n written with exactly n digits
pub open spec fn digits_fixed(v: nat, radix: int, n: nat) -> Seq<u8>
    decreases n
{ if n == 0 || radix < 2 { Seq::empty() } else { digits_fixed((v / radix as nat) as nat, radix, (n - 1) as nat).push(digit_char((v % radix as nat) as int)) } }
/// the characters of an ASCII byte string
pub open spec fn ascii_chars(s: Seq<u8>) -> Seq<char> { s.map_values(|b: u8| b as char) }


//@@ rawconst src/uint/encoding.rs | - | RADIX_ENCODING_LIMBS_LARGE
pub const RADIX_ENCODING_LIMBS_LARGE: usize = 32;
//@@ end
//@@ item src/uint/encoding.rs | struct RadixDivisionParams
#[derive(Clone, Copy)]
pub struct RadixDivisionParams {
    pub radix: u32,
    pub digits_limb: usize,
    pub reciprocal: Reciprocal,
    pub digits_large: usize,
    pub div_large: [Limb; RADIX_ENCODING_LIMBS_LARGE],
}
//@@ end
impl RadixDivisionParams {
    /// a parameter set for a radix that is not a power of two: digits_limb = floor(log_radix(B - 1)), the reciprocal is that of
    /// radix^digits_limb, div_large = radix^digits_large is the largest power of the radix that fits 32 limbs
    pub open spec fn wf(&self) -> bool {
        let r = self.radix as int;
        &&& 3 <= r <= 36 && !is_pow2_radix(r)
        &&& 1 <= self.digits_limb <= 63 && pow(r, self.digits_limb as nat) <= u64::MAX < pow(r, (self.digits_limb + 1) as nat)
        &&& self.reciprocal.wf() && self.reciprocal.dv() == pow(r, self.digits_limb as nat)
        &&& val(self.div_large@, 32) == pow(r, self.digits_large as nat) && self.div_large@[31].0 != 0
        &&& val(self.div_large@, 32) * r >= bp(32)
    }
}
//@@ fn src/uint/encoding.rs | impl RadixDivisionParams | encoded_size | body | props C17 C11
impl RadixDivisionParams {
pub const fn encoded_size(&self, limb_count: usize) -> (ret__: usize)
//@+
    requires self.digits_limb <= 63, limb_count * (self.digits_limb + 1) <= usize::MAX
    ensures ret__ == limb_count * (self.digits_limb + 1)
//@-
{
        // a slightly pessimistic estimate
        limb_count * (self.digits_limb + 1)
    }
}
//@@ end
/// r >= 2 and r^k < 2^2048 ==> k < 2048
pub proof fn lemma_digits_large_bound(r: int, k: nat)
    requires r >= 2, pow(r, k) < bp(32)
    ensures k < 2048
{
    lemma_pow_base2(r, k); lemma_bp_pow2(32); lemma_pow2(k);
    if k >= 2048 { if k > 2048 { lemma_pow2_strictly_increases(2048, k); } }
}

//@@ fn src/uint/encoding.rs | - | radix_large_divisor | body | props C17 C11
pub const fn radix_large_divisor(
    radix: u32,
    div_limb: NonZero<Limb>,
    digits_limb: usize,
) -> (ret__: ([Limb; RADIX_ENCODING_LIMBS_LARGE], usize))
//@+
    requires 2 <= radix <= 36, 1 <= digits_limb <= 63, div_limb.0.0 as int == pow(radix as int, digits_limb as nat)
    ensures val(ret__.0@, 32) == pow(radix as int, ret__.1 as nat), val(ret__.0@, 32) * radix >= bp(32), val(ret__.0@, 32) >= bp(31)
//@-
{
    let mut out = [Limb::ZERO; RADIX_ENCODING_LIMBS_LARGE];
    let mut digits_large = digits_limb;
    let mut top = 1;
    out[0] = div_limb.0;
//@+
    let ghost r = radix as int;
    let ghost dv = div_limb.0.0 as int;
    proof {
        lemma_bp_succ(0); lemma_bp_succ(1); lemma_pow1(r);
        lemma_pow_increases(r as nat, 1, digits_limb as nat);
        assert(val(out@, 1) == val(out@, 0) + dv * bp(0));
        assert(dv * bp(0) == dv) by (nonlinear_arith) requires bp(0) == 1;
        lemma_pow_increases(B() as nat, 1, 32);
    }
//@-
    // Calculate largest power of div_limb (itself a power of radix)
    while top < RADIX_ENCODING_LIMBS_LARGE
//@+
        invariant 2 <= radix <= 36, r == radix as int, 1 <= digits_limb <= 63, dv == div_limb.0.0 as int, dv == pow(r, digits_limb as nat), dv >= 2,
            1 <= top <= 32, val(out@, top as nat) == pow(r, digits_large as nat), val(out@, top as nat) >= bp((top - 1) as nat),
        decreases 32 - top, bp(top as nat) - val(out@, top as nat)
//@-
{
        let mut carry = Limb::ZERO;
        let mut j = 0;
//@+
        let ghost out0 = out@;
        let ghost v0 = val(out0, top as nat);
        proof { lemma_bp_succ(0); assert(0 * dv == 0); assert(0 * bp(0) == 0); }
//@-
        while j < top
//@+
            invariant j <= top <= 31, dv == div_limb.0.0 as int,
                val(out@, j as nat) + carry.0 as int * bp(j as nat) == val(out0, j as nat) * dv,
                forall|k: int| j <= k < 32 ==> out@[k] == out0[k],
            decreases top - j
//@-
{
//@+
            let ghost cy0 = carry.0 as int; let ghost o1 = out@;
//@-
            let (__t0, __t1) = Limb::ZERO.mac(out[j], div_limb.0, carry); out[j] = __t0; carry = __t1;
//@+
            proof {
                let i = j as nat;
                lemma_val_ext(o1, out@, i); lemma_val_step(out@, i); lemma_val_step(out0, i); lemma_bp_succ(i);
                let (t0, t1, x, pb, a) = (out@[j as int].0 as int, carry.0 as int, out0[j as int].0 as int, bp(i), val(out0, i));
                assert((a + x * pb) * dv == a * dv + (x * dv) * pb) by (nonlinear_arith);
                assert(t0 * pb + t1 * (B() * pb) == (x * dv + cy0) * pb) by (nonlinear_arith) requires t0 + t1 * B() == x * dv + cy0;
                assert((x * dv + cy0) * pb == (x * dv) * pb + cy0 * pb) by (nonlinear_arith);
            }
//@-
            j += 1;
        }
//@+
        let ghost out1 = out@;
        let ghost cy = carry.0 as int;
        proof {
            lemma_val_bound(out1, top as nat); lemma_bp_succ(top as nat); lemma_bp_succ((top - 1) as nat);
            lemma_pow_adds(r, digits_large as nat, digits_limb as nat);
            assert(v0 * dv >= 2 * v0) by (nonlinear_arith) requires dv >= 2, v0 >= 0;
            if top < 32 { lemma_pow_increases(B() as nat, (top + 1) as nat, 32); }
            assert(cy * bp(top as nat) < B() * bp(top as nat)) by (nonlinear_arith) requires cy < B(), bp(top as nat) > 0;
        }
//@-
        if carry.0 != 0 {
            out[top] = carry;
//@+
            proof {
                lemma_val_ext(out1, out@, top as nat); lemma_val_step(out@, top as nat);
                let pb = bp(top as nat);
                assert(cy * pb >= pb) by (nonlinear_arith) requires cy >= 1, pb >= 0;
            }
//@-
            top += 1;
        }
//@+
        else { proof { assert(cy * bp(top as nat) == 0) by (nonlinear_arith) requires cy == 0; } }
        proof {
            lemma_val_bound(out@, top as nat);
            if top < 32 { lemma_pow_increases(B() as nat, top as nat, 32); }
            assert(val(out@, top as nat) == pow(r, (digits_large + digits_limb) as nat));
            lemma_digits_large_bound(r, (digits_large + digits_limb) as nat);
        }
//@-
        digits_large += digits_limb;
    }
    // Multiply by radix while we can do so without overflowing
    let mut out_test = out;
    loop
//@+
        invariant 2 <= radix <= 36, r == radix as int, val(out@, 32) == pow(r, digits_large as nat), val(out@, 32) >= bp(31),
        ensures val(out@, 32) * radix >= bp(32)
        decreases bp(32) - val(out@, 32)
//@-
{
        let mut carry = Limb::ZERO;
        let mut j = 0;
//@+
        proof { lemma_bp_succ(0); assert(0 * r == 0); assert(0 * bp(0) == 0); }
//@-
        while j < RADIX_ENCODING_LIMBS_LARGE
//@+
            invariant j <= 32, r == radix as int, 2 <= r <= 36,
                val(out_test@, j as nat) + carry.0 as int * bp(j as nat) == val(out@, j as nat) * r,
            decreases 32 - j
//@-
{
//@+
            let ghost cy0 = carry.0 as int; let ghost o1 = out_test@;
//@-
            let (__t2, __t3) = Limb::ZERO.mac(out[j], Limb(radix as Word), carry); out_test[j] = __t2; carry = __t3;
//@+
            proof {
                let i = j as nat;
                lemma_val_ext(o1, out_test@, i); lemma_val_step(out_test@, i); lemma_val_step(out@, i); lemma_bp_succ(i);
                let (t0, t1, x, pb, a) = (out_test@[j as int].0 as int, carry.0 as int, out@[j as int].0 as int, bp(i), val(out@, i));
                assert((a + x * pb) * r == a * r + (x * r) * pb) by (nonlinear_arith);
                assert(t0 * pb + t1 * (B() * pb) == (x * r + cy0) * pb) by (nonlinear_arith) requires t0 + t1 * B() == x * r + cy0;
                assert((x * r + cy0) * pb == (x * r) * pb + cy0 * pb) by (nonlinear_arith);
            }
//@-
            j += 1;
        }
//@+
        let ghost v = val(out@, 32); let ghost cy = carry.0 as int;
        proof {
            lemma_val_bound(out_test@, 32); lemma_bp_succ(31);
            lemma_pow_succ(r, digits_large as nat);
            assert(v * r >= 2 * v) by (nonlinear_arith) requires r >= 2, v >= 0;
            let pb = bp(32);
            if cy != 0 { assert(cy * pb >= pb) by (nonlinear_arith) requires cy >= 1, pb >= 0; }
            else { assert(cy * pb == 0) by (nonlinear_arith) requires cy == 0; lemma_digits_large_bound(r, (digits_large + 1) as nat); assert(r * v == v * r) by (nonlinear_arith); }
        }
//@-
        if carry.0 == 0 {
            out = out_test;
            digits_large += 1;
        } else {
            break;
        }
    }
    (out, digits_large)
}
//@@ end
// `const ALL: [Self; 31]` (the table of the parameter sets of the 30 radixes 3..=36 that are not powers of two, built in a const block with a
// `while` loop) cannot be mirrored: in a `//@@ const` region the `{` of the loop stays on the `while` line (W1 applies to fn bodies only), so no
// invariant can be attached. It is represented by the hand-declared ASSUMED function `ALL()` below (contents by position: entry k is a
// well-formed parameter set of the k-th such radix); `for_radix` (table lookup by `radix + leading_zeros - 33`) is proved against it.
pub open spec fn table_radix(k: int) -> int { if k < 1 { 3 } else if k < 4 { k + 4 } else if k < 11 { k + 5 } else if k < 26 { k + 6 } else { k + 7 } }
/// the radixes 2..=36 that are powers of two (decoded / encoded by shifting)
pub open spec fn is_pow2_radix(r: int) -> bool { r == 2 || r == 4 || r == 8 || r == 16 || r == 32 }
impl RadixDivisionParams {
    #[verifier::external_body]
    pub const fn ALL() -> (ret__: [RadixDivisionParams; 31])
        ensures forall|k: int| 0 <= k < 30 ==> (#[trigger] ret__@[k]).radix as int == table_radix(k) && ret__@[k].wf()
    { unimplemented!() }
}
pub proof fn lemma_lz_radix(radix: u32)
    requires 2 <= radix <= 36
    ensures u32_leading_zeros(radix) == (if radix < 4 { 30u32 } else if radix < 8 { 29u32 } else if radix < 16 { 28u32 } else if radix < 32 { 27u32 } else { 26u32 })
{
    axiom_u32_leading_zeros(radix);
    let l = u32_leading_zeros(radix);
    assert(l < 32);
    let a = (31 - l) as u32; let b = (32 - l) as u32;
    assert((radix >> a) & 1u32 != 0u32);
    assert(radix >> b == 0u32);
    assert(l < 32 && a + l == 31 && b + l == 32 && (radix >> a) & 1u32 != 0u32 && (radix >> b) == 0u32 && 2 <= radix && radix <= 36 ==>
        l == (if radix < 4 { 30u32 } else if radix < 8 { 29u32 } else if radix < 16 { 28u32 } else if radix < 32 { 27u32 } else { 26u32 })) by (bit_vector);
}
//@@ subst \bSelf::ALL\b(?!\() => Self::ALL()
//@@ fn src/uint/encoding.rs | impl RadixDivisionParams | for_radix | body | props C17 C11
impl RadixDivisionParams {
pub const fn for_radix(radix: u32) -> (ret__: Self)
//@+
    requires 2 <= radix <= 36, !is_pow2_radix(radix as int)     // a power of two fails the table lookup ("radix lookup failure")
    ensures ret__.radix == radix, ret__.wf()
//@-
{
//@+
    proof { lemma_lz_radix(radix); }
//@-
        if radix < RADIX_ENCODING_MIN || radix > RADIX_ENCODING_MAX {
            panic!("invalid radix for division");
        }
        let ret = Self::ALL()[(radix + radix.leading_zeros() - 33) as usize];
        if ret.radix != radix {
            panic!("radix lookup failure");
        }
        ret
    }
}
//@@ end
//@@ fn src/uint/encoding.rs | impl RadixDivisionParams | encode_limbs | stub | props C17 C11
impl RadixDivisionParams {
#[verifier::external_body]
pub fn encode_limbs(&self, limbs: &mut [Limb], out: &mut [u8])
//@+
    requires self.wf(), old(limbs)@.len() >= 1
    ensures final(out)@ == digits_fixed(val(old(limbs)@, old(limbs)@.len()) as nat, self.radix as int, old(out)@.len()),
        final(limbs)@.len() == old(limbs)@.len()
//@-
{
    unimplemented!()
}
}
//@@ end
//@@ fn src/uint/encoding.rs | - | radix_encode_limbs_by_shifting | stub | props C17 C11
#[verifier::external_body]
pub fn radix_encode_limbs_by_shifting(radix: u32, limbs: &mut [Limb], out: &mut [u8])
//@+
    requires radix == 2 || radix == 4 || radix == 8 || radix == 16 || radix == 32, old(out)@.len() >= 1
    ensures final(out)@ == digits_fixed(val(old(limbs)@, old(limbs)@.len()) as nat, radix as int, old(out)@.len()),
        final(limbs)@.len() == old(limbs)@.len()
//@-
{
    unimplemented!()
}
//@@ end
// ---- library functions without a vstd specification (assumed)
/// `u32::is_power_of_two`: exactly one bit set
pub assume_specification [u32::is_power_of_two] (x: u32) -> (r: bool)
    ensures r == (x != 0 && x & ((x - 1) as u32) == 0);
#[verifier::external_type_specification]
#[verifier::external_body]
pub struct ExFromUtf8Error(std::string::FromUtf8Error);
/// `String::from_utf8` on ASCII bytes succeeds and yields the same characters
pub assume_specification [String::from_utf8] (v: Vec<u8>) -> (r: Result<String, std::string::FromUtf8Error>)
    ensures (forall|k: int| 0 <= k < v@.len() ==> v@[k] < 128) ==> r is Ok && r->Ok_0@ == ascii_chars(v@);
// `&mut out[..]` on a Vec: see vec_prefix_mut below (Vec range IndexMut is unspecified in vstd); routed through this shim by subst.
#[verifier::external_body]
pub fn vec_all_mut(v: &mut Vec<u8>) -> (r: &mut [u8])
    ensures r@ == old(v)@, final(v)@ == final(r)@
{ &mut v[..] }

pub proof fn lemma_pow_base_mono(a: int, b: int, n: nat)
    requires 0 <= b <= a
    ensures 0 <= pow(b, n) <= pow(a, n)
    decreases n
{
    reveal(pow);
    if n > 0 {
        lemma_pow_base_mono(a, b, (n - 1) as nat);
        let (x, y) = (pow(a, (n - 1) as nat), pow(b, (n - 1) as nat));
        assert(0 <= b * y <= a * x) by (nonlinear_arith) requires 0 <= b <= a, 0 <= y <= x;
    }
}

/// the buffer of a power-of-two radix 2^bits is large enough: (2^bits)^ceil(64 len / bits) >= B^len
pub proof fn lemma_size_pow2(r: int, bits: nat, len: nat, size: nat)
    requires 1 <= bits <= 5, r == pow2(bits), size as int == (64 * len + bits - 1) / (bits as int)
    ensures pow(r, size) >= bp(len), len >= 1 ==> size >= 1
{
    lemma_pow2(bits); lemma_pow_multiplies(2, bits, size);
    lemma_fundamental_div_mod(64 * len + bits - 1, bits as int);
    assert(bits * size >= 64 * len) by (nonlinear_arith)
        requires 64 * len + bits - 1 == (bits as int) * (size as int) + (64 * len + bits - 1) % (bits as int), 0 <= (64 * len + bits - 1) % (bits as int) < bits;
    lemma_bp_pow2(len); lemma_pow2(64 * len);
    if bits * size > 64 * len { lemma_pow_increases(2, 64 * len, bits * size); }
    if len >= 1 && size == 0 { assert(bits * size == 0) by (nonlinear_arith) requires size == 0; }
}

/// the buffer of any other radix is large enough: r^(len (dl + 1)) >= B^len when r^(dl + 1) > B - 1
pub proof fn lemma_size_div(r: int, dl: nat, len: nat)
    requires r >= 2, pow(r, dl + 1) > u64::MAX
    ensures pow(r, len * (dl + 1)) >= bp(len)
{
    lemma_pow_multiplies(r, dl + 1, len);
    lemma_pow_base_mono(pow(r, dl + 1), B(), len);
    assert((dl + 1) * len == len * (dl + 1)) by (nonlinear_arith);
}

pub proof fn lemma_digits_fixed_zero(r: int, n: nat)
    requires r >= 2
    ensures digits_fixed(0, r, n).len() == n, forall|k: int| 0 <= k < n ==> digits_fixed(0, r, n)[k] == 0x30
    decreases n
{
    if n > 0 {
        lemma_digits_fixed_zero(r, (n - 1) as nat);
        let rn = r as nat;
        assert(0nat / rn == 0 && 0nat % rn == 0) by (nonlinear_arith) requires rn >= 2;
    }
}

pub proof fn lemma_digits_fixed_ascii(v: nat, r: int, n: nat)
    requires 2 <= r <= 36
    ensures digits_fixed(v, r, n).len() == n, forall|k: int| 0 <= k < n ==> digits_fixed(v, r, n)[k] < 128
    decreases n
{
    if n > 0 {
        let rn = r as nat;
        lemma_digits_fixed_ascii((v / rn) as nat, r, (n - 1) as nat);
        assert(0 <= v % rn < rn) by (nonlinear_arith) requires rn >= 2;
    }
}

/// for v < r^n the fixed-width digits are the canonical digits of v, left-padded with '0'
pub proof fn lemma_digits_fixed_canon(v: nat, r: int, n: nat)
    requires 2 <= r <= 36, v < pow(r, n)
    ensures ({ let d = digits_fixed(v, r, n); let c = canon_digits(v, r);
        c.len() <= n && d.len() == n && (forall|j: int| 0 <= j < n - c.len() ==> d[j] == 0x30) && d.subrange(n - c.len(), n as int) =~= c })
    decreases n
{
    reveal(pow);
    let rn = r as nat;
    if n == 0 { assert(v == 0); }
    else if v == 0 { lemma_digits_fixed_zero(r, n); }
    else {
        let q = (v / rn) as nat; let m = (v % rn) as int;
        lemma_fundamental_div_mod(v as int, r);
        let pn = pow(r, (n - 1) as nat);
        assert(q < pn) by (nonlinear_arith) requires v < r * pn, v == r * q + m, 0 <= m, r >= 2;
        lemma_digits_fixed_canon(q, r, (n - 1) as nat);
        let d0 = digits_fixed(q, r, (n - 1) as nat); let c0 = canon_digits(q, r);
        let d = digits_fixed(v, r, n); let c = canon_digits(v, r);
        assert(d == d0.push(digit_char(m))); assert(c == c0.push(digit_char(m)));
        assert forall|j: int| 0 <= j < n - c.len() implies d[j] == 0x30 by { assert(d[j] == d0[j]); }
        assert(d.subrange(n - c.len(), n as int) =~= c) by {
            assert forall|j: int| 0 <= j < c.len() implies d.subrange(n - c.len(), n as int)[j] == c[j] by {
                if j < c0.len() { assert(d0.subrange(n - 1 - c0.len(), n - 1)[j] == c0[j]); }
            }
        }
    }
}

/// dropping the leading '0's (but not the last character) of the fixed-width digits gives the canonical numeral
pub proof fn lemma_strip_zeros(v: nat, r: int, n: nat, skip: int)
    requires 2 <= r <= 36, n >= 1, v < pow(r, n), 0 <= skip < n,
        forall|k: int| 0 <= k < skip ==> digits_fixed(v, r, n)[k] == 0x30,
        skip + 1 == n || digits_fixed(v, r, n)[skip] != 0x30
    ensures digits_fixed(v, r, n).subrange(skip, n as int) =~= canon_numeral(v, r)
{
    let d = digits_fixed(v, r, n); let c = canon_digits(v, r);
    lemma_digits_fixed_canon(v, r, n);
    if v > 0 {
        lemma_canon_digits(v, r);
        let z = n - c.len();
        assert(d.subrange(z, n as int)[0] == c[0]);
        assert(d[z] != 0x30);
        assert(skip == z);
    } else {
        lemma_digits_fixed_zero(r, n);
        assert(skip == n - 1);
    }
}

pub proof fn lemma_radix_bits(radix: u32)
    requires 2 <= radix <= 36
    ensures (radix != 0 && radix & ((radix - 1) as u32) == 0) == is_pow2_radix(radix as int),
        is_pow2_radix(radix as int) ==> 1 <= u32_trailing_zeros(radix) <= 5 && radix as int == pow2(u32_trailing_zeros(radix) as nat)
{
    let m = (radix - 1) as u32;
    assert(2 <= radix && radix <= 36 && m == radix - 1 ==> ((radix & m == 0) == (radix == 2 || radix == 4 || radix == 8 || radix == 16 || radix == 32))) by (bit_vector);
    if is_pow2_radix(radix as int) {
        axiom_u32_trailing_zeros(radix);
        let t = u32_trailing_zeros(radix);
        assert(t < 32 && (radix >> t) & 1u32 == 1u32 ==> (radix == 2 ==> t == 1) && (radix == 4 ==> t == 2) && (radix == 8 ==> t == 3) && (radix == 16 ==> t == 4) && (radix == 32 ==> t == 5)) by (bit_vector);
        lemma2_to64();
    }
}

//@@ subst &mut out\[\.\.\] => vec_all_mut(&mut out)
//@@ fn src/uint/encoding.rs | - | radix_encode_limbs_mut_to_string | body | props C17 C11
pub fn radix_encode_limbs_mut_to_string(radix: u32, limbs: &mut [Limb]) -> (ret__: String)
//@+
    requires 2 <= radix <= 36, 1 <= old(limbs)@.len() <= usize::MAX / 64
    ensures ret__@ == ascii_chars(canon_numeral(val(old(limbs)@, old(limbs)@.len()) as nat, radix as int))
//@-
{
//@+
    let ghost r = radix as int; let ghost len = limbs@.len(); let ghost v = val(limbs@, len) as nat;
    proof { lemma_radix_bits(radix); lemma_val_bound(limbs@, len); }
//@-
    if !(RADIX_ENCODING_MIN..=RADIX_ENCODING_MAX).contains(&radix) {
        panic!("unsupported radix");
    }
    let mut out;
    if radix.is_power_of_two() {
        let bits = radix.trailing_zeros() as usize;
//@+
        assert(limbs.len() * (Limb::BITS as usize) == 64 * limbs.len()) by (nonlinear_arith) requires Limb::BITS == 64;
//@-
        let size = (limbs.len() * Limb::BITS as usize).div_ceil(bits);
//@+
        proof { lemma_size_pow2(r, bits as nat, len, size as nat); }
//@-
        out = vec![0u8; size];
        radix_encode_limbs_by_shifting(radix, limbs, vec_all_mut(&mut out));
//@+
        assert(out@ == digits_fixed(v, r, size as nat));
        assert(size >= 1 && v < pow(r, size as nat));
        proof { lemma_digits_fixed_ascii(v, r, size as nat); }
        assert(out@.len() == size);
//@-
    } else {
        let params = RadixDivisionParams::for_radix(radix);
//@+
        proof {
            lemma_size_div(r, params.digits_limb as nat, len);
            assert(len * (params.digits_limb + 1) <= len * 64) by (nonlinear_arith) requires params.digits_limb <= 63;
        }
//@-
        let size = params.encoded_size(limbs.len());
        out = vec![0u8; size];
        params.encode_limbs(limbs, vec_all_mut(&mut out));
//@+
        assert(out@ == digits_fixed(v, r, size as nat));
        assert(size >= 1) by (nonlinear_arith) requires size == len * (params.digits_limb + 1), len >= 1;
        assert(v < pow(r, size as nat));
        proof { lemma_digits_fixed_ascii(v, r, size as nat); }
        assert(out@.len() == size);
//@-
    }
    let size = out.len();
    let mut skip = 0;
//@+
    let ghost d = out@;
    assert(d == digits_fixed(v, r, size as nat) && size >= 1 && v < pow(r, size as nat));
    proof { lemma_digits_fixed_ascii(v, r, size as nat); }
//@-
    while skip + 1 < size && out[skip] == b'0'
//@+
        invariant out@ == d, size == d.len(), size >= 1, skip < size, forall|k: int| 0 <= k < skip ==> d[k] == 0x30
        decreases size - skip
//@-
{
        skip += 1;
    }
//@+
    proof { lemma_strip_zeros(v, r, size as nat, skip as int); }
//@-
    if skip > 0 {
        out.copy_within(skip..size, 0);
        out.truncate(size - skip);
    }
//@+
    assert(out@ =~= d.subrange(skip as int, size as int));
//@-
    String::from_utf8(out).expect("utf-8 decoding error")
}
//@@ end

// ---------------------------------------------------------------- C17 round trip at the level of the two contracts
/// the digit characters are decoded to their digit
pub proof fn lemma_digit_char(d: int)
    requires 0 <= d < 36
    ensures digit_val(digit_char(d)) == d, digit_char(d) != 0x5f, digit_char(d) != 0x2b, (digit_char(d) == 0x30) == (d == 0)
{ }

/// the canonical digit string of v > 0 is a well-formed digit string without separators and leading zero, and denotes v
pub proof fn lemma_canon_digits(v: nat, r: int)
    requires v > 0, 2 <= r <= 36
    ensures ({ let d = canon_digits(v, r); let n = d.len() as int;
        n >= 1 && d[0] != 0x30 && seg_ok(d, 0, n, r) && seg_val(d, 0, n, r) == v
        && forall|k: int| 0 <= k < n ==> d[k] != 0x5f && d[k] != 0x2b })
    decreases v
{
    let rn = r as nat;
    let q = (v / rn) as nat; let m = (v % rn) as int;
    let pre = canon_digits(q, r); let d = canon_digits(v, r); let n = d.len() as int;
    assert(d == pre.push(digit_char(m)));
    lemma_digit_char(m);
    lemma_fundamental_div_mod(v as int, r);
    assert(q < v) by (nonlinear_arith) requires q == v / rn, v > 0, rn >= 2;
    if q > 0 {
        lemma_canon_digits(q, r);
        lemma_seg_shift(pre, d, 0, 0, n - 1, r);
        assert(char_ok(d[n - 1], r));
        assert(seg_val(d, 0, n, r) == seg_val(d, 0, n - 1, r) * r + m);
        assert(q * r == r * q) by (nonlinear_arith);
    } else {
        assert(pre.len() == 0);
        assert(seg_val(d, 0, 0, r) == 0);
        assert(0 * r == 0);
        assert((v as int) / r == 0 && (v as int) % r == m);
        assert(r * 0 == 0);
        assert(v == m);
    }
}

/// C17: parsing the canonical numeral of v gives v
pub proof fn lemma_radix_roundtrip(v: nat, r: int)
    requires 2 <= r <= 36
    ensures numeral_val(canon_numeral(v, r), r) == Some(v)
{
    let s = canon_numeral(v, r);
    if v > 0 { lemma_canon_digits(v, r); }
    else { assert(seg_val(s, 0, 1, r) == seg_val(s, 0, 0, r) * r + 0); assert(0 * r == 0); assert(seg_val(s, 0, 0, r) == 0); assert(char_ok(s[0], r)); }
    assert(numeral_body(s) == s);
}

// `&mut vec_buf[..n]` is `<Vec<T, A> as IndexMut<RangeTo<usize>>>::index_mut`: vstd specifies range IndexMut for slices and arrays only, and the
// Vec impl cannot be given an `assume_specification` here (generic over `I: SliceIndex<[T]>` and the unstable `Allocator`), so the result would
// be an unconstrained slice. The expression is routed through this `external_body` shim (body = the original expression) by the `subst` below;
// the bound expression is passed through unchanged. Reported as assumed.
#[verifier::external_body]
pub fn vec_prefix_mut(v: &mut Vec<Limb>, n: usize) -> (r: &mut [Limb])
    requires n <= old(v)@.len()
    ensures r@ == old(v)@.subrange(0, n as int), final(v)@ == final(r)@ + old(v)@.subrange(n as int, old(v)@.len() as int)
{ &mut v[..n] }

//@@ subst &mut vec_buf\[\.\.([^\]]+)\] => vec_prefix_mut(&mut vec_buf, \1)
//@@ fn src/uint/encoding.rs | - | radix_encode_limbs_to_string | body | props C17 C11
pub fn radix_encode_limbs_to_string(radix: u32, limbs: &[Limb]) -> (ret__: String)
//@+
    requires 2 <= radix <= 36, 1 <= limbs@.len() <= usize::MAX / 64
    ensures ret__@ == ascii_chars(canon_numeral(val(limbs@, limbs@.len()) as nat, radix as int))
//@-
{
    let mut array_buf = [Limb::ZERO; 128];
    let mut vec_buf = Vec::new();
    let limb_count = limbs.len();
    let buf = if limb_count <= array_buf.len() {
        array_buf[..limb_count].copy_from_slice(limbs);
//@+
        assert(array_buf@.subrange(0, limb_count as int) =~= limbs@);
//@-
        &mut array_buf[..limb_count]
    } else {
        vec_buf.extend_from_slice(limbs);
//@+
        assert(vec_buf@ =~= limbs@);
//@-
        vec_prefix_mut(&mut vec_buf, limb_count)
    };
//@+
    assert(buf@ =~= limbs@);
//@-
    radix_encode_limbs_mut_to_string(radix, buf)
}
//@@ end
//@@ fn src/uint.rs | impl<const LIMBS: usize> Uint<LIMBS> | as_limbs_mut | body | props C16 C11
impl<const LIMBS: usize> Uint<LIMBS> {
pub const fn as_limbs_mut(&mut self) -> (ret__: &mut [Limb; LIMBS])
//@+
    ensures *ret__ == old(self).limbs, final(self).limbs == *final(ret__)
//@-
{
        &mut self.limbs
    }
}
//@@ end
//@@ fn src/uint/encoding.rs | impl<const LIMBS:usize>Uint<LIMBS> | to_string_radix_vartime | body | props C17 C11
impl<const LIMBS:usize>Uint<LIMBS> {
pub fn to_string_radix_vartime(&self, radix: u32) -> (ret__: String)
//@+
    requires 2 <= radix <= 36, 1 <= LIMBS <= usize::MAX / 64
    ensures ret__@ == ascii_chars(canon_numeral(self.v() as nat, radix as int))
//@-
{
        let mut buf = *self;
        radix_encode_limbs_mut_to_string(radix, buf.as_limbs_mut())
    }
}
//@@ end

} // verus!
