// L2: radix string encoding (src/uint/encoding.rs) -- C17, encode side
// body (proved): radix_encode_limbs_mut_to_string (buffer size is sufficient for every value -- pow2 radix: ceil(64 len / bits) digits, other
//   radix: len (digits_limb + 1) digits --, leading zeros stripped, "0" for zero: result == canonical numeral of the value),
//   radix_encode_limbs_to_string (stack / heap buffer selection), Uint::to_string_radix_vartime, Uint::as_limbs_mut,
//   RadixDivisionParams::encoded_size, RadixDivisionParams::for_radix (table lookup `radix + leading_zeros - 33`, over the ASSUMED table ALL()),
//   radix_large_divisor (result == radix^digits, largest such power that fits 32 limbs, top limb non-zero);
//   RadixDivisionParams::encode_limbs (out == the out.len() low-order digits of the value, zero padded: repeated in-place division of the limb buffer by
//     radix^digits_limb through the reciprocal (shift left, div2by1 from the top limb down, top quotient limb carried in `hi` when it is < d >> shift), digits written
//     from the least significant end; above 32 limbs: division by radix^digits_large = div_large and recursion on the 32-limb remainder);
//   radix_encode_limbs_by_shifting (power-of-two radixes: same contract; extra precondition for the u32 bit counter, see the region) -- extracted through
//     rewrite R13 (`for limb in limbs.iter().chain([&Limb::ZERO])` peeled into the loop over `limbs` plus one more copy of the body for the zero limb);
//   lemma_radix_roundtrip: numeral_val(canon_numeral(v, r), r) == Some(v) (parse . format == id at the level of the two contracts),
//   lemma_canon_digits (no leading zero, no separators), lemma_strip_zeros, lemma_size_pow2 / lemma_size_div,
//   lemma_digits_fixed_split / _mod / _prepend, lemma_block_step (digits of v = digits of v / r^k ++ k digits of v mod r^k).
// FINDING (fixed in /repo 96d9f18): encode_limbs tested `limbs[limb_count - 1] << lshift < div_limb` to decide whether the top quotient limb can be carried in `hi`;
//   `Limb << lshift` drops the high bits, so a limb >= 2^(64 - lshift) could pass, and the next round's `hi << lshift` lost its high bits: wrong numeral for odd
//   radixes with lshift >= 1 (e.g. radix 7, Uint<28> value ((7^22 - 1) / 4 * 2^64 + 2^64 - 1) * 7^(22*27)); found because the loop invariant
//   `hi * 2^shift + 2^shift <= d` could not be established. The proof holds for the repaired test `limbs[limb_count - 1] < div_limb >> lshift`.
// `RadixDivisionParams::wf()` now also states `divisor_normalized == dv() * 2^shift` (exact normalisation; part of the ASSUMED contents of ALL()).
// assumed library specs: u32::is_power_of_two, String::from_utf8 (+ FromUtf8Error), usize::div_ceil (l4_safegcd); shims vec_prefix_mut
//   (= `&mut vec[..n]`), vec_all_mut (= `&mut vec[..]`); hand-declared table `RadixDivisionParams::ALL()` (stands for `const ALL`, not mirrored).
use vstd::prelude::*;
use vstd::arithmetic::power::*;
use vstd::arithmetic::power2::*;
use vstd::arithmetic::div_mod::*;
use vstd::arithmetic::mul::*;
use vstd::string::*;
use vstd::std_specs::slice::*;
use vstd::std_specs::bits::*;
use crate::speclib::*;
use crate::speclib_bits::*;
use crate::l0_prim::*;
use crate::l1_choice::*;
use crate::l1_limb::*;
use crate::l2_core::*;
use crate::l2_encoding_radix::*;
use crate::l3_divlimb::*;
use crate::l7_boxed_div::*;
use crate::l2_subtle::*;
use crate::l7_traits::*;
use crate::l8_boxed_methods::*;
#[allow(unused_imports)]
use crate::l2_encoding_enc2::*;   // PartialEq / PartialOrd / BitOrAssign for Limb (used by encode_limbs)
#[allow(unused_imports)]
use crate::l4_safegcd::*;   // holds the assumed specification of `usize::div_ceil` (one per crate)
verus! {

// ---------------------------------------------------------------- spec vocabulary: canonical numerals
/// the ASCII character of the digit d (0..=35), lower case
pub open spec fn digit_char(d: int) -> u8 { if d < 10 { (0x30 + d) as u8 } else { (0x61 + d - 10) as u8 } }
/// digits of v > 0 in the radix, most significant first, no leading zero (empty for v == 0)
pub open spec fn canon_digits(v: nat, radix: int) -> Seq<u8>
    decreases v
    via canon_digits_dec
{ if v == 0 || radix < 2 { Seq::empty() } else { canon_digits((v / radix as nat) as nat, radix).push(digit_char((v % radix as nat) as int)) } }
#[via_fn]
proof fn canon_digits_dec(v: nat, radix: int)
{ if v != 0 && radix >= 2 { let r = radix as nat; assert(v / r < v) by (nonlinear_arith) requires v > 0, r >= 2; } }
/// the canonical lower-case numeral of v: no leading zeros, "0" for zero
pub open spec fn canon_numeral(v: nat, radix: int) -> Seq<u8> { if v == 0 { seq![0x30u8] } else { canon_digits(v, radix) } }
/// the n low-order digits of v in the radix, most significant first, zero padded: the numeral of v mod radix^n written with exactly n digits
pub open spec fn digits_fixed(v: nat, radix: int, n: nat) -> Seq<u8>
    decreases n
{ if n == 0 || radix < 2 { Seq::empty() } else { digits_fixed((v / radix as nat) as nat, radix, (n - 1) as nat).push(digit_char((v % radix as nat) as int)) } }
/// the characters of an ASCII byte string
pub open spec fn ascii_chars(s: Seq<u8>) -> Seq<char> { s.map_values(|b: u8| b as char) }


//@@ rawconst src/uint/encoding.rs | - | RADIX_ENCODING_LIMBS_LARGE
pub const RADIX_ENCODING_LIMBS_LARGE: usize = 32;
//@@ end
//@@ item src/uint/encoding.rs | struct RadixDivisionParams
#[derive(Clone, Copy)]
pub struct RadixDivisionParams {
    pub radix: u32,
    pub digits_limb: usize,
    pub reciprocal: Reciprocal,
    pub digits_large: usize,
    pub div_large: [Limb; RADIX_ENCODING_LIMBS_LARGE],
}
//@@ end
impl RadixDivisionParams {
    /// a parameter set for a radix that is not a power of two: digits_limb = floor(log_radix(B - 1)), the reciprocal is that of
    /// radix^digits_limb, div_large = radix^digits_large is the largest power of the radix that fits 32 limbs
    pub open spec fn wf(&self) -> bool {
        let r = self.radix as int;
        &&& 3 <= r <= 36 && !is_pow2_radix(r)
        &&& 1 <= self.digits_limb <= 63 && pow(r, self.digits_limb as nat) <= u64::MAX < pow(r, (self.digits_limb + 1) as nat)
        &&& self.reciprocal.wf() && self.reciprocal.dv() == pow(r, self.digits_limb as nat)
        &&& self.reciprocal.divisor_normalized as int == self.reciprocal.dv() * p2(self.reciprocal.shift as nat)
        &&& val(self.div_large@, 32) == pow(r, self.digits_large as nat) && self.div_large@[31].0 != 0
        &&& val(self.div_large@, 32) * r >= bp(32)
    }
}
//@@ fn src/uint/encoding.rs | impl RadixDivisionParams | encoded_size | body | props C17 C11
impl RadixDivisionParams {
pub const fn encoded_size(&self, limb_count: usize) -> (ret__: usize)
//@+
    requires self.digits_limb <= 63, limb_count * (self.digits_limb + 1) <= usize::MAX
    ensures ret__ == limb_count * (self.digits_limb + 1)
//@-
{
        // a slightly pessimistic estimate
        limb_count * (self.digits_limb + 1)
    }
}
//@@ end
/// r >= 2 and r^k < 2^2048 ==> k < 2048
pub proof fn lemma_digits_large_bound(r: int, k: nat)
    requires r >= 2, pow(r, k) < bp(32)
    ensures k < 2048
{
    lemma_pow_base2(r, k); lemma_bp_pow2(32); lemma_pow2(k);
    if k >= 2048 { if k > 2048 { lemma_pow2_strictly_increases(2048, k); } }
}

//@@ fn src/uint/encoding.rs | - | radix_large_divisor | body | props C17 C11
pub const fn radix_large_divisor(
    radix: u32,
    div_limb: NonZero<Limb>,
    digits_limb: usize,
) -> (ret__: ([Limb; RADIX_ENCODING_LIMBS_LARGE], usize))
//@+
    requires 2 <= radix <= 36, 1 <= digits_limb <= 63, div_limb.0.0 as int == pow(radix as int, digits_limb as nat)
    ensures val(ret__.0@, 32) == pow(radix as int, ret__.1 as nat), val(ret__.0@, 32) * radix >= bp(32), val(ret__.0@, 32) >= bp(31)
//@-
{
    let mut out = [Limb::ZERO; RADIX_ENCODING_LIMBS_LARGE];
    let mut digits_large = digits_limb;
    let mut top = 1;
    out[0] = div_limb.0;
//@+
    let ghost r = radix as int;
    let ghost dv = div_limb.0.0 as int;
    proof {
        lemma_bp_succ(0); lemma_bp_succ(1); lemma_pow1(r);
        lemma_pow_increases(r as nat, 1, digits_limb as nat);
        assert(val(out@, 1) == val(out@, 0) + dv * bp(0));
        assert(dv * bp(0) == dv) by (nonlinear_arith) requires bp(0) == 1;
        lemma_pow_increases(B() as nat, 1, 32);
    }
//@-
    // Calculate largest power of div_limb (itself a power of radix)
    while top < RADIX_ENCODING_LIMBS_LARGE
//@+
        invariant 2 <= radix <= 36, r == radix as int, 1 <= digits_limb <= 63, dv == div_limb.0.0 as int, dv == pow(r, digits_limb as nat), dv >= 2,
            1 <= top <= 32, val(out@, top as nat) == pow(r, digits_large as nat), val(out@, top as nat) >= bp((top - 1) as nat),
        decreases 32 - top, bp(top as nat) - val(out@, top as nat)
//@-
{
        let mut carry = Limb::ZERO;
        let mut j = 0;
//@+
        let ghost out0 = out@;
        let ghost v0 = val(out0, top as nat);
        proof { lemma_bp_succ(0); assert(0 * dv == 0); assert(0 * bp(0) == 0); }
//@-
        while j < top
//@+
            invariant j <= top <= 31, dv == div_limb.0.0 as int,
                val(out@, j as nat) + carry.0 as int * bp(j as nat) == val(out0, j as nat) * dv,
                forall|k: int| j <= k < 32 ==> out@[k] == out0[k],
            decreases top - j
//@-
{
//@+
            let ghost cy0 = carry.0 as int; let ghost o1 = out@;
//@-
            let (__t0, __t1) = Limb::ZERO.mac(out[j], div_limb.0, carry); out[j] = __t0; carry = __t1;
//@+
            proof {
                let i = j as nat;
                lemma_val_ext(o1, out@, i); lemma_val_step(out@, i); lemma_val_step(out0, i); lemma_bp_succ(i);
                let (t0, t1, x, pb, a) = (out@[j as int].0 as int, carry.0 as int, out0[j as int].0 as int, bp(i), val(out0, i));
                assert((a + x * pb) * dv == a * dv + (x * dv) * pb) by (nonlinear_arith);
                assert(t0 * pb + t1 * (B() * pb) == (x * dv + cy0) * pb) by (nonlinear_arith) requires t0 + t1 * B() == x * dv + cy0;
                assert((x * dv + cy0) * pb == (x * dv) * pb + cy0 * pb) by (nonlinear_arith);
            }
//@-
            j += 1;
        }
//@+
        let ghost out1 = out@;
        let ghost cy = carry.0 as int;
        proof {
            lemma_val_bound(out1, top as nat); lemma_bp_succ(top as nat); lemma_bp_succ((top - 1) as nat);
            lemma_pow_adds(r, digits_large as nat, digits_limb as nat);
            assert(v0 * dv >= 2 * v0) by (nonlinear_arith) requires dv >= 2, v0 >= 0;
            if top < 32 { lemma_pow_increases(B() as nat, (top + 1) as nat, 32); }
            assert(cy * bp(top as nat) < B() * bp(top as nat)) by (nonlinear_arith) requires cy < B(), bp(top as nat) > 0;
        }
//@-
        if carry.0 != 0 {
            out[top] = carry;
//@+
            proof {
                lemma_val_ext(out1, out@, top as nat); lemma_val_step(out@, top as nat);
                let pb = bp(top as nat);
                assert(cy * pb >= pb) by (nonlinear_arith) requires cy >= 1, pb >= 0;
            }
//@-
            top += 1;
        }
//@+
        else { proof { assert(cy * bp(top as nat) == 0) by (nonlinear_arith) requires cy == 0; } }
        proof {
            lemma_val_bound(out@, top as nat);
            if top < 32 { lemma_pow_increases(B() as nat, top as nat, 32); }
            assert(val(out@, top as nat) == pow(r, (digits_large + digits_limb) as nat));
            lemma_digits_large_bound(r, (digits_large + digits_limb) as nat);
        }
//@-
        digits_large += digits_limb;
    }
    // Multiply by radix while we can do so without overflowing
    let mut out_test = out;
    loop
//@+
        invariant 2 <= radix <= 36, r == radix as int, val(out@, 32) == pow(r, digits_large as nat), val(out@, 32) >= bp(31),
        ensures val(out@, 32) * radix >= bp(32)
        decreases bp(32) - val(out@, 32)
//@-
{
        let mut carry = Limb::ZERO;
        let mut j = 0;
//@+
        proof { lemma_bp_succ(0); assert(0 * r == 0); assert(0 * bp(0) == 0); }
//@-
        while j < RADIX_ENCODING_LIMBS_LARGE
//@+
            invariant j <= 32, r == radix as int, 2 <= r <= 36,
                val(out_test@, j as nat) + carry.0 as int * bp(j as nat) == val(out@, j as nat) * r,
            decreases 32 - j
//@-
{
//@+
            let ghost cy0 = carry.0 as int; let ghost o1 = out_test@;
//@-
            let (__t2, __t3) = Limb::ZERO.mac(out[j], Limb(radix as Word), carry); out_test[j] = __t2; carry = __t3;
//@+
            proof {
                let i = j as nat;
                lemma_val_ext(o1, out_test@, i); lemma_val_step(out_test@, i); lemma_val_step(out@, i); lemma_bp_succ(i);
                let (t0, t1, x, pb, a) = (out_test@[j as int].0 as int, carry.0 as int, out@[j as int].0 as int, bp(i), val(out@, i));
                assert((a + x * pb) * r == a * r + (x * r) * pb) by (nonlinear_arith);
                assert(t0 * pb + t1 * (B() * pb) == (x * r + cy0) * pb) by (nonlinear_arith) requires t0 + t1 * B() == x * r + cy0;
                assert((x * r + cy0) * pb == (x * r) * pb + cy0 * pb) by (nonlinear_arith);
            }
//@-
            j += 1;
        }
//@+
        let ghost v = val(out@, 32); let ghost cy = carry.0 as int;
        proof {
            lemma_val_bound(out_test@, 32); lemma_bp_succ(31);
            lemma_pow_succ(r, digits_large as nat);
            assert(v * r >= 2 * v) by (nonlinear_arith) requires r >= 2, v >= 0;
            let pb = bp(32);
            if cy != 0 { assert(cy * pb >= pb) by (nonlinear_arith) requires cy >= 1, pb >= 0; }
            else { assert(cy * pb == 0) by (nonlinear_arith) requires cy == 0; lemma_digits_large_bound(r, (digits_large + 1) as nat); assert(r * v == v * r) by (nonlinear_arith); }
        }
//@-
        if carry.0 == 0 {
            out = out_test;
            digits_large += 1;
        } else {
            break;
        }
    }
    (out, digits_large)
}
//@@ end
// `const ALL: [Self; 31]` (the table of the parameter sets of the 30 radixes 3..=36 that are not powers of two, built in a const block with a
// `while` loop) cannot be mirrored: in a `//@@ const` region the `{` of the loop stays on the `while` line (W1 applies to fn bodies only), so no
// invariant can be attached. It is represented by the hand-declared ASSUMED function `ALL()` below (contents by position: entry k is a
// well-formed parameter set of the k-th such radix); `for_radix` (table lookup by `radix + leading_zeros - 33`) is proved against it.
pub open spec fn table_radix(k: int) -> int { if k < 1 { 3 } else if k < 4 { k + 4 } else if k < 11 { k + 5 } else if k < 26 { k + 6 } else { k + 7 } }
/// the radixes 2..=36 that are powers of two (decoded / encoded by shifting)
pub open spec fn is_pow2_radix(r: int) -> bool { r == 2 || r == 4 || r == 8 || r == 16 || r == 32 }
impl RadixDivisionParams {
    #[verifier::external_body]
    pub const fn ALL() -> (ret__: [RadixDivisionParams; 31])
        ensures forall|k: int| 0 <= k < 30 ==> (#[trigger] ret__@[k]).radix as int == table_radix(k) && ret__@[k].wf()
    { unimplemented!() }
}
pub proof fn lemma_lz_radix(radix: u32)
    requires 2 <= radix <= 36
    ensures u32_leading_zeros(radix) == (if radix < 4 { 30u32 } else if radix < 8 { 29u32 } else if radix < 16 { 28u32 } else if radix < 32 { 27u32 } else { 26u32 })
{
    axiom_u32_leading_zeros(radix);
    let l = u32_leading_zeros(radix);
    assert(l < 32);
    let a = (31 - l) as u32; let b = (32 - l) as u32;
    assert((radix >> a) & 1u32 != 0u32);
    assert(radix >> b == 0u32);
    assert(l < 32 && a + l == 31 && b + l == 32 && (radix >> a) & 1u32 != 0u32 && (radix >> b) == 0u32 && 2 <= radix && radix <= 36 ==>
        l == (if radix < 4 { 30u32 } else if radix < 8 { 29u32 } else if radix < 16 { 28u32 } else if radix < 32 { 27u32 } else { 26u32 })) by (bit_vector);
}
//@@ subst \bSelf::ALL\b(?!\() => Self::ALL()
//@@ fn src/uint/encoding.rs | impl RadixDivisionParams | for_radix | body | props C17 C11
impl RadixDivisionParams {
pub const fn for_radix(radix: u32) -> (ret__: Self)
//@+
    requires 2 <= radix <= 36, !is_pow2_radix(radix as int)     // a power of two fails the table lookup ("radix lookup failure")
    ensures ret__.radix == radix, ret__.wf()
//@-
{
//@+
    proof { lemma_lz_radix(radix); }
//@-
        if radix < RADIX_ENCODING_MIN || radix > RADIX_ENCODING_MAX {
            panic!("invalid radix for division");
        }
        let ret = Self::ALL()[(radix + radix.leading_zeros() - 33) as usize];
        if ret.radix != radix {
            panic!("radix lookup failure");
        }
        ret
    }
}
//@@ end
// ---------------------------------------------------------------- digits_fixed under division
proof fn lemma_pow_r_pos(r: int, n: nat)
    requires r >= 2
    ensures pow(r, n) >= 1, pow(r, n + 1) == r * pow(r, n), pow(r, 0) == 1
{ lemma_pow_positive(r, n); reveal(pow); lemma_pow0(r); }

/// digits_fixed(v, r, a + b) == digits_fixed(v / r^b, r, a) ++ digits_fixed(v, r, b)
pub proof fn lemma_digits_fixed_split(v: nat, r: int, a: nat, b: nat)
    requires r >= 2
    ensures digits_fixed(v, r, a + b) =~= digits_fixed((v as int / pow(r, b)) as nat, r, a) + digits_fixed(v, r, b), pow(r, b) >= 1
    decreases b
{
    lemma_pow_r_pos(r, b);
    let rn = r as nat;
    if b == 0 {
        assert(v as int / 1 == v);
    } else {
        let b1 = (b - 1) as nat;
        let v1 = (v / rn) as nat;
        lemma_pow_r_pos(r, b1);
        lemma_digits_fixed_split(v1, r, a, b1);
        lemma_div_denominator(v as int, r, pow(r, b1));
        assert(v1 as int == v as int / r);
        assert(v1 as int / pow(r, b1) == v as int / pow(r, b));
        let c0 = digit_char((v % rn) as int);
        assert(digits_fixed(v, r, a + b) == digits_fixed(v1, r, (a + b - 1) as nat).push(c0));
        assert(digits_fixed(v, r, b) == digits_fixed(v1, r, b1).push(c0));
        assert((a + b - 1) as nat == a + b1);
    }
}

/// the k low-order digits depend only on v mod r^m (k <= m)
pub proof fn lemma_digits_fixed_mod(v: nat, r: int, k: nat, m: nat)
    requires r >= 2, k <= m
    ensures pow(r, m) >= 1, digits_fixed(v, r, k) == digits_fixed((v as int % pow(r, m)) as nat, r, k)
    decreases k
{
    lemma_pow_r_pos(r, m);
    if k > 0 {
        let rn = r as nat;
        let m1 = (m - 1) as nat; let k1 = (k - 1) as nat;
        lemma_pow_r_pos(r, m1);
        let pm = pow(r, m); let pm1 = pow(r, m1);
        let w = (v as int % pm) as nat;
        lemma_mod_bound(v as int, pm);
        lemma_breakdown(v as int, r, pm1);
        lemma_mod_bound(v as int / r, pm1); lemma_mod_bound(v as int, r);
        let qh = (v as int / r) % pm1; let lo = v as int % r;
        assert(w as int == r * qh + lo);
        lemma_fundamental_div_mod_converse(w as int, r, qh, lo);
        let v1 = (v / rn) as nat;
        assert(v1 as int == v as int / r);
        lemma_digits_fixed_mod(v1, r, k1, m1);
        assert((w / rn) as nat == (v1 as int % pm1) as nat);
        assert((w % rn) as int == (v % rn) as int);
    }
}

/// one block of digits: the buffer tail holds the e low digits of v0, vc == v0 / r^e, vc == q r^m + rem with rem < r^m, and k <= m digits of rem
/// are prepended  ==>  the tail holds the e + k low digits of v0, and q == v0 / r^(e + m)
pub proof fn lemma_block_step(v0: nat, r: int, e: nat, vc: int, m: nat, q: int, rem: int, k: nat)
    requires r >= 2, pow(r, e) >= 1 ==> vc == v0 as int / pow(r, e), vc == q * pow(r, m) + rem, 0 <= rem < pow(r, m), k <= m, q >= 0
    ensures digits_fixed(rem as nat, r, k) + digits_fixed(v0, r, e) =~= digits_fixed(v0, r, k + e),
        pow(r, e + m) >= 1, q == v0 as int / pow(r, e + m)
{
    lemma_pow_r_pos(r, e); lemma_pow_r_pos(r, m); lemma_pow_r_pos(r, e + m);
    let pe = pow(r, e); let pm = pow(r, m);
    lemma_fundamental_div_mod_converse(vc, pm, q, rem);
    lemma_digits_fixed_split(v0, r, k, e);
    assert(vc >= 0) by (nonlinear_arith) requires vc == q * pm + rem, q >= 0, pm >= 1, rem >= 0;
    lemma_digits_fixed_mod(vc as nat, r, k, m);
    lemma_div_denominator(v0 as int, pe, pm);
    lemma_pow_adds(r, e, m);
}

/// prepending one digit
pub proof fn lemma_digits_fixed_prepend(v: nat, r: int, i: nat)
    requires 2 <= r <= 36
    ensures pow(r, i) >= 1, digits_fixed(v, r, i + 1) =~= seq![digit_char((v as int / pow(r, i)) % r)] + digits_fixed(v, r, i),
        (v as int / pow(r, i)) / r == v as int / pow(r, i + 1), 0 <= (v as int / pow(r, i)) % r < r
{
    lemma_pow_r_pos(r, i);
    lemma_digits_fixed_split(v, r, 1, i);
    let w = (v as int / pow(r, i)) as nat;
    lemma_div_pos_is_pos(v as int, pow(r, i));
    assert(digits_fixed(w, r, 1) =~= seq![digit_char((w % (r as nat)) as int)]) by {
        assert(digits_fixed((w / (r as nat)) as nat, r, 0) =~= Seq::<u8>::empty());
    }
    lemma_div_denominator(v as int, pow(r, i), r);
    assert(pow(r, i) * r == r * pow(r, i)) by (nonlinear_arith);
    lemma_mod_bound(w as int, r);
}


// ---------------------------------------------------------------- arithmetic of one division round
/// consequences of the parameter relations: 2^shift <= 35 < d = r^dl < B
proof fn lemma_enc_params(r: int, dl: nat, d: int, dn: int, ps: int, shift: u32)
    requires 3 <= r <= 36, d == pow(r, dl), pow(r, dl + 1) > u64::MAX, dn == d * ps, B() / 2 <= dn < B(), ps == p2(shift as nat), shift < 64
    ensures 1 <= ps <= 35, ps < d, d < B(), d >= 1
{
    lemma_pow_r_pos(r, dl); lemma_pow2_pos(shift as nat);
    assert(d * 36 >= B()) by (nonlinear_arith) requires r * d > u64::MAX, r <= 36, d >= 1;
    assert(ps <= 35) by (nonlinear_arith) requires d * ps < B(), d * 36 >= B(), d >= 1, ps >= 1;
    assert(d <= dn) by (nonlinear_arith) requires dn == d * ps, ps >= 1, d >= 1;
}

/// one limb of the left shift: ((x << s) | c) + (x >> (64 - s)) B == x 2^s + c for c < 2^s
proof fn lemma_shl_or_step(x: u64, c: u64, s: u32)
    requires 0 < s < 64, (c as int) < p2(s as nat)
    ensures (((x << s) | c) as int) + ((x >> ((64 - s) as u32)) as int) * B() == x as int * p2(s as nat) + c as int,
        ((x >> ((64 - s) as u32)) as int) < p2(s as nat)
{
    lemma_one_shl(s as u64);
    let m = 1u64 << (s as u64);
    assert(((x << s) | c) == add(x << s, c) && add(x << s, c) >= (x << s)) by (bit_vector) requires 0 < s < 64, c < (1u64 << (s as u64));
    assert(((x << s) | c) as int == (x << s) as int + c as int) by {
        assert(add(x << s, c) >= (x << s) ==> add(x << s, c) as int == (x << s) as int + c as int) by (bit_vector);
    }
    lemma_limb_shl_split(x, s);
    assert((x >> ((64 - s) as u32)) < (1u64 << (s as u64))) by (bit_vector) requires 0 < s < 64;
}

/// `carry | (hi << s)` is hi 2^s + carry when hi 2^s + 2^s <= d < B and carry < 2^s
proof fn lemma_hi_shl_or(hi: u64, t: u64, s: u32, d: int)
    requires 0 < s < 64, (t as int) < p2(s as nat), hi as int * p2(s as nat) + p2(s as nat) <= d, d < B()
    ensures ((t | (hi << s)) as int) == hi as int * p2(s as nat) + t as int
{
    lemma_one_shl(s as u64);
    lemma_u64_shl_mod(hi, s);
    lemma_small_mod((hi as int * p2(s as nat)) as nat, B() as nat);
    let h = hi << s;
    assert(h as int == hi as int * p2(s as nat));
    let m = 1u64 << (s as u64);
    assert(h as int + m as int <= u64::MAX);
    assert((t | h) == add(h, t)) by (bit_vector) requires 0 < s < 64, t < (1u64 << (s as u64)), h == hi << s;
    assert(add(h, t) as int == h as int + t as int) by (bit_vector) requires h <= 0xffff_ffff_ffff_ffffu64 - m, t < m;
}

proof fn lemma_tv_empty_mul2(q: Seq<Limb>, n: nat, dn: int)
    ensures tv(q, n, n) * dn == 0
{ assert(tv(q, n, n) == 0); assert(0 * dn == 0); }

/// (copy of the private lemma_divlimb_step of l3_divlimb.rs) one step of the schoolbook loop: bring down limb j, append quotient limb qj
proof fn lemma_divlimb_step2(qo: Seq<Limb>, qn: Seq<Limb>, us: Seq<Limb>, j: nat, n: nat, dn: int, r: int, qj: int, rj: int, total: int)
    requires
        j < n,
        forall|k: int| j < k < n ==> qn[k] == qo[k],
        qn[j as int].0 as int == qj,
        qj * dn + rj == r * B() + us[j as int].0 as int,
        tv(qo, j + 1, n) * dn + r * bp(j + 1) + val(us, j + 1) == total,
    ensures
        tv(qn, j, n) * dn + rj * bp(j) + val(us, j) == total,
{
    lemma_tv_ext(qo, qn, j + 1, n);
    lemma_val_step(qn, j);
    lemma_val_step(us, j);
    lemma_bp_succ(j);
    let t = tv(qo, j + 1, n); let p = bp(j); let x = us[j as int].0 as int; let b = B();
    assert(tv(qn, j, n) == t + qj * p);
    assert((t + qj * p) * dn + rj * p == t * dn + r * (b * p) + x * p) by (nonlinear_arith)
        requires qj * dn + rj == r * b + x;
}

/// (copy of the private lemma_divlimb_final of l3_divlimb.rs) undo the normalisation: Q*(dv*2^s) + r == U*2^s  ==>  Q*dv + r/2^s == U
proof fn lemma_divlimb_final2(qv: int, r: int, uv: int, dv: int, ps: int)
    requires ps > 0, qv * (dv * ps) + r == uv * ps, 0 <= r < dv * ps
    ensures qv * dv + r / ps == uv, 0 <= r / ps < dv
{
    let x = uv - qv * dv;
    assert(x * ps == r) by (nonlinear_arith) requires x == uv - qv * dv, qv * (dv * ps) + r == uv * ps;
    lemma_div_multiples_vanish(x, ps);
    assert(ps * x == x * ps) by (nonlinear_arith);
    assert(x < dv) by (nonlinear_arith) requires x * ps < dv * ps, ps > 0;
    assert(x >= 0) by (nonlinear_arith) requires x * ps >= 0, ps > 0;
}

//@@ fn src/uint/encoding.rs | impl RadixDivisionParams | encode_limbs | body | props C17 C11
impl RadixDivisionParams {
pub fn encode_limbs(&self, limbs: &mut [Limb], out: &mut [u8])
//@+
    requires self.wf(), old(limbs)@.len() >= 1, old(limbs)@.len() + 32 <= usize::MAX
    ensures final(out)@ == digits_fixed(val(old(limbs)@, old(limbs)@.len()) as nat, self.radix as int, old(out)@.len()),
        final(limbs)@.len() == old(limbs)@.len()
    decreases old(limbs)@.len()
//@-
{
//@+
    let ghost r = self.radix as int; let ghost dl = self.digits_limb as nat; let ghost d = pow(r, dl);
    let ghost dn = self.reciprocal.divisor_normalized as int; let ghost ps = p2(self.reciprocal.shift as nat);
    let ghost len = limbs@.len(); let ghost olen = out@.len();
    let ghost v0 = val(limbs@, len) as nat;
    proof { lemma_val_bound(limbs@, len); lemma_enc_params(r, dl, d, dn, ps, self.reciprocal.shift); }
//@-
        debug_assert!(!limbs.is_empty());
        let radix = self.radix as Word;
        let div_limb = self.reciprocal.divisor().0;
        let mut limb_count = limbs.len();
        let mut out_idx = out.len();
//@+
    proof { lemma_pow_r_pos(r, 0); assert(v0 as int / 1 == v0); assert(out@.subrange(out_idx as int, olen as int) =~= digits_fixed(v0, r, 0)); }
//@-
        if limb_count > RADIX_ENCODING_LIMBS_LARGE {
            // Divide by the large divisor and recurse on the encoding of the digits
            let mut remain;
            while limb_count >= RADIX_ENCODING_LIMBS_LARGE
//@+
                invariant self.wf(), r == self.radix as int, limbs@.len() == len, len == old(limbs)@.len(), out@.len() == olen, limb_count <= len, out_idx <= olen, 32 < len, len + 32 <= usize::MAX,
                    out@.subrange(out_idx as int, olen as int) == digits_fixed(v0, r, (olen - out_idx) as nat),
                    out_idx > 0 ==> val(limbs@, limb_count as nat) == v0 as int / pow(r, (olen - out_idx) as nat),
                decreases limb_count
//@-
{
                remain = self.div_large;
//@+
                let ghost l0 = limbs@; let ghost lc0 = limb_count as nat; let ghost o0 = out@; let ghost e = (olen - out_idx) as nat;
                let ghost dlg = self.digits_large as nat;
//@-
                div_rem_vartime_in_place(&mut limbs[..limb_count], &mut remain);
//@+
                let ghost l1 = limbs@; let ghost rem = val(remain@, 32);
                proof {
                    lemma_val_ext(l0.subrange(0, lc0 as int), l0, lc0);
                    lemma_val_ext(l1.subrange(0, lc0 as int), l1, lc0);
                    assert forall|j: int| lc0 - 31 <= j < lc0 implies l1[j].0 == 0 by { assert(l1[j] == l1.subrange(0, lc0 as int)[j]); }
                    lemma_val_hi_zero(l1, (lc0 - 31) as nat, lc0);
                    assert(val(l1, (lc0 - 31) as nat) * pow(r, dlg) + rem == val(l0, lc0));
                    lemma_val_bound(l1, (lc0 - 31) as nat);
                }
//@-
                limb_count = limb_count + 1 - RADIX_ENCODING_LIMBS_LARGE;
                if limbs[limb_count - 1] == Limb::ZERO {
//@+
                    proof { lemma_val_step(l1, (limb_count - 1) as nat); assert(0 * bp((limb_count - 1) as nat) == 0); }
//@-
                    limb_count -= 1;
                }
                let next_idx = out_idx.saturating_sub(self.digits_large);
//@+
                let ghost k = (out_idx - next_idx) as nat;
                let ghost q = val(l1, limb_count as nat);
                proof {
                    lemma_val_bound(l1, limb_count as nat);
                    lemma_pow_r_pos(r, e);
                    if out_idx > 0 { lemma_block_step(v0, r, e, val(l0, lc0), dlg, q, rem, k); }
                    assert(remain@.len() == 32);
                }
//@-
                self.encode_limbs(&mut remain, &mut out[next_idx..out_idx]);
//@+
                proof {
                    let o1 = out@;
                    assert(o1.subrange(next_idx as int, out_idx as int) == digits_fixed(rem as nat, r, k));
                    assert(o1.subrange(out_idx as int, olen as int) =~= o0.subrange(out_idx as int, olen as int));
                    assert(o1.subrange(next_idx as int, olen as int) =~= o1.subrange(next_idx as int, out_idx as int) + o1.subrange(out_idx as int, olen as int));
                    assert((olen - next_idx) as nat == k + e);
                    if out_idx == 0 { assert(o1.subrange(next_idx as int, olen as int) =~= o0.subrange(out_idx as int, olen as int)); }
                    if next_idx > 0 { assert(k == dlg); assert((e + dlg) as nat == (olen - next_idx) as nat); }
                }
//@-
                out_idx = next_idx;
            }
        }
        let lshift = self.reciprocal.shift();
        let rshift = (Limb::BITS - lshift) % Limb::BITS;
        let mut hi = Limb::ZERO;
        let mut digits_word;
        let mut digit;
//@+
        proof { lemma_bp_succ(limb_count as nat); assert(0 * bp(limb_count as nat) == 0); assert(0 * ps == 0); }
//@-
        loop
//@+
            invariant self.wf(), r == self.radix as int, dl == self.digits_limb, d == pow(r, dl), dn == self.reciprocal.divisor_normalized as int,
                ps == p2(self.reciprocal.shift as nat), lshift == self.reciprocal.shift, lshift < 64, rshift == (64 - lshift) % 64, radix == self.radix as u64,
                div_limb.0 as int == d, dn == d * ps, 1 <= ps <= 35, ps < d, d < B(), dn < B(), 2 <= r <= 36, 1 <= dl <= 63,
                limbs@.len() == len, out@.len() == olen, limb_count <= len, out_idx <= olen,
                hi.0 as int * ps + ps <= d,
                out@.subrange(out_idx as int, olen as int) == digits_fixed(v0, r, (olen - out_idx) as nat),
                out_idx > 0 ==> hi.0 as int * bp(limb_count as nat) + val(limbs@, limb_count as nat) == v0 as int / pow(r, (olen - out_idx) as nat),
            ensures out_idx == 0, out@.len() == olen, limbs@.len() == len, out@.subrange(0, olen as int) == digits_fixed(v0, r, olen)
            decreases out_idx
//@-
{
//@+
            let ghost l1 = limbs@; let ghost lc1 = limb_count as nat; let ghost hi1 = hi.0 as int;
            let ghost vc = hi1 * bp(lc1) + val(l1, lc1);
            let ghost o1 = out@; let ghost idx0 = out_idx; let ghost e = (olen - out_idx) as nat;
            proof { lemma_bp_succ(lc1); lemma_val_bound(l1, lc1); assert(hi1 * bp(lc1) >= 0) by (nonlinear_arith) requires hi1 >= 0, bp(lc1) > 0; }
//@-
            digits_word = if limb_count > 0 {
                let mut carry = Limb::ZERO;
                // If required by the reciprocal, left shift the buffer, placing the
                // overflow into `hi`.
                if lshift > 0 {
//@+
                    let ghost mut news: Seq<Limb> = Seq::empty();
                    proof { lemma_bp_succ(0); assert(0 * bp(0) == 0); assert(0 * ps == 0); }
//@-
                    for limb in limbs[..limb_count].iter_mut()
//@+
                        invariant 0 < lshift < 64, rshift == 64 - lshift, ps == p2(lshift as nat), lc1 == limb_count, lc1 <= l1.len(),
                            VERUS_ghost_iter.seq().len() == lc1,
                            forall|k: int| 0 <= k < lc1 ==> *VERUS_ghost_iter.seq()[k] == l1[k],
                            news.len() == VERUS_ghost_iter.index(),
                            forall|k: int| 0 <= k < VERUS_ghost_iter.index() ==> *final(VERUS_ghost_iter.seq()[k]) == news[k],
                            val(news, VERUS_ghost_iter.index() as nat) + carry.0 as int * bp(VERUS_ghost_iter.index() as nat) == val(l1, VERUS_ghost_iter.index() as nat) * ps,
                            (carry.0 as int) < ps,
//@-
{
//@+
                        let ghost i = VERUS_ghost_iter.index() as nat;
                        let ghost cy0 = carry.0; let ghost news0 = news; let ghost x = limb.0;
                        assert(x == l1[i as int].0);
//@-
                        let (__t0, __t1) = ((*limb << lshift) | carry, *limb >> rshift); *limb = __t0; carry = __t1;
//@+
                        proof {
                            news = news.push(*limb);
                            lemma_val_ext(news0, news, i); lemma_val_step(news, i); lemma_val_step(l1, i); lemma_bp_succ(i);
                            lemma_shl_or_step(x, cy0, lshift);
                            let (t0, t1, pb, a) = (limb.0 as int, carry.0 as int, bp(i), val(l1, i));
                            assert(t0 * pb + t1 * (B() * pb) == (x as int * ps + cy0 as int) * pb) by (nonlinear_arith) requires t0 + t1 * B() == x as int * ps + cy0 as int;
                            assert((a + x as int * pb) * ps == a * ps + (x as int * ps) * pb) by (nonlinear_arith);
                            assert((x as int * ps + cy0 as int) * pb == (x as int * ps) * pb + cy0 as int * pb) by (nonlinear_arith);
                        }
//@-
                    }
//@+
                    let ghost t = carry.0;
                    proof {
                        assert(limbs@.subrange(0, lc1 as int) =~= news);
                        lemma_val_ext(limbs@, news, lc1);
                        lemma_hi_shl_or(hi.0, t, lshift, d);
                    }
//@-
                    carry |= hi << lshift;
                } else {
//@+
                    proof { lemma2_to64(); assert(hi1 * 1 == hi1); }
//@-
                    carry = hi;
                }
//@+
                let ghost l2 = limbs@; let ghost c0 = carry.0 as int;
                let ghost total = vc * ps;
                let ghost mut qv: Seq<Limb> = l2;
                proof {
                    assert(c0 * bp(lc1) + val(l2, lc1) == total) by (nonlinear_arith)
                        requires vc == hi1 * bp(lc1) + val(l1, lc1), lshift > 0 ==> c0 == hi1 * ps + (c0 - hi1 * ps) && val(l2, lc1) + (c0 - hi1 * ps) * bp(lc1) == val(l1, lc1) * ps,
                            lshift == 0 ==> c0 == hi1 && ps == 1 && val(l2, lc1) == val(l1, lc1), total == vc * ps;
                    assert(c0 < dn);
                    lemma_tv_empty_mul2(qv, lc1, dn);
                }
//@-
                // Divide in place by `radix ** digits_per_limb`
                for limb in limbs[..limb_count].iter_mut().rev()
//@+
                    invariant self.wf(), dn == self.reciprocal.divisor_normalized as int, lc1 == limb_count, lc1 <= l2.len(), qv.len() == l2.len(),
                        VERUS_ghost_iter.seq().len() == lc1,
                        forall|k: int| 0 <= k < lc1 ==> *VERUS_ghost_iter.seq()[k] == l2[lc1 - 1 - k],
                        forall|k: int| lc1 - VERUS_ghost_iter.index() <= k < lc1 ==> *final(VERUS_ghost_iter.seq().reverse()[k]) == #[trigger] qv[k],
                        forall|k: int| 0 <= k < lc1 - VERUS_ghost_iter.index() ==> qv[k] == l2[k],
                        forall|k: int| lc1 <= k < l2.len() ==> qv[k] == l2[k],
                        (carry.0 as int) < dn,
                        tv(qv, (lc1 - VERUS_ghost_iter.index()) as nat, lc1) * dn + carry.0 as int * bp((lc1 - VERUS_ghost_iter.index()) as nat) + val(l2, (lc1 - VERUS_ghost_iter.index()) as nat) == total,
//@-
{
//@+
                    let ghost j = (lc1 - 1 - VERUS_ghost_iter.index()) as nat;
                    let ghost cy0 = carry.0 as int; let ghost qv0 = qv;
                    assert(limb.0 == l2[j as int].0);
//@-
                    let (__t2, __t3) = div2by1(carry.0, limb.0, &self.reciprocal); limb.0 = __t2; carry.0 = __t3;
//@+
                    proof {
                        qv = qv.update(j as int, *limb);
                        lemma_divlimb_step2(qv0, qv, l2, j, lc1, dn, cy0, __t2 as int, __t3 as int, total);
                    }
//@-
                }
                // (`limb << lshift < div_limb` would drop the high bits of the limb and accept a limb that is too large)
//@+
                let ghost qq = val(qv, lc1);
                proof {
                    assert(limbs@.subrange(0, lc1 as int) =~= qv.subrange(0, lc1 as int));
                    assert(limbs@ =~= qv);
                    lemma_bp_succ(0);
                    assert(carry.0 as int * bp(0) == carry.0 as int) by (nonlinear_arith) requires bp(0) == 1;
                    assert(qq * (d * ps) + carry.0 as int == vc * ps);
                    lemma_divlimb_final2(qq, carry.0 as int, vc, d, ps);
                    lemma_u64_shr_div(carry.0, lshift);
                    lemma_u64_shr_div(div_limb.0, lshift);
                    lemma_val_step(qv, (lc1 - 1) as nat);
                    lemma_fundamental_div_mod(d, ps); lemma_mod_bound(d, ps);
                    let top = qv[lc1 - 1].0 as int;
                    if top < d / ps { assert(top * ps + ps <= d) by (nonlinear_arith) requires top + 1 <= d / ps, d == ps * (d / ps) + d % ps, d % ps >= 0, ps >= 1; }
                    assert(0 * bp(lc1) == 0); assert(0 * ps == 0);
                }
//@-
                if limbs[limb_count - 1] < div_limb >> lshift {
                    hi = limbs[limb_count - 1];
                    limb_count -= 1;
//@+
                    assert(hi.0 as int * bp(limb_count as nat) + val(limbs@, limb_count as nat) == qq);
//@-
                } else {
//@+
                    assert(0 * bp(limb_count as nat) + val(limbs@, limb_count as nat) == qq);
//@-
                    hi = Limb::ZERO
                }
//@+
                assert(hi.0 as int * bp(limb_count as nat) + val(limbs@, limb_count as nat) == qq);
                assert(qq * d + carry.0 as int / ps == vc);
                assert((carry.0 >> lshift) as int == carry.0 as int / ps);
                assert(0 <= carry.0 as int / ps < d);
                proof { lemma_val_bound(qv, lc1); }
//@-
                // The remainder represents a digit in base `radix ** digits_per_limb`
                carry.0 >> lshift
            } else {
                // Use up the remainder in `hi`, and on any further loops continue with `0` if necessary
//@+
                proof { lemma_bp_succ(0); assert(hi1 * bp(0) == hi1) by (nonlinear_arith) requires bp(0) == 1; assert(0 * bp(0) == 0); assert(0 * d == 0); assert(0 * ps == 0);
                    assert(hi1 < d) by (nonlinear_arith) requires hi1 * ps + ps <= d, ps >= 1, hi1 >= 0; }
//@-
                let res = hi.0;
                hi = Limb::ZERO;
                res
            };
//@+
            let ghost dw0 = digits_word as int;
            let ghost vn = hi.0 as int * bp(limb_count as nat) + val(limbs@, limb_count as nat);
            assert(0 <= dw0 < d);
            assert(vn >= 0);
            assert(vc == vn * d + dw0);
            let ghost tail0 = out@.subrange(idx0 as int, olen as int);
            proof { lemma_pow_r_pos(r, 0); assert(dw0 / 1 == dw0); assert(out@.subrange(out_idx as int, idx0 as int) =~= digits_fixed(dw0 as nat, r, 0)); }
//@-
            // Output the individual digits
            for _ in 0..self.digits_limb.min(out_idx)
//@+
                invariant 2 <= r <= 36, radix as int == r, out@.len() == olen, idx0 <= olen, dw0 >= 0,
                    VERUS_ghost_iter.index@ <= idx0, out_idx == idx0 - VERUS_ghost_iter.index@, VERUS_ghost_iter.seq().len() <= idx0,
                    pow(r, VERUS_ghost_iter.index@ as nat) >= 1,
                    digits_word as int == dw0 / pow(r, VERUS_ghost_iter.index@ as nat),
                    out@.subrange(out_idx as int, idx0 as int) == digits_fixed(dw0 as nat, r, VERUS_ghost_iter.index@ as nat),
                    out@.subrange(idx0 as int, olen as int) == tail0,
//@-
{
//@+
                let ghost i = VERUS_ghost_iter.index@ as nat; let ghost ob = out@; let ghost dwi = digits_word;
                proof { lemma_digits_fixed_prepend(dw0 as nat, r, i); lemma_pow_r_pos(r, i + 1); }
//@-
                out_idx -= 1;
                let (__t4, __t5) = (digits_word / radix, (digits_word % radix) as u8); digits_word = __t4; digit = __t5;
                out[out_idx] = if digit < 10 {
                    b'0' + digit
                } else {
                    b'a' + (digit - 10)
                };
//@+
                proof {
                    assert(digit as int == dwi as int % r);
                    assert(out@[out_idx as int] == digit_char(digit as int));
                    assert(out@.subrange(out_idx as int, idx0 as int) =~= seq![digit_char(digit as int)] + ob.subrange(out_idx + 1, idx0 as int));
                    assert(out@.subrange(idx0 as int, olen as int) =~= ob.subrange(idx0 as int, olen as int));
                }
//@-
            }
//@+
            proof {
                let k = (idx0 - out_idx) as nat;
                lemma_pow_r_pos(r, e);
                if idx0 > 0 {
                    lemma_block_step(v0, r, e, vc, dl, vn, dw0, k);
                    assert(out@.subrange(out_idx as int, olen as int) =~= out@.subrange(out_idx as int, idx0 as int) + tail0);
                    assert((olen - out_idx) as nat == k + e);
                    if out_idx > 0 { assert(k == dl); assert((e + dl) as nat == (olen - out_idx) as nat); }
                } else {
                    assert(out@.subrange(out_idx as int, olen as int) =~= tail0);
                }
            }
//@-
            // Finished when the buffer is full
            if out_idx == 0 {
                break;
            }
        }
//@+
        assert(out@ =~= out@.subrange(0, olen as int));
//@-
    }
}
//@@ end
// ---------------------------------------------------------------- power-of-two radix: encoding by shifting
/// log2 of the power-of-two radixes
pub open spec fn radix_log2(r: int) -> int { if r == 2 { 1 } else if r == 4 { 2 } else if r == 8 { 3 } else if r == 16 { 4 } else { 5 } }

/// r = 2^bits: r^e = 2^(bits e)
proof fn lemma_pow_r_p2(r: int, bits: nat, e: nat)
    requires r == p2(bits)
    ensures pow(r, e) == p2(bits * e)
{ lemma_pow2(bits); lemma_pow_multiplies(2, bits, e); lemma_pow2(bits * e); }

/// limb k of a value: (val / B^k) mod B
proof fn lemma_val_limb(s: Seq<Limb>, k: nat, n: nat)
    requires k <= n
    ensures (val(s, n) / bp(k)) % B() == (if k < n { s[k as int].0 as int } else { 0 })
{
    let v = val(s, n);
    lemma_bp_succ(k); lemma_val_bound(s, n);
    if k < n {
        lemma_val_mod(s, k, n); lemma_val_mod(s, k + 1, n); lemma_val_step(s, k);
        lemma_breakdown(v, bp(k), B());
        let a = (v / bp(k)) % B(); let x = s[k as int].0 as int; let p = bp(k);
        assert(p * B() == bp(k + 1)) by (nonlinear_arith) requires bp(k + 1) == B() * p;
        assert(a == x) by (nonlinear_arith) requires p * a == x * p, p > 0;
    } else {
        lemma_basic_div(v, bp(k));
        lemma_small_mod(0, B() as nat);
    }
}

/// consuming one limb x = limb k of v0: the pending digits dg = (v0 / 2^be) mod 2^db grow to (v0 / 2^be) mod 2^(db + 64)
proof fn lemma_shift_item(v0: int, be: nat, db: nat, k: nat, x: int, dg: int)
    requires v0 >= 0, be + db == 64 * k, dg == (v0 / p2(be)) % p2(db), x == (v0 / bp(k)) % B()
    ensures dg + x * p2(db) == (v0 / p2(be)) % p2(db + 64), 0 <= dg < p2(db)
{
    lemma_pow2_pos(be); lemma_pow2_pos(db); lemma_pow2_64();
    let y = v0 / p2(be);
    lemma_div_pos_is_pos(v0, p2(be));
    lemma_breakdown(y, p2(db), B());
    lemma_pow2_adds(db, 64);
    lemma_div_denominator(v0, p2(be), p2(db));
    lemma_pow2_adds(be, db);
    lemma_bp_pow2(k);
    lemma_mod_bound(y, p2(db));
    assert(p2(db) * x == x * p2(db)) by (nonlinear_arith);
}

/// emitting one digit (bits bits): dg mod 2^bits is the next digit, dg / 2^bits the pending digits of v0 / 2^(be + bits)
proof fn lemma_shift_emit(v0: int, be: nat, db: nat, bits: nat, dg: int)
    requires v0 >= 0, 1 <= bits <= db, dg == (v0 / p2(be)) % p2(db)
    ensures dg % p2(bits) == (v0 / p2(be)) % p2(bits), dg / p2(bits) == (v0 / p2(be + bits)) % p2((db - bits) as nat), dg >= 0,
        (v0 / p2(be)) / p2(bits) == v0 / p2(be + bits)
{
    let d2 = (db - bits) as nat;
    lemma_pow2_pos(be); lemma_pow2_pos(bits); lemma_pow2_pos(d2);
    let y = v0 / p2(be); let a = p2(bits); let b = p2(d2);
    lemma_div_pos_is_pos(v0, p2(be));
    lemma_pow2_adds(bits, d2);
    lemma_mod_mod(y, a, b);
    lemma_breakdown(y, a, b);
    lemma_mod_bound(y / a, b); lemma_mod_bound(y, a);
    lemma_fundamental_div_mod_converse(dg, a, (y / a) % b, y % a);
    lemma_div_denominator(v0, p2(be), a);
    lemma_pow2_adds(be, bits);
}

/// `digits | ((x as u128) << s)` with digits < 2^s is digits + x 2^s
proof fn lemma_or_shl_u128(dg: u128, x: u64, s: u32)
    requires s < 64, (dg as int) < p2(s as nat)
    ensures ((dg | ((x as u128) << s)) as int) == dg as int + x as int * p2(s as nat)
{
    lemma_one_shl(s as u64); lemma2_to64();
    let m = 1u64 << (s as u64);
    let w = (x as u128) << s;
    if s == 0 {
        assert((0u128 | ((x as u128) << 0u32)) == x as u128) by (bit_vector);
        assert(x as int * 1 == x as int);
    } else {
        lemma_limb_shl_split(x, s);
        let lo = x << s; let hi = x >> ((64 - s) as u32);
        assert(w as int == lo as int + hi as int * 0x1_0000_0000_0000_0000) by (bit_vector)
            requires 0 < s < 64, w == (x as u128) << s, lo == x << s, hi == x >> ((64 - s) as u32);
        assert((dg | w) as int == dg as int + w as int) by (bit_vector)
            requires dg < (m as u128), w == (x as u128) << s, m == 1u64 << (s as u64), 0 < s < 64;
    }
}

/// the digit mask and the digit shift of the power-of-two radixes
proof fn lemma_mask_digit(dg: u128, radix: u32, mask: u8, tz: u32)
    requires (radix == 2 && tz == 1) || (radix == 4 && tz == 2) || (radix == 8 && tz == 3) || (radix == 16 && tz == 4) || (radix == 32 && tz == 5),
        mask == (radix - 1) as u8
    ensures (((dg as u8) & mask) as int) == (dg as int) % (radix as int), ((dg >> tz) as int) == (dg as int) / (radix as int)
{
    if radix == 2 { assert((((dg as u8) & 1u8) as int) == (dg as int) % 2 && ((dg >> 1u32) as int) == (dg as int) / 2) by (bit_vector); }
    else if radix == 4 { assert((((dg as u8) & 3u8) as int) == (dg as int) % 4 && ((dg >> 2u32) as int) == (dg as int) / 4) by (bit_vector); }
    else if radix == 8 { assert((((dg as u8) & 7u8) as int) == (dg as int) % 8 && ((dg >> 3u32) as int) == (dg as int) / 8) by (bit_vector); }
    else if radix == 16 { assert((((dg as u8) & 15u8) as int) == (dg as int) % 16 && ((dg >> 4u32) as int) == (dg as int) / 16) by (bit_vector); }
    else { assert((((dg as u8) & 31u8) as int) == (dg as int) % 32 && ((dg >> 5u32) as int) == (dg as int) / 32) by (bit_vector); }
}

/// one emitted digit: buffer tail, pending digits and bit counts after the step
proof fn lemma_shift_digit_step(v0: int, r: int, bits: nat, e: nat, be: int, db: nat, dg: int)
    requires v0 >= 0, 2 <= r <= 36, r == p2(bits), 1 <= bits <= db, be == bits * e, dg == (v0 / p2(be as nat)) % p2(db)
    ensures be + bits == bits * (e + 1),
        digits_fixed(v0 as nat, r, e + 1) =~= seq![digit_char(dg % r)] + digits_fixed(v0 as nat, r, e), 0 <= dg % r < r,
        dg / r == (v0 / p2((be + bits) as nat)) % p2((db - bits) as nat)
{
    assert(be + bits == bits * (e + 1)) by (nonlinear_arith) requires be == bits * e;
    lemma_shift_emit(v0, be as nat, db, bits, dg);
    lemma_pow_r_p2(r, bits, e);
    lemma_digits_fixed_prepend(v0 as nat, r, e);
}

/// all limbs consumed and the buffer not yet full: the remaining high-order digits are zeros
proof fn lemma_shift_tail(s: Seq<Limb>, len: nat, r: int, bits: nat, e: nat, be: int, db: nat, z: nat)
    requires 2 <= r <= 36, r == p2(bits), 1 <= bits <= 5, be == bits * e, db < bits, db + be == 64 * (len + 1)
    ensures digits_fixed(val(s, len) as nat, r, z + e) =~= digits_fixed(0, r, z) + digits_fixed(val(s, len) as nat, r, e)
{
    let v0 = val(s, len);
    lemma_val_bound(s, len); lemma_bp_pow2(len);
    lemma_pow_r_p2(r, bits, e);
    lemma_digits_fixed_split(v0 as nat, r, z, e);
    lemma_pow2_strictly_increases(64 * len, be as nat);
    lemma_basic_div(v0, p2(be as nat));
}
//@@ fn src/uint/encoding.rs | - | radix_encode_limbs_by_shifting | body | props C17 C11
pub fn radix_encode_limbs_by_shifting(radix: u32, limbs: &mut [Limb], out: &mut [u8])
//@+
    requires radix == 2 || radix == 4 || radix == 8 || radix == 16 || radix == 32, old(out)@.len() >= 1,
        64 * (old(limbs)@.len() + 1) <= radix_log2(radix as int) * old(out)@.len() + u32::MAX,   // `digits_bits` (u32) keeps growing once `out` is full
    ensures final(out)@ == digits_fixed(val(old(limbs)@, old(limbs)@.len()) as nat, radix as int, old(out)@.len()),
        final(limbs)@.len() == old(limbs)@.len()
//@-
{
//@+
    let ghost len = limbs@.len(); let ghost olen = out@.len(); let ghost l0 = limbs@; let ghost v0 = val(l0, len); let ghost r = radix as int;
    proof { lemma_radix_bits(radix); lemma_val_bound(l0, len); lemma2_to64(); }
//@-
    debug_assert!(radix.is_power_of_two());
    debug_assert!(!out.is_empty());
    let radix_bits = radix.trailing_zeros();
    let mask = (radix - 1) as u8;
    let mut out_idx = out.len();
    let mut digits: WideWord = 0;
    let mut digits_bits = 0;
    let mut digit;
//@+
    let ghost bits = radix_bits as nat;
    let ghost mut be: int = 0;
    proof {
        assert(bits as int == radix_log2(r));
        assert(out@.subrange(out_idx as int, olen as int) =~= digits_fixed(v0 as nat, r, 0));
        assert(bits * 0 == 0);
        assert((v0 / 1) % 1 == 0);
    }
//@-
    {
for limb in limbs.iter()
//@+
        invariant 2 <= r <= 36, r == radix as int, r == p2(bits), 1 <= bits <= 5, bits == radix_bits, radix_bits as int == radix_log2(r), mask == (radix - 1) as u8,
            radix == 2 || radix == 4 || radix == 8 || radix == 16 || radix == 32,
            l0.len() == len, out@.len() == olen, v0 == val(l0, len), v0 >= 0, 64 * (len + 1) <= bits * olen + u32::MAX,
            VERUS_ghost_iter.seq().len() == len, forall|k: int| 0 <= k < len ==> *VERUS_ghost_iter.seq()[k] == l0[k],
            out_idx <= olen, be == bits * (olen - out_idx), be >= 0,
            digits_bits as int + be == 64 * VERUS_ghost_iter.index(),
            out@.subrange(out_idx as int, olen as int) == digits_fixed(v0 as nat, r, (olen - out_idx) as nat),
            out_idx > 0 ==> digits_bits < bits && digits as int == (v0 / p2(be as nat)) % p2(digits_bits as nat),
//@-
{
//@+
        let ghost k = VERUS_ghost_iter.index() as nat;
        let ghost db0 = digits_bits as nat; let ghost dg0 = digits; let ghost x = limb.0;
        proof {
            assert(x == l0[k as int].0);
            if out_idx > 0 { lemma_val_limb(l0, k, len); lemma_shift_item(v0, be as nat, db0, k, x as int, dg0 as int); lemma_or_shl_u128(dg0, x, db0 as u32); }
        }
//@-
        digits_bits += Limb::BITS;
        digits |= (limb.0 as WideWord) << (digits_bits % Limb::BITS);
//@+
        let ghost idx0 = out_idx; let ghost db1 = digits_bits as nat;
        proof { lemma_fundamental_div_mod(db1 as int, bits as int); lemma_mod_bound(db1 as int, bits as int);
            assert((db1 as int / bits as int) * bits <= db1) by (nonlinear_arith) requires db1 as int == bits as int * (db1 as int / bits as int) + db1 as int % bits as int, db1 as int % bits as int >= 0;
            let kk = if db1 as int / bits as int <= idx0 { db1 as int / bits as int } else { idx0 as int };
            assert(kk * bits <= db1) by (nonlinear_arith) requires 0 <= kk <= db1 as int / bits as int, (db1 as int / bits as int) * bits <= db1, bits >= 1;
            assert(bits * 0 == 0); }
//@-
        for _ in 0..((digits_bits / radix_bits) as usize).min(out_idx)
//@+
            invariant 2 <= r <= 36, r == radix as int, r == p2(bits), 1 <= bits <= 5, bits == radix_bits, mask == (radix - 1) as u8,
                radix == 2 || radix == 4 || radix == 8 || radix == 16 || radix == 32, radix_bits as int == radix_log2(r),
                out@.len() == olen, v0 >= 0, idx0 <= olen,
                VERUS_ghost_iter.seq().len() <= idx0, VERUS_ghost_iter.seq().len() * bits <= db1,
                VERUS_ghost_iter.seq().len() == idx0 || VERUS_ghost_iter.seq().len() as int == db1 as int / bits as int,
                VERUS_ghost_iter.index@ <= VERUS_ghost_iter.seq().len(), out_idx == idx0 - VERUS_ghost_iter.index@,
                be == bits * (olen - out_idx), be >= 0,
                digits_bits as int == db1 - bits * VERUS_ghost_iter.index@,
                digits_bits as int + be == 64 * (k + 1),
                out@.subrange(out_idx as int, olen as int) == digits_fixed(v0 as nat, r, (olen - out_idx) as nat),
                idx0 > 0 ==> digits as int == (v0 / p2(be as nat)) % p2(digits_bits as nat),
//@-
{
//@+
            let ghost i = VERUS_ghost_iter.index@; let ghost e = (olen - out_idx) as nat; let ghost ob = out@; let ghost dg = digits; let ghost db = digits_bits as nat;
            proof {
                assert((i + 1) * bits <= VERUS_ghost_iter.seq().len() * bits) by (nonlinear_arith) requires i + 1 <= VERUS_ghost_iter.seq().len(), bits >= 1;
                assert((i + 1) * bits == bits * i + bits) by (nonlinear_arith);
                lemma_shift_digit_step(v0, r, bits, e, be, db, dg as int);
                lemma_mask_digit(dg, radix, mask, radix_bits);
            }
//@-
            out_idx -= 1;
            let (__t0, __t1) = ((digits as u8) & mask, digits >> radix_bits); digit = __t0; digits = __t1;
            out[out_idx] = if digit < 10 {
                b'0' + digit
            } else {
                b'a' + (digit - 10)
            };
            digits_bits -= radix_bits;
//@+
            proof {
                be = be + bits;
                assert(out@[out_idx as int] == digit_char(digit as int));
                assert(out@.subrange(out_idx as int, olen as int) =~= seq![digit_char(digit as int)] + ob.subrange(out_idx + 1, olen as int));
                assert(bits * (i + 1) == bits * i + bits) by (nonlinear_arith);
            }
//@-
        }
//@+
        proof { if out_idx > 0 { lemma_fundamental_div_mod(db1 as int, bits as int); lemma_mod_bound(db1 as int, bits as int); assert(bits * (db1 as int / bits as int) == bits as int * (db1 as int / bits as int)); } }
//@-
    }
;
{
let limb = &Limb::ZERO;
//@+
        let ghost k = len;
        let ghost db0 = digits_bits as nat; let ghost dg0 = digits; let ghost x = limb.0;
        proof {
            if out_idx > 0 { lemma_val_limb(l0, k, len); lemma_shift_item(v0, be as nat, db0, k, x as int, dg0 as int); lemma_or_shl_u128(dg0, x, db0 as u32); }
        }
//@-
        digits_bits += Limb::BITS;
        digits |= (limb.0 as WideWord) << (digits_bits % Limb::BITS);
//@+
        let ghost idx0 = out_idx; let ghost db1 = digits_bits as nat;
        proof { lemma_fundamental_div_mod(db1 as int, bits as int); lemma_mod_bound(db1 as int, bits as int);
            assert((db1 as int / bits as int) * bits <= db1) by (nonlinear_arith) requires db1 as int == bits as int * (db1 as int / bits as int) + db1 as int % bits as int, db1 as int % bits as int >= 0;
            let kk = if db1 as int / bits as int <= idx0 { db1 as int / bits as int } else { idx0 as int };
            assert(kk * bits <= db1) by (nonlinear_arith) requires 0 <= kk <= db1 as int / bits as int, (db1 as int / bits as int) * bits <= db1, bits >= 1;
            assert(bits * 0 == 0); }
//@-
        for _ in 0..((digits_bits / radix_bits) as usize).min(out_idx)
//@+
            invariant 2 <= r <= 36, r == radix as int, r == p2(bits), 1 <= bits <= 5, bits == radix_bits, mask == (radix - 1) as u8,
                radix == 2 || radix == 4 || radix == 8 || radix == 16 || radix == 32, radix_bits as int == radix_log2(r),
                out@.len() == olen, v0 >= 0, idx0 <= olen,
                VERUS_ghost_iter.seq().len() <= idx0, VERUS_ghost_iter.seq().len() * bits <= db1,
                VERUS_ghost_iter.seq().len() == idx0 || VERUS_ghost_iter.seq().len() as int == db1 as int / bits as int,
                VERUS_ghost_iter.index@ <= VERUS_ghost_iter.seq().len(), out_idx == idx0 - VERUS_ghost_iter.index@,
                be == bits * (olen - out_idx), be >= 0,
                digits_bits as int == db1 - bits * VERUS_ghost_iter.index@,
                digits_bits as int + be == 64 * (k + 1),
                out@.subrange(out_idx as int, olen as int) == digits_fixed(v0 as nat, r, (olen - out_idx) as nat),
                idx0 > 0 ==> digits as int == (v0 / p2(be as nat)) % p2(digits_bits as nat),
//@-
{
//@+
            let ghost i = VERUS_ghost_iter.index@; let ghost e = (olen - out_idx) as nat; let ghost ob = out@; let ghost dg = digits; let ghost db = digits_bits as nat;
            proof {
                assert((i + 1) * bits <= VERUS_ghost_iter.seq().len() * bits) by (nonlinear_arith) requires i + 1 <= VERUS_ghost_iter.seq().len(), bits >= 1;
                assert((i + 1) * bits == bits * i + bits) by (nonlinear_arith);
                lemma_shift_digit_step(v0, r, bits, e, be, db, dg as int);
                lemma_mask_digit(dg, radix, mask, radix_bits);
            }
//@-
            out_idx -= 1;
            let (__t2, __t3) = ((digits as u8) & mask, digits >> radix_bits); digit = __t2; digits = __t3;
            out[out_idx] = if digit < 10 {
                b'0' + digit
            } else {
                b'a' + (digit - 10)
            };
            digits_bits -= radix_bits;
//@+
            proof {
                be = be + bits;
                assert(out@[out_idx as int] == digit_char(digit as int));
                assert(out@.subrange(out_idx as int, olen as int) =~= seq![digit_char(digit as int)] + ob.subrange(out_idx + 1, olen as int));
                assert(bits * (i + 1) == bits * i + bits) by (nonlinear_arith);
            }
//@-
        }
//@+
        proof { if out_idx > 0 { lemma_fundamental_div_mod(db1 as int, bits as int); lemma_mod_bound(db1 as int, bits as int); assert(bits * (db1 as int / bits as int) == bits as int * (db1 as int / bits as int)); } }
//@-
    }
}
//@+
    let ghost o1 = out@; let ghost e = (olen - out_idx) as nat;
    proof {
        if out_idx > 0 { lemma_shift_tail(l0, len, r, bits, e, be, digits_bits as nat, out_idx as nat); }
        lemma_digits_fixed_zero(r, out_idx as nat);
    }
//@-
    out[0..out_idx].fill(b'0');
//@+
    assert(out@ =~= digits_fixed(0, r, out_idx as nat) + o1.subrange(out_idx as int, olen as int));
    assert((out_idx + e) as nat == olen);
    assert(out_idx == 0 ==> digits_fixed(0, r, out_idx as nat) + o1.subrange(out_idx as int, olen as int) =~= digits_fixed(v0 as nat, r, olen));
//@-
}
//@@ end
// ---- library functions without a vstd specification (assumed)
/// `u32::is_power_of_two`: exactly one bit set
pub assume_specification [u32::is_power_of_two] (x: u32) -> (r: bool)
    ensures r == (x != 0 && x & ((x - 1) as u32) == 0);
#[verifier::external_type_specification]
#[verifier::external_body]
pub struct ExFromUtf8Error(std::string::FromUtf8Error);
/// `String::from_utf8` on ASCII bytes succeeds and yields the same characters
pub assume_specification [String::from_utf8] (v: Vec<u8>) -> (r: Result<String, std::string::FromUtf8Error>)
    ensures (forall|k: int| 0 <= k < v@.len() ==> v@[k] < 128) ==> r is Ok && r->Ok_0@ == ascii_chars(v@);
// `&mut out[..]` on a Vec: see vec_prefix_mut below (Vec range IndexMut is unspecified in vstd); routed through this shim by subst.
#[verifier::external_body]
pub fn vec_all_mut(v: &mut Vec<u8>) -> (r: &mut [u8])
    ensures r@ == old(v)@, final(v)@ == final(r)@
{ &mut v[..] }

pub proof fn lemma_pow_base_mono(a: int, b: int, n: nat)
    requires 0 <= b <= a
    ensures 0 <= pow(b, n) <= pow(a, n)
    decreases n
{
    reveal(pow);
    if n > 0 {
        lemma_pow_base_mono(a, b, (n - 1) as nat);
        let (x, y) = (pow(a, (n - 1) as nat), pow(b, (n - 1) as nat));
        assert(0 <= b * y <= a * x) by (nonlinear_arith) requires 0 <= b <= a, 0 <= y <= x;
    }
}

/// the buffer of a power-of-two radix 2^bits is large enough: (2^bits)^ceil(64 len / bits) >= B^len
pub proof fn lemma_size_pow2(r: int, bits: nat, len: nat, size: nat)
    requires 1 <= bits <= 5, r == pow2(bits), size as int == (64 * len + bits - 1) / (bits as int)
    ensures pow(r, size) >= bp(len), len >= 1 ==> size >= 1, bits * size >= 64 * len
{
    lemma_pow2(bits); lemma_pow_multiplies(2, bits, size);
    lemma_fundamental_div_mod(64 * len + bits - 1, bits as int);
    assert(bits * size >= 64 * len) by (nonlinear_arith)
        requires 64 * len + bits - 1 == (bits as int) * (size as int) + (64 * len + bits - 1) % (bits as int), 0 <= (64 * len + bits - 1) % (bits as int) < bits;
    lemma_bp_pow2(len); lemma_pow2(64 * len);
    if bits * size > 64 * len { lemma_pow_increases(2, 64 * len, bits * size); }
    if len >= 1 && size == 0 { assert(bits * size == 0) by (nonlinear_arith) requires size == 0; }
}

/// the buffer of any other radix is large enough: r^(len (dl + 1)) >= B^len when r^(dl + 1) > B - 1
pub proof fn lemma_size_div(r: int, dl: nat, len: nat)
    requires r >= 2, pow(r, dl + 1) > u64::MAX
    ensures pow(r, len * (dl + 1)) >= bp(len)
{
    lemma_pow_multiplies(r, dl + 1, len);
    lemma_pow_base_mono(pow(r, dl + 1), B(), len);
    assert((dl + 1) * len == len * (dl + 1)) by (nonlinear_arith);
}

pub proof fn lemma_digits_fixed_zero(r: int, n: nat)
    requires r >= 2
    ensures digits_fixed(0, r, n).len() == n, forall|k: int| 0 <= k < n ==> digits_fixed(0, r, n)[k] == 0x30
    decreases n
{
    if n > 0 {
        lemma_digits_fixed_zero(r, (n - 1) as nat);
        let rn = r as nat;
        assert(0nat / rn == 0 && 0nat % rn == 0) by (nonlinear_arith) requires rn >= 2;
    }
}

pub proof fn lemma_digits_fixed_ascii(v: nat, r: int, n: nat)
    requires 2 <= r <= 36
    ensures digits_fixed(v, r, n).len() == n, forall|k: int| 0 <= k < n ==> digits_fixed(v, r, n)[k] < 128
    decreases n
{
    if n > 0 {
        let rn = r as nat;
        lemma_digits_fixed_ascii((v / rn) as nat, r, (n - 1) as nat);
        assert(0 <= v % rn < rn) by (nonlinear_arith) requires rn >= 2;
    }
}

/// for v < r^n the fixed-width digits are the canonical digits of v, left-padded with '0'
pub proof fn lemma_digits_fixed_canon(v: nat, r: int, n: nat)
    requires 2 <= r <= 36, v < pow(r, n)
    ensures ({ let d = digits_fixed(v, r, n); let c = canon_digits(v, r);
        c.len() <= n && d.len() == n && (forall|j: int| 0 <= j < n - c.len() ==> d[j] == 0x30) && d.subrange(n - c.len(), n as int) =~= c })
    decreases n
{
    reveal(pow);
    let rn = r as nat;
    if n == 0 { assert(v == 0); }
    else if v == 0 { lemma_digits_fixed_zero(r, n); }
    else {
        let q = (v / rn) as nat; let m = (v % rn) as int;
        lemma_fundamental_div_mod(v as int, r);
        let pn = pow(r, (n - 1) as nat);
        assert(q < pn) by (nonlinear_arith) requires v < r * pn, v == r * q + m, 0 <= m, r >= 2;
        lemma_digits_fixed_canon(q, r, (n - 1) as nat);
        let d0 = digits_fixed(q, r, (n - 1) as nat); let c0 = canon_digits(q, r);
        let d = digits_fixed(v, r, n); let c = canon_digits(v, r);
        assert(d == d0.push(digit_char(m))); assert(c == c0.push(digit_char(m)));
        assert forall|j: int| 0 <= j < n - c.len() implies d[j] == 0x30 by { assert(d[j] == d0[j]); }
        assert(d.subrange(n - c.len(), n as int) =~= c) by {
            assert forall|j: int| 0 <= j < c.len() implies d.subrange(n - c.len(), n as int)[j] == c[j] by {
                if j < c0.len() { assert(d0.subrange(n - 1 - c0.len(), n - 1)[j] == c0[j]); }
            }
        }
    }
}

/// dropping the leading '0's (but not the last character) of the fixed-width digits gives the canonical numeral
pub proof fn lemma_strip_zeros(v: nat, r: int, n: nat, skip: int)
    requires 2 <= r <= 36, n >= 1, v < pow(r, n), 0 <= skip < n,
        forall|k: int| 0 <= k < skip ==> digits_fixed(v, r, n)[k] == 0x30,
        skip + 1 == n || digits_fixed(v, r, n)[skip] != 0x30
    ensures digits_fixed(v, r, n).subrange(skip, n as int) =~= canon_numeral(v, r)
{
    let d = digits_fixed(v, r, n); let c = canon_digits(v, r);
    lemma_digits_fixed_canon(v, r, n);
    if v > 0 {
        lemma_canon_digits(v, r);
        let z = n - c.len();
        assert(d.subrange(z, n as int)[0] == c[0]);
        assert(d[z] != 0x30);
        assert(skip == z);
    } else {
        lemma_digits_fixed_zero(r, n);
        assert(skip == n - 1);
    }
}

pub proof fn lemma_radix_bits(radix: u32)
    requires 2 <= radix <= 36
    ensures (radix != 0 && radix & ((radix - 1) as u32) == 0) == is_pow2_radix(radix as int),
        is_pow2_radix(radix as int) ==> 1 <= u32_trailing_zeros(radix) <= 5 && radix as int == pow2(u32_trailing_zeros(radix) as nat)
{
    let m = (radix - 1) as u32;
    assert(2 <= radix && radix <= 36 && m == radix - 1 ==> ((radix & m == 0) == (radix == 2 || radix == 4 || radix == 8 || radix == 16 || radix == 32))) by (bit_vector);
    if is_pow2_radix(radix as int) {
        axiom_u32_trailing_zeros(radix);
        let t = u32_trailing_zeros(radix);
        assert(t < 32 && (radix >> t) & 1u32 == 1u32 ==> (radix == 2 ==> t == 1) && (radix == 4 ==> t == 2) && (radix == 8 ==> t == 3) && (radix == 16 ==> t == 4) && (radix == 32 ==> t == 5)) by (bit_vector);
        lemma2_to64();
    }
}

//@@ subst &mut out\[\.\.\] => vec_all_mut(&mut out)
//@@ fn src/uint/encoding.rs | - | radix_encode_limbs_mut_to_string | body | props C17 C11
pub fn radix_encode_limbs_mut_to_string(radix: u32, limbs: &mut [Limb]) -> (ret__: String)
//@+
    requires 2 <= radix <= 36, 1 <= old(limbs)@.len() <= usize::MAX / 64
    ensures ret__@ == ascii_chars(canon_numeral(val(old(limbs)@, old(limbs)@.len()) as nat, radix as int))
//@-
{
//@+
    let ghost r = radix as int; let ghost len = limbs@.len(); let ghost v = val(limbs@, len) as nat;
    proof { lemma_radix_bits(radix); lemma_val_bound(limbs@, len); }
//@-
    if !(RADIX_ENCODING_MIN..=RADIX_ENCODING_MAX).contains(&radix) {
        panic!("unsupported radix");
    }
    let mut out;
    if radix.is_power_of_two() {
        let bits = radix.trailing_zeros() as usize;
//@+
        assert(limbs.len() * (Limb::BITS as usize) == 64 * limbs.len()) by (nonlinear_arith) requires Limb::BITS == 64;
//@-
        let size = (limbs.len() * Limb::BITS as usize).div_ceil(bits);
//@+
        proof { lemma_size_pow2(r, bits as nat, len, size as nat); assert(bits as int == radix_log2(r)) by { lemma2_to64(); } }
//@-
        out = vec![0u8; size];
        radix_encode_limbs_by_shifting(radix, limbs, vec_all_mut(&mut out));
//@+
        assert(out@ == digits_fixed(v, r, size as nat));
        assert(size >= 1 && v < pow(r, size as nat));
        proof { lemma_digits_fixed_ascii(v, r, size as nat); }
        assert(out@.len() == size);
//@-
    } else {
        let params = RadixDivisionParams::for_radix(radix);
//@+
        proof {
            lemma_size_div(r, params.digits_limb as nat, len);
            assert(len * (params.digits_limb + 1) <= len * 64) by (nonlinear_arith) requires params.digits_limb <= 63;
        }
//@-
        let size = params.encoded_size(limbs.len());
        out = vec![0u8; size];
        params.encode_limbs(limbs, vec_all_mut(&mut out));
//@+
        assert(out@ == digits_fixed(v, r, size as nat));
        assert(size >= 1) by (nonlinear_arith) requires size == len * (params.digits_limb + 1), len >= 1;
        assert(v < pow(r, size as nat));
        proof { lemma_digits_fixed_ascii(v, r, size as nat); }
        assert(out@.len() == size);
//@-
    }
    let size = out.len();
    let mut skip = 0;
//@+
    let ghost d = out@;
    assert(d == digits_fixed(v, r, size as nat) && size >= 1 && v < pow(r, size as nat));
    proof { lemma_digits_fixed_ascii(v, r, size as nat); }
//@-
    while skip + 1 < size && out[skip] == b'0'
//@+
        invariant out@ == d, size == d.len(), size >= 1, skip < size, forall|k: int| 0 <= k < skip ==> d[k] == 0x30
        decreases size - skip
//@-
{
        skip += 1;
    }
//@+
    proof { lemma_strip_zeros(v, r, size as nat, skip as int); }
//@-
    if skip > 0 {
        out.copy_within(skip..size, 0);
        out.truncate(size - skip);
    }
//@+
    assert(out@ =~= d.subrange(skip as int, size as int));
//@-
    String::from_utf8(out).expect("utf-8 decoding error")
}
//@@ end

// ---------------------------------------------------------------- C17 round trip at the level of the two contracts
/// the digit characters are decoded to their digit
pub proof fn lemma_digit_char(d: int)
    requires 0 <= d < 36
    ensures digit_val(digit_char(d)) == d, digit_char(d) != 0x5f, digit_char(d) != 0x2b, (digit_char(d) == 0x30) == (d == 0)
{ }

/// the canonical digit string of v > 0 is a well-formed digit string without separators and leading zero, and denotes v
pub proof fn lemma_canon_digits(v: nat, r: int)
    requires v > 0, 2 <= r <= 36
    ensures ({ let d = canon_digits(v, r); let n = d.len() as int;
        n >= 1 && d[0] != 0x30 && seg_ok(d, 0, n, r) && seg_val(d, 0, n, r) == v
        && forall|k: int| 0 <= k < n ==> d[k] != 0x5f && d[k] != 0x2b })
    decreases v
{
    let rn = r as nat;
    let q = (v / rn) as nat; let m = (v % rn) as int;
    let pre = canon_digits(q, r); let d = canon_digits(v, r); let n = d.len() as int;
    assert(d == pre.push(digit_char(m)));
    lemma_digit_char(m);
    lemma_fundamental_div_mod(v as int, r);
    assert(q < v) by (nonlinear_arith) requires q == v / rn, v > 0, rn >= 2;
    if q > 0 {
        lemma_canon_digits(q, r);
        lemma_seg_shift(pre, d, 0, 0, n - 1, r);
        assert(char_ok(d[n - 1], r));
        assert(seg_val(d, 0, n, r) == seg_val(d, 0, n - 1, r) * r + m);
        assert(q * r == r * q) by (nonlinear_arith);
    } else {
        assert(pre.len() == 0);
        assert(seg_val(d, 0, 0, r) == 0);
        assert(0 * r == 0);
        assert((v as int) / r == 0 && (v as int) % r == m);
        assert(r * 0 == 0);
        assert(v == m);
    }
}

/// C17: parsing the canonical numeral of v gives v
pub proof fn lemma_radix_roundtrip(v: nat, r: int)
    requires 2 <= r <= 36
    ensures numeral_val(canon_numeral(v, r), r) == Some(v)
{
    let s = canon_numeral(v, r);
    if v > 0 { lemma_canon_digits(v, r); }
    else { assert(seg_val(s, 0, 1, r) == seg_val(s, 0, 0, r) * r + 0); assert(0 * r == 0); assert(seg_val(s, 0, 0, r) == 0); assert(char_ok(s[0], r)); }
    assert(numeral_body(s) == s);
}

// `&mut vec_buf[..n]` is `<Vec<T, A> as IndexMut<RangeTo<usize>>>::index_mut`: vstd specifies range IndexMut for slices and arrays only, and the
// Vec impl cannot be given an `assume_specification` here (generic over `I: SliceIndex<[T]>` and the unstable `Allocator`), so the result would
// be an unconstrained slice. The expression is routed through this `external_body` shim (body = the original expression) by the `subst` below;
// the bound expression is passed through unchanged. Reported as assumed.
#[verifier::external_body]
pub fn vec_prefix_mut(v: &mut Vec<Limb>, n: usize) -> (r: &mut [Limb])
    requires n <= old(v)@.len()
    ensures r@ == old(v)@.subrange(0, n as int), final(v)@ == final(r)@ + old(v)@.subrange(n as int, old(v)@.len() as int)
{ &mut v[..n] }

//@@ subst &mut vec_buf\[\.\.([^\]]+)\] => vec_prefix_mut(&mut vec_buf, \1)
//@@ fn src/uint/encoding.rs | - | radix_encode_limbs_to_string | body | props C17 C11
pub fn radix_encode_limbs_to_string(radix: u32, limbs: &[Limb]) -> (ret__: String)
//@+
    requires 2 <= radix <= 36, 1 <= limbs@.len() <= usize::MAX / 64
    ensures ret__@ == ascii_chars(canon_numeral(val(limbs@, limbs@.len()) as nat, radix as int))
//@-
{
    let mut array_buf = [Limb::ZERO; 128];
    let mut vec_buf = Vec::new();
    let limb_count = limbs.len();
    let buf = if limb_count <= array_buf.len() {
        array_buf[..limb_count].copy_from_slice(limbs);
//@+
        assert(array_buf@.subrange(0, limb_count as int) =~= limbs@);
//@-
        &mut array_buf[..limb_count]
    } else {
        vec_buf.extend_from_slice(limbs);
//@+
        assert(vec_buf@ =~= limbs@);
//@-
        vec_prefix_mut(&mut vec_buf, limb_count)
    };
//@+
    assert(buf@ =~= limbs@);
//@-
    radix_encode_limbs_mut_to_string(radix, buf)
}
//@@ end
//@@ fn src/uint.rs | impl<const LIMBS: usize> Uint<LIMBS> | as_limbs_mut | body | props C16 C11
impl<const LIMBS: usize> Uint<LIMBS> {
pub const fn as_limbs_mut(&mut self) -> (ret__: &mut [Limb; LIMBS])
//@+
    ensures *ret__ == old(self).limbs, final(self).limbs == *final(ret__)
//@-
{
        &mut self.limbs
    }
}
//@@ end
//@@ fn src/uint/encoding.rs | impl<const LIMBS:usize>Uint<LIMBS> | to_string_radix_vartime | body | props C17 C11
impl<const LIMBS:usize>Uint<LIMBS> {
pub fn to_string_radix_vartime(&self, radix: u32) -> (ret__: String)
//@+
    requires 2 <= radix <= 36, 1 <= LIMBS <= usize::MAX / 64
    ensures ret__@ == ascii_chars(canon_numeral(self.v() as nat, radix as int))
//@-
{
        let mut buf = *self;
        radix_encode_limbs_mut_to_string(radix, buf.as_limbs_mut())
    }
}
//@@ end

} // verus!
