// L2: radix string encoding (src/uint/encoding.rs, C17 encode side)
use vstd::prelude::*;
use vstd::arithmetic::power::*;
use vstd::arithmetic::power2::*;
use vstd::arithmetic::div_mod::*;
use vstd::arithmetic::mul::*;
use vstd::string::*;
use vstd::std_specs::slice::*;
use crate::speclib::*;
use crate::l0_prim::*;
use crate::l1_choice::*;
use crate::l1_limb::*;
use crate::l2_core::*;
use crate::l2_encoding_radix::*;
verus! {

// ---------------------------------------------------------------- spec vocabulary: canonical numerals
/// the ASCII character of the digit d (0..=35), lower case
pub open spec fn digit_char(d: int) -> u8 { if d < 10 { (0x30 + d) as u8 } else { (0x61 + d - 10) as u8 } }
/// digits of v > 0 in the radix, most significant first, no leading zero (empty for v == 0)
pub open spec fn canon_digits(v: nat, radix: int) -> Seq<u8>
    decreases v
    via canon_digits_dec
{ if v == 0 || radix < 2 { Seq::empty() } else { canon_digits((v / radix as nat) as nat, radix).push(digit_char((v % radix as nat) as int)) } }
#[via_fn]
proof fn canon_digits_dec(v: nat, radix: int)
{ if v != 0 && radix >= 2 { let r = radix as nat; assert(v / r < v) by (nonlinear_arith) requires v > 0, r >= 2; } }
/// the canonical lower-case numeral of v: no leading zeros, "0" for zero
pub open spec fn canon_numeral(v: nat, radix: int) -> Seq<u8> { if v == 0 { seq![0x30u8] } else { canon_digits(v, radix) } }
/// the characters of an ASCII byte string
pub open spec fn ascii_chars(s: Seq<u8>) -> Seq<char> { s.map_values(|b: u8| b as char) }


//@@ fn src/uint/encoding.rs | - | radix_encode_limbs_mut_to_string | stub | props C17 C11
#[verifier::external_body]
pub fn radix_encode_limbs_mut_to_string(radix: u32, limbs: &mut [Limb]) -> (ret__: String)
//@+
    requires 2 <= radix <= 36, old(limbs)@.len() >= 1
    ensures ret__@ == ascii_chars(canon_numeral(val(old(limbs)@, old(limbs)@.len()) as nat, radix as int))
//@-
{
    unimplemented!()
}
//@@ end
// `&mut vec_buf[..n]` is `<Vec<T, A> as IndexMut<RangeTo<usize>>>::index_mut`: vstd specifies range IndexMut for slices and arrays only, and the
// Vec impl cannot be given an `assume_specification` here (generic over `I: SliceIndex<[T]>` and the unstable `Allocator`), so the result would
// be an unconstrained slice. The expression is routed through this `external_body` shim (body = the original expression) by the `subst` below;
// the bound expression is passed through unchanged. Reported as assumed.
#[verifier::external_body]
pub fn vec_prefix_mut(v: &mut Vec<Limb>, n: usize) -> (r: &mut [Limb])
    requires n <= old(v)@.len()
    ensures r@ == old(v)@.subrange(0, n as int), final(v)@ == final(r)@ + old(v)@.subrange(n as int, old(v)@.len() as int)
{ &mut v[..n] }

//@@ subst &mut vec_buf\[\.\.([^\]]+)\] => vec_prefix_mut(&mut vec_buf, \1)
//@@ fn src/uint/encoding.rs | - | radix_encode_limbs_to_string | body | props C17 C11
pub fn radix_encode_limbs_to_string(radix: u32, limbs: &[Limb]) -> (ret__: String)
//@+
    requires 2 <= radix <= 36, limbs@.len() >= 1
    ensures ret__@ == ascii_chars(canon_numeral(val(limbs@, limbs@.len()) as nat, radix as int))
//@-
{
    let mut array_buf = [Limb::ZERO; 128];
    let mut vec_buf = Vec::new();
    let limb_count = limbs.len();
    let buf = if limb_count <= array_buf.len() {
        array_buf[..limb_count].copy_from_slice(limbs);
//@+
        assert(array_buf@.subrange(0, limb_count as int) =~= limbs@);
//@-
        &mut array_buf[..limb_count]
    } else {
        vec_buf.extend_from_slice(limbs);
//@+
        assert(vec_buf@ =~= limbs@);
//@-
        &mut vec_buf[..limb_count]
    };
//@+
    assert(buf@ =~= limbs@);
//@-
    radix_encode_limbs_mut_to_string(radix, buf)
}
//@@ end

} // verus!
