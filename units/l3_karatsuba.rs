// L3: Karatsuba multiplication / squaring for fixed widths (src/uint/mul/karatsuba.rs) -- C03
//
// STATUS: every function in this unit is an ASSUMED contract (hand-written `external_body` stub).
//
// src/uint/mul/karatsuba.rs defines `UintKaratsubaMul::<N>::multiply` / `square` only through the macros
// `impl_uint_karatsuba_multiplication!` / `impl_uint_karatsuba_squaring!`; the functions do not exist as
// items in the source text, so the extractor (tools/gen.py, `//@@ fn` regions) cannot anchor them: it has
// no macro-arm instantiation yet. Until it has, the callers in l3_mul (`Uint::split_mul`, `Uint::square_wide`)
// use the contracts below. Nothing in this file is extracted code and nothing here is verified.
// A complete proof of one instantiated `reduce` arm (multiply, (32,16)) exists in
// /verif/notes/probe_karatsuba_arm.rs; it is NOT part of the evidence produced from this unit.
use vstd::prelude::*;
use crate::speclib::*;
verus! {

// Hand-written copy of `pub(crate) struct UintKaratsubaMul<const LIMBS: usize>;` (src/uint/mul/karatsuba.rs:35).
// (`//@@ item … | struct UintKaratsubaMul` is not usable: the struct rewrite of the extractor does not handle
// unit structs.)  The type carries no data; only its associated functions matter.
pub struct UintKaratsubaMul<const LIMBS: usize>;

// ---------------------------------------------------------------------------------------------------
// ASSUMED (not extracted, not verified): product equation of the macro-generated
// `impl UintKaratsubaMul<N> { pub(crate) const fn multiply(lhs: &[Limb], rhs: &[Limb]) -> (Uint<N>, Uint<N>) }`
// for the four `reduce` instantiations (128,64) (64,32) (32,16) (16,8) produced by
// `impl_uint_karatsuba_multiplication!(128, 64, 32, 16, 8);` (src/uint/mul/karatsuba.rs:418).
// Precondition: both slices have exactly N limbs (the only way `Uint::split_mul` calls them).
// ---------------------------------------------------------------------------------------------------
impl UintKaratsubaMul<128> {
    // ASSUMED
    #[verifier::external_body]
    pub const fn multiply(lhs: &[Limb], rhs: &[Limb]) -> (ret__: (Uint<128>, Uint<128>))
        requires lhs.len() == 128, rhs.len() == 128
        ensures ret__.0.v() + ret__.1.v() * bp(128) == val(lhs@, 128) * val(rhs@, 128)
    { unimplemented!() }
}
impl UintKaratsubaMul<64> {
    // ASSUMED
    #[verifier::external_body]
    pub const fn multiply(lhs: &[Limb], rhs: &[Limb]) -> (ret__: (Uint<64>, Uint<64>))
        requires lhs.len() == 64, rhs.len() == 64
        ensures ret__.0.v() + ret__.1.v() * bp(64) == val(lhs@, 64) * val(rhs@, 64)
    { unimplemented!() }
}
impl UintKaratsubaMul<32> {
    // ASSUMED
    #[verifier::external_body]
    pub const fn multiply(lhs: &[Limb], rhs: &[Limb]) -> (ret__: (Uint<32>, Uint<32>))
        requires lhs.len() == 32, rhs.len() == 32
        ensures ret__.0.v() + ret__.1.v() * bp(32) == val(lhs@, 32) * val(rhs@, 32)
    { unimplemented!() }
}
impl UintKaratsubaMul<16> {
    // ASSUMED
    #[verifier::external_body]
    pub const fn multiply(lhs: &[Limb], rhs: &[Limb]) -> (ret__: (Uint<16>, Uint<16>))
        requires lhs.len() == 16, rhs.len() == 16
        ensures ret__.0.v() + ret__.1.v() * bp(16) == val(lhs@, 16) * val(rhs@, 16)
    { unimplemented!() }
}

// ---------------------------------------------------------------------------------------------------
// ASSUMED (not extracted, not verified): product equation of the macro-generated
// `impl UintKaratsubaMul<N> { pub(crate) const fn square(limbs: &[Limb]) -> (Uint<N>, Uint<N>) }`
// for the two `reduce` instantiations (128,64) (64,32) produced by
// `impl_uint_karatsuba_squaring!(128, 64, 32);` (src/uint/mul/karatsuba.rs:419).
// ---------------------------------------------------------------------------------------------------
impl UintKaratsubaMul<128> {
    // ASSUMED
    #[verifier::external_body]
    pub const fn square(limbs: &[Limb]) -> (ret__: (Uint<128>, Uint<128>))
        requires limbs.len() == 128
        ensures ret__.0.v() + ret__.1.v() * bp(128) == val(limbs@, 128) * val(limbs@, 128)
    { unimplemented!() }
}
impl UintKaratsubaMul<64> {
    // ASSUMED
    #[verifier::external_body]
    pub const fn square(limbs: &[Limb]) -> (ret__: (Uint<64>, Uint<64>))
        requires limbs.len() == 64
        ensures ret__.0.v() + ret__.1.v() * bp(64) == val(limbs@, 64) * val(limbs@, 64)
    { unimplemented!() }
}

} // verus!
