// L4: the `Gcd` trait routes, variable-time method `gcd_vartime` (src/uint/gcd.rs, src/int/gcd.rs, Odd::new of src/odd.rs) -- C10 C15
// see l4_gcd_routes.rs
use vstd::prelude::*;
use crate::speclib::*;
use crate::l1_choice::*;
use crate::l2_core::*;
use crate::l2_subtle::*;
use crate::l4_int::*;
use crate::l4_safegcd::*;
use crate::l4_invmod::*;
verus! {

//@@ subst \b(Self|Uint)::(ZERO|ONE|MAX|BITS|LOG2_BITS)\b(?!\() => \1::\2()

/// `Gcd` of /repo/src/traits.rs, method `gcd_vartime` (hand-declared: a trait impl method cannot carry `requires` / `ensures`, so
/// the contract is stated once at trait level through the two spec fns each impl defines)
pub trait Gcd<Rhs = Self>: Sized {
    type Output;
    spec fn gcd_req(&self, rhs: &Rhs) -> bool;
    spec fn gcd_ens(&self, rhs: &Rhs, r: Self::Output) -> bool;
    fn gcd_vartime(&self, rhs: &Rhs) -> (r: Self::Output)
        requires self.gcd_req(rhs)
        ensures self.gcd_ens(rhs, r);
}

/// `Integer::is_odd` of /repo/src/traits.rs is a provided method (`self.as_ref().first().map(|limb| limb.is_odd()).unwrap_or_else(..)`:
/// iterator adaptors + closures; the trait header lists ~90 supertraits) and `Uint` does not override it.
/// Hand-declared with its contract; the `Uint` instance is ASSUMED (external_body): the parity of the value.
pub trait Integer {
    spec fn is_odd_spec(&self) -> bool;
    fn is_odd(&self) -> (r: Choice)
        ensures r.wf(), r.t() == self.is_odd_spec();
}
impl<const LIMBS: usize> Integer for Uint<LIMBS> {
    open spec fn is_odd_spec(&self) -> bool { self.v() % 2 == 1 }
    #[verifier::external_body]
    fn is_odd(&self) -> (r: Choice)
    { unimplemented!() }
}
/// `subtle::CtOption::into_option` (subtle 2.6, external crate; ASSUMED like the model in l2_subtle):
/// `if self.is_some.unwrap_u8() == 1 { Some(self.value) } else { None }`
impl<T> CtOption<T> {
    #[verifier::external_body]
    pub fn into_option(self) -> (r: Option<T>)
        ensures self.is_some.wf() ==> (r.is_some() == self.is_some.t() && (r.is_some() ==> r.unwrap() == self.value))
    { unimplemented!() }
}

//@@ fn src/odd.rs | impl<T> Odd<T> | new | body | props C10 C15 C11
impl<T> Odd<T> {
pub fn new(n: T) -> (ret__: CtOption<Self>)
where
        T: Integer,
//@+
    ensures ret__.value.0 == n, ret__.is_some.wf(), ret__.is_some.t() == n.is_odd_spec()
//@-
{
        let is_odd = n.is_odd();
        CtOption::new(Self(n), is_odd)
    }
}
//@@ end

//@@ fn src/uint/gcd.rs | impl<const SAT_LIMBS: usize, const UNSAT_LIMBS: usize> Gcd for Uint<SAT_LIMBS> where Odd<Self>: PrecomputeInverter<Inverter = SafeGcdInverter<SAT_LIMBS, UNSAT_LIMBS>>, | gcd_vartime | body | props C10 C15 C11
impl<const SAT_LIMBS: usize, const UNSAT_LIMBS: usize> Gcd for Uint<SAT_LIMBS> where Odd<Self>: PrecomputeInverter<Inverter = SafeGcdInverter<SAT_LIMBS, UNSAT_LIMBS>>, {
//@+
    type Output = Uint<SAT_LIMBS>;
    open spec fn gcd_req(&self, rhs: &Self) -> bool { sg_sizes(SAT_LIMBS as int, UNSAT_LIMBS as int) }
    open spec fn gcd_ens(&self, rhs: &Self, r: Uint<SAT_LIMBS>) -> bool { r.v() == gcd(self.v() as nat, rhs.v() as nat) }
//@-
fn gcd_vartime(&self, rhs: &Self) -> (ret__: Self::Output)
//@+
    // (restated so that a failure is reported inside this function; the trait-level contract is gcd_req / gcd_ens)
    ensures ret__.v() == gcd(self.v() as nat, rhs.v() as nat)
//@-
{
        match Odd::<Self>::new(*self).into_option() {
            Some(odd) => odd.gcd_vartime(rhs),
            None => self.gcd(rhs), // TODO(tarcieri): vartime support for even `self`?
        }
    }
}
//@@ end
//@@ fn src/uint/gcd.rs | impl<const SAT_LIMBS: usize, const UNSAT_LIMBS: usize> Gcd<Int<SAT_LIMBS>> for Uint<SAT_LIMBS> where Odd<Uint<SAT_LIMBS>>: PrecomputeInverter<Inverter = SafeGcdInverter<SAT_LIMBS, UNSAT_LIMBS>>, | gcd_vartime | body | props C10 C15 C11
impl<const SAT_LIMBS: usize, const UNSAT_LIMBS: usize> Gcd<Int<SAT_LIMBS>> for Uint<SAT_LIMBS> where Odd<Uint<SAT_LIMBS>>: PrecomputeInverter<Inverter = SafeGcdInverter<SAT_LIMBS, UNSAT_LIMBS>>, {
//@+
    type Output = Uint<SAT_LIMBS>;
    open spec fn gcd_req(&self, rhs: &Int<SAT_LIMBS>) -> bool { sg_sizes(SAT_LIMBS as int, UNSAT_LIMBS as int) }
    open spec fn gcd_ens(&self, rhs: &Int<SAT_LIMBS>, r: Uint<SAT_LIMBS>) -> bool { r.v() == gcd(self.v() as nat, abs_i(rhs.iv()) as nat) }
//@-
fn gcd_vartime(&self, rhs: &Int<SAT_LIMBS>) -> (ret__: Self::Output)
{
        self.gcd_vartime(&rhs.abs())
    }
}
//@@ end
//@@ fn src/int/gcd.rs | impl<const SAT_LIMBS: usize, const UNSAT_LIMBS: usize> Gcd for Int<SAT_LIMBS> where Odd<Uint<SAT_LIMBS>>: PrecomputeInverter<Inverter = SafeGcdInverter<SAT_LIMBS, UNSAT_LIMBS>>, | gcd_vartime | body | props C10 C15 C11
impl<const SAT_LIMBS: usize, const UNSAT_LIMBS: usize> Gcd for Int<SAT_LIMBS> where Odd<Uint<SAT_LIMBS>>: PrecomputeInverter<Inverter = SafeGcdInverter<SAT_LIMBS, UNSAT_LIMBS>>, {
//@+
    type Output = Uint<SAT_LIMBS>;
    open spec fn gcd_req(&self, rhs: &Self) -> bool { sg_sizes(SAT_LIMBS as int, UNSAT_LIMBS as int) }
    open spec fn gcd_ens(&self, rhs: &Self, r: Uint<SAT_LIMBS>) -> bool { r.v() == gcd(abs_i(self.iv()) as nat, abs_i(rhs.iv()) as nat) }
//@-
fn gcd_vartime(&self, rhs: &Self) -> (ret__: Self::Output)
//@+
    // (restated so that a failure is reported inside this function; the trait-level contract is gcd_req / gcd_ens)
    ensures ret__.v() == gcd(abs_i(self.iv()) as nat, abs_i(rhs.iv()) as nat)
//@-
{
        self.abs().gcd_vartime(&rhs.abs())
    }
}
//@@ end
//@@ fn src/int/gcd.rs | impl<const SAT_LIMBS: usize, const UNSAT_LIMBS: usize> Gcd<Uint<SAT_LIMBS>> for Int<SAT_LIMBS> where Odd<Uint<SAT_LIMBS>>: PrecomputeInverter<Inverter = SafeGcdInverter<SAT_LIMBS, UNSAT_LIMBS>>, | gcd_vartime | body | props C10 C15 C11
impl<const SAT_LIMBS: usize, const UNSAT_LIMBS: usize> Gcd<Uint<SAT_LIMBS>> for Int<SAT_LIMBS> where Odd<Uint<SAT_LIMBS>>: PrecomputeInverter<Inverter = SafeGcdInverter<SAT_LIMBS, UNSAT_LIMBS>>, {
//@+
    type Output = Uint<SAT_LIMBS>;
    open spec fn gcd_req(&self, rhs: &Uint<SAT_LIMBS>) -> bool { sg_sizes(SAT_LIMBS as int, UNSAT_LIMBS as int) }
    open spec fn gcd_ens(&self, rhs: &Uint<SAT_LIMBS>, r: Uint<SAT_LIMBS>) -> bool { r.v() == gcd(abs_i(self.iv()) as nat, rhs.v() as nat) }
//@-
fn gcd_vartime(&self, rhs: &Uint<SAT_LIMBS>) -> (ret__: Self::Output)
//@+
    // (restated so that a failure is reported inside this function; the trait-level contract is gcd_req / gcd_ens)
    ensures ret__.v() == gcd(abs_i(self.iv()) as nat, rhs.v() as nat)
//@-
{
        self.abs().gcd_vartime(rhs)
    }
}
//@@ end

} // verus!
