// L8: BoxedUint modular inversion (src/uint/boxed/inv_mod.rs) -- C10
//
// body (proved): inv_mod (CRT / Garner recombination for the modulus s * 2^k: invertibility decided exactly, canonical result, result
//         precision), inv_mod2k, inv_mod2k_vartime (all k admitted), inv_mod2k_full_vartime (bit-serial inverse mod 2^k, invariant
//         a*x + b*2^i == 1 mod W of the fixed-width twins in l4_invmod.rs), `impl InvMod for BoxedUint`,
//         wrapping_sub_assign, inv_odd_mod (from the boxed Bernstein-Yang inverter: BoxedSafeGcdInverter::new of l8_boxed_monty.rs and
//         `Inverter::invert` of l8_boxed_safegcd_top.rs, both proved).
// body (proved, bit writes): set_bit, set_bit_vartime (lemmas: l8_boxed_lemmas.rs, copies of the private bit lemmas of l2_shift.rs).
// stub (ASSUMED): as_words / as_words_mut (`&[Limb]` reinterpreted as
//         `&[Word]` by an unsafe cast); model of subtle: `From<CtOption<T>> for Option<T>`, `ConstantTimeEq for usize`.
// Separate unit because the `ConstantTimeSelect` trait of l8_boxed_methods.rs declares `ct_select` only (one region = one impl
// block = one method): `ct_assign` is declared and proved in l8_boxed_ct.rs and imported by name here.
// Lemmas: l8_boxed_lemmas.rs (copies of private lemmas of l4_invmod.rs).   dev: /verif/tools/vunit.py l8_boxed_invmod
use vstd::prelude::*;
use vstd::arithmetic::power::*;
use vstd::arithmetic::power2::*;
use vstd::arithmetic::div_mod::*;
use crate::speclib::*;
use crate::speclib_bits::*;
use crate::l0_prim::*;
use crate::l0_corespec::*;
use crate::l1_choice::*;
use crate::l1_limb::*;
use crate::l2_core::*;
use crate::l2_subtle::*;
use crate::l4_invmod::{gcd, lemma_inverse_coprime, lemma_sg_gcd_eq, lemma_gcd_sym};
use crate::l4_safegcd::sg_gcd;
use crate::l8_boxed_safegcd::{SG_BOXED_MAX_SAT, sg_invert_post};
use crate::l8_boxed_safegcd_top::Inverter;
use crate::l8_boxed_monty::PrecomputeInverter;   // (cyclic import: l8_boxed_monty.rs uses `inv_mod_post` / `words_of` of this unit)
use crate::l7_traits::*;
use crate::l7_boxed_div::*;
use crate::l8_boxed_lemmas::*;
use crate::l8_boxed_methods::*;
use crate::l8_boxed_methods::Integer;
use crate::l8_boxed_ct::ConstantTimeSelect;   // the `ct_assign` declaration (explicit import: wins over the glob of l8_boxed_methods)
verus! {

proof fn lemma_rng(x: &BoxedUint)
    ensures 0 <= x.v() < bp(x.nl()), bp(x.nl()) > 0
{ lemma_val_bound(x.limbs@, x.nl()); }

proof fn lemma_nlimbs_for(n: nat)
    requires 1 <= n < 0x400_0000
    ensures nlimbs_for((64 * n) as u32) == n
{ }

// ---- model of subtle 2.6.1, continued (ASSUMED): `impl<T> From<CtOption<T>> for Option<T>`:
//      `if source.is_some().unwrap_u8() == 1u8 { Option::Some(source.value) } else { None }`
impl<T> From<CtOption<T>> for Option<T> {
    #[verifier::external_body]
    fn from(source: CtOption<T>) -> (r: Option<T>)
        ensures r == (if source.is_some.0 == 1 { Some(source.value) } else { None::<T> })
    { if source.is_some.0 == 1 { Some(source.value) } else { None } }
}
impl<T> vstd::std_specs::convert::FromSpecImpl<CtOption<T>> for Option<T> {
    open spec fn obeys_from_spec() -> bool { true }
    open spec fn from_spec(source: CtOption<T>) -> Option<T> { if source.is_some.0 == 1 { Some(source.value) } else { None::<T> } }
}

// subtle: `generate_integer_equal!(usize, ..)`: `impl ConstantTimeEq for usize` (1 iff equal)
impl ConstantTimeEq for usize {
    #[verifier::external_body]
    fn ct_eq(&self, other: &usize) -> (r: Choice)
        ensures r.wf(), r.t() == (*self == *other)
    { Choice((*self == *other) as u8) }
}
/// `InvMod` of /repo/src/traits.rs, hand-declared
pub trait InvMod<Rhs = Self>: Sized {
    type Output;
    spec fn inv_mod_req(&self, p: &Rhs) -> bool;
    spec fn inv_mod_ens(&self, p: &Rhs, r: CtOption<Self::Output>) -> bool;
    fn inv_mod(&self, p: &Rhs) -> (r: CtOption<Self::Output>)
        requires self.inv_mod_req(p)
        ensures self.inv_mod_ens(p, r);
}

/// what `inv_mod` promises (C10): invertibility decided exactly, the value is the canonical inverse
pub open spec fn inv_mod_post(x: &BoxedUint, m: &BoxedUint, r: CtOption<BoxedUint>) -> bool {
    &&& r.is_some.wf() &&& r.value.nl() == x.nl()
    &&& (m.v() == 0 ==> !r.is_some.t())
    &&& (m.v() >= 1 ==> r.is_some.t() == (gcd(x.v() as nat, m.v() as nat) == 1))
    &&& ((m.v() >= 1 && r.is_some.t()) ==> (x.v() * r.value.v()) % m.v() == 1int % m.v())
    &&& ((m.v() >= 2 && r.is_some.t()) ==> 0 <= r.value.v() < m.v())
}

/// the u64 words of a limb sequence (`as_words` reinterprets `&[Limb]` as `&[Word]`)
pub open spec fn words_of(s: Seq<Limb>) -> Seq<u64> { Seq::new(s.len(), |k: int| s[k].0) }

//@@ fn src/uint/boxed.rs | impl BoxedUint | as_words | stub | props C16 C11
impl BoxedUint {
#[verifier::external_body]
pub fn as_words(&self) -> (ret__: &[Word])
//@+
    ensures ret__@ == words_of(self.limbs@)
//@-
{
    unimplemented!()
}
}
//@@ end
//@@ fn src/uint/boxed.rs | impl BoxedUint | as_words_mut | stub | props C16 C11
impl BoxedUint {
#[verifier::external_body]
pub fn as_words_mut(&mut self) -> (ret__: &mut [Word])
//@+
    ensures ret__@ == words_of(old(self).limbs@), final(self).limbs@.len() == old(self).limbs@.len(), words_of(final(self).limbs@) == final(ret__)@
//@-
{
    unimplemented!()
}
}
//@@ end
//@@ fn src/uint/boxed/sub.rs | impl BoxedUint | wrapping_sub_assign | body | props C04 C11 C15
impl BoxedUint {
pub fn wrapping_sub_assign(&mut self, rhs: &Self)
//@+
    requires old(self).limbs@.len() < 0x400_0000, rhs.limbs@.len() <= old(self).limbs@.len()
    ensures final(self).nl() == old(self).nl(), final(self).v() == (old(self).v() - rhs.v()) % bp(old(self).nl())
//@-
{
//@+
    let ghost a = self.v(); let ghost n = self.nl(); let ghost ww = bp(n);
    assert(0u64 >> 63 == 0) by (bit_vector);
    proof { lemma_rng(self); lemma_rng(rhs); }
//@-
        self.sbb_assign(rhs, Limb::ZERO);
//@+
    proof { lemma_rng(self); }
//@-
    }
}
//@@ end
//@@ fn src/uint/boxed/bits.rs | impl BoxedUint | set_bit | body | props C05 C11
impl BoxedUint {
pub fn set_bit(&mut self, index: u32, bit_value: Choice)
//@+
    requires bit_value.wf()
    ensures final(self).nl() == old(self).nl(),
        (index as int) < 64 * old(self).nl() ==> final(self).v() == old(self).v() - ((old(self).v() / p2(index as nat)) % 2) * p2(index as nat) + (if bit_value.t() { 1int } else { 0int }) * p2(index as nat),
        (index as int) >= 64 * old(self).nl() ==> final(self).v() == old(self).v()
//@-
{
        let limb_num = (index / Limb::BITS) as usize;
        let index_in_limb = index % Limb::BITS;
        let index_mask = 1 << index_in_limb;
//@+
    let ghost s0 = self.limbs@; let ghost n = self.limbs@.len();
    let ghost c: int = if bit_value.t() { 1 } else { 0 }; let ghost pr = p2(index_in_limb as nat);
//@-
        for i in 0..self.nlimbs()
//@+
    invariant self.limbs@.len() == n, s0.len() == n, VERUS_ghost_iter.iter.end == n, bit_value.wf(), index_in_limb < 64, index_mask == 1u64 << index_in_limb,
        c == (if bit_value.t() { 1int } else { 0int }), pr == p2(index_in_limb as nat),
        forall|k: int| 0 <= k < n && (k != limb_num || k >= VERUS_ghost_iter.index@) ==> self.limbs@[k] == s0[k],
        (limb_num as int) < VERUS_ghost_iter.index@ ==> self.limbs@[limb_num as int].0 as int == s0[limb_num as int].0 as int
            - (if (s0[limb_num as int].0 as int / pr) % 2 == 1 { pr } else { 0 }) + (if c == 1 { pr } else { 0 }),
//@-
{
//@+
    proof { lemma_word_set_bit(self.limbs@[i as int].0, index_in_limb); }
//@-
            let limb = &mut self.limbs[i];
            let is_right_limb = i.ct_eq(&limb_num);
            let old_limb = *limb;
            let new_limb = Limb::conditional_select(
                &Limb(old_limb.0 & !index_mask),
                &Limb(old_limb.0 | index_mask),
                bit_value,
            );
            *limb = Limb::conditional_select(&old_limb, &new_limb, is_right_limb);
        }
//@+
    proof {
        if (index as int) < 64 * n {
            lemma_set_bit_value(s0, self.limbs@, n, limb_num as nat, index_in_limb as nat, c);
            assert(index as nat == 64 * (limb_num as nat) + index_in_limb as nat);
        } else {
            lemma_val_ext(s0, self.limbs@, n);
        }
    }
//@-
    }
}
//@@ end
//@@ fn src/uint/boxed/bits.rs | impl BoxedUint | set_bit_vartime | body | props C05 C11 C15
impl BoxedUint {
pub fn set_bit_vartime(&mut self, index: u32, bit_value: bool)
//@+
    requires (index as int) < 64 * old(self).nl()
    ensures final(self).nl() == old(self).nl(),
        final(self).v() == old(self).v() - ((old(self).v() / p2(index as nat)) % 2) * p2(index as nat) + (if bit_value { 1int } else { 0int }) * p2(index as nat)
//@-
{
        let limb_num = (index / Limb::BITS) as usize;
        let index_in_limb = index % Limb::BITS;
//@+
    let ghost s0 = self.limbs@; let ghost n = self.limbs@.len();
    proof { lemma_word_set_bit(self.limbs@[limb_num as int].0, index_in_limb); }
//@-
        if bit_value {
            self.limbs[limb_num].0 |= 1 << index_in_limb;
        } else {
            {
                self.limbs[limb_num].0 &= !((1 as Word) << index_in_limb);
            }
        }
//@+
    proof {
        lemma_set_bit_value(s0, self.limbs@, n, limb_num as nat, index_in_limb as nat, if bit_value { 1 } else { 0 });
        assert(index as nat == 64 * (limb_num as nat) + index_in_limb as nat);
    }
//@-
    }
}
//@@ end
//@@ fn src/uint/boxed/inv_mod.rs | impl BoxedUint | inv_mod2k_full_vartime | body | props C10 C11 C15
impl BoxedUint {
pub fn inv_mod2k_full_vartime(&self, k: u32) -> (ret__: (Self, Choice))
//@+
    requires self.wf(), k as int <= 64 * self.nl()
    ensures ret__.0.nl() == self.nl(), ret__.1.wf(), ret__.1.t() == (k == 0 || self.v() % 2 == 1),
        ret__.1.t() ==> 0 <= ret__.0.v() < p2(k as nat) && (self.v() * ret__.0.v()) % p2(k as nat) == 1int % p2(k as nat)
//@-
{
//@+
    let ghost a = self.v(); let ghost nl = self.nl(); let ghost w = bp(nl);
    proof { lemma_rng(self); lemma_nlimbs_for(nl); lemma_inv2k_init(nl, a); }
//@-
        let mut x = Self::zero_with_precision(self.bits_precision()); // keeps `x` during iterations
        let mut b = Self::one_with_precision(self.bits_precision()); // keeps `b_i` during iterations
        // The inverse exists either if `k` is 0 or if `self` is odd.
        if k != 0 && !bool::from(self.is_odd()) {
            return (x, Choice::from(0));
        }
        for i in 0..k
//@+
    invariant self.wf(), nl == self.nl(), k as int <= 64 * nl, a == self.v(), w == bp(nl), a >= 0, w > 1, w % 2 == 0,
        x.nl() == nl, b.nl() == nl, 0 <= b.v() < w, 0 <= x.v() < p2(i as nat),
        k != 0 ==> a % 2 == 1,
        a % 2 == 1 ==> (a * x.v() + b.v() * p2(i as nat)) % w == 1,
//@-
{
            // X_i = b_i mod 2
//@+
    let ghost b0 = b.v(); let ghost x0 = x.v();
    let ghost bl = b.limbs@[0].0;
    proof {
        lemma_val_low(b.limbs@, nl);
        assert((bl & 1) == 0 || (bl & 1) == 1) by (bit_vector);
        assert((bl & 1) == bl % 2) by (bit_vector);
    }
//@-
            let x_i = b.limbs[0].0 & 1;
            // b_{i+1} = (b_i - a * X_i) / 2
            if x_i != 0 {
                b.wrapping_sub_assign(self);
            }
//@+
    let ghost c = b.v();
//@-
            b.shr1_assign();
            // Store the X_i bit in the result (x = x | (1 << X_i))
            x.set_bit_vartime(i, x_i != 0);
//@+
    proof {
        lemma_rng(&b);
        lemma_set_bit_fresh(x0, i as nat, x_i as int, x.v());
        lemma_inv2k_step(a, x0, b0, i as nat, w, x_i as int, c, b.v(), x.v());
    }
//@-
        }
//@+
    proof {
        if k == 0 { lemma_p2_succ(0); }
        else { lemma_bp_split(nl, k as nat); lemma_inv2k_final(a, x.v(), b.v(), k as nat, w); }
    }
//@-
        (x, Choice::from(1))
    }
}
//@@ end
//@@ fn src/uint/boxed/inv_mod.rs | impl BoxedUint | inv_mod2k_vartime | body | props C10 C11 C15
impl BoxedUint {
pub fn inv_mod2k_vartime(&self, k: u32) -> (ret__: (Self, Choice))
//@+
    requires self.wf()
    // every k is admitted: for k > precision only the low bits are representable and the result is the inverse mod 2^precision
    ensures ret__.0.nl() == self.nl(), ret__.1.wf(), ret__.1.t() == (k == 0 || self.v() % 2 == 1),
        ret__.1.t() ==> ({ let kk = (if k as int > 64 * self.nl() { 64 * self.nl() as int } else { k as int }) as nat;
            0 <= ret__.0.v() < p2(kk) && (self.v() * ret__.0.v()) % p2(kk) == 1int % p2(kk) })
//@-
{
//@+
    let ghost a = self.v(); let ghost nl = self.nl(); let ghost w = bp(nl);
    let ghost kk: nat = (if k as int > 64 * nl { 64 * nl as int } else { k as int }) as nat;
    proof { lemma_rng(self); lemma_nlimbs_for(nl); lemma_inv2k_init(nl, a); }
//@-
        let mut x = Self::zero_with_precision(self.bits_precision()); // keeps `x` during iterations
        let mut b = Self::one_with_precision(self.bits_precision()); // keeps `b_i` during iterations
        // Additional temporary storage we will need.
        let mut b_opt = Self::zero_with_precision(self.bits_precision());
        // The inverse exists either if `k` is 0 or if `self` is odd.
        let is_some = k.ct_eq(&0) | self.is_odd();
//@+
    proof { lemma_choice_ops(Choice(if k == 0 { 1u8 } else { 0u8 }), Choice(if a % 2 == 1 { 1u8 } else { 0u8 })); }
//@-
        for i in 0..k
//@+
    invariant self.wf(), nl == self.nl(), a == self.v(), w == bp(nl), a >= 0, w > 1, w % 2 == 0,
        kk == (if k as int > 64 * nl { 64 * nl as int } else { k as int }),
        x.nl() == nl, b.nl() == nl, b_opt.nl() == nl, 0 <= b.v() < w, 0 <= x.v() < p2(min_int(i as int, kk as int) as nat),
        (a % 2 == 1 && i <= kk) ==> (a * x.v() + b.v() * p2(i as nat)) % w == 1,
        (a % 2 == 1 && i >= kk) ==> (a * x.v()) % p2(kk) == 1int % p2(kk),
//@-
{
            // X_i = b_i mod 2
//@+
    let ghost b0 = b.v(); let ghost x0 = x.v();
    let ghost bl = b.limbs@[0].0;
    proof {
        lemma_val_low(b.limbs@, nl);
        assert((bl & 1) == 0 || (bl & 1) == 1) by (bit_vector);
        assert((bl & 1) == bl % 2) by (bit_vector);
    }
//@-
            let x_i = b.limbs[0].0 & 1;
            let x_i_choice = Choice::from(x_i as u8);
            // b_{i+1} = (b_i - a * X_i) / 2
            b_opt.as_words_mut().copy_from_slice(b.as_words());
//@+
    proof {
        assert forall|j: int| 0 <= j < nl implies b_opt.limbs@[j] == b.limbs@[j] by {
            assert(words_of(b_opt.limbs@)[j] == words_of(b.limbs@)[j]);
        }
        lemma_val_ext(b_opt.limbs@, b.limbs@, nl);
    }
//@-
            b_opt.wrapping_sub_assign(self);
            b.ct_assign(&b_opt, x_i_choice);
//@+
    let ghost c = b.v();
//@-
            b.shr1_assign();
            // Store the X_i bit in the result (x = x | (1 << X_i))
            x.set_bit(i, x_i_choice);
//@+
    proof {
        lemma_rng(&b);
        if i < kk {
            lemma_set_bit_fresh(x0, i as nat, x_i as int, x.v());
            if a % 2 == 1 {
                lemma_inv2k_step(a, x0, b0, i as nat, w, x_i as int, c, b.v(), x.v());
                if i + 1 == kk { lemma_bp_split(nl, kk); lemma_inv2k_final(a, x.v(), b.v(), kk, w); }
            }
        }
    }
//@-
        }
//@+
    proof { if kk == 0 { lemma_p2_succ(0); } }
//@-
        (x, is_some)
    }
}
//@@ end
//@@ fn src/uint/boxed/inv_mod.rs | impl BoxedUint | inv_odd_mod | body | props C10 C11
impl BoxedUint {
pub fn inv_odd_mod(&self, modulus: &Odd<Self>) -> (ret__: CtOption<Self>)
//@+
    // PROVED from the boxed Bernstein-Yang inverter (BoxedSafeGcdInverter::new in l8_boxed_monty.rs + Inverter::invert in
    // l8_boxed_safegcd_top.rs).  Domain: an odd modulus, or 0 -- BoxedUint::inv_mod calls it with Odd(0) for a zero modulus and discards the
    // result (as the fixed-width Uint::inv_odd_mod, l4_invmod.rs).
    // Equal precisions (the inverter widens `self` to the modulus and converts back with `to_uint(self.bits_precision())`).
    // Size: the inverter computes its iteration count 49 * bits + 80 in u32 (overflow beyond SG_BOXED_MAX_SAT() = 1_369_567 limbs).
    requires self.wf(), modulus.0.nl() == self.nl(), self.nl() <= SG_BOXED_MAX_SAT(), modulus.0.v() % 2 == 1 || modulus.0.v() == 0
    ensures ret__.is_some.wf(), ret__.value.nl() == self.nl(),
        modulus.0.v() % 2 == 1 ==> ret__.is_some.t() == (gcd(self.v() as nat, modulus.0.v() as nat) == 1),
        (modulus.0.v() % 2 == 1 && ret__.is_some.t()) ==> (self.v() * ret__.value.v()) % modulus.0.v() == 1int % modulus.0.v(),
        (modulus.0.v() % 2 == 1 && modulus.0.v() >= 2 && ret__.is_some.t()) ==> 0 <= ret__.value.v() < modulus.0.v(),
        modulus.0.v() == 1 ==> 0 <= ret__.value.v() <= 1,
        modulus.0.v() % 2 == 1 ==> 0 <= ret__.value.v() <= modulus.0.v()
//@-
{
//@+
    proof {
        let mv = modulus.0.v(); let xv = self.v();
        lemma_val_bound(modulus.0.limbs@, self.nl()); lemma_val_bound(self.limbs@, self.nl());
        lemma_sg_gcd_eq(mv as nat, xv as nat);
        lemma_gcd_sym(mv as nat, xv as nat);
        assert forall|r: int| #[trigger] (r * xv) == xv * r by { assert(r * xv == xv * r) by (nonlinear_arith); }
    }
//@-
        modulus.precompute_inverter().invert(self)
    }
}
//@@ end
//@@ fn src/uint/boxed/inv_mod.rs | impl BoxedUint | inv_mod2k | body | props C10 C11 C15
impl BoxedUint {
pub fn inv_mod2k(&self, k: u32) -> (ret__: (Self, Choice))
//@+
    requires self.wf(), k as int <= 64 * self.nl()
    ensures ret__.0.nl() == self.nl(), ret__.1.wf(), ret__.1.t() == (k == 0 || self.v() % 2 == 1),
        ret__.1.t() ==> 0 <= ret__.0.v() < p2(k as nat) && (self.v() * ret__.0.v()) % p2(k as nat) == 1int % p2(k as nat)
//@-
{
//@+
    let ghost a = self.v(); let ghost nl = self.nl(); let ghost w = bp(nl);
    proof { lemma_rng(self); lemma_nlimbs_for(nl); lemma_inv2k_init(nl, a); if k == 0 { lemma_p2_succ(0); } }
//@-
        let mut x = Self::zero_with_precision(self.bits_precision()); // keeps `x` during iterations
        let mut b = Self::one_with_precision(self.bits_precision()); // keeps `b_i` during iterations
        // Additional temporary storage we will need.
        let mut b_opt = Self::zero_with_precision(self.bits_precision());
        // The inverse exists either if `k` is 0 or if `self` is odd.
        let is_some = k.ct_eq(&0) | self.is_odd();
//@+
    proof { lemma_choice_ops(Choice(if k == 0 { 1u8 } else { 0u8 }), Choice(if a % 2 == 1 { 1u8 } else { 0u8 })); }
//@-
        for i in 0..self.bits_precision()
//@+
    invariant self.wf(), nl == self.nl(), k as int <= 64 * nl, i as int <= 64 * nl, a == self.v(), w == bp(nl), a >= 0, w > 1, w % 2 == 0,
        x.nl() == nl, b.nl() == nl, b_opt.nl() == nl, 0 <= b.v() < w, 0 <= x.v() < p2(min_int(i as int, k as int) as nat),
        (a % 2 == 1 && i <= k) ==> (a * x.v() + b.v() * p2(i as nat)) % w == 1,
        (a % 2 == 1 && i >= k) ==> (a * x.v()) % p2(k as nat) == 1int % p2(k as nat),
        k == 0 ==> (a * x.v()) % p2(k as nat) == 1int % p2(k as nat),
//@-
{
            // Only iterations for i = 0..k need to change `x`,
            // the rest are dummy ones performed for the sake of constant-timeness.
            let within_range = i.ct_lt(&k);
            // X_i = b_i mod 2
//@+
    let ghost b0 = b.v(); let ghost x0 = x.v();
    let ghost bl = b.limbs@[0].0;
    proof {
        lemma_val_low(b.limbs@, nl);
        assert((bl & 1) == 0 || (bl & 1) == 1) by (bit_vector);
        assert((bl & 1) == bl % 2) by (bit_vector);
    }
//@-
            let x_i = b.limbs[0].0 & 1;
            let x_i_choice = Choice::from(x_i as u8);
            // b_{i+1} = (b_i - a * X_i) / 2
            b_opt.as_words_mut().copy_from_slice(b.as_words());
//@+
    proof {
        assert forall|j: int| 0 <= j < nl implies b_opt.limbs@[j] == b.limbs@[j] by {
            assert(words_of(b_opt.limbs@)[j] == words_of(b.limbs@)[j]);
        }
        lemma_val_ext(b_opt.limbs@, b.limbs@, nl);
    }
//@-
            b_opt.wrapping_sub_assign(self);
            b.ct_assign(&b_opt, x_i_choice);
//@+
    let ghost c = b.v(); let ghost xc0 = x_i_choice;
//@-
            b.shr1_assign();
            // Store the X_i bit in the result (x = x | (1 << X_i))
            // Don't change the result in dummy iterations.
            let x_i_choice = x_i_choice & within_range;
//@+
    proof { lemma_choice_ops(xc0, within_range); }
//@-
            x.set_bit(i, x_i_choice);
//@+
    proof {
        lemma_rng(&b);
        if i < k {
            lemma_set_bit_fresh(x0, i as nat, x_i as int, x.v());
            if a % 2 == 1 {
                lemma_inv2k_step(a, x0, b0, i as nat, w, x_i as int, c, b.v(), x.v());
                if i + 1 == k { lemma_bp_split(nl, k as nat); lemma_inv2k_final(a, x.v(), b.v(), k as nat, w); }
            }
        } else {
            // dummy iteration: bit i of x is already clear and stays clear
            lemma_p2_mono(k as nat, i as nat);
            lemma_set_bit_fresh(x0, i as nat, 0, x.v());
        }
    }
//@-
        }
        (x, is_some)
    }
}
//@@ end
//@@ fn src/uint/boxed/inv_mod.rs | impl BoxedUint | inv_mod | body | props C10 C11 C15
impl BoxedUint {
pub fn inv_mod(&self, modulus: &Self) -> (ret__: CtOption<Self>)
//@+
    // wrapping_mul builds the 2n-limb product; SG_BOXED_MAX_SAT() = 1_369_567 limbs: beyond it the iteration count of the Bernstein-Yang
    // inverter (inv_odd_mod) overflows u32
    requires self.wf(), modulus.nl() == self.nl(), 2 * self.nl() < 0x400_0000, self.nl() <= SG_BOXED_MAX_SAT()
    ensures inv_mod_post(self, modulus, ret__)
//@-
{
        debug_assert_eq!(self.bits_precision(), modulus.bits_precision());
        let k = modulus.trailing_zeros();
//@+
    let ghost xv = self.v(); let ghost mv = modulus.v(); let ghost nl = self.nl(); let ghost w = bp(nl); let ghost pk = p2(k as nat);
    proof { lemma_rng(self); lemma_rng(modulus); lemma_p2_pos(k as nat); lemma_nlimbs_for(nl); }
    assert(0u64 >> 63 == 0) by (bit_vector);
//@-
        let (s, _overflowed) = modulus.overflowing_shr(k);
//@+
    let ghost sv = s.v();
    proof {
        if mv >= 1 {
            lemma_fundamental_div_mod(mv, pk);
            assert(mv == sv * pk) by (nonlinear_arith) requires mv == pk * (mv / pk) + 0, sv == mv / pk;
            lemma_bp_split(nl, k as nat);
            lemma_p2_mono((k + 1) as nat, (64 * nl) as nat); lemma_p2_succ(k as nat); lemma_bp_pow2(nl);
            lemma_small_mod(pk as nat, w as nat); lemma_small_mod((pk - 1) as nat, w as nat);
            assert(1 * pk == pk);
        }
    }
//@-
        let s_is_odd = s.is_odd();
        let inv_mod_s = self.inv_odd_mod(&Odd(s.clone()));
        let invertible_mod_s = inv_mod_s.is_some() & s_is_odd;
//@+
    let ghost some_a = inv_mod_s.is_some; let ghost a_raw = inv_mod_s.value;
    proof { lemma_choice_ops(some_a, s_is_odd); }
//@-
        // NOTE: this is some strange acrobatics to get around BoxedUint not supporting
        // ConditionallySelectable
        let inv_mod_s =
            Option::from(inv_mod_s).unwrap_or(Self::zero_with_precision(self.bits_precision()));
        let (inv_mod_2k, invertible_mod_2k) = self.inv_mod2k(k);
        let is_some = invertible_mod_s & invertible_mod_2k;
//@+
    proof { lemma_choice_ops(invertible_mod_s, invertible_mod_2k); }
//@-
        let (s_inv_mod_2k, _) = s.inv_mod2k(k);
        let (shifted, _overflowed) =
            BoxedUint::one_with_precision(self.bits_precision()).overflowing_shl(k);
        let mask = shifted.wrapping_sub(&BoxedUint::one_with_precision(self.bits_precision()));
//@+
    proof {
        if mv >= 1 { assert(mask.v() == pk - 1); }
    }
//@-
        let t = inv_mod_2k
            .wrapping_sub(&inv_mod_s)
            .wrapping_mul(&s_inv_mod_2k)
            .bitand(&mask);
//@+
    proof {
        if mv >= 1 {
            assert forall|ys: Seq<Limb>| ys.len() == nl && (forall|j: int| 0 <= j < nl ==> t.limbs@[j].0 == ys[j].0 & mask.limbs@[j].0)
                implies t.v() == #[trigger] val(ys, nl) % pk by {
                lemma_and_mask(ys, mask.limbs@, t.limbs@, nl, k as nat);
            }
            assert(t.v() == ((((inv_mod_2k.v() - inv_mod_s.v()) % w) * s_inv_mod_2k.v()) % w) % pk);
        }
    }
//@-
        let result = inv_mod_s.wrapping_add(&s.wrapping_mul(&t));
//@+
    proof {
        if mv >= 1 {
            lemma_rng(&result);
            if is_some.t() {
                lemma_garner(xv, mv, sv, k as nat, w, inv_mod_s.v(), inv_mod_2k.v(), s_inv_mod_2k.v(), t.v(), result.v());
                lemma_inverse_coprime(xv as nat, mv as nat, result.v());
            } else if gcd(xv as nat, mv as nat) == 1 {
                lemma_inv_mod_decide(xv, mv, sv, k as nat);
            }
        }
    }
//@-
        CtOption::new(result, is_some)
    }
}
//@@ end
//@@ fn src/uint/boxed/inv_mod.rs | impl InvMod for BoxedUint | inv_mod | body | props C10 C11 C15
impl InvMod for BoxedUint {
//@+
    type Output = Self;
    open spec fn inv_mod_req(&self, p: &Self) -> bool { self.wf() && p.nl() == self.nl() && 2 * self.nl() < 0x400_0000 && self.nl() <= SG_BOXED_MAX_SAT() }
    open spec fn inv_mod_ens(&self, p: &Self, r: CtOption<Self>) -> bool { inv_mod_post(self, p, r) }
//@-
fn inv_mod(&self, modulus: &Self) -> (ret__: CtOption<Self>)
{
        self.inv_mod(modulus)
    }
}
//@@ end

} // verus!
