//! C07 (stub)
use super::prelude::*;

pub fn special_inputs(_c: &mut Ctx, _limbs: usize) -> Vec<(BigUint, BigUint, BigUint)> {
    Vec::new()
}

pub fn cases() -> Vec<Case> {
    Vec::new()
}
