//! C07 — modular add/sub/neg/double/mul/halve return the canonical residue.
//!
//! Domain (from the statement): a, b in [0, p); p >= 1; p odd where the function requires it;
//! p = 2^BITS - c (1 <= c <= Limb::MAX) for the special-modulus forms. Expected: the unique value
//! in [0, p) congruent to the mathematical result.

use super::prelude::*;
use crypto_bigint::modular::{MontyForm, MontyParams};
use crypto_bigint::{AddMod, Concat, MulMod, NegMod, Split, SubMod};

/// (a, b, p) with a, b < p. Moduli: 1, 2, 3, 2^BITS-1, 2^(BITS-1)+-1, zero high limbs, 2^BITS - c,
/// edge values; residues 0, 1, p-1, p/2, a = b, a + b = p, p +- 1, sums overflowing 2^BITS.
pub fn mod_inputs(c: &mut Ctx, limbs: usize, odd: bool) -> Vec<(BigUint, BigUint, BigUint)> {
    let n_mod = (c.cap / 110).clamp(8, 96);
    let mut out = Vec::new();
    for p in c.moduli(limbs, odd, n_mod) {
        let rs = c.residues(&p, 9);
        for a in &rs {
            for b in &rs {
                out.push((a.clone(), b.clone(), p.clone()));
            }
        }
        // a + b = p, p + 1, p - 1
        for a in rs.iter().take(6) {
            let b = (&p - a) % &p;
            out.push((a.clone(), b.clone(), p.clone()));
            out.push((a.clone(), (&b + 1u32) % &p, p.clone()));
            out.push((a.clone(), (&b + &p - 1u32) % &p, p.clone()));
        }
    }
    for _ in 0..c.iters {
        let mut p = c.rnd(limbs);
        if odd {
            p |= BigUint::one();
        }
        if p.is_zero() {
            p = BigUint::one();
        }
        let a = c.rnd_below(&p);
        let b = match c.below(6) {
            0 => a.clone(),
            1 => (&p - &a) % &p,
            _ => c.rnd_below(&p),
        };
        out.push((a, b, p));
    }
    out
}

/// (a, b, c) for the special-modulus forms: p = 2^(64 limbs) - c, a, b < p. Biased towards
/// operands with all-ones high limbs and c near MAX (large reduction carries; the historic
/// `mul_mod_special` defect needed a first-round carry of Word::MAX).
pub fn special_inputs(c: &mut Ctx, limbs: usize) -> Vec<(BigUint, BigUint, BigUint)> {
    let bits = 64 * limbs as u32;
    let cs: Vec<u64> = vec![u64::MAX, u64::MAX - 1, 1, 2, 189, 1 << 63, (1 << 63) + 1, (1 << 63) - 1, 1 << 32, c.word(), c.word() | 1, c.word() >> 32];
    let per_c = ((c.cap / cs.len()) as f64).sqrt() as usize;
    let mut out = Vec::new();
    for (ci, cc) in cs.iter().enumerate() {
        let cc = BigUint::from(*cc);
        let p = pow2(bits) - &cc;
        // c near MAX gets a double share
        let n_ops = if ci < 2 { per_c * 2 } else { per_c }.max(12);
        let mut ops: Vec<BigUint> = vec![BigUint::zero(), BigUint::one() % &p, &p - 1u32, &p >> 1, ((&p >> 1) + 1u32) % &p];
        if p > BigUint::from(2u8) {
            ops.push(&p - 2u32);
        }
        // all-ones high limbs, edgy low limbs: 2^BITS - 2^(64 k) + small
        for k in 1..limbs as u32 {
            ops.push((pow2(bits) - pow2(64 * k)) % &p);
            ops.push((pow2(bits) - pow2(64 * k) + 1u32) % &p);
            ops.push((pow2(bits) - pow2(64 * k) + BigUint::from(c.edgy_word())) % &p);
        }
        let mut guard = 0;
        while ops.len() < n_ops && guard < 10 * n_ops {
            guard += 1;
            let x = match c.below(4) {
                0 => {
                    // top-heavy
                    let mut w: Vec<u64> = (0..limbs).map(|_| c.edgy_word()).collect();
                    w[limbs - 1] = u64::MAX;
                    if limbs >= 2 && c.coin() {
                        w[limbs - 2] = u64::MAX;
                    }
                    words_to_big(&w)
                }
                1 => {
                    let e = c.edges(limbs, 64);
                    let i = c.below(e.len());
                    e[i].clone()
                }
                2 => &p - BigUint::from(c.edgy_word()) % &p,
                _ => c.rnd_below(&p),
            };
            if x < p {
                ops.push(x);
            }
        }
        for a in &ops {
            for b in &ops {
                out.push((a.clone(), b.clone(), cc.clone()));
            }
        }
    }
    for _ in 0..c.iters {
        let cc = BigUint::from(c.edgy_word().max(1));
        let p = pow2(bits) - &cc;
        let (a, b) = (c.rnd_below(&p), c.rnd_below(&p));
        out.push((a, b, cc));
    }
    out
}

fn add_sub_neg<const L: usize>(c: &mut Ctx) {
    for (a, b, p) in mod_inputs(c, L, false) {
        if c.done() {
            return;
        }
        let (x, y, m) = (bu::<L>(&a), bu::<L>(&b), bu::<L>(&p));
        let sum = (&a + &b) % &p;
        let dif = (&a + &p - &b) % &p;
        let neg = (&p - &a) % &p;
        let dbl = (&a + &a) % &p;
        check!(c, call(|| x.add_mod(&y, &m)).map(|r| ub(&r)), sum.clone(); a, b, p);
        check!(c, call(|| AddMod::add_mod(&x, &y, &m)).map(|r| ub(&r)), sum; a, b, p);
        check!(c, call(|| x.sub_mod(&y, &m)).map(|r| ub(&r)), dif.clone(); a, b, p);
        check!(c, call(|| SubMod::sub_mod(&x, &y, &m)).map(|r| ub(&r)), dif; a, b, p);
        check!(c, call(|| x.neg_mod(&m)).map(|r| ub(&r)), neg.clone(); a, p);
        check!(c, call(|| NegMod::neg_mod(&x, &m)).map(|r| ub(&r)), neg; a, p);
        check!(c, call(|| x.double_mod(&m)).map(|r| ub(&r)), dbl; a, p);
    }
}

fn mul_mod_vartime<const L: usize>(c: &mut Ctx) {
    for (a, b, p) in mod_inputs(c, L, false) {
        if c.done() {
            return;
        }
        let (x, y, m) = (bu::<L>(&a), bu::<L>(&b), bu::<L>(&p));
        let exp = (&a * &b) % &p;
        check!(c, call(|| x.mul_mod_vartime(&y, &NonZero::new(m).unwrap())).map(|r| ub(&r)), exp.clone(); a, b, p);
        check!(c, call(|| MulMod::mul_mod(&x, &y, &m)).map(|r| ub(&r)), exp; a, b, p);
    }
}

fn mul_mod<const L: usize, const W: usize>(c: &mut Ctx)
where
    Uint<L>: Concat<Output = Uint<W>>,
    Uint<W>: Split<Output = Uint<L>>,
{
    for (a, b, p) in c.scaled(if L >= 16 { 4 } else { 1 }, |c| mod_inputs(c, L, false)) {
        if c.done() {
            return;
        }
        let (x, y, m) = (bu::<L>(&a), bu::<L>(&b), nzu::<L>(&p));
        if p.bit(0) {
            check!(c, call(|| x.mul_mod(&y, &m)).map(|r| ub(&r)), (&a * &b) % &p; a, b, p);
        } else {
            // documented: panics if p is even
            must_panic!(c, call(|| x.mul_mod(&y, &m)).map(|r| ub(&r)); a, b, p);
        }
    }
}

fn special<const L: usize>(c: &mut Ctx) {
    let bits = 64 * L as u32;
    for (a, b, cc) in special_inputs(c, L) {
        if c.done() {
            return;
        }
        let p = pow2(bits) - &cc;
        let (x, y, l) = (bu::<L>(&a), bu::<L>(&b), bl(&cc));
        check!(c, call(|| x.add_mod_special(&y, l)).map(|r| ub(&r)), (&a + &b) % &p; a, b, cc);
        check!(c, call(|| x.sub_mod_special(&y, l)).map(|r| ub(&r)), (&a + &p - &b) % &p; a, b, cc);
        check!(c, call(|| x.neg_mod_special(l)).map(|r| ub(&r)), (&p - &a) % &p; a, cc);
        check!(c, call(|| x.mul_mod_special(&y, l)).map(|r| ub(&r)), (&a * &b) % &p; a, b, cc);
    }
}

/// Halving is only reachable through the Montgomery forms (C08 covers it in depth); here the thin
/// statement: halve(a) is the canonical h with 2h = a (mod p), p odd.
fn halve<const L: usize>(c: &mut Ctx) {
    for (a, _b, p) in c.scaled(if L >= 16 { 16 } else { 4 }, |c| mod_inputs(c, L, true)) {
        if c.done() {
            return;
        }
        let exp = if a.bit(0) { (&a + &p) >> 1 } else { &a >> 1 };
        let got = call(|| {
            let params = MontyParams::new_vartime(oddu::<L>(&p));
            MontyForm::new(&bu::<L>(&a), params).div_by_2().retrieve()
        })
        .map(|r| ub(&r));
        check!(c, got, exp; a, p);
    }
}

// ---------------------------------------------------------------- BoxedUint (equal precisions, as documented)

fn boxed_add_sub_neg(c: &mut Ctx) {
    for l in 1..=4usize {
        for (a, b, p) in c.scaled(4, |c| mod_inputs(c, l, false)) {
            if c.done() {
                return;
            }
            let (x, y, m) = (bx(&a, l), bx(&b, l), bx(&p, l));
            let sum = (&a + &b) % &p;
            let dif = (&a + &p - &b) % &p;
            let neg = (&p - &a) % &p;
            let dbl = (&a + &a) % &p;
            let sh = |r: BoxedUint| (xb(&r), r.nlimbs());
            check!(c, call(|| x.add_mod(&y, &m)).map(sh), (sum.clone(), l); a, b, p, l);
            check!(c, call(|| AddMod::add_mod(&x, &y, &m)).map(sh), (sum.clone(), l); a, b, p, l);
            check!(c, call(|| { let mut t = x.clone(); t.add_mod_assign(&y, &m); t }).map(sh), (sum, l); a, b, p, l);
            check!(c, call(|| x.sub_mod(&y, &m)).map(sh), (dif.clone(), l); a, b, p, l);
            check!(c, call(|| SubMod::sub_mod(&x, &y, &m)).map(sh), (dif, l); a, b, p, l);
            check!(c, call(|| x.neg_mod(&m)).map(sh), (neg.clone(), l); a, p, l);
            check!(c, call(|| NegMod::neg_mod(&x, &m)).map(sh), (neg, l); a, p, l);
            check!(c, call(|| x.double_mod(&m)).map(sh), (dbl, l); a, p, l);
        }
    }
}

fn boxed_mul_mod(c: &mut Ctx) {
    for l in 1..=4usize {
        for (a, b, p) in c.scaled(8, |c| mod_inputs(c, l, false)) {
            if c.done() {
                return;
            }
            let (x, y, m) = (bx(&a, l), bx(&b, l), bx(&p, l));
            if p.bit(0) {
                let exp = (&a * &b) % &p;
                check!(c, call(|| x.mul_mod(&y, &m)).map(|r| (xb(&r), r.nlimbs())), (exp.clone(), l); a, b, p, l);
                check!(c, call(|| MulMod::mul_mod(&x, &y, &m)).map(|r| (xb(&r), r.nlimbs())), (exp, l); a, b, p, l);
            } else {
                // documented: panics if p is even
                must_panic!(c, call(|| x.mul_mod(&y, &m)).map(|r| xb(&r)); a, b, p, l);
            }
        }
    }
}

fn boxed_special(c: &mut Ctx) {
    for l in 1..=4usize {
        let bits = 64 * l as u32;
        for (a, b, cc) in c.scaled(4, |c| special_inputs(c, l)) {
            if c.done() {
                return;
            }
            let p = pow2(bits) - &cc;
            let (x, y, lc) = (bx(&a, l), bx(&b, l), bl(&cc));
            let sh = |r: BoxedUint| (xb(&r), r.nlimbs());
            check!(c, call(|| x.sub_mod_special(&y, lc)).map(sh), ((&a + &p - &b) % &p, l); a, b, cc, l);
            check!(c, call(|| x.neg_mod_special(lc)).map(sh), ((&p - &a) % &p, l); a, cc, l);
            check!(c, call(|| x.mul_mod_special(&y, lc)).map(sh), ((&a * &b) % &p, l); a, b, cc, l);
        }
    }
}

pub fn cases() -> Vec<Case> {
    let mut v = Vec::new();
    ucases!(v, "add_mod/sub_mod/neg_mod/double_mod (+AddMod/SubMod/NegMod)", add_sub_neg; 1, 2, 3, 4, 16, 32);
    ucases!(v, "mul_mod_vartime/MulMod", mul_mod_vartime; 1, 2, 3, 4, 16);
    ucases2!(v, "mul_mod (odd p; panics on even p) wide", mul_mod; (1, 2), (2, 4), (3, 6), (4, 8), (16, 32));
    ucases!(v, "add_mod_special/sub_mod_special/neg_mod_special/mul_mod_special", special; 1, 2, 3, 4, 16);
    ucases!(v, "MontyForm::div_by_2 (halving)", halve; 1, 2, 3, 4, 16);
    case!(v, "BoxedUint::add_mod/add_mod_assign/sub_mod/neg_mod/double_mod (+traits)", boxed_add_sub_neg);
    case!(v, "BoxedUint::mul_mod/MulMod (odd p; panics on even p)", boxed_mul_mod);
    case!(v, "BoxedUint::sub_mod_special/neg_mod_special/mul_mod_special", boxed_special);
    v
}
