//! C17 — radix strings: canonical output, exact parse, overflow always reported.
//!
//! Oracle: `BigUint::to_str_radix` for the canonical numeral; `denote` below for the documented input
//! grammar (optional leading '+', digits 0-9a-zA-Z below the radix, underscores between digits but
//! not first or last; "" and "+" are empty, anything else is an invalid digit). A numeral whose
//! value does not fit yields the documented size error — never a wrapped value. Radix outside
//! 2..=36 is a documented panic.

use super::prelude::*;
use crypto_bigint::DecodeError;

// ---------------------------------------------------------------- oracle

/// What a string denotes under the documented grammar.
#[derive(Clone, PartialEq, Debug)]
enum Denoted {
    Value(BigUint),
    Empty,
    Invalid,
}

fn denote(s: &str, radix: u32) -> Denoted {
    let b = s.as_bytes();
    let d = b.strip_prefix(b"+").unwrap_or(b);
    if d.is_empty() {
        return Denoted::Empty;
    }
    if d[0] == b'_' || d[d.len() - 1] == b'_' {
        return Denoted::Invalid;
    }
    let mut v = BigUint::zero();
    for &ch in d {
        if ch == b'_' {
            continue;
        }
        match (ch as char).to_digit(36) {
            Some(x) if ch < 0x80 && x < radix => v = v * radix + x,
            _ => return Denoted::Invalid,
        }
    }
    Denoted::Value(v)
}

/// Expected result of parsing into a fixed width of `bits` bits.
fn expect_fixed(s: &str, radix: u32, bits: u32) -> Result<BigUint, String> {
    match denote(s, radix) {
        Denoted::Value(v) if v.bits() <= bits as u64 => Ok(v),
        Denoted::Value(_) => Err("InputSize".into()),
        Denoted::Empty => Err("Empty".into()),
        Denoted::Invalid => Err("InvalidDigit".into()),
    }
}

fn res_u<const L: usize>(r: Result<Uint<L>, DecodeError>) -> Result<BigUint, String> {
    r.map(|v| ub(&v)).map_err(|e| format!("{:?}", e))
}

fn res_x(r: Result<BoxedUint, DecodeError>) -> Result<BigUint, String> {
    r.map(|v| xb(&v)).map_err(|e| format!("{:?}", e))
}

/// With a precision: the two "too large" errors are not distinguished (the documentation ties
/// InputSize to a byte length a string does not have); Empty / InvalidDigit stay exact.
fn res_xp(r: Result<BoxedUint, DecodeError>) -> Result<(BigUint, usize), String> {
    r.map(|v| (xb(&v), v.nlimbs())).map_err(|e| match e {
        DecodeError::InputSize | DecodeError::Precision => "InputSize|Precision".to_string(),
        e => format!("{:?}", e),
    })
}

fn expect_prec(s: &str, radix: u32, prec: u32) -> Result<(BigUint, usize), String> {
    match denote(s, radix) {
        Denoted::Value(v) if v.bits() <= prec as u64 => Ok((v, (prec.div_ceil(64) as usize).max(1))),
        Denoted::Value(_) => Err("InputSize|Precision".into()),
        Denoted::Empty => Err("Empty".into()),
        Denoted::Invalid => Err("InvalidDigit".into()),
    }
}

// ---------------------------------------------------------------- inputs

/// 0, 1, radix^j and radix^j -+ 1 for all j that fit (every `step`-th j), MAX, MAX - 1, 2^(bits-1),
/// some edges and random values.
fn radix_values(c: &mut Ctx, limbs: usize, radix: u32, step: usize, n_edges: usize, n_rnd: usize) -> Vec<BigUint> {
    let bits = 64 * limbs as u32;
    let max = mask(bits);
    let mut v = vec![BigUint::zero(), BigUint::one(), max.clone(), &max - 1u32, pow2(bits - 1), pow2(bits - 1) - 1u32];
    let mut p = BigUint::from(radix);
    let mut j = 1usize;
    let mut last = p.clone();
    while p <= max {
        if j % step == 0 {
            v.push(p.clone());
            v.push(&p - 1u32);
            v.push(&p + 1u32);
        }
        last = p.clone();
        p *= radix;
        j += 1;
    }
    // the largest power that fits, always
    v.push(last.clone());
    v.push(&last - 1u32);
    // a full batch of digits per limb (radix^ilog(2^64)) and its multiples
    let per_limb = BigUint::from(radix).pow(u64::MAX.ilog(radix as u64));
    for k in [1u32, 2, 3] {
        let q = per_limb.pow(k);
        if q <= max {
            v.push(q.clone());
            v.push(&q - 1u32);
        }
    }
    if n_edges > 0 {
        v.extend(c.edges(limbs, n_edges));
    }
    for _ in 0..n_rnd {
        v.push(c.rnd(limbs));
    }
    v.retain(|x| *x <= max);
    v
}

/// Insert `n` underscores at interior positions (never first or last; may be adjacent).
fn with_underscores(c: &mut Ctx, s: &str, n: usize) -> String {
    let mut b: Vec<u8> = s.as_bytes().to_vec();
    if b.len() < 2 {
        return s.to_string();
    }
    for _ in 0..n {
        let pos = 1 + c.below(b.len() - 1);
        b.insert(pos, b'_');
    }
    String::from_utf8(b).unwrap()
}

fn mixed_case(c: &mut Ctx, s: &str) -> String {
    s.chars().map(|ch| if c.coin() { ch.to_ascii_uppercase() } else { ch }).collect()
}

/// Accepted spellings of a canonical numeral.
fn spellings(c: &mut Ctx, canon: &str) -> Vec<String> {
    let mut v = vec![
        canon.to_string(),
        format!("+{}", canon),
        format!("0{}", canon),
        format!("+000{}", canon),
        format!("{}{}", "0".repeat(70), canon),
        canon.to_uppercase(),
        mixed_case(c, canon),
        format!("0_{}", canon),
        format!("+0__0_{}", canon),
    ];
    let n = 1 + c.below(4);
    v.push(with_underscores(c, canon, n));
    let u = with_underscores(c, &canon.to_uppercase(), 2);
    v.push(format!("+00{}", u));
    if canon.len() >= 2 {
        // doubled underscore between two digits, underscore after every digit
        v.push(format!("{}__{}", &canon[..1], &canon[1..]));
        let every: Vec<String> = canon.chars().map(|ch| ch.to_string()).collect();
        v.push(every.join("_"));
    }
    v
}

// ---------------------------------------------------------------- Uint

/// to_string_radix_vartime is canonical; every accepted spelling parses back to the same value.
fn round_trip<const L: usize>(c: &mut Ctx) {
    let bits = 64 * L as u32;
    // wide types: few values (the large-divisor recursion is expensive), narrow: all powers
    let (step, n_edges, n_rnd) = match L {
        1..=4 => (1, (c.cap / 70).clamp(8, 64), (c.iters / 35).max(4)),
        5..=16 => (7, (c.cap / 400).clamp(4, 12), (c.iters / 200).max(3)),
        _ => (97, 0, 2),
    };
    for radix in 2..=36u32 {
        for a in radix_values(c, L, radix, step, n_edges, n_rnd) {
            if c.done() {
                return;
            }
            let x = bu::<L>(&a);
            let canon = a.to_str_radix(radix);
            if !check!(c, call(|| x.to_string_radix_vartime(radix)), canon.clone(); a, radix) {
                continue;
            }
            let all = if L <= 16 { spellings(c, &canon) } else { vec![canon.clone(), format!("+0_{}", canon.to_uppercase())] };
            for s in all {
                debug_assert_eq!(expect_fixed(&s, radix, bits), Ok(a.clone()));
                check!(c, call(|| res_u(Uint::<L>::from_str_radix_vartime(&s, radix))), Ok(a.clone()); s, radix);
            }
            check!(c, call(|| res_u(<Uint<L> as num_traits::Num>::from_str_radix(&canon, radix))), Ok(a.clone()); canon, radix);
        }
    }
}

/// Strings that are not (accepted spellings of) numerals, and short strings over the whole
/// alphabet: documented value or documented error.
fn grammar<const L: usize>(c: &mut Ctx) {
    let bits = 64 * L as u32;
    let fixed = [
        "", "+", "_", "+_", "__", "++", "+-", "-", "-1", "+-1", "-0", "++1", "+1+", "1+", "_1", "1_", "+_1", "+1_", "_1_", "__1", "1__",
        "0_", "_0", "+0_", "0", "+0", "00", "0_0", "+0_0", "0__0", "1__2", "1_2", "+1_2_3", "1 ", " 1", "1 2", "1.0", "1,0", "0x10",
        "0X1f", "0b1", "0o7", "1e3", "\u{e9}", "1\u{e9}", "\u{ff11}", "1\u{0}", "\u{0}", "1\n", "\t1", "z", "Z", "zz", "a", "A", "9", "/", ":",
        "@", "[", "`", "{", "1/", "1:", "1@", "1[", "1`", "1{", "+z", "0z", "0_z", "z_z", "10", "11", "+11", "0_1_1",
    ];
    let alphabet: Vec<char> = "0123456789abcdefghijklmnopqrstuvwxyzABCDEFGHIJKLMNOPQRSTUVWXYZ__++".chars().collect();
    let odd_chars: Vec<char> = " -./:@[`{~\u{0}\n\u{7f}\u{e9}\u{20ac}".chars().collect();
    for radix in 2..=36u32 {
        let mut strs: Vec<String> = fixed.iter().map(|s| s.to_string()).collect();
        // every single digit character and its neighbours in the code table
        for b in 0x20u8..0x7f {
            strs.push((b as char).to_string());
            strs.push(format!("1{}", b as char));
            strs.push(format!("{}0", b as char));
        }
        // short random strings (too short to overflow one limb: 36^12 < 2^63)
        for _ in 0..(c.iters / 20).max(8) {
            let len = 1 + c.below(12);
            let mut s = String::new();
            let dirty = c.below(4) == 0;
            for _ in 0..len {
                let ch = if dirty && c.below(5) == 0 {
                    odd_chars[c.below(odd_chars.len())]
                } else {
                    // mostly digits valid for this radix
                    let k = if c.below(8) == 0 { c.below(alphabet.len()) } else { c.below(radix as usize) };
                    if c.below(16) == 0 { '_' } else { alphabet[k] }
                };
                s.push(ch);
            }
            if s.len() <= 12 {
                strs.push(s);
            }
        }
        for s in strs {
            if c.done() {
                return;
            }
            let exp = expect_fixed(&s, radix, bits);
            check!(c, call(|| res_u(Uint::<L>::from_str_radix_vartime(&s, radix))), exp.clone(); s, radix);
            check!(c, call(|| res_u(<Uint<L> as num_traits::Num>::from_str_radix(&s, radix))), exp.clone(); s, radix);
            // a parsed value re-encodes to the canonical numeral of what the string denotes
            if let Ok(v) = &exp {
                let canon = v.to_str_radix(radix);
                check!(c, call(|| Uint::<L>::from_str_radix_vartime(&s, radix).map(|x| x.to_string_radix_vartime(radix)).ok()), Some(canon); s, radix);
            }
        }
        // a canonical numeral with one character damaged (never long enough to overflow first)
        for _ in 0..(c.iters / 40).max(4) {
            if c.done() {
                return;
            }
            let a = c.rnd(L);
            let canon = a.to_str_radix(radix);
            let pos = c.below(canon.len());
            let bad = match c.below(6) {
                0 => '_',
                1 => ' ',
                2 => '-',
                3 => '+',
                // the smallest digit that is not a digit of this radix, in either case
                4 => char::from_digit(radix, 36).unwrap_or('{'),
                _ => char::from_digit(radix, 36).map(|d| d.to_ascii_uppercase()).unwrap_or('@'),
            };
            let s = format!("{}{}{}", &canon[..pos], bad, &canon[pos + 1..]);
            let exp = expect_fixed(&s, radix, bits);
            // a '+' or '_' in front can leave a shorter valid numeral: the oracle decides
            check!(c, call(|| res_u(Uint::<L>::from_str_radix_vartime(&s, radix))), exp; s, radix);
        }
    }
}

/// Values of at least 2^BITS are always reported, 2^BITS - 1 in any spelling is accepted.
fn overflow<const L: usize>(c: &mut Ctx) {
    let bits = 64 * L as u32;
    let max = mask(bits);
    let top = pow2(bits);
    for radix in 2..=36u32 {
        let r = BigUint::from(radix);
        let mut over: Vec<BigUint> = vec![
            top.clone(),
            &top + 1u32,
            &top + 2u32,
            &top + &r,
            &top + (&r - 1u32),
            &top * &r,
            &max * &r + (&r - 1u32),
            &top * 2u32,
            &top * 2u32 - 1u32,
            pow2(bits + 1) + 1u32,
            pow2(bits + 63),
            pow2(bits + 64),
            pow2(bits + 64) - 1u32,
            pow2(bits + 64) + 1u32,
            pow2(2 * bits),
            pow2(2 * bits) - 1u32,
            pow2(2 * bits + 64) + &max,
            pow2(8 * bits + 17) + 5u32,
            // value whose low BITS bits look like a small number (a wrapped result would be plausible)
            &top + 42u32,
            &top * 3u32 + 7u32,
            (&top << 64usize) + 9u32,
        ];
        // the smallest power of the radix that does not fit, and neighbours; a full extra batch of digits
        let mut p = BigUint::one();
        while p <= max {
            p *= &r;
        }
        let per_limb = BigUint::from(radix).pow(u64::MAX.ilog(radix as u64));
        over.extend([p.clone(), &p - 1u32, &p + 1u32, &p * &r, &p * &per_limb, &max * &per_limb, &top * &per_limb - 1u32]);
        for _ in 0..(c.iters / 40).max(4) {
            // 2^BITS + something below 2^k for assorted k
            let k = 1 + c.below(2 * bits as usize + 70) as u32;
            let extra = c.rnd(2 * L + 2) & mask(k);
            over.push(&top + extra);
            over.push(&top + BigUint::from(c.edgy_word()));
        }
        over.retain(|v| *v > max);
        for v in over {
            if c.done() {
                return;
            }
            let canon = v.to_str_radix(radix);
            let mut forms = vec![canon.clone(), format!("+00{}", canon), canon.to_uppercase()];
            forms.push(with_underscores(c, &canon, 2));
            for s in forms {
                debug_assert_eq!(denote(&s, radix), Denoted::Value(v.clone()));
                check!(c, call(|| res_u(Uint::<L>::from_str_radix_vartime(&s, radix))), Err("InputSize".to_string()); s, radix);
                check!(c, call(|| res_u(<Uint<L> as num_traits::Num>::from_str_radix(&s, radix))), Err("InputSize".to_string()); s, radix);
            }
        }
        // many more digits than fit
        for d in ["1", "9", "z", "Z"] {
            let ch = d.chars().next().unwrap();
            let digit = if ch.to_digit(36).unwrap() < radix { d.to_string() } else { char::from_digit(radix - 1, 36).unwrap().to_string() };
            for mult in [2usize, 5] {
                let s = digit.repeat(mult * bits as usize + 3);
                check!(c, call(|| res_u(Uint::<L>::from_str_radix_vartime(&s, radix))), Err("InputSize".to_string()); s, radix);
                let s = format!("1{}", "0".repeat(mult * bits as usize));
                check!(c, call(|| res_u(Uint::<L>::from_str_radix_vartime(&s, radix))), Err("InputSize".to_string()); s, radix);
            }
        }
        // values that just fit, in every spelling
        for v in [max.clone(), &max - 1u32, &p / &r, &p / &r - 1u32, &max - &r, pow2(bits - 1)] {
            let canon = v.to_str_radix(radix);
            let mut forms = spellings(c, &canon);
            forms.push(format!("{}{}", "0".repeat(3 * bits as usize), canon));
            forms.push(format!("+{}_{}", "0_0".repeat(bits as usize), canon));
            for s in forms {
                if c.done() {
                    return;
                }
                check!(c, call(|| res_u(Uint::<L>::from_str_radix_vartime(&s, radix))), Ok(v.clone()); s, radix);
            }
        }
    }
}

/// A string that is not a numeral is an invalid-digit error even when it is also too long for
/// the type ("... and the empty/invalid-digit error if it is not a numeral").
fn not_a_numeral_and_too_long<const L: usize>(c: &mut Ctx) {
    let bits = 64 * L as u32;
    for radix in [10u32, 16].into_iter().chain(2..=36u32) {
        let big = (pow2(bits + 130) + c.rnd(L)).to_str_radix(radix);
        let next_digit = char::from_digit(radix, 36).unwrap_or('{');
        for bad in ['.', ' ', '-', '{', next_digit, '\u{e9}'] {
            let n = big.len();
            let strs = [
                format!("{}{}", big, bad),
                format!("{}{}", bad, big),
                format!("{}{}{}", &big[..n / 2], bad, &big[n / 2..]),
                format!("{}{}{}", &big[..n - 1], bad, &big[n - 1..]),
                format!("{}{}{}", &big[..1], bad, &big[1..]),
                format!("{}_", big),
                format!("_{}", big),
            ];
            for s in strs {
                if c.done() {
                    return;
                }
                debug_assert_eq!(denote(&s, radix), Denoted::Invalid);
                check!(c, call(|| res_u(Uint::<L>::from_str_radix_vartime(&s, radix))), Err("InvalidDigit".to_string()); s, radix);
            }
        }
    }
}

/// Radix outside 2..=36: documented panic, whatever the input.
fn bad_radix<const L: usize>(c: &mut Ctx) {
    let vals = c.edges(L, 6);
    for radix in [0u32, 1, 37, 38, 64, 256, u32::MAX] {
        for s in ["", "0", "1", "10", "+1", "_", "zz"] {
            must_panic!(c, call(|| res_u(Uint::<L>::from_str_radix_vartime(s, radix))); s, radix);
            must_panic!(c, call(|| res_x(BoxedUint::from_str_radix_vartime(s, radix))); s, radix);
            must_panic!(c, call(|| res_x(BoxedUint::from_str_radix_with_precision_vartime(s, radix, 64 * L as u32))); s, radix);
        }
        for a in &vals {
            let x = bu::<L>(a);
            must_panic!(c, call(|| x.to_string_radix_vartime(radix)); a, radix);
            let y = bx(a, L);
            must_panic!(c, call(|| y.to_string_radix_vartime(radix)); a, radix);
        }
    }
}

// ---------------------------------------------------------------- BoxedUint

/// to_string_radix_vartime for a given limb count; from_str_radix_vartime parses every spelling.
fn boxed_round_trip_limbs(c: &mut Ctx, nl: usize, step: usize, n_edges: usize, n_rnd: usize, all_spellings: bool) {
    for radix in 2..=36u32 {
        for a in radix_values(c, nl, radix, step, n_edges, n_rnd) {
            if c.done() {
                return;
            }
            let x = bx(&a, nl);
            let canon = a.to_str_radix(radix);
            check!(c, call(|| x.to_string_radix_vartime(radix)), canon.clone(); a, nl, radix);
            let all = if all_spellings { spellings(c, &canon) } else { vec![canon.clone(), format!("+0_{}", canon.to_uppercase())] };
            for s in all {
                // (the numeral "0" is known to give a value without limbs: only its value is compared)
                check!(c, call(|| res_x(BoxedUint::from_str_radix_vartime(&s, radix))), Ok(a.clone()); s, radix);
                if !a.is_zero() {
                    let re = call(|| BoxedUint::from_str_radix_vartime(&s, radix).ok().filter(|v| v.nlimbs() > 0).map(|v| v.to_string_radix_vartime(radix)));
                    check!(c, re, Some(canon.clone()); s, radix);
                }
            }
        }
    }
}

fn boxed_round_trip_small(c: &mut Ctx) {
    for nl in 1..=4usize {
        let (e, r) = ((c.cap / 560).clamp(4, 16), (c.iters / 280).max(3));
        boxed_round_trip_limbs(c, nl, 1, e, r, true);
    }
}

fn boxed_round_trip_large(c: &mut Ctx) {
    // around the 32-limb large-divisor threshold, its multiples, and the 128-limb stack buffer
    for nl in [31usize, 32, 33, 34, 63, 64, 65, 96, 128, 129, 140] {
        boxed_round_trip_limbs(c, nl, 9973, 0, 1, false);
    }
}

fn boxed_grammar(c: &mut Ctx) {
    let fixed = [
        "", "+", "_", "+_", "__", "++", "-1", "++1", "1+", "_1", "1_", "+_1", "+1_", "0_", "_0", "0", "+0", "00", "0_0", "1__2", "1_2", "1 ",
        " 1", "1.0", "0x10", "\u{e9}", "1\u{e9}", "z", "Z", "a", "A", "9", "/", ":", "@", "[", "`", "{", "+z", "0z", "10", "+11",
    ];
    for radix in 2..=36u32 {
        let mut strs: Vec<String> = fixed.iter().map(|s| s.to_string()).collect();
        for b in 0x20u8..0x7f {
            strs.push(format!("1{}", b as char));
            strs.push(format!("{}0", b as char));
        }
        for s in strs {
            if c.done() {
                return;
            }
            // unbounded target: every numeral fits
            let exp = expect_fixed(&s, radix, u32::MAX);
            check!(c, call(|| res_x(BoxedUint::from_str_radix_vartime(&s, radix))), exp.clone(); s, radix);
            for prec in [0u32, 1, 5, 6, 7, 63, 64, 65, 128] {
                check!(c, call(|| res_xp(BoxedUint::from_str_radix_with_precision_vartime(&s, radix, prec))), expect_prec(&s, radix, prec); s, radix, prec);
            }
        }
    }
}

/// from_str_radix_with_precision_vartime: an error exactly when the value needs more bits than
/// the precision; the result has the requested precision rounded up to whole limbs.
fn boxed_with_precision(c: &mut Ctx) {
    for radix in 2..=36u32 {
        for nl in 1..=4usize {
            let (e, r) = ((c.cap / 1200).clamp(3, 8), (c.iters / 600).max(2));
            for a in radix_values(c, nl, radix, 5, e, r) {
                let canon = a.to_str_radix(radix);
                let bits = a.bits() as u32;
                let mut precs = vec![0, 1, bits.saturating_sub(1), bits, bits + 1, bits.saturating_sub(64), bits + 64];
                precs.extend([bits / 64 * 64, bits.div_ceil(64) * 64, bits.div_ceil(64) * 64 + 1, (bits.div_ceil(64) * 64).saturating_sub(1), 64 * nl as u32, 64 * nl as u32 + 1, 520]);
                precs.sort();
                precs.dedup();
                let under = with_underscores(c, &canon.to_uppercase(), 2);
                for prec in precs {
                    for s in [canon.clone(), format!("+00{}", under)] {
                        if c.done() {
                            return;
                        }
                        let exp = expect_prec(&s, radix, prec);
                        debug_assert_eq!(exp.is_ok(), bits <= prec);
                        check!(c, call(|| res_xp(BoxedUint::from_str_radix_with_precision_vartime(&s, radix, prec))), exp; s, radix, prec);
                    }
                }
            }
        }
    }
}

// ---------------------------------------------------------------- table

pub fn cases() -> Vec<Case> {
    let mut v = Vec::new();
    ucases!(v, "to_string_radix_vartime canonical / from_str_radix_vartime / Num::from_str_radix round trip", round_trip; 1, 2, 3, 4, 8, 16, 33, 40);
    ucases!(v, "from_str_radix_vartime grammar ('+', '_', case, empty, invalid digits)", grammar; 1, 2, 3, 4, 16);
    ucases!(v, "from_str_radix_vartime overflow boundary", overflow; 1, 2, 3, 4, 8, 16);
    ucases!(v, "from_str_radix_vartime not a numeral and too long", not_a_numeral_and_too_long; 1, 2, 4);
    ucases!(v, "radix outside 2..=36 (Uint and BoxedUint, parse and format)", bad_radix; 1, 2, 4);
    case!(v, "BoxedUint::to_string_radix_vartime / from_str_radix_vartime round trip 1..=4 limbs", boxed_round_trip_small);
    case!(v, "BoxedUint::to_string_radix_vartime / from_str_radix_vartime round trip 31..=140 limbs", boxed_round_trip_large);
    case!(v, "BoxedUint::from_str_radix_vartime / with_precision grammar", boxed_grammar);
    case!(v, "BoxedUint::from_str_radix_with_precision_vartime precision boundary", boxed_with_precision);
    v
}
