//! C11 — totality: panics, overflow traps and assertion failures only where documented.
//!
//! Thin version: (1) every case of every other property is re-run in "panic only" mode (value
//! mismatches are ignored, a panic inside `call` in the documented domain is a failure, and the
//! `must_panic!` expectations for the documented panics stay active); the crate is built with
//! debug assertions and overflow checks, so arithmetic traps surface as panics. (2) A few cases
//! that throw hostile arguments at the option/result-returning APIs, which must not panic
//! whatever their arguments.
//!
//! Not covered: the optimised profile without debug assertions (one profile only), non-termination
//! (no watchdog).

use super::prelude::*;
use crypto_bigint::{CheckedAdd, CheckedMul, CheckedSub, Integer, InvMod, U64, U128, U192, U256};
use der::Decode;

/// Garbage byte strings: empty, short, long, all-zero, all-ones, DER/RLP-looking prefixes.
fn garbage(c: &mut Ctx, max_len: usize) -> Vec<u8> {
    let len = c.below(max_len + 1);
    let mut v: Vec<u8> = (0..len).map(|_| c.word() as u8).collect();
    match c.below(8) {
        0 => v.iter_mut().for_each(|b| *b = 0),
        1 => v.iter_mut().for_each(|b| *b = 0xff),
        2 if len >= 2 => {
            v[0] = 0x02;
            v[1] = (len - 2) as u8;
        }
        3 if len >= 2 => {
            v[0] = 0x02;
            v[1] = c.word() as u8;
        }
        4 if len >= 1 => v[0] = 0x80 + (len as u8 - 1).min(55),
        5 if len >= 3 => {
            v[0] = 0x02;
            v[1] = 0x81;
            v[2] = (len - 3) as u8;
        }
        _ => {}
    }
    v
}

fn hostile_uint<const L: usize>(c: &mut Ctx)
where
    Uint<L>: InvMod<Output = Uint<L>>,
{
    let bits = 64 * L as u32;
    let shifts = [0u32, 1, 63, 64, 65, bits - 1, bits, bits + 1, 2 * bits, u32::MAX - 1, u32::MAX, 1 << 31];
    for (a, b) in c.scaled(4, |c| c.inputs2(L, L)) {
        if c.done() {
            return;
        }
        let (x, y) = (bu::<L>(&a), bu::<L>(&b));
        no_panic!(c, call(|| opt(x.checked_add(&y)).is_some()); a, b);
        no_panic!(c, call(|| opt(x.checked_sub(&y)).is_some()); a, b);
        no_panic!(c, call(|| opt(x.checked_mul(&y)).is_some()); a, b);
        no_panic!(c, call(|| opt(x.checked_div(&y)).is_some()); a, b);
        no_panic!(c, call(|| opt(x.checked_rem(&y)).is_some()); a, b);
        no_panic!(c, call(|| x.saturating_add(&y)); a, b);
        no_panic!(c, call(|| x.saturating_sub(&y)); a, b);
        no_panic!(c, call(|| x.saturating_mul(&y)); a, b);
        no_panic!(c, call(|| x.wrapping_add(&y)); a, b);
        no_panic!(c, call(|| x.wrapping_sub(&y)); a, b);
        no_panic!(c, call(|| x.wrapping_mul(&y)); a, b);
        // inversion with an arbitrary (zero, even, odd) modulus and arbitrary value
        no_panic!(c, call(|| opt(InvMod::inv_mod(&x, &y)).is_some()); a, b);
        no_panic!(c, call(|| opt(x.checked_sqrt()).is_some()); a);
        let s = shifts[c.below(shifts.len())];
        no_panic!(c, call(|| copt(x.overflowing_shl(s)).is_some()); a, s);
        no_panic!(c, call(|| copt(x.overflowing_shr(s)).is_some()); a, s);
        no_panic!(c, call(|| copt(x.overflowing_shl_vartime(s)).is_some()); a, s);
        no_panic!(c, call(|| copt(x.overflowing_shr_vartime(s)).is_some()); a, s);
        no_panic!(c, call(|| copt(Uint::<L>::overflowing_shl_vartime_wide((x, y), s)).is_some()); a, b, s);
        no_panic!(c, call(|| copt(Uint::<L>::overflowing_shr_vartime_wide((x, y), s)).is_some()); a, b, s);
        no_panic!(c, call(|| x.wrapping_shl(s)); a, s);
        no_panic!(c, call(|| x.wrapping_shr(s)); a, s);
        no_panic!(c, call(|| x.wrapping_shl_vartime(s)); a, s);
        no_panic!(c, call(|| x.wrapping_shr_vartime(s)); a, s);
        no_panic!(c, call(|| x.rem2k_vartime(s)); a, s);
        no_panic!(c, call(|| NonZero::new(x).is_some()); a);
        no_panic!(c, call(|| Odd::new(x).is_some()); a);
    }
}

fn hostile_boxed(c: &mut Ctx) {
    let shifts = [0u32, 1, 63, 64, 65, 127, 128, 129, 255, 256, 257, 512, u32::MAX - 1, u32::MAX, 1 << 31];
    for l in 1..=4usize {
        for (a, b) in c.scaled(16, |c| c.inputs2(l, l)) {
            if c.done() {
                return;
            }
            let (x, y) = (bx(&a, l), bx(&b, l));
            no_panic!(c, call(|| opt(x.checked_div(&y)).is_some()); a, b, l);
            no_panic!(c, call(|| opt(x.inv_mod(&y)).is_some()); a, b, l);
            no_panic!(c, call(|| opt(x.checked_sqrt()).is_some()); a, l);
            let s = shifts[c.below(shifts.len())];
            no_panic!(c, call(|| x.overflowing_shl(s).1); a, l, s);
            no_panic!(c, call(|| x.overflowing_shr(s).1); a, l, s);
            no_panic!(c, call(|| x.shl_vartime(s).is_some()); a, l, s);
            no_panic!(c, call(|| x.shr_vartime(s).is_some()); a, l, s);
            no_panic!(c, call(|| x.wrapping_shl(s)); a, l, s);
            no_panic!(c, call(|| x.wrapping_shr(s)); a, l, s);
            no_panic!(c, call(|| x.wrapping_shl_vartime(s)); a, l, s);
            no_panic!(c, call(|| x.wrapping_shr_vartime(s)); a, l, s);
        }
    }
}

/// Decoders fed with garbage must return, not panic.
fn hostile_decoders(c: &mut Ctx) {
    let n = (c.cap + c.iters) * 2;
    for _ in 0..n {
        if c.done() {
            return;
        }
        let bytes = garbage(c, 40);
        no_panic!(c, call(|| U64::from_der(&bytes).is_ok()); bytes);
        no_panic!(c, call(|| U128::from_der(&bytes).is_ok()); bytes);
        no_panic!(c, call(|| U256::from_der(&bytes).is_ok()); bytes);
        no_panic!(c, call(|| rlp::decode::<U64>(&bytes).is_ok()); bytes);
        no_panic!(c, call(|| rlp::decode::<U192>(&bytes).is_ok()); bytes);
        no_panic!(c, call(|| rlp::decode::<U256>(&bytes).is_ok()); bytes);
        let prec = [0u32, 1, 7, 8, 63, 64, 65, 128, 129, 256][c.below(10)];
        no_panic!(c, call(|| BoxedUint::from_be_slice(&bytes, prec).is_ok()); bytes, prec);
        no_panic!(c, call(|| BoxedUint::from_le_slice(&bytes, prec).is_ok()); bytes, prec);
        // strings: arbitrary bytes that happen to be UTF-8, and numeral-like strings
        let text: String = if c.coin() {
            String::from_utf8_lossy(&bytes).into_owned()
        } else {
            let alphabet = b"0123456789abcdefghijklmnopqrstuvwxyzABCDEFGHIJKLMNOPQRSTUVWXYZ_+-/:@G`g ";
            (0..c.below(70)).map(|_| alphabet[c.below(alphabet.len())] as char).collect()
        };
        let radix = 2 + c.below(35) as u32;
        no_panic!(c, call(|| U64::from_str_radix_vartime(&text, radix).is_ok()); text, radix);
        no_panic!(c, call(|| U192::from_str_radix_vartime(&text, radix).is_ok()); text, radix);
        no_panic!(c, call(|| BoxedUint::from_str_radix_vartime(&text, radix).is_ok()); text, radix);
        no_panic!(c, call(|| BoxedUint::from_str_radix_with_precision_vartime(&text, radix, prec).is_ok()); text, radix, prec);
        // right length, arbitrary characters (the wrong-length behaviour has its own case)
        let nl = c.below(4);
        let hex: String = (0..16 * nl).map(|_| if c.below(4) == 0 { (c.word() as u8 & 0x7f) as char } else { b"0123456789abcdefABCDEF"[c.below(22)] as char }).collect();
        let hprec = 64 * nl as u32;
        no_panic!(c, call(|| opt(BoxedUint::from_be_hex(&hex, hprec)).is_some()); hex, hprec);
    }
}

/// `BoxedUint::from_be_hex` returns a `CtOption` and documents no panic: a string whose length
/// does not match the precision must be rejected (none), not panic.
fn boxed_hex_wrong_length(c: &mut Ctx) {
    for prec in [0u32, 1, 63, 64, 65, 128, 192] {
        for len in [0usize, 1, 2, 15, 16, 17, 31, 32, 33, 48] {
            if c.done() {
                return;
            }
            let hex: String = (0..len).map(|_| b"0123456789abcdef"[c.below(16)] as char).collect();
            no_panic!(c, call(|| opt(BoxedUint::from_be_hex(&hex, prec)).is_some()); hex, prec);
        }
    }
}

/// The numeral "0" (and "+0", "000", "0_0") parsed into a BoxedUint must be a usable value: the
/// basic queries on the result must not panic.
fn boxed_zero_numeral(c: &mut Ctx) {
    for text in ["0", "+0", "000", "0_0", "00000000000000000000000000000000000000000000000000000000000000000000000000000000"] {
        for radix in 2..=36u32 {
            if c.done() {
                return;
            }
            let r = call(|| BoxedUint::from_str_radix_vartime(text, radix));
            let z = match &r {
                Ok(Ok(z)) => Some(z.clone()),
                _ => None,
            };
            no_panic!(c, r; text, radix);
            let Some(z) = z else { continue };
            no_panic!(c, call(|| cb(z.is_zero())); text, radix);
            no_panic!(c, call(|| z.bits()); text, radix);
            no_panic!(c, call(|| z.bits_vartime()); text, radix);
            no_panic!(c, call(|| z.bits_precision()); text, radix);
            no_panic!(c, call(|| z.leading_zeros()); text, radix);
            no_panic!(c, call(|| z.trailing_zeros()); text, radix);
            no_panic!(c, call(|| z.to_string_radix_vartime(radix)); text, radix);
            no_panic!(c, call(|| z.to_be_bytes().len()); text, radix);
            no_panic!(c, call(|| cb(z.is_odd())); text, radix);
            no_panic!(c, call(|| z.wrapping_add(&z).nlimbs()); text, radix);
            no_panic!(c, call(|| z.widen(64).nlimbs()); text, radix);
            no_panic!(c, call(|| z.sqrt_vartime().nlimbs()); text, radix);
        }
    }
}

/// `inv_mod2k` / `inv_mod2k_vartime` report failure through an option (`ConstCtOption`, or a
/// `(value, Choice)` pair for BoxedUint): a bit count above the width must not panic. (The
/// constant-time form returns none for an even value / some for an odd one; the vartime form is
/// the one at risk. k is kept <= 2*BITS+1: the vartime loop runs k times.)
fn inv_mod2k_large_k<const L: usize>(c: &mut Ctx) {
    let bits = 64 * L as u32;
    for a in c.edges(L, 24) {
        for k in [bits + 1, bits + 2, bits + 63, bits + 64, bits + 65, 2 * bits, 2 * bits + 1] {
            if c.done() {
                return;
            }
            let x = bu::<L>(&a);
            no_panic!(c, call(|| copt(x.inv_mod2k(k)).is_some()); a, k);
            no_panic!(c, call(|| copt(x.inv_mod2k_vartime(k)).is_some()); a, k);
        }
    }
}

fn boxed_inv_mod2k_large_k(c: &mut Ctx) {
    for l in 1..=3usize {
        let bits = 64 * l as u32;
        for a in c.edges(l, 12) {
            for k in [bits + 1, bits + 63, bits + 64, bits + 65, 2 * bits + 1] {
                if c.done() {
                    return;
                }
                let x = bx(&a, l);
                no_panic!(c, call(|| cb(x.inv_mod2k(k).1)); a, l, k);
                no_panic!(c, call(|| cb(x.inv_mod2k_vartime(k).1)); a, l, k);
            }
        }
    }
}

pub fn cases() -> Vec<Case> {
    let mut v = Vec::new();
    ucases!(v, "option/saturating/wrapping forms with arbitrary arguments", hostile_uint; 1, 2, 3, 4, 16);
    case!(v, "BoxedUint option/wrapping forms with arbitrary arguments", hostile_boxed);
    case!(v, "decoders (DER, RLP, slices, hex, radix) with garbage", hostile_decoders);
    case!(v, "BoxedUint::from_str_radix_vartime(\"0\") yields a usable value", boxed_zero_numeral);
    case!(v, "BoxedUint::from_be_hex with a string of the wrong length", boxed_hex_wrong_length);
    ucases!(v, "inv_mod2k/inv_mod2k_vartime with k > BITS", inv_mod2k_large_k; 1, 2, 4);
    case!(v, "BoxedUint::inv_mod2k/inv_mod2k_vartime with k > precision", boxed_inv_mod2k_large_k);
    // every case of every other property, panic-only
    for p in super::PROPS {
        if p == "C11" {
            continue;
        }
        for case in super::cases(p).unwrap() {
            v.push(Case::new(format!("{}/{}", p, case.name), case.run));
        }
    }
    v
}
