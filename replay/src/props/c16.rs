//! C16 — byte, hex, word and primitive conversions are lossless, positional and strict.
//!
//! Oracle: the big-endian byte i of an n-byte value x is floor(x / 256^(n-1-i)) mod 256 (taken from
//! `BigUint::to_bytes_le`, i.e. the coefficient of 256^(n-1-i)), little-endian reversed; hex /
//! binary strings are `format!("{:x}")` / `{:b}` of the oracle value padded to the full width;
//! decoders are compared with `BigUint::from_bytes_be` / `parse_bytes`. Primitive conversions,
//! concat / split / resize / widen / shorten are compared with the plain arithmetic meaning
//! (lo + hi * 2^(64 LO), x mod 2^(64 T), sign extension).
//!
//! Not covered here: serde (feature not built), NonZero/Odd wrappers (C12), the known
//! BoxedUint::from_be_hex length panic (C11).

use super::prelude::*;
use crypto_bigint::{
    ArrayDecoding, ArrayEncoding, ByteArray, Concat, ConcatMixed, DecodeError, Encoding, I64, I128, Split, SplitMixed, U64,
    U128, WideWord,
};
use num_traits::ToPrimitive;

// ---------------------------------------------------------------- oracle helpers

/// Big-endian bytes of `x` in exactly `n` bytes: byte i is the coefficient of 256^(n-1-i).
fn be_bytes(x: &BigUint, n: usize) -> Vec<u8> {
    let le = x.to_bytes_le();
    (0..n).map(|i| *le.get(n - 1 - i).unwrap_or(&0)).collect()
}

/// Little-endian bytes of `x` in exactly `n` bytes: byte i is the coefficient of 256^i.
fn le_bytes(x: &BigUint, n: usize) -> Vec<u8> {
    let le = x.to_bytes_le();
    (0..n).map(|i| *le.get(i).unwrap_or(&0)).collect()
}

fn hex_of(bytes: &[u8]) -> String {
    bytes.iter().map(|b| format!("{:02x}", b)).collect()
}

/// Randomly mixed letter case.
fn mixed_case(c: &mut Ctx, s: &str) -> String {
    s.chars().map(|ch| if c.coin() { ch.to_ascii_uppercase() } else { ch.to_ascii_lowercase() }).collect()
}

/// A structured random byte string.
fn rnd_bytes(c: &mut Ctx, n: usize) -> Vec<u8> {
    let style = c.below(4);
    (0..n)
        .map(|_| match (style, c.below(6)) {
            (0, _) => c.word() as u8,
            (_, 0) => 0,
            (_, 1) => 0xff,
            (_, 2) => 0x80,
            (_, 3) => 0x7f,
            (_, 4) => 1,
            _ => c.word() as u8,
        })
        .collect()
}

/// Every single-byte character that is not a hex digit (the full 7-bit alphabet).
fn non_hex_ascii() -> Vec<char> {
    (0u8..0x80).filter(|b| !b.is_ascii_hexdigit()).map(|b| b as char).collect()
}

const HEX_DIGITS: &str = "0123456789abcdefABCDEF";
/// Multi-byte UTF-8 sequences (2, 3, 4 bytes; bytes 0x80..0xff) used to replace as many hex digits.
const MULTI: [&str; 6] = ["\u{e9}", "\u{20ac}", "\u{1f600}", "\u{80}", "\u{7ff}", "\u{ffff}"];

/// Character positions worth probing in a hex string of `len` characters.
fn hex_positions(c: &mut Ctx, len: usize) -> Vec<usize> {
    let mut p = vec![0, 1, 2, 14, 15, 16, 17, len / 2, len - 3, len - 2, len - 1, c.below(len), c.below(len)];
    p.retain(|&i| i < len);
    p.sort();
    p.dedup();
    p
}

fn replace_at(s: &str, pos: usize, nchars: usize, with: &str) -> String {
    format!("{}{}{}", &s[..pos], with, &s[pos + nchars..])
}

/// Value denoted by a little-endian hex string (pairs of digits, least significant byte first).
fn parse_le_hex(s: &str) -> Option<BigUint> {
    let b = s.as_bytes();
    let mut rev = Vec::with_capacity(b.len());
    for pair in b.chunks(2).rev() {
        rev.extend_from_slice(pair);
    }
    BigUint::parse_bytes(&rev, 16)
}

fn signed_of(a: &BigUint, bits: u32) -> BigInt {
    wrap_signed(&BigInt::from(a.clone()), bits)
}

// ---------------------------------------------------------------- Uint: bytes, slices, arrays (concrete aliases)

macro_rules! fixed_mod {
    ($m:ident, $ty:ident, $l:literal) => {
        mod $m {
            use super::*;
            type T = crypto_bigint::$ty;
            const L: usize = $l;
            const N: usize = 8 * $l;

            /// to_*_bytes (inherent const form + Encoding), from_*_bytes, from_*_slice, hybrid-array forms.
            pub fn bytes(c: &mut Ctx) {
                for a in c.inputs1(L) {
                    if c.done() {
                        return;
                    }
                    let x: T = bu::<L>(&a);
                    let (be, le) = (be_bytes(&a, N), le_bytes(&a, N));
                    // encode: inherent const fn (macro generated), Encoding trait, ArrayEncoding
                    check!(c, call(|| T::to_be_bytes(&x).to_vec()), be.clone(); a);
                    check!(c, call(|| T::to_le_bytes(&x).to_vec()), le.clone(); a);
                    check!(c, call(|| Encoding::to_be_bytes(&x).to_vec()), be.clone(); a);
                    check!(c, call(|| Encoding::to_le_bytes(&x).to_vec()), le.clone(); a);
                    check!(c, call(|| ArrayEncoding::to_be_byte_array(&x).to_vec()), be.clone(); a);
                    check!(c, call(|| ArrayEncoding::to_le_byte_array(&x).to_vec()), le.clone(); a);
                    // decode
                    let bea: [u8; N] = be.clone().try_into().unwrap();
                    let lea: [u8; N] = le.clone().try_into().unwrap();
                    check!(c, call(|| <T as Encoding>::from_be_bytes(bea)).map(|r| ub(&r)), a.clone(); a);
                    check!(c, call(|| <T as Encoding>::from_le_bytes(lea)).map(|r| ub(&r)), a.clone(); a);
                    check!(c, call(|| T::from_be_slice(&be)).map(|r| ub(&r)), a.clone(); a);
                    check!(c, call(|| T::from_le_slice(&le)).map(|r| ub(&r)), a.clone(); a);
                    let bar: ByteArray<T> = ByteArray::<T>::try_from(&be[..]).unwrap();
                    let lar: ByteArray<T> = ByteArray::<T>::try_from(&le[..]).unwrap();
                    check!(c, call(|| T::from_be_byte_array(bar.clone())).map(|r| ub(&r)), a.clone(); a);
                    check!(c, call(|| T::from_le_byte_array(lar.clone())).map(|r| ub(&r)), a.clone(); a);
                    check!(c, call(|| bar.clone().into_uint_be()).map(|r| ub(&r)), a.clone(); a);
                    check!(c, call(|| lar.clone().into_uint_le()).map(|r| ub(&r)), a.clone(); a);
                }
                // decode first, then encode: any N-byte string is the encoding of from_bytes(bytes)
                for _ in 0..(c.iters / 4).max(16) {
                    if c.done() {
                        return;
                    }
                    let bytes = rnd_bytes(c, N);
                    let vbe = BigUint::from_bytes_be(&bytes);
                    let vle = BigUint::from_bytes_le(&bytes);
                    check!(c, call(|| T::from_be_slice(&bytes)).map(|r| ub(&r)), vbe.clone(); bytes);
                    check!(c, call(|| T::from_le_slice(&bytes)).map(|r| ub(&r)), vle.clone(); bytes);
                    check!(c, call(|| T::from_be_slice(&bytes).to_be_bytes().to_vec()), bytes.clone(); bytes);
                    check!(c, call(|| T::from_le_slice(&bytes).to_le_bytes().to_vec()), bytes.clone(); bytes);
                    let arr: [u8; N] = bytes.clone().try_into().unwrap();
                    check!(c, call(|| Encoding::to_le_bytes(&<T as Encoding>::from_le_bytes(arr)).to_vec()), bytes.clone(); bytes);
                    check!(c, call(|| Encoding::to_be_bytes(&<T as Encoding>::from_be_bytes(arr)).to_vec()), bytes.clone(); bytes);
                    let ar: ByteArray<T> = ByteArray::<T>::try_from(&bytes[..]).unwrap();
                    check!(c, call(|| ar.clone().into_uint_be().to_be_byte_array().to_vec()), bytes.clone(); bytes);
                    check!(c, call(|| ar.clone().into_uint_le().to_le_byte_array().to_vec()), bytes.clone(); bytes);
                }
            }

            /// from_be_slice / from_le_slice reject every slice whose length is not exactly BYTES.
            pub fn wrong_len(c: &mut Ctx) {
                for len in 0..=N + 9 {
                    if len == N {
                        continue;
                    }
                    for fill in 0..3 {
                        if c.done() {
                            return;
                        }
                        let bytes: Vec<u8> = match fill {
                            0 => vec![0u8; len],
                            1 => vec![0xffu8; len],
                            _ => rnd_bytes(c, len),
                        };
                        must_panic!(c, call(|| T::from_be_slice(&bytes)).map(|r| ub(&r)); bytes, len);
                        must_panic!(c, call(|| T::from_le_slice(&bytes)).map(|r| ub(&r)); bytes, len);
                    }
                }
            }
        }
    };
}

fixed_mod!(f64, U64, 1);
fixed_mod!(f128, U128, 2);
fixed_mod!(f192, U192, 3);
fixed_mod!(f256, U256, 4);
fixed_mod!(f384, U384, 6);
fixed_mod!(f512, U512, 8);
fixed_mod!(f1024, U1024, 16);
fixed_mod!(f2048, U2048, 32);

// ---------------------------------------------------------------- Uint / Int: hex

/// from_be_hex / from_le_hex / Int::from_be_hex accept the full-width numeral in either case.
fn hex_accept<const L: usize>(c: &mut Ctx) {
    let (w, bits) = (16 * L, 64 * L as u32);
    for a in c.inputs1(L) {
        if c.done() {
            return;
        }
        let lower = format!("{:0w$x}", a);
        let le_lower = hex_of(&le_bytes(&a, 8 * L));
        let forms = [lower.clone(), lower.to_uppercase(), mixed_case(c, &lower)];
        for s in forms {
            check!(c, call(|| Uint::<L>::from_be_hex(&s)).map(|r| ub(&r)), a.clone(); s);
            check!(c, call(|| Int::<L>::from_be_hex(&s)).map(|r| ib(&r)), signed_of(&a, bits); s);
        }
        let forms = [le_lower.clone(), le_lower.to_uppercase(), mixed_case(c, &le_lower)];
        for s in forms {
            check!(c, call(|| Uint::<L>::from_le_hex(&s)).map(|r| ub(&r)), a.clone(); s);
        }
    }
    // every hex digit at the probed positions: the value is the one the numeral denotes
    for base in hex_bases::<L>(c) {
        for pos in hex_positions(c, w) {
            for d in HEX_DIGITS.chars() {
                if c.done() {
                    return;
                }
                let s = replace_at(&base, pos, 1, &d.to_string());
                let vbe = BigUint::parse_bytes(s.as_bytes(), 16).unwrap();
                let vle = parse_le_hex(&s).unwrap();
                check!(c, call(|| Uint::<L>::from_be_hex(&s)).map(|r| ub(&r)), vbe.clone(); s);
                check!(c, call(|| Uint::<L>::from_le_hex(&s)).map(|r| ub(&r)), vle; s);
                check!(c, call(|| Int::<L>::from_be_hex(&s)).map(|r| ib(&r)), signed_of(&vbe, bits); s);
            }
        }
    }
}

/// A few well-formed full-width hex strings to be damaged.
fn hex_bases<const L: usize>(c: &mut Ctx) -> Vec<String> {
    let w = 16 * L;
    let r1 = format!("{:0w$x}", c.rnd(L));
    let r2 = format!("{:0w$X}", c.rnd(L));
    vec!["0".repeat(w), "f".repeat(w), "F".repeat(w), "9".repeat(w), "a".repeat(w), r1, r2]
}

/// Malformed hex (documented: panics): any non-hex character anywhere, any wrong length.
fn hex_reject<const L: usize>(c: &mut Ctx) {
    let w = 16 * L;
    let bad = non_hex_ascii();
    for base in hex_bases::<L>(c) {
        for pos in hex_positions(c, w) {
            for &ch in &bad {
                if c.done() {
                    return;
                }
                let s = replace_at(&base, pos, 1, &ch.to_string());
                must_panic!(c, call(|| Uint::<L>::from_be_hex(&s)).map(|r| ub(&r)); s, pos);
                must_panic!(c, call(|| Uint::<L>::from_le_hex(&s)).map(|r| ub(&r)); s, pos);
                must_panic!(c, call(|| Int::<L>::from_be_hex(&s)).map(|r| ib(&r)); s, pos);
            }
            // bytes 0x80..0xff: multi-byte sequences of the same total byte length
            for m in MULTI {
                if pos + m.len() > w || c.done() {
                    continue;
                }
                let s = replace_at(&base, pos, m.len(), m);
                must_panic!(c, call(|| Uint::<L>::from_be_hex(&s)).map(|r| ub(&r)); s, pos);
                must_panic!(c, call(|| Uint::<L>::from_le_hex(&s)).map(|r| ub(&r)); s, pos);
                must_panic!(c, call(|| Int::<L>::from_be_hex(&s)).map(|r| ib(&r)); s, pos);
            }
        }
        // two bad characters whose error flags could cancel, first and last digit
        let s = replace_at(&replace_at(&base, 0, 1, "g"), w - 1, 1, "G");
        must_panic!(c, call(|| Uint::<L>::from_be_hex(&s)).map(|r| ub(&r)); s);
        must_panic!(c, call(|| Uint::<L>::from_le_hex(&s)).map(|r| ub(&r)); s);
    }
    // wrong sizes: not zero-padded to the full width, or too long
    let mut lens: Vec<usize> = (0..=18).chain(w.saturating_sub(18)..=w + 18).collect();
    lens.extend([2 * w, w / 2]);
    lens.sort();
    lens.dedup();
    for len in lens {
        if len == w || c.done() {
            continue;
        }
        for d in ["0", "f", "1"] {
            let s = d.repeat(len);
            must_panic!(c, call(|| Uint::<L>::from_be_hex(&s)).map(|r| ub(&r)); s, len);
            must_panic!(c, call(|| Uint::<L>::from_le_hex(&s)).map(|r| ub(&r)); s, len);
            must_panic!(c, call(|| Int::<L>::from_be_hex(&s)).map(|r| ib(&r)); s, len);
        }
    }
}

// ---------------------------------------------------------------- Uint / Int / Limb: formatting

fn fmt_expected(bits_value: &BigUint, hex_width: usize) -> [String; 8] {
    let lower = format!("{:0w$x}", bits_value, w = hex_width);
    let upper = lower.to_uppercase();
    let bin = format!("{:0w$b}", bits_value, w = 4 * hex_width);
    [
        lower.clone(),
        format!("0x{}", lower),
        upper.clone(),
        format!("0x{}", upper),
        bin.clone(),
        format!("0b{}", bin),
        // Display is upper-case hex at full width
        upper.clone(),
        upper,
    ]
}

fn fmt_all<T: core::fmt::LowerHex + core::fmt::UpperHex + core::fmt::Binary + core::fmt::Display>(x: &T) -> [String; 8] {
    [
        format!("{:x}", x),
        format!("{:#x}", x),
        format!("{:X}", x),
        format!("{:#X}", x),
        format!("{:b}", x),
        format!("{:#b}", x),
        format!("{}", x),
        x.to_string(),
    ]
}

fn fmt_show(v: [String; 8]) -> Vec<String> {
    v.to_vec()
}

fn fmt_case<const L: usize>(c: &mut Ctx) {
    let bits = 64 * L as u32;
    for a in c.scaled(2, |c| c.inputs1(L)) {
        if c.done() {
            return;
        }
        let x = bu::<L>(&a);
        let exp = fmt_show(fmt_expected(&a, 16 * L));
        check!(c, call(|| fmt_show(fmt_all(&x))), exp.clone(); a);
        let xi = bi::<L>(&signed_of(&a, bits));
        check!(c, call(|| fmt_show(fmt_all(&xi))), exp; a);
        // the lower-hex rendering parses back
        check!(c, call(|| Uint::<L>::from_be_hex(&format!("{:x}", x))).map(|r| ub(&r)), a.clone(); a);
        check!(c, call(|| Uint::<L>::from_be_hex(&format!("{}", x))).map(|r| ub(&r)), a.clone(); a);
    }
}

// ---------------------------------------------------------------- words and limbs

fn words_case<const L: usize>(c: &mut Ctx) {
    for a in c.scaled(2, |c| c.inputs1(L)) {
        if c.done() {
            return;
        }
        let w: Vec<Word> = big_to_words(&a, L);
        let arr: [Word; L] = w.clone().try_into().unwrap();
        let larr: [Limb; L] = arr.map(Limb);
        let le = le_bytes(&a, 8 * L);
        let bytes_of = |x: &Uint<L>| -> Vec<u8> { x.as_words().iter().flat_map(|w| w.to_le_bytes()).collect() };
        // constructors from words / limbs agree with the byte positions of the value
        check!(c, call(|| bytes_of(&Uint::<L>::from_words(arr))), le.clone(); a);
        check!(c, call(|| bytes_of(&Uint::<L>::from(arr))), le.clone(); a);
        check!(c, call(|| bytes_of(&Uint::<L>::new(larr))), le.clone(); a);
        check!(c, call(|| bytes_of(&Uint::<L>::from(larr))), le.clone(); a);
        let x = Uint::<L>::from_words(arr);
        check!(c, call(|| x.to_words().to_vec()), w.clone(); a);
        check!(c, call(|| x.as_words().to_vec()), w.clone(); a);
        check!(c, call(|| { let mut y = x; y.as_words_mut().to_vec() }), w.clone(); a);
        check!(c, call(|| <[Word; L]>::from(x).to_vec()), w.clone(); a);
        check!(c, call(|| AsRef::<[Word; L]>::as_ref(&x).to_vec()), w.clone(); a);
        check!(c, call(|| x.to_limbs().iter().map(|l| l.0).collect::<Vec<_>>()), w.clone(); a);
        check!(c, call(|| x.as_limbs().iter().map(|l| l.0).collect::<Vec<_>>()), w.clone(); a);
        check!(c, call(|| { let mut y = x; y.as_limbs_mut().iter().map(|l| l.0).collect::<Vec<_>>() }), w.clone(); a);
        check!(c, call(|| <[Limb; L]>::from(x).iter().map(|l| l.0).collect::<Vec<_>>()), w.clone(); a);
        check!(c, call(|| AsRef::<[Limb]>::as_ref(&x).iter().map(|l| l.0).collect::<Vec<_>>()), w.clone(); a);
        // Int: same bit pattern
        let s = signed_of(&a, 64 * L as u32);
        check!(c, call(|| Int::<L>::from_words(arr)).map(|r| ib(&r)), s.clone(); a);
        check!(c, call(|| Int::<L>::new(larr)).map(|r| ib(&r)), s.clone(); a);
        check!(c, call(|| x.as_int()).map(|r| ib(&r)), s.clone(); a);
        let xi = Int::<L>::from_words(arr);
        check!(c, call(|| xi.to_words().to_vec()), w.clone(); a);
        check!(c, call(|| xi.as_words().to_vec()), w.clone(); a);
        check!(c, call(|| xi.to_limbs().iter().map(|l| l.0).collect::<Vec<_>>()), w.clone(); a);
        check!(c, call(|| xi.as_limbs().iter().map(|l| l.0).collect::<Vec<_>>()), w.clone(); a);
        check!(c, call(|| *xi.as_uint()).map(|r| ub(&r)), a.clone(); a);
    }
}

// ---------------------------------------------------------------- primitives

/// 128-bit patterns whose truncations give interesting u8..u128 / i8..i128 values.
fn prim_patterns(c: &mut Ctx) -> Vec<u128> {
    let mut v: Vec<u128> = c.edge_list(2).iter().map(|x| x.to_u128().unwrap()).collect();
    for k in [7u32, 8, 15, 16, 31, 32, 63, 64, 127] {
        let p = 1u128 << k;
        v.extend([p, p - 1, p + 1, p.wrapping_neg(), (p - 1).wrapping_neg(), (p + 1).wrapping_neg()]);
    }
    v.extend((0..=255u128).chain((0..=255u128).map(|x| x.wrapping_neg())));
    for _ in 0..c.iters / 2 {
        v.push(c.rnd(2).to_u128().unwrap());
    }
    v
}

fn from_unsigned<const L: usize>(c: &mut Ctx) {
    for v in prim_patterns(c) {
        if c.done() {
            return;
        }
        let (v8, v16, v32, v64) = (v as u8, v as u16, v as u32, v as u64);
        check!(c, call(|| Uint::<L>::from_u8(v8)).map(|r| ub(&r)), BigUint::from(v8); v8);
        check!(c, call(|| Uint::<L>::from(v8)).map(|r| ub(&r)), BigUint::from(v8); v8);
        check!(c, call(|| Uint::<L>::from_u16(v16)).map(|r| ub(&r)), BigUint::from(v16); v16);
        check!(c, call(|| Uint::<L>::from(v16)).map(|r| ub(&r)), BigUint::from(v16); v16);
        check!(c, call(|| Uint::<L>::from_u32(v32)).map(|r| ub(&r)), BigUint::from(v32); v32);
        check!(c, call(|| Uint::<L>::from(v32)).map(|r| ub(&r)), BigUint::from(v32); v32);
        check!(c, call(|| Uint::<L>::from_u64(v64)).map(|r| ub(&r)), BigUint::from(v64); v64);
        check!(c, call(|| Uint::<L>::from(v64)).map(|r| ub(&r)), BigUint::from(v64); v64);
        check!(c, call(|| Uint::<L>::from_word(v64)).map(|r| ub(&r)), BigUint::from(v64); v64);
        check!(c, call(|| Uint::<L>::from(Limb(v64))).map(|r| ub(&r)), BigUint::from(v64); v64);
        if L >= 2 {
            // (a single limb cannot hold a u128: the constructors assert LIMBS >= 2)
            check!(c, call(|| Uint::<L>::from_u128(v)).map(|r| ub(&r)), BigUint::from(v); v);
            check!(c, call(|| Uint::<L>::from(v)).map(|r| ub(&r)), BigUint::from(v); v);
            check!(c, call(|| Uint::<L>::from_wide_word(v as WideWord)).map(|r| ub(&r)), BigUint::from(v); v);
        }
        // Limb
        check!(c, call(|| Limb::from_u8(v8)).map(lb), BigUint::from(v8); v8);
        check!(c, call(|| Limb::from(v8)).map(lb), BigUint::from(v8); v8);
        check!(c, call(|| Limb::from_u16(v16)).map(lb), BigUint::from(v16); v16);
        check!(c, call(|| Limb::from(v16)).map(lb), BigUint::from(v16); v16);
        check!(c, call(|| Limb::from_u32(v32)).map(lb), BigUint::from(v32); v32);
        check!(c, call(|| Limb::from(v32)).map(lb), BigUint::from(v32); v32);
        check!(c, call(|| Limb::from_u64(v64)).map(lb), BigUint::from(v64); v64);
        check!(c, call(|| Limb::from(v64)).map(lb), BigUint::from(v64); v64);
        check!(c, call(|| Word::from(Limb(v64))), v64; v64);
        check!(c, call(|| WideWord::from(Limb(v64))), v64 as u128; v64);
    }
}

fn from_signed<const L: usize>(c: &mut Ctx) {
    for v in prim_patterns(c) {
        if c.done() {
            return;
        }
        let (v8, v16, v32, v64) = (v as i8, v as i16, v as i32, v as i64);
        // an i128 that fits the target (every i128 fits two or more limbs)
        let v128: i128 = if L >= 2 { v as i128 } else { v64 as i128 };
        check!(c, call(|| Int::<L>::from_i8(v8)).map(|r| ib(&r)), BigInt::from(v8); v8);
        check!(c, call(|| Int::<L>::from(v8)).map(|r| ib(&r)), BigInt::from(v8); v8);
        check!(c, call(|| Int::<L>::from_i16(v16)).map(|r| ib(&r)), BigInt::from(v16); v16);
        check!(c, call(|| Int::<L>::from(v16)).map(|r| ib(&r)), BigInt::from(v16); v16);
        check!(c, call(|| Int::<L>::from_i32(v32)).map(|r| ib(&r)), BigInt::from(v32); v32);
        check!(c, call(|| Int::<L>::from(v32)).map(|r| ib(&r)), BigInt::from(v32); v32);
        check!(c, call(|| Int::<L>::from_i64(v64)).map(|r| ib(&r)), BigInt::from(v64); v64);
        check!(c, call(|| Int::<L>::from(v64)).map(|r| ib(&r)), BigInt::from(v64); v64);
        check!(c, call(|| Int::<L>::from_i128(v128)).map(|r| ib(&r)), BigInt::from(v128); v128);
        if L >= 2 {
            check!(c, call(|| Int::<L>::from(v128)).map(|r| ib(&r)), BigInt::from(v128); v128);
        }
    }
}

/// A value that does not fit must not come back silently changed: `Uint::<1>::from_u128` asserts the
/// width; the signed twin on one limb has no documented truncation either.
fn from_i128_one_limb_out_of_range(c: &mut Ctx) {
    for v in prim_patterns(c) {
        if c.done() {
            return;
        }
        let v = v as i128;
        if v >= i64::MIN as i128 && v <= i64::MAX as i128 {
            continue;
        }
        let got = call(|| I64::from_i128(v)).map(|r| ib(&r));
        // either the value is preserved (impossible here) or the call is rejected
        let ok = match &got {
            Err(_) => true,
            Ok(g) => *g == BigInt::from(v),
        };
        let returned = got.ok();
        let _ = holds!(c, ok, "I64::from_i128(v) preserves v or rejects it (no truncation is documented; Uint::<1>::from_u128 and From<i128> assert)"; v, returned);
    }
}

fn into_prims(c: &mut Ctx) {
    for a in c.inputs1(2) {
        if c.done() {
            return;
        }
        let lo = &a & mask(64);
        check!(c, call(|| u64::from(bu::<1>(&lo))), lo.to_u64().unwrap(); lo);
        check!(c, call(|| u128::from(bu::<2>(&a))), a.to_u128().unwrap(); a);
        check!(c, call(|| i64::from(bi::<1>(&signed_of(&lo, 64)))), lo.to_u64().unwrap() as i64; lo);
        check!(c, call(|| i128::from(bi::<2>(&signed_of(&a, 128)))), a.to_u128().unwrap() as i128; a);
        // and back
        check!(c, call(|| u64::from(U64::from(lo.to_u64().unwrap()))), lo.to_u64().unwrap(); lo);
        check!(c, call(|| u128::from(U128::from(a.to_u128().unwrap()))), a.to_u128().unwrap(); a);
        check!(c, call(|| i128::from(I128::from(a.to_u128().unwrap() as i128))), a.to_u128().unwrap() as i128; a);
        check!(c, call(|| i64::from(I64::from(lo.to_u64().unwrap() as i64))), lo.to_u64().unwrap() as i64; lo);
    }
}

// ---------------------------------------------------------------- concat / split

fn concat_split_mixed<const LO: usize, const HI: usize, const O: usize>(c: &mut Ctx)
where
    Uint<LO>: ConcatMixed<Uint<HI>, MixedOutput = Uint<O>>,
    Uint<O>: SplitMixed<Uint<LO>, Uint<HI>>,
{
    for (a, b) in c.scaled(2, |c| c.inputs2(LO, HI)) {
        if c.done() {
            return;
        }
        let (lo, hi) = (bu::<LO>(&a), bu::<HI>(&b));
        let joined = &a + (&b << (64 * LO));
        check!(c, call(|| Uint::<LO>::concat_mixed(&lo, &hi)).map(|r| ub(&r)), joined.clone(); a, b);
        check!(c, call(|| ConcatMixed::concat_mixed(&lo, &hi)).map(|r| ub(&r)), joined.clone(); a, b);
        check!(c, call(|| Uint::<O>::from((lo, hi))).map(|r| ub(&r)), joined.clone(); a, b);
        check!(c, call(|| Uint::<O>::from(&(lo, hi))).map(|r| ub(&r)), joined.clone(); a, b);
        let x = bu::<O>(&joined);
        let parts = (a.clone(), b.clone());
        check!(c, call(|| { let (l, h): (Uint<LO>, Uint<HI>) = x.split_mixed(); (ub(&l), ub(&h)) }), parts.clone(); joined);
        check!(c, call(|| { let (l, h): (Uint<LO>, Uint<HI>) = SplitMixed::split_mixed(&x); (ub(&l), ub(&h)) }), parts.clone(); joined);
        check!(c, call(|| { let (l, h): (Uint<LO>, Uint<HI>) = x.into(); (ub(&l), ub(&h)) }), parts; joined);
    }
}

fn concat_split_even<const H: usize, const O: usize>(c: &mut Ctx)
where
    Uint<H>: Concat<Output = Uint<O>>,
    Uint<O>: Split<Output = Uint<H>>,
{
    for (a, b) in c.scaled(2, |c| c.inputs2(H, H)) {
        if c.done() {
            return;
        }
        let (lo, hi) = (bu::<H>(&a), bu::<H>(&b));
        let joined = &a + (&b << (64 * H));
        check!(c, call(|| lo.concat(&hi)).map(|r| ub(&r)), joined.clone(); a, b);
        check!(c, call(|| Concat::concat(&lo, &hi)).map(|r| ub(&r)), joined.clone(); a, b);
        let x = bu::<O>(&joined);
        let parts = (a.clone(), b.clone());
        check!(c, call(|| { let (l, h) = x.split(); (ub(&l), ub(&h)) }), parts.clone(); joined);
        check!(c, call(|| { let (l, h) = Split::split(&x); (ub(&l), ub(&h)) }), parts; joined);
    }
}

// ---------------------------------------------------------------- resize

fn resize_case<const L: usize, const T: usize>(c: &mut Ctx) {
    let (bl_, bt) = (64 * L as u32, 64 * T as u32);
    let mut vals = c.scaled(2, |c| c.inputs1(L));
    // values around the target width
    for k in [bt.min(bl_) - 1, bt.min(bl_)] {
        vals.extend([pow2(k) & mask(bl_), (pow2(k) - 1u32) & mask(bl_), (pow2(k) + 1u32) & mask(bl_)]);
        vals.push(mask(bl_) ^ (pow2(k) & mask(bl_)));
    }
    for a in vals {
        if c.done() {
            return;
        }
        let x = bu::<L>(&a);
        // zero-extend / truncate
        let exp = &a & mask(bt);
        check!(c, call(|| x.resize::<T>()).map(|r| ub(&r)), exp.clone(); a);
        check!(c, call(|| Uint::<T>::from(&x)).map(|r| ub(&r)), exp; a);
        // sign-extend / truncate the two's complement
        let s = signed_of(&a, bl_);
        let xi = bi::<L>(&s);
        let exp = wrap_signed(&s, bt);
        check!(c, call(|| xi.resize::<T>()).map(|r| ib(&r)), exp.clone(); s);
        check!(c, call(|| Int::<T>::from(&xi)).map(|r| ib(&r)), exp; s);
    }
}

// ---------------------------------------------------------------- Limb

fn limb_case(c: &mut Ctx) {
    let mut vals = c.edge_list(1);
    for _ in 0..c.iters {
        vals.push(c.rnd(1));
    }
    for a in vals {
        if c.done() {
            return;
        }
        let x = bl(&a);
        let (be, le) = (be_bytes(&a, 8), le_bytes(&a, 8));
        check!(c, call(|| x.to_be_bytes().to_vec()), be.clone(); a);
        check!(c, call(|| x.to_le_bytes().to_vec()), le.clone(); a);
        let bea: [u8; 8] = be.clone().try_into().unwrap();
        let lea: [u8; 8] = le.clone().try_into().unwrap();
        check!(c, call(|| Limb::from_be_bytes(bea)).map(lb), a.clone(); a);
        check!(c, call(|| Limb::from_le_bytes(lea)).map(lb), a.clone(); a);
        check!(c, call(|| fmt_show(fmt_all(&x))), fmt_show(fmt_expected(&a, 16)); a);
    }
    for _ in 0..c.iters / 4 {
        let bytes = rnd_bytes(c, 8);
        let arr: [u8; 8] = bytes.clone().try_into().unwrap();
        check!(c, call(|| Limb::from_be_bytes(arr)).map(lb), BigUint::from_bytes_be(&bytes); bytes);
        check!(c, call(|| Limb::from_le_bytes(arr)).map(lb), BigUint::from_bytes_le(&bytes); bytes);
        check!(c, call(|| Limb::from_be_bytes(arr).to_be_bytes().to_vec()), bytes.clone(); bytes);
        check!(c, call(|| Limb::from_le_bytes(arr).to_le_bytes().to_vec()), bytes.clone(); bytes);
    }
}

// ---------------------------------------------------------------- BoxedUint

/// Limbs of a boxed value created with `at_least_bits_precision = prec` (rounded up to whole limbs;
/// the constructors never go below one limb).
fn limbs_for(prec: u32) -> usize {
    (prec.div_ceil(64) as usize).max(1)
}

fn boxed_bytes(c: &mut Ctx) {
    for nl in 1..=5usize {
        for a in c.scaled(5, |c| c.inputs1(nl)) {
            if c.done() {
                return;
            }
            let x = bx(&a, nl);
            let n = 8 * nl;
            let (be, le) = (be_bytes(&a, n), le_bytes(&a, n));
            check!(c, call(|| x.to_be_bytes().to_vec()), be.clone(); a, nl);
            check!(c, call(|| x.to_le_bytes().to_vec()), le.clone(); a, nl);
            let prec = 64 * nl as u32;
            let shape = |r: Result<BoxedUint, DecodeError>| r.map(|v| (xb(&v), v.nlimbs())).map_err(|e| format!("{:?}", e));
            check!(c, call(|| shape(BoxedUint::from_be_slice(&be, prec))), Ok((a.clone(), nl)); a, nl);
            check!(c, call(|| shape(BoxedUint::from_le_slice(&le, prec))), Ok((a.clone(), nl)); a, nl);
            // minimal encodings into the exact bit precision of the value
            let bits = a.bits() as u32;
            let (mbe, mle) = (be_bytes(&a, bits.div_ceil(8) as usize), le_bytes(&a, bits.div_ceil(8) as usize));
            if bits > 0 {
                check!(c, call(|| shape(BoxedUint::from_be_slice(&mbe, bits))), Ok((a.clone(), limbs_for(bits))); a, bits);
                check!(c, call(|| shape(BoxedUint::from_le_slice(&mle, bits))), Ok((a.clone(), limbs_for(bits))); a, bits);
                // one bit less than the value needs: documented error
                let exp = boxed_slice_expected(mbe.len(), &a, bits - 1).map(|v| (v, limbs_for(bits - 1)));
                check!(c, call(|| shape(BoxedUint::from_be_slice(&mbe, bits - 1))), exp.clone(); a, bits);
                check!(c, call(|| shape(BoxedUint::from_le_slice(&mle, bits - 1))), exp; a, bits);
            }
        }
    }
}

/// Documented rule of BoxedUint::from_be_slice / from_le_slice.
fn boxed_slice_expected(len: usize, value: &BigUint, prec: u32) -> Result<BigUint, String> {
    if len > (prec as usize).div_ceil(8) {
        Err("InputSize".to_string())
    } else if value.bits() > prec as u64 {
        Err("Precision".to_string())
    } else {
        Ok(value.clone())
    }
}

fn boxed_slices(c: &mut Ctx) {
    let mut precs: Vec<u32> = vec![
        0, 1, 2, 7, 8, 9, 15, 16, 17, 31, 32, 33, 56, 57, 63, 64, 65, 71, 72, 73, 100, 127, 128, 129, 130, 136, 191, 192, 193, 200,
        255, 256, 257, 264, 300, 319, 320, 321, 383, 384, 385, 448, 449, 511, 512, 513, 519, 520,
    ];
    for _ in 0..8 {
        precs.push(c.below(521) as u32);
    }
    for prec in precs {
        let cap = (prec as usize).div_ceil(8);
        for len in 0..=cap + 9 {
            // byte patterns: zero, ones, exactly 2^prec, 2^prec - 1, 2^prec + 1, top bit of the top byte,
            // leading zero bytes then a value, random
            let mut pats: Vec<Vec<u8>> = vec![vec![0u8; len], vec![0xffu8; len], rnd_bytes(c, len), rnd_bytes(c, len)];
            for v in [pow2(prec), pow2(prec) - 1u32, pow2(prec) + 1u32, pow2(prec.saturating_sub(1))] {
                if (v.bits() as usize).div_ceil(8) <= len {
                    pats.push(be_bytes(&v, len));
                }
            }
            if len > 0 {
                let mut p = rnd_bytes(c, len);
                p[0] = 0;
                pats.push(p);
                let mut p = vec![0u8; len];
                p[0] = 0x80;
                pats.push(p);
                let mut p = vec![0u8; len];
                p[0] = 1;
                pats.push(p);
                let mut p = vec![0xffu8; len];
                p[0] = 0x7f;
                pats.push(p);
            }
            for be in pats {
                if c.done() {
                    return;
                }
                let le: Vec<u8> = be.iter().rev().cloned().collect();
                let value = BigUint::from_bytes_be(&be);
                let exp = boxed_slice_expected(len, &value, prec);
                let val = |r: Result<BoxedUint, DecodeError>| r.map(|v| xb(&v)).map_err(|e| format!("{:?}", e));
                check!(c, call(|| val(BoxedUint::from_be_slice(&be, prec))), exp.clone(); be, prec);
                check!(c, call(|| val(BoxedUint::from_le_slice(&le, prec))), exp.clone(); le, prec);
                if exp.is_ok() && prec > 0 {
                    // documented precision of the result, and the round trip through the encoder
                    let nl = limbs_for(prec);
                    check!(c, call(|| BoxedUint::from_be_slice(&be, prec).map(|v| v.nlimbs()).ok()), Some(nl); be, prec);
                    check!(c, call(|| BoxedUint::from_le_slice(&le, prec).map(|v| v.nlimbs()).ok()), Some(nl); le, prec);
                    check!(c, call(|| BoxedUint::from_be_slice(&be, prec).map(|v| v.to_be_bytes().to_vec()).ok()), Some(be_bytes(&value, 8 * nl)); be, prec);
                    check!(c, call(|| BoxedUint::from_le_slice(&le, prec).map(|v| v.to_le_bytes().to_vec()).ok()), Some(le_bytes(&value, 8 * nl)); le, prec);
                }
            }
        }
    }
}

fn boxed_hex(c: &mut Ctx) {
    let bad = non_hex_ascii();
    for nl in 0..=5usize {
        let (w, prec) = (16 * nl, 64 * nl as u32);
        let val = |r: CtOption<BoxedUint>| opt(r).map(|v| (xb(&v), v.nlimbs()));
        if nl == 0 {
            // the only string of the right length
            let s = String::new();
            check!(c, call(|| opt(BoxedUint::from_be_hex(&s, prec)).map(|v| xb(&v))), Some(BigUint::zero()); s, prec);
            continue;
        }
        for a in c.scaled(12, |c| c.inputs1(nl)) {
            if c.done() {
                return;
            }
            let lower = format!("{:0w$x}", a);
            for s in [lower.clone(), lower.to_uppercase(), mixed_case(c, &lower)] {
                check!(c, call(|| val(BoxedUint::from_be_hex(&s, prec))), Some((a.clone(), nl)); s, prec);
            }
        }
        let r1 = format!("{:0w$x}", c.rnd(nl));
        for base in ["0".repeat(w), "f".repeat(w), "A".repeat(w), r1] {
            for pos in hex_positions(c, w) {
                for d in HEX_DIGITS.chars() {
                    let s = replace_at(&base, pos, 1, &d.to_string());
                    let v = BigUint::parse_bytes(s.as_bytes(), 16).unwrap();
                    check!(c, call(|| val(BoxedUint::from_be_hex(&s, prec))), Some((v, nl)); s, prec);
                }
                for &ch in &bad {
                    if c.done() {
                        return;
                    }
                    let s = replace_at(&base, pos, 1, &ch.to_string());
                    check!(c, call(|| val(BoxedUint::from_be_hex(&s, prec))), None; s, prec);
                }
                for m in MULTI {
                    if pos + m.len() > w || c.done() {
                        continue;
                    }
                    let s = replace_at(&base, pos, m.len(), m);
                    check!(c, call(|| val(BoxedUint::from_be_hex(&s, prec))), None; s, prec);
                }
            }
            let s = replace_at(&replace_at(&base, 0, 1, "g"), w - 1, 1, "G");
            check!(c, call(|| val(BoxedUint::from_be_hex(&s, prec))), None; s, prec);
        }
    }
}

fn boxed_fmt(c: &mut Ctx) {
    for nl in 1..=5usize {
        for a in c.scaled(10, |c| c.inputs1(nl)) {
            if c.done() {
                return;
            }
            let x = bx(&a, nl);
            check!(c, call(|| fmt_show(fmt_all(&x))), fmt_show(fmt_expected(&a, 16 * nl)); a, nl);
            check!(c, call(|| opt(BoxedUint::from_be_hex(&format!("{:x}", x), 64 * nl as u32)).map(|v| xb(&v))), Some(a.clone()); a, nl);
        }
    }
}

fn boxed_from(c: &mut Ctx) {
    for v in prim_patterns(c) {
        if c.done() {
            return;
        }
        let (v8, v16, v32, v64) = (v as u8, v as u16, v as u32, v as u64);
        let shape = |x: BoxedUint| (xb(&x), x.nlimbs());
        check!(c, call(|| shape(BoxedUint::from(v8))), (BigUint::from(v8), 1); v8);
        check!(c, call(|| shape(BoxedUint::from(v16))), (BigUint::from(v16), 1); v16);
        check!(c, call(|| shape(BoxedUint::from(v32))), (BigUint::from(v32), 1); v32);
        check!(c, call(|| shape(BoxedUint::from(v64))), (BigUint::from(v64), 1); v64);
        check!(c, call(|| shape(BoxedUint::from(v))), (BigUint::from(v), 2); v);
        check!(c, call(|| shape(BoxedUint::from(Limb(v64)))), (BigUint::from(v64), 1); v64);
    }
    for nl in 1..=5usize {
        for a in c.scaled(10, |c| c.inputs1(nl)) {
            if c.done() {
                return;
            }
            let w = big_to_words(&a, nl);
            let limbs: Vec<Limb> = w.iter().map(|&x| Limb(x)).collect();
            let shape = |x: BoxedUint| (xb(&x), x.nlimbs());
            let exp = (a.clone(), nl);
            check!(c, call(|| shape(BoxedUint::from(limbs.clone()))), exp.clone(); a, nl);
            check!(c, call(|| shape(BoxedUint::from(&limbs[..]))), exp.clone(); a, nl);
            check!(c, call(|| shape(BoxedUint::from(limbs.clone().into_boxed_slice()))), exp.clone(); a, nl);
            check!(c, call(|| shape(BoxedUint::from(w.clone()))), exp.clone(); a, nl);
            check!(c, call(|| shape(BoxedUint::from_words(w.clone()))), exp.clone(); a, nl);
            let x = BoxedUint::from_words(w.clone());
            check!(c, call(|| x.to_words().to_vec()), w.clone(); a, nl);
            check!(c, call(|| x.as_words().to_vec()), w.clone(); a, nl);
            check!(c, call(|| { let mut y = x.clone(); y.as_words_mut().to_vec() }), w.clone(); a, nl);
            check!(c, call(|| x.to_limbs().iter().map(|l| l.0).collect::<Vec<_>>()), w.clone(); a, nl);
            check!(c, call(|| x.as_limbs().iter().map(|l| l.0).collect::<Vec<_>>()), w.clone(); a, nl);
            check!(c, call(|| x.clone().into_limbs().iter().map(|l| l.0).collect::<Vec<_>>()), w.clone(); a, nl);
            check!(c, call(|| x.bits_precision()), 64 * nl as u32; a, nl);
            // bytes of a value built from words are positional
            check!(c, call(|| x.to_le_bytes().to_vec()), le_bytes(&a, 8 * nl); a, nl);
        }
    }
    // empty limb lists denote zero
    let e: Vec<Limb> = Vec::new();
    let nl = 0usize;
    check!(c, call(|| xb(&BoxedUint::from(e.clone()))), BigUint::zero(); nl);
    check!(c, call(|| xb(&BoxedUint::from(&e[..]))), BigUint::zero(); nl);
}

fn boxed_from_uint<const L: usize>(c: &mut Ctx) {
    for a in c.scaled(4, |c| c.inputs1(L)) {
        if c.done() {
            return;
        }
        let x = bu::<L>(&a);
        let shape = |x: BoxedUint| (xb(&x), x.nlimbs());
        check!(c, call(|| shape(BoxedUint::from(x))), (a.clone(), L); a);
        check!(c, call(|| shape(BoxedUint::from(&x))), (a.clone(), L); a);
    }
}

fn boxed_widen_shorten(c: &mut Ctx) {
    for nl in 1..=5usize {
        let cur = 64 * nl as u32;
        let mut targets: Vec<u32> = vec![0, 1, 63, 64, 65, 127, 128, 129, 191, 192, 193, 255, 256, 257, 319, 320, 321, 384, 448, 512, 1000];
        targets.extend([cur - 1, cur, cur + 1]);
        let mut vals = c.edges(nl, 24);
        for _ in 0..(c.iters / 64).max(4) {
            vals.push(c.rnd(nl));
        }
        for a in vals {
            let x = bx(&a, nl);
            for &t in &targets {
                if c.done() {
                    return;
                }
                let shape = |x: BoxedUint| (xb(&x), x.nlimbs());
                // widen: documented panic if the target is smaller than the current precision
                let got = call(|| shape(x.widen(t)));
                if t >= cur {
                    check!(c, got, (a.clone(), limbs_for(t)); a, nl, t);
                } else {
                    must_panic!(c, got; a, nl, t);
                }
                // shorten: documented panic if the target is larger than the current precision
                let got = call(|| shape(x.shorten(t)));
                if t <= cur {
                    let k = limbs_for(t);
                    check!(c, got, (&a & mask(64 * k as u32), k); a, nl, t);
                } else {
                    must_panic!(c, got; a, nl, t);
                }
            }
        }
    }
}

// ---------------------------------------------------------------- table

macro_rules! mixed3 {
    ($v:ident; $(($lo:literal, $hi:literal, $o:literal)),+ $(,)?) => {
        $( $v.push(Case::new(
            format!("U{}::concat_mixed/split_mixed/From<(lo,hi)> U{}+U{}", 64 * $o, 64 * $lo, 64 * $hi),
            concat_split_mixed::<$lo, $hi, $o>,
        )); )+
    };
}

macro_rules! even2 {
    ($v:ident; $(($h:literal, $o:literal)),+ $(,)?) => {
        $( $v.push(Case::new(format!("U{}::concat/split (Concat/Split) U{}+U{}", 64 * $o, 64 * $h, 64 * $h), concat_split_even::<$h, $o>)); )+
    };
}

macro_rules! resize2 {
    ($v:ident; $(($a:literal, $b:literal)),+ $(,)?) => {
        $( $v.push(Case::new(format!("U{}/I{}::resize / From<&_> -> {} bits", 64 * $a, 64 * $a, 64 * $b), resize_case::<$a, $b>)); )+
    };
}

macro_rules! fixed_cases {
    ($v:ident; $(($m:ident, $name:literal)),+) => {
        $(
            $v.push(Case::new(concat!($name, "::to/from_{be,le}_bytes (inherent, Encoding), from_{be,le}_slice, ArrayEncoding/ArrayDecoding"), $m::bytes));
            $v.push(Case::new(concat!($name, "::from_{be,le}_slice wrong length"), $m::wrong_len));
        )+
    };
}

pub fn cases() -> Vec<Case> {
    let mut v = Vec::new();
    fixed_cases!(v; (f64, "U64"), (f128, "U128"), (f192, "U192"), (f256, "U256"), (f384, "U384"), (f512, "U512"), (f1024, "U1024"), (f2048, "U2048"));
    ucases!(v, "from_be_hex/from_le_hex/Int::from_be_hex well-formed", hex_accept; 1, 2, 3, 4, 5, 8, 16, 32);
    ucases!(v, "from_be_hex/from_le_hex/Int::from_be_hex malformed or wrong size", hex_reject; 1, 2, 3, 4, 5, 8, 16, 32);
    ucases!(v, "Display/LowerHex/UpperHex/Binary (Uint, Int)", fmt_case; 1, 2, 3, 4, 7, 16, 32);
    ucases!(v, "from_words/to_words/as_words/to_limbs/as_limbs/new (Uint, Int)", words_case; 1, 2, 3, 4, 6, 16, 32);
    ucases!(v, "from_u8..from_u128/From<u8..u128>/from_word/from_wide_word/From<Limb> (+Limb::from_*)", from_unsigned; 1, 2, 3, 4, 16);
    icases!(v, "from_i8..from_i128/From<i8..i128>", from_signed; 1, 2, 3, 4, 16);
    case!(v, "I64::from_i128 value outside i64", from_i128_one_limb_out_of_range);
    case!(v, "u64::from(U64)/u128::from(U128)/i64::from(I64)/i128::from(I128)", into_prims);
    even2!(v; (1, 2), (2, 4), (4, 8), (8, 16), (16, 32));
    mixed3!(v; (1, 2, 3), (2, 1, 3), (1, 3, 4), (3, 1, 4), (1, 4, 5), (3, 2, 5), (2, 4, 6), (5, 1, 6), (3, 4, 7), (1, 7, 8), (5, 3, 8),
        (7, 1, 8), (4, 5, 9), (9, 1, 10), (5, 6, 11), (7, 5, 12), (12, 1, 13), (6, 8, 14), (14, 1, 15), (1, 15, 16), (7, 9, 16), (9, 7, 16), (15, 1, 16));
    resize2!(v; (1, 1), (1, 2), (2, 1), (1, 4), (4, 1), (2, 3), (3, 2), (3, 3), (4, 8), (8, 4), (4, 16), (16, 4), (16, 32), (32, 16));
    case!(v, "Limb::to/from_{be,le}_bytes, Display/LowerHex/UpperHex/Binary", limb_case);
    case!(v, "BoxedUint::to_be_bytes/to_le_bytes/from_be_slice/from_le_slice round trip", boxed_bytes);
    case!(v, "BoxedUint::from_be_slice/from_le_slice every length and precision", boxed_slices);
    case!(v, "BoxedUint::from_be_hex (right length)", boxed_hex);
    case!(v, "BoxedUint Display/LowerHex/UpperHex/Binary", boxed_fmt);
    case!(v, "BoxedUint From<u8..u128>/From<Limb>/From<Vec<Limb>>/From<&[Limb]>/From<Box<[Limb]>>/From<Vec<Word>>/from_words/to_words/as_words/to_limbs", boxed_from);
    ucases!(v, "BoxedUint::from(Uint)/from(&Uint)", boxed_from_uint; 1, 2, 3, 4, 16);
    case!(v, "BoxedUint::widen/shorten", boxed_widen_shorten);
    v
}
