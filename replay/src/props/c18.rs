//! C18 (stub)
use super::prelude::*;

pub fn cases() -> Vec<Case> {
    Vec::new()
}
