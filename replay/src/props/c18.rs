//! C18 — DER and RLP integer codecs are canonical and fail closed.
//!
//! Oracle: the canonical encodings are built here from `BigUint::to_bytes_be` (DER: tag 0x02,
//! minimal definite length, minimal content, a leading 0x00 exactly when the top bit of the first
//! magnitude octet is set, zero = 02 01 00; RLP: minimal big-endian string, zero = 0x80, a single
//! byte below 0x80 is itself, 0x80+len up to 55 bytes, 0xb7+lenlen beyond). A decoder must return
//! `Ok(v)` exactly when the input is the canonical encoding of a `v` that fits, otherwise an
//! error; never a panic.

use super::prelude::*;
use crypto_bigint::{ArrayEncoding, Encoding};
use der::asn1::{AnyRef, UintRef};
use der::{Decode, Encode, EncodeValue, Tag};

// ---------------------------------------------------------------- shared helpers

/// Minimal big-endian magnitude (empty for zero).
fn magnitude(v: &BigUint) -> Vec<u8> {
    if v.is_zero() { Vec::new() } else { v.to_bytes_be() }
}

fn rnd_bytes(c: &mut Ctx, n: usize) -> Vec<u8> {
    (0..n).map(|_| c.word() as u8).collect()
}

/// Values for the encoders: the generic corpus plus every byte length with the first octet at the
/// 0x7f / 0x80 boundary.
fn codec_values(c: &mut Ctx, limbs: usize, div: usize) -> Vec<BigUint> {
    let mut v = c.scaled(div, |c| c.inputs1(limbs));
    for k in 0..8 * limbs as u32 {
        for top in [0x01u32, 0x7f, 0x80, 0x81, 0xff] {
            let hi = BigUint::from(top) << (8 * k);
            v.push(hi.clone());
            v.push(&hi + (pow2(8 * k) - 1u32));
            v.push(&hi + (c.rnd(limbs) & (pow2(8 * k) - 1u32)));
        }
    }
    v
}

// ---------------------------------------------------------------- DER oracle

/// Minimal definite length octets.
fn der_len(n: usize) -> Vec<u8> {
    if n < 0x80 {
        vec![n as u8]
    } else if n < 0x100 {
        vec![0x81, n as u8]
    } else if n < 0x1_0000 {
        vec![0x82, (n >> 8) as u8, n as u8]
    } else {
        vec![0x83, (n >> 16) as u8, (n >> 8) as u8, n as u8]
    }
}

/// Canonical content octets of a non-negative INTEGER.
fn der_content(v: &BigUint) -> Vec<u8> {
    let mut m = magnitude(v);
    if m.is_empty() {
        m.push(0);
    } else if m[0] & 0x80 != 0 {
        m.insert(0, 0);
    }
    m
}

fn canonical_der(v: &BigUint) -> Vec<u8> {
    let content = der_content(v);
    let mut out = vec![0x02];
    out.extend(der_len(content.len()));
    out.extend(content);
    out
}

/// `Some(v)` iff `input` is exactly the canonical DER INTEGER of a `v` below 2^bits.
fn der_oracle(input: &[u8], bits: u32) -> Option<BigUint> {
    if input.len() < 3 || input[0] != 0x02 {
        return None;
    }
    let hdr = match input[1] {
        0..=0x7f => 2,
        0x81 => 3,
        0x82 => 4,
        0x83 => 5,
        _ => return None,
    };
    if input.len() <= hdr {
        return None;
    }
    let v = BigUint::from_bytes_be(&input[hdr..]);
    if v.bits() <= bits as u64 && canonical_der(&v) == input { Some(v) } else { None }
}

/// `Some(v)` iff `content` is the canonical content of a `v` below 2^bits.
fn der_content_oracle(content: &[u8], bits: u32) -> Option<BigUint> {
    if content.is_empty() {
        return None;
    }
    let v = BigUint::from_bytes_be(content);
    if v.bits() <= bits as u64 && der_content(&v) == content { Some(v) } else { None }
}

// ---------------------------------------------------------------- DER cases

fn der_encode<const L: usize>(c: &mut Ctx)
where
    Uint<L>: ArrayEncoding,
{
    let bits = 64 * L as u32;
    let div = if L > 16 { 8 } else { 2 };
    for a in codec_values(c, L, div) {
        if c.done() {
            return;
        }
        let x = bu::<L>(&a);
        let exp = canonical_der(&a);
        let content = der_content(&a);
        check!(c, call(|| x.to_der().ok()), Some(exp.clone()); a);
        check!(c, call(|| x.encoded_len().ok().map(|l| u32::from(l) as usize)), Some(exp.len()); a);
        check!(c, call(|| x.value_len().ok().map(|l| u32::from(l) as usize)), Some(content.len()); a);
        check!(c, call(|| { let mut buf = vec![0u8; exp.len() + 7]; x.encode_to_slice(&mut buf).ok().map(|s| s.to_vec()) }), Some(exp.clone()); a);
        check!(c, call(|| { let mut buf = Vec::new(); x.encode_to_vec(&mut buf).ok().map(|_| buf) }), Some(exp.clone()); a);
        // a buffer one octet short is an error, not a truncated encoding
        check!(c, call(|| { let mut buf = vec![0u8; exp.len() - 1]; x.encode_to_slice(&mut buf).ok().map(|s| s.to_vec()) }), None; a);
        // decode what was encoded, through every entry point
        check!(c, call(|| Uint::<L>::from_der(&exp).ok().map(|r| ub(&r))), Some(a.clone()); a);
        check!(c, call(|| AnyRef::from_der(&exp).ok().and_then(|any| Uint::<L>::try_from(any).ok()).map(|r| ub(&r))), Some(a.clone()); a);
        check!(c, call(|| UintRef::from_der(&exp).ok().and_then(|u| Uint::<L>::try_from(u).ok()).map(|r| ub(&r))), Some(a.clone()); a);
        check!(c, call(|| AnyRef::new(Tag::Integer, &content).ok().and_then(|any| Uint::<L>::try_from(any).ok()).map(|r| ub(&r))), Some(a.clone()); a);
        // UintRef holds a magnitude: any zero padding is fine, the value must be kept
        let mag = magnitude(&a);
        let padded = [vec![0u8; 1 + c.below(3)], mag.clone()].concat();
        let full = [vec![0u8; 8 * L - mag.len()], mag.clone()].concat();
        for m in [mag, padded, full] {
            check!(c, call(|| UintRef::new(&m).ok().and_then(|u| Uint::<L>::try_from(u).ok()).map(|r| ub(&r))), Some(a.clone()); m);
        }
        debug_assert_eq!(der_oracle(&exp, bits), Some(a.clone()));
    }
}

/// Content octet strings around the capacity with the first two octets on their boundaries.
fn der_contents(c: &mut Ctx, n: usize) -> Vec<Vec<u8>> {
    let mut lens: Vec<usize> = vec![0, 1, 2, 3, 126, 127, 128, 129, 130, 254, 255, 256, 257, 258, 2 * n, 2 * n + 1];
    lens.extend(n.saturating_sub(2)..=n + 6);
    lens.sort();
    lens.dedup();
    let mut out = Vec::new();
    for len in lens {
        if len == 0 {
            out.push(Vec::new());
            continue;
        }
        for f0 in [0x00u8, 0x01, 0x7f, 0x80, 0xff] {
            for f1 in [0x00u8, 0x01, 0x7f, 0x80, 0xff] {
                for rest in 0..3 {
                    let mut b: Vec<u8> = match rest {
                        0 => vec![0u8; len],
                        1 => vec![0xffu8; len],
                        _ => rnd_bytes(c, len),
                    };
                    b[0] = f0;
                    if len > 1 {
                        b[1] = f1;
                    } else if f1 != 0 {
                        continue;
                    }
                    out.push(b);
                }
            }
        }
    }
    out
}

/// TLV framings of a content string: the canonical one and the malformed ones.
fn der_framings(c: &mut Ctx, content: &[u8], thorough: bool) -> Vec<Vec<u8>> {
    let n = content.len();
    let tlv = |tag: u8, len: Vec<u8>| -> Vec<u8> { [vec![tag], len, content.to_vec()].concat() };
    let canon = tlv(0x02, der_len(n));
    let mut v = vec![canon.clone()];
    // trailing garbage, truncation, length off by one
    v.push([canon.clone(), vec![0x00]].concat());
    v.push([canon.clone(), vec![0xff]].concat());
    v.push(canon[..canon.len() - 1].to_vec());
    v.push(tlv(0x02, der_len(n + 1)));
    if n > 0 {
        v.push(tlv(0x02, der_len(n - 1)));
    }
    // non-minimal long forms, indefinite length
    if n < 0x80 {
        v.push(tlv(0x02, vec![0x81, n as u8]));
    }
    if n < 0x100 {
        v.push(tlv(0x02, vec![0x82, 0, n as u8]));
    }
    v.push(tlv(0x02, vec![0x83, 0, (n >> 8) as u8, n as u8]));
    v.push(tlv(0x02, vec![0x84, 0, 0, (n >> 8) as u8, n as u8]));
    v.push([tlv(0x02, vec![0x80]), vec![0, 0]].concat());
    if thorough {
        v.push([canon.clone(), canon.clone()].concat());
        v.push(canon[..canon.len() / 2].to_vec());
        v.push(canon[..2.min(canon.len())].to_vec());
        v.push(tlv(0x02, vec![0x85, 0, 0, 0, (n >> 8) as u8, n as u8]));
        v.push(tlv(0x02, vec![0x89, 0, 0, 0, 0, 0, 0, 0, (n >> 8) as u8, n as u8]));
        // wrong tags: other universal types, constructed / context / application class, high tag number
        for tag in [0x00u8, 0x01, 0x03, 0x04, 0x05, 0x0a, 0x0c, 0x22, 0x30, 0x42, 0x82, 0xa2, 0xc2, 0x1f, 0xff] {
            v.push(tlv(tag, der_len(n)));
        }
        let t = c.word() as u8;
        if t != 0x02 {
            v.push(tlv(t, der_len(n)));
        }
    }
    v
}

fn der_check_input<const L: usize>(c: &mut Ctx, input: &[u8])
where
    Uint<L>: ArrayEncoding,
{
    let bits = 64 * L as u32;
    let exp = der_oracle(input, bits);
    let input = input.to_vec();
    check!(c, call(|| Uint::<L>::from_der(&input).ok().map(|r| ub(&r))), exp.clone(); input);
    check!(c, call(|| AnyRef::from_der(&input).ok().and_then(|any| Uint::<L>::try_from(any).ok()).map(|r| ub(&r))), exp.clone(); input);
    check!(c, call(|| UintRef::from_der(&input).ok().and_then(|u| Uint::<L>::try_from(u).ok()).map(|r| ub(&r))), exp; input);
    // BER is more liberal about lengths: only totality, and a returned value must fit and be non-negative
    no_panic!(c, call(|| Uint::<L>::from_ber(&input).ok().map(|r| ub(&r))); input);
}

fn der_decode<const L: usize>(c: &mut Ctx)
where
    Uint<L>: ArrayEncoding,
{
    let bits = 64 * L as u32;
    let n = 8 * L;
    // explicit short inputs
    let explicit: Vec<Vec<u8>> = vec![
        vec![],
        vec![0x02],
        vec![0x02, 0x00],
        vec![0x02, 0x01],
        vec![0x02, 0x80],
        vec![0x02, 0x81],
        vec![0x02, 0x81, 0x00],
        vec![0x02, 0x81, 0x01, 0x00],
        vec![0x02, 0x82, 0x00],
        vec![0x02, 0x84, 0xff, 0xff, 0xff, 0xff],
        vec![0x02, 0x88, 0xff, 0xff, 0xff, 0xff, 0xff, 0xff, 0xff, 0xff],
        vec![0x02, 0xff],
        vec![0x02, 0x01, 0x00],
        vec![0x02, 0x01, 0x7f],
        vec![0x02, 0x01, 0x80],
        vec![0x02, 0x01, 0xff],
        vec![0x02, 0x02, 0x00, 0x00],
        vec![0x02, 0x02, 0x00, 0x7f],
        vec![0x02, 0x02, 0x00, 0x80],
        vec![0x02, 0x02, 0x00, 0xff],
        vec![0x02, 0x02, 0xff, 0xff],
        // the integer one octet longer than U64 (past defect: panicked in copy_from_slice)
        vec![0x02, 0x09, 0x01, 0, 0, 0, 0, 0, 0, 0, 0],
        vec![0x02, 0x09, 0x00, 0xff, 0, 0, 0, 0, 0, 0, 0],
        vec![0x02, 0x0a, 0x00, 0xff, 0, 0, 0, 0, 0, 0, 0, 0],
        vec![0x00],
        vec![0xff],
        vec![0x30, 0x03, 0x02, 0x01, 0x00],
    ];
    for input in &explicit {
        der_check_input::<L>(c, input);
    }
    // the same one-octet-too-long shape for this width, with and without the sign octet
    for lead in [vec![0x01u8], vec![0x00, 0x80], vec![0x00, 0x01], vec![0x80], vec![0xff]] {
        for fill in [0x00u8, 0xff] {
            let content = [lead.clone(), vec![fill; n]].concat();
            let input = [vec![0x02], der_len(content.len()), content].concat();
            der_check_input::<L>(c, &input);
        }
    }
    // systematic contents x framings
    for (i, content) in der_contents(c, n).iter().enumerate() {
        if c.done() {
            return;
        }
        let thorough = i % 7 == 0 || content.len() <= 2;
        for input in der_framings(c, content, thorough) {
            der_check_input::<L>(c, &input);
        }
        // the value part alone, through AnyRef with the INTEGER tag and with other tags
        let exp = der_content_oracle(content, bits);
        check!(c, call(|| AnyRef::new(Tag::Integer, content).ok().and_then(|any| Uint::<L>::try_from(any).ok()).map(|r| ub(&r))), exp; content);
        if thorough {
            for tag in [Tag::OctetString, Tag::BitString, Tag::Boolean, Tag::Enumerated, Tag::Null, Tag::Sequence] {
                let none: Option<BigUint> = None;
                check!(c, call(|| AnyRef::new(tag, content).ok().and_then(|any| Uint::<L>::try_from(any).ok()).map(|r| ub(&r))), none; content);
            }
        }
        // a magnitude (UintRef strips zero padding): value if it fits, else error
        let v = BigUint::from_bytes_be(content);
        let exp = if v.bits() <= bits as u64 { Some(v) } else { None };
        check!(c, call(|| UintRef::new(content).ok().and_then(|u| Uint::<L>::try_from(u).ok()).map(|r| ub(&r))), exp; content);
    }
    // mutations of valid encodings
    let mut vals = c.edges(L, 48);
    for _ in 0..(c.iters / 16).max(8) {
        vals.push(c.rnd(L));
    }
    for a in vals {
        if c.done() {
            return;
        }
        let enc = canonical_der(&a);
        let m = enc.len();
        let mut pos = vec![0, 1, 2, 3, 4, m / 2, m - 2, m - 1, c.below(m)];
        pos.retain(|&p| p < m);
        pos.dedup();
        for &p in &pos {
            let mut del = enc.clone();
            del.remove(p);
            der_check_input::<L>(c, &del);
            for b in [0x00u8, 0x01, 0x7f, 0x80, 0xff] {
                let mut ins = enc.clone();
                ins.insert(p, b);
                der_check_input::<L>(c, &ins);
                let mut set = enc.clone();
                set[p] = b;
                der_check_input::<L>(c, &set);
            }
            for bit in [0x01u8, 0x20, 0x80] {
                let mut flip = enc.clone();
                flip[p] ^= bit;
                der_check_input::<L>(c, &flip);
            }
        }
        let mut app = enc.clone();
        app.push(c.word() as u8);
        der_check_input::<L>(c, &app);
    }
    // random strings, mostly starting like an INTEGER
    for _ in 0..c.iters / 2 {
        if c.done() {
            return;
        }
        let len = c.below(n + 8);
        let mut input = rnd_bytes(c, len);
        match c.below(4) {
            0 => {}
            1 => {
                if len > 0 {
                    input[0] = 0x02;
                }
            }
            _ => {
                input = [vec![0x02], der_len(len), input].concat();
            }
        }
        der_check_input::<L>(c, &input);
    }
}

// ---------------------------------------------------------------- RLP oracle

fn rlp_len_bytes(n: usize) -> Vec<u8> {
    let b = (n as u64).to_be_bytes();
    let skip = b.iter().take_while(|&&x| x == 0).count();
    b[skip..].to_vec()
}

fn canonical_rlp(v: &BigUint) -> Vec<u8> {
    let m = magnitude(v);
    if m.len() == 1 && m[0] < 0x80 {
        m
    } else if m.len() <= 55 {
        [vec![0x80 + m.len() as u8], m].concat()
    } else {
        let l = rlp_len_bytes(m.len());
        [vec![0xb7 + l.len() as u8], l, m].concat()
    }
}

/// The first item of `input` as (item length, Some(v) iff the item is the canonical RLP of a v below
/// 2^bits). `None` when the input does not start with a complete string item.
fn rlp_oracle(input: &[u8], bits: u32) -> Option<(usize, Option<BigUint>)> {
    let b0 = *input.first()?;
    let (start, len) = match b0 {
        0..=0x7f => (0usize, 1usize),
        0x80..=0xb7 => (1, (b0 - 0x80) as usize),
        0xb8..=0xbf => {
            let ll = (b0 - 0xb7) as usize;
            if input.len() < 1 + ll {
                return None;
            }
            let mut len = 0usize;
            for &x in &input[1..1 + ll] {
                len = len.checked_mul(256)?.checked_add(x as usize)?;
            }
            (1 + ll, len)
        }
        _ => return None,
    };
    let end = start.checked_add(len)?;
    if input.len() < end {
        return None;
    }
    let v = BigUint::from_bytes_be(&input[start..end]);
    let ok = v.bits() <= bits as u64 && canonical_rlp(&v) == input[..end];
    Some((end, if ok { Some(v) } else { None }))
}

// ---------------------------------------------------------------- RLP cases

fn rlp_encode<const L: usize>(c: &mut Ctx)
where
    Uint<L>: Encoding,
{
    let div = if L > 16 { 8 } else { 2 };
    for a in codec_values(c, L, div) {
        if c.done() {
            return;
        }
        let x = bu::<L>(&a);
        let exp = canonical_rlp(&a);
        check!(c, call(|| rlp::encode(&x).to_vec()), exp.clone(); a);
        check!(c, call(|| { let mut s = rlp::RlpStream::new(); s.append(&x); s.out().to_vec() }), exp.clone(); a);
        // inside a list: payload = concatenation of the items
        let y = bu::<L>(&(&a ^ mask(64 * L as u32)));
        let expy = canonical_rlp(&(&a ^ mask(64 * L as u32)));
        let payload = [exp.clone(), expy].concat();
        let list = if payload.len() <= 55 {
            [vec![0xc0 + payload.len() as u8], payload].concat()
        } else {
            let l = rlp_len_bytes(payload.len());
            [vec![0xf7 + l.len() as u8], l, payload].concat()
        };
        check!(c, call(|| rlp::encode_list::<Uint<L>, _>(&[x, y]).to_vec()), list; a);
    }
}

/// A complete string item in the long form (0xb8..=0xbf) whose length is below 56: non-canonical.
/// These inputs have their own case (`rlp_long_form_short`), the general case skips them.
fn is_long_form_short(input: &[u8]) -> bool {
    match (input.first(), rlp_oracle(input, u32::MAX)) {
        (Some(0xb8..=0xbf), Some((end, _))) => end - 1 - (input[0] - 0xb7) as usize <= 55,
        _ => false,
    }
}

fn rlp_check_input<const L: usize>(c: &mut Ctx, input: &[u8], long_form_short: bool)
where
    Uint<L>: Encoding,
    <Uint<L> as Encoding>::Repr: Default,
{
    if is_long_form_short(input) != long_form_short {
        return;
    }
    let bits = 64 * L as u32;
    let input = input.to_vec();
    let got = call(|| rlp::decode::<Uint<L>>(&input).ok().map(|r| ub(&r)));
    match rlp_oracle(&input, bits) {
        // exactly one item: Ok(v) iff canonical and fitting
        Some((end, exp)) if end == input.len() => {
            check!(c, got, exp; input);
        }
        // one item followed by more bytes: `rlp::decode` looks at the first item only; either an
        // error or the value the first item canonically denotes
        Some((_, exp)) => {
            if no_panic!(c, got.clone(); input) {
                let g = got.unwrap();
                let _ = holds!(c, g.is_none() || g == exp, "Ok(v) only for the canonical encoding of a fitting v (first item)"; input, g, exp);
            }
        }
        // no complete string item
        None => {
            let none: Option<BigUint> = None;
            check!(c, got, none; input);
        }
    }
}

fn rlp_decode<const L: usize>(c: &mut Ctx)
where
    Uint<L>: Encoding,
    <Uint<L> as Encoding>::Repr: Default,
{
    let n = 8 * L;
    // round trip
    for a in codec_values(c, L, 4) {
        if c.done() {
            return;
        }
        let enc = canonical_rlp(&a);
        check!(c, call(|| rlp::decode::<Uint<L>>(&enc).ok().map(|r| ub(&r))), Some(a.clone()); a);
        check!(c, call(|| rlp::Rlp::new(&enc).as_val::<Uint<L>>().ok().map(|r| ub(&r))), Some(a.clone()); a);
        let x = bu::<L>(&a);
        check!(c, call(|| rlp::decode::<Uint<L>>(&rlp::encode(&x)).ok().map(|r| ub(&r))), Some(a.clone()); a);
        let y = bu::<L>(&(&a >> 9usize));
        check!(c, call(|| rlp::Rlp::new(&rlp::encode_list::<Uint<L>, _>(&[x, y])).as_list::<Uint<L>>().ok().map(|v| v.iter().map(ub).collect::<Vec<_>>())), Some(vec![a.clone(), &a >> 9usize]); a);
    }
    let explicit: Vec<Vec<u8>> = vec![
        vec![],
        vec![0x00],
        vec![0x01],
        vec![0x7f],
        vec![0x80],
        vec![0x81],
        vec![0x81, 0x00],
        vec![0x81, 0x05],
        vec![0x81, 0x7f],
        vec![0x81, 0x80],
        vec![0x81, 0xff],
        vec![0x82, 0x00, 0x01],
        vec![0x82, 0x01, 0x00],
        vec![0x82, 0x01],
        vec![0x83, 0x00, 0x00, 0x00],
        vec![0xb7],
        vec![0xb8],
        vec![0xb8, 0x00],
        vec![0xb8, 0x01],
        vec![0xb8, 0x01, 0x05],
        vec![0xb8, 0x01, 0x80],
        vec![0xb8, 0x02, 0x01, 0x00],
        vec![0xb9, 0x00],
        vec![0xb9, 0x00, 0x01, 0x05],
        vec![0xb9, 0x01, 0x00],
        vec![0xbf, 0xff, 0xff, 0xff, 0xff, 0xff, 0xff, 0xff, 0xff],
        vec![0xbf, 0x00, 0x00, 0x00, 0x00, 0x00, 0x00, 0x00, 0x01, 0x05],
        vec![0xc0],
        vec![0xc1, 0x01],
        vec![0xc2, 0x01, 0x02],
        vec![0xf8, 0x01, 0x05],
        vec![0xff],
    ];
    for input in &explicit {
        rlp_check_input::<L>(c, input, false);
    }
    // systematic payloads x framings
    let mut lens: Vec<usize> = vec![0, 1, 2, 3, 54, 55, 56, 57, 255, 256, 257];
    lens.extend(n.saturating_sub(2)..=n + 4);
    lens.sort();
    lens.dedup();
    for len in lens {
        for f0 in [0x00u8, 0x01, 0x05, 0x7f, 0x80, 0xff] {
            for rest in 0..3 {
                if c.done() {
                    return;
                }
                let mut p: Vec<u8> = match rest {
                    0 => vec![0u8; len],
                    1 => vec![0xffu8; len],
                    _ => rnd_bytes(c, len),
                };
                if len > 0 {
                    p[0] = f0;
                } else if f0 != 0 || rest != 0 {
                    continue;
                }
                let l = rlp_len_bytes(len);
                let mut framings: Vec<Vec<u8>> = Vec::new();
                if len <= 55 {
                    framings.push([vec![0x80 + len as u8], p.clone()].concat());
                    framings.push([vec![0xc0 + len as u8], p.clone()].concat());
                }
                if len == 1 {
                    framings.push(p.clone());
                }
                // long form with minimal and with zero-padded length
                framings.push([vec![0xb7 + l.len().max(1) as u8], if l.is_empty() { vec![0] } else { l.clone() }, p.clone()].concat());
                framings.push([vec![0xb8 + l.len() as u8], vec![0], l.clone(), p.clone()].concat());
                framings.push([vec![0xf7 + l.len().max(1) as u8], if l.is_empty() { vec![0] } else { l.clone() }, p.clone()].concat());
                let extra: Vec<Vec<u8>> = framings
                    .iter()
                    .flat_map(|f| {
                        let mut t = vec![[f.clone(), vec![0x00]].concat(), [f.clone(), vec![0x80]].concat()];
                        if f.len() > 1 {
                            t.push(f[..f.len() - 1].to_vec());
                            t.push(f[..f.len() / 2].to_vec());
                        }
                        t
                    })
                    .collect();
                for input in framings.iter().chain(extra.iter()) {
                    rlp_check_input::<L>(c, input, false);
                }
            }
        }
    }
    // mutations of valid encodings and random strings
    let mut vals = c.edges(L, 48);
    for _ in 0..(c.iters / 16).max(8) {
        vals.push(c.rnd(L));
    }
    for a in vals {
        if c.done() {
            return;
        }
        let enc = canonical_rlp(&a);
        let m = enc.len();
        let mut pos = vec![0, 1, 2, m / 2, m - 1];
        pos.retain(|&p| p < m);
        pos.dedup();
        for &p in &pos {
            let mut del = enc.clone();
            del.remove(p);
            rlp_check_input::<L>(c, &del, false);
            for b in [0x00u8, 0x01, 0x7f, 0x80, 0xb8, 0xc0, 0xff] {
                let mut ins = enc.clone();
                ins.insert(p, b);
                rlp_check_input::<L>(c, &ins, false);
                let mut set = enc.clone();
                set[p] = b;
                rlp_check_input::<L>(c, &set, false);
            }
        }
    }
    for _ in 0..c.iters / 2 {
        if c.done() {
            return;
        }
        let len = c.below(n + 6);
        let mut input = rnd_bytes(c, len);
        if len > 0 && c.coin() {
            input[0] = 0x80 + (len - 1).min(55) as u8;
        }
        rlp_check_input::<L>(c, &input, false);
    }
}

/// The long-string form (0xb7 + length-of-length) used for a string shorter than 56 bytes is not
/// canonical: must be an error.
fn rlp_long_form_short<const L: usize>(c: &mut Ctx)
where
    Uint<L>: Encoding,
    <Uint<L> as Encoding>::Repr: Default,
{
    let mut vals = vec![BigUint::from(5u8), BigUint::from(0x80u8), BigUint::from(0x100u32), BigUint::zero(), BigUint::one()];
    vals.extend(c.edges(L, 40));
    for _ in 0..(c.iters / 16).max(8) {
        vals.push(c.rnd(L));
    }
    for a in vals {
        let m = magnitude(&a);
        if m.len() > 55 {
            continue;
        }
        let one = [vec![0xb8, m.len() as u8], m.clone()].concat();
        let two = [vec![0xb9, 0x00, m.len() as u8], m.clone()].concat();
        let eight = [vec![0xbf, 0, 0, 0, 0, 0, 0, 0, m.len() as u8], m.clone()].concat();
        for input in [one, two, eight] {
            if c.done() {
                return;
            }
            rlp_check_input::<L>(c, &input, true);
        }
    }
}

// ---------------------------------------------------------------- table

pub fn cases() -> Vec<Case> {
    let mut v = Vec::new();
    ucases!(v, "DER to_der/encoded_len/value_len/encode_to_slice canonical + from_der/TryFrom<AnyRef>/TryFrom<UintRef> round trip", der_encode; 1, 2, 3, 4, 6, 8, 16, 32, 64, 128);
    ucases!(v, "DER from_der/TryFrom<AnyRef>/TryFrom<UintRef> arbitrary input", der_decode; 1, 2, 3, 4, 6, 8, 16, 32, 64, 128);
    ucases!(v, "RLP rlp::encode/RlpStream::append/encode_list canonical", rlp_encode; 1, 2, 3, 4, 6, 8, 16, 32, 64, 128);
    ucases!(v, "RLP rlp::decode/Rlp::as_val/as_list round trip and arbitrary input", rlp_decode; 1, 2, 3, 4);
    ucases!(v, "RLP rlp::decode long-string form for a string below 56 bytes", rlp_long_form_short; 1, 2, 3, 4);
    v
}
