//! C04 — addition, subtraction, negation: exact result and exact carry / overflow report.
//!
//! Oracle (num-bigint): s = a + b + carry_in, d = a - b - borrow_in as unbounded integers, W = 2^BITS of
//! the documented output precision. The result is s mod W (d mod W) and the reported carry /
//! borrow / overflow / none / panic occurs exactly when the true result is outside [0, W).
//!
//! Conventions of the crate that the oracle follows:
//! * carry words are plain numbers: `adc(a, b, c)` returns (lo, hi) with lo + hi * W = a + b + c for
//!   *every* carry-in word c (hi can be 2 for a single limb, c = MAX); `mac(a, b, c, k)` returns the
//!   two words of a + b*c + k.
//! * a borrow is a word *mask*: 0 = no borrow, all ones (MAX) = borrow. `sbb` returns MAX exactly
//!   when a - b - borrow_in < 0. The borrow-in is consumed through its most significant bit (that
//!   is how the only two values the crate produces, 0 and MAX, are decoded); the Limb-level case
//!   feeds 1, 2, 2^63, MAX and random words and expects "borrow iff top bit set". Uint/BoxedUint
//!   chains are fed 0 and MAX.
//! * `carrying_neg` returns the carry of (!a + 1), set iff a = 0.
//! * BoxedUint: by-value forms (`adc`, `sbb`, `wrapping_*`, `checked_*`, the binary operators with a
//!   boxed right-hand side, `Wrapping + Wrapping`) widen to the longer operand (W = 2^(64 max(l, r)),
//!   result has max(l, r) limbs); assigning forms (`adc_assign`, `sbb_assign`, `+=`, `-=`) and the forms
//!   with a `Uint<N>` / primitive right-hand side (implemented through `+=`) keep the receiver's
//!   precision. `adc_assign` / `sbb_assign` document a panic when the right-hand side is longer than the
//!   receiver (asserted with `must_panic!`); the undocumented operators are only used with a
//!   right-hand side that is not longer than the receiver (see the final report of this module's
//!   author: `a += &b` with a longer b, and a 1-limb receiver with a `u128`, are left out).

use super::prelude::*;
use crypto_bigint::subtle::ConditionallyNegatable;
use crypto_bigint::{Checked, CheckedAdd, CheckedSub, Wrapping, WrappingAdd, WrappingNeg, WrappingSub};

fn wmask(limbs: usize) -> BigUint {
    mask(64 * limbs as u32)
}

/// (a + b + k) as (value mod 2^bits, carry word)
fn add_oracle(a: &BigUint, b: &BigUint, k: &BigUint, bits: u32) -> (BigUint, BigUint) {
    let s = a + b + k;
    (&s & mask(bits), &s >> bits)
}

/// (a - b - k) as (value mod 2^bits, borrowed?) for k in {0, 1}
fn sub_oracle(a: &BigUint, b: &BigUint, k: u32, bits: u32) -> (BigUint, bool) {
    let d = BigInt::from(a.clone()) - BigInt::from(b.clone()) - BigInt::from(k);
    (wrap_unsigned(&d, bits), d < BigInt::zero())
}

fn borrow_word(b: bool) -> BigUint {
    if b { mask(64) } else { BigUint::zero() }
}

/// the limb pattern w0, w1, w0, w1, ... (little endian)
fn alternating(limbs: usize, w0: u64, w1: u64) -> BigUint {
    let w: Vec<u64> = (0..limbs).map(|i| if i % 2 == 0 { w0 } else { w1 }).collect();
    words_to_big(&w)
}

/// Pair corpus for add/sub of an `l1`-limb with an `l2`-limb value: the generic corpus plus full-width
/// carry / borrow propagation (MAX + 1, 0 - 1, alternating 0/MAX limbs), sums exactly 2^BITS - 1,
/// 2^BITS, 2^BITS + 1 (BITS of the wider operand and of the left operand), differences 0, +-1.
fn add_inputs(c: &mut Ctx, l1: usize, l2: usize) -> Vec<(BigUint, BigUint)> {
    let mut v = c.inputs2(l1, l2);
    let (m1, m2) = (wmask(l1), wmask(l2));
    let one = BigUint::one();
    let fixed = [
        (m1.clone(), one.clone()),
        (one.clone(), m2.clone()),
        (m1.clone(), m2.clone()),
        (BigUint::zero(), one.clone()),
        (BigUint::zero(), m2.clone()),
        (BigUint::zero(), BigUint::zero()),
        (m1.clone(), BigUint::zero()),
        (alternating(l1, 0, u64::MAX), alternating(l2, u64::MAX, 0)),
        (alternating(l1, u64::MAX, 0), alternating(l2, 0, u64::MAX)),
        (alternating(l1, u64::MAX, 0), alternating(l2, 1, u64::MAX)),
        (alternating(l1, 0, u64::MAX), alternating(l2, 0, 1)),
        (alternating(l1, u64::MAX, 0), one.clone()),
        (alternating(l1, 0, u64::MAX), alternating(l2, 1, 0)),
        (pow2(64 * l1 as u32 - 1), pow2(64 * l2 as u32 - 1)),
        (&m1 >> 1, (&m2 >> 1) + 1u32),
    ];
    v.extend(fixed);
    for round in 0..(48 + c.iters / 8) {
        let a = if round % 3 == 0 { c.rnd(l1) } else { words_to_big(&(0..l1).map(|_| c.edgy_word()).collect::<Vec<_>>()) };
        // sums at the boundaries of both candidate output widths
        for bits in [64 * l1 as u32, 64 * l1.max(l2) as u32] {
            for t in [mask(bits), pow2(bits), pow2(bits) + 1u32, mask(bits) - 1u32] {
                if t >= a {
                    let b = &t - &a;
                    if b <= m2 {
                        v.push((a.clone(), b));
                    }
                }
            }
        }
        // differences 0, +1, -1 and a borrow that ripples through zero limbs
        let b = &a & &m2;
        v.push((a.clone(), b.clone()));
        v.push((a.clone(), (&b + 1u32) & &m2));
        if !b.is_zero() {
            v.push((a.clone(), &b - 1u32));
        }
        let k = c.below(64 * l1);
        v.push((pow2(k as u32), one.clone()));
        v.push((pow2(k as u32), pow2(c.below(64 * l2) as u32)));
        v.push((mask(k as u32 + 1), one.clone()));
    }
    v
}

fn neg_inputs(c: &mut Ctx, l: usize) -> Vec<BigUint> {
    let mut v = c.inputs1(l);
    v.extend([alternating(l, 0, u64::MAX), alternating(l, u64::MAX, 0), alternating(l, 0, 1), pow2(64 * l as u32 - 1)]);
    for k in 0..64 * l as u32 {
        if k % 5 == 0 || k % 64 >= 62 || k % 64 == 0 {
            v.push(pow2(k));
            v.push(mask(k + 1));
        }
    }
    v
}

const CARRIES: [u64; 6] = [0, 1, 2, u64::MAX, 1 << 63, u64::MAX - 1];

macro_rules! panics_iff {
    ($c:expr, $ok:expr, $got:expr, $exp:expr; $($n:ident),*) => {
        if $ok {
            check!($c, $got, $exp; $($n),*);
        } else {
            must_panic!($c, $got; $($n),*);
        }
    };
}

// ---------------------------------------------------------------- Limb

fn limb_words(c: &mut Ctx) -> Vec<u64> {
    let mut w: Vec<u64> = crate::generate::ALPHA.to_vec();
    w.extend([3, u32::MAX as u64, (1 << 32) + 1, u64::MAX - 2, (1 << 63) - 2]);
    w.push(c.word());
    w.push(c.word() | 1 << 63);
    w
}

fn limb_triples(c: &mut Ctx) -> Vec<(u64, u64, u64)> {
    let w = limb_words(c);
    let mut v = Vec::new();
    for &a in &w {
        for &b in &w {
            for &k in &w {
                v.push((a, b, k));
            }
        }
    }
    for _ in 0..c.iters {
        let a = c.edgy_word();
        let k = CARRIES[c.below(CARRIES.len())];
        v.push((a, c.edgy_word(), k));
        v.push((a, !a, k));
        v.push((a, a.wrapping_neg(), k));
        v.push((a, a, k));
        v.push((a, a.wrapping_add(1), k));
        v.push((a, a.wrapping_sub(1), c.word()));
    }
    v
}

fn limb_adc(c: &mut Ctx) {
    for (a, b, k) in limb_triples(c) {
        if c.done() {
            return;
        }
        let (ba, bb, bk) = (BigUint::from(a), BigUint::from(b), BigUint::from(k));
        let exp = add_oracle(&ba, &bb, &bk, 64);
        check!(c, call(|| Limb(a).adc(Limb(b), Limb(k))).map(|(r, k)| (lb(r), lb(k))), exp; ba, bb, bk);
    }
}

fn limb_sbb(c: &mut Ctx) {
    for (a, b, k) in limb_triples(c) {
        if c.done() {
            return;
        }
        let (ba, bb, bk) = (BigUint::from(a), BigUint::from(b), BigUint::from(k));
        // borrow mask convention: the incoming borrow is the top bit of the word
        let (r, out) = sub_oracle(&ba, &bb, (k >> 63) as u32, 64);
        check!(c, call(|| Limb(a).sbb(Limb(b), Limb(k))).map(|(r, k)| (lb(r), lb(k))), (r, borrow_word(out)); ba, bb, bk);
    }
}

fn limb_mac(c: &mut Ctx) {
    let w = limb_words(c);
    let mut v = Vec::new();
    for &a in &w {
        for &b in &w {
            for &m in &w {
                for &k in &w {
                    v.push((a, b, m, k));
                }
            }
        }
    }
    for _ in 0..c.iters {
        v.push((c.edgy_word(), c.edgy_word(), c.edgy_word(), CARRIES[c.below(CARRIES.len())]));
    }
    for (a, b, m, k) in v {
        if c.done() {
            return;
        }
        let (ba, bb, bm, bk) = (BigUint::from(a), BigUint::from(b), BigUint::from(m), BigUint::from(k));
        let t = &ba + &bb * &bm + &bk;
        let exp = (&t & mask(64), &t >> 64);
        check!(c, call(|| Limb(a).mac(Limb(b), Limb(m), Limb(k))).map(|(lo, hi)| (lb(lo), lb(hi))), exp; ba, bb, bm, bk);
    }
}

fn limb_forms(c: &mut Ctx) {
    for (a, b, _) in limb_triples(c) {
        if c.done() {
            return;
        }
        let (x, y) = (Limb(a), Limb(b));
        let (a, b) = (BigUint::from(a), BigUint::from(b));
        let (sum, carry) = add_oracle(&a, &b, &BigUint::zero(), 64);
        let (dif, borrow) = sub_oracle(&a, &b, 0, 64);
        let (sfit, dfit) = (carry.is_zero(), !borrow);
        check!(c, call(|| x.overflowing_add(y)).map(|(r, k)| (lb(r), lb(k))), (sum.clone(), carry.clone()); a, b);
        check!(c, call(|| x.wrapping_add(y)).map(lb), sum.clone(); a, b);
        check!(c, call(|| WrappingAdd::wrapping_add(&x, &y)).map(lb), sum.clone(); a, b);
        check!(c, call(|| x.saturating_add(y)).map(lb), if sfit { sum.clone() } else { mask(64) }; a, b);
        let sexp = if sfit { Some(sum.clone()) } else { None };
        check!(c, call(|| opt(x.checked_add(&y))).map(|r| r.map(lb)), sexp.clone(); a, b);
        panics_iff!(c, sfit, call(|| x + y).map(lb), sum.clone(); a, b);
        check!(c, call(|| x.wrapping_sub(y)).map(lb), dif.clone(); a, b);
        check!(c, call(|| WrappingSub::wrapping_sub(&x, &y)).map(lb), dif.clone(); a, b);
        check!(c, call(|| x.saturating_sub(y)).map(lb), if dfit { dif.clone() } else { BigUint::zero() }; a, b);
        let dexp = if dfit { Some(dif.clone()) } else { None };
        check!(c, call(|| opt(x.checked_sub(&y))).map(|r| r.map(lb)), dexp.clone(); a, b);
        panics_iff!(c, dfit, call(|| x - y).map(lb), dif.clone(); a, b);
        panics_iff!(c, dfit, call(|| x - &y).map(lb), dif.clone(); a, b);
        let neg = wrap_unsigned(&-BigInt::from(a.clone()), 64);
        check!(c, call(|| x.wrapping_neg()).map(lb), neg.clone(); a);
        check!(c, call(|| WrappingNeg::wrapping_neg(&x)).map(lb), neg.clone(); a);
        // Wrapping<Limb>
        let (wx, wy) = (Wrapping(x), Wrapping(y));
        check!(c, call(|| wx + wy).map(|r| lb(r.0)), sum.clone(); a, b);
        check!(c, call(|| wx + &wy).map(|r| lb(r.0)), sum.clone(); a, b);
        check!(c, call(|| &wx + wy).map(|r| lb(r.0)), sum.clone(); a, b);
        check!(c, call(|| &wx + &wy).map(|r| lb(r.0)), sum.clone(); a, b);
        check!(c, call(|| { let mut t = wx; t += wy; t }).map(|r| lb(r.0)), sum.clone(); a, b);
        check!(c, call(|| { let mut t = wx; t += &wy; t }).map(|r| lb(r.0)), sum.clone(); a, b);
        check!(c, call(|| wx - wy).map(|r| lb(r.0)), dif.clone(); a, b);
        check!(c, call(|| wx - &wy).map(|r| lb(r.0)), dif.clone(); a, b);
        check!(c, call(|| &wx - wy).map(|r| lb(r.0)), dif.clone(); a, b);
        check!(c, call(|| &wx - &wy).map(|r| lb(r.0)), dif.clone(); a, b);
        check!(c, call(|| { let mut t = wx; t -= wy; t }).map(|r| lb(r.0)), dif.clone(); a, b);
        check!(c, call(|| { let mut t = wx; t -= &wy; t }).map(|r| lb(r.0)), dif.clone(); a, b);
        check!(c, call(|| -wx).map(|r| lb(r.0)), neg.clone(); a);
        check!(c, call(|| -&wx).map(|r| lb(r.0)), neg; a);
        // Checked<Limb>
        let ob = |r: Checked<Limb>| opt(r.0).map(lb);
        let (cx, cy) = (Checked::new(x), Checked::new(y));
        check!(c, call(|| cx + cy).map(ob), sexp.clone(); a, b);
        check!(c, call(|| cx + &cy).map(ob), sexp.clone(); a, b);
        check!(c, call(|| &cx + cy).map(ob), sexp.clone(); a, b);
        check!(c, call(|| &cx + &cy).map(ob), sexp.clone(); a, b);
        check!(c, call(|| { let mut t = cx; t += cy; t }).map(ob), sexp.clone(); a, b);
        check!(c, call(|| { let mut t = cx; t += &cy; t }).map(ob), sexp; a, b);
        check!(c, call(|| cx - cy).map(ob), dexp.clone(); a, b);
        check!(c, call(|| cx - &cy).map(ob), dexp.clone(); a, b);
        check!(c, call(|| &cx - cy).map(ob), dexp.clone(); a, b);
        check!(c, call(|| &cx - &cy).map(ob), dexp.clone(); a, b);
        check!(c, call(|| { let mut t = cx; t -= cy; t }).map(ob), dexp.clone(); a, b);
        check!(c, call(|| { let mut t = cx; t -= &cy; t }).map(ob), dexp; a, b);
        let none = Checked(CtOption::new(x, Choice::from(0)));
        let e: Option<BigUint> = None;
        check!(c, call(|| none + cy).map(ob), e.clone(); a, b);
        check!(c, call(|| cy + none).map(ob), e.clone(); a, b);
        check!(c, call(|| none - cy).map(ob), e.clone(); a, b);
        check!(c, call(|| cy - none).map(ob), e; a, b);
    }
}

// ---------------------------------------------------------------- Uint

fn adc_sbb<const L: usize>(c: &mut Ctx) {
    let bits = 64 * L as u32;
    for (i, (a, b)) in add_inputs(c, L, L).into_iter().enumerate() {
        if c.done() {
            return;
        }
        let (x, y) = (bu::<L>(&a), bu::<L>(&b));
        // carry-in 0 and 1 always, a larger carry word in rotation
        for k in [0, 1, CARRIES[2 + i % 4]] {
            let bk = BigUint::from(k);
            check!(c, call(|| x.adc(&y, Limb(k))).map(|(r, k)| (ub(&r), lb(k))), add_oracle(&a, &b, &bk, bits); a, b, bk);
        }
        for k in [0u32, 1] {
            let (r, out) = sub_oracle(&a, &b, k, bits);
            let bin = if k == 1 { Limb::MAX } else { Limb::ZERO };
            check!(c, call(|| x.sbb(&y, bin)).map(|(r, k)| (ub(&r), lb(k))), (r, borrow_word(out)); a, b, k);
        }
    }
}

fn wrapping_checked_saturating<const L: usize>(c: &mut Ctx) {
    let bits = 64 * L as u32;
    for (a, b) in add_inputs(c, L, L) {
        if c.done() {
            return;
        }
        let (x, y) = (bu::<L>(&a), bu::<L>(&b));
        let (sum, carry) = add_oracle(&a, &b, &BigUint::zero(), bits);
        let (dif, borrow) = sub_oracle(&a, &b, 0, bits);
        let (sfit, dfit) = (carry.is_zero(), !borrow);
        check!(c, call(|| x.wrapping_add(&y)).map(|r| ub(&r)), sum.clone(); a, b);
        check!(c, call(|| WrappingAdd::wrapping_add(&x, &y)).map(|r| ub(&r)), sum.clone(); a, b);
        check!(c, call(|| x.saturating_add(&y)).map(|r| ub(&r)), if sfit { sum.clone() } else { wmask(L) }; a, b);
        check!(c, call(|| opt(x.checked_add(&y))).map(|r| r.map(|r| ub(&r))), if sfit { Some(sum) } else { None }; a, b);
        check!(c, call(|| x.wrapping_sub(&y)).map(|r| ub(&r)), dif.clone(); a, b);
        check!(c, call(|| WrappingSub::wrapping_sub(&x, &y)).map(|r| ub(&r)), dif.clone(); a, b);
        check!(c, call(|| x.saturating_sub(&y)).map(|r| ub(&r)), if dfit { dif.clone() } else { BigUint::zero() }; a, b);
        check!(c, call(|| opt(x.checked_sub(&y))).map(|r| r.map(|r| ub(&r))), if dfit { Some(dif) } else { None }; a, b);
    }
}

fn negation<const L: usize>(c: &mut Ctx) {
    let bits = 64 * L as u32;
    for a in neg_inputs(c, L) {
        if c.done() {
            return;
        }
        let x = bu::<L>(&a);
        let neg = wrap_unsigned(&-BigInt::from(a.clone()), bits);
        check!(c, call(|| x.wrapping_neg()).map(|r| ub(&r)), neg.clone(); a);
        check!(c, call(|| WrappingNeg::wrapping_neg(&x)).map(|r| ub(&r)), neg.clone(); a);
        check!(c, call(|| x.carrying_neg()).map(|(r, k)| (ub(&r), ccb(k))), (neg.clone(), a.is_zero()); a);
        check!(c, call(|| x.wrapping_neg_if(ConstChoice::TRUE)).map(|r| ub(&r)), neg.clone(); a);
        check!(c, call(|| x.wrapping_neg_if(ConstChoice::FALSE)).map(|r| ub(&r)), a.clone(); a);
        check!(c, call(|| -Wrapping(x)).map(|r| ub(&r.0)), neg.clone(); a);
        check!(c, call(|| -&Wrapping(x)).map(|r| ub(&r.0)), neg; a);
    }
}

fn operators<const L: usize>(c: &mut Ctx) {
    let bits = 64 * L as u32;
    for (a, b) in add_inputs(c, L, L) {
        if c.done() {
            return;
        }
        let (x, y) = (bu::<L>(&a), bu::<L>(&b));
        let (sum, carry) = add_oracle(&a, &b, &BigUint::zero(), bits);
        let (dif, borrow) = sub_oracle(&a, &b, 0, bits);
        let (sfit, dfit) = (carry.is_zero(), !borrow);
        panics_iff!(c, sfit, call(|| x + y).map(|r| ub(&r)), sum.clone(); a, b);
        panics_iff!(c, sfit, call(|| x + &y).map(|r| ub(&r)), sum.clone(); a, b);
        panics_iff!(c, sfit, call(|| { let mut t = x; t += y; t }).map(|r| ub(&r)), sum.clone(); a, b);
        panics_iff!(c, sfit, call(|| { let mut t = x; t += &y; t }).map(|r| ub(&r)), sum.clone(); a, b);
        panics_iff!(c, dfit, call(|| x - y).map(|r| ub(&r)), dif.clone(); a, b);
        panics_iff!(c, dfit, call(|| x - &y).map(|r| ub(&r)), dif.clone(); a, b);
        panics_iff!(c, dfit, call(|| { let mut t = x; t -= y; t }).map(|r| ub(&r)), dif.clone(); a, b);
        panics_iff!(c, dfit, call(|| { let mut t = x; t -= &y; t }).map(|r| ub(&r)), dif.clone(); a, b);
    }
}

fn wrapping_wrapper<const L: usize>(c: &mut Ctx) {
    let bits = 64 * L as u32;
    for (a, b) in add_inputs(c, L, L) {
        if c.done() {
            return;
        }
        let (x, y) = (Wrapping(bu::<L>(&a)), Wrapping(bu::<L>(&b)));
        let sum = add_oracle(&a, &b, &BigUint::zero(), bits).0;
        let dif = sub_oracle(&a, &b, 0, bits).0;
        check!(c, call(|| x + y).map(|r| ub(&r.0)), sum.clone(); a, b);
        check!(c, call(|| x + &y).map(|r| ub(&r.0)), sum.clone(); a, b);
        check!(c, call(|| &x + y).map(|r| ub(&r.0)), sum.clone(); a, b);
        check!(c, call(|| &x + &y).map(|r| ub(&r.0)), sum.clone(); a, b);
        check!(c, call(|| { let mut t = x; t += y; t }).map(|r| ub(&r.0)), sum.clone(); a, b);
        check!(c, call(|| { let mut t = x; t += &y; t }).map(|r| ub(&r.0)), sum; a, b);
        check!(c, call(|| x - y).map(|r| ub(&r.0)), dif.clone(); a, b);
        check!(c, call(|| x - &y).map(|r| ub(&r.0)), dif.clone(); a, b);
        check!(c, call(|| &x - y).map(|r| ub(&r.0)), dif.clone(); a, b);
        check!(c, call(|| &x - &y).map(|r| ub(&r.0)), dif.clone(); a, b);
        check!(c, call(|| { let mut t = x; t -= y; t }).map(|r| ub(&r.0)), dif.clone(); a, b);
        check!(c, call(|| { let mut t = x; t -= &y; t }).map(|r| ub(&r.0)), dif; a, b);
    }
}

fn checked_wrapper<const L: usize>(c: &mut Ctx) {
    let bits = 64 * L as u32;
    let ob = |r: Checked<Uint<L>>| opt(r.0).map(|r| ub(&r));
    for (a, b) in add_inputs(c, L, L) {
        if c.done() {
            return;
        }
        let (x, y) = (Checked::new(bu::<L>(&a)), Checked::new(bu::<L>(&b)));
        let (sum, carry) = add_oracle(&a, &b, &BigUint::zero(), bits);
        let (dif, borrow) = sub_oracle(&a, &b, 0, bits);
        let sexp = if carry.is_zero() { Some(sum) } else { None };
        let dexp = if !borrow { Some(dif) } else { None };
        check!(c, call(|| x + y).map(ob), sexp.clone(); a, b);
        check!(c, call(|| x + &y).map(ob), sexp.clone(); a, b);
        check!(c, call(|| &x + y).map(ob), sexp.clone(); a, b);
        check!(c, call(|| &x + &y).map(ob), sexp.clone(); a, b);
        check!(c, call(|| { let mut t = x; t += y; t }).map(ob), sexp.clone(); a, b);
        check!(c, call(|| { let mut t = x; t += &y; t }).map(ob), sexp.clone(); a, b);
        check!(c, call(|| x - y).map(ob), dexp.clone(); a, b);
        check!(c, call(|| x - &y).map(ob), dexp.clone(); a, b);
        check!(c, call(|| &x - y).map(ob), dexp.clone(); a, b);
        check!(c, call(|| &x - &y).map(ob), dexp.clone(); a, b);
        check!(c, call(|| { let mut t = x; t -= y; t }).map(ob), dexp.clone(); a, b);
        check!(c, call(|| { let mut t = x; t -= &y; t }).map(ob), dexp.clone(); a, b);
        // sticky none: once an operand is none the result is none, also when a later step "fits"
        let none = Checked(CtOption::new(bu::<L>(&a), Choice::from(0)));
        let e: Option<BigUint> = None;
        check!(c, call(|| none + y).map(ob), e.clone(); a, b);
        check!(c, call(|| y + none).map(ob), e.clone(); a, b);
        check!(c, call(|| none - y).map(ob), e.clone(); a, b);
        check!(c, call(|| y - none).map(ob), e.clone(); a, b);
        check!(c, call(|| { let mut t = none; t += y; t }).map(ob), e.clone(); a, b);
        check!(c, call(|| { let mut t = y; t -= &none; t }).map(ob), e.clone(); a, b);
        // (a + b) - b: none iff the addition overflowed, else a
        let chain = if sexp.is_some() { Some(a.clone()) } else { None };
        check!(c, call(|| (x + y) - y).map(ob), chain; a, b);
        // (a - b) + b
        let chain = if dexp.is_some() { Some(a.clone()) } else { None };
        check!(c, call(|| (x - y) + y).map(ob), chain; a, b);
    }
}

// ---------------------------------------------------------------- BoxedUint

fn shape(r: &BoxedUint) -> (BigUint, usize) {
    (xb(r), r.nlimbs())
}

/// by-value forms with a boxed right-hand side of any precision: widened to max(nl, rl) limbs
fn boxed_by_value_forms(c: &mut Ctx, a: &BigUint, b: &BigUint, nl: usize, rl: usize, i: usize) {
    let (a, b) = (a.clone(), b.clone());
    let (x, y) = (bx(&a, nl), bx(&b, rl));
    let ol = nl.max(rl);
    let bits = 64 * ol as u32;
    for k in [0, 1, CARRIES[2 + i % 4]] {
        let bk = BigUint::from(k);
        let (r, out) = add_oracle(&a, &b, &bk, bits);
        check!(c, call(|| x.adc(&y, Limb(k))).map(|(r, k)| (shape(&r), lb(k))), ((r, ol), out); a, b, bk, nl, rl);
    }
    for k in [0u32, 1] {
        let (r, out) = sub_oracle(&a, &b, k, bits);
        let bin = if k == 1 { Limb::MAX } else { Limb::ZERO };
        check!(c, call(|| x.sbb(&y, bin)).map(|(r, k)| (shape(&r), lb(k))), ((r, ol), borrow_word(out)); a, b, k, nl, rl);
    }
    let (sum, carry) = add_oracle(&a, &b, &BigUint::zero(), bits);
    let (dif, borrow) = sub_oracle(&a, &b, 0, bits);
    let (sfit, dfit) = (carry.is_zero(), !borrow);
    check!(c, call(|| x.wrapping_add(&y)).map(|r| shape(&r)), (sum.clone(), ol); a, b, nl, rl);
    check!(c, call(|| WrappingAdd::wrapping_add(&x, &y)).map(|r| shape(&r)), (sum.clone(), ol); a, b, nl, rl);
    check!(c, call(|| opt(x.checked_add(&y))).map(|r| r.map(|r| shape(&r))), if sfit { Some((sum.clone(), ol)) } else { None }; a, b, nl, rl);
    check!(c, call(|| x.wrapping_sub(&y)).map(|r| shape(&r)), (dif.clone(), ol); a, b, nl, rl);
    check!(c, call(|| WrappingSub::wrapping_sub(&x, &y)).map(|r| shape(&r)), (dif.clone(), ol); a, b, nl, rl);
    check!(c, call(|| opt(x.checked_sub(&y))).map(|r| r.map(|r| shape(&r))), if dfit { Some((dif.clone(), ol)) } else { None }; a, b, nl, rl);
    // operators: all four reference forms are `checked_*(..).expect(..)`
    panics_iff!(c, sfit, call(|| &x + &y).map(|r| shape(&r)), (sum.clone(), ol); a, b, nl, rl);
    panics_iff!(c, sfit, call(|| x.clone() + &y).map(|r| shape(&r)), (sum.clone(), ol); a, b, nl, rl);
    panics_iff!(c, sfit, call(|| &x + y.clone()).map(|r| shape(&r)), (sum.clone(), ol); a, b, nl, rl);
    panics_iff!(c, sfit, call(|| x.clone() + y.clone()).map(|r| shape(&r)), (sum.clone(), ol); a, b, nl, rl);
    panics_iff!(c, dfit, call(|| &x - &y).map(|r| shape(&r)), (dif.clone(), ol); a, b, nl, rl);
    panics_iff!(c, dfit, call(|| x.clone() - &y).map(|r| shape(&r)), (dif.clone(), ol); a, b, nl, rl);
    panics_iff!(c, dfit, call(|| &x - y.clone()).map(|r| shape(&r)), (dif.clone(), ol); a, b, nl, rl);
    panics_iff!(c, dfit, call(|| x.clone() - y.clone()).map(|r| shape(&r)), (dif.clone(), ol); a, b, nl, rl);
    // Wrapping<BoxedUint> binary operators = wrapping_add / wrapping_sub
    let (wx, wy) = (Wrapping(x.clone()), Wrapping(y.clone()));
    check!(c, call(|| &wx + &wy).map(|r| shape(&r.0)), (sum.clone(), ol); a, b, nl, rl);
    check!(c, call(|| wx.clone() + &wy).map(|r| shape(&r.0)), (sum.clone(), ol); a, b, nl, rl);
    check!(c, call(|| &wx + wy.clone()).map(|r| shape(&r.0)), (sum.clone(), ol); a, b, nl, rl);
    check!(c, call(|| wx.clone() + wy.clone()).map(|r| shape(&r.0)), (sum, ol); a, b, nl, rl);
    check!(c, call(|| &wx - &wy).map(|r| shape(&r.0)), (dif.clone(), ol); a, b, nl, rl);
    check!(c, call(|| wx.clone() - &wy).map(|r| shape(&r.0)), (dif.clone(), ol); a, b, nl, rl);
    check!(c, call(|| &wx - wy.clone()).map(|r| shape(&r.0)), (dif.clone(), ol); a, b, nl, rl);
    check!(c, call(|| wx.clone() - wy.clone()).map(|r| shape(&r.0)), (dif, ol); a, b, nl, rl);
}

/// assigning forms: receiver precision; rhs not longer than the receiver
fn boxed_assign_forms(c: &mut Ctx, a: &BigUint, b: &BigUint, nl: usize, rl: usize, i: usize) {
    assert!(rl <= nl);
    let (a, b) = (a.clone(), b.clone());
    let (x, y) = (bx(&a, nl), bx(&b, rl));
    let bits = 64 * nl as u32;
    for k in [0, 1, CARRIES[2 + i % 4]] {
        let bk = BigUint::from(k);
        let (r, out) = add_oracle(&a, &b, &bk, bits);
        check!(c, call(|| { let mut t = x.clone(); let k = t.adc_assign(&y, Limb(k)); (t, k) }).map(|(r, k)| (shape(&r), lb(k))), ((r.clone(), nl), out.clone()); a, b, bk, nl, rl);
        check!(c, call(|| { let mut t = x.clone(); let k = t.adc_assign(y.as_limbs(), Limb(k)); (t, k) }).map(|(r, k)| (shape(&r), lb(k))), ((r, nl), out); a, b, bk, nl, rl);
    }
    for k in [0u32, 1] {
        let (r, out) = sub_oracle(&a, &b, k, bits);
        let bin = if k == 1 { Limb::MAX } else { Limb::ZERO };
        check!(c, call(|| { let mut t = x.clone(); let k = t.sbb_assign(&y, bin); (t, k) }).map(|(r, k)| (shape(&r), lb(k))), ((r.clone(), nl), borrow_word(out)); a, b, k, nl, rl);
        check!(c, call(|| { let mut t = x.clone(); let k = t.sbb_assign(y.as_limbs(), bin); (t, k) }).map(|(r, k)| (shape(&r), lb(k))), ((r, nl), borrow_word(out)); a, b, k, nl, rl);
    }
    let (sum, carry) = add_oracle(&a, &b, &BigUint::zero(), bits);
    let (dif, borrow) = sub_oracle(&a, &b, 0, bits);
    let (sfit, dfit) = (carry.is_zero(), !borrow);
    panics_iff!(c, sfit, call(|| { let mut t = x.clone(); t += &y; t }).map(|r| shape(&r)), (sum.clone(), nl); a, b, nl, rl);
    panics_iff!(c, sfit, call(|| { let mut t = x.clone(); t += y.clone(); t }).map(|r| shape(&r)), (sum.clone(), nl); a, b, nl, rl);
    panics_iff!(c, dfit, call(|| { let mut t = x.clone(); t -= &y; t }).map(|r| shape(&r)), (dif.clone(), nl); a, b, nl, rl);
    panics_iff!(c, dfit, call(|| { let mut t = x.clone(); t -= y.clone(); t }).map(|r| shape(&r)), (dif.clone(), nl); a, b, nl, rl);
    let (wx, wy) = (Wrapping(x.clone()), Wrapping(y.clone()));
    check!(c, call(|| { let mut t = wx.clone(); t += &wy; t }).map(|r| shape(&r.0)), (sum.clone(), nl); a, b, nl, rl);
    check!(c, call(|| { let mut t = wx.clone(); t += wy.clone(); t }).map(|r| shape(&r.0)), (sum, nl); a, b, nl, rl);
    check!(c, call(|| { let mut t = wx.clone(); t -= &wy; t }).map(|r| shape(&r.0)), (dif.clone(), nl); a, b, nl, rl);
    check!(c, call(|| { let mut t = wx.clone(); t -= wy.clone(); t }).map(|r| shape(&r.0)), (dif, nl); a, b, nl, rl);
}

fn boxed_by_value(c: &mut Ctx) {
    for nl in 1..=4usize {
        for rl in 1..=4usize {
            for (i, (a, b)) in c.scaled(16, |c| add_inputs(c, nl, rl)).into_iter().enumerate() {
                if c.done() {
                    return;
                }
                boxed_by_value_forms(c, &a, &b, nl, rl, i);
            }
        }
    }
}

fn boxed_assign(c: &mut Ctx) {
    for nl in 1..=4usize {
        for rl in 1..=nl {
            for (i, (a, b)) in c.scaled(10, |c| add_inputs(c, nl, rl)).into_iter().enumerate() {
                if c.done() {
                    return;
                }
                boxed_assign_forms(c, &a, &b, nl, rl, i);
            }
        }
    }
}

/// `adc_assign` / `sbb_assign`: "Panics if `rhs` has a larger precision than `self`."
fn boxed_assign_longer_rhs(c: &mut Ctx) {
    for (nl, rl) in [(1usize, 2usize), (1, 3), (2, 3), (2, 4), (3, 4), (4, 5), (1, 40)] {
        for (a, b) in c.scaled(64, |c| add_inputs(c, nl, rl)) {
            if c.done() {
                return;
            }
            let (x, y) = (bx(&a, nl), bx(&b, rl));
            must_panic!(c, call(|| { let mut t = x.clone(); let k = t.adc_assign(&y, Limb::ZERO); (xb(&t), lb(k)) }); a, b, nl, rl);
            must_panic!(c, call(|| { let mut t = x.clone(); let k = t.sbb_assign(&y, Limb::ZERO); (xb(&t), lb(k)) }); a, b, nl, rl);
            must_panic!(c, call(|| { let mut t = x.clone(); let k = t.adc_assign(y.as_limbs(), Limb::ONE); (xb(&t), lb(k)) }); a, b, nl, rl);
            must_panic!(c, call(|| { let mut t = x.clone(); let k = t.sbb_assign(y.as_limbs(), Limb::MAX); (xb(&t), lb(k)) }); a, b, nl, rl);
        }
    }
}

/// larger and more unequal precisions, fewer inputs
fn boxed_large(c: &mut Ctx) {
    let shapes = [(5usize, 5usize), (8, 3), (3, 8), (7, 6), (16, 17), (17, 16), (33, 32), (40, 40), (40, 1), (1, 40), (33, 40), (40, 39)];
    for (nl, rl) in shapes {
        for (i, (a, b)) in c.scaled(32, |c| add_inputs(c, nl, rl)).into_iter().enumerate() {
            if c.done() {
                return;
            }
            boxed_by_value_forms(c, &a, &b, nl, rl, i);
            if rl <= nl {
                boxed_assign_forms(c, &a, &b, nl, rl, i);
            }
        }
    }
}

/// BoxedUint with a `Uint<N>` right-hand side (N <= nlimbs): all forms go through `+=` / `-=`, i.e.
/// the receiver's precision; panic exactly on overflow / underflow.
fn boxed_uint_rhs<const N: usize>(c: &mut Ctx) {
    for nl in [N, N + 1, 4.max(N), 9.max(N + 2)] {
        for (a, b) in c.scaled(6, |c| add_inputs(c, nl, N)) {
            if c.done() {
                return;
            }
            let (x, y) = (bx(&a, nl), bu::<N>(&b));
            let bits = 64 * nl as u32;
            let (sum, carry) = add_oracle(&a, &b, &BigUint::zero(), bits);
            let (dif, borrow) = sub_oracle(&a, &b, 0, bits);
            let (sfit, dfit) = (carry.is_zero(), !borrow);
            panics_iff!(c, sfit, call(|| x.clone() + y).map(|r| shape(&r)), (sum.clone(), nl); a, b, nl);
            panics_iff!(c, sfit, call(|| x.clone() + &y).map(|r| shape(&r)), (sum.clone(), nl); a, b, nl);
            panics_iff!(c, sfit, call(|| &x + y).map(|r| shape(&r)), (sum.clone(), nl); a, b, nl);
            panics_iff!(c, sfit, call(|| &x + &y).map(|r| shape(&r)), (sum.clone(), nl); a, b, nl);
            panics_iff!(c, sfit, call(|| { let mut t = x.clone(); t += y; t }).map(|r| shape(&r)), (sum.clone(), nl); a, b, nl);
            panics_iff!(c, sfit, call(|| { let mut t = x.clone(); t += &y; t }).map(|r| shape(&r)), (sum, nl); a, b, nl);
            panics_iff!(c, dfit, call(|| x.clone() - y).map(|r| shape(&r)), (dif.clone(), nl); a, b, nl);
            panics_iff!(c, dfit, call(|| x.clone() - &y).map(|r| shape(&r)), (dif.clone(), nl); a, b, nl);
            panics_iff!(c, dfit, call(|| &x - y).map(|r| shape(&r)), (dif.clone(), nl); a, b, nl);
            panics_iff!(c, dfit, call(|| &x - &y).map(|r| shape(&r)), (dif.clone(), nl); a, b, nl);
            panics_iff!(c, dfit, call(|| { let mut t = x.clone(); t -= y; t }).map(|r| shape(&r)), (dif.clone(), nl); a, b, nl);
            panics_iff!(c, dfit, call(|| { let mut t = x.clone(); t -= &y; t }).map(|r| shape(&r)), (dif, nl); a, b, nl);
        }
    }
}

/// the three operator forms of one primitive type
macro_rules! prim_forms {
    ($c:expr, $x:expr, $p:expr, $sfit:expr, $dfit:expr, $sum:expr, $dif:expr, $nl:expr; $($n:ident),*) => {{
        let (x, p, nl) = (&$x, $p, $nl);
        panics_iff!($c, $sfit, call(|| x.clone() + p).map(|r| shape(&r)), ($sum.clone(), nl); $($n),*);
        panics_iff!($c, $sfit, call(|| x + p).map(|r| shape(&r)), ($sum.clone(), nl); $($n),*);
        panics_iff!($c, $sfit, call(|| { let mut t = x.clone(); t += p; t }).map(|r| shape(&r)), ($sum.clone(), nl); $($n),*);
        panics_iff!($c, $dfit, call(|| x.clone() - p).map(|r| shape(&r)), ($dif.clone(), nl); $($n),*);
        panics_iff!($c, $dfit, call(|| x - p).map(|r| shape(&r)), ($dif.clone(), nl); $($n),*);
        panics_iff!($c, $dfit, call(|| { let mut t = x.clone(); t -= p; t }).map(|r| shape(&r)), ($dif.clone(), nl); $($n),*);
    }};
}

/// BoxedUint with u8 / u16 / u32 / u64 / u128 right-hand sides (u128 only for receivers of >= 2 limbs).
fn boxed_primitive_rhs(c: &mut Ctx) {
    for nl in [1usize, 2, 3, 4, 17] {
        for pbits in [8u32, 16, 32, 64, 128] {
            if pbits == 128 && nl < 2 {
                continue;
            }
            let pl = if pbits == 128 { 2 } else { 1 };
            let mut v = c.scaled(24, |c| add_inputs(c, nl, pl));
            // small right-hand sides against receivers at the top / bottom of their range
            for _ in 0..(c.iters / 16).max(8) {
                let p = BigUint::from(c.edgy_word()) | (BigUint::from(c.edgy_word()) << 64);
                v.push((wmask(nl) - (&p & mask(pbits.min(64 * nl as u32))), p.clone()));
                v.push((&p & mask(pbits) & wmask(nl), p.clone()));
                v.push((wmask(nl), p.clone()));
                v.push((c.rnd(nl), p));
            }
            for (a, b) in v {
                if c.done() {
                    return;
                }
                // the primitive keeps its low `pbits` bits (also shifted-down variants to hit small values)
                let b = &b & mask(pbits);
                let x = bx(&a, nl);
                let bits = 64 * nl as u32;
                let (sum, carry) = add_oracle(&a, &b, &BigUint::zero(), bits);
                let (dif, borrow) = sub_oracle(&a, &b, 0, bits);
                let (sfit, dfit) = (carry.is_zero(), !borrow);
                let w = big_to_words(&b, 2);
                let p128 = (w[0] as u128) | ((w[1] as u128) << 64);
                match pbits {
                    8 => prim_forms!(c, x, p128 as u8, sfit, dfit, sum, dif, nl; a, b, nl, pbits),
                    16 => prim_forms!(c, x, p128 as u16, sfit, dfit, sum, dif, nl; a, b, nl, pbits),
                    32 => prim_forms!(c, x, p128 as u32, sfit, dfit, sum, dif, nl; a, b, nl, pbits),
                    64 => prim_forms!(c, x, p128 as u64, sfit, dfit, sum, dif, nl; a, b, nl, pbits),
                    _ => prim_forms!(c, x, p128, sfit, dfit, sum, dif, nl; a, b, nl, pbits),
                }
            }
        }
    }
}

fn boxed_negation(c: &mut Ctx) {
    for nl in [1usize, 2, 3, 4, 7, 40] {
        for a in c.scaled(6, |c| neg_inputs(c, nl)) {
            if c.done() {
                return;
            }
            let x = bx(&a, nl);
            let neg = wrap_unsigned(&-BigInt::from(a.clone()), 64 * nl as u32);
            check!(c, call(|| x.wrapping_neg()).map(|r| shape(&r)), (neg.clone(), nl); a, nl);
            check!(c, call(|| WrappingNeg::wrapping_neg(&x)).map(|r| shape(&r)), (neg.clone(), nl); a, nl);
            check!(c, call(|| -Wrapping(x.clone())).map(|r| shape(&r.0)), (neg.clone(), nl); a, nl);
            check!(c, call(|| -&Wrapping(x.clone())).map(|r| shape(&r.0)), (neg.clone(), nl); a, nl);
            check!(c, call(|| { let mut t = x.clone(); t.conditional_negate(Choice::from(1)); t }).map(|r| shape(&r)), (neg, nl); a, nl);
            check!(c, call(|| { let mut t = x.clone(); t.conditional_negate(Choice::from(0)); t }).map(|r| shape(&r)), (a.clone(), nl); a, nl);
        }
    }
}

pub fn cases() -> Vec<Case> {
    let mut v = Vec::new();
    case!(v, "Limb::adc (carry-in any word)", limb_adc);
    case!(v, "Limb::sbb (borrow-in any word, mask convention)", limb_sbb);
    case!(v, "Limb::mac (carry-in any word)", limb_mac);
    case!(v, "Limb::overflowing_add/wrapping_/saturating_/checked_ add sub/wrapping_neg/+ -/Wrapping<Limb>/Checked<Limb>", limb_forms);
    ucases!(v, "adc/sbb", adc_sbb; 1, 2, 3, 4, 5, 6, 7, 8, 9, 10, 11, 12, 16, 32);
    ucases!(v, "wrapping_/saturating_/checked_ add sub (+ traits)", wrapping_checked_saturating; 1, 2, 3, 4, 6, 8, 12, 16, 32);
    ucases!(v, "wrapping_neg/carrying_neg/wrapping_neg_if/WrappingNeg/-Wrapping", negation; 1, 2, 3, 4, 5, 6, 7, 8, 12, 16, 32);
    ucases!(v, "operators + - += -=", operators; 1, 2, 3, 4, 8, 16, 32);
    ucases!(v, "Wrapping<Uint> + - += -=", wrapping_wrapper; 1, 2, 3, 4, 16, 32);
    ucases!(v, "Checked<Uint> + - += -= (sticky none)", checked_wrapper; 1, 2, 3, 4, 16, 32);
    case!(v, "BoxedUint::adc/sbb/wrapping_/checked_ add sub/+ -/Wrapping + - (1..=4 x 1..=4 limbs, widened to the longer operand)", boxed_by_value);
    case!(v, "BoxedUint::adc_assign/sbb_assign/+= -=/Wrapping += -= (receiver 1..=4 limbs, rhs not longer)", boxed_assign);
    case!(v, "BoxedUint::adc_assign/sbb_assign with a longer rhs: documented panic", boxed_assign_longer_rhs);
    case!(v, "BoxedUint add/sub forms, 5..40 limbs and very unequal precisions", boxed_large);
    case!(v, "BoxedUint + - += -= U64", boxed_uint_rhs::<1>);
    case!(v, "BoxedUint + - += -= U128", boxed_uint_rhs::<2>);
    case!(v, "BoxedUint + - += -= U192", boxed_uint_rhs::<3>);
    case!(v, "BoxedUint + - += -= U256", boxed_uint_rhs::<4>);
    case!(v, "BoxedUint + - += -= U1024", boxed_uint_rhs::<16>);
    case!(v, "BoxedUint + - += -= u8/u16/u32/u64/u128", boxed_primitive_rhs);
    case!(v, "BoxedUint::wrapping_neg/WrappingNeg/-Wrapping/conditional_negate", boxed_negation);
    v
}
