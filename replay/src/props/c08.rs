//! C08 — Montgomery-form values stay canonical and track Z/mZ over any operation history.
//!
//! Oracle: next to every Montgomery-form value its integer value `v` in `[0, m)` is kept as a
//! `BigUint` and updated with plain modular arithmetic. After every step the value is observed:
//! `retrieve() == v`, and `as_montgomery()` / `to_montgomery()` equal `v * R mod m` (in particular
//! `< m`), `R = 2^(64 * limbs)`.
//!
//! The three representations (`MontyForm<L>`, `BoxedMontyForm`, `ConstMontyForm<P, L>`) are driven
//! through one local trait [`Form`]; `Form::apply` enumerates every public API form of an operation
//! ([`Op`]), so the single-operation cases and the random operation-sequence cases share one table.
//!
//! m = 1 is an admissible modulus (`Odd::new(1)` succeeds, the property quantifies over it). It is
//! kept in cases of its own (`.. m = 1`) so that a deviation there cannot eat the failure budget of
//! the general cases.

use super::prelude::*;
use crypto_bigint::modular::{
    BoxedMontyForm, BoxedMontyParams, ConstMontyForm, ConstMontyFormInverter, ConstMontyParams, MontyForm, MontyParams,
    Retrieve,
};
use crypto_bigint::{
    ConstZero, Invert, Inverter, Monty, MontyMultiplier, PrecomputeInverter, Random, Square, SquareAssign, U64, U128, U192, U256,
    U1024, impl_modulus,
};
use std::sync::Arc;

/// `holds!` as a statement (the shared macro yields an unused `||` value, which warns).
macro_rules! hold {
    ($($t:tt)*) => {
        let _ = holds!($($t)*);
    };
}

// ---------------------------------------------------------------- compile-time moduli

impl_modulus!(ModP256, U256, "ffffffff00000001000000000000000000000000ffffffffffffffffffffffff", "P-256 field prime (0 leading zeros)");
impl_modulus!(ModM64, U64, "ffffffffffffffc5", "2^64 - 59");
impl_modulus!(ModThree, U64, "0000000000000003", "3 in one limb");
impl_modulus!(ModOne, U64, "0000000000000001", "the modulus 1");
impl_modulus!(ModM127, U128, "7fffffffffffffffffffffffffffffff", "2^127 - 1 (1 leading zero)");
impl_modulus!(ModLz2, U128, "2b00000000000000ffffffffffffff0d", "2 leading zeros");
impl_modulus!(ModLz5, U256, "07ffffffffffffffffffffffffffffffffffffffffffffffffffffffffffffe3", "5 leading zeros");
impl_modulus!(ModSmall192, U192, "00000000000000000000000000000001000000000000000d", "2^64 + 13 in three limbs (whole zero high limb)");
impl_modulus!(
    ModBig1024,
    U1024,
    "ffffffffffffffffffffffffffffffffffffffffffffffffffffffffffffffffffffffffffffffffffffffffffffffffffffffffffffffffffffffffffffffffffffffffffffffffffffffffffffffffffffffffffffffffffffffffffffffffffffffffffffffffffffffffffffffffffffffffffffffffffffffffffffff97",
    "2^1024 - 105"
);

// ---------------------------------------------------------------- operation table

/// One public API form of one operation on Montgomery-form values.
#[derive(Clone, Copy, Debug, PartialEq, Eq)]
pub enum Op {
    // binary: r = a (op) b
    AddInh, AddRR, AddRV, AddVR, AddVV, AddAssignR, AddAssignV,
    SubInh, SubRR, SubRV, SubVR, SubVV, SubAssignR, SubAssignV,
    MulInh, MulRR, MulRV, MulVR, MulVV, MulAssignR, MulAssignV,
    /// `MontyMultiplier::mul_assign` on a fresh multiplier object
    MultiplierMul,
    /// `MontyMultiplier::mul_assign` on a multiplier object that was used before
    MultiplierMulReused,
    /// `ConditionallySelectable::conditional_select(a, b, 0)` / `(a, b, 1)` / `conditional_assign`
    Select0, Select1, CondAssign0, CondAssign1,
    /// `Monty::copy_montgomery_from`
    CopyFrom,
    // unary: r = (op) a
    NegInh, NegV, NegR,
    DoubleInh, DoubleTrait,
    SquareInh, SquareTrait, SquareAssignTrait, MultiplierSquare,
    HalfInh, HalfTrait, HalfAssignTrait, HalfAssign,
    /// `new(retrieve(a))`, `Monty::new(Retrieve::retrieve(a))`, `new_with_arc(..)`
    Renew, RenewTrait, RenewArc,
    /// `from_montgomery(to_montgomery(a))`
    FromMontgomery,
    /// plain `clone()`
    CloneOp,
    // nullary
    ZeroInh, OneInh, ZeroTrait, OneTrait, ZeroDefault, ZeroConst, ZeroNum,
}

use Op::*;
pub const OPS: [Op; 56] = [
    AddInh, AddRR, AddRV, AddVR, AddVV, AddAssignR, AddAssignV, SubInh, SubRR, SubRV, SubVR, SubVV, SubAssignR, SubAssignV,
    MulInh, MulRR, MulRV, MulVR, MulVV, MulAssignR, MulAssignV, MultiplierMul, MultiplierMulReused, Select0, Select1,
    CondAssign0, CondAssign1, CopyFrom, NegInh, NegV, NegR, DoubleInh, DoubleTrait, SquareInh, SquareTrait, SquareAssignTrait,
    MultiplierSquare, HalfInh, HalfTrait, HalfAssignTrait, HalfAssign, Renew, RenewTrait, RenewArc, FromMontgomery, CloneOp,
    ZeroInh, OneInh, ZeroTrait, OneTrait, ZeroDefault, ZeroConst, ZeroNum,
    // the plain forms once more: a uniformly drawn operation should not be a constructor too often
    MulInh, AddInh, SubInh,
];

impl Op {
    /// number of operands read
    pub fn arity(self) -> usize {
        match self {
            AddInh | AddRR | AddRV | AddVR | AddVV | AddAssignR | AddAssignV | SubInh | SubRR | SubRV | SubVR | SubVV
            | SubAssignR | SubAssignV | MulInh | MulRR | MulRV | MulVR | MulVV | MulAssignR | MulAssignV | MultiplierMul
            | MultiplierMulReused | Select0 | Select1 | CondAssign0 | CondAssign1 | CopyFrom => 2,
            ZeroInh | OneInh | ZeroTrait | OneTrait | ZeroDefault | ZeroConst | ZeroNum => 0,
            _ => 1,
        }
    }

    /// The value of the expression in Z/mZ (`a`, `b` in `[0, m)`).
    pub fn oracle(self, a: &BigUint, b: &BigUint, m: &BigUint) -> BigUint {
        match self {
            AddInh | AddRR | AddRV | AddVR | AddVV | AddAssignR | AddAssignV => (a + b) % m,
            SubInh | SubRR | SubRV | SubVR | SubVV | SubAssignR | SubAssignV => (a + m - b) % m,
            MulInh | MulRR | MulRV | MulVR | MulVV | MulAssignR | MulAssignV | MultiplierMul | MultiplierMulReused => a * b % m,
            Select0 | CondAssign0 => a.clone(),
            Select1 | CondAssign1 | CopyFrom => b.clone(),
            NegInh | NegV | NegR => (m - a) % m,
            DoubleInh | DoubleTrait => (a + a) % m,
            SquareInh | SquareTrait | SquareAssignTrait | MultiplierSquare => a * a % m,
            // the x with x + x = a: a/2 for even a, (a + m)/2 for odd a (m is odd)
            HalfInh | HalfTrait | HalfAssignTrait | HalfAssign => {
                if a.bit(0) { ((a + m) >> 1) % m } else { a >> 1 }
            }
            Renew | RenewTrait | RenewArc | FromMontgomery | CloneOp => a.clone(),
            ZeroInh | ZeroTrait | ZeroDefault | ZeroConst | ZeroNum => BigUint::zero(),
            OneInh | OneTrait => BigUint::one() % m,
        }
    }
}

/// What is observed of a value: `(retrieve, as_montgomery, to_montgomery, limbs of retrieve)`.
pub type Obs = (BigUint, BigUint, BigUint, usize);

/// A Montgomery-form representation under test.
pub trait Form: Clone + Sized {
    /// parameter handle (`()` for the compile-time form)
    type P: Clone;
    /// number of inversion API forms
    const INV_FORMS: usize;
    /// the fixed modulus of a compile-time form
    fn fixed_modulus() -> Option<BigUint> {
        None
    }
    /// parameters for the odd modulus `m` in `limbs` limbs, by the constant-time (`ct`) or the
    /// vartime constructor
    fn params(m: &BigUint, limbs: usize, ct: bool) -> Self::P;
    /// inherent `new` on an arbitrary integer of the width
    fn make(v: &BigUint, limbs: usize, p: &Self::P) -> Self;
    /// `Monty::new` on an arbitrary integer of the width
    fn make_trait(_v: &BigUint, _limbs: usize, _p: &Self::P) -> Option<Self> {
        None
    }
    fn observe(&self) -> Obs;
    /// `(Retrieve::retrieve, Monty::as_montgomery)`
    fn observe_trait(&self) -> Option<(BigUint, BigUint)> {
        None
    }
    /// every equality-like observation of two values (`==`, `ct_eq`): all must equal `a == b`
    fn equalities(a: &Self, b: &Self) -> Vec<bool>;
    /// every zero test of a value: all must equal `a == 0`
    fn zero_tests(_a: &Self) -> Vec<bool> {
        Vec::new()
    }
    /// `None`: this representation does not have the form
    fn apply(op: Op, a: &Self, b: &Self, p: &Self::P) -> Option<Self>;
    /// inversion API form number `which`
    fn inv(which: usize, a: &Self, p: &Self::P) -> Option<Self>;
}

/// Inherent methods and operators — identical spelling for the three representations.
macro_rules! common_ops {
    ($T:ty, $op:expr, $a:expr, $b:expr) => {{
        let (a, b): ($T, $T) = ($a.clone(), $b.clone());
        match $op {
            AddInh => Some(<$T>::add(&a, &b)),
            AddRR => Some(&a + &b),
            AddRV => Some(&a + b),
            AddVR => Some(a + &b),
            AddVV => Some(a + b),
            AddAssignR => {
                let mut t = a;
                t += &b;
                Some(t)
            }
            AddAssignV => {
                let mut t = a;
                t += b;
                Some(t)
            }
            SubInh => Some(<$T>::sub(&a, &b)),
            SubRR => Some(&a - &b),
            SubRV => Some(&a - b),
            SubVR => Some(a - &b),
            SubVV => Some(a - b),
            SubAssignR => {
                let mut t = a;
                t -= &b;
                Some(t)
            }
            SubAssignV => {
                let mut t = a;
                t -= b;
                Some(t)
            }
            MulInh => Some(<$T>::mul(&a, &b)),
            MulRR => Some(&a * &b),
            MulRV => Some(&a * b),
            MulVR => Some(a * &b),
            MulVV => Some(a * b),
            MulAssignR => {
                let mut t = a;
                t *= &b;
                Some(t)
            }
            MulAssignV => {
                let mut t = a;
                t *= b;
                Some(t)
            }
            NegInh => Some(<$T>::neg(&a)),
            NegV => Some(-a),
            NegR => Some(-&a),
            DoubleInh => Some(<$T>::double(&a)),
            SquareInh => Some(<$T>::square(&a)),
            SquareTrait => Some(<$T as Square>::square(&a)),
            HalfInh => Some(<$T>::div_by_2(&a)),
            CloneOp => Some(a.clone()),
            _ => None,
        }
    }};
}

/// The `Monty` trait forms (runtime and boxed representations).
fn monty_ops<M: Monty>(op: Op, a: &M, b: &M, p: &M::Params) -> Option<M> {
    match op {
        DoubleTrait => Some(Monty::double(a)),
        HalfTrait => Some(Monty::div_by_2(a)),
        HalfAssignTrait => {
            let mut t = a.clone();
            Monty::div_by_2_assign(&mut t);
            Some(t)
        }
        CopyFrom => {
            let mut t = a.clone();
            Monty::copy_montgomery_from(&mut t, b);
            Some(t)
        }
        SquareAssignTrait => {
            let mut t = a.clone();
            SquareAssign::square_assign(&mut t);
            Some(t)
        }
        MultiplierMul => {
            let mut mm = M::Multiplier::from(p);
            let mut t = a.clone();
            mm.mul_assign(&mut t, b);
            Some(t)
        }
        MultiplierMulReused => {
            let mut mm = M::Multiplier::from(p);
            let mut scratch = b.clone();
            mm.square_assign(&mut scratch);
            mm.mul_assign(&mut scratch, a);
            let mut t = a.clone();
            mm.mul_assign(&mut t, b);
            Some(t)
        }
        MultiplierSquare => {
            let mut mm = M::Multiplier::from(p);
            let mut t = a.clone();
            mm.square_assign(&mut t);
            Some(t)
        }
        ZeroTrait => Some(<M as Monty>::zero(p.clone())),
        OneTrait => Some(<M as Monty>::one(p.clone())),
        RenewTrait => Some(<M as Monty>::new(Retrieve::retrieve(a), p.clone())),
        _ => None,
    }
}

fn choice(bit: u8) -> Choice {
    Choice::from(bit)
}

// ---- runtime form; instantiated per width because `MontyParams::new` and `inv` need the
// ---- double-width / unsaturated limb counts as further const parameters

macro_rules! impl_form_monty {
    ($($l:literal),+) => {$(
        impl Form for MontyForm<$l> {
            type P = MontyParams<$l>;
            const INV_FORMS: usize = 6;
            fn params(m: &BigUint, _limbs: usize, ct: bool) -> Self::P {
                if ct { MontyParams::<$l>::new(oddu::<$l>(m)) } else { MontyParams::<$l>::new_vartime(oddu::<$l>(m)) }
            }
            fn make(v: &BigUint, _limbs: usize, p: &Self::P) -> Self {
                MontyForm::<$l>::new(&bu::<$l>(v), *p)
            }
            fn make_trait(v: &BigUint, _limbs: usize, p: &Self::P) -> Option<Self> {
                Some(<Self as Monty>::new(bu::<$l>(v), *p))
            }
            fn observe(&self) -> Obs {
                (ub(&MontyForm::<$l>::retrieve(self)), ub(MontyForm::<$l>::as_montgomery(self)), ub(&self.to_montgomery()), $l)
            }
            fn observe_trait(&self) -> Option<(BigUint, BigUint)> {
                Some((ub(&Retrieve::retrieve(self)), ub(Monty::as_montgomery(self))))
            }
            fn equalities(a: &Self, b: &Self) -> Vec<bool> {
                vec![a == b, !(a != b), cb(a.ct_eq(b)), cb(b.ct_eq(a))]
            }
            fn apply(op: Op, a: &Self, b: &Self, p: &Self::P) -> Option<Self> {
                common_ops!(MontyForm<$l>, op, a, b).or_else(|| monty_ops(op, a, b, p)).or_else(|| match op {
                    Select0 => Some(Self::conditional_select(a, b, choice(0))),
                    Select1 => Some(Self::conditional_select(a, b, choice(1))),
                    CondAssign0 | CondAssign1 => {
                        let mut t = *a;
                        t.conditional_assign(b, choice((op == CondAssign1) as u8));
                        Some(t)
                    }
                    ZeroInh => Some(MontyForm::<$l>::zero(*p)),
                    OneInh => Some(MontyForm::<$l>::one(*p)),
                    Renew => Some(MontyForm::<$l>::new(&a.retrieve(), *p)),
                    FromMontgomery => Some(MontyForm::<$l>::from_montgomery(a.to_montgomery(), *p)),
                    _ => None,
                })
            }
            fn inv(which: usize, a: &Self, p: &Self::P) -> Option<Self> {
                match which {
                    0 => copt(a.inv()),
                    1 => copt(a.inv_vartime()),
                    2 => opt(Invert::invert(a)),
                    3 => opt(Invert::invert_vartime(a)),
                    4 => opt(p.precompute_inverter().invert(a)),
                    _ => opt(p.precompute_inverter().invert_vartime(a)),
                }
            }
        }
    )+};
}
impl_form_monty!(1, 2, 3, 4, 6, 8, 16, 32);

// ---- boxed form

impl Form for BoxedMontyForm {
    type P = BoxedMontyParams;
    const INV_FORMS: usize = 6;
    fn params(m: &BigUint, limbs: usize, ct: bool) -> Self::P {
        if ct { BoxedMontyParams::new(oddx(m, limbs)) } else { BoxedMontyParams::new_vartime(oddx(m, limbs)) }
    }
    fn make(v: &BigUint, limbs: usize, p: &Self::P) -> Self {
        BoxedMontyForm::new(bx(v, limbs), p.clone())
    }
    fn make_trait(v: &BigUint, limbs: usize, p: &Self::P) -> Option<Self> {
        Some(<Self as Monty>::new(bx(v, limbs), p.clone()))
    }
    fn observe(&self) -> Obs {
        let r = BoxedMontyForm::retrieve(self);
        (xb(&r), xb(BoxedMontyForm::as_montgomery(self)), xb(&self.to_montgomery()), r.nlimbs())
    }
    fn observe_trait(&self) -> Option<(BigUint, BigUint)> {
        Some((xb(&Retrieve::retrieve(self)), xb(Monty::as_montgomery(self))))
    }
    fn equalities(a: &Self, b: &Self) -> Vec<bool> {
        vec![a == b, !(a != b)]
    }
    fn zero_tests(a: &Self) -> Vec<bool> {
        vec![cb(a.is_zero()), !cb(a.is_nonzero())]
    }
    fn apply(op: Op, a: &Self, b: &Self, p: &Self::P) -> Option<Self> {
        common_ops!(BoxedMontyForm, op, a, b).or_else(|| monty_ops(op, a, b, p)).or_else(|| match op {
            HalfAssign => {
                let mut t = a.clone();
                BoxedMontyForm::div_by_2_assign(&mut t);
                Some(t)
            }
            ZeroInh => Some(BoxedMontyForm::zero(p.clone())),
            OneInh => Some(BoxedMontyForm::one(p.clone())),
            Renew => Some(BoxedMontyForm::new(a.retrieve(), p.clone())),
            RenewArc => Some(BoxedMontyForm::new_with_arc(a.retrieve(), Arc::new(p.clone()))),
            FromMontgomery => Some(BoxedMontyForm::from_montgomery(a.to_montgomery(), p.clone())),
            _ => None,
        })
    }
    fn inv(which: usize, a: &Self, p: &Self::P) -> Option<Self> {
        match which {
            0 => opt(BoxedMontyForm::invert(a)),
            1 => opt(BoxedMontyForm::invert_vartime(a)),
            2 => opt(Invert::invert(a)),
            3 => opt(Invert::invert_vartime(a)),
            4 => opt(p.precompute_inverter().invert(a)),
            _ => opt(p.precompute_inverter().invert_vartime(a)),
        }
    }
}

// ---- compile-time form, one impl per declared modulus

macro_rules! impl_form_const {
    ($(($name:ident, $l:literal)),+) => {$(
        impl Form for ConstMontyForm<$name, $l> {
            type P = ();
            const INV_FORMS: usize = 8;
            fn fixed_modulus() -> Option<BigUint> {
                Some(ub(<$name as ConstMontyParams<$l>>::MODULUS.as_ref()))
            }
            fn params(_m: &BigUint, _limbs: usize, _ct: bool) -> Self::P {}
            fn make(v: &BigUint, _limbs: usize, _p: &Self::P) -> Self {
                Self::new(&bu::<$l>(v))
            }
            fn observe(&self) -> Obs {
                (ub(&Self::retrieve(self)), ub(Self::as_montgomery(self)), ub(&self.to_montgomery()), $l)
            }
            fn observe_trait(&self) -> Option<(BigUint, BigUint)> {
                Some((ub(&Retrieve::retrieve(self)), ub(self.as_montgomery())))
            }
            fn equalities(a: &Self, b: &Self) -> Vec<bool> {
                vec![a == b, !(a != b), cb(a.ct_eq(b)), cb(b.ct_eq(a))]
            }
            fn zero_tests(a: &Self) -> Vec<bool> {
                vec![num_traits::Zero::is_zero(a)]
            }
            fn apply(op: Op, a: &Self, b: &Self, _p: &Self::P) -> Option<Self> {
                common_ops!(ConstMontyForm<$name, $l>, op, a, b).or_else(|| match op {
                    Select0 => Some(Self::conditional_select(a, b, choice(0))),
                    Select1 => Some(Self::conditional_select(a, b, choice(1))),
                    CondAssign0 | CondAssign1 => {
                        let mut t = *a;
                        t.conditional_assign(b, choice((op == CondAssign1) as u8));
                        Some(t)
                    }
                    ZeroInh => Some(Self::ZERO),
                    OneInh => Some(Self::ONE),
                    ZeroDefault => Some(Default::default()),
                    ZeroConst => Some(<Self as ConstZero>::ZERO),
                    ZeroNum => Some(<Self as num_traits::Zero>::zero()),
                    Renew => Some(Self::new(&a.retrieve())),
                    FromMontgomery => Some(Self::from_montgomery(a.to_montgomery())),
                    _ => None,
                })
            }
            fn inv(which: usize, a: &Self, _p: &Self::P) -> Option<Self> {
                match which {
                    0 => copt(a.inv()),
                    1 => copt(a.inv_vartime()),
                    2 => opt(Invert::invert(a)),
                    3 => opt(Invert::invert_vartime(a)),
                    4 => copt(ConstMontyFormInverter::<$name, $l>::new().inv(a)),
                    5 => copt(ConstMontyFormInverter::<$name, $l>::new().inv_vartime(a)),
                    6 => opt(Inverter::invert(&<$name as ConstMontyParams<$l>>::precompute_inverter(), a)),
                    _ => opt(Inverter::invert_vartime(&<$name as ConstMontyParams<$l>>::precompute_inverter(), a)),
                }
            }
        }
    )+};
}
impl_form_const!((ModOne, 1), (ModP256, 4), (ModM64, 1), (ModThree, 1), (ModM127, 2), (ModLz2, 2), (ModLz5, 4), (ModSmall192, 3), (ModBig1024, 16));

// ---------------------------------------------------------------- corpora

/// Odd moduli > 1 of a width: `Ctx::moduli` plus moduli with a chosen number of leading zero bits
/// (all-ones, minimal and random body) — the linear-combination window and the "whole zero high
/// limbs" shapes.
pub fn moduli_gt1(c: &mut Ctx, limbs: usize, n: usize) -> Vec<BigUint> {
    let bits = 64 * limbs as u32;
    let mut v = Vec::new();
    for lz in [1u32, 2, 3, 5, 31, 62, 63, 64, 65, 127, 128, 129] {
        if lz + 2 <= bits {
            v.push(mask(bits - lz));
            v.push(pow2(bits - lz - 1) + 1u32);
            v.push((c.rnd(limbs) >> lz as usize) | pow2(bits - lz - 1) | BigUint::one());
        }
    }
    let classic = c.moduli(limbs, true, n);
    // interleave: classics first (they contain 3, MAX, 2^(BITS-1)+1, MAX/3, MAX/4, ..)
    let mut out: Vec<BigUint> = Vec::new();
    for m in classic.into_iter().take(19).chain(v).chain(c.moduli(limbs, true, n).into_iter().skip(19)) {
        if m > BigUint::one() && m.bit(0) && !out.contains(&m) {
            out.push(m);
        }
    }
    out.truncate(n.max(19 + 12));
    out
}

fn moduli_for<F: Form>(c: &mut Ctx, limbs: usize, n: usize) -> Vec<BigUint> {
    match F::fixed_modulus() {
        Some(m) => vec![m],
        None => moduli_gt1(c, limbs, n),
    }
}

/// Residues of the property's quantifier: 0, 1, 2, m-1, m-2, (m-1)/2, (m+1)/2, random.
pub fn values(c: &mut Ctx, m: &BigUint, n: usize) -> Vec<BigUint> {
    let mut v = c.residues(m, n);
    v.dedup();
    v
}

/// Parameters, or a reported panic of the constructor.
fn params_or_report<F: Form>(c: &mut Ctx, m: &BigUint, limbs: usize, ct: bool) -> Option<F::P> {
    match call(|| F::params(m, limbs, ct)) {
        Ok(p) => Some(p),
        Err(e) => {
            let got: Result<(), String> = Err(e);
            no_panic!(c, got; m, limbs, ct);
            None
        }
    }
}

/// Compare everything observable of `got` with the value `v` in Z/mZ; returns the form for reuse.
#[allow(clippy::too_many_arguments)]
fn expect<F: Form>(
    c: &mut Ctx,
    got: Result<F, String>,
    v: &BigUint,
    m: &BigUint,
    r: &BigUint,
    limbs: usize,
    what: &str,
    a: &BigUint,
    b: &BigUint,
) -> Option<F> {
    let mut keep = None;
    let got = got.and_then(|f| {
        let o = call(|| f.observe());
        keep = Some(f);
        o
    });
    let vr = v * r % m;
    let ok = check!(c, got, (v.clone(), vr.clone(), vr, limbs); what, m, limbs, a, b);
    if ok { keep } else { None }
}

// ---------------------------------------------------------------- cases

/// `new` / `Monty::new` on arbitrary (unreduced) integers of the width: documented as "represents
/// this integer mod MOD", so the input is reduced. Then `retrieve` and the canonical form.
fn new_retrieve<F: Form>(c: &mut Ctx, limbs: usize) {
    let bits = 64 * limbs as u32;
    let nm = if F::fixed_modulus().is_some() { 1 } else { (c.cap / 64).clamp(8, 40) };
    let per = ((c.cap + c.iters) / nm / 2).clamp(24, 600);
    for m in moduli_for::<F>(c, limbs, nm) {
        let Some(p) = params_or_report::<F>(c, &m, limbs, c.checks % 2 == 0) else { continue };
        let r = pow2(bits) % &m;
        let mut vs = c.edges(limbs, per / 2);
        vs.extend(values(c, &m, 7));
        for k in [1u32, 2, 3] {
            for d in [0u32, 1] {
                vs.push(&m * k + d);
                vs.push(&m * k - 1u32);
            }
        }
        vs.push((mask(bits) / &m) * &m);
        vs.push((mask(bits) / &m) * &m - 1u32);
        for _ in 0..per / 2 {
            vs.push(c.rnd(limbs));
        }
        let zero = BigUint::zero();
        for v in vs {
            if c.done() {
                return;
            }
            if v.bits() > bits as u64 {
                continue;
            }
            let exp = &v % &m;
            let f = expect::<F>(c, call(|| F::make(&v, limbs, &p)), &exp, &m, &r, limbs, "new", &v, &zero);
            if let Ok(Some(t)) = call(|| F::make_trait(&v, limbs, &p)) {
                expect::<F>(c, Ok(t), &exp, &m, &r, limbs, "Monty::new", &v, &zero);
            }
            if let Some(f) = f {
                if let Some(Some(o)) = call(|| f.observe_trait()).ok() {
                    let vr = &exp * &r % &m;
                    check!(c, Ok::<_, String>(o), (exp.clone(), vr); m, limbs, v);
                }
            }
        }
    }
}

/// Every API form of every operation, once per pair of quantifier residues.
fn single_ops_on<F: Form>(c: &mut Ctx, limbs: usize, ms: Vec<BigUint>, nv: usize) {
    let bits = 64 * limbs as u32;
    for m in ms {
        let Some(p) = params_or_report::<F>(c, &m, limbs, c.checks % 2 == 0) else { continue };
        let r = pow2(bits) % &m;
        let vals = values(c, &m, nv);
        let zero = BigUint::zero();
        let mut forms: Vec<(BigUint, F)> = Vec::new();
        for v in &vals {
            if let Some(f) = expect::<F>(c, call(|| F::make(v, limbs, &p)), v, &m, &r, limbs, "new", v, &zero) {
                forms.push((v.clone(), f));
            }
        }
        for (i, (a, fa)) in forms.iter().enumerate() {
            let is_zero = a.is_zero();
            check!(c, call(|| F::zero_tests(fa)).map(|v| v.iter().all(|&z| z == is_zero)), true; m, limbs, a);
            for (j, (b, fb)) in forms.iter().enumerate() {
                let equal = a == b;
                check!(c, call(|| F::equalities(fa, fb)).map(|v| v.iter().all(|&e| e == equal)), true; m, limbs, a, b);
                for op in &OPS[..OPS.len() - 3] {
                    if c.done() {
                        return;
                    }
                    // unary forms once per a, nullary forms once per modulus
                    if (op.arity() < 2 && j != 0) || (op.arity() < 1 && i != 0) {
                        continue;
                    }
                    let got = match call(|| F::apply(*op, fa, fb, &p)) {
                        Ok(None) => continue,
                        Ok(Some(f)) => Ok(f),
                        Err(e) => Err(e),
                    };
                    let what = format!("{:?}", op);
                    expect::<F>(c, got, &op.oracle(a, b, &m), &m, &r, limbs, &what, a, b);
                }
            }
        }
    }
}

fn single_ops<F: Form>(c: &mut Ctx, limbs: usize) {
    let fixed = F::fixed_modulus().is_some();
    let nm = if fixed { 1 } else { (c.cap / 128).clamp(8, 32) };
    let nv = if fixed { 10 + c.iters / 100 } else { 7 + c.iters / 400 };
    let ms = moduli_for::<F>(c, limbs, nm);
    single_ops_on::<F>(c, limbs, ms, nv.min(30));
}

/// m = 1: Z/1Z has the single element 0; every value must be stored as 0 (the only value < m).
fn single_ops_m1<F: Form>(c: &mut Ctx, limbs: usize) {
    single_ops_on::<F>(c, limbs, vec![BigUint::one()], 3);
}

/// Inversion: `Some` exactly when gcd(v, m) = 1, and then the unique inverse in `[0, m)`,
/// canonical. (m = 1 is skipped: the `Inverter` documentation says "None if value is zero", the
/// arithmetic says 0 * 0 = 1 in Z/1Z.)
fn inversion<F: Form>(c: &mut Ctx, limbs: usize) {
    let bits = 64 * limbs as u32;
    let fixed = F::fixed_modulus().is_some();
    let wide = limbs > 4;
    let huge = limbs > 16;
    let nm = if fixed { 1 } else if huge { 2 } else if wide { 4 } else { (c.cap / 256).clamp(6, 16) };
    let nv = if huge { 5 } else if wide { 5 + c.iters / 250 } else if fixed { 16 + c.iters / 20 } else { 10 + c.iters / 100 };
    let zero = BigUint::zero();
    for m in moduli_for::<F>(c, limbs, nm) {
        let Some(p) = params_or_report::<F>(c, &m, limbs, c.checks % 2 == 0) else { continue };
        let r = pow2(bits) % &m;
        let mut vals = values(c, &m, nv);
        // non-units: multiples of the small prime factors of m, and m / q
        for q in [3u32, 5, 7, 11, 13, 17, 257, 641, 65537] {
            if (&m % q).is_zero() && m > BigUint::from(q) {
                let k = c.rnd_below(&(&m / q));
                vals.push(k * q);
                vals.push(&m / q);
                vals.push(&m - q);
            }
        }
        for v in vals {
            let exp = inv_mod_oracle(&v, &m);
            let Some(f) = expect::<F>(c, call(|| F::make(&v, limbs, &p)), &v, &m, &r, limbs, "new", &v, &zero) else { continue };
            for which in 0..F::INV_FORMS {
                if c.done() {
                    return;
                }
                let got = call(|| F::inv(which, &f, &p));
                match (&exp, got) {
                    (Some(e), Ok(Some(g))) => {
                        let what = format!("inversion form {}", which);
                        expect::<F>(c, Ok(g), e, &m, &r, limbs, &what, &v, &zero);
                    }
                    (e, got) => {
                        // is_some must agree (or the call panicked)
                        check!(c, got.map(|g| g.is_some()), e.is_some(); m, limbs, v, which);
                    }
                }
            }
        }
    }
}

/// Random operation sequences of length <= 64 over four registers; values are drawn from
/// {0, 1, m-1, (m-1)/2, (m+1)/2, random}; the register written by a step is observed after the step
/// (the others hold values that were observed when they were written), so every prefix is checked.
fn sequences_on<F: Form>(c: &mut Ctx, limbs: usize, ms: Vec<BigUint>, nseq: usize) {
    let bits = 64 * limbs as u32;
    let zero = BigUint::zero();
    const REGS: usize = 4;
    for s in 0..nseq {
        if c.done() {
            return;
        }
        let m = if s % 3 == 2 && F::fixed_modulus().is_none() {
            let x = c.rnd(limbs) | BigUint::one();
            if x.is_one() { ms[0].clone() } else { x }
        } else {
            ms[(s / 3 * 2 + s % 3) % ms.len()].clone()
        };
        let Some(p) = params_or_report::<F>(c, &m, limbs, s % 2 == 0) else { continue };
        let r = pow2(bits) % &m;
        let pool = [BigUint::zero(), BigUint::one() % &m, &m - 1u32, &m >> 1, ((&m + 1u32) >> 1) % &m];
        let draw = |c: &mut Ctx| if c.below(3) == 0 { c.rnd_below(&m) } else { pool[c.below(pool.len())].clone() };
        let mut regs: Vec<(BigUint, F)> = Vec::new();
        let mut history: Vec<String> = Vec::new();
        for i in 0..REGS {
            let v = draw(c);
            history.push(format!("r{} = new({})", i, v.show()));
            match expect::<F>(c, call(|| F::make(&v, limbs, &p)), &v, &m, &r, limbs, "new", &v, &zero) {
                Some(f) => regs.push((v, f)),
                None => break,
            }
        }
        if regs.len() < REGS {
            continue;
        }
        let len = 1 + c.below(64);
        for _ in 0..len {
            let (i, j, k) = (c.below(REGS), c.below(REGS), c.below(REGS));
            let pick = c.below(OPS.len() + 3);
            let (desc, exp, got): (String, BigUint, Result<F, String>) = if pick == OPS.len() {
                // load a fresh special value
                let v = draw(c);
                (format!("r{} = new({})", k, v.show()), v.clone(), call(|| F::make(&v, limbs, &p)))
            } else if pick > OPS.len() {
                // an inversion now and then (expensive): a non-unit leaves the register alone
                if c.below(if limbs > 4 { 16 } else { 4 }) != 0 {
                    continue;
                }
                let which = c.below(F::INV_FORMS);
                let e = inv_mod_oracle(&regs[i].0, &m);
                let got = call(|| F::inv(which, &regs[i].1, &p));
                match (e, got) {
                    (Some(e), Ok(Some(g))) => (format!("r{} = inv#{}(r{})", k, which, i), e, Ok(g)),
                    (e, got) => {
                        let v = regs[i].0.clone();
                        if !check!(c, got.map(|g| g.is_some()), e.is_some(); m, limbs, v, which, history) {
                            break;
                        }
                        continue;
                    }
                }
            } else {
                let op = OPS[pick];
                match call(|| F::apply(op, &regs[i].1, &regs[j].1, &p)) {
                    Ok(None) => continue,
                    Ok(Some(f)) => (format!("r{} = {:?}(r{}, r{})", k, op, i, j), op.oracle(&regs[i].0, &regs[j].0, &m), Ok(f)),
                    Err(e) => (format!("r{} = {:?}(r{}, r{})", k, op, i, j), op.oracle(&regs[i].0, &regs[j].0, &m), Err(e)),
                }
            };
            history.push(desc);
            // observe the written value
            let mut keep = None;
            let got = got.and_then(|f| {
                let o = call(|| f.observe());
                keep = Some(f);
                o
            });
            let vr = &exp * &r % &m;
            if !check!(c, got, (exp.clone(), vr.clone(), vr, limbs); m, limbs, history) {
                break;
            }
            regs[k] = (exp, keep.unwrap());
        }
    }
}

fn sequences<F: Form>(c: &mut Ctx, limbs: usize) {
    let nseq = (c.iters / if limbs > 4 { 8 } else { 2 }).max(12);
    let ms = moduli_for::<F>(c, limbs, 31);
    sequences_on::<F>(c, limbs, ms, nseq);
}

// ---------------------------------------------------------------- parameter sets

/// The fields of a parameter set as printed by its (derived, public) `Debug` impl — the only
/// public view of `one`, `r2`, `r3`, `mod_neg_inv`, `mod_leading_zeros` of the runtime and boxed
/// parameter types. `(modulus, one, r2, r3, mod_neg_inv, mod_leading_zeros)`.
fn debug_fields(s: &str) -> Option<Vec<BigUint>> {
    fn field(s: &str, name: &str) -> Option<BigUint> {
        let key = format!("{}: ", name);
        let rest = &s[s.find(&key)? + key.len()..];
        if rest.starts_with(|ch: char| ch.is_ascii_digit()) {
            let end = rest.find(|ch: char| !ch.is_ascii_digit()).unwrap_or(rest.len());
            return BigUint::parse_bytes(rest[..end].as_bytes(), 10);
        }
        let rest = &rest[rest.find("0x")? + 2..];
        let end = rest.find(|ch: char| !ch.is_ascii_hexdigit()).unwrap_or(rest.len());
        BigUint::parse_bytes(rest[..end].as_bytes(), 16)
    }
    Some(vec![
        field(s, "modulus")?,
        field(s, "one")?,
        field(s, "r2")?,
        field(s, "r3")?,
        field(s, "mod_neg_inv")?,
        field(s, "mod_leading_zeros")?,
    ])
}

/// The definitions: `(m, R mod m, R^2 mod m, R^3 mod m, -m^-1 mod 2^64, min(leading zeros, 63))`.
/// The clamp: "leading zeros in the modulus, used to choose optimized algorithms" is stored as
/// `min(leading_zeros, Word::BITS - 1)` (it is used as a shift count for the accumulation window).
pub fn param_definitions(m: &BigUint, limbs: usize) -> Vec<BigUint> {
    let bits = 64 * limbs as u32;
    let r = pow2(bits);
    let w = pow2(64);
    let inv = inv_mod_oracle(&(m % &w), &w).expect("odd");
    let neg_inv = (&w - inv) % &w;
    let lz = (bits as u64 - m.bits()).min(63);
    vec![m.clone(), &r % m, (&r * &r) % m, (&r * &r * &r) % m, neg_inv, BigUint::from(lz)]
}

fn runtime_params_on<const L: usize>(c: &mut Ctx, ms: Vec<BigUint>)
where
    MontyForm<L>: Form<P = MontyParams<L>>,
{
    for m in ms {
        if c.done() {
            return;
        }
        let limbs = L;
        let def = param_definitions(&m, L);
        let ps = [
            call(|| <MontyForm<L> as Form>::params(&m, L, true)),
            call(|| <MontyForm<L> as Form>::params(&m, L, false)),
            call(|| <MontyForm<L> as Monty>::new_params_vartime(oddu::<L>(&m))),
        ];
        let mut okp: Vec<MontyParams<L>> = Vec::new();
        for (ctor, p) in ps.iter().enumerate() {
            match p {
                Ok(p) => {
                    let shown = format!("{:?}", p);
                    let parsed = debug_fields(&shown);
                    hold!(c, parsed.is_some(), "harness: Debug output of MontyParams parses"; shown);
                    if let Some(f) = parsed {
                        check!(c, Ok::<_, String>(f), def.clone(); m, limbs, ctor);
                    }
                    check!(c, call(|| ub(p.modulus().as_ref())), m.clone(); m, limbs, ctor);
                    okp.push(*p);
                }
                Err(e) => {
                    let got: Result<(), String> = Err(e.clone());
                    no_panic!(c, got; m, limbs, ctor);
                }
            }
        }
        for q in okp.iter().skip(1) {
            let p = &okp[0];
            hold!(c, p == q, "MontyParams::new == new_vartime == Monty::new_params_vartime"; m, limbs);
            hold!(c, cb(p.ct_eq(q)), "ct_eq of equal parameter sets"; m, limbs);
            hold!(c, MontyParams::conditional_select(p, q, choice(1)) == *q && MontyParams::conditional_select(p, q, choice(0)) == *p, "conditional_select of parameter sets"; m, limbs);
        }
        // the parameters as seen through values: one(), params()
        if let Some(p) = okp.first() {
            let one = MontyForm::<L>::one(*p);
            hold!(c, one.params() == p && Monty::params(&one) == p, "params() returns the parameters"; m, limbs);
        }
    }
}

fn runtime_params<const L: usize>(c: &mut Ctx)
where
    MontyForm<L>: Form<P = MontyParams<L>>,
{
    let n = (c.cap / 16 + c.iters / 8).clamp(48, 600);
    let mut ms = moduli_gt1(c, L, n);
    for _ in 0..n / 2 {
        let x = c.rnd(L) | BigUint::one();
        if !x.is_one() {
            ms.push(x);
        }
    }
    runtime_params_on::<L>(c, ms);
}

fn runtime_params_m1<const L: usize>(c: &mut Ctx)
where
    MontyForm<L>: Form<P = MontyParams<L>>,
{
    runtime_params_on::<L>(c, vec![BigUint::one()]);
}

fn boxed_params_on(c: &mut Ctx, limbs: usize, ms: Vec<BigUint>) {
    for m in ms {
        if c.done() {
            return;
        }
        let def = param_definitions(&m, limbs);
        let ps = [
            call(|| BoxedMontyParams::new(oddx(&m, limbs))),
            call(|| BoxedMontyParams::new_vartime(oddx(&m, limbs))),
            call(|| <BoxedMontyForm as Monty>::new_params_vartime(oddx(&m, limbs))),
        ];
        let mut okp: Vec<BoxedMontyParams> = Vec::new();
        for (ctor, p) in ps.iter().enumerate() {
            match p {
                Ok(p) => {
                    let shown = format!("{:?}", p);
                    let parsed = debug_fields(&shown);
                    hold!(c, parsed.is_some(), "harness: Debug output of BoxedMontyParams parses"; shown);
                    if let Some(f) = parsed {
                        check!(c, Ok::<_, String>(f), def.clone(); m, limbs, ctor);
                    }
                    check!(c, call(|| (xb(p.modulus().as_ref()), p.modulus().as_ref().nlimbs(), p.bits_precision())), (m.clone(), limbs, 64 * limbs as u32); m, limbs, ctor);
                    okp.push(p.clone());
                }
                Err(e) => {
                    let got: Result<(), String> = Err(e.clone());
                    no_panic!(c, got; m, limbs, ctor);
                }
            }
        }
        for q in okp.iter().skip(1) {
            hold!(c, &okp[0] == q, "BoxedMontyParams::new == new_vartime == Monty::new_params_vartime"; m, limbs);
        }
        if let Some(p) = okp.first() {
            let got = call(|| {
                let one = BoxedMontyForm::one(p.clone());
                one.params() == p && Monty::params(&one) == p && one.bits_precision() == 64 * limbs as u32
            });
            check!(c, got, true; m, limbs);
        }
    }
}

fn boxed_params(c: &mut Ctx) {
    for limbs in 1..=4usize {
        let n = (c.cap / 64 + c.iters / 32).clamp(40, 200);
        let mut ms = moduli_gt1(c, limbs, n);
        for _ in 0..n / 2 {
            let x = c.rnd(limbs) | BigUint::one();
            if !x.is_one() {
                ms.push(x);
            }
        }
        boxed_params_on(c, limbs, ms);
    }
}

fn boxed_params_m1(c: &mut Ctx) {
    for limbs in 1..=4usize {
        boxed_params_on(c, limbs, vec![BigUint::one()]);
    }
}

/// The macro-generated constants against the definitions and against the runtime / boxed
/// constructors; the public conversions const -> runtime (`From<&ConstMontyForm>`,
/// `MontyParams::from_const_params`) and const -> boxed (`BoxedMontyParams::from_const_params`).
fn const_params<P: ConstMontyParams<L>, const L: usize>(c: &mut Ctx)
where
    MontyForm<L>: Form<P = MontyParams<L>>,
{
    let limbs = L;
    let m = ub(P::MODULUS.as_ref());
    let r = pow2(64 * L as u32) % &m;
    let def = param_definitions(&m, L);
    let consts = vec![m.clone(), ub(&P::ONE), ub(&P::R2), ub(&P::R3), lb(P::MOD_NEG_INV), BigUint::from(P::MOD_LEADING_ZEROS)];
    check!(c, Ok::<_, String>(consts), def.clone(); m, limbs);
    check!(c, Ok::<_, String>(<P as ConstMontyParams<L>>::LIMBS), L; m);
    // const -> runtime parameters
    let dynp = MontyParams::<L>::from_const_params::<P>();
    let fresh = call(|| MontyParams::<L>::new_vartime(oddu::<L>(&m)));
    check!(c, fresh.map(|f| f == dynp), true; m, limbs);
    let shown = format!("{:?}", dynp);
    if let Some(f) = debug_fields(&shown) {
        check!(c, Ok::<_, String>(f), def.clone(); m, limbs, shown);
    }
    // const -> boxed parameters
    let boxp = call(BoxedMontyParams::from_const_params::<L, P>);
    let freshb = call(|| BoxedMontyParams::new(oddx(&m, L)));
    if let (Ok(b), Ok(f)) = (&boxp, &freshb) {
        hold!(c, b == f, "BoxedMontyParams::from_const_params == BoxedMontyParams::new"; m, limbs);
        let shown = format!("{:?}", b);
        if let Some(f) = debug_fields(&shown) {
            check!(c, Ok::<_, String>(f), def.clone(); m, limbs, shown);
        }
    } else {
        let got: Result<(), String> = boxp.clone().and(freshb.clone()).map(|_| ());
        no_panic!(c, got; m, limbs);
    }
    // `Random`: a uniformly drawn value is canonical too
    for _ in 0..16 {
        let got = call(|| <ConstMontyForm<P, L> as Random>::random(&mut c.rng)).map(|x| (ub(&x.retrieve()), ub(&x.to_montgomery())));
        if let Ok((v, mont)) = &got {
            hold!(c, v < &m && *mont == v * &r % &m, "ConstMontyForm::random() is canonical"; m, limbs, v, mont);
        } else {
            no_panic!(c, got; m, limbs);
        }
    }
    // values: const -> runtime -> (through the Montgomery representation) boxed
    let zero = BigUint::zero();
    let n = 16 + c.iters / 8;
    for v in values(c, &m, n) {
        if c.done() {
            return;
        }
        let cf = ConstMontyForm::<P, L>::new(&bu::<L>(&v));
        let dynf = call(|| MontyForm::<L>::from(&cf));
        if let Some(d) = expect::<MontyForm<L>>(c, dynf, &v, &m, &r, L, "MontyForm::from(&ConstMontyForm)", &v, &zero) {
            hold!(c, *d.params() == dynp, "converted value carries from_const_params()"; m, limbs, v);
            hold!(c, d == MontyForm::<L>::new(&bu::<L>(&v), dynp), "MontyForm::from(&const) == MontyForm::new(same integer)"; m, limbs, v);
            // a step in the runtime representation continues the history
            let sq = call(|| d.square().add(&d));
            let e = (&v * &v + &v) % &m;
            expect::<MontyForm<L>>(c, sq, &e, &m, &r, L, "square+add after conversion", &v, &zero);
        }
        if let Ok(bp) = &boxp {
            let bf = call(|| BoxedMontyForm::from_montgomery(BoxedUint::from(cf.to_montgomery()), bp.clone()));
            if let Some(b) = expect::<BoxedMontyForm>(c, bf, &v, &m, &r, L, "BoxedMontyForm::from_montgomery(const.to_montgomery(), from_const_params)", &v, &zero) {
                let sq = call(|| b.square().add(&b));
                let e = (&v * &v + &v) % &m;
                expect::<BoxedMontyForm>(c, sq, &e, &m, &r, L, "square+add after conversion (boxed)", &v, &zero);
            }
        }
    }
}

// ---------------------------------------------------------------- boxed drivers (1..=4 limbs)

fn boxed_new_retrieve(c: &mut Ctx) {
    for limbs in 1..=4usize {
        c.scaled(4, |c| new_retrieve::<BoxedMontyForm>(c, limbs));
    }
}
fn boxed_single_ops(c: &mut Ctx) {
    for limbs in 1..=4usize {
        c.scaled(2, |c| single_ops::<BoxedMontyForm>(c, limbs));
    }
}
fn boxed_single_ops_m1(c: &mut Ctx) {
    for limbs in 1..=4usize {
        single_ops_m1::<BoxedMontyForm>(c, limbs);
    }
}
fn boxed_inversion(c: &mut Ctx) {
    for limbs in 1..=4usize {
        c.scaled(8, |c| inversion::<BoxedMontyForm>(c, limbs));
    }
}
fn boxed_sequences(c: &mut Ctx) {
    for limbs in 1..=4usize {
        c.scaled(3, |c| sequences::<BoxedMontyForm>(c, limbs));
    }
}

/// precisions beyond the fixed-width aliases' small sizes, including a non-power-of-two and 33 limbs
const BOXED_WIDE: [usize; 4] = [5, 8, 17, 33];

fn boxed_wide_ops(c: &mut Ctx) {
    for limbs in BOXED_WIDE {
        c.scaled(8, |c| new_retrieve::<BoxedMontyForm>(c, limbs));
        c.scaled(8, |c| single_ops::<BoxedMontyForm>(c, limbs));
    }
}
fn boxed_wide_sequences(c: &mut Ctx) {
    for limbs in BOXED_WIDE {
        c.scaled(4, |c| sequences::<BoxedMontyForm>(c, limbs));
    }
}
fn boxed_wide_params(c: &mut Ctx) {
    for limbs in BOXED_WIDE {
        let ms = moduli_gt1(c, limbs, 24);
        boxed_params_on(c, limbs, ms);
    }
}

// ---------------------------------------------------------------- table

const NEW_DOC: &str = "new/Monty::new (unreduced input) -> retrieve/as_montgomery/to_montgomery";
const OPS_DOC: &str = "single ops: zero one add sub neg double mul square div_by_2, operators, *_assign, multiplier, select, copy_montgomery_from, Monty forms";
const INV_DOC: &str = "inv/inv_vartime/Invert/Inverter";
const SEQ_DOC: &str = "operation sequences (len <= 64, every prefix)";

macro_rules! monty_cases {
    ($v:ident; $($l:literal),+) => {$(
        $v.push(Case::new(format!("MontyForm<{}>::{}", $l, NEW_DOC), |c: &mut Ctx| new_retrieve::<MontyForm<$l>>(c, $l)));
        $v.push(Case::new(format!("MontyForm<{}>::{}", $l, OPS_DOC), |c: &mut Ctx| single_ops::<MontyForm<$l>>(c, $l)));
        $v.push(Case::new(format!("MontyForm<{}>::{}", $l, INV_DOC), |c: &mut Ctx| inversion::<MontyForm<$l>>(c, $l)));
        $v.push(Case::new(format!("MontyForm<{}>::{}", $l, SEQ_DOC), |c: &mut Ctx| sequences::<MontyForm<$l>>(c, $l)));
        $v.push(Case::new(format!("MontyParams<{}>::new/new_vartime/Monty::new_params_vartime == definitions", $l), runtime_params::<$l>));
        $v.push(Case::new(format!("MontyForm<{}>:: m = 1: single ops", $l), |c: &mut Ctx| single_ops_m1::<MontyForm<$l>>(c, $l)));
        $v.push(Case::new(format!("MontyParams<{}>:: m = 1: parameters == definitions", $l), runtime_params_m1::<$l>));
    )+};
}

/// further widths of the property's quantifier (6, 8, 32 limbs) on a reduced budget
macro_rules! monty_cases_lite {
    ($v:ident; $($l:literal),+) => {$(
        $v.push(Case::new(format!("MontyForm<{}>::{}", $l, NEW_DOC), |c: &mut Ctx| c.scaled(4, |c| new_retrieve::<MontyForm<$l>>(c, $l))));
        $v.push(Case::new(format!("MontyForm<{}>::{}", $l, OPS_DOC), |c: &mut Ctx| c.scaled(4, |c| single_ops::<MontyForm<$l>>(c, $l))));
        if $l <= 8 {
            $v.push(Case::new(format!("MontyForm<{}>::{}", $l, INV_DOC), |c: &mut Ctx| c.scaled(8, |c| inversion::<MontyForm<$l>>(c, $l))));
        }
        $v.push(Case::new(format!("MontyForm<{}>::{}", $l, SEQ_DOC), |c: &mut Ctx| c.scaled(4, |c| sequences::<MontyForm<$l>>(c, $l))));
        $v.push(Case::new(format!("MontyParams<{}>::new/new_vartime/Monty::new_params_vartime == definitions", $l), |c: &mut Ctx| c.scaled(4, runtime_params::<$l>)));
    )+};
}

macro_rules! const_cases {
    ($v:ident; $(($name:ident, $l:literal)),+) => {$(
        $v.push(Case::new(format!("ConstMontyForm<{}, {}>::{}", stringify!($name), $l, NEW_DOC), |c: &mut Ctx| new_retrieve::<ConstMontyForm<$name, $l>>(c, $l)));
        $v.push(Case::new(format!("ConstMontyForm<{}, {}>::{}", stringify!($name), $l, OPS_DOC), |c: &mut Ctx| single_ops::<ConstMontyForm<$name, $l>>(c, $l)));
        $v.push(Case::new(format!("ConstMontyForm<{}, {}>::{}", stringify!($name), $l, INV_DOC), |c: &mut Ctx| inversion::<ConstMontyForm<$name, $l>>(c, $l)));
        $v.push(Case::new(format!("ConstMontyForm<{}, {}>::{}", stringify!($name), $l, SEQ_DOC), |c: &mut Ctx| c.scaled(2, |c| sequences::<ConstMontyForm<$name, $l>>(c, $l))));
        $v.push(Case::new(format!("ConstMontyParams {} == definitions == MontyParams/BoxedMontyParams; const -> runtime -> boxed conversion", stringify!($name)), const_params::<$name, $l>));
    )+};
}

pub fn cases() -> Vec<Case> {
    let mut v = Vec::new();
    monty_cases!(v; 1, 2, 3, 4, 16);
    monty_cases_lite!(v; 6, 8, 32);
    case!(v, format!("BoxedMontyForm::{}", NEW_DOC), boxed_new_retrieve);
    case!(v, format!("BoxedMontyForm::{}", OPS_DOC), boxed_single_ops);
    case!(v, format!("BoxedMontyForm::{}", INV_DOC), boxed_inversion);
    case!(v, format!("BoxedMontyForm::{}", SEQ_DOC), boxed_sequences);
    case!(v, "BoxedMontyParams::new/new_vartime/Monty::new_params_vartime == definitions", boxed_params);
    case!(v, "BoxedMontyForm (5, 8, 17, 33 limbs)::new + single ops", boxed_wide_ops);
    case!(v, format!("BoxedMontyForm (5, 8, 17, 33 limbs)::{}", SEQ_DOC), boxed_wide_sequences);
    case!(v, "BoxedMontyParams (5, 8, 17, 33 limbs)::new/new_vartime == definitions", boxed_wide_params);
    case!(v, "BoxedMontyForm:: m = 1: single ops", boxed_single_ops_m1);
    case!(v, "BoxedMontyParams:: m = 1: parameters == definitions", boxed_params_m1);
    case!(v, "ConstMontyForm<ModOne, 1>:: m = 1: single ops", |c: &mut Ctx| single_ops_m1::<ConstMontyForm<ModOne, 1>>(c, 1));
    case!(v, "ConstMontyParams ModOne:: m = 1: parameters == definitions", const_params::<ModOne, 1>);
    const_cases!(v; (ModP256, 4), (ModM64, 1), (ModThree, 1), (ModM127, 2), (ModLz2, 2), (ModLz5, 4), (ModSmall192, 3), (ModBig1024, 16));
    v
}
