//! Case tables, one module per property.
//!
//! Adding a case: write `fn my_case(c: &mut Ctx)` (or a const-generic `fn my_case<const L: usize>`)
//! that loops over `c.inputs1/2/3(..)`, calls the crate inside `call(|| ..)` and compares with the
//! oracle through `check!`; then add one line to the `cases()` table of the property
//! (`ucases!(v, "name", my_case; 1, 2, 3, 4, 16)` instantiates it for U64..U1024).

use crate::ctx::Case;

pub mod c02;
pub mod c03;
pub mod c04;
pub mod c05;
pub mod c06;
pub mod c07;
pub mod c08;
pub mod c09;
pub mod c10;
pub mod c11;
pub mod c12;
pub mod c13;
pub mod c14;
pub mod c15;
pub mod c16;
pub mod c17;
pub mod c18;
pub mod c19;
pub mod c20;

/// All properties handled by the searcher.
pub const PROPS: [&str; 19] = [
    "C02", "C03", "C04", "C05", "C06", "C07", "C08", "C09", "C10", "C11", "C12", "C13", "C14", "C15", "C16", "C17", "C18",
    "C19", "C20",
];

/// The case table of a property.
pub fn cases(prop: &str) -> Option<Vec<Case>> {
    Some(match prop {
        "C02" => c02::cases(),
        "C03" => c03::cases(),
        "C04" => c04::cases(),
        "C05" => c05::cases(),
        "C06" => c06::cases(),
        "C07" => c07::cases(),
        "C08" => c08::cases(),
        "C09" => c09::cases(),
        "C10" => c10::cases(),
        "C11" => c11::cases(),
        "C12" => c12::cases(),
        "C13" => c13::cases(),
        "C14" => c14::cases(),
        "C15" => c15::cases(),
        "C16" => c16::cases(),
        "C17" => c17::cases(),
        "C18" => c18::cases(),
        "C19" => c19::cases(),
        "C20" => c20::cases(),
        _ => return None,
    })
}

/// `ucases!(v, "div_rem", f; 1, 2, 4)` pushes `U64::div_rem => f::<1>`, `U128::div_rem => f::<2>` ...
#[macro_export]
macro_rules! ucases {
    ($v:ident, $name:expr, $f:ident; $($l:literal),+ $(,)?) => {
        $( $v.push($crate::ctx::Case::new(format!("U{}::{}", 64 * $l, $name), $f::<$l>)); )+
    };
}

/// `icases!(v, "checked_div", f; 1, 2, 4)` pushes `I64::checked_div => f::<1>` ...
#[macro_export]
macro_rules! icases {
    ($v:ident, $name:expr, $f:ident; $($l:literal),+ $(,)?) => {
        $( $v.push($crate::ctx::Case::new(format!("I{}::{}", 64 * $l, $name), $f::<$l>)); )+
    };
}

/// `ucases2!(v, "div_rem_vartime mixed", f; (3, 1), (4, 2))` pushes
/// `U192::div_rem_vartime mixed U192/U64 => f::<3, 1>` ...
#[macro_export]
macro_rules! ucases2 {
    ($v:ident, $name:expr, $f:ident; $(($a:literal, $b:literal)),+ $(,)?) => {
        $( $v.push($crate::ctx::Case::new(format!("U{}::{} U{}/U{}", 64 * $a, $name, 64 * $a, 64 * $b), $f::<$a, $b>)); )+
    };
}

/// Same for signed/unsigned mixed forms: `I128::name I128/U64`.
#[macro_export]
macro_rules! icases2 {
    ($v:ident, $name:expr, $f:ident; $(($a:literal, $b:literal)),+ $(,)?) => {
        $( $v.push($crate::ctx::Case::new(format!("I{}::{} I{}/U{}", 64 * $a, $name, 64 * $a, 64 * $b), $f::<$a, $b>)); )+
    };
}

/// Plain named case.
#[macro_export]
macro_rules! case {
    ($v:ident, $name:expr, $f:expr) => {
        $v.push($crate::ctx::Case::new($name, $f));
    };
}

/// Common imports for property modules.
#[allow(unused_imports)]
pub mod prelude {
    pub use crate::conv::*;
    pub use crate::ctx::{Case, Ctx, call};
    pub use crate::show::Show;
    pub use crate::{case, check, holds, icases, icases2, must_panic, no_panic, ucases, ucases2};
    pub use crypto_bigint::subtle::{Choice, ConditionallySelectable, ConstantTimeEq, CtOption};
    pub use crypto_bigint::{BoxedUint, ConstChoice, ConstCtOption, Int, Limb, NonZero, Odd, Uint, Word};
    pub use num_bigint::{BigInt, BigUint};
    pub use num_traits::{One, Zero};

    /// CtOption -> Option
    pub fn opt<T>(x: CtOption<T>) -> Option<T> {
        Option::from(x)
    }
    /// ConstCtOption -> Option
    pub fn copt<T>(x: ConstCtOption<T>) -> Option<T> {
        Option::from(x)
    }
    /// Choice -> bool
    pub fn cb(x: Choice) -> bool {
        bool::from(x)
    }
    /// ConstChoice -> bool
    pub fn ccb(x: ConstChoice) -> bool {
        bool::from(x)
    }
    /// NonZero<Uint> from an oracle value known to be non-zero (mod 2^BITS)
    pub fn nzu<const L: usize>(x: &BigUint) -> NonZero<Uint<L>> {
        NonZero::new(bu::<L>(x)).unwrap()
    }
    /// NonZero<BoxedUint>
    pub fn nzx(x: &BigUint, limbs: usize) -> NonZero<BoxedUint> {
        NonZero::new(bx(x, limbs)).unwrap()
    }
    /// NonZero<Limb>
    pub fn nzl(x: &BigUint) -> NonZero<Limb> {
        NonZero::new(bl(x)).unwrap()
    }
    /// Odd<Uint>
    pub fn oddu<const L: usize>(x: &BigUint) -> Odd<Uint<L>> {
        Odd::new(bu::<L>(x)).unwrap()
    }
    /// Odd<BoxedUint>
    pub fn oddx(x: &BigUint, limbs: usize) -> Odd<BoxedUint> {
        Odd::new(bx(x, limbs)).unwrap()
    }
}
