//! C12 (thin) — NonZero and Odd wrappers can never hold an invalid value.
//!
//! Every way of producing a `NonZero<T>` / `Odd<T>` (T in Limb, Uint<N>, Int<N>, BoxedUint) that the
//! public API offers is called; the produced value is converted to the oracle type and compared with
//! the oracle's reading of the argument (so the invariant "!= 0" / "odd" is evaluated on each
//! produced value, and decoders are compared in the *stated* byte order). Constructors must fail
//! (none / documented panic) exactly on zero / even input.

use super::prelude::*;
use core::num::{NonZeroU8, NonZeroU16, NonZeroU32, NonZeroU64, NonZeroU128};
use crypto_bigint::{ArrayEncoding, ByteArray, Encoding, Random};
use hybrid_array::Array;
use rand_chacha::ChaCha8Rng;
use rand_core::{RngCore, SeedableRng};

fn some_nz(v: &BigUint) -> Option<BigUint> {
    if v.is_zero() { None } else { Some(v.clone()) }
}

fn some_odd(v: &BigUint) -> Option<BigUint> {
    if v.bit(0) { Some(v.clone()) } else { None }
}

fn big(x: &BigUint) -> BigInt {
    BigInt::from(x.clone())
}

/// values: the edge corpus (reduced) with 0, 1, 2, MAX, MAX-1 guaranteed by `edges`
fn values(c: &mut Ctx, l: usize) -> Vec<BigUint> {
    let mut v = c.scaled(4, |c| c.inputs1(l));
    v.push(BigUint::zero());
    v.push(pow2(64 * l as u32 - 1));
    v.push(pow2(64 * l as u32 - 1) + 1u32);
    v
}

// ---------------------------------------------------------------- Uint

fn nz_uint<const L: usize>(c: &mut Ctx) {
    let vals = values(c, L);
    let mut prev: Option<NonZero<Uint<L>>> = None;
    for v in vals {
        if c.done() {
            return;
        }
        let u = bu::<L>(&v);
        check!(c, call(|| opt(NonZero::new(u))).map(|r| r.map(|n| ub(n.as_ref()))), some_nz(&v); v);
        check!(c, call(|| copt(u.to_nz())).map(|r| r.map(|n| ub(n.as_ref()))), some_nz(&v); v);
        if v.is_zero() {
            // documented: "Panics if the value is zero"
            must_panic!(c, call(|| NonZero::<Uint<L>>::new_unwrap(u)); v);
            continue;
        }
        check!(c, call(|| NonZero::<Uint<L>>::new_unwrap(u)).map(|n| ub(n.as_ref())), v.clone(); v);
        let n = NonZero::new(u).unwrap();
        check!(c, call(|| ub(&n.get())), v.clone(); v);
        check!(c, call(|| ub(&*n)), v.clone(); v);
        // selection between two valid values stays valid (and is one of them)
        if let Some(p) = prev {
            let pv = ub(p.as_ref());
            check!(c, call(|| NonZero::conditional_select(&p, &n, Choice::from(0))).map(|r| ub(r.as_ref())), pv.clone(); pv, v);
            check!(c, call(|| NonZero::conditional_select(&p, &n, Choice::from(1))).map(|r| ub(r.as_ref())), v.clone(); pv, v);
        }
        prev = Some(n);
    }
}

fn odd_uint<const L: usize>(c: &mut Ctx) {
    let vals = values(c, L);
    let mut prev: Option<Odd<Uint<L>>> = None;
    for v in vals {
        if c.done() {
            return;
        }
        let u = bu::<L>(&v);
        check!(c, call(|| opt(Odd::new(u))).map(|r| r.map(|n| ub(n.as_ref()))), some_odd(&v); v);
        check!(c, call(|| copt(u.to_odd())).map(|r| r.map(|n| ub(n.as_ref()))), some_odd(&v); v);
        if !v.bit(0) {
            continue;
        }
        let o = Odd::new(u).unwrap();
        check!(c, call(|| ub(&o.get())), v.clone(); v);
        // Odd -> &NonZero reinterpretation
        check!(c, call(|| ub(o.as_nz_ref().as_ref())), v.clone(); v);
        check!(c, call(|| ub(AsRef::<NonZero<Uint<L>>>::as_ref(&o).as_ref())), v.clone(); v);
        // Odd<Uint> -> Odd<BoxedUint>: same value, documented precision of From<&Uint> (the Uint's width)
        check!(c, call(|| Odd::<BoxedUint>::from(o)).map(|r| (xb(r.as_ref()), r.as_ref().nlimbs())), (v.clone(), L); v);
        check!(c, call(|| Odd::<BoxedUint>::from(&o)).map(|r| (xb(r.as_ref()), r.as_ref().nlimbs())), (v.clone(), L); v);
        check!(c, call(|| BoxedUint::from(o)).map(|r| xb(&r)), v.clone(); v);
        check!(c, call(|| BoxedUint::from(&o)).map(|r| xb(&r)), v.clone(); v);
        if let Some(p) = prev {
            let pv = ub(p.as_ref());
            check!(c, call(|| Odd::conditional_select(&p, &o, Choice::from(0))).map(|r| ub(r.as_ref())), pv.clone(); pv, v);
            check!(c, call(|| Odd::conditional_select(&p, &o, Choice::from(1))).map(|r| ub(r.as_ref())), v.clone(); pv, v);
        }
        prev = Some(o);
    }
}

fn uint_from_prims<const L: usize>(c: &mut Ctx) {
    let mut ws: Vec<u128> = vec![1, 2, 0xff, 0x100, 0xffff, 0x1_0000, u32::MAX as u128, 1 << 32, u64::MAX as u128, 1 << 64, u128::MAX, 1 << 127, 1 << 7, 1 << 15, 1 << 31, 1 << 63];
    for _ in 0..64 {
        ws.push((c.word() as u128) << 64 | c.edgy_word() as u128);
    }
    for w in ws {
        if let Some(n) = NonZeroU8::new(w as u8) {
            let e = BigUint::from(n.get());
            check!(c, call(|| NonZero::<Uint<L>>::from_u8(n)).map(|r| ub(r.as_ref())), e.clone(); w);
            check!(c, call(|| NonZero::<Uint<L>>::from(n)).map(|r| ub(r.as_ref())), e; w);
        }
        if let Some(n) = NonZeroU16::new(w as u16) {
            let e = BigUint::from(n.get());
            check!(c, call(|| NonZero::<Uint<L>>::from_u16(n)).map(|r| ub(r.as_ref())), e.clone(); w);
            check!(c, call(|| NonZero::<Uint<L>>::from(n)).map(|r| ub(r.as_ref())), e; w);
        }
        if let Some(n) = NonZeroU32::new(w as u32) {
            let e = BigUint::from(n.get());
            check!(c, call(|| NonZero::<Uint<L>>::from_u32(n)).map(|r| ub(r.as_ref())), e.clone(); w);
            check!(c, call(|| NonZero::<Uint<L>>::from(n)).map(|r| ub(r.as_ref())), e; w);
        }
        if let Some(n) = NonZeroU64::new(w as u64) {
            let e = BigUint::from(n.get());
            check!(c, call(|| NonZero::<Uint<L>>::from_u64(n)).map(|r| ub(r.as_ref())), e.clone(); w);
            check!(c, call(|| NonZero::<Uint<L>>::from(n)).map(|r| ub(r.as_ref())), e; w);
        }
        // a u128 needs two limbs (Uint::from_u128 asserts it)
        if L >= 2 {
            if let Some(n) = NonZeroU128::new(w) {
                let e = BigUint::from(n.get());
                check!(c, call(|| NonZero::<Uint<L>>::from_u128(n)).map(|r| ub(r.as_ref())), e.clone(); w);
                check!(c, call(|| NonZero::<Uint<L>>::from(n)).map(|r| ub(r.as_ref())), e; w);
            }
        }
    }
}

fn constants<const L: usize>(c: &mut Ctx) {
    let l = L;
    let bits = 64 * L as u32;
    check!(c, call(|| ub(NonZero::<Uint<L>>::ONE.as_ref())), BigUint::one(); l);
    check!(c, call(|| ub(NonZero::<Uint<L>>::MAX.as_ref())), mask(bits); l);
    check!(c, call(|| ub(NonZero::<Uint<L>>::default().as_ref())), BigUint::one(); l);
    // "The default odd value is one (zero is not odd)"
    check!(c, call(|| ub(Odd::<Uint<L>>::default().as_ref())), BigUint::one(); l);
    check!(c, call(|| ib(NonZero::<Int<L>>::ONE.as_ref())), BigInt::one(); l);
    check!(c, call(|| ib(NonZero::<Int<L>>::MAX.as_ref())), smax(bits); l);
    check!(c, call(|| ib(NonZero::<Int<L>>::default().as_ref())), BigInt::one(); l);
    check!(c, call(|| NonZero::<Uint<L>>::BITS), bits; l);
    check!(c, call(|| NonZero::<Uint<L>>::BYTES), 8 * L; l);
}

// ---------------------------------------------------------------- Int

fn nz_odd_int<const L: usize>(c: &mut Ctx) {
    let bits = 64 * L as u32;
    let vals = values(c, L);
    let mut prev: Option<NonZero<Int<L>>> = None;
    for p in vals {
        if c.done() {
            return;
        }
        // p: bit pattern, a: two's complement value
        let a = wrap_signed(&big(&p), bits);
        let x = bi::<L>(&a);
        let nz = if a.is_zero() { None } else { Some(a.clone()) };
        let odd = if p.bit(0) { Some(a.clone()) } else { None };
        check!(c, call(|| opt(NonZero::new(x))).map(|r| r.map(|n| ib(n.as_ref()))), nz.clone(); a);
        check!(c, call(|| copt(x.to_nz())).map(|r| r.map(|n| ib(n.as_ref()))), nz; a);
        check!(c, call(|| copt(x.to_odd())).map(|r| r.map(|n| ib(n.as_ref()))), odd.clone(); a);
        if odd.is_some() {
            let o = copt(x.to_odd()).unwrap();
            check!(c, call(|| ib(o.as_nz_ref().as_ref())), a.clone(); a);
        }
        if a.is_zero() {
            continue;
        }
        let n = NonZero::new(x).unwrap();
        // magnitude of a non-zero Int is a non-zero Uint (also for MIN)
        check!(c, call(|| n.abs_sign()).map(|(m, s)| (ub(m.as_ref()), ccb(s))), (a.magnitude().clone(), a < BigInt::zero()); a);
        if let Some(q) = prev {
            let qv = ib(q.as_ref());
            check!(c, call(|| NonZero::conditional_select(&q, &n, Choice::from(0))).map(|r| ib(r.as_ref())), qv.clone(); qv, a);
            check!(c, call(|| NonZero::conditional_select(&q, &n, Choice::from(1))).map(|r| ib(r.as_ref())), a.clone(); qv, a);
        }
        prev = Some(n);
    }
}

// ---------------------------------------------------------------- Limb

fn limb(c: &mut Ctx) {
    let mut prev: Option<NonZero<Limb>> = None;
    for v in c.inputs1(1) {
        if c.done() {
            return;
        }
        let l = bl(&v);
        check!(c, call(|| opt(NonZero::new(l))).map(|r| r.map(|n| lb(*n.as_ref()))), some_nz(&v); v);
        check!(c, call(|| copt(l.to_nz())).map(|r| r.map(|n| lb(*n.as_ref()))), some_nz(&v); v);
        let w = l.0;
        if let Some(n) = NonZeroU8::new(w as u8) {
            check!(c, call(|| NonZero::<Limb>::from_u8(n)).map(|r| lb(r.get())), BigUint::from(n.get()); v);
            check!(c, call(|| NonZero::<Limb>::from(n)).map(|r| lb(r.get())), BigUint::from(n.get()); v);
        }
        if let Some(n) = NonZeroU16::new(w as u16) {
            check!(c, call(|| NonZero::<Limb>::from_u16(n)).map(|r| lb(r.get())), BigUint::from(n.get()); v);
            check!(c, call(|| NonZero::<Limb>::from(n)).map(|r| lb(r.get())), BigUint::from(n.get()); v);
        }
        if let Some(n) = NonZeroU32::new(w as u32) {
            check!(c, call(|| NonZero::<Limb>::from_u32(n)).map(|r| lb(r.get())), BigUint::from(n.get()); v);
            check!(c, call(|| NonZero::<Limb>::from(n)).map(|r| lb(r.get())), BigUint::from(n.get()); v);
        }
        if let Some(n) = NonZeroU64::new(w) {
            check!(c, call(|| NonZero::<Limb>::from_u64(n)).map(|r| lb(r.get())), BigUint::from(n.get()); v);
            check!(c, call(|| NonZero::<Limb>::from(n)).map(|r| lb(r.get())), BigUint::from(n.get()); v);
        }
        // byte decoders in the stated order
        let bytes = w.to_le_bytes().to_vec();
        let arr = w.to_le_bytes();
        check!(c, call(|| opt(NonZero::<Limb>::from_le_bytes(arr))).map(|r| r.map(|n| lb(n.get()))), some_nz(&BigUint::from_bytes_le(&bytes)); bytes);
        check!(c, call(|| opt(NonZero::<Limb>::from_be_bytes(arr))).map(|r| r.map(|n| lb(n.get()))), some_nz(&BigUint::from_bytes_be(&bytes)); bytes);
        if v.is_zero() {
            must_panic!(c, call(|| NonZero::<Limb>::new_unwrap(l)); v);
            continue;
        }
        check!(c, call(|| NonZero::<Limb>::new_unwrap(l)).map(|n| lb(n.get())), v.clone(); v);
        let n = NonZero::new(l).unwrap();
        if let Some(p) = prev {
            let pv = lb(p.get());
            check!(c, call(|| NonZero::conditional_select(&p, &n, Choice::from(0))).map(|r| lb(r.get())), pv.clone(); pv, v);
            check!(c, call(|| NonZero::conditional_select(&p, &n, Choice::from(1))).map(|r| lb(r.get())), v.clone(); pv, v);
        }
        prev = Some(n);
    }
    let l = 1usize;
    check!(c, call(|| lb(NonZero::<Limb>::ONE.get())), BigUint::one(); l);
    check!(c, call(|| lb(NonZero::<Limb>::MAX.get())), mask(64); l);
    check!(c, call(|| lb(NonZero::<Limb>::default().get())), BigUint::one(); l);
}

// ---------------------------------------------------------------- BoxedUint

fn boxed(c: &mut Ctx) {
    for limbs in 1..=4usize {
        for v in c.scaled(4, |c| values(c, limbs)) {
            if c.done() {
                return;
            }
            let x = bx(&v, limbs);
            let shape_nz = |r: Option<NonZero<BoxedUint>>| r.map(|n| (xb(n.as_ref()), n.as_ref().nlimbs()));
            let shape_odd = |r: Option<Odd<BoxedUint>>| r.map(|n| (xb(n.as_ref()), n.as_ref().nlimbs()));
            check!(c, call(|| opt(NonZero::new(x.clone()))).map(shape_nz), some_nz(&v).map(|v| (v, limbs)); v, limbs);
            check!(c, call(|| opt(Odd::new(x.clone()))).map(shape_odd), some_odd(&v).map(|v| (v, limbs)); v, limbs);
            check!(c, call(|| opt(x.to_odd())).map(shape_odd), some_odd(&v).map(|v| (v, limbs)); v, limbs);
            if v.bit(0) {
                let o = Odd::new(x.clone()).unwrap();
                check!(c, call(|| xb(o.as_nz_ref().as_ref())), v.clone(); v, limbs);
                check!(c, call(|| xb(&o.clone().get())), v.clone(); v, limbs);
            }
        }
    }
}

// ---------------------------------------------------------------- byte / array / hex decoders

/// Byte strings of length n: all zero, one-hot at either end, even/odd at either end, 0xff.., the
/// edge corpus, random.
fn byte_inputs(c: &mut Ctx, n: usize) -> Vec<Vec<u8>> {
    let mut v: Vec<Vec<u8>> = Vec::new();
    v.push(vec![0; n]);
    v.push(vec![0xff; n]);
    for (first, last) in [(1u8, 0u8), (0, 1), (2, 0), (0, 2), (1, 2), (2, 1), (0x80, 0), (0, 0x80), (1, 1), (2, 2), (0xff, 0xfe), (0xfe, 0xff)] {
        let mut b = vec![0u8; n];
        b[0] = first;
        b[n - 1] |= last;
        if n == 1 {
            b[0] = first | last;
        }
        v.push(b.clone());
        // the same with garbage in the middle
        for x in b.iter_mut().take(n - 1).skip(1) {
            *x = c.word() as u8;
        }
        v.push(b);
    }
    // a single non-zero byte at each position
    for i in 0..n {
        let mut b = vec![0u8; n];
        b[i] = if i % 2 == 0 { 1 } else { 0x10 };
        v.push(b);
    }
    for x in c.scaled(16, |c| c.inputs1(n / 8)) {
        let mut b = x.to_bytes_le();
        b.resize(n, 0);
        v.push(b);
    }
    v
}

fn uint_bytes<const L: usize>(c: &mut Ctx)
where
    Uint<L>: ArrayEncoding,
{
    for bytes in byte_inputs(c, 8 * L) {
        if c.done() {
            return;
        }
        let (be, le) = (BigUint::from_bytes_be(&bytes), BigUint::from_bytes_le(&bytes));
        let repr = <Uint<L> as Encoding>::Repr::try_from(&bytes[..]).expect("repr length");
        let val = |r: Option<NonZero<Uint<L>>>| r.map(|n| ub(n.as_ref()));
        check!(c, call(|| opt(NonZero::<Uint<L>>::from_be_bytes(repr))).map(val), some_nz(&be); bytes);
        check!(c, call(|| opt(NonZero::<Uint<L>>::from_le_bytes(repr))).map(val), some_nz(&le); bytes);
        let arr: ByteArray<Uint<L>> = Array::from_fn(|i| bytes[i]);
        check!(c, call(|| opt(NonZero::<Uint<L>>::from_be_byte_array(arr.clone()))).map(val), some_nz(&be); bytes);
        check!(c, call(|| opt(NonZero::<Uint<L>>::from_le_byte_array(arr.clone()))).map(val), some_nz(&le); bytes);
    }
}

fn odd_hex<const L: usize>(c: &mut Ctx) {
    for bytes in byte_inputs(c, 8 * L) {
        if c.done() {
            return;
        }
        let (be, le) = (BigUint::from_bytes_be(&bytes), BigUint::from_bytes_le(&bytes));
        let lower: String = bytes.iter().map(|b| format!("{:02x}", b)).collect();
        let upper = lower.to_uppercase();
        for hex in [lower, upper] {
            // documented: panics if the value is even
            if be.bit(0) {
                check!(c, call(|| Odd::<Uint<L>>::from_be_hex(&hex)).map(|o| ub(o.as_ref())), be.clone(); hex);
            } else {
                must_panic!(c, call(|| Odd::<Uint<L>>::from_be_hex(&hex)); hex);
            }
            if le.bit(0) {
                check!(c, call(|| Odd::<Uint<L>>::from_le_hex(&hex)).map(|o| ub(o.as_ref())), le.clone(); hex);
            } else {
                must_panic!(c, call(|| Odd::<Uint<L>>::from_le_hex(&hex)); hex);
            }
        }
    }
    // documented: panics if the hex is malformed or not zero-padded for the size
    let good = format!("{}01", "00".repeat(8 * L - 1));
    for hex in [good[2..].to_string(), format!("{}00", good), good.replace("01", "0g"), good.replace("01", " 1"), String::new()] {
        must_panic!(c, call(|| Odd::<Uint<L>>::from_be_hex(&hex)); hex);
        must_panic!(c, call(|| Odd::<Uint<L>>::from_le_hex(&hex)); hex);
    }
}

// ---------------------------------------------------------------- random generation

/// RNG stub: `zeros` all-zero words first, then the same non-zero `fill` word `reps` times (e.g.
/// an even word), then a counter. Never an endless stream of identical words.
#[derive(Clone)]
struct StubRng {
    zeros: usize,
    fill: u64,
    reps: usize,
    ctr: u64,
}

impl StubRng {
    fn word(&mut self) -> u64 {
        if self.zeros > 0 {
            self.zeros -= 1;
            0
        } else if self.reps > 0 {
            self.reps -= 1;
            self.fill
        } else {
            self.ctr = self.ctr.wrapping_add(1);
            self.ctr
        }
    }
}

impl RngCore for StubRng {
    fn next_u32(&mut self) -> u32 {
        self.word() as u32
    }
    fn next_u64(&mut self) -> u64 {
        self.word()
    }
    fn fill_bytes(&mut self, dst: &mut [u8]) {
        for chunk in dst.chunks_mut(8) {
            let w = self.word().to_le_bytes();
            chunk.copy_from_slice(&w[..chunk.len()]);
        }
    }
}

fn stubs(l: usize) -> Vec<StubRng> {
    let mut v = Vec::new();
    for zeros in [0, 1, l.saturating_sub(1), l, l + 1, 2 * l, 3 * l + 1, 17 * l] {
        for (fill, reps) in [(0u64, 0usize), (2, l), (2, 4 * l), (1 << 63, 2 * l), (u64::MAX - 1, l)] {
            for ctr in [0u64, 1, u64::MAX - 1] {
                v.push(StubRng { zeros, fill, reps, ctr });
            }
        }
    }
    v
}

fn random_fixed<const L: usize>(c: &mut Ctx) {
    for (i, stub) in stubs(L).into_iter().enumerate() {
        if c.done() {
            return;
        }
        let mut r = stub.clone();
        check!(c, call(|| NonZero::<Uint<L>>::random(&mut r)).map(|n| !ub(n.as_ref()).is_zero()), true; i);
        let mut r = stub.clone();
        check!(c, call(|| NonZero::<Uint<L>>::try_random(&mut r)).map(|n| n.map(|n| !ub(n.as_ref()).is_zero()).unwrap_or(false)), true; i);
        let mut r = stub.clone();
        check!(c, call(|| NonZero::<Int<L>>::random(&mut r)).map(|n| !ib(n.as_ref()).is_zero()), true; i);
        let mut r = stub.clone();
        check!(c, call(|| Odd::<Uint<L>>::random(&mut r)).map(|n| ub(n.as_ref()).bit(0)), true; i);
        let mut r = stub.clone();
        check!(c, call(|| Odd::<Uint<L>>::try_random(&mut r)).map(|n| n.map(|n| ub(n.as_ref()).bit(0)).unwrap_or(false)), true; i);
        if L == 1 {
            let mut r = stub.clone();
            check!(c, call(|| NonZero::<Limb>::random(&mut r)).map(|n| n.get().0 != 0), true; i);
        }
    }
    for _ in 0..(c.iters / 4).max(32) {
        if c.done() {
            return;
        }
        let seed = c.word();
        let mut r = ChaCha8Rng::seed_from_u64(seed);
        check!(c, call(|| NonZero::<Uint<L>>::random(&mut r)).map(|n| !ub(n.as_ref()).is_zero()), true; seed);
        check!(c, call(|| NonZero::<Int<L>>::random(&mut r)).map(|n| !ib(n.as_ref()).is_zero()), true; seed);
        check!(c, call(|| Odd::<Uint<L>>::random(&mut r)).map(|n| ub(n.as_ref()).bit(0)), true; seed);
        check!(c, call(|| NonZero::<Limb>::random(&mut r)).map(|n| n.get().0 != 0), true; seed);
    }
}

fn random_boxed(c: &mut Ctx) {
    // bit_length 0 admits no odd value (nothing below 2^0 is odd): skipped
    let mut lens: Vec<u32> = (1..=130).collect();
    lens.extend([191, 192, 193, 255, 256, 257, 1023, 1024, 1025]);
    for bit_length in lens {
        if c.done() {
            return;
        }
        let l = bit_length.div_ceil(64) as usize;
        for (i, stub) in stubs(l).into_iter().step_by(7).take(8).enumerate() {
            let mut r = stub;
            let got = call(|| Odd::<BoxedUint>::random(&mut r, bit_length)).map(|o| (xb(o.as_ref()).bit(0), xb(o.as_ref()) < pow2(bit_length), o.as_ref().bits_precision()));
            check!(c, got, (true, true, 64 * l as u32); bit_length, i);
        }
        for _ in 0..4 {
            let seed = c.word();
            let mut r = ChaCha8Rng::seed_from_u64(seed);
            let got = call(|| Odd::<BoxedUint>::random(&mut r, bit_length)).map(|o| (xb(o.as_ref()).bit(0), xb(o.as_ref()) < pow2(bit_length), o.as_ref().bits_precision()));
            check!(c, got, (true, true, 64 * l as u32); bit_length, seed);
        }
    }
}

pub fn cases() -> Vec<Case> {
    let mut v = Vec::new();
    ucases!(v, "NonZero::new/to_nz/new_unwrap/get/deref/conditional_select", nz_uint; 1, 2, 3, 4, 16);
    ucases!(v, "Odd::new/to_odd/as_nz_ref/AsRef<NonZero>/conditional_select/Odd<BoxedUint>::from", odd_uint; 1, 2, 3, 4, 16);
    ucases!(v, "NonZero::from_u8..from_u128/From<NonZeroU*>", uint_from_prims; 1, 2, 4, 16);
    ucases!(v, "NonZero/Odd constants and Default (Uint, Int)", constants; 1, 2, 3, 4, 16);
    icases!(v, "NonZero::new/to_nz/to_odd/abs_sign/conditional_select", nz_odd_int; 1, 2, 3, 4, 16);
    case!(v, "Limb: NonZero::new/to_nz/new_unwrap/from_u8..from_u64/From/from_be_bytes/from_le_bytes/ONE/MAX/Default", limb);
    case!(v, "BoxedUint: NonZero::new/Odd::new/to_odd/as_nz_ref", boxed);
    ucases!(v, "NonZero::from_be_bytes/from_le_bytes/from_be_byte_array/from_le_byte_array", uint_bytes; 1, 2, 3, 4, 16);
    ucases!(v, "Odd::from_be_hex/from_le_hex", odd_hex; 1, 2, 3, 4, 16);
    ucases!(v, "NonZero/Odd random (Uint, Int, Limb; ChaCha and zero-prefixed streams)", random_fixed; 1, 2, 4, 16);
    case!(v, "Odd<BoxedUint>::random", random_boxed);
    v
}
