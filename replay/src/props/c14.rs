//! C14 — every signed division flavour satisfies n = q*d + r with its sign convention.
//!
//! Oracle (BigInt): truncating q = trunc(n/d), r = n - q*d (sign(r) in {0, sign(n)});
//! flooring q = floor(n/d), r = n - q*d (sign(r) in {0, sign(d)}); normalized remainder in [0, d).
//! The quotient is none exactly for d = 0 or MIN / -1.
//!
//! Known finding F12 (recorded, not repaired): `div_rem_uint_vartime` / `rem_uint_vartime` with
//! RHS_LIMBS < LIMBS return the remainder as `Int<RHS_LIMBS>`, which cannot hold
//! |r| >= 2^(64*RHS_LIMBS-1). Exactly those inputs are tagged `"known": "F12"` (printed, not counted).

use super::prelude::*;
use crypto_bigint::{CheckedDiv, DivVartime, Wrapping};

fn int<const L: usize>(x: &BigInt) -> Int<L> {
    bi::<L>(x)
}
fn nzi<const L: usize>(x: &BigInt) -> NonZero<Int<L>> {
    NonZero::new(bi::<L>(x)).unwrap()
}

/// Signed (n, d) pairs: n in [MIN_L, MAX_L]; d in [MIN_R, MAX_R] (signed divisor) or [0, 2^(64R))
/// (unsigned divisor; returned as a non-negative BigInt). d = 0 included.
/// All four sign combinations of the division corpus of C02 (exact and inexact division,
/// |n| < |d|, n = q*d +- 1), d = +-1, n = MIN, d = MIN, MIN / -1, two's complement edge patterns.
pub fn sdiv_inputs(c: &mut Ctx, l: usize, r: usize, signed_divisor: bool) -> Vec<(BigInt, BigInt)> {
    let (lb, rb) = (64 * l as u32, 64 * r as u32);
    let mut out = Vec::new();
    // raw two's complement patterns from the limb alphabet
    for (a, b) in c.scaled(2, |c| c.inputs2(l, r)) {
        let n = wrap_signed(&BigInt::from(a), lb);
        let d = if signed_divisor { wrap_signed(&BigInt::from(b), rb) } else { BigInt::from(b) };
        out.push((n, d));
    }
    // magnitudes from the division corpus, every sign combination that is representable
    let (nmin, nmax) = (smin(lb), smax(lb));
    let (dmin, dmax) = if signed_divisor { (smin(rb), smax(rb)) } else { (BigInt::zero(), BigInt::from(mask(rb))) };
    for (a, b) in c.scaled(8, |c| super::c02::div_inputs(c, l, r)) {
        let a = BigInt::from(a & mask(lb - 1));
        let b = if signed_divisor { BigInt::from(b & mask(rb - 1)) } else { BigInt::from(b) };
        for (sn, sd) in [(1, 1), (-1, 1), (1, -1), (-1, -1)] {
            if sd < 0 && !signed_divisor {
                continue;
            }
            let (n, d) = (&a * sn, &b * sd);
            if n >= nmin && n <= nmax && d >= dmin && d <= dmax {
                out.push((n, d));
            }
        }
    }
    // the corners
    let mut ns = vec![nmin.clone(), &nmin + 1, nmax.clone(), &nmax - 1, BigInt::from(-1), BigInt::zero(), BigInt::one(), BigInt::from(-8), BigInt::from(8), BigInt::from(-7)];
    let mut ds = vec![dmax.clone(), &dmax - 1, BigInt::one(), BigInt::from(2), BigInt::from(3), BigInt::zero()];
    if signed_divisor {
        ds.extend([dmin.clone(), &dmin + 1, BigInt::from(-1), BigInt::from(-2), BigInt::from(-3)]);
    } else {
        ds.extend([BigInt::from(pow2(rb - 1)), BigInt::from(pow2(rb - 1)) + 1, BigInt::from(pow2(rb - 1)) - 1]);
    }
    for _ in 0..4 {
        ns.push(wrap_signed(&BigInt::from(c.rnd(l)), lb));
        let d = BigInt::from(c.rnd(r));
        ds.push(if signed_divisor { wrap_signed(&d, rb) } else { d });
    }
    for n in &ns {
        for d in &ds {
            if *d >= dmin && *d <= dmax {
                out.push((n.clone(), d.clone()));
            }
        }
    }
    out
}

/// truncating oracle
fn trunc(n: &BigInt, d: &BigInt) -> (BigInt, BigInt) {
    (n / d, n % d)
}

// ---------------------------------------------------------------- signed divisor, constant time, same width

fn truncating_ct<const L: usize>(c: &mut Ctx) {
    let bits = 64 * L as u32;
    for (n, d) in sdiv_inputs(c, L, L, true) {
        if c.done() {
            return;
        }
        let x = int::<L>(&n);
        if d.is_zero() {
            let y = int::<L>(&d);
            let none: Option<BigInt> = None;
            check!(c, call(|| opt(x.checked_div(&y))).map(|q| q.map(|q| ib(&q))), none.clone(); n, d);
            check!(c, call(|| opt(CheckedDiv::checked_div(&x, &y))).map(|q| q.map(|q| ib(&q))), none; n, d);
            continue;
        }
        let y = nzi::<L>(&d);
        let (q, r) = trunc(&n, &d);
        let qo = if fits_signed(&q, bits) { Some(q.clone()) } else { None };
        debug_assert!(qo.is_some() || (n == smin(bits) && d == BigInt::from(-1)));
        check!(c, call(|| x.checked_div_rem(&y)).map(|(a, b)| (copt(a).map(|a| ib(&a)), ib(&b))), (qo.clone(), r.clone()); n, d);
        check!(c, call(|| opt(x.checked_div(y.as_ref()))).map(|a| a.map(|a| ib(&a))), qo.clone(); n, d);
        check!(c, call(|| opt(CheckedDiv::checked_div(&x, y.as_ref()))).map(|a| a.map(|a| ib(&a))), qo.clone(); n, d);
        check!(c, call(|| x.rem(&y)).map(|a| ib(&a)), r.clone(); n, d);
        // operators: `/` yields a CtOption, `%` an Int
        check!(c, call(|| opt(x / y)).map(|a| a.map(|a| ib(&a))), qo.clone(); n, d);
        check!(c, call(|| opt(&x / &y)).map(|a| a.map(|a| ib(&a))), qo.clone(); n, d);
        check!(c, call(|| opt(x / &y)).map(|a| a.map(|a| ib(&a))), qo.clone(); n, d);
        check!(c, call(|| opt(&x / y)).map(|a| a.map(|a| ib(&a))), qo.clone(); n, d);
        check!(c, call(|| x % y).map(|a| ib(&a)), r.clone(); n, d);
        check!(c, call(|| &x % &y).map(|a| ib(&a)), r.clone(); n, d);
        check!(c, call(|| x % &y).map(|a| ib(&a)), r.clone(); n, d);
        check!(c, call(|| &x % y).map(|a| ib(&a)), r.clone(); n, d);
        check!(c, call(|| { let mut t = x; t %= y; t }).map(|a| ib(&a)), r.clone(); n, d);
        check!(c, call(|| { let mut t = x; t %= &y; t }).map(|a| ib(&a)), r.clone(); n, d);
        let w = Wrapping(x);
        check!(c, call(|| w % y).map(|a| ib(&a.0)), r.clone(); n, d);
        check!(c, call(|| &w % &y).map(|a| ib(&a.0)), r.clone(); n, d);
        check!(c, call(|| w % &y).map(|a| ib(&a.0)), r.clone(); n, d);
        check!(c, call(|| &w % y).map(|a| ib(&a.0)), r.clone(); n, d);
        check!(c, call(|| { let mut t = w; t %= y; t }).map(|a| ib(&a.0)), r.clone(); n, d);
        check!(c, call(|| { let mut t = w; t %= &y; t }).map(|a| ib(&a.0)), r.clone(); n, d);
        // the value-returning quotient forms have no value for MIN / -1 (undocumented panic): skip that input
        if let Some(q) = qo {
            check!(c, call(|| { let mut t = x; t /= y; t }).map(|a| ib(&a)), q.clone(); n, d);
            check!(c, call(|| { let mut t = x; t /= &y; t }).map(|a| ib(&a)), q.clone(); n, d);
            check!(c, call(|| w / y).map(|a| ib(&a.0)), q.clone(); n, d);
            check!(c, call(|| &w / &y).map(|a| ib(&a.0)), q.clone(); n, d);
            check!(c, call(|| w / &y).map(|a| ib(&a.0)), q.clone(); n, d);
            check!(c, call(|| &w / y).map(|a| ib(&a.0)), q.clone(); n, d);
            check!(c, call(|| { let mut t = w; t /= y; t }).map(|a| ib(&a.0)), q.clone(); n, d);
            check!(c, call(|| { let mut t = w; t /= &y; t }).map(|a| ib(&a.0)), q.clone(); n, d);
            check!(c, call(|| x.div_vartime(&y)).map(|a| ib(&a)), q; n, d);
        }
    }
}

fn flooring_ct<const L: usize>(c: &mut Ctx) {
    let bits = 64 * L as u32;
    for (n, d) in sdiv_inputs(c, L, L, true) {
        if c.done() {
            return;
        }
        let x = int::<L>(&n);
        if d.is_zero() {
            let none: Option<BigInt> = None;
            check!(c, call(|| opt(x.checked_div_floor(&int::<L>(&d)))).map(|q| q.map(|q| ib(&q))), none; n, d);
            continue;
        }
        let y = nzi::<L>(&d);
        let (q, r) = div_floor(&n, &d);
        let qo = if fits_signed(&q, bits) { Some(q) } else { None };
        check!(c, call(|| x.checked_div_rem_floor(&y)).map(|(a, b)| (copt(a).map(|a| ib(&a)), ib(&b))), (qo.clone(), r); n, d);
        check!(c, call(|| opt(x.checked_div_floor(y.as_ref()))).map(|a| a.map(|a| ib(&a))), qo; n, d);
    }
}

// ---------------------------------------------------------------- signed divisor, vartime, equal and mixed width

fn signed_vartime<const L: usize, const R: usize>(c: &mut Ctx) {
    let bits = 64 * L as u32;
    for (n, d) in sdiv_inputs(c, L, R, true) {
        if c.done() {
            return;
        }
        let x = int::<L>(&n);
        if d.is_zero() {
            let y = int::<R>(&d);
            let none: Option<BigInt> = None;
            check!(c, call(|| opt(x.checked_div_vartime(&y))).map(|q| q.map(|q| ib(&q))), none.clone(); n, d);
            check!(c, call(|| opt(x.checked_div_floor_vartime(&y))).map(|q| q.map(|q| ib(&q))), none; n, d);
            continue;
        }
        let y = nzi::<R>(&d);
        let (q, r) = trunc(&n, &d);
        let qo = if fits_signed(&q, bits) { Some(q) } else { None };
        check!(c, call(|| x.checked_div_rem_vartime(&y)).map(|(a, b)| (copt(a).map(|a| ib(&a)), ib(&b))), (qo.clone(), r.clone()); n, d);
        check!(c, call(|| opt(x.checked_div_vartime(y.as_ref()))).map(|a| a.map(|a| ib(&a))), qo; n, d);
        check!(c, call(|| x.rem_vartime(&y)).map(|a| ib(&a)), r; n, d);
        let (q, r) = div_floor(&n, &d);
        let qo = if fits_signed(&q, bits) { Some(q) } else { None };
        check!(c, call(|| x.checked_div_rem_floor_vartime(&y)).map(|(a, b)| (copt(a).map(|a| ib(&a)), ib(&b))), (qo.clone(), r); n, d);
        check!(c, call(|| opt(x.checked_div_floor_vartime(y.as_ref()))).map(|a| a.map(|a| ib(&a))), qo; n, d);
    }
}

// ---------------------------------------------------------------- unsigned divisor, constant time

fn by_uint_ct<const L: usize>(c: &mut Ctx) {
    for (n, d) in sdiv_inputs(c, L, L, false) {
        if c.done() {
            return;
        }
        if d.is_zero() {
            continue;
        }
        let (x, y) = (int::<L>(&n), nzu::<L>(d.magnitude()));
        let (q, r) = trunc(&n, &d);
        check!(c, call(|| x.div_rem_uint(&y)).map(|(a, b)| (ib(&a), ib(&b))), (q.clone(), r.clone()); n, d);
        check!(c, call(|| x.div_uint(&y)).map(|a| ib(&a)), q.clone(); n, d);
        check!(c, call(|| x.rem_uint(&y)).map(|a| ib(&a)), r.clone(); n, d);
        check!(c, call(|| x / y).map(|a| ib(&a)), q.clone(); n, d);
        check!(c, call(|| &x / &y).map(|a| ib(&a)), q.clone(); n, d);
        check!(c, call(|| x / &y).map(|a| ib(&a)), q.clone(); n, d);
        check!(c, call(|| &x / y).map(|a| ib(&a)), q.clone(); n, d);
        check!(c, call(|| { let mut t = x; t /= y; t }).map(|a| ib(&a)), q.clone(); n, d);
        check!(c, call(|| { let mut t = x; t /= &y; t }).map(|a| ib(&a)), q.clone(); n, d);
        check!(c, call(|| x % y).map(|a| ib(&a)), r.clone(); n, d);
        check!(c, call(|| &x % &y).map(|a| ib(&a)), r.clone(); n, d);
        check!(c, call(|| x % &y).map(|a| ib(&a)), r.clone(); n, d);
        check!(c, call(|| &x % y).map(|a| ib(&a)), r.clone(); n, d);
        check!(c, call(|| { let mut t = x; t %= y; t }).map(|a| ib(&a)), r.clone(); n, d);
        check!(c, call(|| { let mut t = x; t %= &y; t }).map(|a| ib(&a)), r.clone(); n, d);
        let w = Wrapping(x);
        check!(c, call(|| w / y).map(|a| ib(&a.0)), q.clone(); n, d);
        check!(c, call(|| &w / &y).map(|a| ib(&a.0)), q.clone(); n, d);
        check!(c, call(|| w / &y).map(|a| ib(&a.0)), q.clone(); n, d);
        check!(c, call(|| &w / y).map(|a| ib(&a.0)), q.clone(); n, d);
        check!(c, call(|| { let mut t = w; t /= y; t }).map(|a| ib(&a.0)), q.clone(); n, d);
        check!(c, call(|| { let mut t = w; t /= &y; t }).map(|a| ib(&a.0)), q.clone(); n, d);
        check!(c, call(|| w % y).map(|a| ib(&a.0)), r.clone(); n, d);
        check!(c, call(|| &w % &y).map(|a| ib(&a.0)), r.clone(); n, d);
        check!(c, call(|| w % &y).map(|a| ib(&a.0)), r.clone(); n, d);
        check!(c, call(|| &w % y).map(|a| ib(&a.0)), r.clone(); n, d);
        check!(c, call(|| { let mut t = w; t %= y; t }).map(|a| ib(&a.0)), r.clone(); n, d);
        check!(c, call(|| { let mut t = w; t %= &y; t }).map(|a| ib(&a.0)), r.clone(); n, d);
        // flooring by unsigned: q = floor(n/d), r in [0, d) as a Uint
        let (q, r) = div_floor(&n, &d);
        let r = r.to_biguint().expect("floor remainder of a positive divisor is non-negative");
        check!(c, call(|| x.div_rem_floor_uint(&y)).map(|(a, b)| (ib(&a), ub(&b))), (q.clone(), r.clone()); n, d);
        check!(c, call(|| x.div_floor_uint(&y)).map(|a| ib(&a)), q; n, d);
        check!(c, call(|| x.normalized_rem(&y)).map(|a| ub(&a)), r; n, d);
    }
}

// ---------------------------------------------------------------- unsigned divisor, vartime, equal and mixed width

fn by_uint_vartime<const L: usize, const R: usize>(c: &mut Ctx) {
    let rbits = 64 * R as u32;
    for (n, d) in sdiv_inputs(c, L, R, false) {
        if c.done() {
            return;
        }
        if d.is_zero() {
            continue;
        }
        let (x, y) = (int::<L>(&n), nzu::<R>(d.magnitude()));
        let (q, r) = trunc(&n, &d);
        check!(c, call(|| x.div_uint_vartime(&y)).map(|a| ib(&a)), q.clone(); n, d);
        // F12: the remainder type Int<R> cannot hold the true remainder
        let representable = fits_signed(&r, rbits);
        if !representable {
            debug_assert!(R < L);
            c.known = Some("F12");
        }
        check!(c, call(|| x.div_rem_uint_vartime(&y)).map(|(a, b)| (ib(&a), ib(&b))), (q, r.clone()); n, d);
        check!(c, call(|| x.rem_uint_vartime(&y)).map(|a| ib(&a)), r; n, d);
        c.known = c.case_tag;
        let (q, r) = div_floor(&n, &d);
        let r = r.to_biguint().expect("floor remainder of a positive divisor is non-negative");
        check!(c, call(|| x.div_rem_floor_uint_vartime(&y)).map(|(a, b)| (ib(&a), ub(&b))), (q.clone(), r.clone()); n, d);
        check!(c, call(|| x.div_floor_uint_vartime(&y)).map(|a| ib(&a)), q; n, d);
        check!(c, call(|| x.normalized_rem_vartime(&y)).map(|a| ub(&a)), r; n, d);
    }
}

pub fn cases() -> Vec<Case> {
    let mut v = Vec::new();
    icases!(v, "checked_div_rem/checked_div/rem/CheckedDiv/DivVartime, operators / % /= %= (Int, Wrapping)", truncating_ct; 1, 2, 3, 4, 8, 16);
    icases!(v, "checked_div_rem_floor/checked_div_floor", flooring_ct; 1, 2, 3, 4, 8, 16);
    for (name, f) in [
        ("I64::checked_div_rem(_floor)_vartime/checked_div(_floor)_vartime/rem_vartime I64/I64", signed_vartime::<1, 1> as fn(&mut Ctx)),
        ("I128::checked_div_rem(_floor)_vartime/checked_div(_floor)_vartime/rem_vartime I128/I128", signed_vartime::<2, 2>),
        ("I192::checked_div_rem(_floor)_vartime/checked_div(_floor)_vartime/rem_vartime I192/I192", signed_vartime::<3, 3>),
        ("I256::checked_div_rem(_floor)_vartime/checked_div(_floor)_vartime/rem_vartime I256/I256", signed_vartime::<4, 4>),
        ("I512::checked_div_rem(_floor)_vartime/checked_div(_floor)_vartime/rem_vartime I512/I512", signed_vartime::<8, 8>),
        ("I128::checked_div_rem(_floor)_vartime/checked_div(_floor)_vartime/rem_vartime mixed I128/I64", signed_vartime::<2, 1>),
        ("I192::checked_div_rem(_floor)_vartime/checked_div(_floor)_vartime/rem_vartime mixed I192/I64", signed_vartime::<3, 1>),
        ("I256::checked_div_rem(_floor)_vartime/checked_div(_floor)_vartime/rem_vartime mixed I256/I128", signed_vartime::<4, 2>),
        ("I256::checked_div_rem(_floor)_vartime/checked_div(_floor)_vartime/rem_vartime mixed I256/I192", signed_vartime::<4, 3>),
        ("I64::checked_div_rem(_floor)_vartime/checked_div(_floor)_vartime/rem_vartime mixed I64/I128", signed_vartime::<1, 2>),
        ("I128::checked_div_rem(_floor)_vartime/checked_div(_floor)_vartime/rem_vartime mixed I128/I256", signed_vartime::<2, 4>),
        ("I512::checked_div_rem(_floor)_vartime/checked_div(_floor)_vartime/rem_vartime mixed I512/I256", signed_vartime::<8, 4>),
        ("I1024::checked_div_rem(_floor)_vartime/checked_div(_floor)_vartime/rem_vartime mixed I1024/I256", signed_vartime::<16, 4>),
    ] {
        v.push(Case::new(name, f));
    }
    icases!(v, "div_rem_uint/div_uint/rem_uint/div_rem_floor_uint/div_floor_uint/normalized_rem, operators by NonZero<Uint>", by_uint_ct; 1, 2, 3, 4, 8, 16);
    icases2!(v, "div_rem_uint_vartime/div_uint_vartime/rem_uint_vartime/div_rem_floor_uint_vartime/div_floor_uint_vartime/normalized_rem_vartime", by_uint_vartime;
        (1, 1), (2, 2), (3, 3), (4, 4), (8, 8), (2, 1), (3, 1), (4, 2), (4, 3), (1, 2), (2, 4), (8, 4), (16, 4));
    v
}
