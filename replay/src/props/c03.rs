//! C03 — multiplication and squaring return the exact product for all widths.
//!
//! Oracle: p = a * b (num-bigint). Split / widening forms return every limb of p (lo = p mod
//! 2^(64 L) in the width of the left operand, hi = p >> 64 L in the width of the right operand);
//! wrapping forms return p mod 2^BITS of the left operand; checked forms are some exactly when
//! p < 2^BITS of the left operand; saturating forms return MAX exactly then; the `*` / `*=`
//! operators panic exactly then (all four reference forms of `Uint * Uint` and `Limb * Limb` go
//! through `checked_mul(..).expect(..)`); `Wrapping` wraps, `Checked` is none exactly on overflow
//! and none is sticky. Squaring = the same with b = a.
//!
//! BoxedUint: `mul` / `square` / `WideningMul` are documented to return nlimbs(a) + nlimbs(b) limbs
//! (exact product); `wrapping_mul` wraps to the width of `self`; `CheckedMul` is some exactly when
//! the product fits the width of `self`. The boxed `*` / `*=` operators carry no documentation and
//! are not uniform in the crate (`&a * &b` is the checked form, the by-value forms and `*=` widen):
//! for them the case only requires what the statement says under either reading — a returned
//! value is the exact product (never a wrapped one), and a panic is only allowed when the product
//! does not fit the width of the left operand.

use super::prelude::*;
use crypto_bigint::{Checked, CheckedMul, Concat, ConcatMixed, WideningMul, Wrapping, WrappingMul};

fn wmask(limbs: usize) -> BigUint {
    mask(64 * limbs as u32)
}

// ---------------------------------------------------------------- corpus

/// One half of a Karatsuba operand (`l` limbs): sometimes itself built from ordered halves (the
/// next recursion level), otherwise an edge value or a structured random value.
fn half_base(c: &mut Ctx, l: usize) -> BigUint {
    if l >= 8 && l % 2 == 0 && c.below(3) == 0 {
        let r = c.below(10);
        return halves(c, l, r);
    }
    match c.below(8) {
        0 => BigUint::zero(),
        1 => wmask(l),
        2 => BigUint::one(),
        3 => pow2(c.below(64 * l) as u32),
        4 => wmask(l) - 1u32,
        _ => c.rnd(l),
    }
}

/// An `l`-limb value (l even) x = x0 + x1 * 2^(32 l) whose halves are in a chosen relation:
/// 0: x0 < x1, 1: x0 > x1, 2: x0 = x1, 3: x0 = 0, 4: x1 = 0, 5: x0 all ones, 6: x1 all ones,
/// 7: all ones, 8: x1 = x0 + 1, 9: x0 = x1 + 1.
fn halves(c: &mut Ctx, l: usize, rel: usize) -> BigUint {
    let h = l / 2;
    let m = wmask(h);
    let (u, v) = (half_base(c, h), half_base(c, h));
    let (mut lo, mut hi) = if u <= v { (u, v) } else { (v, u) };
    if lo == hi {
        if hi == m {
            lo -= 1u32;
        } else {
            hi += 1u32;
        }
    }
    // now lo < hi, hence hi >= 1
    let (x0, x1) = match rel {
        0 => (lo, hi),
        1 => (hi, lo),
        2 => (hi.clone(), hi),
        3 => (BigUint::zero(), hi),
        4 => (hi, BigUint::zero()),
        5 => (m, lo),
        6 => (lo, m),
        7 => (m.clone(), m),
        8 => (&hi - 1u32, hi),
        _ => (hi.clone(), &hi - 1u32),
    };
    x0 + (x1 << (64 * h))
}

/// A `limbs`-limb value whose low `size` limbs (size even, >= 2) are a [`halves`] pattern and whose
/// remaining ("trailing") limbs are zero, all ones or random.
fn kara_value(c: &mut Ctx, limbs: usize, size: usize, rel: usize) -> BigUint {
    let low = halves(c, size, rel);
    if limbs == size {
        return low;
    }
    let t = limbs - size;
    let trail = match c.below(4) {
        0 => BigUint::zero(),
        1 => wmask(t),
        2 => BigUint::one(),
        _ => c.rnd(t),
    };
    low + (trail << (64 * size))
}

/// Pairs for the Karatsuba paths: every relation of the halves of x against every relation of
/// the halves of y (this contains x0 < x1 / x0 > x1 / x0 = x1 against y1 < y0 / y1 > y0 / y1 = y0,
/// i.e. every sign combination of (x0 - x1)(y1 - y0), zero halves, all-ones halves), `reps` times.
fn kara_pairs(c: &mut Ctx, l1: usize, l2: usize, reps: usize) -> Vec<(BigUint, BigUint)> {
    let size = l1.min(l2) & !1;
    let mut v = Vec::new();
    if size < 2 {
        return v;
    }
    for _ in 0..reps {
        for rx in 0..10 {
            for ry in 0..10 {
                v.push((kara_value(c, l1, size, rx), kara_value(c, l2, size, ry)));
            }
        }
    }
    v
}

/// Multiplication corpus: generic pair corpus + Karatsuba half patterns + single bits, all-ones
/// prefixes + pairs on the overflow boundary of the left width (a*b = 2^BITS, 2^BITS - 1 region:
/// a = floor(MAX / b) and a + 1).
fn mul_inputs(c: &mut Ctx, l1: usize, l2: usize) -> Vec<(BigUint, BigUint)> {
    let mut v = c.inputs2(l1, l2);
    let (b1, b2) = (64 * l1 as u32, 64 * l2 as u32);
    let (m1, m2) = (wmask(l1), wmask(l2));
    let reps = if l1.min(l2) >= 8 { (c.iters / 500).max(1) } else { 1 };
    v.extend(kara_pairs(c, l1, l2, reps));
    // single bits / all-ones prefixes; 2^i * 2^j around i + j = BITS of the left operand
    for _ in 0..(32 + c.iters / 16) {
        let i = c.below(b1 as usize) as u32;
        let j = c.below(b2 as usize) as u32;
        v.push((pow2(i), pow2(j)));
        v.push((pow2(i), mask(j + 1)));
        v.push((mask(i + 1), mask(j + 1)));
        v.push((mask(i + 1), c.rnd(l2)));
        if b1 >= i && b1 - i < b2 {
            v.push((pow2(i), pow2(b1 - i)));
            v.push((pow2(i), pow2(b1 - i) - 1u32));
            v.push((mask(i + 1), pow2(b1 - i)));
            if b1 - i >= 1 {
                v.push((pow2(i), pow2(b1 - i - 1)));
                v.push((mask(i + 1), pow2(b1 - i - 1)));
            }
        }
    }
    // exact overflow boundary: q = floor(MAX1 / b): q*b fits, (q+1)*b does not
    for round in 0..(32 + c.iters / 16) {
        let b = match round % 4 {
            0 => BigUint::from(c.edgy_word()) & &m2,
            1 => c.rnd(l2),
            2 => pow2(c.below(b2 as usize) as u32) + 1u32,
            _ => c.rnd(l2) >> c.below(b2 as usize),
        } & &m2;
        if b.is_zero() {
            continue;
        }
        let q = &m1 / &b;
        v.push((q.clone(), b.clone()));
        if q < m1 {
            v.push((&q + 1u32, b.clone()));
        }
        if !q.is_zero() {
            v.push((&q - 1u32, b));
        }
    }
    v
}

/// Squaring corpus: generic unary corpus + Karatsuba half patterns + single bits + the
/// checked_square boundary floor(sqrt(MAX)) and neighbours.
fn sq_inputs(c: &mut Ctx, l: usize) -> Vec<BigUint> {
    let mut v = c.inputs1(l);
    let bits = 64 * l as u32;
    if l >= 2 {
        let reps = if l >= 8 { (c.iters / 100).max(2) } else { 2 };
        for _ in 0..reps {
            for r in 0..10 {
                v.push(kara_value(c, l, l & !1, r));
            }
        }
    }
    for k in 0..bits {
        if k % 7 == 0 || k + 2 >= bits / 2 && k <= bits / 2 + 1 || k + 1 == bits {
            v.push(pow2(k));
            v.push(mask(k + 1));
            v.push(pow2(k) + 1u32);
        }
    }
    let r = isqrt(&wmask(l));
    v.push(r.clone());
    v.push(&r + 1u32);
    v.push(&r - 1u32);
    v
}

fn budget_div(l: usize) -> usize {
    if l >= 128 {
        8
    } else if l >= 64 {
        4
    } else {
        1
    }
}

/// `check!` when the product fits, `must_panic!` when it does not.
macro_rules! panics_iff_overflow {
    ($c:expr, $fit:expr, $got:expr, $exp:expr; $($n:ident),*) => {
        if $fit {
            check!($c, $got, $exp; $($n),*);
        } else {
            must_panic!($c, $got; $($n),*);
        }
    };
}

// ---------------------------------------------------------------- Uint

fn split_mul<const L: usize, const R: usize>(c: &mut Ctx) {
    for (a, b) in c.scaled(budget_div(L.max(R)), |c| mul_inputs(c, L, R)) {
        if c.done() {
            return;
        }
        let (x, y) = (bu::<L>(&a), bu::<R>(&b));
        let p = &a * &b;
        let exp = (&p & wmask(L), &p >> (64 * L));
        check!(c, call(|| x.split_mul(&y)).map(|(lo, hi)| (ub(&lo), ub(&hi))), exp; a, b);
    }
}

fn wrapping_checked_saturating<const L: usize, const R: usize>(c: &mut Ctx) {
    for (a, b) in c.scaled(budget_div(L.max(R)), |c| mul_inputs(c, L, R)) {
        if c.done() {
            return;
        }
        let (x, y) = (bu::<L>(&a), bu::<R>(&b));
        let p = &a * &b;
        let fit = fits(&p, 64 * L as u32);
        let lo = &p & wmask(L);
        check!(c, call(|| x.wrapping_mul(&y)).map(|r| ub(&r)), lo.clone(); a, b);
        check!(c, call(|| x.saturating_mul(&y)).map(|r| ub(&r)), if fit { p.clone() } else { wmask(L) }; a, b);
        let exp = if fit { Some(p.clone()) } else { None };
        check!(c, call(|| opt(CheckedMul::checked_mul(&x, &y))).map(|r| r.map(|r| ub(&r))), exp; a, b);
    }
}

fn wrapping_mul_trait<const L: usize>(c: &mut Ctx) {
    for (a, b) in mul_inputs(c, L, L) {
        if c.done() {
            return;
        }
        let (x, y) = (bu::<L>(&a), bu::<L>(&b));
        let lo = (&a * &b) & wmask(L);
        check!(c, call(|| WrappingMul::wrapping_mul(&x, &y)).map(|r| ub(&r)), lo; a, b);
    }
}

fn widening<const L: usize, const R: usize, const W: usize>(c: &mut Ctx)
where
    Uint<L>: ConcatMixed<Uint<R>, MixedOutput = Uint<W>>,
{
    for (a, b) in c.scaled(budget_div(L.max(R)), |c| mul_inputs(c, L, R)) {
        if c.done() {
            return;
        }
        let (x, y) = (bu::<L>(&a), bu::<R>(&b));
        let p = &a * &b;
        check!(c, call(|| x.widening_mul(&y)).map(|r| ub(&r)), p.clone(); a, b);
        check!(c, call(|| WideningMul::widening_mul(&x, y)).map(|r| ub(&r)), p.clone(); a, b);
        check!(c, call(|| WideningMul::widening_mul(&x, &y)).map(|r| ub(&r)), p; a, b);
    }
}

fn operators<const L: usize, const R: usize>(c: &mut Ctx) {
    for (a, b) in mul_inputs(c, L, R) {
        if c.done() {
            return;
        }
        let (x, y) = (bu::<L>(&a), bu::<R>(&b));
        let p = &a * &b;
        let fit = fits(&p, 64 * L as u32);
        panics_iff_overflow!(c, fit, call(|| x * y).map(|r| ub(&r)), p.clone(); a, b);
        panics_iff_overflow!(c, fit, call(|| x * &y).map(|r| ub(&r)), p.clone(); a, b);
        panics_iff_overflow!(c, fit, call(|| &x * y).map(|r| ub(&r)), p.clone(); a, b);
        panics_iff_overflow!(c, fit, call(|| &x * &y).map(|r| ub(&r)), p.clone(); a, b);
        panics_iff_overflow!(c, fit, call(|| { let mut t = x; t *= y; t }).map(|r| ub(&r)), p.clone(); a, b);
        panics_iff_overflow!(c, fit, call(|| { let mut t = x; t *= &y; t }).map(|r| ub(&r)), p.clone(); a, b);
    }
}

fn wrapping_wrapper<const L: usize>(c: &mut Ctx) {
    for (a, b) in mul_inputs(c, L, L) {
        if c.done() {
            return;
        }
        let (x, y) = (Wrapping(bu::<L>(&a)), Wrapping(bu::<L>(&b)));
        let lo = (&a * &b) & wmask(L);
        check!(c, call(|| x * y).map(|r| ub(&r.0)), lo.clone(); a, b);
        check!(c, call(|| x * &y).map(|r| ub(&r.0)), lo.clone(); a, b);
        check!(c, call(|| &x * y).map(|r| ub(&r.0)), lo.clone(); a, b);
        check!(c, call(|| &x * &y).map(|r| ub(&r.0)), lo.clone(); a, b);
        check!(c, call(|| { let mut t = x; t *= y; t }).map(|r| ub(&r.0)), lo.clone(); a, b);
        check!(c, call(|| { let mut t = x; t *= &y; t }).map(|r| ub(&r.0)), lo; a, b);
    }
}

fn checked_wrapper<const L: usize>(c: &mut Ctx) {
    let ob = |r: Checked<Uint<L>>| opt(r.0).map(|r| ub(&r));
    for (a, b) in mul_inputs(c, L, L) {
        if c.done() {
            return;
        }
        let (x, y) = (Checked::new(bu::<L>(&a)), Checked::new(bu::<L>(&b)));
        let p = &a * &b;
        let exp = if fits(&p, 64 * L as u32) { Some(p) } else { None };
        check!(c, call(|| x * y).map(ob), exp.clone(); a, b);
        check!(c, call(|| x * &y).map(ob), exp.clone(); a, b);
        check!(c, call(|| &x * y).map(ob), exp.clone(); a, b);
        check!(c, call(|| &x * &y).map(ob), exp.clone(); a, b);
        check!(c, call(|| { let mut t = x; t *= y; t }).map(ob), exp.clone(); a, b);
        check!(c, call(|| { let mut t = x; t *= &y; t }).map(ob), exp; a, b);
        // none is sticky, whatever the other operand
        let none = Checked(CtOption::new(bu::<L>(&a), Choice::from(0)));
        let e: Option<BigUint> = None;
        check!(c, call(|| none * y).map(ob), e.clone(); a, b);
        check!(c, call(|| y * none).map(ob), e.clone(); a, b);
        check!(c, call(|| { let mut t = none; t *= y; t }).map(ob), e.clone(); a, b);
        check!(c, call(|| { let mut t = y; t *= &none; t }).map(ob), e; a, b);
    }
}

fn square_forms<const L: usize>(c: &mut Ctx) {
    for a in c.scaled(budget_div(L), |c| sq_inputs(c, L)) {
        if c.done() {
            return;
        }
        let x = bu::<L>(&a);
        let p = &a * &a;
        let fit = fits(&p, 64 * L as u32);
        let lo = &p & wmask(L);
        check!(c, call(|| x.square_wide()).map(|(lo, hi)| (ub(&lo), ub(&hi))), (lo.clone(), &p >> (64 * L)); a);
        check!(c, call(|| x.wrapping_square()).map(|r| ub(&r)), lo; a);
        check!(c, call(|| copt(x.checked_square())).map(|r| r.map(|r| ub(&r))), if fit { Some(p.clone()) } else { None }; a);
        check!(c, call(|| x.saturating_square()).map(|r| ub(&r)), if fit { p } else { wmask(L) }; a);
    }
}

fn square_concat<const L: usize, const W: usize>(c: &mut Ctx)
where
    Uint<L>: Concat<Output = Uint<W>> + ConcatMixed<Uint<L>, MixedOutput = Uint<W>>,
{
    for a in c.scaled(budget_div(L), |c| sq_inputs(c, L)) {
        if c.done() {
            return;
        }
        let x = bu::<L>(&a);
        let p = &a * &a;
        check!(c, call(|| x.square()).map(|r| ub(&r)), p.clone(); a);
        check!(c, call(|| x.widening_square()).map(|r| ub(&r)), p; a);
    }
}

/// "Squaring always equals multiplying the value by itself" on the crate's own routes (route
/// equality; both sides are also checked against the oracle by the other cases).
fn square_is_self_mul<const L: usize>(c: &mut Ctx) {
    for a in c.scaled(budget_div(L), |c| sq_inputs(c, L)) {
        if c.done() {
            return;
        }
        let x = bu::<L>(&a);
        let got = call(|| x.square_wide() == x.split_mul(&x));
        check!(c, got, true; a);
    }
}

// ---------------------------------------------------------------- BoxedUint

/// exact value and limb count
fn shape(r: &BoxedUint) -> (BigUint, usize) {
    (xb(r), r.nlimbs())
}

/// For the undocumented boxed operators: a panic is accepted only when the product does not fit
/// the width of the left operand; a returned value must be the exact product.
fn lenient(got: Result<BigUint, String>, p: &BigUint, bits: u32) -> Result<BigUint, String> {
    match got {
        Err(_) if !fits(p, bits) => Ok(p.clone()),
        other => other,
    }
}

fn boxed_all_forms(c: &mut Ctx, a: &BigUint, b: &BigUint, nl: usize, rl: usize, operators: bool) {
    let (a, b) = (a.clone(), b.clone());
    let (x, y) = (bx(&a, nl), bx(&b, rl));
    let p = &a * &b;
    let bits = 64 * nl as u32;
    let fit = fits(&p, bits);
    check!(c, call(|| x.mul(&y)).map(|r| shape(&r)), (p.clone(), nl + rl); a, b, nl, rl);
    check!(c, call(|| x.wrapping_mul(&y)).map(|r| shape(&r)), (&p & wmask(nl), nl); a, b, nl, rl);
    let exp = if fit { Some((p.clone(), nl)) } else { None };
    check!(c, call(|| opt(x.checked_mul(&y))).map(|r| r.map(|r| shape(&r))), exp; a, b, nl, rl);
    if !operators {
        return;
    }
    check!(c, call(|| WideningMul::widening_mul(&x, &y)).map(|r| shape(&r)), (p.clone(), nl + rl); a, b, nl, rl);
    check!(c, call(|| WideningMul::widening_mul(&x, y.clone())).map(|r| shape(&r)), (p.clone(), nl + rl); a, b, nl, rl);
    check!(c, call(|| WrappingMul::wrapping_mul(&x, &y)).map(|r| shape(&r)), (&p & wmask(nl), nl); a, b, nl, rl);
    // `&a * &b` is `checked_mul(..).expect("attempted to multiply with overflow")`
    panics_iff_overflow!(c, fit, call(|| &x * &y).map(|r| xb(&r)), p.clone(); a, b, nl, rl);
    check!(c, lenient(call(|| x.clone() * y.clone()).map(|r| xb(&r)), &p, bits), p.clone(); a, b, nl, rl);
    check!(c, lenient(call(|| x.clone() * &y).map(|r| xb(&r)), &p, bits), p.clone(); a, b, nl, rl);
    check!(c, lenient(call(|| &x * y.clone()).map(|r| xb(&r)), &p, bits), p.clone(); a, b, nl, rl);
    check!(c, lenient(call(|| { let mut t = x.clone(); t *= y.clone(); t }).map(|r| xb(&r)), &p, bits), p.clone(); a, b, nl, rl);
    check!(c, lenient(call(|| { let mut t = x.clone(); t *= &y; t }).map(|r| xb(&r)), &p, bits), p.clone(); a, b, nl, rl);
    // Wrapping<BoxedUint>: wraps to the width of the left operand
    let (wx, wy) = (Wrapping(x.clone()), Wrapping(y.clone()));
    let lo = &p & wmask(nl);
    check!(c, call(|| &wx * &wy).map(|r| shape(&r.0)), (lo.clone(), nl); a, b, nl, rl);
    check!(c, call(|| wx.clone() * &wy).map(|r| shape(&r.0)), (lo.clone(), nl); a, b, nl, rl);
    check!(c, call(|| &wx * wy.clone()).map(|r| shape(&r.0)), (lo.clone(), nl); a, b, nl, rl);
    check!(c, call(|| wx.clone() * wy.clone()).map(|r| shape(&r.0)), (lo.clone(), nl); a, b, nl, rl);
    check!(c, call(|| { let mut t = wx.clone(); t *= wy.clone(); t }).map(|r| shape(&r.0)), (lo.clone(), nl); a, b, nl, rl);
    check!(c, call(|| { let mut t = wx.clone(); t *= &wy; t }).map(|r| shape(&r.0)), (lo, nl); a, b, nl, rl);
}

fn boxed_small(c: &mut Ctx) {
    for nl in 1..=4usize {
        for rl in 1..=4usize {
            for (a, b) in c.scaled(8, |c| mul_inputs(c, nl, rl)) {
                if c.done() {
                    return;
                }
                boxed_all_forms(c, &a, &b, nl, rl, true);
            }
        }
    }
}

fn boxed_square_small(c: &mut Ctx) {
    for nl in 1..=6usize {
        for a in c.scaled(4, |c| sq_inputs(c, nl)) {
            if c.done() {
                return;
            }
            let x = bx(&a, nl);
            check!(c, call(|| x.square()).map(|r| shape(&r)), (&a * &a, 2 * nl); a, nl);
        }
    }
}

/// Boxed multiplication over a list of (lhs limbs, rhs limbs) shapes: Karatsuba half patterns with
/// zero / all-ones / random trailing limbs, random values, all ones, top bits, a product that fits.
fn boxed_shapes(c: &mut Ctx, shapes: &[(usize, usize)], extra: &[(BigUint, BigUint, usize, usize)]) {
    for (a, b, nl, rl) in extra {
        boxed_all_forms(c, a, b, *nl, *rl, true);
    }
    let reps = (c.iters / 1000).max(1);
    for &(nl, rl) in shapes {
        let mut v = kara_pairs(c, nl, rl, reps);
        for _ in 0..(c.iters / 100).max(4) {
            v.push((c.rnd(nl), c.rnd(rl)));
        }
        v.push((wmask(nl), wmask(rl)));
        v.push((wmask(nl), BigUint::one()));
        v.push((BigUint::zero(), wmask(rl)));
        v.push((pow2(64 * nl as u32 - 1), pow2(64 * rl as u32 - 1)));
        // top limbs all ones, rest zero (long carry chains in the trailing-limb rows)
        v.push((wmask(3.min(nl)) << (64 * (nl - 3.min(nl))), wmask(3.min(rl)) << (64 * (rl - 3.min(rl)))));
        // small enough to fit the left width: exercises the some-branch of checked_mul
        v.push((c.rnd(nl) >> (64 * nl / 2), c.rnd(rl) >> (64 * rl - 64 * nl.min(rl) / 2)));
        for (i, (a, b)) in v.into_iter().enumerate() {
            if c.done() {
                return;
            }
            boxed_all_forms(c, &a, &b, nl, rl, i % 16 == 0);
        }
    }
}

/// Sizes around the boxed Karatsuba entry (min(len) >= 32), its reduction limit (24 limbs per
/// half-product, odd overlaps are rounded down and handled as trailing limbs) and unequal lengths.
/// The shapes "lhs odd >= 33 limbs, rhs longer" are in [`boxed_large_both_trailing`].
fn boxed_large(c: &mut Ctx) {
    let shapes = [
        (5, 7), (8, 8), (12, 9), (16, 16), (17, 16), (24, 25), (31, 32), (32, 31), (32, 32), (32, 33), (33, 32), (33, 33),
        (32, 40), (40, 33), (32, 64), (64, 32), (48, 49), (49, 49), (50, 50), (52, 52), (64, 63), (64, 64), (65, 64), (65, 65),
        (64, 100), (96, 97), (100, 100), (101, 99), (128, 128), (140, 33), (140, 140),
    ];
    boxed_shapes(c, &shapes, &[]);
}

/// Left operand with an odd number (>= 33) of limbs and a longer right operand: the only shapes in
/// which `karatsuba_mul_limbs` has trailing limbs on both sides with more than one trailing row on
/// the right (xt = 1 limb, yt >= 2 limbs). First input: the smallest witness found for the lost
/// carry in `adc_mul_limbs` (a = (2^192 - 1) * 2^1920 in 33 limbs, b = (2^192 - 1) * 2^1984 in 34 limbs).
fn boxed_large_both_trailing(c: &mut Ctx) {
    let w = (wmask(3) << (64 * 30), wmask(3) << (64 * 31), 33, 34);
    boxed_shapes(c, &[(33, 34), (33, 40), (35, 37), (63, 64), (49, 140), (139, 140)], &[w]);
}

/// Boxed squaring across its Karatsuba entry (>= 64 limbs; halves <= 48 limbs or odd are schoolbook).
fn boxed_square_large(c: &mut Ctx) {
    let sizes: [usize; 20] = [7, 16, 31, 32, 33, 47, 48, 49, 63, 64, 65, 96, 97, 98, 100, 104, 128, 130, 139, 140];
    let reps = (c.iters / 400).max(1);
    for nl in sizes {
        let mut v = Vec::new();
        for _ in 0..reps {
            for r in 0..10 {
                v.push(kara_value(c, nl, nl & !1, r));
            }
        }
        for _ in 0..(c.iters / 100).max(4) {
            v.push(c.rnd(nl));
        }
        v.push(wmask(nl));
        v.push(pow2(64 * nl as u32 - 1));
        v.push(pow2(32 * nl as u32));
        v.push(BigUint::zero());
        for a in v {
            if c.done() {
                return;
            }
            let x = bx(&a, nl);
            check!(c, call(|| x.square()).map(|r| shape(&r)), (&a * &a, 2 * nl); a, nl);
        }
    }
}

// ---------------------------------------------------------------- Limb

fn limb_words(c: &mut Ctx) -> Vec<u64> {
    let mut w: Vec<u64> = crate::generate::ALPHA.to_vec();
    w.extend([3, u32::MAX as u64, (1 << 32) + 1, (1 << 32) - 1, u64::MAX - 2]);
    w.push(c.word());
    w.push(c.word() | 1 << 63);
    w
}

fn limb_mac(c: &mut Ctx) {
    let w = limb_words(c);
    let mut v = Vec::new();
    for &a in &w {
        for &b in &w {
            for &m in &w {
                for &k in &w {
                    v.push((a, b, m, k));
                }
            }
        }
    }
    for _ in 0..c.iters {
        v.push((c.edgy_word(), c.edgy_word(), c.edgy_word(), c.edgy_word()));
    }
    for (a, b, m, k) in v {
        if c.done() {
            return;
        }
        let (ba, bb, bm, bk) = (BigUint::from(a), BigUint::from(b), BigUint::from(m), BigUint::from(k));
        // a + b*m + carry <= 2^128 - 1: (lo, hi) are its two words
        let t = &ba + &bb * &bm + &bk;
        let exp = (&t & mask(64), &t >> 64);
        check!(c, call(|| Limb(a).mac(Limb(b), Limb(m), Limb(k))).map(|(lo, hi)| (lb(lo), lb(hi))), exp; ba, bb, bm, bk);
    }
}

fn limb_pairs(c: &mut Ctx) -> Vec<(u64, u64)> {
    let w = limb_words(c);
    let mut v = Vec::new();
    for &a in &w {
        for &b in &w {
            v.push((a, b));
        }
    }
    for _ in 0..c.iters {
        let a = c.edgy_word();
        v.push((a, c.edgy_word()));
        if a != 0 {
            // overflow boundary
            v.push((a, u64::MAX / a));
            v.push((a, (u64::MAX / a).wrapping_add(1)));
        }
        v.push((a >> 32, c.word() >> 32));
        v.push((1 << c.below(64), 1 << c.below(64)));
    }
    v
}

fn limb_forms(c: &mut Ctx) {
    for (a, b) in limb_pairs(c) {
        if c.done() {
            return;
        }
        let (x, y) = (Limb(a), Limb(b));
        let (a, b) = (BigUint::from(a), BigUint::from(b));
        let p = &a * &b;
        let fit = fits(&p, 64);
        let lo = &p & mask(64);
        check!(c, call(|| x.wrapping_mul(y)).map(lb), lo.clone(); a, b);
        check!(c, call(|| WrappingMul::wrapping_mul(&x, &y)).map(lb), lo.clone(); a, b);
        check!(c, call(|| x.saturating_mul(y)).map(lb), if fit { p.clone() } else { mask(64) }; a, b);
        let exp = if fit { Some(p.clone()) } else { None };
        check!(c, call(|| opt(x.checked_mul(&y))).map(|r| r.map(lb)), exp.clone(); a, b);
        panics_iff_overflow!(c, fit, call(|| x * y).map(lb), p.clone(); a, b);
        panics_iff_overflow!(c, fit, call(|| x * &y).map(lb), p.clone(); a, b);
        panics_iff_overflow!(c, fit, call(|| &x * y).map(lb), p.clone(); a, b);
        panics_iff_overflow!(c, fit, call(|| &x * &y).map(lb), p.clone(); a, b);
        let (wx, wy) = (Wrapping(x), Wrapping(y));
        check!(c, call(|| wx * wy).map(|r| lb(r.0)), lo.clone(); a, b);
        check!(c, call(|| wx * &wy).map(|r| lb(r.0)), lo.clone(); a, b);
        check!(c, call(|| &wx * wy).map(|r| lb(r.0)), lo.clone(); a, b);
        check!(c, call(|| &wx * &wy).map(|r| lb(r.0)), lo.clone(); a, b);
        check!(c, call(|| { let mut t = wx; t *= wy; t }).map(|r| lb(r.0)), lo.clone(); a, b);
        check!(c, call(|| { let mut t = wx; t *= &wy; t }).map(|r| lb(r.0)), lo; a, b);
        let ob = |r: Checked<Limb>| opt(r.0).map(lb);
        let (cx, cy) = (Checked::new(x), Checked::new(y));
        check!(c, call(|| cx * cy).map(ob), exp.clone(); a, b);
        check!(c, call(|| cx * &cy).map(ob), exp.clone(); a, b);
        check!(c, call(|| &cx * cy).map(ob), exp.clone(); a, b);
        check!(c, call(|| &cx * &cy).map(ob), exp.clone(); a, b);
        check!(c, call(|| { let mut t = cx; t *= cy; t }).map(ob), exp.clone(); a, b);
        check!(c, call(|| { let mut t = cx; t *= &cy; t }).map(ob), exp; a, b);
        let none = Checked(CtOption::new(x, Choice::from(0)));
        let e: Option<BigUint> = None;
        check!(c, call(|| none * cy).map(ob), e.clone(); a, b);
        check!(c, call(|| cy * none).map(ob), e; a, b);
    }
}

pub fn cases() -> Vec<Case> {
    let mut v = Vec::new();
    ucases2!(v, "split_mul", split_mul;
        (1, 1), (2, 2), (3, 3), (4, 4), (5, 5), (6, 6), (7, 7), (8, 8), (9, 9), (10, 10), (11, 11), (12, 12), (16, 16), (32, 32), (64, 64), (128, 128),
        (1, 2), (2, 1), (1, 3), (3, 1), (2, 3), (3, 2), (1, 4), (4, 1), (2, 4), (4, 2), (3, 4), (4, 3), (4, 16), (16, 4), (15, 16), (16, 15),
        (16, 17), (17, 16), (16, 32), (32, 16), (32, 33), (31, 32), (64, 32), (32, 64));
    ucases2!(v, "wrapping_mul/saturating_mul/CheckedMul", wrapping_checked_saturating;
        (1, 1), (2, 2), (3, 3), (4, 4), (6, 6), (8, 8), (12, 12), (16, 16), (32, 32), (64, 64),
        (1, 2), (2, 1), (3, 1), (1, 4), (4, 2), (2, 4), (4, 3), (4, 16), (16, 4), (16, 32), (32, 16));
    ucases!(v, "WrappingMul::wrapping_mul", wrapping_mul_trait; 1, 2, 3, 4, 16, 32);
    case!(v, "U64::widening_mul/WideningMul U64*U64->U128", widening::<1, 1, 2>);
    case!(v, "U128::widening_mul/WideningMul U128*U128->U256", widening::<2, 2, 4>);
    case!(v, "U192::widening_mul/WideningMul U192*U192->U384", widening::<3, 3, 6>);
    case!(v, "U256::widening_mul/WideningMul U256*U256->U512", widening::<4, 4, 8>);
    case!(v, "U384::widening_mul/WideningMul U384*U384->U768", widening::<6, 6, 12>);
    case!(v, "U512::widening_mul/WideningMul U512*U512->U1024", widening::<8, 8, 16>);
    case!(v, "U1024::widening_mul/WideningMul U1024*U1024->U2048", widening::<16, 16, 32>);
    case!(v, "U2048::widening_mul/WideningMul U2048*U2048->U4096", widening::<32, 32, 64>);
    case!(v, "U4096::widening_mul/WideningMul U4096*U4096->U8192", widening::<64, 64, 128>);
    case!(v, "U8192::widening_mul/WideningMul U8192*U8192->U16384", widening::<128, 128, 256>);
    case!(v, "U64::widening_mul/WideningMul U64*U128->U192", widening::<1, 2, 3>);
    case!(v, "U128::widening_mul/WideningMul U128*U64->U192", widening::<2, 1, 3>);
    case!(v, "U64::widening_mul/WideningMul U64*U192->U256", widening::<1, 3, 4>);
    case!(v, "U192::widening_mul/WideningMul U192*U64->U256", widening::<3, 1, 4>);
    case!(v, "U256::widening_mul/WideningMul U256*U64->U320", widening::<4, 1, 5>);
    case!(v, "U128::widening_mul/WideningMul U128*U192->U320", widening::<2, 3, 5>);
    case!(v, "U256::widening_mul/WideningMul U256*U128->U384", widening::<4, 2, 6>);
    case!(v, "U192::widening_mul/WideningMul U192*U320->U512", widening::<3, 5, 8>);
    case!(v, "U768::widening_mul/WideningMul U768*U256->U1024", widening::<12, 4, 16>);
    case!(v, "U256::widening_mul/WideningMul U256*U768->U1024", widening::<4, 12, 16>);
    case!(v, "U960::widening_mul/WideningMul U960*U64->U1024", widening::<15, 1, 16>);
    case!(v, "U64::widening_mul/WideningMul U64*U960->U1024", widening::<1, 15, 16>);
    ucases2!(v, "operators * *=", operators;
        (1, 1), (2, 2), (3, 3), (4, 4), (16, 16), (32, 32), (1, 2), (2, 1), (4, 1), (1, 4), (4, 3), (3, 4), (16, 4), (4, 16));
    ucases!(v, "Wrapping<Uint> * *=", wrapping_wrapper; 1, 2, 3, 4, 16, 32);
    ucases!(v, "Checked<Uint> * *= (sticky none)", checked_wrapper; 1, 2, 3, 4, 16, 32);
    ucases!(v, "square_wide/wrapping_square/checked_square/saturating_square", square_forms; 1, 2, 3, 4, 5, 6, 7, 8, 9, 10, 11, 12, 16, 32, 64, 128);
    case!(v, "U64::square/widening_square ->U128", square_concat::<1, 2>);
    case!(v, "U128::square/widening_square ->U256", square_concat::<2, 4>);
    case!(v, "U192::square/widening_square ->U384", square_concat::<3, 6>);
    case!(v, "U256::square/widening_square ->U512", square_concat::<4, 8>);
    case!(v, "U512::square/widening_square ->U1024", square_concat::<8, 16>);
    case!(v, "U1024::square/widening_square ->U2048", square_concat::<16, 32>);
    case!(v, "U2048::square/widening_square ->U4096", square_concat::<32, 64>);
    case!(v, "U4096::square/widening_square ->U8192", square_concat::<64, 128>);
    case!(v, "U8192::square/widening_square ->U16384", square_concat::<128, 256>);
    ucases!(v, "square_wide == split_mul(self, self)", square_is_self_mul; 1, 2, 3, 4, 16, 32, 64, 128);
    case!(v, "BoxedUint::mul/wrapping_mul/CheckedMul/WideningMul/WrappingMul/operators/Wrapping 1..=4 x 1..=4 limbs", boxed_small);
    case!(v, "BoxedUint::square 1..=6 limbs", boxed_square_small);
    case!(v, "BoxedUint::mul/wrapping_mul/CheckedMul/operators around the Karatsuba thresholds (5..140 limbs, unequal)", boxed_large);
    case!(v, "BoxedUint::mul/wrapping_mul/CheckedMul/operators lhs odd >= 33 limbs and rhs longer (trailing limbs on both sides)", boxed_large_both_trailing);
    case!(v, "BoxedUint::square around the Karatsuba thresholds (7..140 limbs)", boxed_square_large);
    case!(v, "Limb::mac", limb_mac);
    case!(v, "Limb::wrapping_mul/saturating_mul/CheckedMul/WrappingMul/operators/Wrapping/Checked", limb_forms);
    v
}
