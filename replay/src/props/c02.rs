//! C02 — unsigned division and remainder are exact for every dividend and divisor.
//!
//! Oracle: q = floor(n/d), r = n - q*d (num-bigint), in the documented result width. Checked
//! forms: none exactly when d = 0. rem2k: n mod 2^k for every k.

use super::prelude::*;
use crypto_bigint::{Checked, CheckedDiv, DivRemLimb, DivVartime, Reciprocal, RemLimb, RemMixed, Wrapping};

/// Division corpus: the generic pair corpus plus pairs relevant to the property — n = q*d,
/// q*d +- 1, q*d + d - 1, divisors whose bit length is a multiple of the limb size, normalised
/// top limb MAX / 2^63, second limb 0 / MAX, d = 2^k, single-limb d inside a wide type, n < d.
/// Pairs with d = 0 are included (cases skip them or use them for the checked forms).
pub fn div_inputs(c: &mut Ctx, nl: usize, dl: usize) -> Vec<(BigUint, BigUint)> {
    let mut v = c.inputs2(nl, dl);
    let nmax = mask(64 * nl as u32);
    let dmax = mask(64 * dl as u32);
    let rounds = 48 + c.iters / 4;
    for round in 0..rounds {
        // a divisor with a chosen number of significant limbs and chosen top limbs
        let k = 1 + c.below(dl);
        let mut w: Vec<u64> = (0..k).map(|_| c.edgy_word()).collect();
        w[k - 1] = match round % 6 {
            0 => u64::MAX,
            1 => 1 << 63,
            2 => 1,
            3 => (1 << 63) + 1,
            4 => u64::MAX - 1,
            _ => c.word() | 1,
        };
        if k >= 2 {
            match (round / 6) % 4 {
                0 => w[k - 2] = 0,
                1 => w[k - 2] = u64::MAX,
                2 => w[k - 2] = 1,
                _ => {}
            }
        }
        let d = words_to_big(&w);
        if d.is_zero() {
            continue;
        }
        let qmax = &nmax / &d;
        let q = match round % 5 {
            0 => qmax.clone(),
            1 => c.rnd_below(&(&qmax + 1u32)),
            2 => c.rnd(nl) % (&qmax + 1u32),
            3 => (c.rnd(nl) % (&qmax + 1u32)) | BigUint::one(),
            _ => BigUint::from(c.edgy_word()) % (&qmax + 1u32),
        };
        let qd = &q * &d;
        let mut cand = vec![qd.clone(), &qd + 1u32, &qd + &d - 1u32, &qd + (&d >> 1)];
        if !qd.is_zero() {
            cand.push(&qd - 1u32);
        }
        for n in cand {
            if n <= nmax {
                v.push((n, d.clone()));
            }
        }
    }
    // powers of two and their neighbours as divisors
    for k in 0..64 * dl as u32 {
        let n = if k % 2 == 0 { nmax.clone() } else { c.rnd(nl) };
        v.push((n.clone(), pow2(k)));
        if k % 8 == 0 {
            v.push((n.clone(), (pow2(k) + 1u32) & &dmax));
            if k > 0 {
                v.push((n, pow2(k) - 1u32));
            }
        }
    }
    // the classic add-back shapes (Knuth 4.3.1: u = [0, 0, B/2, B/2-1], v = [1, 0, B/2] in base B
    // = 2^64, little-endian), at every whole-limb offset and with small perturbations
    if nl >= 4 && dl >= 3 {
        let h = 1u64 << 63;
        let us = [[0u64, 0, h, h - 1], [0, 0, h, h], [u64::MAX, u64::MAX, h, h - 1], [0, 1, h, h - 1], [0, 0, 0, h]];
        let ds = [[1u64, 0, h], [u64::MAX, 0, h], [1, 0, h + 1], [1, 1, h], [0, 1, h], [u64::MAX, u64::MAX, h]];
        for u in &us {
            for dw in &ds {
                for s in 0..=(nl - 4).min(3) {
                    for ds_ in 0..=(dl - 3).min(s) {
                        let n = words_to_big(u) << (64 * s);
                        let d = words_to_big(dw) << (64 * ds_);
                        v.push((n.clone(), d.clone()));
                        v.push(((&n + &d - 1u32) & &nmax, d));
                    }
                }
            }
        }
    }
    v
}

fn oracle(n: &BigUint, d: &BigUint) -> (BigUint, BigUint) {
    (n / d, n % d)
}

// ---------------------------------------------------------------- Uint, same width

fn div_rem<const L: usize>(c: &mut Ctx) {
    for (n, d) in div_inputs(c, L, L) {
        if c.done() {
            return;
        }
        if d.is_zero() {
            continue;
        }
        let (x, y) = (bu::<L>(&n), nzu::<L>(&d));
        let got = call(|| x.div_rem(&y)).map(|(q, r)| (ub(&q), ub(&r)));
        check!(c, got, oracle(&n, &d); n, d);
    }
}

fn div_rem_vartime<const L: usize>(c: &mut Ctx) {
    for (n, d) in div_inputs(c, L, L) {
        if c.done() {
            return;
        }
        if d.is_zero() {
            continue;
        }
        let (x, y) = (bu::<L>(&n), nzu::<L>(&d));
        let got = call(|| x.div_rem_vartime(&y)).map(|(q, r)| (ub(&q), ub(&r)));
        check!(c, got, oracle(&n, &d); n, d);
    }
}

fn div_rem_vartime_mixed<const L: usize, const R: usize>(c: &mut Ctx) {
    for (n, d) in div_inputs(c, L, R) {
        if c.done() {
            return;
        }
        if d.is_zero() {
            continue;
        }
        let (x, y) = (bu::<L>(&n), nzu::<R>(&d));
        let got = call(|| x.div_rem_vartime(&y)).map(|(q, r)| (ub(&q), ub(&r)));
        check!(c, got, oracle(&n, &d); n, d);
        let got = call(|| x.wrapping_div_vartime(&y)).map(|q| ub(&q));
        check!(c, got, &n / &d; n, d);
    }
}

fn rem_forms<const L: usize>(c: &mut Ctx) {
    for (n, d) in div_inputs(c, L, L) {
        if c.done() {
            return;
        }
        if d.is_zero() {
            continue;
        }
        let (x, y) = (bu::<L>(&n), nzu::<L>(&d));
        let exp = &n % &d;
        check!(c, call(|| x.rem(&y)).map(|r| ub(&r)), exp.clone(); n, d);
        check!(c, call(|| x.rem_vartime(&y)).map(|r| ub(&r)), exp.clone(); n, d);
        check!(c, call(|| x.wrapping_rem_vartime(y.as_ref())).map(|r| ub(&r)), exp.clone(); n, d);
    }
}

fn wrapping_checked<const L: usize>(c: &mut Ctx) {
    for (n, d) in div_inputs(c, L, L) {
        if c.done() {
            return;
        }
        let (x, yv) = (bu::<L>(&n), bu::<L>(&d));
        // Checked<Uint> division: none exactly when d = 0 (and sticky none)
        {
            let exp = if d.is_zero() { None } else { Some(&n / &d) };
            let (cx, cy) = (Checked::new(x), Checked::new(yv));
            let un = |v: Checked<Uint<L>>| opt(v.0).map(|v| ub(&v));
            check!(c, call(|| cx / cy).map(un), exp.clone(); n, d);
            check!(c, call(|| &cx / &cy).map(un), exp.clone(); n, d);
            check!(c, call(|| cx / &cy).map(un), exp.clone(); n, d);
            check!(c, call(|| &cx / cy).map(un), exp; n, d);
            let none: Option<BigUint> = None;
            let cn: Checked<Uint<L>> = Checked(CtOption::new(x, Choice::from(0)));
            check!(c, call(|| cn / cy).map(un), none.clone(); n, d);
            check!(c, call(|| cx / cn).map(un), none; n, d);
        }
        if d.is_zero() {
            let none: Option<BigUint> = None;
            check!(c, call(|| opt(x.checked_div(&yv))).map(|q| q.map(|q| ub(&q))), none.clone(); n, d);
            check!(c, call(|| opt(x.checked_rem(&yv))).map(|q| q.map(|q| ub(&q))), none.clone(); n, d);
            check!(c, call(|| opt(CheckedDiv::checked_div(&x, &yv))).map(|q| q.map(|q| ub(&q))), none; n, d);
            // documented: panics if rhs == 0
            must_panic!(c, call(|| x.wrapping_rem_vartime(&yv)).map(|r| ub(&r)); n, d);
            must_panic!(c, call(|| x / yv).map(|r| ub(&r)); n, d);
            must_panic!(c, call(|| x % yv).map(|r| ub(&r)); n, d);
            continue;
        }
        let y = nzu::<L>(&d);
        let (q, r) = oracle(&n, &d);
        check!(c, call(|| x.wrapping_div(&y)).map(|v| ub(&v)), q.clone(); n, d);
        check!(c, call(|| x.wrapping_div_vartime(&y)).map(|v| ub(&v)), q.clone(); n, d);
        check!(c, call(|| opt(x.checked_div(&yv))).map(|v| v.map(|v| ub(&v))), Some(q.clone()); n, d);
        check!(c, call(|| opt(CheckedDiv::checked_div(&x, &yv))).map(|v| v.map(|v| ub(&v))), Some(q.clone()); n, d);
        check!(c, call(|| opt(x.checked_rem(&yv))).map(|v| v.map(|v| ub(&v))), Some(r.clone()); n, d);
        check!(c, call(|| x.div_vartime(&y)).map(|v| ub(&v)), q; n, d);
    }
}

fn operators<const L: usize>(c: &mut Ctx) {
    for (n, d) in div_inputs(c, L, L) {
        if c.done() {
            return;
        }
        if d.is_zero() {
            continue;
        }
        let (x, y, yv) = (bu::<L>(&n), nzu::<L>(&d), bu::<L>(&d));
        let (q, r) = oracle(&n, &d);
        check!(c, call(|| x / y).map(|v| ub(&v)), q.clone(); n, d);
        check!(c, call(|| &x / &y).map(|v| ub(&v)), q.clone(); n, d);
        check!(c, call(|| x / &y).map(|v| ub(&v)), q.clone(); n, d);
        check!(c, call(|| &x / y).map(|v| ub(&v)), q.clone(); n, d);
        check!(c, call(|| x / yv).map(|v| ub(&v)), q.clone(); n, d);
        check!(c, call(|| &x / yv).map(|v| ub(&v)), q.clone(); n, d);
        check!(c, call(|| { let mut t = x; t /= y; t }).map(|v| ub(&v)), q.clone(); n, d);
        check!(c, call(|| { let mut t = x; t /= &y; t }).map(|v| ub(&v)), q.clone(); n, d);
        check!(c, call(|| x % y).map(|v| ub(&v)), r.clone(); n, d);
        check!(c, call(|| &x % &y).map(|v| ub(&v)), r.clone(); n, d);
        check!(c, call(|| x % &y).map(|v| ub(&v)), r.clone(); n, d);
        check!(c, call(|| &x % y).map(|v| ub(&v)), r.clone(); n, d);
        check!(c, call(|| x % yv).map(|v| ub(&v)), r.clone(); n, d);
        check!(c, call(|| &x % yv).map(|v| ub(&v)), r.clone(); n, d);
        check!(c, call(|| { let mut t = x; t %= y; t }).map(|v| ub(&v)), r.clone(); n, d);
        check!(c, call(|| { let mut t = x; t %= &y; t }).map(|v| ub(&v)), r.clone(); n, d);
        let w = Wrapping(x);
        check!(c, call(|| w / y).map(|v| ub(&v.0)), q.clone(); n, d);
        check!(c, call(|| &w / &y).map(|v| ub(&v.0)), q.clone(); n, d);
        check!(c, call(|| w / &y).map(|v| ub(&v.0)), q.clone(); n, d);
        check!(c, call(|| &w / y).map(|v| ub(&v.0)), q.clone(); n, d);
        check!(c, call(|| { let mut t = w; t /= y; t }).map(|v| ub(&v.0)), q.clone(); n, d);
        check!(c, call(|| { let mut t = w; t /= &y; t }).map(|v| ub(&v.0)), q.clone(); n, d);
        check!(c, call(|| w % y).map(|v| ub(&v.0)), r.clone(); n, d);
        check!(c, call(|| &w % &y).map(|v| ub(&v.0)), r.clone(); n, d);
        check!(c, call(|| w % &y).map(|v| ub(&v.0)), r.clone(); n, d);
        check!(c, call(|| &w % y).map(|v| ub(&v.0)), r.clone(); n, d);
        check!(c, call(|| { let mut t = w; t %= y; t }).map(|v| ub(&v.0)), r.clone(); n, d);
        check!(c, call(|| { let mut t = w; t %= &y; t }).map(|v| ub(&v.0)), r.clone(); n, d);
    }
}

fn rem_wide_vartime<const L: usize>(c: &mut Ctx) {
    // dividend of 2L limbs, divisor of L limbs
    for (n, d) in div_inputs(c, 2 * L, L) {
        if c.done() {
            return;
        }
        if d.is_zero() {
            continue;
        }
        let lo = bu::<L>(&n);
        let hi = bu::<L>(&(&n >> (64 * L)));
        let y = nzu::<L>(&d);
        let got = call(|| Uint::<L>::rem_wide_vartime((lo, hi), &y)).map(|r| ub(&r));
        check!(c, got, &n % &d; n, d);
    }
}

fn rem2k_vartime<const L: usize>(c: &mut Ctx) {
    let bits = 64 * L as u32;
    let mut ks: Vec<u32> = (0..=bits + 65).collect();
    ks.extend([2 * bits, 2 * bits + 1, u32::MAX - 1, u32::MAX, 1 << 31]);
    let vals = {
        let n = (c.cap / ks.len()).clamp(8, 64);
        let mut v = c.edges(L, n);
        for _ in 0..(c.iters / 64).max(4) {
            v.push(c.rnd(L));
        }
        v
    };
    for n in vals {
        let x = bu::<L>(&n);
        for &k in &ks {
            if c.done() {
                return;
            }
            let exp = if k >= bits { n.clone() } else { &n & mask(k) };
            check!(c, call(|| x.rem2k_vartime(k)).map(|r| ub(&r)), exp; n, k);
        }
    }
}

// ---------------------------------------------------------------- Uint by Limb

fn by_limb<const L: usize>(c: &mut Ctx) {
    for (n, d) in div_inputs(c, L, 1) {
        if c.done() {
            return;
        }
        if d.is_zero() {
            continue;
        }
        let (x, y) = (bu::<L>(&n), nzl(&d));
        let (q, r) = oracle(&n, &d);
        let rc = Reciprocal::new(y);
        check!(c, call(|| x.div_rem_limb(y)).map(|(a, b)| (ub(&a), lb(b))), (q.clone(), r.clone()); n, d);
        check!(c, call(|| x.div_rem_limb_with_reciprocal(&rc)).map(|(a, b)| (ub(&a), lb(b))), (q.clone(), r.clone()); n, d);
        check!(c, call(|| x.rem_limb(y)).map(lb), r.clone(); n, d);
        check!(c, call(|| x.rem_limb_with_reciprocal(&rc)).map(lb), r.clone(); n, d);
        check!(c, call(|| DivRemLimb::div_rem_limb(&x, y)).map(|(a, b)| (ub(&a), lb(b))), (q.clone(), r.clone()); n, d);
        check!(c, call(|| DivRemLimb::div_rem_limb_with_reciprocal(&x, &rc)).map(|(a, b)| (ub(&a), lb(b))), (q.clone(), r.clone()); n, d);
        check!(c, call(|| RemLimb::rem_limb(&x, y)).map(lb), r.clone(); n, d);
        check!(c, call(|| RemLimb::rem_limb_with_reciprocal(&x, &rc)).map(lb), r.clone(); n, d);
        // operators with NonZero<Limb>
        check!(c, call(|| x / y).map(|v| ub(&v)), q.clone(); n, d);
        check!(c, call(|| &x / &y).map(|v| ub(&v)), q.clone(); n, d);
        check!(c, call(|| x / &y).map(|v| ub(&v)), q.clone(); n, d);
        check!(c, call(|| &x / y).map(|v| ub(&v)), q.clone(); n, d);
        check!(c, call(|| { let mut t = x; t /= y; t }).map(|v| ub(&v)), q.clone(); n, d);
        check!(c, call(|| { let mut t = x; t /= &y; t }).map(|v| ub(&v)), q.clone(); n, d);
        check!(c, call(|| x % y).map(lb), r.clone(); n, d);
        check!(c, call(|| &x % &y).map(lb), r.clone(); n, d);
        check!(c, call(|| x % &y).map(lb), r.clone(); n, d);
        check!(c, call(|| &x % y).map(lb), r.clone(); n, d);
        check!(c, call(|| { let mut t = x; t %= y; t }).map(|v| ub(&v)), r.clone(); n, d);
        check!(c, call(|| { let mut t = x; t %= &y; t }).map(|v| ub(&v)), r.clone(); n, d);
        let w = Wrapping(x);
        check!(c, call(|| w / y).map(|v| ub(&v.0)), q.clone(); n, d);
        check!(c, call(|| &w / &y).map(|v| ub(&v.0)), q.clone(); n, d);
        check!(c, call(|| w / &y).map(|v| ub(&v.0)), q.clone(); n, d);
        check!(c, call(|| &w / y).map(|v| ub(&v.0)), q.clone(); n, d);
        check!(c, call(|| { let mut t = w; t /= y; t }).map(|v| ub(&v.0)), q.clone(); n, d);
        check!(c, call(|| { let mut t = w; t /= &y; t }).map(|v| ub(&v.0)), q.clone(); n, d);
        check!(c, call(|| w % y).map(|v| lb(v.0)), r.clone(); n, d);
        check!(c, call(|| &w % &y).map(|v| lb(v.0)), r.clone(); n, d);
        check!(c, call(|| w % &y).map(|v| lb(v.0)), r.clone(); n, d);
        check!(c, call(|| &w % y).map(|v| lb(v.0)), r.clone(); n, d);
        check!(c, call(|| { let mut t = w; t %= y; t }).map(|v| ub(&v.0)), r.clone(); n, d);
        check!(c, call(|| { let mut t = w; t %= &y; t }).map(|v| ub(&v.0)), r.clone(); n, d);
    }
    // the placeholder reciprocal is documented as self-consistent: it must behave as *some* divisor
    // without panicking; its divisor is MAX.
    for n in c.edges(L, 64) {
        let x = bu::<L>(&n);
        let d = BigUint::from(u64::MAX);
        let rc = Reciprocal::default();
        check!(c, call(|| x.div_rem_limb_with_reciprocal(&rc)).map(|(a, b)| (ub(&a), lb(b))), oracle(&n, &d); n, d);
    }
}

// ---------------------------------------------------------------- RemMixed trait (macro generated impls)

fn rem_mixed<const L: usize, const R: usize>(c: &mut Ctx)
where
    Uint<L>: RemMixed<Uint<R>>,
{
    for (n, d) in div_inputs(c, L, R) {
        if c.done() {
            return;
        }
        if d.is_zero() {
            continue;
        }
        let (x, y) = (bu::<L>(&n), nzu::<R>(&d));
        check!(c, call(|| x.rem_mixed(&y)).map(|r| ub(&r)), &n % &d; n, d);
    }
}

// ---------------------------------------------------------------- BoxedUint

/// (dividend limbs, divisor limbs) combinations with 1..=4 limbs
fn boxed_shapes(mixed: bool) -> Vec<(usize, usize)> {
    let mut v = Vec::new();
    for a in 1..=4 {
        for b in 1..=4 {
            if mixed || a == b {
                v.push((a, b));
            }
        }
    }
    v
}

fn boxed_div_rem(c: &mut Ctx) {
    for (nl, dl) in boxed_shapes(false) {
        for (n, d) in c.scaled(4, |c| div_inputs(c, nl, dl)) {
            if c.done() {
                return;
            }
            let x = bx(&n, nl);
            if d.is_zero() {
                let yv = bx(&d, dl);
                let none: Option<BigUint> = None;
                check!(c, call(|| opt(x.checked_div(&yv))).map(|q| q.map(|q| xb(&q))), none.clone(); n, d, nl, dl);
                check!(c, call(|| opt(CheckedDiv::checked_div(&x, &yv))).map(|q| q.map(|q| xb(&q))), none; n, d, nl, dl);
                continue;
            }
            let y = nzx(&d, dl);
            let (q, r) = oracle(&n, &d);
            // value and documented precision (the operand precision)
            let shape = |v: (BoxedUint, BoxedUint)| (xb(&v.0), v.0.nlimbs(), xb(&v.1), v.1.nlimbs());
            check!(c, call(|| x.div_rem(&y)).map(shape), (q.clone(), nl, r.clone(), dl); n, d, nl, dl);
            check!(c, call(|| x.rem(&y)).map(|v| xb(&v)), r.clone(); n, d, nl, dl);
            check!(c, call(|| x.wrapping_div(&y)).map(|v| xb(&v)), q.clone(); n, d, nl, dl);
            check!(c, call(|| opt(x.checked_div(y.as_ref()))).map(|v| v.map(|v| xb(&v))), Some(q.clone()); n, d, nl, dl);
            check!(c, call(|| opt(CheckedDiv::checked_div(&x, y.as_ref()))).map(|v| v.map(|v| xb(&v))), Some(q.clone()); n, d, nl, dl);
            // operators
            check!(c, call(|| &x / &y).map(|v| xb(&v)), q.clone(); n, d, nl, dl);
            check!(c, call(|| x.clone() / &y).map(|v| xb(&v)), q.clone(); n, d, nl, dl);
            check!(c, call(|| &x / y.clone()).map(|v| xb(&v)), q.clone(); n, d, nl, dl);
            check!(c, call(|| x.clone() / y.clone()).map(|v| xb(&v)), q.clone(); n, d, nl, dl);
            check!(c, call(|| { let mut t = x.clone(); t /= &y; t }).map(|v| xb(&v)), q.clone(); n, d, nl, dl);
            check!(c, call(|| { let mut t = x.clone(); t /= y.clone(); t }).map(|v| xb(&v)), q.clone(); n, d, nl, dl);
            check!(c, call(|| &x % &y).map(|v| xb(&v)), r.clone(); n, d, nl, dl);
            check!(c, call(|| x.clone() % &y).map(|v| xb(&v)), r.clone(); n, d, nl, dl);
            check!(c, call(|| &x % y.clone()).map(|v| xb(&v)), r.clone(); n, d, nl, dl);
            check!(c, call(|| x.clone() % y.clone()).map(|v| xb(&v)), r.clone(); n, d, nl, dl);
            check!(c, call(|| { let mut t = x.clone(); t %= &y; t }).map(|v| xb(&v)), r.clone(); n, d, nl, dl);
            check!(c, call(|| { let mut t = x.clone(); t %= y.clone(); t }).map(|v| xb(&v)), r.clone(); n, d, nl, dl);
            let w = Wrapping(x.clone());
            check!(c, call(|| &w / &y).map(|v| xb(&v.0)), q.clone(); n, d, nl, dl);
            check!(c, call(|| w.clone() / &y).map(|v| xb(&v.0)), q.clone(); n, d, nl, dl);
            check!(c, call(|| &w / y.clone()).map(|v| xb(&v.0)), q.clone(); n, d, nl, dl);
            check!(c, call(|| w.clone() / y.clone()).map(|v| xb(&v.0)), q.clone(); n, d, nl, dl);
            check!(c, call(|| { let mut t = w.clone(); t /= &y; t }).map(|v| xb(&v.0)), q.clone(); n, d, nl, dl);
            check!(c, call(|| { let mut t = w.clone(); t /= y.clone(); t }).map(|v| xb(&v.0)), q.clone(); n, d, nl, dl);
        }
    }
}

fn boxed_div_rem_vartime(c: &mut Ctx) {
    for (nl, dl) in boxed_shapes(true) {
        for (n, d) in c.scaled(16, |c| div_inputs(c, nl, dl)) {
            if c.done() {
                return;
            }
            if d.is_zero() {
                continue;
            }
            let (x, y) = (bx(&n, nl), nzx(&d, dl));
            let (q, r) = oracle(&n, &d);
            // quotient in the dividend's precision, remainder in the divisor's
            let shape = |v: (BoxedUint, BoxedUint)| (xb(&v.0), v.0.nlimbs(), xb(&v.1), v.1.nlimbs());
            check!(c, call(|| x.div_rem_vartime(&y)).map(shape), (q.clone(), nl, r.clone(), dl); n, d, nl, dl);
            check!(c, call(|| x.rem_vartime(&y)).map(|v| (xb(&v), v.nlimbs())), (r.clone(), dl); n, d, nl, dl);
            check!(c, call(|| x.wrapping_div_vartime(&y)).map(|v| (xb(&v), v.nlimbs())), (q.clone(), nl); n, d, nl, dl);
            check!(c, call(|| x.div_vartime(&y)).map(|v| (xb(&v), v.nlimbs())), (q.clone(), nl); n, d, nl, dl);
            check!(c, call(|| x.rem_mixed(&y)).map(|v| (xb(&v), v.nlimbs())), (r.clone(), dl); n, d, nl, dl);
        }
    }
}

fn boxed_by_limb(c: &mut Ctx) {
    for nl in 1..=4usize {
        for (n, d) in c.scaled(4, |c| div_inputs(c, nl, 1)) {
            if c.done() {
                return;
            }
            if d.is_zero() {
                continue;
            }
            let (x, y) = (bx(&n, nl), nzl(&d));
            let (q, r) = oracle(&n, &d);
            let rc = Reciprocal::new(y);
            check!(c, call(|| x.div_rem_limb(y)).map(|(a, b)| (xb(&a), a.nlimbs(), lb(b))), (q.clone(), nl, r.clone()); n, d, nl);
            check!(c, call(|| x.div_rem_limb_with_reciprocal(&rc)).map(|(a, b)| (xb(&a), a.nlimbs(), lb(b))), (q.clone(), nl, r.clone()); n, d, nl);
            check!(c, call(|| x.rem_limb(y)).map(lb), r.clone(); n, d, nl);
            check!(c, call(|| x.rem_limb_with_reciprocal(&rc)).map(lb), r.clone(); n, d, nl);
            check!(c, call(|| DivRemLimb::div_rem_limb(&x, y)).map(|(a, b)| (xb(&a), lb(b))), (q.clone(), r.clone()); n, d, nl);
            check!(c, call(|| DivRemLimb::div_rem_limb_with_reciprocal(&x, &rc)).map(|(a, b)| (xb(&a), lb(b))), (q.clone(), r.clone()); n, d, nl);
            check!(c, call(|| RemLimb::rem_limb(&x, y)).map(lb), r.clone(); n, d, nl);
            check!(c, call(|| RemLimb::rem_limb_with_reciprocal(&x, &rc)).map(lb), r.clone(); n, d, nl);
        }
    }
}

pub fn cases() -> Vec<Case> {
    let mut v = Vec::new();
    ucases!(v, "div_rem", div_rem; 1, 2, 3, 4, 16, 32);
    ucases!(v, "div_rem_vartime", div_rem_vartime; 1, 2, 3, 4, 16, 32);
    ucases2!(v, "div_rem_vartime mixed", div_rem_vartime_mixed; (2, 1), (3, 1), (3, 2), (4, 1), (4, 2), (4, 3), (1, 2), (2, 4), (3, 4), (16, 4), (16, 3), (4, 16), (32, 16));
    ucases!(v, "rem/rem_vartime/wrapping_rem_vartime", rem_forms; 1, 2, 3, 4, 16);
    ucases!(v, "wrapping_div/checked_div/checked_rem/DivVartime/Checked<Uint> division", wrapping_checked; 1, 2, 3, 4, 16);
    ucases!(v, "operators / % /= %= (NonZero, Uint, Wrapping)", operators; 1, 2, 3, 4);
    ucases!(v, "rem_wide_vartime", rem_wide_vartime; 1, 2, 3, 4, 16);
    ucases!(v, "rem2k_vartime", rem2k_vartime; 1, 2, 3, 4, 16);
    ucases!(v, "div_rem_limb/rem_limb (+reciprocal, traits, operators)", by_limb; 1, 2, 3, 4, 16, 32);
    ucases2!(v, "RemMixed::rem_mixed", rem_mixed; (3, 1), (3, 2), (4, 1), (4, 3), (16, 1), (16, 4), (16, 9), (16, 15));
    case!(v, "BoxedUint::div_rem/rem/wrapping_div/checked_div/operators", boxed_div_rem);
    case!(v, "BoxedUint::div_rem_vartime/rem_vartime/wrapping_div_vartime/DivVartime/rem_mixed mixed precisions", boxed_div_rem_vartime);
    case!(v, "BoxedUint::div_rem_limb/rem_limb (+reciprocal, traits)", boxed_by_limb);
    v
}
