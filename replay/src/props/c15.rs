//! C15 (thin) — all routes to the same operation give bit-identical results.
//!
//! This property is a *route equality*: both sides of every comparison are crypto-bigint calls on
//! identical inputs (the exactness of each operation against the oracle belongs to C02..C10).
//! Values are compared through their word view (BigUint) and, for boxed results, the limb count
//! (the documented precision).

use super::prelude::*;
use crypto_bigint::modular::{ConstMontyForm, ConstMontyParams, MontyForm, MontyParams};
use crypto_bigint::{
    AddMod, BitOps, Checked, CheckedAdd, CheckedMul, CheckedSub, DivRemLimb, Gcd, InvMod, Inverter, MulMod,
    PrecomputeInverter, Reciprocal, RemLimb, ShlVartime, ShrVartime, SquareRoot, SubMod, U64, U128, U256, U1024,
    Wrapping, WrappingAdd, WrappingMul, WrappingShl, WrappingShr, WrappingSub, impl_modulus,
};
use std::hint::black_box;

/// `route!(c, A, B; inputs..)`: A and B are `Result<T, String>` from `call`; B must equal A.
/// A panic of route A is reported as well (inputs are kept inside the documented domains).
macro_rules! route {
    ($c:expr, $a:expr, $b:expr; $($name:ident),* $(,)?) => {{
        let a__ = $a;
        if a__.is_err() {
            no_panic!($c, a__; $($name),*);
        } else if let Ok(e__) = a__ {
            check!($c, $b, e__; $($name),*);
        }
    }};
}

fn bshape(v: BoxedUint) -> (BigUint, usize) {
    (xb(&v), v.nlimbs())
}

fn shifts(c: &mut Ctx, bits: u32) -> Vec<u32> {
    let mut v = vec![0, 1, 31, 32, 33, 63, 64, 65, bits / 2, bits.saturating_sub(65), bits - 64, bits - 1];
    v.retain(|s| *s < bits);
    for _ in 0..4 {
        v.push(c.below(bits as usize) as u32);
    }
    v
}

// ---------------------------------------------------------------- Uint<N> vs BoxedUint of 64 N bits

macro_rules! fixed_vs_boxed {
    ($name:ident, $T:ty, $L:expr, $div:expr) => {
        fn $name(c: &mut Ctx) {
            const L: usize = $L;
            let bits = 64 * L as u32;
            for (a, b) in c.scaled($div, |c| c.inputs2(L, L)) {
                if c.done() {
                    return;
                }
                let (x, y): ($T, $T) = (bu::<L>(&a), bu::<L>(&b));
                let (xa, xb_) = (bx(&a, L), bx(&b, L));
                let f = |v: $T| (ub(&v), L);
                route!(c, call(|| x.wrapping_add(&y)).map(f), call(|| xa.wrapping_add(&xb_)).map(bshape); a, b);
                route!(c, call(|| x.wrapping_sub(&y)).map(f), call(|| xa.wrapping_sub(&xb_)).map(bshape); a, b);
                route!(c, call(|| x.wrapping_mul(&y)).map(f), call(|| xa.wrapping_mul(&xb_)).map(bshape); a, b);
                route!(c, call(|| x.sqrt()).map(f), call(|| xa.sqrt()).map(bshape); a);
                route!(c, call(|| x.gcd(&y)).map(f), call(|| Gcd::gcd(&xa, &xb_)).map(bshape); a, b);
                // ct vs vartime and trait vs inherent of gcd
                route!(c, call(|| x.gcd(&y)).map(f), call(|| Gcd::gcd_vartime(&x, &y)).map(f); a, b);
                route!(c, call(|| x.gcd(&y)).map(f), call(|| Gcd::gcd(&x, &y)).map(f); a, b);
                route!(c, call(|| Gcd::gcd(&xa, &xb_)).map(bshape), call(|| Gcd::gcd_vartime(&xa, &xb_)).map(bshape); a, b);
                for s in shifts(c, bits) {
                    route!(c, call(|| x.shl(s)).map(f), call(|| xa.shl(s)).map(bshape); a, s);
                    route!(c, call(|| x.shr(s)).map(f), call(|| xa.shr(s)).map(bshape); a, s);
                }
                for s in [bits, bits + 1, 2 * bits, u32::MAX, bits - 1] {
                    route!(c, call(|| x.wrapping_shl(s)).map(f), call(|| xa.wrapping_shl(s)).map(bshape); a, s);
                    route!(c, call(|| x.wrapping_shr(s)).map(f), call(|| xa.wrapping_shr(s)).map(bshape); a, s);
                }
                if b.is_zero() {
                    continue;
                }
                let (ny, nxb) = (nzu::<L>(&b), nzx(&b, L));
                let f2 = |v: ($T, $T)| (ub(&v.0), L, ub(&v.1), L);
                let b2 = |v: (BoxedUint, BoxedUint)| (xb(&v.0), v.0.nlimbs(), xb(&v.1), v.1.nlimbs());
                route!(c, call(|| x.div_rem(&ny)).map(f2), call(|| xa.div_rem(&nxb)).map(b2); a, b);
                // modular inverse: fixed vs boxed, trait vs inherent, precomputed inverter vs one-shot
                let fo = |v: Option<$T>| v.map(|v| (ub(&v), L));
                let bo = |v: Option<BoxedUint>| v.map(bshape);
                route!(c, call(|| copt(x.inv_mod(&y))).map(fo), call(|| opt(xa.inv_mod(&xb_))).map(bo); a, b);
                route!(c, call(|| copt(x.inv_mod(&y))).map(fo), call(|| opt(InvMod::inv_mod(&x, &y))).map(fo); a, b);
                route!(c, call(|| opt(xa.inv_mod(&xb_))).map(bo), call(|| opt(InvMod::inv_mod(&xa, &xb_))).map(bo); a, b);
                if b.bit(0) {
                    let (oy, oxb) = (oddu::<L>(&b), oddx(&b, L));
                    route!(c, call(|| copt(x.inv_odd_mod(&oy))).map(fo), call(|| opt(oy.precompute_inverter().invert(&x))).map(fo); a, b);
                    route!(c, call(|| copt(x.inv_odd_mod(&oy))).map(fo), call(|| opt(oy.precompute_inverter().invert_vartime(&x))).map(fo); a, b);
                    route!(c, call(|| copt(x.inv_odd_mod(&oy))).map(fo), call(|| opt(xa.inv_odd_mod(&oxb))).map(bo); a, b);
                    route!(c, call(|| opt(xa.inv_odd_mod(&oxb))).map(bo), call(|| opt(oxb.precompute_inverter().invert(&xa))).map(bo); a, b);
                }
                // modular add / sub / mul on residues below the modulus p = b
                let (r1, r2) = (&a % &b, c.rnd_below(&b));
                let (u1, u2, v1, v2) = (bu::<L>(&r1), bu::<L>(&r2), bx(&r1, L), bx(&r2, L));
                route!(c, call(|| u1.add_mod(&u2, &y)).map(f), call(|| v1.add_mod(&v2, &xb_)).map(bshape); r1, r2, b);
                route!(c, call(|| u1.sub_mod(&u2, &y)).map(f), call(|| v1.sub_mod(&v2, &xb_)).map(bshape); r1, r2, b);
                route!(c, call(|| u1.add_mod(&u2, &y)).map(f), call(|| AddMod::add_mod(&u1, &u2, &y)).map(f); r1, r2, b);
                route!(c, call(|| u1.sub_mod(&u2, &y)).map(f), call(|| SubMod::sub_mod(&u1, &u2, &y)).map(f); r1, r2, b);
                route!(c, call(|| v1.add_mod(&v2, &xb_)).map(bshape), call(|| AddMod::add_mod(&v1, &v2, &xb_)).map(bshape); r1, r2, b);
                route!(c, call(|| v1.sub_mod(&v2, &xb_)).map(bshape), call(|| SubMod::sub_mod(&v1, &v2, &xb_)).map(bshape); r1, r2, b);
                if b.bit(0) {
                    route!(c, call(|| u1.mul_mod(&u2, &ny)).map(f), call(|| v1.mul_mod(&v2, &xb_)).map(bshape); r1, r2, b);
                    route!(c, call(|| u1.mul_mod(&u2, &ny)).map(f), call(|| u1.mul_mod_vartime(&u2, &ny)).map(f); r1, r2, b);
                    route!(c, call(|| u1.mul_mod(&u2, &ny)).map(f), call(|| MulMod::mul_mod(&u1, &u2, &y)).map(f); r1, r2, b);
                    route!(c, call(|| v1.mul_mod(&v2, &xb_)).map(bshape), call(|| MulMod::mul_mod(&v1, &v2, &xb_)).map(bshape); r1, r2, b);
                }
            }
        }
    };
}

fixed_vs_boxed!(fixed_vs_boxed_64, U64, 1, 2);
fixed_vs_boxed!(fixed_vs_boxed_128, U128, 2, 2);
fixed_vs_boxed!(fixed_vs_boxed_256, U256, 4, 4);
fixed_vs_boxed!(fixed_vs_boxed_1024, U1024, 16, 32);

// ---------------------------------------------------------------- constant-time vs vartime

fn ct_vs_vartime<const L: usize>(c: &mut Ctx) {
    let bits = 64 * L as u32;
    for (a, b) in c.scaled(2, |c| c.inputs2(L, L)) {
        if c.done() {
            return;
        }
        let (x, y) = (bu::<L>(&a), bu::<L>(&b));
        let f = |v: Uint<L>| ub(&v);
        let fo = |v: Option<Uint<L>>| v.map(|v| ub(&v));
        route!(c, call(|| x.sqrt()).map(f), call(|| x.sqrt_vartime()).map(f); a);
        route!(c, call(|| x.wrapping_sqrt()).map(f), call(|| x.wrapping_sqrt_vartime()).map(f); a);
        route!(c, call(|| opt(x.checked_sqrt())).map(fo), call(|| opt(x.checked_sqrt_vartime())).map(fo); a);
        route!(c, call(|| x.bits()), call(|| x.bits_vartime()); a);
        route!(c, call(|| x.leading_zeros()), call(|| x.leading_zeros_vartime()); a);
        route!(c, call(|| x.trailing_zeros()), call(|| x.trailing_zeros_vartime()); a);
        route!(c, call(|| x.trailing_ones()), call(|| x.trailing_ones_vartime()); a);
        for s in shifts(c, bits) {
            route!(c, call(|| x.shl(s)).map(f), call(|| x.shl_vartime(s)).map(f); a, s);
            route!(c, call(|| x.shr(s)).map(f), call(|| x.shr_vartime(s)).map(f); a, s);
            route!(c, call(|| ccb(x.bit(s))), call(|| x.bit_vartime(s)); a, s);
        }
        for s in [0, 1, bits - 1, bits, bits + 1, u32::MAX] {
            route!(c, call(|| copt(x.overflowing_shl(s))).map(fo), call(|| copt(x.overflowing_shl_vartime(s))).map(fo); a, s);
            route!(c, call(|| copt(x.overflowing_shr(s))).map(fo), call(|| copt(x.overflowing_shr_vartime(s))).map(fo); a, s);
            route!(c, call(|| x.wrapping_shl(s)).map(f), call(|| x.wrapping_shl_vartime(s)).map(f); a, s);
            route!(c, call(|| x.wrapping_shr(s)).map(f), call(|| x.wrapping_shr_vartime(s)).map(f); a, s);
        }
        // k <= BITS only (an inverse mod 2^k with k > BITS does not fit the type)
        for k in [0, 1, 2, 63, 64, 65, bits / 2, bits - 1, bits, c.below(bits as usize + 1) as u32].into_iter().filter(|k| *k <= bits) {
            route!(c, call(|| copt(x.inv_mod2k(k))).map(fo), call(|| copt(x.inv_mod2k_vartime(k))).map(fo); a, k);
        }
        if b.is_zero() {
            continue;
        }
        let ny = nzu::<L>(&b);
        let f2 = |v: (Uint<L>, Uint<L>)| (ub(&v.0), ub(&v.1));
        route!(c, call(|| x.div_rem(&ny)).map(f2), call(|| x.div_rem_vartime(&ny)).map(f2); a, b);
        route!(c, call(|| x.rem(&ny)).map(f), call(|| x.rem_vartime(&ny)).map(f); a, b);
        route!(c, call(|| x.wrapping_div(&ny)).map(f), call(|| x.wrapping_div_vartime(&ny)).map(f); a, b);
        let _ = y;
    }
}

fn boxed_ct_vs_vartime(c: &mut Ctx) {
    for l in [1usize, 2, 3, 4] {
        let bits = 64 * l as u32;
        for (a, b) in c.scaled(8, |c| c.inputs2(l, l)) {
            if c.done() {
                return;
            }
            let x = bx(&a, l);
            let bo = |v: Option<BoxedUint>| v.map(bshape);
            route!(c, call(|| x.sqrt()).map(bshape), call(|| x.sqrt_vartime()).map(bshape); a, l);
            route!(c, call(|| opt(x.checked_sqrt())).map(bo), call(|| opt(x.checked_sqrt_vartime())).map(bo); a, l);
            route!(c, call(|| x.bits()), call(|| x.bits_vartime()); a, l);
            route!(c, call(|| x.trailing_zeros()), call(|| x.trailing_zeros_vartime()); a, l);
            route!(c, call(|| x.trailing_ones()), call(|| x.trailing_ones_vartime()); a, l);
            for s in shifts(c, bits) {
                route!(c, call(|| Some(x.shl(s))).map(bo), call(|| x.shl_vartime(s)).map(bo); a, s, l);
                route!(c, call(|| Some(x.shr(s))).map(bo), call(|| x.shr_vartime(s)).map(bo); a, s, l);
                route!(c, call(|| bool::from(x.bit(s))), call(|| x.bit_vartime(s)); a, s, l);
            }
            for s in [0, bits - 1, bits, bits + 1, u32::MAX] {
                let ov = |v: (BoxedUint, Choice)| if bool::from(v.1) { None } else { Some(bshape(v.0)) };
                route!(c, call(|| x.overflowing_shl(s)).map(ov), call(|| opt(ShlVartime::overflowing_shl_vartime(&x, s))).map(bo); a, s, l);
                route!(c, call(|| x.overflowing_shr(s)).map(ov), call(|| opt(ShrVartime::overflowing_shr_vartime(&x, s))).map(bo); a, s, l);
                route!(c, call(|| x.wrapping_shl(s)).map(bshape), call(|| x.wrapping_shl_vartime(s)).map(bshape); a, s, l);
                route!(c, call(|| x.wrapping_shr(s)).map(bshape), call(|| x.wrapping_shr_vartime(s)).map(bshape); a, s, l);
            }
            for k in [0, 1, 2, 63, 64, 65, bits / 2, bits - 1, bits].into_iter().filter(|k| *k <= bits) {
                let iv = |v: (BoxedUint, Choice)| if bool::from(v.1) { Some(bshape(v.0)) } else { None };
                route!(c, call(|| x.inv_mod2k(k)).map(iv), call(|| x.inv_mod2k_vartime(k)).map(iv); a, k, l);
                // fixed route for the same width is compared in the Uint cases; here boxed vs fixed for l = 4
                if l == 4 {
                    let u = bu::<4>(&a);
                    route!(c, call(|| copt(u.inv_mod2k(k))).map(|v| v.map(|v| (ub(&v), 4usize))), call(|| x.inv_mod2k(k)).map(iv); a, k, l);
                }
            }
            if b.is_zero() {
                continue;
            }
            let ny = nzx(&b, l);
            let b2 = |v: (BoxedUint, BoxedUint)| (xb(&v.0), v.0.nlimbs(), xb(&v.1), v.1.nlimbs());
            route!(c, call(|| x.div_rem(&ny)).map(b2), call(|| x.div_rem_vartime(&ny)).map(b2); a, b, l);
            route!(c, call(|| x.rem(&ny)).map(bshape), call(|| x.rem_vartime(&ny)).map(bshape); a, b, l);
            route!(c, call(|| x.wrapping_div(&ny)).map(bshape), call(|| x.wrapping_div_vartime(&ny)).map(bshape); a, b, l);
        }
    }
}

// ---------------------------------------------------------------- traits / operators / wrappers vs inherent

fn forms<const L: usize>(c: &mut Ctx) {
    let bits = 64 * L as u32;
    for (a, b) in c.scaled(2, |c| c.inputs2(L, L)) {
        if c.done() {
            return;
        }
        let (x, y) = (bu::<L>(&a), bu::<L>(&b));
        let f = |v: Uint<L>| ub(&v);
        let fo = |v: Option<Uint<L>>| v.map(|v| ub(&v));
        let (wx, wy) = (Wrapping(x), Wrapping(y));
        let (cx, cy) = (Checked::new(x), Checked::new(y));
        // add
        let base = call(|| x.wrapping_add(&y)).map(f);
        route!(c, base.clone(), call(|| WrappingAdd::wrapping_add(&x, &y)).map(f); a, b);
        route!(c, base.clone(), call(|| (wx + wy).0).map(f); a, b);
        route!(c, base.clone(), call(|| (&wx + &wy).0).map(f); a, b);
        route!(c, base.clone(), call(|| { let mut t = wx; t += wy; t.0 }).map(f); a, b);
        route!(c, base.clone(), call(|| x.adc(&y, Limb::ZERO).0).map(f); a, b);
        let chk = call(|| { let (s, carry) = x.adc(&y, Limb::ZERO); if carry.0 == 0 { Some(s) } else { None } }).map(fo);
        route!(c, chk.clone(), call(|| opt(CheckedAdd::checked_add(&x, &y))).map(fo); a, b);
        route!(c, chk.clone(), call(|| opt((cx + cy).0)).map(fo); a, b);
        route!(c, chk.clone(), call(|| opt((&cx + &cy).0)).map(fo); a, b);
        route!(c, chk.clone(), call(|| { let mut t = cx; t += cy; opt(t.0) }).map(fo); a, b);
        if let Ok(Some(s)) = &chk {
            // operators agree with the inherent form whenever they return
            let s = s.clone();
            check!(c, call(|| x + y).map(f), s.clone(); a, b);
            check!(c, call(|| x + &y).map(f), s.clone(); a, b);
            check!(c, call(|| { let mut t = x; t += y; t }).map(f), s.clone(); a, b);
            check!(c, call(|| { let mut t = x; t += &y; t }).map(f), s; a, b);
        }
        // sub
        let base = call(|| x.wrapping_sub(&y)).map(f);
        route!(c, base.clone(), call(|| WrappingSub::wrapping_sub(&x, &y)).map(f); a, b);
        route!(c, base.clone(), call(|| (wx - wy).0).map(f); a, b);
        route!(c, base.clone(), call(|| (&wx - &wy).0).map(f); a, b);
        route!(c, base.clone(), call(|| { let mut t = wx; t -= wy; t.0 }).map(f); a, b);
        route!(c, base.clone(), call(|| x.sbb(&y, Limb::ZERO).0).map(f); a, b);
        let chk = call(|| { let (s, borrow) = x.sbb(&y, Limb::ZERO); if borrow.0 == 0 { Some(s) } else { None } }).map(fo);
        route!(c, chk.clone(), call(|| opt(CheckedSub::checked_sub(&x, &y))).map(fo); a, b);
        route!(c, chk.clone(), call(|| opt((cx - cy).0)).map(fo); a, b);
        route!(c, chk.clone(), call(|| { let mut t = cx; t -= cy; opt(t.0) }).map(fo); a, b);
        if let Ok(Some(s)) = &chk {
            let s = s.clone();
            check!(c, call(|| x - y).map(f), s.clone(); a, b);
            check!(c, call(|| x - &y).map(f), s.clone(); a, b);
            check!(c, call(|| { let mut t = x; t -= y; t }).map(f), s.clone(); a, b);
            check!(c, call(|| { let mut t = x; t -= &y; t }).map(f), s; a, b);
        }
        // mul
        let base = call(|| x.wrapping_mul(&y)).map(f);
        route!(c, base.clone(), call(|| WrappingMul::wrapping_mul(&x, &y)).map(f); a, b);
        route!(c, base.clone(), call(|| (wx * wy).0).map(f); a, b);
        route!(c, base.clone(), call(|| (&wx * &wy).0).map(f); a, b);
        route!(c, base.clone(), call(|| { let mut t = wx; t *= wy; t.0 }).map(f); a, b);
        route!(c, base.clone(), call(|| x.split_mul(&y).0).map(f); a, b);
        let chk = call(|| { let (lo, hi) = x.split_mul(&y); if hi == Uint::<L>::ZERO { Some(lo) } else { None } }).map(fo);
        route!(c, chk.clone(), call(|| opt(CheckedMul::checked_mul(&x, &y))).map(fo); a, b);
        route!(c, chk.clone(), call(|| opt((cx * cy).0)).map(fo); a, b);
        route!(c, chk.clone(), call(|| { let mut t = cx; t *= cy; opt(t.0) }).map(fo); a, b);
        if let Ok(Some(s)) = &chk {
            let s = s.clone();
            check!(c, call(|| x * y).map(f), s.clone(); a, b);
            check!(c, call(|| &x * &y).map(f), s.clone(); a, b);
            check!(c, call(|| { let mut t = x; t *= y; t }).map(f), s.clone(); a, b);
            check!(c, call(|| { let mut t = x; t *= &y; t }).map(f), s; a, b);
        }
        // square root, shifts, bit queries
        route!(c, call(|| x.sqrt()).map(f), call(|| SquareRoot::sqrt(&x)).map(f); a);
        route!(c, call(|| x.sqrt_vartime()).map(f), call(|| SquareRoot::sqrt_vartime(&x)).map(f); a);
        route!(c, call(|| x.bits()), call(|| BitOps::bits(&x)); a);
        route!(c, call(|| x.leading_zeros()), call(|| BitOps::leading_zeros(&x)); a);
        route!(c, call(|| x.trailing_zeros()), call(|| BitOps::trailing_zeros(&x)); a);
        for s in shifts(c, bits) {
            let base = call(|| x.shl(s)).map(f);
            route!(c, base.clone(), call(|| x << s).map(f); a, s);
            route!(c, base.clone(), call(|| &x << s as usize).map(f); a, s);
            route!(c, base.clone(), call(|| { let mut t = x; t <<= s; t }).map(f); a, s);
            route!(c, base.clone(), call(|| WrappingShl::wrapping_shl(&x, s)).map(f); a, s);
            route!(c, base.clone(), call(|| (wx << s).0).map(f); a, s);
            route!(c, base.clone(), call(|| ShlVartime::wrapping_shl_vartime(&x, s)).map(f); a, s);
            let base = call(|| x.shr(s)).map(f);
            route!(c, base.clone(), call(|| x >> s).map(f); a, s);
            route!(c, base.clone(), call(|| &x >> s as usize).map(f); a, s);
            route!(c, base.clone(), call(|| { let mut t = x; t >>= s; t }).map(f); a, s);
            route!(c, base.clone(), call(|| WrappingShr::wrapping_shr(&x, s)).map(f); a, s);
            route!(c, base.clone(), call(|| (wx >> s).0).map(f); a, s);
            route!(c, base.clone(), call(|| ShrVartime::wrapping_shr_vartime(&x, s)).map(f); a, s);
        }
    }
}

// ---------------------------------------------------------------- precomputed reciprocal vs one-shot

fn reciprocal<const L: usize>(c: &mut Ctx) {
    for (a, d) in c.scaled(2, |c| c.inputs2(L, 1)) {
        if c.done() {
            return;
        }
        if d.is_zero() {
            continue;
        }
        let (x, xa, nd) = (bu::<L>(&a), bx(&a, L), nzl(&d));
        let rc = Reciprocal::new(nd);
        let f = |v: (Uint<L>, Limb)| (ub(&v.0), L, lb(v.1));
        let g = |v: (BoxedUint, Limb)| (xb(&v.0), v.0.nlimbs(), lb(v.1));
        let base = call(|| x.div_rem_limb(nd)).map(f);
        route!(c, base.clone(), call(|| x.div_rem_limb_with_reciprocal(&rc)).map(f); a, d);
        route!(c, base.clone(), call(|| DivRemLimb::div_rem_limb(&x, nd)).map(f); a, d);
        route!(c, base.clone(), call(|| DivRemLimb::div_rem_limb_with_reciprocal(&x, &rc)).map(f); a, d);
        route!(c, base.clone(), call(|| xa.div_rem_limb(nd)).map(g); a, d);
        route!(c, base.clone(), call(|| xa.div_rem_limb_with_reciprocal(&rc)).map(g); a, d);
        route!(c, base.clone(), call(|| (x / nd, x % nd)).map(f); a, d);
        let base = call(|| x.rem_limb(nd)).map(lb);
        route!(c, base.clone(), call(|| x.rem_limb_with_reciprocal(&rc)).map(lb); a, d);
        route!(c, base.clone(), call(|| RemLimb::rem_limb(&x, nd)).map(lb); a, d);
        route!(c, base.clone(), call(|| xa.rem_limb(nd)).map(lb); a, d);
        route!(c, base.clone(), call(|| xa.rem_limb_with_reciprocal(&rc)).map(lb); a, d);
    }
}

// ---------------------------------------------------------------- const-evaluated vs run time

const CA: U256 = U256::from_be_hex("f1e2d3c4b5a69788796a5b4c3d2e1f00ffffffffffffffff0000000000000001");
const CB: U256 = U256::from_be_hex("00000000000000018000000000000000ffffffff00000000fedcba9876543211");
const CM: Odd<U256> = Odd::<U256>::from_be_hex("ffffffff00000001000000000000000000000000ffffffffffffffffffffffff");
const C_ADD: U256 = CA.wrapping_add(&CB);
const C_SUB: U256 = CB.wrapping_sub(&CA);
const C_MUL: U256 = CA.wrapping_mul(&CB);
const C_SPLIT: (U256, U256) = CA.split_mul(&CB);
const C_SQUARE: (U256, U256) = CA.square_wide();
const C_DIVREM: (U256, U256) = CA.div_rem(&NonZero::<U256>::new_unwrap(CB));
const C_DIVREM_VT: (U256, U256) = CA.div_rem_vartime(&NonZero::<U256>::new_unwrap(CB));
const C_SHL: U256 = CA.shl(77);
const C_SHR: U256 = CA.shr_vartime(130);
const C_SQRT: U256 = CA.sqrt();
const C_GCD: U256 = CA.gcd(&CB);
const C_INV2K: U256 = CB.inv_mod2k(200).expect("odd");
const C_INV: U256 = CA.inv_odd_mod(&CM).expect("invertible");
const C_ADDMOD: U256 = CB.add_mod(&CB, CM.as_ref());
const C_MULSPECIAL: U256 = CA.mul_mod_special(&CB, Limb(189));
const C_BITS: u32 = CB.bits();

impl_modulus!(P256Mod, U256, "ffffffff00000001000000000000000000000000ffffffffffffffffffffffff");
type CF = ConstMontyForm<P256Mod, { U256::LIMBS }>;
const C_MONTY_A: CF = CF::new(&CA);
const C_MONTY_B: CF = CF::new(&CB);
const C_MONTY_MUL: U256 = C_MONTY_A.mul(&C_MONTY_B).retrieve();
const C_MONTY_POW: U256 = C_MONTY_A.pow(&CB).retrieve();

fn const_vs_runtime(c: &mut Ctx) {
    let (a, b, m) = (black_box(CA), black_box(CB), black_box(CM));
    let i = 0u32;
    let f = |v: U256| ub(&v);
    let f2 = |v: (U256, U256)| (ub(&v.0), ub(&v.1));
    check!(c, call(|| a.wrapping_add(&b)).map(f), ub(&C_ADD); i);
    check!(c, call(|| b.wrapping_sub(&a)).map(f), ub(&C_SUB); i);
    check!(c, call(|| a.wrapping_mul(&b)).map(f), ub(&C_MUL); i);
    check!(c, call(|| a.split_mul(&b)).map(f2), f2(C_SPLIT); i);
    check!(c, call(|| a.square_wide()).map(f2), f2(C_SQUARE); i);
    check!(c, call(|| a.div_rem(&NonZero::new(b).unwrap())).map(f2), f2(C_DIVREM); i);
    check!(c, call(|| a.div_rem_vartime(&NonZero::new(b).unwrap())).map(f2), f2(C_DIVREM_VT); i);
    check!(c, call(|| a.shl(black_box(77))).map(f), ub(&C_SHL); i);
    check!(c, call(|| a.shr_vartime(black_box(130))).map(f), ub(&C_SHR); i);
    check!(c, call(|| a.sqrt()).map(f), ub(&C_SQRT); i);
    check!(c, call(|| a.gcd(&b)).map(f), ub(&C_GCD); i);
    check!(c, call(|| copt(b.inv_mod2k(black_box(200)))).map(|v| v.map(f)), Some(ub(&C_INV2K)); i);
    check!(c, call(|| copt(a.inv_odd_mod(&m))).map(|v| v.map(f)), Some(ub(&C_INV)); i);
    check!(c, call(|| b.add_mod(&b, m.as_ref())).map(f), ub(&C_ADDMOD); i);
    check!(c, call(|| a.mul_mod_special(&b, Limb(black_box(189)))).map(f), ub(&C_MULSPECIAL); i);
    check!(c, call(|| b.bits()), C_BITS; i);
    // const-evaluated Montgomery constants vs the runtime constructors
    let rt = call(|| MontyParams::new(m));
    let rt_vt = call(|| MontyParams::new_vartime(m));
    let ct = call(MontyParams::<{ U256::LIMBS }>::from_const_params::<P256Mod>);
    let _ = holds!(c, rt.is_ok() && rt == ct, "MontyParams::new == from_const_params"; i);
    let _ = holds!(c, rt_vt.is_ok() && rt_vt == ct, "MontyParams::new_vartime == from_const_params"; i);
    check!(c, call(|| ub(MontyForm::one(rt.clone().unwrap()).as_montgomery())), ub(&<P256Mod as ConstMontyParams<{ U256::LIMBS }>>::ONE); i);
    if let Ok(p) = rt {
        let (ma, mb) = (MontyForm::new(&a, p), MontyForm::new(&b, p));
        check!(c, call(|| ub(ma.as_montgomery())), ub(C_MONTY_A.as_montgomery()); i);
        check!(c, call(|| ub(&(ma * mb).retrieve())), ub(&C_MONTY_MUL); i);
        check!(c, call(|| ub(&ma.pow(&b).retrieve())), ub(&C_MONTY_POW); i);
        check!(c, call(|| ub(&CF::new(&a).mul(&CF::new(&b)).retrieve())), ub(&C_MONTY_MUL); i);
    }
}

pub fn cases() -> Vec<Case> {
    let mut v = Vec::new();
    case!(v, "U64 vs BoxedUint(64): add/sub/mul/div_rem/shl/shr/sqrt/gcd/inv_mod/add_mod/sub_mod/mul_mod (+traits, inverter)", fixed_vs_boxed_64);
    case!(v, "U128 vs BoxedUint(128): add/sub/mul/div_rem/shl/shr/sqrt/gcd/inv_mod/add_mod/sub_mod/mul_mod (+traits, inverter)", fixed_vs_boxed_128);
    case!(v, "U256 vs BoxedUint(256): add/sub/mul/div_rem/shl/shr/sqrt/gcd/inv_mod/add_mod/sub_mod/mul_mod (+traits, inverter)", fixed_vs_boxed_256);
    case!(v, "U1024 vs BoxedUint(1024): add/sub/mul/div_rem/shl/shr/sqrt/gcd/inv_mod/add_mod/sub_mod/mul_mod (+traits, inverter)", fixed_vs_boxed_1024);
    ucases!(v, "ct vs vartime: div_rem/rem/wrapping_div/sqrt/shl/shr/inv_mod2k/bits/zeros/bit", ct_vs_vartime; 1, 2, 3, 4, 16);
    case!(v, "BoxedUint ct vs vartime: div_rem/rem/wrapping_div/sqrt/shl/shr/inv_mod2k/bits/zeros/bit", boxed_ct_vs_vartime);
    ucases!(v, "trait/operator/Wrapping/Checked vs inherent: add/sub/mul/sqrt/shl/shr/bits", forms; 1, 2, 4, 16);
    ucases!(v, "Reciprocal vs one-shot, trait vs inherent, fixed vs boxed: div_rem_limb/rem_limb", reciprocal; 1, 2, 4, 16);
    case!(v, "const-evaluated vs run time (U256 arithmetic, Montgomery constants)", const_vs_runtime);
    v
}
